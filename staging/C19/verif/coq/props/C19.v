(* props/C19.v -- Property C19: coverage factors are the quantiles they claim and invert
   consistently.  Only statements, closed by lemmas proved in KFactorFacts.v, plus the
   axioms each depends on.

   Everything is about the bodies of reporting.k_factor / k2_factor_sq / k_to_dof /
   k2_to_dof / _df_k2 REGENERATED from the source on every run (gen/Gen_reporting.v:
   g_k_factor ...), evaluated over the reals.  The scipy functions are universally
   quantified; what they are assumed to be is an explicit hypothesis of each theorem
   (never an axiom).  The Examples at the end instantiate all hypotheses at once
   (non-vacuity). *)
From Coq Require Import ZArith List Bool Reals Lra.
From Coquelicot Require Import Coquelicot.
From GTCV Require Import Num FNum RNum KFactor KFactorFacts.
From GTCV.gen Require Import Gen_reporting.
Local Open Scope R_scope.

Section C19.
  Variables (stdtrit : R -> R -> R) (ndtri : R -> R) (stdtridf : R -> R -> R)
            (fdtr : R -> R -> R -> R) (fdtri : R -> R -> R -> R)
            (ridder : (R -> res R) -> R -> R -> res R).
  Let O : Scipy RNum := RScipy stdtrit ndtri stdtridf fdtr fdtri ridder.

  (* ---------------------------------------------------------------- range errors *)
  (* k_factor, k_to_dof: RuntimeError exactly outside the documented ranges *)
  Theorem C19_k_factor_range : forall (df : ext R) (p : R),
    g_k_factor RNum O df p = Err RuntimeError <->
    (p <= 0 \/ 100 <= p \/ exists d, df = Fin d /\ d < 1).
  Proof. exact (k_factor_raises_iff stdtrit ndtri stdtridf fdtr fdtri ridder). Qed.

  Theorem C19_k_to_dof_range : forall k p : R,
    g_k_to_dof RNum O k p = Err RuntimeError <-> (k <= 0 \/ p <= 0 \/ 100 <= p).
  Proof. exact (k_to_dof_raises_iff stdtrit ndtri stdtridf fdtr fdtri ridder). Qed.

  Theorem C19_k2_to_dof_range : forall k2 p : R,
    k2 <= 0 \/ p <= 0 \/ 100 <= p -> g_k2_to_dof RNum O k2 p = Err RuntimeError.
  Proof. exact (k2_to_dof_bad stdtrit ndtri stdtridf fdtr fdtri ridder). Qed.

  (* k2_factor_sq: RuntimeError exactly when p is outside (0,100) or df <= 1.
     (Fixed defect C19-1 / DESIGN 7 #27: the source had no check on p and this statement was
     refuted by (df,p) = (3,100) and (inf,150); the finding is replayed as a regression test.) *)
  Theorem C19_k2_factor_sq_range : forall (df : ext R) (p : R),
    g_k2_factor_sq RNum O df p = Err RuntimeError <->
    (p <= 0 \/ 100 <= p \/ exists d, df = Fin d /\ d <= 1).
  Proof. exact (k2_factor_sq_raises_iff stdtrit ndtri stdtridf fdtr fdtri ridder). Qed.

  (* ---------------------------------------------------------------- k_factor *)
  (* For symmetric distributions Tcdf d (Student-t, d dof) and Ncdf (normal) whose
     one-sided quantile functions are stdtrit / ndtri: the value returned has probability
     p% between -k and +k; the normal is used when df is inf or above inf_dof = 1e5. *)
  Theorem C19_k_factor_two_sided :
    forall (Tcdf : R -> R -> R) (Ncdf : R -> R),
      (forall d x, Tcdf d (- x) = 1 - Tcdf d x) ->
      (forall x, Ncdf (- x) = 1 - Ncdf x) ->
      (forall d u, 1 <= d -> 1 / 2 < u < 1 -> Tcdf d (stdtrit d u) = u) ->
      (forall u, 1 / 2 < u < 1 -> Ncdf (ndtri u) = u) ->
      forall (df : ext R) (p : R), 0 < p < 100 -> dof_ok df ->
        exists k, g_k_factor RNum O df p = Ok (Fin k) /\
                  cdf_for Tcdf Ncdf df k - cdf_for Tcdf Ncdf df (- k) = p / 100.
  Proof. exact (k_factor_two_sided stdtrit ndtri stdtridf fdtr fdtri ridder). Qed.

  (* the elementary fact behind it *)
  Theorem C19_two_sided : forall (F : R -> R) (k p : R),
    (forall x, F (- x) = 1 - F x) -> (F k - F (- k) = p <-> F k = (1 + p) / 2).
  Proof. exact two_sided. Qed.

  (* ---------------------------------------------------------------- k_to_dof *)
  (* k_to_dof inverts k_factor on [1, 1e5), given that stdtridf inverts stdtrit (partial:
     an assumption on the oracle) *)
  Theorem C19_k_to_dof_inverse_partial :
    forall (Tcdf : R -> R -> R),
      (forall d x, Tcdf d (- x) = 1 - Tcdf d x) ->
      (forall d x y, 1 <= d -> x <= y -> Tcdf d x <= Tcdf d y) ->
      (forall d u, 1 <= d -> 1 / 2 < u < 1 -> Tcdf d (stdtrit d u) = u) ->
      (forall d u, 1 <= d -> 1 / 2 < u < 1 -> stdtridf u (stdtrit d u) = d) ->
      forall d p k : R, 0 < p < 100 -> 1 <= d < 100000 ->
        g_k_factor RNum O (Fin d) p = Ok (Fin k) -> g_k_to_dof RNum O k p = Ok (Fin d).
  Proof. exact (k_to_dof_inverse stdtrit ndtri stdtridf fdtr fdtri ridder). Qed.

  (* at df = inf_dof exactly the two functions take different sides of the switch *)
  Theorem C19_k_to_dof_at_switch :
    forall (Tcdf : R -> R -> R),
      (forall d x, Tcdf d (- x) = 1 - Tcdf d x) ->
      (forall d x y, 1 <= d -> x <= y -> Tcdf d x <= Tcdf d y) ->
      (forall d u, 1 <= d -> 1 / 2 < u < 1 -> Tcdf d (stdtrit d u) = u) ->
      (forall d u, 1 <= d -> 1 / 2 < u < 1 -> stdtridf u (stdtrit d u) = d) ->
      forall p k : R, 0 < p < 100 ->
        g_k_factor RNum O (Fin 100000) p = Ok (Fin k) -> g_k_to_dof RNum O k p = Ok PInf.
  Proof. exact (k_to_dof_at_switch stdtrit ndtri stdtridf fdtr fdtri ridder). Qed.

  Theorem C19_k_to_dof_inf_partial : forall p k : R,
    (forall u t, 1 / 2 < u < 1 -> 0 < t <= ndtri u -> 100000 <= stdtridf u t) ->
    0 < p < 100 -> 0 < k ->
    g_k_factor RNum O PInf p = Ok (Fin (ndtri (q1 p))) /\
    (k <= ndtri (q1 p) -> g_k_to_dof RNum O k p = Ok PInf).
  Proof. exact (k_to_dof_inf_partial stdtrit ndtri stdtridf fdtr fdtri ridder). Qed.

  (* ---------------------------------------------------------------- k2_factor_sq *)
  (* with fdtri(2,nu,.) the quantile function of F(2,nu) [cdf F2cdf nu x = 1-(1+2x/nu)^(-nu/2)]:
     k2_factor_sq df p = df((1-p)^(-2/(df-1)) - 1) = 2df/(df-1) * p-quantile of F(2,df-1) *)
  Theorem C19_k2_closed :
    (forall nu u, 0 < nu -> 0 < u < 1 -> 0 <= fdtri 2 nu u /\ F2cdf nu (fdtri 2 nu u) = u) ->
    forall d p : R, 1 < d <= 100000 -> 0 < p < 100 ->
      g_k2_factor_sq RNum O (Fin d) p = Ok (Fin (k2sq d (p / 100))) /\
      k2sq d (p / 100) = 2 * d / (d - 1) * F2quant (d - 1) (p / 100) /\
      F2cdf (d - 1) (F2quant (d - 1) (p / 100)) = p / 100.
  Proof. exact (k2_factor_sq_closed stdtrit ndtri stdtridf fdtr fdtri ridder). Qed.

  Theorem C19_k2_infinite : forall (df : ext R) (p : R),
    df = PInf \/ (exists d, df = Fin d /\ 100000 < d) -> 0 < p < 100 ->
    g_k2_factor_sq RNum O df p = Ok (Fin (k2sq_inf (p / 100))).
  Proof. exact (k2_factor_sq_infinite stdtrit ndtri stdtridf fdtr fdtri ridder). Qed.

  (* ---------------------------------------------------------------- _df_k2 / k2_to_dof *)
  (* fn nu2 > 0 / <= 0 / = 0 in _df_k2  iff  k2^2 > / <= / = k2_factor_sq(nu2+1, p) *)
  Theorem C19_k2_inverse_fn :
    (forall nu x, 0 < nu -> 0 <= x -> fdtr 2 nu x = F2cdf nu x) ->
    forall k2 q : R, 0 < q < 1 -> forall nu2 v : R, 0 < nu2 ->
      fnR fdtr k2 q nu2 = Ok v ->
      (0 < v <-> k2sq (nu2 + 1) q < k2 * k2) /\
      (v <= 0 <-> k2 * k2 <= k2sq (nu2 + 1) q) /\
      (v = 0 <-> k2 * k2 = k2sq (nu2 + 1) q).
  Proof. exact (fn_sign fdtr). Qed.

  (* the regenerated _df_k2 IS: one evaluation of fn at lo = 1 - 1E-3, then the bracket
     search over (20, 50, 1E2, 1E3, inf_dof) with that fn *)
  Theorem C19_df_k2_structure : forall k2 q tol : R,
    g__df_k2 RNum O k2 q 2 tol = df_k2_spec fdtr ridder k2 q.
  Proof. exact (df_k2_eq stdtrit ndtri stdtridf fdtr fdtri ridder). Qed.

  Section Ridder.
    Hypothesis H_fdtr : forall nu x, 0 < nu -> 0 <= x -> fdtr 2 nu x = F2cdf nu x.
    (* the root finder returns only roots inside its bracket, and finds one when there is one *)
    Hypothesis H_sound : forall f lo hi r, ridder f lo hi = Ok r -> lo <= r <= hi /\ f r = Ok 0.
    Hypothesis H_finds : forall f lo hi,
      (exists r, lo <= r <= hi /\ f r = Ok 0) -> exists r, ridder f lo hi = Ok r.

    (* RuntimeError ("dof < 2") iff k2^2 is above the coverage factor for lo+1 = 1.999 dof *)
    Theorem C19_k2_to_dof_too_large : forall k2 p : R, 0 < k2 -> 0 < p < 100 ->
      (g_k2_to_dof RNum O k2 p = Err RuntimeError <-> k2sq (k2_lo + 1) (p / 100) < k2 * k2).
    Proof.
      intros k2 p. exact (proj2 (k2_to_dof_range_iff stdtrit ndtri stdtridf fdtr fdtri ridder H_fdtr H_finds k2 p)).
    Qed.

    (* inf iff fn <= 0 on all listed upper limits iff k2^2 <= coverage factor for 1e5+1 dof *)
    Theorem C19_k2_to_dof_inf : forall k2 p : R, 0 < k2 -> 0 < p < 100 ->
      (g_k2_to_dof RNum O k2 p = Ok PInf <-> k2 * k2 <= k2sq 100001 (p / 100)).
    Proof. exact (k2_to_dof_inf_iff stdtrit ndtri stdtridf fdtr fdtri ridder H_fdtr). Qed.

    (* any finite value returned inverts k2_factor_sq *)
    Theorem C19_k2_to_dof_inverts : forall k2 p d : R, 0 < k2 -> 0 < p < 100 ->
      g_k2_to_dof RNum O k2 p = Ok (Fin d) ->
      k2 * k2 = k2sq d (p / 100) /\ k2_lo + 1 <= d <= 100001.
    Proof. exact (k2_to_dof_inverts stdtrit ndtri stdtridf fdtr fdtri ridder H_fdtr H_sound). Qed.

    Theorem C19_k2_to_dof_roundtrip : forall k2 p d : R, 0 < k2 -> 0 < p < 100 ->
      k2_lo + 1 <= d < 100001 -> k2 * k2 = k2sq d (p / 100) ->
      g_k2_to_dof RNum O k2 p = Ok (Fin d).
    Proof. exact (k2_to_dof_roundtrip stdtrit ndtri stdtridf fdtr fdtri ridder H_fdtr H_sound H_finds). Qed.

    (* k2_to_dof(sqrt(k2_factor_sq(df,p)),p) = df on [1.999, 1e5], inf above *)
    Theorem C19_k2_roundtrip :
      (forall nu u, 0 < nu -> 0 < u < 1 -> 0 <= fdtri 2 nu u /\ F2cdf nu (fdtri 2 nu u) = u) ->
      forall (df : ext R) (p s : R), 0 < p < 100 ->
        g_k2_factor_sq RNum O df p = Ok (Fin s) ->
        match df with
        | Fin d => (k2_lo + 1 <= d <= 100000 -> g_k2_to_dof RNum O (sqrt s) p = Ok (Fin d)) /\
                   (100000 < d -> g_k2_to_dof RNum O (sqrt s) p = Ok PInf)
        | PInf => g_k2_to_dof RNum O (sqrt s) p = Ok PInf
        end.
    Proof.
      intros H_fdtri.
      exact (k2_roundtrip_model stdtrit ndtri stdtridf fdtr fdtri ridder H_fdtri H_fdtr H_sound H_finds).
    Qed.
  End Ridder.
End C19.

(* axioms under all theorems about the regenerated functions
   (one Print Assumptions per group: each call walks the whole Reals/Coquelicot closure, ~1.5 s) *)
Definition C19_axioms_of_model_theorems := (C19_k_factor_range,
  C19_k_to_dof_range,
  C19_k2_to_dof_range,
  C19_k2_factor_sq_range,
  C19_k_factor_two_sided,
  C19_two_sided,
  C19_k_to_dof_inverse_partial,
  C19_k_to_dof_at_switch,
  C19_k_to_dof_inf_partial,
  C19_k2_closed,
  C19_k2_infinite,
  C19_k2_inverse_fn,
  C19_df_k2_structure,
  C19_k2_to_dof_too_large,
  C19_k2_to_dof_inf,
  C19_k2_to_dof_inverts,
  C19_k2_to_dof_roundtrip,
  C19_k2_roundtrip).
Print Assumptions C19_axioms_of_model_theorems.


(* ---------------------------------------------------------------- the closed form *)
(* the constant lo of _df_k2 as the theorems above use it *)
Theorem C19_k2_lo_value : 0.998999 < k2_lo < 0.999001.
Proof. exact k2_lo_bounds. Qed.

(* F2cdf is the cdf of the F(2,nu) density (1+2x/nu)^(-(nu+2)/2): starts at 0, stays below 1,
   strictly increasing, derivative = density *)
Theorem C19_F2cdf_is_the_F2_cdf : forall nu : R, 0 < nu ->
  F2cdf nu 0 = 0 /\
  (forall x, F2cdf nu x < 1) /\
  (forall x y, 0 <= x -> x < y -> F2cdf nu x < F2cdf nu y) /\
  (forall x, 0 <= x -> is_derive (F2cdf nu) x (F2pdf nu x)).
Proof.
  intros nu H. split; [exact (F2cdf_0 nu H)|]. split; [exact (F2cdf_lt_1 nu)|].
  split; [intros x y; exact (F2cdf_incr nu x y H) | intros x; exact (F2cdf_derive nu x H)].
Qed.

(* increasing in p, decreasing in df *)
Theorem C19_k2_monotone :
  (forall df q1 q2 : R, 1 < df -> 0 < q1 -> q1 < q2 -> q2 < 1 -> k2sq df q1 < k2sq df q2) /\
  (forall q1 q2 : R, 0 < q1 -> q1 < q2 -> q2 < 1 -> k2sq_inf q1 < k2sq_inf q2) /\
  (forall d1 d2 q : R, 1 < d1 -> d1 < d2 -> 0 < q < 1 -> k2sq d2 q < k2sq d1 q).
Proof. exact (conj k2sq_incr_q (conj k2sq_inf_incr_q k2sq_decr_df)). Qed.

(* -2 ln(1-p) is the limit df -> inf; every finite-dof value lies above it, by at most
   c(1+c)/(df-1-c) with c = -2ln(1-p): the size of the jump at the df = 1e5 switch *)
Theorem C19_k2_limit : forall q : R, 0 < q < 1 ->
  is_lim (fun df => k2sq df q) p_infty (k2sq_inf q) /\
  (forall df, 1 < df -> k2sq_inf q < k2sq df q) /\
  (forall df, 1 + k2sq_inf q < df ->
     k2sq df q - k2sq_inf q <= k2sq_inf q * (1 + k2sq_inf q) / (df - 1 - k2sq_inf q)).
Proof.
  intros q H. split; [exact (k2sq_lim q H)|].
  split; [intros df Hd; exact (k2sq_gt_inf df q Hd H) | intros df; exact (k2sq_gap df q H)].
Qed.


(* axioms under the closed-form theorems
   (one Print Assumptions per group: each call walks the whole Reals/Coquelicot closure, ~1.5 s) *)
Definition C19_axioms_of_closed_form_theorems := (C19_k2_lo_value,
  C19_F2cdf_is_the_F2_cdf,
  C19_k2_monotone,
  C19_k2_limit).
Print Assumptions C19_axioms_of_closed_form_theorems.

(* ---------------------------------------------------------------- non-vacuity *)
(* all hypotheses used above hold together for concrete functions: the F(2,nu) closed forms
   with an ideal root finder, and a scaled-Cauchy family (Cauchy = Student-t with 1 dof) *)
Example C19_hypotheses_satisfiable :
  (forall nu x, 0 < nu -> 0 <= x -> w_fdtr 2 nu x = F2cdf nu x) /\
  (forall nu u, 0 < nu -> 0 < u < 1 -> 0 <= w_fdtri 2 nu u /\ F2cdf nu (w_fdtri 2 nu u) = u) /\
  (forall f lo hi r, w_ridder f lo hi = Ok r -> lo <= r <= hi /\ f r = Ok 0) /\
  (forall f lo hi, (exists r, lo <= r <= hi /\ f r = Ok 0) -> exists r, w_ridder f lo hi = Ok r) /\
  (forall d x, w_Tcdf d (- x) = 1 - w_Tcdf d x) /\
  (forall x, w_Ncdf (- x) = 1 - w_Ncdf x) /\
  (forall d x y, 1 <= d -> x <= y -> w_Tcdf d x <= w_Tcdf d y) /\
  (forall d u, 1 <= d -> 1 / 2 < u < 1 -> w_Tcdf d (w_stdtrit d u) = u) /\
  (forall u, 1 / 2 < u < 1 -> w_Ncdf (w_ndtri u) = u) /\
  (forall d u, 1 <= d -> 1 / 2 < u < 1 -> w_stdtridf u (w_stdtrit d u) = d) /\
  (forall u t, 1 / 2 < u < 1 -> 0 < t <= w_ndtri u -> 100000 <= w_stdtridf u t).
Proof.
  exact (conj w_fdtr_ok (conj w_fdtri_ok (conj w_ridder_sound (conj w_ridder_finds
        (conj w_T_sym (conj w_N_sym (conj w_T_mono (conj w_stdtrit_ok (conj w_ndtri_ok
        (conj w_stdtridf_ok w_noroot)))))))))).
Qed.

(* with them: the doctest point k2_factor_sq(3, 95) = 57 exactly and its round trip,
   and a t-quantile round trip *)
Example C19_example_k2 :
  let O := RScipy w_stdtrit w_ndtri w_stdtridf w_fdtr w_fdtri w_ridder in
  g_k2_factor_sq RNum O (Fin 3) 95 = Ok (Fin 57) /\
  g_k2_to_dof RNum O (sqrt 57) 95 = Ok (Fin 3).
Proof.
  intros O.
  destruct (C19_k2_closed w_stdtrit w_ndtri w_stdtridf w_fdtr w_fdtri w_ridder w_fdtri_ok 3 95
              ltac:(lra) ltac:(lra)) as [E _].
  rewrite k2sq_3_95 in E. split; [exact E|].
  pose proof k2_lo_bounds as B.
  exact (proj1 (C19_k2_roundtrip w_stdtrit w_ndtri w_stdtridf w_fdtr w_fdtri w_ridder
           w_fdtr_ok w_ridder_sound w_ridder_finds w_fdtri_ok (Fin 3) 95 57 ltac:(lra) E) ltac:(lra)).
Qed.

Example C19_example_k :
  let O := RScipy w_stdtrit w_ndtri w_stdtridf w_fdtr w_fdtri w_ridder in
  exists k, g_k_factor RNum O (Fin 3) 95 = Ok (Fin k) /\
            w_Tcdf 3 k - w_Tcdf 3 (- k) = 95 / 100 /\
            g_k_to_dof RNum O k 95 = Ok (Fin 3).
Proof.
  intros O.
  destruct (C19_k_factor_two_sided w_stdtrit w_ndtri w_stdtridf w_fdtr w_fdtri w_ridder
              w_Tcdf w_Ncdf w_T_sym w_N_sym w_stdtrit_ok w_ndtri_ok (Fin 3) 95 ltac:(lra)
              ltac:(simpl; lra)) as [k [E C]].
  exists k. split; [exact E|]. split.
  - simpl in C. destruct (Rle_dec 3 100000) as [_|n]; [exact C | lra].
  - exact (C19_k_to_dof_inverse_partial w_stdtrit w_ndtri w_stdtridf w_fdtr w_fdtri w_ridder
             w_Tcdf w_T_sym w_T_mono w_stdtrit_ok w_stdtridf_ok 3 95 k ltac:(lra) ltac:(lra) E).
Qed.

(* both sides of the k2_to_dof case split occur: too large a factor is rejected, a small one is inf *)
Example C19_example_k2_to_dof_cases :
  let O := RScipy w_stdtrit w_ndtri w_stdtridf w_fdtr w_fdtri w_ridder in
  g_k2_to_dof RNum O 1000 95 = Err RuntimeError /\
  g_k2_to_dof RNum O 1 95 = Ok PInf /\
  g_k2_to_dof RNum O 0 95 = Err RuntimeError /\
  g_k_factor RNum O (Fin (1 / 2)) 95 = Err RuntimeError /\
  g_k2_factor_sq RNum O (Fin 1) 95 = Err RuntimeError.
Proof.
  intros O. split; [|split; [|split; [|split]]].
  - apply (C19_k2_to_dof_too_large w_stdtrit w_ndtri w_stdtridf w_fdtr w_fdtri w_ridder
             w_fdtr_ok w_ridder_finds 1000 95 ltac:(lra) ltac:(lra)).
    exact k2sq_lo_95_bound.
  - apply (C19_k2_to_dof_inf w_stdtrit w_ndtri w_stdtridf w_fdtr w_fdtri w_ridder
             w_fdtr_ok 1 95 ltac:(lra) ltac:(lra)).
    exact k2sq_inf_95_bound.
  - apply C19_k2_to_dof_range. left. lra.
  - apply C19_k_factor_range. right. right. exists (1 / 2). split; [reflexivity | lra].
  - apply C19_k2_factor_sq_range. right. right. exists 1. split; [reflexivity | lra].
Qed.

(* axioms under the examples (the ideal root finder is built with classical epsilon)
   (one Print Assumptions per group: each call walks the whole Reals/Coquelicot closure, ~1.5 s) *)
Definition C19_axioms_of_examples := (C19_hypotheses_satisfiable,
  C19_example_k2,
  C19_example_k,
  C19_example_k2_to_dof_cases).
Print Assumptions C19_axioms_of_examples.

(* ---------------------------------------------------------------- binary64: NaN and huge arguments *)
From Coq Require Import PrimFloat.
(* (Fixed defect C19-3.)  Over binary64, for every oracle table: a NaN p, k, k2 or df is
   rejected with RuntimeError by every function.  With the old guards (`p <= 0 or p >= 100`,
   `k <= 0`) NaN passed and nan / inf came back. *)
Theorem C19_nan_rejected : forall (lt : list oracle_entry) (st : list sentry),
  let N := FNum lt in let O := FScipy lt st in
  (forall df, g_k_factor N O df PrimFloat.nan = Err RuntimeError) /\
  (forall df, g_k2_factor_sq N O df PrimFloat.nan = Err RuntimeError) /\
  (forall k, g_k_to_dof N O k PrimFloat.nan = Err RuntimeError) /\
  (forall k2, g_k2_to_dof N O k2 PrimFloat.nan = Err RuntimeError) /\
  (forall p, g_k_to_dof N O PrimFloat.nan p = Err RuntimeError /\
             g_k2_to_dof N O PrimFloat.nan p = Err RuntimeError) /\
  (forall p, g_k_factor N O (Fin PrimFloat.nan) p = Err RuntimeError /\
             g_k2_factor_sq N O (Fin PrimFloat.nan) p = Err RuntimeError).
Proof.
  intros lt st N O.
  destruct (nan_p_rejected lt st) as [A [B [C D]]].
  exact (conj A (conj B (conj C (conj D (conj (nan_k_rejected lt st) (nan_df_rejected lt st)))))).
Qed.

(* (Fixed defect C19-2.)  k2_to_dof(1e200, 95) is RuntimeError("dof < 2"), not OverflowError:
   evaluated with an EMPTY libm table (so `**` is not used) and fdtr(2, lo, +inf) = 1 *)
Example C19_k2_to_dof_huge_k2 :
  g_k2_to_dof (FNum nil)
    (FScipy nil (cons (S_fdtr, cons 2%float (cons 0x1.ff7ced916872bp-1%float (cons PrimFloat.infinity nil)), Ok 1%float) nil))
    0x1.4e718d7d7625ap+664%float 95%float = Err RuntimeError.
Proof. exact k2_to_dof_huge_k2. Qed.

Definition C19_axioms_of_binary64_theorems := (C19_nan_rejected, C19_k2_to_dof_huge_k2).
Print Assumptions C19_axioms_of_binary64_theorems.

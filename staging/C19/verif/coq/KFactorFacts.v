(* KFactorFacts.v -- theorems about the coverage-factor functions of GTC/reporting.py.

   Part A is real analysis about the closed forms the property names:
     F2cdf nu x  = 1 - (1 + 2x/nu)^(-nu/2)      the F(2,nu) cdf (taken as definition; its
                                                 derivative is shown to be the F(2,nu) density)
     F2quant nu q = (nu/2)((1-q)^(-2/nu) - 1)    its quantile
     k2sq df q    = df((1-q)^(-2/(df-1)) - 1)    the squared bivariate coverage factor
     k2sq_inf q   = -2 ln(1-q)                   its limit
   Part B instantiates the bodies REGENERATED from the source (gen/Gen_reporting.v) at the
   reals, with the scipy functions as Section variables, and characterises what each
   returns; Part C derives the statements of property C19 from hypotheses that say what the
   scipy functions are (quantile / cdf / root finder). *)
From Coq Require Import ZArith List Bool Reals Lra Lia Psatz ClassicalEpsilon.
From Coquelicot Require Import Coquelicot.
From GTCV Require Import Num FNum RNum KFactor.
From GTCV.gen Require Import Gen_reporting.
Import ListNotations.
Local Open Scope R_scope.

(* ====================================================================== *)
(* Part A : the closed forms                                               *)
(* ====================================================================== *)

Definition F2cdf (nu x : R) : R := 1 - Rpower (1 + 2 * x / nu) (- nu / 2).
Definition F2pdf (nu x : R) : R := Rpower (1 + 2 * x / nu) (- (nu + 2) / 2).
Definition F2quant (nu q : R) : R := nu / 2 * (Rpower (1 - q) (- 2 / nu) - 1).
Definition k2sq (df q : R) : R := df * (Rpower (1 - q) (- 2 / (df - 1)) - 1).
Definition k2sq_inf (q : R) : R := - 2 * ln (1 - q).

Lemma Rpower_pos a c : 0 < Rpower a c.
Proof. unfold Rpower. apply exp_pos. Qed.

Lemma Rpower_neg_decr a b c : 0 < a -> a < b -> c < 0 -> Rpower b c < Rpower a c.
Proof.
  intros Ha Hab Hc. unfold Rpower. apply exp_increasing.
  pose proof (ln_increasing a b Ha Hab). nra.
Qed.

Lemma Rpower_gt1_neg a c : 0 < a -> a < 1 -> c < 0 -> 1 < Rpower a c.
Proof.
  intros Ha Ha1 Hc. unfold Rpower. rewrite <- exp_0. apply exp_increasing.
  pose proof (ln_increasing a 1 Ha Ha1) as H. rewrite ln_1 in H. nra.
Qed.

Lemma ln_1mq_neg q : 0 < q -> q < 1 -> ln (1 - q) < 0.
Proof.
  intros H0 H1. rewrite <- ln_1. apply ln_increasing; lra.
Qed.

Lemma F2quant_pos nu q : 0 < nu -> 0 < q < 1 -> 0 < F2quant nu q.
Proof.
  intros Hnu [H0 H1]. unfold F2quant.
  assert (1 < Rpower (1 - q) (- 2 / nu)).
  { apply Rpower_gt1_neg; try lra.
    assert (0 < 2 / nu) by (apply Rdiv_lt_0_compat; lra).
    replace (- 2 / nu) with (- (2 / nu)) by (field; lra). lra. }
  apply Rmult_lt_0_compat; lra.
Qed.

(* the quantile formula inverts the cdf *)
Lemma F2cdf_quant nu q : 0 < nu -> 0 < q < 1 -> F2cdf nu (F2quant nu q) = q.
Proof.
  intros Hnu [H0 H1]. unfold F2cdf, F2quant.
  replace (1 + 2 * (nu / 2 * (Rpower (1 - q) (- 2 / nu) - 1)) / nu)
    with (Rpower (1 - q) (- 2 / nu)) by (field; lra).
  rewrite Rpower_mult.
  replace (- 2 / nu * (- nu / 2)) with 1 by (field; lra).
  rewrite Rpower_1 by lra. lra.
Qed.

Lemma F2cdf_incr nu x y : 0 < nu -> 0 <= x -> x < y -> F2cdf nu x < F2cdf nu y.
Proof.
  intros Hnu Hx Hxy. unfold F2cdf.
  assert (Rpower (1 + 2 * y / nu) (- nu / 2) < Rpower (1 + 2 * x / nu) (- nu / 2)).
  { apply Rpower_neg_decr.
    - assert (0 <= 2 * x / nu) by (apply Rmult_le_pos; [lra | left; apply Rinv_0_lt_compat; lra]). lra.
    - unfold Rdiv. apply Rplus_lt_compat_l. apply Rmult_lt_compat_r; [apply Rinv_0_lt_compat; lra | lra].
    - lra. }
  lra.
Qed.

Lemma F2cdf_0 nu : 0 < nu -> F2cdf nu 0 = 0.
Proof.
  intros Hnu. unfold F2cdf. replace (1 + 2 * 0 / nu) with 1 by (field; lra).
  unfold Rpower. rewrite ln_1, Rmult_0_r, exp_0. lra.
Qed.

Lemma F2cdf_lt_1 nu x : F2cdf nu x < 1.
Proof. unfold F2cdf. pose proof (Rpower_pos (1 + 2 * x / nu) (- nu / 2)). lra. Qed.

(* position of x relative to the quantile = position of the cdf relative to q *)
Lemma F2cdf_gt_iff nu q x : 0 < nu -> 0 < q < 1 -> 0 <= x ->
  (q < F2cdf nu x <-> F2quant nu q < x).
Proof.
  intros Hnu Hq Hx. pose proof (F2cdf_quant nu q Hnu Hq) as E.
  pose proof (F2quant_pos nu q Hnu Hq) as P. split; intros H.
  - destruct (Rlt_le_dec (F2quant nu q) x) as [L|L]; [exact L|exfalso].
    destruct L as [L|L].
    + pose proof (F2cdf_incr nu x (F2quant nu q) Hnu Hx L). lra.
    + rewrite L in H. lra.
  - pose proof (F2cdf_incr nu (F2quant nu q) x Hnu (Rlt_le _ _ P) H). lra.
Qed.

Lemma F2cdf_eq_iff nu q x : 0 < nu -> 0 < q < 1 -> 0 <= x ->
  (F2cdf nu x = q <-> x = F2quant nu q).
Proof.
  intros Hnu Hq Hx. pose proof (F2cdf_quant nu q Hnu Hq) as E.
  pose proof (F2quant_pos nu q Hnu Hq) as P. split; intros H.
  - destruct (Rtotal_order x (F2quant nu q)) as [L|[L|L]]; [exfalso|exact L|exfalso].
    + pose proof (F2cdf_incr nu x (F2quant nu q) Hnu Hx L). lra.
    + pose proof (F2cdf_incr nu (F2quant nu q) x Hnu (Rlt_le _ _ P) L). lra.
  - subst x. exact E.
Qed.

(* the F(2,nu) density is the derivative of the cdf *)
Lemma F2cdf_derive nu x : 0 < nu -> 0 <= x -> is_derive (F2cdf nu) x (F2pdf nu x).
Proof.
  intros Hnu Hx.
  assert (P : 0 < 1 + 2 * x / nu).
  { assert (0 <= 2 * x / nu) by (apply Rmult_le_pos; [lra | left; apply Rinv_0_lt_compat; lra]). lra. }
  unfold F2cdf, F2pdf, Rpower.
  auto_derive.
  - exact P.
  - set (L := ln (1 + 2 * x / nu)).
    replace (ln (1 + 2 * x * / nu)) with L by reflexivity.
    replace (- (nu + 2) / 2 * L) with (- nu / 2 * L + - L) by field.
    rewrite exp_plus, exp_Ropp. unfold L. rewrite exp_ln by exact P.
    unfold Rdiv in *. field. split; lra.
Qed.

(* k2sq is the normalised F(2, df-1) quantile: 2df/(df-1) * quantile *)
Lemma k2sq_F2quant df q : 1 < df -> k2sq df q = 2 * df / (df - 1) * F2quant (df - 1) q.
Proof. intros H. unfold k2sq, F2quant. field. lra. Qed.

Lemma k2sq_pos df q : 1 < df -> 0 < q < 1 -> 0 < k2sq df q.
Proof.
  intros H Hq. rewrite k2sq_F2quant by exact H.
  apply Rmult_lt_0_compat; [apply Rdiv_lt_0_compat; lra | apply F2quant_pos; lra].
Qed.

(* increasing in the coverage probability *)
Lemma k2sq_incr_q df q1 q2 : 1 < df -> 0 < q1 -> q1 < q2 -> q2 < 1 -> k2sq df q1 < k2sq df q2.
Proof.
  intros H H0 H12 H1. unfold k2sq.
  assert (Rpower (1 - q1) (- 2 / (df - 1)) < Rpower (1 - q2) (- 2 / (df - 1))).
  { apply Rpower_neg_decr; try lra.
    assert (0 < 2 / (df - 1)) by (apply Rdiv_lt_0_compat; lra).
    replace (- 2 / (df - 1)) with (- (2 / (df - 1))) by (field; lra). lra. }
  apply Rmult_lt_compat_l; lra.
Qed.

Lemma k2sq_inf_incr_q q1 q2 : 0 < q1 -> q1 < q2 -> q2 < 1 -> k2sq_inf q1 < k2sq_inf q2.
Proof.
  intros H0 H12 H1. unfold k2sq_inf.
  assert (ln (1 - q2) < ln (1 - q1)) by (apply ln_increasing; lra). lra.
Qed.

(* ---- dependence on df: write k2sq df q = G c (df-1) with c = -2 ln(1-q) > 0 ---- *)
Definition G (c n : R) : R := (n + 1) * (exp (c / n) - 1).

Lemma k2sq_G df q : 1 < df -> 0 < q < 1 -> k2sq df q = G (k2sq_inf q) (df - 1).
Proof.
  intros H Hq. unfold k2sq, G, k2sq_inf, Rpower.
  replace (df - 1 + 1) with df by ring.
  f_equal. f_equal. f_equal. field. lra.
Qed.

Lemma k2sq_inf_pos q : 0 < q < 1 -> 0 < k2sq_inf q.
Proof. intros [H0 H1]. unfold k2sq_inf. pose proof (ln_1mq_neg q H0 H1). lra. Qed.

Lemma exp_1mh h : exp h * (1 - h) <= 1.
Proof.
  destruct (Rle_lt_dec 1 h) as [L|L].
  - pose proof (exp_pos h). nra.
  - pose proof (exp_ineq1_le (- h)) as E. rewrite exp_Ropp in E.
    pose proof (exp_pos h) as P.
    assert (exp h * / exp h = 1) by (field; lra).
    nra.
Qed.

Definition G' (c n : R) : R := (exp (c / n) - 1) + (n + 1) * (exp (c / n) * (- c / (n * n))).

Lemma G_derive c n : 0 < n -> is_derive (G c) n (G' c n).
Proof.
  intros Hn. unfold G, G', Rdiv. auto_derive; [lra|]. field. lra.
Qed.

Lemma G'_neg c n : 0 < c -> 0 < n -> G' c n < 0.
Proof.
  intros Hc Hn. unfold G'.
  set (h := c / n).
  assert (Hh : 0 < h) by (apply Rdiv_lt_0_compat; lra).
  pose proof (exp_1mh h) as E. pose proof (exp_pos h) as P.
  replace ((n + 1) * (exp h * (- c / (n * n)))) with (- (exp h * h) - exp h * h / n)
    by (unfold h; field; lra).
  assert (0 < exp h * h / n).
  { apply Rdiv_lt_0_compat; [apply Rmult_lt_0_compat|]; lra. }
  nra.
Qed.

Lemma G_decr c n1 n2 : 0 < c -> 0 < n1 -> n1 < n2 -> G c n2 < G c n1.
Proof.
  intros Hc H1 H12.
  destruct (MVT_gen (G c) n1 n2 (G' c)) as [x [[Hx1 Hx2] E]].
  - intros x [Hx _]. apply G_derive. rewrite Rmin_left in Hx by lra. lra.
  - intros x [Hx _]. rewrite Rmin_left in Hx by lra.
    apply continuity_pt_filterlim.
    apply (ex_derive_continuous (G c) x). exists (G' c x). apply G_derive. lra.
  - rewrite Rmin_left in Hx1 by lra. rewrite Rmax_right in Hx2 by lra.
    assert (G' c x < 0) by (apply G'_neg; lra). nra.
Qed.

(* decreasing in the degrees of freedom *)
Lemma k2sq_decr_df d1 d2 q : 1 < d1 -> d1 < d2 -> 0 < q < 1 -> k2sq d2 q < k2sq d1 q.
Proof.
  intros H1 H12 Hq. rewrite !k2sq_G by lra.
  apply G_decr; [apply k2sq_inf_pos; exact Hq | lra | lra].
Qed.

Lemma k2sq_decr_df_le d1 d2 q : 1 < d1 -> d1 <= d2 -> 0 < q < 1 -> k2sq d2 q <= k2sq d1 q.
Proof.
  intros H1 [H12|H12] Hq; [left; apply k2sq_decr_df; assumption | subst; right; reflexivity].
Qed.

Lemma k2sq_inj_df d1 d2 q : 1 < d1 -> 1 < d2 -> 0 < q < 1 -> k2sq d1 q = k2sq d2 q -> d1 = d2.
Proof.
  intros H1 H2 Hq E. destruct (Rtotal_order d1 d2) as [L|[L|L]]; [exfalso|exact L|exfalso].
  - pose proof (k2sq_decr_df d1 d2 q H1 L Hq). lra.
  - pose proof (k2sq_decr_df d2 d1 q H2 L Hq). lra.
Qed.

(* ---- the infinite-dof value is the limit, with an explicit gap ---- *)
Lemma G_lower c n : 0 < c -> 0 < n -> c < G c n.
Proof.
  intros Hc Hn. unfold G.
  assert (Hh : 0 < c / n) by (apply Rdiv_lt_0_compat; lra).
  pose proof (exp_ineq1_le (c / n)) as E.
  assert (c = n * (c / n)) by (field; lra).
  nra.
Qed.

Lemma G_upper c n : 0 < c -> c < n -> G c n <= c + c * (1 + c) / (n - c).
Proof.
  intros Hc Hn. unfold G.
  set (h := c / n).
  assert (Hh : 0 < h) by (apply Rdiv_lt_0_compat; lra).
  assert (Hh1 : h < 1) by (unfold h; apply Rmult_lt_reg_r with n; [lra|]; field_simplify; lra).
  pose proof (exp_1mh h) as E.
  assert (X : exp h - 1 <= h / (1 - h)).
  { apply Rmult_le_reg_r with (1 - h); [lra|]. field_simplify; [|lra]. nra. }
  replace (c + c * (1 + c) / (n - c)) with ((n + 1) * (h / (1 - h))) by (unfold h; field; lra).
  apply Rmult_le_compat_l; lra.
Qed.

(* the finite-dof value always exceeds the infinite-dof one ... *)
Lemma k2sq_gt_inf df q : 1 < df -> 0 < q < 1 -> k2sq_inf q < k2sq df q.
Proof.
  intros H Hq. rewrite k2sq_G by assumption. apply G_lower; [apply k2sq_inf_pos; exact Hq | lra].
Qed.

(* ... by at most c(1+c)/(df-1-c), c = -2ln(1-q): this is the size of the jump at the
   finite/infinite switch (df = inf_dof = 1e5) *)
Lemma k2sq_gap df q : 0 < q < 1 -> 1 + k2sq_inf q < df ->
  k2sq df q - k2sq_inf q <= k2sq_inf q * (1 + k2sq_inf q) / (df - 1 - k2sq_inf q).
Proof.
  intros Hq H. pose proof (k2sq_inf_pos q Hq) as P.
  rewrite k2sq_G by lra.
  pose proof (G_upper (k2sq_inf q) (df - 1) P ltac:(lra)). lra.
Qed.

Lemma k2sq_lim q : 0 < q < 1 -> is_lim (fun df => k2sq df q) p_infty (k2sq_inf q).
Proof.
  intros Hq. pose proof (k2sq_inf_pos q Hq) as P. set (c := k2sq_inf q) in *.
  apply is_lim_spec. intros eps. destruct eps as [eps He]. simpl.
  exists (1 + c + c * (1 + c) / eps + 1). intros df Hdf.
  assert (0 < c * (1 + c) / eps) by (apply Rdiv_lt_0_compat; nra).
  assert (Hd : 1 + c < df) by lra.
  pose proof (k2sq_gap df q Hq Hd) as U. pose proof (k2sq_gt_inf df q ltac:(lra) Hq) as L.
  fold c in U, L.
  rewrite Rabs_pos_eq by lra.
  apply Rle_lt_trans with (1 := U).
  apply Rmult_lt_reg_r with (df - 1 - c); [lra|].
  replace (c * (1 + c) / (df - 1 - c) * (df - 1 - c)) with (c * (1 + c)) by (field; lra).
  assert (c * (1 + c) = c * (1 + c) / eps * eps) by (field; lra).
  nra.
Qed.

(* a dof with a prescribed k2sq exists between two brackets (intermediate values) *)
Lemma k2sq_root_exists q K lo hi : 0 < q < 1 -> 0 < lo -> lo < hi ->
  k2sq (hi + 1) q < K -> K <= k2sq (lo + 1) q ->
  exists r, lo <= r <= hi /\ K = k2sq (r + 1) q.
Proof.
  intros Hq Hlo Hlh Hhi [Hl|Hl]; [|exists lo; split; [lra|exact Hl]].
  pose proof (k2sq_inf_pos q Hq) as Pc. set (c := k2sq_inf q) in *.
  assert (E : forall n, 0 < n -> k2sq (n + 1) q = G c n).
  { intros n Hn. rewrite k2sq_G by lra. fold c. f_equal. ring. }
  rewrite E in Hhi, Hl by lra.
  destruct (Ranalysis5.IVT_interv (fun n => K - G c n) lo hi) as [z [Hz Ez]].
  - intros a Ha. apply continuity_pt_filterlim.
    apply (ex_derive_continuous (fun n => K - G c n) a).
    unfold G. auto_derive. lra.
  - exact Hlh.
  - lra.
  - lra.
  - exists z. split; [exact Hz|]. rewrite E by lra. lra.
Qed.

(* ---- two-sided coverage of a symmetric continuous distribution ---- *)
Lemma two_sided (F : R -> R) (k p : R) :
  (forall x, F (- x) = 1 - F x) -> (F k - F (- k) = p <-> F k = (1 + p) / 2).
Proof. intros S. rewrite S. split; intros; lra. Qed.

(* ====================================================================== *)
(* Part B : the regenerated function bodies at the reals                   *)
(* ====================================================================== *)

Lemma Rleb_true a b : a <= b -> Rleb a b = true.
Proof. intros H. unfold Rleb. destruct (Rle_dec a b); [reflexivity | contradiction]. Qed.
Lemma Rleb_false a b : b < a -> Rleb a b = false.
Proof. intros H. unfold Rleb. destruct (Rle_dec a b); [lra | reflexivity]. Qed.
Lemma Rltb_true a b : a < b -> Rltb a b = true.
Proof. intros H. unfold Rltb. destruct (Rlt_dec a b); [reflexivity | contradiction]. Qed.
Lemma Rltb_false a b : b <= a -> Rltb a b = false.
Proof. intros H. unfold Rltb. destruct (Rlt_dec a b); [lra | reflexivity]. Qed.
Lemma R_div_ok x y : y <> 0 -> R_div x y = Ok (x / y).
Proof. intros H. unfold R_div. destruct (Req_EM_T y 0); [contradiction | reflexivity]. Qed.

(* decide every comparison in the goal from the hypotheses *)
Ltac kf_cmp :=
  repeat match goal with
  | |- context [Rleb ?a ?b] =>
      first [ rewrite (Rleb_true a b) by lra | rewrite (Rleb_false a b) by lra ]
  | |- context [Rltb ?a ?b] =>
      first [ rewrite (Rltb_true a b) by lra | rewrite (Rltb_false a b) by lra ]
  | |- context [R_div ?a ?b] => rewrite (R_div_ok a b) by lra
  | |- context [Rlt_dec ?a ?b] =>
      first [ destruct (Rlt_dec a b) as [_|?]; [|exfalso; lra]
            | destruct (Rlt_dec a b) as [?|_]; [exfalso; lra|] ]
  end.

Ltac kf_run := repeat (progress (cbn; kf_cmp)).

Section Model.
  Variables (stdtrit : R -> R -> R) (ndtri : R -> R) (stdtridf : R -> R -> R)
            (fdtr : R -> R -> R -> R) (fdtri : R -> R -> R -> R)
            (ridder : (R -> res R) -> R -> R -> res R).

  Definition RScipy : Scipy RNum :=
    Build_Scipy RNum (fun a b : R => Ok (stdtrit a b)) (fun a : R => Ok (ndtri a))
      (fun a b : R => Ok (stdtridf a b)) (fun a b c : R => Ok (fdtr a b c))
      (fun a b c : R => Ok (fdtri a b c)) ridder (fun _ : R => true) (fun _ : R => true).

  Definition k_factor := g_k_factor RNum RScipy.
  Definition k_to_dof := g_k_to_dof RNum RScipy.
  Definition k2_factor_sq := g_k2_factor_sq RNum RScipy.
  Definition k2_to_dof := g_k2_to_dof RNum RScipy.
  Definition inf_dof : R := g_inf_dof RNum.

  Lemma inf_dof_val : inf_dof = 100000.
  Proof. unfold inf_dof, g_inf_dof. cbn. lra. Qed.

  (* the probability handed to the one-sided quantile functions *)
  Definition q1 (p : R) : R := (1 + p / 100) / 2.

  (* ---------------- k_factor ---------------- *)
  Lemma k_factor_bad_p df p : p <= 0 \/ 100 <= p -> k_factor df p = Err RuntimeError.
  Proof.
    intros [H|H]; unfold k_factor, g_k_factor; kf_run; reflexivity.
  Qed.

  Lemma k_factor_fin d p : 0 < p < 100 -> 1 <= d <= 100000 ->
    k_factor (Fin d) p = Ok (Fin (stdtrit d (q1 p))).
  Proof.
    intros Hp Hd. unfold k_factor, g_k_factor, g_inf_dof, q1. kf_run.
    repeat f_equal; lra.
  Qed.

  Lemma k_factor_large d p : 0 < p < 100 -> 100000 < d ->
    k_factor (Fin d) p = Ok (Fin (ndtri (q1 p))).
  Proof.
    intros Hp Hd. unfold k_factor, g_k_factor, g_inf_dof, q1. kf_run.
    repeat f_equal; lra.
  Qed.

  Lemma k_factor_inf p : 0 < p < 100 -> k_factor PInf p = Ok (Fin (ndtri (q1 p))).
  Proof.
    intros Hp. unfold k_factor, g_k_factor, g_inf_dof, q1. kf_run.
    repeat f_equal; lra.
  Qed.

  Lemma k_factor_small d p : 0 < p < 100 -> d < 1 -> k_factor (Fin d) p = Err RuntimeError.
  Proof.
    intros Hp Hd. unfold k_factor, g_k_factor, g_inf_dof. kf_run. reflexivity.
  Qed.

  (* ---------------- k_to_dof ---------------- *)
  Lemma k_to_dof_bad k p : k <= 0 \/ p <= 0 \/ 100 <= p -> k_to_dof k p = Err RuntimeError.
  Proof.
    intros H. unfold k_to_dof, g_k_to_dof.
    destruct (Rle_lt_dec k 0) as [Hk|Hk]; [kf_run; reflexivity|].
    destruct H as [H|[H|H]]; [lra| |]; kf_run; reflexivity.
  Qed.

  Lemma k_to_dof_fin k p : 0 < k -> 0 < p < 100 -> stdtridf (q1 p) k < 100000 ->
    k_to_dof k p = Ok (Fin (stdtridf (q1 p) k)).
  Proof.
    intros Hk Hp Hd. unfold k_to_dof, g_k_to_dof, g_inf_dof. unfold q1 in Hd. kf_run.
    replace ((1 * 1 + p / (100 * 1)) / (2 * 1)) with ((1 + p / 100) / 2) by (field; lra).
    kf_run. reflexivity.
  Qed.

  Lemma k_to_dof_big k p : 0 < k -> 0 < p < 100 -> 100000 <= stdtridf (q1 p) k ->
    k_to_dof k p = Ok PInf.
  Proof.
    intros Hk Hp Hd. unfold k_to_dof, g_k_to_dof, g_inf_dof. unfold q1 in Hd. kf_run.
    replace ((1 * 1 + p / (100 * 1)) / (2 * 1)) with ((1 + p / 100) / 2) by (field; lra).
    kf_run. reflexivity.
  Qed.

  (* ---------------- k2_factor_sq ---------------- *)
  (* (k2_factor_sq checks p since fix C19-1; the lemmas for p in range did not need it) *)
  Lemma k2_factor_sq_small d p : d <= 1 -> k2_factor_sq (Fin d) p = Err RuntimeError.
  Proof.
    intros Hd. unfold k2_factor_sq, g_k2_factor_sq, g_inf_dof.
    destruct (Rle_lt_dec p 0); destruct (Rle_lt_dec 100 p); try (exfalso; lra); kf_run; reflexivity.
  Qed.

  Lemma k2_factor_sq_fin_in d p : 1 < d <= 100000 -> 0 < p < 100 ->
    k2_factor_sq (Fin d) p = Ok (Fin (2 * d / (d - 1) * fdtri 2 (d - 1) (p / 100))).
  Proof.
    intros Hd Hp. unfold k2_factor_sq, g_k2_factor_sq, g_inf_dof. kf_run.
    repeat f_equal; lra.
  Qed.

  Lemma k2_factor_sq_inf_in df p : df = PInf \/ (exists d, df = Fin d /\ 100000 < d) -> 0 < p < 100 ->
    k2_factor_sq df p = Ok (Fin (- 2 * ln (1 - p / 100))).
  Proof.
    intros [->|[d [-> Hd]]] Hp; unfold k2_factor_sq, g_k2_factor_sq, g_inf_dof; kf_run;
      repeat f_equal; lra.
  Qed.


  (* ---------------- _df_k2 and k2_to_dof ---------------- *)
  (* what the regenerated body is, structurally: one evaluation of fn at lo, then the
     bracket search over the listed upper limits *)
  Definition fnR (k2 q nu2 : R) : res R :=
    x <- R_div (k2 * k2 * nu2) (2 * (nu2 + 1)) ;; Ok (fdtr 2 nu2 x - q).

  Fixpoint bracket (f : R -> res R) (lo : R) (his : list R) : res (ext R) :=
    match his with
    | [] => Ok PInf
    | hi :: rest =>
        v <- f hi ;;
        if Rltb 0 v then (r <- ridder f lo hi ;; Ok (Fin r)) else bracket f hi rest
    end.

  (* 1 - 1E-3 in binary64 arithmetic (the subtraction is exact over the reals) *)
  Definition k2_lo : R := 1 - 1152921504606847 / 2 ^ 60.
  Definition k2_his : list R := [20; 50; 100; 1000; 100000].

  Definition df_k2_spec (k2 q : R) : res (ext R) :=
    v <- fnR k2 q k2_lo ;;
    if Rltb 0 v then Err RuntimeError else bracket (fnR k2 q) k2_lo k2_his.

  Lemma df_k2_eq k2 q tol : g__df_k2 RNum RScipy k2 q 2 tol = df_k2_spec k2 q.
  Proof.
    unfold g__df_k2, g_inf_dof, df_k2_spec, k2_his, bracket, fnR. cbn -[pow k2_lo].
    rewrite !Rmult_1_r. reflexivity.
  Qed.

  Lemma k2_lo_bounds : 0.998999 < k2_lo < 0.999001.
  Proof. unfold k2_lo. lra. Qed.

  Lemma k2_to_dof_bad k2 p : k2 <= 0 \/ p <= 0 \/ 100 <= p -> k2_to_dof k2 p = Err RuntimeError.
  Proof.
    intros H. unfold k2_to_dof, g_k2_to_dof.
    destruct (Rle_lt_dec k2 0) as [Hk|Hk]; [repeat (progress (cbn -[g__df_k2]; kf_cmp)); reflexivity|].
    destruct H as [H|[H|H]]; [lra| |]; repeat (progress (cbn -[g__df_k2]; kf_cmp)); reflexivity.
  Qed.

  Lemma k2_to_dof_eq k2 p : 0 < k2 -> 0 < p < 100 ->
    k2_to_dof k2 p = (r <- df_k2_spec k2 (p / 100) ;; Ok (x_add RNum r 1)).
  Proof.
    intros Hk Hp. unfold k2_to_dof, g_k2_to_dof. cbn -[g__df_k2]. kf_cmp. cbn -[g__df_k2].
    kf_cmp. cbn -[g__df_k2]. rewrite df_k2_eq.
    replace (p / (100 * 1)) with (p / 100) by (field; lra). reflexivity.
  Qed.

  (* ====================================================================== *)
  (* Part C : what the functions compute, given what the scipy functions are  *)
  (* ====================================================================== *)
  Fixpoint chain (lo : R) (his : list R) : Prop :=
    match his with [] => True | h :: r => lo < h /\ chain h r end.
  Definition lastd (lo : R) (his : list R) : R := fold_left (fun _ h => h) his lo.

  Lemma chain_lastd his : forall lo, chain lo his -> lo <= lastd lo his.
  Proof.
    induction his as [|h r IH]; intros lo H; unfold lastd in *; simpl in *; [lra|].
    destruct H as [H1 H2]. specialize (IH h H2). lra.
  Qed.

  Section K2.
    (* fdtr(2, nu, x) is the F(2,nu) cdf *)
    Hypothesis H_fdtr : forall nu x, 0 < nu -> 0 <= x -> fdtr 2 nu x = F2cdf nu x.
    (* the root finder returns only roots inside the bracket ... *)
    Hypothesis H_ridder_sound : forall f lo hi r,
      ridder f lo hi = Ok r -> lo <= r <= hi /\ f r = Ok 0.
    (* ... and returns one whenever the bracket contains one *)
    Hypothesis H_ridder_finds : forall f lo hi,
      (exists r, lo <= r <= hi /\ f r = Ok 0) -> exists r, ridder f lo hi = Ok r.

    Variables (k2 q : R).
    Hypothesis Hq : 0 < q < 1.
    Let K := k2 * k2.
    Let phi (nu2 : R) := k2sq (nu2 + 1) q.

    Lemma fnR_val nu2 : 0 < nu2 ->
      fnR k2 q nu2 = Ok (F2cdf nu2 (K * nu2 / (2 * (nu2 + 1))) - q).
    Proof.
      intros Hn. unfold fnR.
      rewrite R_div_ok by lra. cbn [bind]. rewrite H_fdtr; [reflexivity | exact Hn |].
      apply Rmult_le_pos; [apply Rmult_le_pos; [nra | lra]|].
      left. apply Rinv_0_lt_compat. lra.
    Qed.

    (* fn nu2 > 0 iff k2^2 exceeds the coverage factor for nu2+1 dof; fn nu2 = 0 iff equal *)
    Lemma fn_sign nu2 v : 0 < nu2 -> fnR k2 q nu2 = Ok v ->
      (0 < v <-> phi nu2 < K) /\ (v <= 0 <-> K <= phi nu2) /\ (v = 0 <-> K = phi nu2).
    Proof.
      intros Hn Hv. rewrite (fnR_val nu2 Hn) in Hv. injection Hv as Hv.
      set (x := K * nu2 / (2 * (nu2 + 1))) in *.
      assert (Hx : 0 <= x).
      { unfold x. apply Rmult_le_pos; [apply Rmult_le_pos; [unfold K; nra | lra]|].
        left. apply Rinv_0_lt_compat. lra. }
      set (c := 2 * (nu2 + 1) / nu2).
      assert (Hc : 0 < c) by (unfold c; apply Rdiv_lt_0_compat; lra).
      assert (EK : K = c * x) by (unfold c, x; field; lra).
      assert (Ephi : phi nu2 = c * F2quant nu2 q).
      { unfold phi. rewrite k2sq_F2quant by lra.
        replace (nu2 + 1 - 1) with nu2 by ring. reflexivity. }
      pose proof (F2cdf_gt_iff nu2 q x Hn Hq Hx) as [A1 A2].
      pose proof (F2cdf_eq_iff nu2 q x Hn Hq Hx) as [B1 B2].
      rewrite Ephi, EK. subst v.
      assert (T1 : 0 < F2cdf nu2 x - q <-> c * F2quant nu2 q < c * x).
      { split; intros H.
        - apply Rmult_lt_compat_l; [exact Hc | apply A1; lra].
        - apply Rmult_lt_reg_l in H; [|exact Hc]. apply A2 in H. lra. }
      assert (T3 : F2cdf nu2 x - q = 0 <-> c * x = c * F2quant nu2 q).
      { split; intros H.
        - f_equal. apply B1. lra.
        - apply Rmult_eq_reg_l in H; [|lra]. apply B2 in H. lra. }
      split; [exact T1 | split; [|exact T3]].
      split; intros H.
      + destruct (Rle_lt_dec (c * x) (c * F2quant nu2 q)) as [L|L]; [exact L|].
        apply T1 in L. lra.
      + destruct (Rle_lt_dec (F2cdf nu2 x - q) 0) as [L|L]; [exact L|].
        apply T1 in L. lra.
    Qed.

    Lemma phi_decr a b : 0 < a -> a < b -> phi b < phi a.
    Proof. intros Ha Hab. unfold phi. apply k2sq_decr_df; [lra | lra | exact Hq]. Qed.

    Lemma phi_decr_le a b : 0 < a -> a <= b -> phi b <= phi a.
    Proof. intros Ha Hab. unfold phi. apply k2sq_decr_df_le; [lra | lra | exact Hq]. Qed.

    Lemma bracket_inf his : forall lo, 0 < lo -> chain lo his ->
      (bracket (fnR k2 q) lo his = Ok PInf <-> List.Forall (fun hi => K <= phi hi) his).
    Proof.
      induction his as [|hi rest IH]; intros lo Hlo Hc; simpl.
      - split; intros; [constructor | reflexivity].
      - destruct Hc as [Hlh Hc]. assert (Hhi : 0 < hi) by lra.
        pose proof (fnR_val hi Hhi) as Ev. rewrite Ev. cbn [bind].
        destruct (fn_sign hi _ Hhi Ev) as [S1 [S2 _]].
        match goal with |- context [Rltb 0 ?v] => destruct (Rlt_le_dec 0 v) as [L|L] end.
        + rewrite Rltb_true by exact L.
          apply S1 in L.
          destruct (ridder (fnR k2 q) lo hi); simpl; split; intros H;
            try discriminate H; inversion H; subst; lra.
        + rewrite Rltb_false by exact L.
          rewrite (IH hi Hhi Hc). apply S2 in L.
          split; intros H; [constructor; assumption | inversion H; assumption].
    Qed.

    Lemma bracket_root his : forall lo r, 0 < lo -> chain lo his ->
      bracket (fnR k2 q) lo his = Ok (Fin r) -> lo <= r <= lastd lo his /\ K = phi r.
    Proof.
      induction his as [|hi rest IH]; intros lo r Hlo Hc H; simpl in H; [discriminate H|].
      destruct Hc as [Hlh Hc]. assert (Hhi : 0 < hi) by lra.
      pose proof (chain_lastd rest hi Hc) as Hl.
      change (lastd lo (hi :: rest)) with (lastd hi rest).
      pose proof (fnR_val hi Hhi) as Ev. rewrite Ev in H. cbn [bind] in H.
      match type of H with context [Rltb 0 ?v] => destruct (Rlt_le_dec 0 v) as [L|L] end.
      - rewrite Rltb_true in H by exact L.
        destruct (ridder (fnR k2 q) lo hi) as [r'|e] eqn:E; simpl in H; [|discriminate H].
        injection H as H. subst r'.
        destruct (H_ridder_sound _ _ _ _ E) as [Hr Hz].
        assert (Hr0 : 0 < r) by lra.
        destruct (fn_sign r 0 Hr0 Hz) as [_ [_ S3]].
        split; [lra | apply S3; reflexivity].
      - rewrite Rltb_false in H by exact L.
        destruct (IH hi r Hhi Hc H) as [A B]. split; [lra | exact B].
    Qed.

    Lemma root_is_zero r : 0 < r -> K = phi r -> fnR k2 q r = Ok 0.
    Proof.
      intros Hr E. pose proof (fnR_val r Hr) as Ev.
      destruct (fn_sign r _ Hr Ev) as [_ [_ S3]]. rewrite Ev. f_equal. apply S3. exact E.
    Qed.

    Lemma bracket_ok his : forall lo, 0 < lo -> chain lo his -> K <= phi lo ->
      exists x, bracket (fnR k2 q) lo his = Ok x.
    Proof.
      induction his as [|hi rest IH]; intros lo Hlo Hc HK; simpl; [eexists; reflexivity|].
      destruct Hc as [Hlh Hc]. assert (Hhi : 0 < hi) by lra.
      pose proof (fnR_val hi Hhi) as Ev. rewrite Ev. cbn [bind].
      destruct (fn_sign hi _ Hhi Ev) as [S1 [S2 _]].
      match goal with |- context [Rltb 0 ?v] => destruct (Rlt_le_dec 0 v) as [L|L] end.
      - rewrite Rltb_true by exact L. apply S1 in L.
        destruct (k2sq_root_exists q K lo hi Hq Hlo Hlh L HK) as [r [Hr Er]].
        destruct (H_ridder_finds (fnR k2 q) lo hi) as [r' E].
        { exists r. split; [exact Hr | apply root_is_zero; [lra | exact Er]]. }
        rewrite E. simpl. eexists; reflexivity.
      - rewrite Rltb_false by exact L. apply S2 in L. apply (IH hi Hhi Hc L).
    Qed.

    Lemma bracket_find his : forall lo d, 0 < lo -> chain lo his -> K = phi d ->
      lo <= d < lastd lo his -> bracket (fnR k2 q) lo his = Ok (Fin d).
    Proof.
      induction his as [|hi rest IH]; intros lo d Hlo Hc HK Hd.
      - unfold lastd in Hd. simpl in Hd. lra.
      - simpl. destruct Hc as [Hlh Hc]. assert (Hhi : 0 < hi) by lra.
        change (lastd lo (hi :: rest)) with (lastd hi rest) in Hd.
        pose proof (fnR_val hi Hhi) as Ev. rewrite Ev. cbn [bind].
        destruct (fn_sign hi _ Hhi Ev) as [S1 [S2 _]].
        assert (Hd0 : 0 < d) by lra.
        destruct (Rlt_le_dec d hi) as [C|C].
        + pose proof (phi_decr d hi Hd0 C) as P.
          match goal with |- context [Rltb 0 ?v] => destruct (Rlt_le_dec 0 v) as [L|L] end;
            [|apply S2 in L; lra].
          rewrite Rltb_true by exact L.
          destruct (H_ridder_finds (fnR k2 q) lo hi) as [r E].
          { exists d. split; [lra | apply root_is_zero; assumption]. }
          rewrite E. simpl.
          destruct (H_ridder_sound _ _ _ _ E) as [Hr Hz].
          assert (Hr0 : 0 < r) by lra.
          destruct (fn_sign r 0 Hr0 Hz) as [_ [_ S3]].
          assert (Er : K = phi r) by (apply S3; reflexivity).
          assert (r + 1 = d + 1).
          { apply (k2sq_inj_df (r + 1) (d + 1) q); [lra | lra | exact Hq |].
            unfold phi in *. lra. }
          do 2 f_equal. lra.
        + pose proof (phi_decr_le hi d Hhi C) as P.
          match goal with |- context [Rltb 0 ?v] => destruct (Rlt_le_dec 0 v) as [L|L] end;
            [apply S1 in L; lra|].
          rewrite Rltb_false by exact L.
          apply (IH hi d Hhi Hc HK). lra.
    Qed.

    Lemma k2_his_chain : chain k2_lo k2_his.
    Proof. pose proof k2_lo_bounds. unfold k2_his. simpl. lra. Qed.

    Lemma k2_lo_pos : 0 < k2_lo.
    Proof. pose proof k2_lo_bounds. lra. Qed.

    (* the four possible outcomes of _df_k2 *)
    Lemma df_k2_raises : df_k2_spec k2 q = Err RuntimeError <-> phi k2_lo < K.
    Proof.
      unfold df_k2_spec. pose proof (fnR_val k2_lo k2_lo_pos) as Ev. rewrite Ev. cbn [bind].
      destruct (fn_sign k2_lo _ k2_lo_pos Ev) as [S1 [S2 _]].
      match goal with |- context [Rltb 0 ?v] => destruct (Rlt_le_dec 0 v) as [L|L] end.
      - rewrite Rltb_true by exact L. apply S1 in L. split; intros; [exact L | reflexivity].
      - rewrite Rltb_false by exact L. apply S2 in L.
        destruct (bracket_ok k2_his k2_lo k2_lo_pos k2_his_chain L) as [x Ex].
        rewrite Ex. split; intros H; [discriminate H | lra].
    Qed.

    Lemma df_k2_inf : df_k2_spec k2 q = Ok PInf <-> K <= phi 100000.
    Proof.
      unfold df_k2_spec. pose proof (fnR_val k2_lo k2_lo_pos) as Ev. rewrite Ev. cbn [bind].
      destruct (fn_sign k2_lo _ k2_lo_pos Ev) as [S1 [S2 _]].
      pose proof k2_lo_bounds as B.
      match goal with |- context [Rltb 0 ?v] => destruct (Rlt_le_dec 0 v) as [L|L] end.
      - rewrite Rltb_true by exact L. apply S1 in L.
        pose proof (phi_decr_le k2_lo 100000 k2_lo_pos ltac:(lra)) as P.
        split; intros H; [discriminate H | lra].
      - rewrite Rltb_false by exact L.
        rewrite (bracket_inf k2_his k2_lo k2_lo_pos k2_his_chain). unfold k2_his.
        split; intros H.
        + rewrite List.Forall_forall in H. apply H. simpl. do 4 right. left. reflexivity.
        + pose proof (phi_decr_le 20 100000 ltac:(lra) ltac:(lra)) as P1.
          pose proof (phi_decr_le 50 100000 ltac:(lra) ltac:(lra)) as P2.
          pose proof (phi_decr_le 100 100000 ltac:(lra) ltac:(lra)) as P3.
          pose proof (phi_decr_le 1000 100000 ltac:(lra) ltac:(lra)) as P4.
          repeat (apply List.Forall_cons; [lra|]). apply List.Forall_nil.
    Qed.

    Lemma df_k2_root r : df_k2_spec k2 q = Ok (Fin r) -> k2_lo <= r <= 100000 /\ K = phi r.
    Proof.
      unfold df_k2_spec. pose proof (fnR_val k2_lo k2_lo_pos) as Ev. rewrite Ev. cbn [bind].
      match goal with |- context [Rltb 0 ?v] => destruct (Rlt_le_dec 0 v) as [L|L] end.
      - rewrite Rltb_true by exact L. intros H; discriminate H.
      - rewrite Rltb_false by exact L. intros H.
        apply (bracket_root k2_his k2_lo r k2_lo_pos k2_his_chain) in H. exact H.
    Qed.

    Lemma df_k2_find d : k2_lo <= d < 100000 -> K = phi d -> df_k2_spec k2 q = Ok (Fin d).
    Proof.
      intros Hd HK. unfold df_k2_spec.
      pose proof (fnR_val k2_lo k2_lo_pos) as Ev. rewrite Ev. cbn [bind].
      destruct (fn_sign k2_lo _ k2_lo_pos Ev) as [S1 [S2 _]].
      pose proof (phi_decr_le k2_lo d k2_lo_pos ltac:(lra)) as P.
      match goal with |- context [Rltb 0 ?v] => destruct (Rlt_le_dec 0 v) as [L|L] end;
        [apply S1 in L; lra|].
      rewrite Rltb_false by exact L.
      apply (bracket_find k2_his k2_lo d k2_lo_pos k2_his_chain HK).
      unfold lastd, k2_his. simpl. lra.
    Qed.
  End K2.

  (* ====================================================================== *)
  (* Part D : the statements of property C19                                 *)
  (* ====================================================================== *)
  Lemma q1_range p : 0 < p < 100 -> 1 / 2 < q1 p < 1.
  Proof. intros H. unfold q1. lra. Qed.

  (* ---------- range errors (exactly when) ---------- *)
  Theorem k_factor_raises_iff df p :
    k_factor df p = Err RuntimeError <->
    (p <= 0 \/ 100 <= p \/ exists d, df = Fin d /\ d < 1).
  Proof.
    split.
    - intros H.
      destruct (Rle_lt_dec p 0) as [A|A]; [left; exact A|].
      destruct (Rle_lt_dec 100 p) as [B|B]; [right; left; exact B|].
      right; right. destruct df as [d|].
      + destruct (Rlt_le_dec d 1) as [C|C]; [exists d; split; [reflexivity|exact C]|exfalso].
        destruct (Rle_lt_dec d 100000) as [D|D].
        * rewrite k_factor_fin in H by lra. discriminate H.
        * rewrite k_factor_large in H by lra. discriminate H.
      + exfalso. rewrite k_factor_inf in H by lra. discriminate H.
    - intros [H|[H|[d [-> H]]]].
      + apply k_factor_bad_p. left; exact H.
      + apply k_factor_bad_p. right; exact H.
      + destruct (Rle_lt_dec p 0) as [A|A]; [apply k_factor_bad_p; left; exact A|].
        destruct (Rle_lt_dec 100 p) as [B|B]; [apply k_factor_bad_p; right; exact B|].
        apply k_factor_small; lra.
  Qed.

  Theorem k_to_dof_raises_iff k p :
    k_to_dof k p = Err RuntimeError <-> (k <= 0 \/ p <= 0 \/ 100 <= p).
  Proof.
    split; [|apply k_to_dof_bad].
    intros H.
    destruct (Rle_lt_dec k 0) as [A|A]; [left; exact A|].
    destruct (Rle_lt_dec p 0) as [B|B]; [right; left; exact B|].
    destruct (Rle_lt_dec 100 p) as [C|C]; [right; right; exact C|exfalso].
    destruct (Rlt_le_dec (stdtridf (q1 p) k) 100000) as [D|D].
    - rewrite k_to_dof_fin in H by lra. discriminate H.
    - rewrite k_to_dof_big in H by lra. discriminate H.
  Qed.

  (* k2_factor_sq raises RuntimeError exactly outside the documented ranges: p not in (0,100)
     or df <= 1 (the p part holds since fix C19-1; before it p was not checked at all and
     this theorem was refuted by (df,p) = (3,100) and (inf,150)) *)
  Theorem k2_factor_sq_raises_iff df p :
    k2_factor_sq df p = Err RuntimeError <->
    (p <= 0 \/ 100 <= p \/ exists d, df = Fin d /\ d <= 1).
  Proof.
    split.
    - intros H.
      destruct (Rle_lt_dec p 0) as [A|A]; [left; exact A|].
      destruct (Rle_lt_dec 100 p) as [B|B]; [right; left; exact B|].
      right; right. destruct df as [d|].
      + destruct (Rle_lt_dec d 1) as [C|C]; [exists d; split; [reflexivity|exact C]|exfalso].
        destruct (Rle_lt_dec d 100000) as [D|D].
        * rewrite k2_factor_sq_fin_in in H by lra. discriminate H.
        * rewrite k2_factor_sq_inf_in in H; [discriminate H | right; exists d; split; [reflexivity|lra] | lra].
      + exfalso. rewrite k2_factor_sq_inf_in in H; [discriminate H | left; reflexivity | lra].
    - intros [H|[H|[d [-> H]]]].
      + unfold k2_factor_sq, g_k2_factor_sq. destruct df; kf_run; reflexivity.
      + unfold k2_factor_sq, g_k2_factor_sq. destruct df; kf_run; rewrite ?orb_true_r; reflexivity.
      + apply k2_factor_sq_small. exact H.
  Qed.


  (* ---------- k_factor is the two-sided quantile ---------- *)
  Section Quantiles.
    Variables (Tcdf : R -> R -> R) (Ncdf : R -> R).
    (* symmetric continuous distributions: P(t <= -x) = 1 - P(t <= x) *)
    Hypothesis T_sym : forall d x, Tcdf d (- x) = 1 - Tcdf d x.
    Hypothesis N_sym : forall x, Ncdf (- x) = 1 - Ncdf x.
    Hypothesis T_mono : forall d x y, 1 <= d -> x <= y -> Tcdf d x <= Tcdf d y.
    (* stdtrit / ndtri are the one-sided quantile functions *)
    Hypothesis H_stdtrit : forall d u, 1 <= d -> 1 / 2 < u < 1 -> Tcdf d (stdtrit d u) = u.
    Hypothesis H_ndtri : forall u, 1 / 2 < u < 1 -> Ncdf (ndtri u) = u.

    (* which distribution a dof argument selects: Student-t up to inf_dof, normal above *)
    Definition cdf_for (df : ext R) : R -> R :=
      match df with
      | PInf => Ncdf
      | Fin d => if Rle_dec d 100000 then Tcdf d else Ncdf
      end.
    Definition dof_ok (df : ext R) : Prop :=
      match df with PInf => True | Fin d => 1 <= d end.

    Theorem k_factor_two_sided df p : 0 < p < 100 -> dof_ok df ->
      exists k, k_factor df p = Ok (Fin k) /\ cdf_for df k - cdf_for df (- k) = p / 100.
    Proof.
      intros Hp Hd. pose proof (q1_range p Hp) as Hq.
      assert (E : (1 + p / 100) / 2 = q1 p) by reflexivity.
      destruct df as [d|]; simpl in *.
      - destruct (Rle_dec d 100000) as [L|L].
        + exists (stdtrit d (q1 p)). split; [apply k_factor_fin; lra|].
          apply (two_sided (Tcdf d)); [apply T_sym|]. rewrite E. apply H_stdtrit; lra.
        + exists (ndtri (q1 p)). split; [apply k_factor_large; lra|].
          apply (two_sided Ncdf); [apply N_sym|]. rewrite E. apply H_ndtri; lra.
      - exists (ndtri (q1 p)). split; [apply k_factor_inf; lra|].
        apply (two_sided Ncdf); [apply N_sym|]. rewrite E. apply H_ndtri; lra.
    Qed.

    Lemma stdtrit_pos d u : 1 <= d -> 1 / 2 < u < 1 -> 0 < stdtrit d u.
    Proof.
      intros Hd Hu. destruct (Rlt_le_dec 0 (stdtrit d u)) as [L|L]; [exact L|exfalso].
      pose proof (T_mono d _ _ Hd L) as M. rewrite H_stdtrit in M by assumption.
      pose proof (T_sym d 0) as S. rewrite Ropp_0 in S. lra.
    Qed.

    (* ---------- k_to_dof inverts k_factor (given that stdtridf inverts stdtrit) ---------- *)
    Hypothesis H_stdtridf : forall d u, 1 <= d -> 1 / 2 < u < 1 -> stdtridf u (stdtrit d u) = d.

    Theorem k_to_dof_inverse d p k : 0 < p < 100 -> 1 <= d < 100000 ->
      k_factor (Fin d) p = Ok (Fin k) -> k_to_dof k p = Ok (Fin d).
    Proof.
      intros Hp Hd Hk. pose proof (q1_range p Hp) as Hq.
      rewrite k_factor_fin in Hk by lra. injection Hk as Hk. subst k.
      pose proof (stdtrit_pos d (q1 p) ltac:(lra) Hq) as P.
      rewrite k_to_dof_fin; [| exact P | exact Hp | rewrite H_stdtridf by lra; lra].
      rewrite H_stdtridf by lra. reflexivity.
    Qed.

    (* at the switch the two functions disagree about which side inf_dof belongs to:
       k_factor treats df = 1e5 as finite, k_to_dof reports 1e5 as infinite *)
    Theorem k_to_dof_at_switch p k : 0 < p < 100 ->
      k_factor (Fin 100000) p = Ok (Fin k) -> k_to_dof k p = Ok PInf.
    Proof.
      intros Hp Hk. pose proof (q1_range p Hp) as Hq.
      rewrite k_factor_fin in Hk by lra. injection Hk as Hk. subst k.
      pose proof (stdtrit_pos 100000 (q1 p) ltac:(lra) Hq) as P.
      apply k_to_dof_big; [exact P | exact Hp | rewrite H_stdtridf by lra; lra].
    Qed.

    (* "returning inf when k is at or below the infinite-dof value": holds as far as the
       oracle reports no solution below inf_dof there (partial: an assumption on stdtridf) *)
    Theorem k_to_dof_inf_partial p k :
      (forall u t, 1 / 2 < u < 1 -> 0 < t <= ndtri u -> 100000 <= stdtridf u t) ->
      0 < p < 100 -> 0 < k -> k_factor PInf p = Ok (Fin (ndtri (q1 p))) /\
      (k <= ndtri (q1 p) -> k_to_dof k p = Ok PInf).
    Proof.
      intros H Hp Hk. split; [apply k_factor_inf; exact Hp|]. intros L.
      apply k_to_dof_big; [exact Hk | exact Hp | apply H; [apply q1_range; exact Hp | lra]].
    Qed.
  End Quantiles.

  (* ---------- k2_factor_sq is the closed form / the normalised F(2, df-1) quantile ---------- *)
  Section K2Factor.
    (* fdtri(2, nu, u) is the u-quantile of F(2,nu) *)
    Hypothesis H_fdtri : forall nu u, 0 < nu -> 0 < u < 1 ->
      0 <= fdtri 2 nu u /\ F2cdf nu (fdtri 2 nu u) = u.

    Lemma fdtri_closed nu u : 0 < nu -> 0 < u < 1 -> fdtri 2 nu u = F2quant nu u.
    Proof.
      intros Hn Hu. destruct (H_fdtri nu u Hn Hu) as [A B].
      apply (F2cdf_eq_iff nu u _ Hn Hu A). exact B.
    Qed.

    Theorem k2_factor_sq_closed d p : 1 < d <= 100000 -> 0 < p < 100 ->
      k2_factor_sq (Fin d) p = Ok (Fin (k2sq d (p / 100))) /\
      k2sq d (p / 100) = 2 * d / (d - 1) * F2quant (d - 1) (p / 100) /\
      F2cdf (d - 1) (F2quant (d - 1) (p / 100)) = p / 100.
    Proof.
      intros Hd Hp. assert (Hu : 0 < p / 100 < 1) by lra.
      split; [|split; [apply k2sq_F2quant; lra | apply F2cdf_quant; lra]].
      rewrite k2_factor_sq_fin_in by assumption.
      rewrite fdtri_closed by lra. rewrite k2sq_F2quant by lra. reflexivity.
    Qed.

    Theorem k2_factor_sq_infinite df p : df = PInf \/ (exists d, df = Fin d /\ 100000 < d) ->
      0 < p < 100 -> k2_factor_sq df p = Ok (Fin (k2sq_inf (p / 100))).
    Proof.
      intros Hd Hp. rewrite k2_factor_sq_inf_in; [reflexivity | exact Hd | exact Hp].
    Qed.

    (* ---------- k2_to_dof ---------- *)
    Hypothesis H_fdtr : forall nu x, 0 < nu -> 0 <= x -> fdtr 2 nu x = F2cdf nu x.
    Hypothesis H_ridder_sound : forall f lo hi r,
      ridder f lo hi = Ok r -> lo <= r <= hi /\ f r = Ok 0.
    Hypothesis H_ridder_finds : forall f lo hi,
      (exists r, lo <= r <= hi /\ f r = Ok 0) -> exists r, ridder f lo hi = Ok r.

    Theorem k2_to_dof_range_iff k2 p :
      (k2 <= 0 \/ p <= 0 \/ 100 <= p -> k2_to_dof k2 p = Err RuntimeError) /\
      (0 < k2 -> 0 < p < 100 ->
       (k2_to_dof k2 p = Err RuntimeError <-> k2sq (k2_lo + 1) (p / 100) < k2 * k2)).
    Proof.
      split; [apply k2_to_dof_bad|]. intros Hk Hp. assert (Hu : 0 < p / 100 < 1) by lra.
      rewrite k2_to_dof_eq by assumption.
      rewrite <- (df_k2_raises H_fdtr H_ridder_finds k2 (p / 100) Hu).
      destruct (df_k2_spec k2 (p / 100)) as [[r|]|e]; simpl;
        split; intros H; try discriminate H; try (injection H as H; subst; reflexivity).
    Qed.

    Theorem k2_to_dof_inf_iff k2 p : 0 < k2 -> 0 < p < 100 ->
      (k2_to_dof k2 p = Ok PInf <-> k2 * k2 <= k2sq 100001 (p / 100)).
    Proof.
      intros Hk Hp. assert (Hu : 0 < p / 100 < 1) by lra.
      rewrite k2_to_dof_eq by assumption.
      replace 100001 with (100000 + 1) by lra.
      rewrite <- (df_k2_inf H_fdtr k2 (p / 100) Hu).
      destruct (df_k2_spec k2 (p / 100)) as [[r|]|e]; simpl;
        split; intros H; try discriminate H; reflexivity.
    Qed.

    (* whatever finite value k2_to_dof returns inverts k2_factor_sq *)
    Theorem k2_to_dof_inverts k2 p d : 0 < k2 -> 0 < p < 100 ->
      k2_to_dof k2 p = Ok (Fin d) ->
      k2 * k2 = k2sq d (p / 100) /\ k2_lo + 1 <= d <= 100001.
    Proof.
      intros Hk Hp H. assert (Hu : 0 < p / 100 < 1) by lra.
      rewrite k2_to_dof_eq in H by assumption.
      destruct (df_k2_spec k2 (p / 100)) as [[r|]|e] eqn:E; simpl in H;
        try discriminate H.
      injection H as H. subst d.
      destruct (df_k2_root H_fdtr H_ridder_sound k2 (p / 100) Hu r E) as [A B].
      split; [exact B | lra].
    Qed.

    (* and every dof in [lo+1, 1e5+1) is recovered from its coverage factor *)
    Theorem k2_to_dof_roundtrip k2 p d : 0 < k2 -> 0 < p < 100 ->
      k2_lo + 1 <= d < 100001 -> k2 * k2 = k2sq d (p / 100) ->
      k2_to_dof k2 p = Ok (Fin d).
    Proof.
      intros Hk Hp Hd HK. assert (Hu : 0 < p / 100 < 1) by lra.
      rewrite k2_to_dof_eq by assumption.
      rewrite (df_k2_find H_fdtr H_ridder_sound H_ridder_finds k2 (p / 100) Hu (d - 1)).
      - simpl. do 2 f_equal. lra.
      - lra.
      - rewrite HK. f_equal. lra.
    Qed.

    (* the composition the property names: k2_to_dof(sqrt(k2_factor_sq(df,p)),p) *)
    Theorem k2_roundtrip_model df p s : 0 < p < 100 ->
      k2_factor_sq df p = Ok (Fin s) ->
      match df with
      | Fin d => (k2_lo + 1 <= d <= 100000 -> k2_to_dof (sqrt s) p = Ok (Fin d)) /\
                 (100000 < d -> k2_to_dof (sqrt s) p = Ok PInf)
      | PInf => k2_to_dof (sqrt s) p = Ok PInf
      end.
    Proof.
      intros Hp Hs. assert (Hu : 0 < p / 100 < 1) by lra. pose proof k2_lo_bounds as B.
      assert (INF : forall df', df' = PInf \/ (exists d, df' = Fin d /\ 100000 < d) ->
                    k2_factor_sq df' p = Ok (Fin s) -> k2_to_dof (sqrt s) p = Ok PInf).
      { intros df' Hd Hs'. rewrite k2_factor_sq_infinite in Hs' by assumption.
        injection Hs' as Hs'. subst s.
        pose proof (k2sq_inf_pos _ Hu) as P.
        apply k2_to_dof_inf_iff; [apply sqrt_lt_R0; exact P | exact Hp |].
        rewrite sqrt_sqrt by lra. left. apply k2sq_gt_inf; lra. }
      destruct df as [d|]; [split|].
      - intros Hd. destruct (k2_factor_sq_closed d p ltac:(lra) Hp) as [E _].
        pose proof (eq_trans (eq_sym Hs) E) as X. injection X as X. subst s.
        pose proof (k2sq_pos d (p / 100) ltac:(lra) Hu) as P.
        apply k2_to_dof_roundtrip; [apply sqrt_lt_R0; exact P | exact Hp | lra |].
        apply sqrt_sqrt. lra.
      - intros Hd. apply (INF (Fin d)); [right; exists d; split; [reflexivity|exact Hd] | exact Hs].
      - apply (INF PInf); [left; reflexivity | exact Hs].
    Qed.
  End K2Factor.
End Model.

(* ====================================================================== *)
(* Part E : witnesses -- the hypotheses above are jointly satisfiable        *)
(* ====================================================================== *)
(* F(2,nu): the closed forms themselves *)
Definition w_fdtr (a nu x : R) : R := F2cdf nu x.
Definition w_fdtri (a nu u : R) : R := F2quant nu u.
(* an ideal root finder *)
Definition w_ridder (f : R -> res R) (lo hi : R) : res R :=
  match excluded_middle_informative (exists r, lo <= r <= hi /\ f r = Ok 0) with
  | left H => Ok (proj1_sig (constructive_indefinite_description _ H))
  | right _ => Err ValueError
  end.

Lemma w_fdtr_ok : forall nu x, 0 < nu -> 0 <= x -> w_fdtr 2 nu x = F2cdf nu x.
Proof. reflexivity. Qed.

Lemma w_fdtri_ok : forall nu u, 0 < nu -> 0 < u < 1 ->
  0 <= w_fdtri 2 nu u /\ F2cdf nu (w_fdtri 2 nu u) = u.
Proof.
  intros nu u Hn Hu. unfold w_fdtri. split; [left; apply F2quant_pos; assumption | apply F2cdf_quant; assumption].
Qed.

Lemma w_ridder_sound : forall f lo hi r, w_ridder f lo hi = Ok r -> lo <= r <= hi /\ f r = Ok 0.
Proof.
  intros f lo hi r. unfold w_ridder.
  destruct (excluded_middle_informative _) as [H|H]; [|discriminate].
  intros E. injection E as E. subst r.
  exact (proj2_sig (constructive_indefinite_description _ H)).
Qed.

Lemma w_ridder_finds : forall f lo hi,
  (exists r, lo <= r <= hi /\ f r = Ok 0) -> exists r, w_ridder f lo hi = Ok r.
Proof.
  intros f lo hi H. unfold w_ridder.
  destruct (excluded_middle_informative _) as [H'|H']; [eexists; reflexivity | contradiction].
Qed.

(* a family of symmetric continuous distributions decreasing to a limit as d grows:
   Cauchy (= Student t with 1 dof) scaled by 1 + 1/d, limit: the standard Cauchy *)
Definition w_z (u : R) : R := tan (PI * (u - 1 / 2)).
Definition w_scale (d : R) : R := 1 + 1 / d.
Definition w_Tcdf (d x : R) : R := 1 / 2 + atan (x / w_scale d) / PI.
Definition w_Ncdf (x : R) : R := 1 / 2 + atan x / PI.
Definition w_stdtrit (d u : R) : R := w_scale d * w_z u.
Definition w_ndtri (u : R) : R := w_z u.
Definition w_stdtridf (u t : R) : R :=
  if Rle_dec t (w_z u) then 10000000000 else 1 / (t / w_z u - 1).

Lemma w_arg u : 1 / 2 < u < 1 -> 0 < PI * (u - 1 / 2) < PI / 2.
Proof. intros H. pose proof PI_RGT_0. split; nra. Qed.

Lemma w_z_pos u : 1 / 2 < u < 1 -> 0 < w_z u.
Proof. intros H. unfold w_z. apply tan_gt_0; apply w_arg; exact H. Qed.

Lemma w_atan_z u : 1 / 2 < u < 1 -> atan (w_z u) = PI * (u - 1 / 2).
Proof. intros H. unfold w_z. pose proof (w_arg u H). apply atan_tan. lra. Qed.

Lemma w_scale_gt1 d : 1 <= d -> 1 < w_scale d.
Proof. intros H. unfold w_scale. assert (0 < 1 / d) by (apply Rdiv_lt_0_compat; lra). lra. Qed.

Lemma w_T_sym : forall d x, w_Tcdf d (- x) = 1 - w_Tcdf d x.
Proof.
  intros d x. unfold w_Tcdf. replace (- x / w_scale d) with (- (x / w_scale d)) by (unfold Rdiv; ring).
  rewrite atan_opp. pose proof PI_RGT_0. field. lra.
Qed.

Lemma w_N_sym : forall x, w_Ncdf (- x) = 1 - w_Ncdf x.
Proof. intros x. unfold w_Ncdf. rewrite atan_opp. pose proof PI_RGT_0. field. lra. Qed.

Lemma w_T_mono : forall d x y, 1 <= d -> x <= y -> w_Tcdf d x <= w_Tcdf d y.
Proof.
  intros d x y Hd [H|H]; [|subst; lra]. unfold w_Tcdf.
  pose proof (w_scale_gt1 d Hd) as S. pose proof PI_RGT_0 as P.
  assert (x / w_scale d < y / w_scale d).
  { unfold Rdiv. apply Rmult_lt_compat_r; [apply Rinv_0_lt_compat; lra | exact H]. }
  pose proof (atan_increasing _ _ H0) as A.
  assert (atan (x / w_scale d) / PI < atan (y / w_scale d) / PI).
  { unfold Rdiv. apply Rmult_lt_compat_r; [apply Rinv_0_lt_compat; lra | exact A]. }
  lra.
Qed.

Lemma w_stdtrit_ok : forall d u, 1 <= d -> 1 / 2 < u < 1 -> w_Tcdf d (w_stdtrit d u) = u.
Proof.
  intros d u Hd Hu. unfold w_Tcdf, w_stdtrit. pose proof (w_scale_gt1 d Hd) as S.
  replace (w_scale d * w_z u / w_scale d) with (w_z u) by (field; lra).
  rewrite w_atan_z by exact Hu. pose proof PI_RGT_0. field. lra.
Qed.

Lemma w_ndtri_ok : forall u, 1 / 2 < u < 1 -> w_Ncdf (w_ndtri u) = u.
Proof.
  intros u Hu. unfold w_Ncdf, w_ndtri. rewrite w_atan_z by exact Hu. pose proof PI_RGT_0. field. lra.
Qed.

Lemma w_stdtridf_ok : forall d u, 1 <= d -> 1 / 2 < u < 1 -> w_stdtridf u (w_stdtrit d u) = d.
Proof.
  intros d u Hd Hu. unfold w_stdtridf, w_stdtrit.
  pose proof (w_scale_gt1 d Hd) as S. pose proof (w_z_pos u Hu) as Z.
  destruct (Rle_dec (w_scale d * w_z u) (w_z u)) as [L|L]; [nra|].
  unfold w_scale. field. split; lra.
Qed.

Lemma w_noroot : forall u t, 1 / 2 < u < 1 -> 0 < t <= w_ndtri u -> 100000 <= w_stdtridf u t.
Proof.
  intros u t Hu Ht. unfold w_stdtridf, w_ndtri in *.
  destruct (Rle_dec t (w_z u)) as [L|L]; lra.
Qed.

Lemma k2sq_3_95 : k2sq 3 (95 / 100) = 57.
Proof.
  unfold k2sq. replace (- 2 / (3 - 1)) with (- (1)) by field.
  rewrite Rpower_Ropp, Rpower_1 by lra. field.
Qed.

Lemma k2sq_lo_95_bound : k2sq (k2_lo + 1) (95 / 100) < 1000 * 1000.
Proof.
  pose proof k2_lo_bounds as B.
  apply Rle_lt_trans with (k2sq (3 / 2) (95 / 100)).
  - apply k2sq_decr_df_le; lra.
  - unfold k2sq. replace (- 2 / (3 / 2 - 1)) with (- (INR 4)) by (simpl; field).
    rewrite Rpower_Ropp, Rpower_pow by lra.
    replace ((1 - 95 / 100) ^ 4) with (/ 160000) by (simpl; field).
    rewrite Rinv_inv. lra.
Qed.

Lemma k2sq_inf_95_bound : 1 * 1 <= k2sq 100001 (95 / 100).
Proof.
  left. apply Rlt_trans with (k2sq_inf (95 / 100)); [|apply k2sq_gt_inf; lra].
  unfold k2sq_inf.
  assert (ln (1 - 95 / 100) < - (1 / 2)).
  { rewrite <- (ln_exp (- (1 / 2))). apply ln_increasing; [lra|].
    rewrite exp_Ropp.
    assert (exp (1 / 2) < 20).
    { apply Rlt_trans with (exp 1); [apply exp_increasing; lra|]. pose proof exp_le_3. lra. }
    pose proof (exp_pos (1 / 2)) as P.
    replace (1 - 95 / 100) with (/ 20) by field.
    apply Rinv_lt_contravar; [nra | exact H]. }
  lra.
Qed.

(* ====================================================================== *)
(* Part F : binary64 facts (fixes C19-3 and C19-2)                          *)
(* ====================================================================== *)
(* These are about the SAME regenerated bodies evaluated over binary64 floats, for every
   oracle table (the guards are reached before any external call). *)
From Coq Require Import PrimFloat.

Section Binary64.
  Variables (lt : list oracle_entry) (st : list sentry).
  Let NF := FNum lt.
  Let OF := FScipy lt st.

  (* C19-3: a NaN coverage probability or coverage factor is rejected by every function
     (before the fix the guards `p <= 0 or p >= 100`, `k <= 0` let NaN through) *)
  Theorem nan_p_rejected :
    (forall df : ext float, g_k_factor NF OF df nan = Err RuntimeError) /\
    (forall df : ext float, g_k2_factor_sq NF OF df nan = Err RuntimeError) /\
    (forall k : float, g_k_to_dof NF OF k nan = Err RuntimeError) /\
    (forall k2 : float, g_k2_to_dof NF OF k2 nan = Err RuntimeError).
  Proof.
    split; [|split; [|split]]; intros x.
    - reflexivity.
    - reflexivity.
    - unfold g_k_to_dof. cbn -[PrimFloat.ltb].
      destruct (PrimFloat.ltb PrimFloat.zero x); reflexivity.
    - unfold g_k2_to_dof. cbn -[PrimFloat.ltb g__df_k2].
      destruct (PrimFloat.ltb PrimFloat.zero x); reflexivity.
  Qed.

  Theorem nan_k_rejected : forall p : float,
    g_k_to_dof NF OF nan p = Err RuntimeError /\ g_k2_to_dof NF OF nan p = Err RuntimeError.
  Proof. intros p. split; reflexivity. Qed.

  Theorem nan_df_rejected : forall p : float,
    g_k_factor NF OF (Fin nan) p = Err RuntimeError /\ g_k2_factor_sq NF OF (Fin nan) p = Err RuntimeError.
  Proof.
    intros p. split.
    - unfold g_k_factor. cbn -[PrimFloat.ltb PrimFloat.div].
      destruct (PrimFloat.ltb _ p && PrimFloat.ltb p _)%bool; cbn -[PrimFloat.div]; [|reflexivity].
      unfold f_div. cbn. reflexivity.
    - unfold g_k2_factor_sq. cbn -[PrimFloat.ltb PrimFloat.div].
      destruct (PrimFloat.ltb _ p && PrimFloat.ltb p _)%bool; cbn -[PrimFloat.div]; reflexivity.
  Qed.
End Binary64.

(* C19-2: the square of k2 is a float product, so a huge coverage factor overflows to
   +inf (no OverflowError) and is reported as "dof < 2": with NO libm entry at all (an empty
   table: any use of ** would be OracleMissing) and fdtr(2, lo, +inf) = 1 *)
Example k2_to_dof_huge_k2 :
  g_k2_to_dof (FNum []) (FScipy [] [(S_fdtr, [2; 0x1.ff7ced916872bp-1; infinity]%float, Ok 1%float)])
    0x1.4e718d7d7625ap+664%float 95%float = Err RuntimeError.   (* k2 = 1e200 *)
Proof. vm_compute. reflexivity. Qed.

"""C19 -- coverage factors are the quantiles they claim and invert consistently.

Tie to the source: tools/tr_reporting.py regenerates coq/gen/Gen_reporting.v (the whole bodies
of k_factor, k2_factor_sq, k_to_dof, k2_to_dof, _df_k2 and the constant inf_dof) from /repo's
AST on every run (here, at import, so the build that follows sees the current source); the
theorems of KFactorFacts.v / props/C19.v are about exactly those definitions over the reals.
The correspondence below executes the same generated definitions over binary64 (inside coqc,
vm_compute) with the scipy / libm results recorded from the implementation run as oracle table,
and compares result or exception class, bit for bit, on a grid + random (df, p, k) points."""
import math, os, sys, json, tempfile, shutil
from common import *

COQ_PROPS = 'props/C19.v'
PARTIAL = ('proved over the reals for the regenerated function bodies: range errors (all four functions, as iff; over binary64 also '
           'NaN arguments); k_factor asks the t/normal quantile '
           'oracle for the two-sided question (abstract symmetric cdf); k2_factor_sq = df((1-p)^(-2/(df-1))-1) = 2df/(df-1) x '
           'p-quantile of F(2,df-1) with F2 cdf 1-(1+2x/nu)^(-nu/2) as definition, increasing in p, decreasing in df, limit '
           '-2ln(1-p) with an explicit gap bound at the 1e5 switch; _df_k2/k2_to_dof: sign of fn, RuntimeError iff k2^2 > '
           'k2_factor_sq(lo+1), inf iff k2^2 <= k2_factor_sq(1e5+1), otherwise the ridder root inverts k2_factor_sq '
           '(round trip on [lo+1, 1e5+1)); k_to_dof o k_factor = id on [1,1e5) from the oracle inverse assumption. '
           'NOT proved (oracle assumptions / numerical only): that scipy stdtrit/ndtri/stdtridf/fdtr/fdtri/ridder compute the '
           'Student-t, normal and F quantiles/cdfs/roots; monotonicity of the t quantile in df and p; float rounding.')
ASSUMPTIONS = ['scipy.special.stdtrit/ndtri/stdtridf/fdtr/fdtri and scipy.optimize.ridder meet their specifications (hypotheses of the theorems)',
               'F(2,nu) cdf = 1-(1+2x/nu)^(-nu/2) is taken as the definition of the F distribution (its derivative is proved to be the F(2,nu) density formula)',
               'rounding error of float arithmetic is not bounded by proof (theorems are over the reals)']
TRUSTED = ['tools/tr_reporting.py (Python ast -> Gallina, fail-closed), cross-checked by running its output against the implementation',
           'Coquelicot and the Coq Reals library']

FUNCS = ('k_factor', 'k2_factor_sq', 'k_to_dof', 'k2_to_dof')
INF = float('inf'); NAN = float('nan')

# ------------------------------------------------------------------ translator (every run)
def _regen():
    sys.path.insert(0, os.path.join(VERIF, 'tools'))
    try:
        import tr_reporting
    finally:
        sys.path.pop(0)
    tmp = tempfile.mkdtemp(prefix='c19gen')
    try:
        import io, contextlib
        buf = io.StringIO()
        with contextlib.redirect_stdout(buf):
            st = tr_reporting.main(REPO, tmp)
        new = open(os.path.join(tmp, 'Gen_reporting.v')).read()
        dst = os.path.join(COQ, 'gen', 'Gen_reporting.v')
        os.makedirs(os.path.dirname(dst), exist_ok=True)
        if not os.path.exists(dst) or open(dst).read() != new:
            open(dst, 'w').write(new)
        return st
    finally:
        shutil.rmtree(tmp, ignore_errors=True)

TRANSLATED = _regen()

# ------------------------------------------------------------------ running the implementation
class _SpecialProxy(object):
    def __init__(self, real, log, state):
        self._real, self._log, self._state = real, log, state
    def __getattr__(self, name):
        obj = getattr(self._real, name)
        if not callable(obj): return obj
        def wrapped(*args):
            r = obj(*args)
            if not self._state['in_ridder']:
                self._log.append((name, tuple(float(a) for a in args), ('ok', float(r))))
            return r
        return wrapped

class _OptimizeProxy(object):
    def __init__(self, real, log, state):
        self._real, self._log, self._state = real, log, state
    def __getattr__(self, name):
        obj = getattr(self._real, name)
        if name != 'ridder': return obj
        def ridder(f, a, b, *rest, **kw):
            self._state['in_ridder'] = True
            try:
                r = obj(f, a, b, *rest, **kw)
            except Exception as ex:
                self._log.append(('ridder', (float(a), float(b)), ('exn', type(ex).__name__)))
                raise
            finally:
                self._state['in_ridder'] = False
            self._log.append(('ridder', (float(a), float(b)), ('ok', float(r))))
            return r
        return ridder

def run_impl(func, args):
    """run reporting.<func>(*args); returns (outcome, scipy log, libm log)
    outcome = ('ok', float) | ('exn', class name)"""
    from GTC import reporting
    slog = []; state = {'in_ridder': False}
    saved = (reporting.special, reporting.optimize)
    reporting.special = _SpecialProxy(saved[0], slog, state)
    reporting.optimize = _OptimizeProxy(saved[1], slog, state)
    try:
        with record_math() as rec:
            try:
                r = getattr(reporting, func)(*args)
                out = ('ok', float(r))
            except Exception as ex:
                out = ('exn', type(ex).__name__)
    finally:
        reporting.special, reporting.optimize = saved
    return out, slog, rec.log

def stable(slog):
    seen = set(); rows = []
    for name, args, r in slog:
        key = (name, tuple(cf(a) for a in args))
        if key in seen: continue
        seen.add(key)
        rs = 'Ok %s' % cf(r[1]) if r[0] == 'ok' else 'Err %s' % cexn(r[1])
        rows.append('(S_%s, %s, %s)' % (name, clist([cf(a) for a in args]), rs))
    return clist(rows)

HEADER = '''From Coq Require Import ZArith List PrimFloat.
From GTCV Require Import Num FNum KFactor.
From GTCV.gen Require Import Gen_reporting.
Import ListNotations.
Local Open Scope float_scope.
'''

def cdf_arg(df, alt):
    """a dof argument of type ext: +inf is PInf (or, to validate that the two agree over
    binary64, the float infinity wrapped in Fin)"""
    if df == INF and not alt: return 'PInf'
    return '(Fin %s)' % cf(df)

def case_term(func, args, out, slog, mlog, alt=False):
    extra = []
    if func == 'k2_to_dof':
        extra.append(pow_entry(float(args[0]), 2))
    lt = oracle_table(mlog, extra)
    st = stable(slog)
    if func in ('k_factor', 'k2_factor_sq'):
        a = '%s %s' % (cdf_arg(float(args[0]), alt), cf(args[1]))
    else:
        a = '%s %s' % (cf(args[0]), cf(args[1]))
    want = '(Ok %s)' % cf(out[1]) if out[0] == 'ok' else '(Err %s)' % cexn(out[1])
    return ('(let lt := %s in let st : list sentry := %s in cmp_res (g_%s (FNum lt) (FScipy lt st) %s) %s)'
            % (lt, st, func, a, want))

# ------------------------------------------------------------------ case generation
DF_GRID = [0.5, 1.0, 1.0000001, 1.5, 1.999, 2.0, 2.5, 3.0, 5.0, 10.0, 20.0, 21.0, 30.0, 50.0, 51.0, 100.0, 101.0,
           1000.0, 1001.0, 99999.0, math.nextafter(1e5, 0), 1e5, math.nextafter(1e5, INF), 100001.0, 1e7, INF,
           NAN, -1.0, 0.0, -INF, math.nextafter(1.0, 0), math.nextafter(1.0, 2)]
P_GRID = [-5.0, 0.0, -0.0, 1e-10, 1.0, 50.0, 68.27, 90.0, 95.0, 95.45, 99.0, 99.73, 99.999999, math.nextafter(100.0, 0),
          100.0, 150.0, NAN, 5e-324, INF]
K_GRID = [0.0, -1.0, 1e-3, 0.5, 1.0, 1.5, 1.9599, 1.959963984540054, 1.96, 2.0, 2.4477, 2.5, 3.0, 6.0, 12.7, 12.706204736174694, 13.0,
          28.2, 29.1, 100.0, 1e10, 1e154, 1.4e154, 1e200, 1e-200, NAN, INF, -INF, 5e-324]

def rand_df(rng):
    r = rng.random()
    if r < 0.55: return 10 ** rng.uniform(0, 5.2)
    if r < 0.70: return float(rng.randint(1, 200))
    if r < 0.80: return rng.uniform(1, 3)
    if r < 0.88: return 1e5 + rng.uniform(-2, 2)
    if r < 0.94: return rng.choice(DF_GRID)
    return 10 ** rng.uniform(-2, 8)

def rand_p(rng):
    r = rng.random()
    if r < 0.5: return rng.uniform(0, 100)
    if r < 0.7: return rng.choice([50.0, 68.27, 90.0, 95.0, 95.45, 99.0, 99.73, 99.9])
    if r < 0.8: return 100 - 10 ** rng.uniform(-12, 0)
    if r < 0.88: return 10 ** rng.uniform(-12, 0)
    if r < 0.95: return rng.choice(P_GRID)
    return rng.uniform(-50, 150)

def quiet(f, *a):
    try:
        return float(f(*a))
    except Exception:
        return None

def gen_cases(rng, n):
    """list of (func, args); about a third grid/boundary, the rest random incl. round trips"""
    from GTC import reporting
    cases = []
    # boundary grid (sampled each run, whole grid in the thorough tier through n)
    grid = []
    for df in DF_GRID:
        for p in P_GRID:
            grid.append(('k_factor', (df, p))); grid.append(('k2_factor_sq', (df, p)))
    for k in K_GRID:
        for p in P_GRID:
            grid.append(('k_to_dof', (k, p))); grid.append(('k2_to_dof', (k, p)))
    # bracket ends of _df_k2: roots exactly at / next to each listed upper limit and at lo
    for p in (50.0, 95.0, 99.0):
        for d in (1.999, 1.9990000001, 2.0, 20.9999, 21.0, 21.0001, 51.0, 101.0, 1001.0, 100000.0, 100001.0, 100001.5):
            s = quiet(reporting.k2_factor_sq, d, p)
            if s is not None and s >= 0:
                grid.append(('k2_to_dof', (math.sqrt(s), p)))
        for d in (1.0, 1.0000001, 99999.0, 1e5):
            k = quiet(reporting.k_factor, d, p)
            if k is not None: grid.append(('k_to_dof', (k, p)))
    # one case per branch of the anchored code, every run (random within the branch)
    for lo, hi in ((1.0, 20.0), (20.0, 50.0), (50.0, 100.0), (100.0, 1000.0), (1000.0, 1e5)):
        for _ in range(3):
            d = rng.uniform(lo + 1, hi + 1); p = rng.uniform(5, 99.5)
            s = quiet(reporting.k2_factor_sq, d, p)
            if s is not None and s >= 0: cases.append(('k2_to_dof', (math.sqrt(s), p)))
    p = rng.uniform(5, 99)
    cases += [('k2_to_dof', (rng.uniform(0.01, 1.0), p)), ('k2_to_dof', (rng.uniform(200, 1e6), 95.0)),
              ('k2_to_dof', (-rng.random(), p)), ('k2_to_dof', (2.6, 100 + rng.random())),
              ('k_factor', (INF, p)), ('k_factor', (rng.uniform(1e5 + 1, 1e7), p)), ('k_factor', (rng.uniform(1, 1e5), p)),
              ('k_factor', (rng.random(), p)), ('k_factor', (3.0, -rng.random())),
              ('k2_factor_sq', (INF, p)), ('k2_factor_sq', (rng.uniform(1.5, 1e5), p)), ('k2_factor_sq', (rng.random(), p)),
              ('k_to_dof', (rng.uniform(2.7, 12), 95.0)), ('k_to_dof', (rng.uniform(0.1, 1.9), 95.0)),
              ('k_to_dof', (-rng.random(), p)), ('k_to_dof', (2.0, -rng.random()))]
    rng.shuffle(grid)
    cases += grid[:max(n // 3, 1)] if n < len(grid) * 3 else grid
    while len(cases) < n:
        r = rng.random()
        df, p = rand_df(rng), rand_p(rng)
        if r < 0.2: cases.append(('k_factor', (df, p)))
        elif r < 0.4: cases.append(('k2_factor_sq', (df, p)))
        elif r < 0.55:
            k = quiet(reporting.k_factor, df, p)
            if k is None or rng.random() < 0.3: k = 10 ** rng.uniform(-1, 2)
            cases.append(('k_to_dof', (k, p)))
        elif r < 0.6: cases.append(('k_to_dof', (rng.choice(K_GRID), p)))
        elif r < 0.9:
            s = quiet(reporting.k2_factor_sq, df, p)
            k2 = math.sqrt(s) if (s is not None and s >= 0 and rng.random() < 0.75) else 10 ** rng.uniform(-1, 2)
            cases.append(('k2_to_dof', (k2, p)))
        else: cases.append(('k2_to_dof', (rng.choice(K_GRID), p)))
    return cases

def classify(func, out, slog):
    if out[0] == 'exn': return out[1]
    v = out[1]
    if v != v: return 'nan'
    if v == INF: return 'inf'
    if func == 'k2_to_dof':
        for name, args, r in slog:
            if name == 'ridder': return 'root in (%g,%g]' % args
    if func in ('k_factor', 'k2_factor_sq'):
        names = [name for name, _, _ in slog]
        return 'finite via ' + (names[-1] if names else 'math.log')
    return 'finite'

BRANCHES = ['k_factor: RuntimeError', 'k_factor: finite via ndtri', 'k_factor: finite via stdtrit',
            'k2_factor_sq: RuntimeError', 'k2_factor_sq: finite via fdtri', 'k2_factor_sq: finite via math.log',
            'k_to_dof: RuntimeError', 'k_to_dof: finite', 'k_to_dof: inf',
            'k2_to_dof: RuntimeError', 'k2_to_dof: inf', 'k2_to_dof: root in (0.999,20]', 'k2_to_dof: root in (20,50]',
            'k2_to_dof: root in (50,100]', 'k2_to_dof: root in (100,1000]', 'k2_to_dof: root in (1000,100000]']

def jf(x):
    return x if (x == x and abs(x) != INF) else repr(x)

def correspondence(rng, tier):
    n = 600 if tier == 'quick' else 20000
    cases = gen_cases(rng, n)
    terms = []; meta = []; dist = {}; distinct = set(); steps = 0
    for func, args in cases:
        out, slog, mlog = run_impl(func, args)
        alt = (func in ('k_factor', 'k2_factor_sq') and args[0] == INF and rng.random() < 0.5)
        terms.append(case_term(func, args, out, slog, mlog, alt))
        cls = classify(func, out, slog)
        key = '%s: %s' % (func, cls)
        dist[key] = dist.get(key, 0) + 1
        steps += 1 + len(slog) + len(mlog)
        if slog or mlog:
            distinct.add((func, tuple(cf(a) for a in args)))
        meta.append({'func': func, 'args': [jf(a) for a in args], 'args_hex': [cf(a) for a in args],
                     'impl': [out[0], jf(out[1]) if out[0] == 'ok' else out[1]], 'class': cls})
    vals, errors = coq_eval_cases('C19', HEADER, terms, per_file=200, timeout=600)
    mism = []
    for e in errors:
        mism.append({'kind': 'coq-case-file-failed', 'detail': e})
    CODE = {1: 'different value', 2: 'different exception', 3: 'value vs exception'}
    for m, v in zip(meta, vals):
        if v is None or v == -1: continue
        d = dict(m); d['kind'] = 'model/implementation disagree: ' + CODE.get(v, str(v))
        mism.append(d)
    dist['branches of the anchored code not reached (untied)'] = [b for b in BRANCHES if b not in dist]
    return {'programs': len(cases), 'steps': steps, 'mismatches': mism, 'distinct': len(distinct),
            'distribution': dist,
            'rule': ('grid of boundary (df,p,k) values incl. nan/inf/0/negatives, roots at the _df_k2 bracket ends and at the 1e5 switch, '
                     'plus random df (log-uniform 1..1.6e5, integers, near 1 and near 1e5), p (uniform, near 0, near 100, out of range), '
                     'k/k2 from round trips and free; a case is non-trivial when the run reached at least one external call '
                     '(scipy/libm) i.e. passed the range guards; distinct = distinct (function, argument bits)'),
            'samples': meta[:3] + [m for m in meta if m['class'].startswith('root')][:2]}

# ------------------------------------------------------------------ oracle (search only, after a break / thorough)
def _mp():
    try:
        import mpmath
        return mpmath
    except ImportError:
        for w in ('/opt/veriftools/wheels/mpmath-1.3.0-py3-none-any.whl', os.path.join(VERIF, '.vendor')):
            if os.path.exists(w):
                sys.path.insert(0, w)
                try:
                    import mpmath
                    return mpmath
                except ImportError:
                    sys.path.pop(0)
    return None

def t_two_sided(mp, df, k):
    """P(|t_df| < k), 40 digits (mpmath) or through scipy's cdf when mpmath is unavailable"""
    if mp is None:
        from scipy import special
        return float(2 * special.stdtr(df, k) - 1)
    mp.mp.dps = 40
    df = mp.mpf(df); k = mp.mpf(k)
    return 1 - mp.betainc(df / 2, mp.mpf(1) / 2, 0, df / (df + k * k), regularized=True)

def n_two_sided(mp, k):
    if mp is None: return math.erf(k / math.sqrt(2))
    mp.mp.dps = 40
    return mp.erf(mp.mpf(k) / mp.sqrt(2))

def k2sq_exact(mp, df, p):
    if mp is None:
        q = p / 100.0
        return df * math.expm1(-2 / (df - 1) * math.log1p(-q)) if df != INF else -2 * math.log1p(-q)
    mp.mp.dps = 40
    q = mp.mpf(p) / 100
    if df == INF: return -2 * mp.log(1 - q)
    df = mp.mpf(df)
    return df * (mp.power(1 - q, -2 / (df - 1)) - 1)

def expect_range_error(func, a, b):
    """what the property requires for out-of-range arguments: True = must raise RuntimeError"""
    bad_p = not (0 < b < 100)
    if func == 'k_factor': return bad_p or not (a >= 1)
    if func == 'k2_factor_sq': return bad_p or not (a > 1)
    return bad_p or not (a > 0)

def check_point(func, a, b, mp=None):
    """independent restatement of C19 at one point; None or a dict describing the failure.
    Conservative: only well-conditioned points, loose tolerances."""
    from GTC import reporting
    # NaN arguments must be rejected like any other out-of-range argument (fixed finding C19-3)
    f = getattr(reporting, func)
    try:
        r = float(f(a, b)); exn = None
    except Exception as ex:
        r = None; exn = type(ex).__name__
    rec = {'func': func, 'args': [jf(a), jf(b)], 'args_hex': [cf(a), cf(b)]}
    if expect_range_error(func, a, b):
        if exn != 'RuntimeError':
            rec.update(kind='range', expected='RuntimeError', got=exn or jf(r)); return rec
        return None
    if func == 'k_factor':
        if exn: rec.update(kind='raises', got=exn); return rec
        if not (0.5 <= b <= 99.999): return None
        pr = n_two_sided(mp, r) if a > 1e5 else t_two_sided(mp, a, r)
        if abs(float(pr) - b / 100.0) > 1e-9:
            rec.update(kind='quantile', coverage=float(pr), wanted=b / 100.0, k=r); return rec
        return None
    if func == 'k2_factor_sq':
        if exn: rec.update(kind='raises', got=exn); return rec
        if not (0.5 <= b <= 99.99 and a >= 1.5): return None
        ex = float(k2sq_exact(mp, a if a <= 1e5 else INF, b))
        if not (abs(r - ex) <= 1e-7 * abs(ex)):
            rec.update(kind='closed-form', value=r, exact=ex); return rec
        return None
    if func == 'k_to_dof':
        if exn: rec.update(kind='raises', got=exn); return rec
        if not (1 <= b <= 99.9): return None
        kinf = float(reporting.k_factor(INF, b))
        if a <= kinf * (1 - 1e-9):
            if r != INF: rec.update(kind='inf-expected', got=jf(r), k_inf=kinf); return rec
            return None
        if r == INF or not (1 <= r <= 5e4): return None
        pr = t_two_sided(mp, r, a)
        if abs(float(pr) - b / 100.0) > 1e-8:
            rec.update(kind='inverse', coverage=float(pr), wanted=b / 100.0, dof=r); return rec
        return None
    if func == 'k2_to_dof':
        if not (1 <= b <= 99.9): return None
        # huge k2: k2*k2 = +inf must be reported as dof < 2 (fixed finding C19-2); tiny k2: 0 -> inf dof
        lo_sq = float(k2sq_exact(mp, 1.999, b)); inf_sq = float(k2sq_exact(mp, INF, b))
        if a * a > lo_sq * (1 + 1e-6):
            if exn != 'RuntimeError': rec.update(kind='dof<2 expected RuntimeError', got=exn or jf(r)); return rec
            return None
        if a * a < lo_sq * (1 - 1e-6) and exn:
            rec.update(kind='raises', got=exn); return rec
        if exn: return None
        if a * a <= inf_sq * (1 - 1e-9):
            if r != INF: rec.update(kind='inf-expected', got=jf(r)); return rec
            return None
        if r == INF or not (2 <= r <= 5e4): return None
        ex = float(k2sq_exact(mp, r, b))
        if not (abs(a * a - ex) <= 1e-7 * ex):
            rec.update(kind='inverse', k2sq_of_result=ex, k2sq=a * a, dof=r); return rec
        return None
    return None

def check_monotone(df1, df2, p1, p2):
    """k_factor / k2_factor_sq decreasing in df, increasing in p (well separated points only)"""
    from GTC import reporting
    for func in ('k_factor', 'k2_factor_sq'):
        f = getattr(reporting, func)
        try:
            a, b = float(f(df1, p1)), float(f(df2, p1))
            c, d = float(f(df1, p1)), float(f(df1, p2))
        except Exception:
            continue
        if df1 < df2 and not (a >= b):
            return {'func': func, 'kind': 'not decreasing in df', 'args': [df1, df2, p1], 'values': [a, b]}
        if p1 < p2 and not (c <= d):
            return {'func': func, 'kind': 'not increasing in p', 'args': [df1, p1, p2], 'values': [c, d]}
    return None

def is_known(f):
    # C19-1, C19-2 and C19-3 are FIXED: a failing input of those shapes is a regression, not a known finding
    return False

def search(rng, tier, broken):
    mp = _mp()
    n = 1500 if tier == 'quick' else 12000
    tried = 0
    # first the inputs on which the correspondence disagreed, if any
    for kind, detail in broken:
        if kind == 'correspondence':
            for m in detail:
                try:
                    a, b = [float(x) for x in m['args']]
                    r = check_point(m['func'], a, b, mp); tried += 1
                    if r is not None and not is_known(r): return {'tried': tried, 'failing': r, 'mpmath': mp is not None}
                except Exception:
                    pass
    cases = gen_cases(rng, n)
    for func, (a, b) in cases:
        tried += 1
        r = check_point(func, a, b, mp)
        if r is not None and not is_known(r):
            return {'tried': tried, 'failing': r, 'mpmath': mp is not None}
    for _ in range(n // 5):
        tried += 1
        df1 = 10 ** rng.uniform(0.31, 4.9); df2 = df1 * rng.uniform(1.05, 3)
        p1 = rng.uniform(1, 95); p2 = p1 + rng.uniform(0.5, 4)
        r = check_monotone(df1, min(df2, 9.9e4), p1, p2)
        if r is not None:
            return {'tried': tried, 'failing': r, 'mpmath': mp is not None}
    return {'tried': tried, 'failing': None, 'mpmath': mp is not None}

def replay(payload):
    f = payload.get('failing_input')
    print(json.dumps(payload.get('broken'), indent=1, default=str)[:3000])
    if f and 'func' in f and 'args_hex' not in f and 'values' in f:
        a = f['args']
        r = check_monotone(a[0], a[1], a[2], a[2]) if 'df' in f['kind'] else check_monotone(a[0], a[0], a[1], a[2])
        print('replayed failing input on the implementation:', 'STILL FAILS %r' % (r,) if r else 'passes now')
        return 1 if r else 0
    if f and 'func' in f:
        a, b = [float(x) for x in f['args']]
        r = check_point(f['func'], a, b, _mp())
        print('replayed failing input on the implementation:', 'STILL FAILS %r' % (r,) if r else 'passes now')
        return 1 if r else 0
    return 0

# ------------------------------------------------------------------ known findings (replayed on the implementation)
def kf_k2_factor_sq_p_range():
    from GTC import reporting
    got = []
    for df, p in ((3, 100), (3, 0), (3, -5), (INF, 150)):
        try:
            got.append(repr(float(reporting.k2_factor_sq(df, p))))
        except RuntimeError:
            got.append('RuntimeError')
        except Exception as ex:
            got.append(type(ex).__name__)
    return any(g != 'RuntimeError' for g in got), 'k2_factor_sq at (3,100),(3,0),(3,-5),(inf,150): ' + ', '.join(got)

def kf_nan_passes_guards():
    from GTC import reporting
    got = []
    for f, a in (('k_factor', (3, NAN)), ('k2_factor_sq', (3, NAN)), ('k_to_dof', (NAN, 95)), ('k_to_dof', (2.0, NAN)), ('k2_to_dof', (NAN, 95)), ('k2_to_dof', (2.6, NAN))):
        try:
            got.append('%s%r -> %r' % (f, a, float(getattr(reporting, f)(*a))))
        except RuntimeError:
            got.append('%s%r -> RuntimeError' % (f, a))
        except Exception as ex:
            got.append('%s%r -> %s' % (f, a, type(ex).__name__))
    return any('RuntimeError' not in g for g in got), '; '.join(got)

def kf_k2_to_dof_overflow():
    from GTC import reporting
    try:
        r = reporting.k2_to_dof(1e200, 95)
        return False, 'returned %r' % (r,)
    except OverflowError as ex:
        return True, 'OverflowError %s' % (ex,)
    except Exception as ex:
        return False, type(ex).__name__

"""C15 -- linear-algebra results satisfy their defining equations, uncertainty included.

Correspondence: la.solve / la.inv / la.det / LU.invab / la.matmul / la.dot / @ / la.transpose are run
on arrays of Python ints, floats and uncertain reals (elementary, shared, intermediate,
zero-valued-with-uncertainty; sizes 1..6; matrices that need row pivoting; singular and
mis-shaped ones; arguments passed as plain arrays, transpose views, Fortran-ordered arrays, windows,
strided and reversed views of larger base arrays -- the model receives the logical element matrix;
40 % of the calls come after a random HISTORY of array operations on the operands or their bases:
broadcasting binary operations (operand first / second, partner larger / equal / smaller / scalar /
misaligned) that succeed or raise and are caught, unary operations, views -- the model ignores it;
35 % of the cases REPEAT the call on the same array objects after in-place changes (element / slice
assignment, *=, +=, or nothing), every call compared with the model on the contents at that moment;
la.dot / la.matmul / @ also get N-d operands: dot with scalars and 1-D..3-D operands in all combinations,
matmul with equal-rank stacks and broadcasting; arguments that are NOT object arrays: uarrays built from int64 /
int32 / float64 ndarrays (the uarray keeps that dtype), plain ndarrays, nested lists; la.transpose / np.transpose /
.T with explicit axes (every permutation, negative axes) on 1-D..3-D arrays) and the outcome -- every result element (value, the three component vectors,
node kind), the contents of the argument arrays after the call, or the exception class -- is
compared bit for bit with the Gallina model LU.v instantiated at LUInst.FElt (FNum), evaluated
inside coqc.  The theorems (coq/LUFacts.v, coq/DualRing.v, coq/props/C15.v) are about the same
model instantiated at a commutative ring."""
import math, random, collections, hashlib, json, fractions
from common import *
import lu_cases as LC

COQ_PROPS = 'props/C15.v'
PARTIAL = ('proved for every size N over any commutative ring with partial inverse (plain-number fields and the dual '
           'numbers value + components): matmul/dot = sum of products, transpose permutes, calls write only fresh '
           'copies, ludet = parity x product of pivots, and _lubksb solves a.x = b for EVERY right-hand side (zero values '
           'carrying uncertainty included, after the repair of C15-1) GIVEN the decomposition invariant '
           'P.a = L.U of ludcmp as a hypothesis (C15_solve_partial; the invariant itself is re-checked by execution on '
           'every correspondence case through the bit-exact model and by exact-rational / dual-number examples, not proved for all N); '
           'GTC ureal arithmetic (generated operator bodies, over the reals) is shown to be dual-number arithmetic (C15_un_to_D, ureal-ureal operands); '
           'det = Leibniz determinant with '
           'cofactor sensitivities, the left-inverse equation inv(a).a = I, and complex / uncertain-complex elements are '
           'covered only by the oracle search, not by the model; N-d dot / matmul: the sum-of-products index pattern is '
           'proved (C15_dot_nd_def, C15_matmul_nd_def, C15_dot_scalar_def) for the flat model that the correspondence ties to numpy; '
           'N-d transpose: index map modelled and tied by correspondence, permutation property proved for 2-D and checked by execution for 3-D; '
           'integer-dtype inv/invab, plain integer ndarrays and lists with solve/inv/det, bool arrays are kept out of the generator (defects reported); '
           'la.matmul with operands of different rank (one of them >= 3-D) raises IndexError: known finding C15-3, modelled as such')
ASSUMPTIONS = ['rounding error of float arithmetic is not bounded by proof (theorems are over exact rings)',
               "numpy's object-array dot (OBJECT_dot: first product, then left-to-right additions), transpose and "
               'indexing are modelled, not verified; their model is compared with numpy on every run']
TRUSTED = ['harness/lu_cases.py (array generator, element printers) and the FElt dispatch on Python operand types in coq/LUInst.v']

def correspondence(rng, tier):
    n = 420 if tier == 'quick' else 4000
    return LC.run_corr(rng, n, 'C15')

# ---------------------------------------------------------------- oracle (search only)
def oracle_applies(case):
    """may the oracle (which expects well-conditioned, well-shaped input) judge this correspondence case?"""
    style = str(case.get('style'))
    if 'misaligned' in style: return False
    if case['fn'] in ('solve', 'inv', 'det', 'invab'):
        return case.get('kind') != 'int' and (style == 'dom' or (style == 'tiny' and case.get('kind') == 'float'))
    return True

def search(rng, tier, broken):
    tried = 0
    # first the cases on which model and implementation disagreed (when the oracle can judge them) ...
    for kind, detail in broken or []:
        if kind != 'correspondence': continue
        for m in detail:
            case = m.get('case') if isinstance(m, dict) else None
            if not case or not oracle_applies(case): continue
            tried += 1
            f = LC.oracle_check(case)
            if f is not None and not is_known(f):
                return {'tried': tried, 'failing': f, 'from': 'disagreeing correspondence case'}
    # ... then the oracle's own stream
    n = (1500 if broken else 250) if tier == 'quick' else 4000
    for _ in range(n):
        case = LC.gen_oracle_case(rng)
        tried += 1
        f = LC.oracle_check(case)
        if f is not None and not is_known(f):
            return {'tried': tried, 'failing': f}
    return {'tried': tried, 'failing': None}

def is_known(f):
    """C15-2: a Python complex element whose real or imaginary part is exactly 1.0 meets an uncertain real
    that is a declared intermediate (result()): lib._mul/_rmul build an UncertainComplex from rhs itself and a
    new object and its constructor asserts (AssertionError, seen through numpy's dot as SystemError).
    (C15-1, zero-valued right-hand sides carrying uncertainty, is FIXED: such inputs are failures again.)"""
    why = str(f.get('why', ''))
    # C15-3: la.matmul / @ with operands of DIFFERENT rank, at least one of rank >= 3, raises IndexError
    if f.get('fn') == 'matmulN' and 'raised IndexError' in why:
        ra, rb = len(f['na']['shape']), len(f['nb']['shape'])
        if ra != rb and max(ra, rb) >= 3:
            return True
    # C15-2: a plain complex number meets an uncertain real that is a declared intermediate (result()) in an
    # operation whose identity shortcut returns the operand itself for one part (x * (1+bj), x - (0+bj), x + (0+bj);
    # the complex may be an element or a computed product): UncertainComplex.__init__ asserts
    if ('AssertionError' in why or 'SystemError' in why):
        elems = LC.flat_descr(f.get('a')) + LC.flat_descr(f.get('b'))
        for nd in (f.get('na'), f.get('nb')):
            if nd: elems += nd['flat']
        has_complex = any(e[0] == 'zc' for e in elems)
        interm = any(e[0] == 'm' and e[3] for e in elems)
        return has_complex and interm
    return False

def replay(payload):
    f = payload.get('failing_input')
    print(json.dumps(payload.get('broken'), indent=1, default=str)[:3000])
    if f:
        r = LC.oracle_check(f)
        print('replayed failing input on the implementation:', 'STILL FAILS %r' % (r.get('why'),) if r else 'passes now')
        return 1 if r else 0
    return 0

# ---------------------------------------------------------------- known findings
def kf_lubksb_zero_rhs():
    """regression check of the fixed finding C15-1: la.solve with b[0] = ureal(0,1) used to leave a
    residual component 0.5 of a.x - b w.r.t. b[0] (_lubksb tested `sum != 0.0` on the value)"""
    from GTC import la, core, reporting
    new_context(91)
    b0 = core.ureal(0.0, 1.0); b1 = core.ureal(1.0, 0.1)
    a = la.uarray([[2.0, 1.0], [1.0, 3.0]]); b = la.uarray([b0, b1])
    x = la.solve(a, b)
    r = la.matmul(a, x) - b
    c = float(reporting.u_component(r[1], b0))
    return abs(c) > 0.25, {'residual_component_wrt_b0': c}

def kf_complex_times_intermediate():
    """(1+0.5j) * result(x): lhs.real * rhs returns rhs itself (a declared intermediate), lhs.imag * rhs a new
    object; UncertainComplex.__init__ asserts that both have the same is_intermediate"""
    from GTC import la, core
    new_context(92)
    x = core.result(core.ureal(2.0, 0.1) * 3.0)
    try:
        la.matmul(la.uarray([[complex(1.0, 0.5)]]), la.uarray([[x]]))
    except (AssertionError, SystemError) as ex:
        return True, {'raised': type(ex).__name__}
    return False, {}

def kf_matmul_different_rank():
    """la.matmul of a (2,2,3) stack with a (3,2) matrix, and of a (3,) vector with a (2,3,2) stack: numpy.matmul
    broadcasts / promotes, la.matmul raises IndexError (the shorter operand is indexed with the stack indices too)"""
    import numpy as np
    from GTC import la
    new_context(93)
    def arr(shape):
        return la.uarray(np.array([float(i + 1) for i in range(int(np.prod(shape)))], dtype=object).reshape(shape))
    seen = []
    for sa, sb in (((2, 2, 3), (3, 2)), ((3,), (2, 3, 2))):
        try:
            la.matmul(arr(sa), arr(sb)); seen.append('ok')
        except IndexError:
            seen.append('IndexError')
        except Exception as ex:
            seen.append(type(ex).__name__)
    return seen == ['IndexError', 'IndexError'], {'outcomes': seen}

"""C10 -- reported results do not depend on what was read or computed before."""
import math, random
from common import *
import kernel, slp

COQ_PROPS = 'props/C10.v'
PARTIAL = ('proved for every operation and every history, every number instance: existing numbers are never modified (only the '
           'uncertainty cache can be filled), reads are idempotent, variance = covariance(y,y); every report depends on the session '
           'only through the registered leaf/node attributes and correlations (frame theorem); cache validity (every cached '
           'uncertainty = a fresh evaluation in the current state) holds initially and is preserved by EVERY operation except a '
           'set_correlation issued after some number was read, hence after every history without such a set_correlation what a '
           'number reports does not depend on what was read before (C10_reported_uncertainty_is_history_free); the full statement '
           'is refuted by the cache (known finding C10-cache: a correlation declared after a read). Budgets, string forms, '
           'archiving and complex numbers: correspondence and history-pair oracle only')
ASSUMPTIONS = []
TRUSTED = []

def _base_correspondence(rng, tier):
    n = 240 if tier == 'quick' else 4000
    return kernel.run_kernel_corr(rng, n, 'history', 'C10', malformed_every=4)

NOISE = ['_ = {v}.u', '_ = {v}.v', '_ = {v}.df', '_ = str({v})', '_ = repr({v})', '_ = reporting.budget({v})',
         '_ = get_covariance({v}, {w})', '_ = reporting.sensitivity({v}, {i})', '_ = {v} + {w}', '_ = {v} * 0', '_ = -{v}',
         'try:\n    _ = log({v} - {v})\nexcept Exception: pass', 'try:\n    _ = {v} / 0\nexcept Exception: pass',
         'try:\n    _ = sqrt(-magnitude({v}) - 1)\nexcept Exception: pass', '_ = get_correlation({v}, {w})', '_ = {v}.r',
         '_ = format({v}, ".3e")']

def noisy_variant(rng, prog):
    """the same model, with reads / prints / budgets / failing operations interleaved AFTER all correlations are declared"""
    lines = list(prog['decl']) + list(prog['corr'])
    avail = list(prog['inputs'])
    for v, line, uses in prog['ops']:
        for _ in range(rng.randint(0, 3)):
            lines.append(rng.choice(NOISE).format(v=rng.choice(avail), w=rng.choice(avail), i=rng.choice(prog['inputs'])))
        lines.append(line); avail.append(v)
    for _ in range(rng.randint(0, 4)):
        lines.append(rng.choice(NOISE).format(v=rng.choice(avail), w=rng.choice(avail), i=rng.choice(prog['inputs'])))
    return lines

def check_pair(rng, prog):
    base = list(prog['decl']) + list(prog['corr']) + [l for _, l, _ in prog['ops']]
    names = [v for v, _, _ in prog['ops']]
    noisy = noisy_variant(rng, prog)
    try:
        a = slp.sweep(slp.run(base), names + prog['inputs'], prog['inputs'])
    except Exception:
        return None
    try:
        b = slp.sweep(slp.run(noisy), names + prog['inputs'], prog['inputs'])
    except Exception as ex:
        return {'python_plain': base, 'python_noisy': noisy, 'raised': repr(ex)}
    if a != b:
        return {'python_plain': base, 'python_noisy': noisy, 'differs': [k for k in a if a[k] != b.get(k)][:5],
                'ulps': max_ulps(a, b), 'df_read_first': df_read_first(noisy)}
    return None

def max_ulps(a, b):
    """largest difference, in units in the last place, between corresponding observations (inf if not comparable)"""
    worst = 0.0
    for k in a:
        ra, rb = a[k], b.get(k)
        if rb is None or len(ra) != len(rb): return math.inf
        for xa, xb in zip(ra, rb):
            if xa == xb: continue
            fa, fb = slp.unbits(xa), slp.unbits(xb)
            if fa is None or fb is None or not (math.isfinite(fa) and math.isfinite(fb)): return math.inf
            worst = max(worst, abs(fa - fb) / max(math.ulp(fa), math.ulp(fb)))
    return worst

def df_read_first(lines):
    """does the history read .df (directly or through a budget / dof-dependent report) of some result?"""
    return any(('.df' in l) for l in lines)

def check_derived_after_corr(rng, prog):
    """objects BUILT after the correlations are declared must report what a fresh history reports, even when their
    operands were read before the declaration (new objects start without a cache)"""
    if not prog['corr'] or not prog['ops']: return None
    names = [v for v, _, _ in prog['ops']]
    derive = []
    for i, v in enumerate(names):
        derive.append('d%d = %s' % (i, rng.choice(['-{v}', '{v}*2.0', '{v}+1.5', '0-{v}', '2.0-{v}', '+{v}', '{v}/2.0', '{v}-{v}*0.5']).format(v=v)))
    dn = ['d%d' % i for i in range(len(names))]
    reads = ['_ = %s.u; _ = %s.df' % (v, v) for v in names if rng.random() < 0.7]
    hist = list(prog['decl']) + [l for _, l, _ in prog['ops']] + reads + list(prog['corr']) + derive
    fresh = list(prog['decl']) + list(prog['corr']) + [l for _, l, _ in prog['ops']] + derive
    try:
        a = slp.sweep(slp.run(fresh), dn, prog['inputs'])
    except Exception:
        return None
    try:
        b = slp.sweep(slp.run(hist), dn, prog['inputs'])
    except Exception as ex:
        return {'python_plain': fresh, 'python_noisy': hist, 'names': dn, 'raised': repr(ex)}
    if a != b:
        return {'python_plain': fresh, 'python_noisy': hist, 'names': dn, 'differs': [k for k in a if a[k] != b.get(k)][:5]}
    return None

def search(rng, tier, broken):
    n = 300 if tier == 'quick' else 5000
    import fit_a
    h = fit_a.history_oracle(rng, 100 if tier == 'quick' else 1500)
    if h['failing'] is not None:
        return h
    for i in range(n):
        prog = slp.gen(rng)
        r = check_pair(rng, prog)
        if r is None:
            r = check_derived_after_corr(rng, prog)
        if r is not None and not is_known(r):
            return {'tried': i + 1, 'failing': r}
    return {'tried': n, 'failing': None}

def kf_C10_cache():
    from GTC import core
    new_context(13)
    x1 = core.ureal(1, 1, independent=False); x2 = core.ureal(1, 1, independent=False)
    y = x1 + x2
    u_before = y.u
    core.set_correlation(0.5, x1, x2)
    u_after = y.u
    u_fresh = (x1 + x2).u
    return (u_after != u_fresh, 'y.u after declaring r=0.5: %r, fresh x1+x2: %r (read before: %r)' % (u_after, u_fresh, u_before))

def kf_C10_df_first_ulp():
    """reading .df of a result with finite-dof inputs BEFORE its uncertainty fills the _u cache with the square root of the
    Welch-Satterthwaite variance sum (a different summation order from std_variance_real): .u / .v then differ in the last place"""
    from GTC import core
    def run(noisy):
        new_context(77)
        x0 = core.ureal(1.24, 0.426, 4); x1 = core.ureal(2.213, 0.55, 4); x2 = core.ureal(2.284, 0.131, math.inf)
        t1 = x2 / (core.magnitude(x1) + 1.25); t3 = core.atan(x0) + t1; t4 = t3 / (core.magnitude(x0) + 1.25)
        if noisy: _ = t4.df
        return t4.u, t4.v
    a, b = run(True), run(False)
    return (a != b, 't4.u, t4.v = %r after reading t4.df first, %r otherwise' % (a, b))

def is_known(f):
    """C10-cache needs a set_correlation AFTER a read/result of a dependent result; the oracle's noisy histories never do that.
    C10-df-first-ulp: the noisy history reads a .df and every differing observation is within 4 units in the last place."""
    if isinstance(f, dict) and 'raised' not in f and f.get('df_read_first') and f.get('ulps', math.inf) <= 4.0:
        return True
    return False

def replay(payload):
    print(json.dumps(payload.get('broken'), indent=1)[:3000])
    f = payload.get('failing_input')
    if f and f.get('kind') == 'fit-history':
        import fit_a
        r = fit_a.check_history(f)
        print('replayed failing input on the implementation:', 'STILL FAILS %s' % r.get('failure') if r else 'passes now')
        return 1 if r else 0
    if f and 'python_plain' in f:
        try:
            names = f.get('names') or sorted(set(l.split(' = ')[0] for l in f['python_plain'] if l.startswith('t')))
            inputs = sorted(set(n.strip() for l in f['python_plain'] if l.startswith('x') for n in l.split(' = ')[0].split(',')))
            a = slp.sweep(slp.run(f['python_plain']), names, inputs)
            b = slp.sweep(slp.run(f['python_noisy']), names, inputs)
            print('replayed on the implementation:', 'STILL DIFFERS' if a != b else 'agrees now')
            return 1 if a != b else 0
        except Exception as ex:
            print('replay raised', repr(ex)); return 1
    return 0

def correspondence(rng, tier):
    r = _base_correspondence(rng, tier)
    # fit_history_programs: several predictions from one type-A fit object; df/u of every earlier prediction and of a, b
    # re-read after each later one, ensemble content of every live Leaf after every step (model LineFitA.v)
    import fit_a
    f = fit_a.fit_correspondence(rng, tier, n=40 if tier == 'quick' else 800, focus='history')
    r['mismatches'] += f.get('mismatches', [])
    r['programs'] += f.get('programs', 0); r['steps'] += f.get('steps', 0)
    r['distinct'] = r.get('distinct', 0) + f.get('distinct', 0)
    r.setdefault('distribution', {})['fit_history_programs'] = f.get('programs', 0)
    r['rule'] = r.get('rule', '') + '; plus fit_history_programs: 3-5 predictions per type-A fit object, earlier predictions and a, b re-read after each later one (model LineFitA.v)'
    # extra_corr: complex_history_programs: complex-kernel histories incl. a dof() that raises part-way followed by dof() of unrelated numbers (class-level accumulators), model CKernel.v
    f = __import__('cgen').run_ckernel_corr(rng, 'history', 'C10c', tier=tier)
    r['mismatches'] += f.get('mismatches', [])
    r['programs'] += f.get('programs', 0); r['steps'] += f.get('steps', 0)
    r['distinct'] = r.get('distinct', 0) + f.get('distinct', 0)
    r.setdefault('distribution', {})['complex_history_programs'] = f.get('programs', 0)
    r['rule'] = r.get('rule', '') + '; plus complex_history_programs: complex-kernel histories incl. a dof() that raises part-way followed by dof() of unrelated numbers (class-level accumulators), model CKernel.v'
    # la_operands_unmodified: the linear-algebra calls of the C15 generator, checked only for "operands (and the
    # bases of views) are not modified, results are fresh and equal on a repeated call" (harness/lu_cases.py)
    f = __import__('lu_cases').operands_unmodified_correspondence(rng, tier, 'C10la')
    r['mismatches'] += f.get('mismatches', [])
    r['programs'] += f.get('programs', 0); r['steps'] += f.get('steps', 0)
    r['distinct'] = r.get('distinct', 0) + f.get('distinct', 0)
    r.setdefault('distribution', {})['la_operands_unmodified_programs'] = f.get('programs', 0)
    r['rule'] = r.get('rule', '') + '; plus la_operands_unmodified: ' + f.get('rule', '')
    return r

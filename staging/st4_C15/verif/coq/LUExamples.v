(* LUExamples.v -- the LU model executed with exact arithmetic: over the rationals (Qc) and
   over the dual numbers on Qc (value + components indexed by nat).  Closed instances of the
   over the dual numbers on Qc (value + components indexed by bool: two influences).  Closed
   instances of the hypotheses of the theorems (non-vacuity), and the former counterexample of
   the solve statement on uncertain elements (a right-hand side with value 0 that carries
   uncertainty; _lubksb used to test `sum != 0.0`), which the repaired code solves. *)
From Coq Require Import ZArith List Bool Lia QArith Qcanon Ring FunctionalExtensionality.
From GTCV Require Import Num LU LUFacts DualRing.
Import ListNotations.

(* ---------------- rationals ---------------- *)
Definition qc_eqb (x y : Qc) : bool := Qeq_bool (this x) (this y).
Definition qc_isz (x : Qc) : bool := qc_eqb x 0%Qc.
Definition qc_ofZ (z : Z) : Qc := Q2Qc (inject_Z z).
Definition qc_abs (x : Qc) : Qc := if Qle_bool (this x) 0 then Qcopp x else x.
Definition qc_recip (w : Qc) : res Qc := if qc_isz w then Err ZeroDivisionError else Ok (Qcinv w).
Definition qc_ge (a b : Qc) : bool := Qle_bool (this b) (this a).
Definition qc_gt (a b : Qc) : bool := negb (Qle_bool (this a) (this b)).

Lemma qc_eqb_eq x y : qc_eqb x y = true -> x = y.
Proof. unfold qc_eqb. intros H. apply Qc_is_canon. now apply Qeq_bool_eq. Qed.

Lemma qc_eqb_refl x : qc_eqb x x = true.
Proof. unfold qc_eqb. apply Qeq_eq_bool. reflexivity. Qed.

Lemma qc_isz_exact x : qc_isz x = true -> x = 0%Qc.
Proof. apply qc_eqb_eq. Qed.

Lemma qc_inv x : qc_isz x = false -> Qcmult x (Qcinv x) = 1%Qc.
Proof.
  intros H. apply Qcmult_inv_r. intros ->. unfold qc_isz in H. now rewrite qc_eqb_refl in H.
Qed.

Definition QcE : Elt :=
  ring_elt Qc Qc Qcplus Qcmult Qcminus Qcinv qc_isz qc_isz qc_ofZ qc_abs 0%Qc qc_gt qc_ge Qcmult qc_recip.

(* ---------------- dual numbers on the rationals ---------------- *)
Notation DQ := (D Qc bool).
Definition dq_add := dadd Qc bool Qcplus.
Definition dq_mul := dmul Qc bool Qcplus Qcmult.
Definition dq_sub := dsub Qc bool Qcminus.
Definition dq_inv := dinv Qc bool Qcmult Qcopp Qcinv.
Definition dq_isz := disz Qc bool qc_isz.
Definition dq_skip (x : DQ) : bool := false.       (* an uncertain number is never a plain zero *)
Definition dq_ofZ (z : Z) : DQ := dconst Qc bool 0%Qc (qc_ofZ z).
Definition dq_abs (x : DQ) : Qc := qc_abs (fst x).
Notation dq0 := (dO Qc bool 0%Qc).
Notation dq1 := (dI Qc bool 0%Qc 1%Qc).

Definition DQE : Elt :=
  ring_elt DQ Qc dq_add dq_mul dq_sub dq_inv dq_isz dq_skip dq_ofZ dq_abs 0%Qc qc_gt qc_ge Qcmult qc_recip.

Lemma DQ_ring : ring_theory dq0 dq1 dq_add dq_mul dq_sub (dopp Qc bool Qcopp) (@eq DQ).
Proof. exact (D_ring Qc bool 0%Qc 1%Qc Qcplus Qcmult Qcminus Qcopp Qcrt). Qed.

Lemma DQ_inv : forall y, dq_isz y = false -> dq_mul y (dq_inv y) = dq1.
Proof. exact (D_inv Qc bool 0%Qc 1%Qc Qcplus Qcmult Qcminus Qcopp Qcinv qc_isz Qcrt qc_inv). Qed.

Lemma DQ_skip : forall y, dq_skip y = true -> y = dq0.
Proof. discriminate. Qed.

Definition dq_eqb (x y : DQ) : bool :=
  qc_eqb (fst x) (fst y) && qc_eqb (snd x true) (snd y true) && qc_eqb (snd x false) (snd y false).

Lemma dq_eqb_eq x y : dq_eqb x y = true -> x = y.
Proof.
  unfold dq_eqb. rewrite !andb_true_iff. intros [[H1 H2] H3].
  destruct x as [v f], y as [w g]; simpl in *. f_equal; [now apply qc_eqb_eq|].
  apply functional_extensionality. intros [|]; now apply qc_eqb_eq.
Qed.

(* ---------------- checking the decomposition invariant by execution ---------------- *)
Section DecCheck.
  Variables (A : Type) (rO rI : A) (radd rmul : A -> A -> A) (eqb : A -> A -> bool).
  Hypothesis eqb_eq : forall x y, eqb x y = true -> x = y.

  Definition dec_check (n : nat) (a lu : nat -> nat -> A) (idx : nat -> nat) : bool :=
    forallb (fun t => Nat.leb t (idx t) && Nat.ltb (idx t) n) (seq 0 n) &&
    forallb (fun i => forallb (fun j =>
       eqb (bsum A rO radd (fun k => rmul (Lm A rO rI lu i k) (Um A rO lu k j)) n)
           (perm_rows A idx n a i j)) (seq 0 n)) (seq 0 n).

  Lemma dec_check_sound n a lu idx :
    dec_check n a lu idx = true -> decomposes A rO rI radd rmul n a lu idx.
  Proof.
    unfold dec_check. rewrite andb_true_iff, !forallb_forall. intros [H1 H2]. split.
    - intros t Ht. specialize (H1 t). rewrite in_seq in H1. specialize (H1 ltac:(lia)).
      rewrite andb_true_iff, Nat.leb_le, Nat.ltb_lt in H1. lia.
    - intros i j Hi Hj. specialize (H2 i). rewrite in_seq in H2. specialize (H2 ltac:(lia)).
      rewrite forallb_forall in H2. specialize (H2 j). rewrite in_seq in H2.
      specialize (H2 ltac:(lia)). now apply eqb_eq.
  Qed.
End DecCheck.

Definition q_check := dec_check Qc 0%Qc 1%Qc Qcplus Qcmult qc_eqb.
Definition dq_check := dec_check DQ dq0 dq1 dq_add dq_mul dq_eqb.

Definition qm (rows : list (list Z)) : nat -> nat -> Qc :=
  fun i j => qc_ofZ (nth j (nth i rows []) 0%Z).
Definition qv (l : list Z) : nat -> Qc := fun i => qc_ofZ (nth i l 0%Z).

(* a 3 x 3 system whose leading element is zero: the first pivot must come from another row *)
Definition a3 := qm [[0; 2; 1]; [1; 1; 1]; [4; -1; 3]]%Z.
Definition b3 := qv [3; 0; 5]%Z.

Lemma ludcmp_a3 :
  match ludcmp QcE 3 a3 with
  | Ok (lu, idx, par) => q_check 3 a3 lu idx && negb (Nat.eqb (idx 0%nat) 0) = true
  | Err _ => False
  end.
Proof. vm_compute. reflexivity. Qed.

(* the hypothesis of solve_partial holds of a concrete matrix that needs pivoting, the model
   returns a solution, and the solution is not trivial *)
Lemma solve_a3 :
  match solve QcE 3 a3 b3 with
  | Ok x => map (fun i => this (x i)) (seq 0 3) = [(-17 # 3)%Q; (-8 # 3)%Q; (25 # 3)%Q]
  | Err _ => False
  end.
Proof. vm_compute. reflexivity. Qed.

Lemma decomposes_a3 :
  forall lu idx par, ludcmp QcE 3 a3 = Ok (lu, idx, par) ->
                     decomposes Qc 0%Qc 1%Qc Qcplus Qcmult 3 a3 lu idx.
Proof.
  intros lu idx par H. pose proof ludcmp_a3 as C. rewrite H in C.
  apply andb_true_iff in C. apply (dec_check_sound Qc 0%Qc 1%Qc Qcplus Qcmult qc_eqb qc_eqb_eq). apply C.
Qed.

(* ---------------- the former counterexample on uncertain elements ---------------- *)
(* a = [[2,1],[1,3]], b = [u, 1] where u has value 0 and component 1 w.r.t. the first influence.
   No row exchange happens.  _lubksb used to test `sum != 0.0` on the VALUE of u, skipped it,
   and row 1 never subtracted lu[1,0]*u (residual component 1/2).  The repaired test skips only
   plain-number zeros; the system is solved in value and in both components. *)
Definition ra : nat -> nat -> DQ := fun i j => dq_ofZ (nth j (nth i [[2; 1]; [1; 3]]%Z []) 0%Z).
Definition rb : nat -> DQ :=
  fun i => match i with
           | O => (0%Qc, fun k : bool => if k then 1%Qc else 0%Qc)
           | _ => dq_ofZ 1
           end.

Definition d_bsum := bsum DQ dq0 dq_add.

Lemma ludcmp_ra :
  match ludcmp DQE 2 ra with
  | Ok (lu, idx, par) => dq_check 2 ra lu idx = true
  | Err _ => False
  end.
Proof. vm_compute. reflexivity. Qed.

Lemma decomposes_ra :
  forall lu idx par, ludcmp DQE 2 ra = Ok (lu, idx, par) -> decomposes DQ dq0 dq1 dq_add dq_mul 2 ra lu idx.
Proof.
  intros lu idx par H. pose proof ludcmp_ra as C. rewrite H in C.
  now apply (dec_check_sound DQ dq0 dq1 dq_add dq_mul dq_eqb dq_eqb_eq).
Qed.

(* the right-hand side that used to be skipped: value zero, not zero *)
Example rb_not_exact : dq_isz (rb 0%nat) = true /\ rb 0%nat <> dq0.
Proof.
  split; [reflexivity|]. intros H.
  assert (E : snd (rb 0%nat) true = snd dq0 true) by now rewrite H.
  vm_compute in E. discriminate.
Qed.

Lemma solve_ra_ok : exists x, solve DQE 2 ra rb = Ok x /\ this (dcomp Qc bool (x 1%nat) true) = (-1 # 5)%Q.
Proof.
  assert (C : match solve DQE 2 ra rb with
              | Ok x => this (dcomp Qc bool (x 1%nat) true) = (-1 # 5)%Q
              | Err _ => False end) by (vm_compute; reflexivity).
  destruct (solve DQE 2 ra rb) as [x|e]; [|contradiction]. eauto.
Qed.

Theorem solve_zero_valued_rhs :
  exists x, solve DQE 2 ra rb = Ok x /\
    forall i, (i < 2)%nat ->
      dval Qc bool (d_bsum (fun j => dq_mul (ra i j) (x j)) 2) = dval Qc bool (rb i) /\
      forall k, dcomp Qc bool (d_bsum (fun j => dq_mul (ra i j) (x j)) 2) k = dcomp Qc bool (rb i) k.
Proof.
  destruct solve_ra_ok as (x & E & _). exists x. split; [exact E|]. intros i Hi.
  pose proof (solve_partial DQ Qc dq0 dq1 dq_add dq_mul dq_sub (dopp Qc bool Qcopp) dq_inv dq_isz dq_skip
                            dq_ofZ dq_abs 0%Qc qc_gt qc_ge Qcmult qc_recip DQ_ring DQ_inv DQ_skip
                            2 ra rb x decomposes_ra E i Hi) as H.
  unfold d_bsum. rewrite H. split; [reflexivity|intros k; reflexivity].
Qed.

(* ---------------- N-d transpose: the index map is a permutation of the positions ---------------- *)
(* checked by execution for every permutation of the axes of a 2 x 3 x 4 stack and of a 3 x 2 matrix
   (the general statement is proved for 2-D only: C15_transpose_perm) *)
Local Open Scope nat_scope.
Example transpose_nd_permutes :
  forallb (fun axes => is_perm_of_seq 24 (map (tr_src [2; 3; 4] axes) (seq 0 24)))
          [[0; 1; 2]; [0; 2; 1]; [1; 0; 2]; [1; 2; 0]; [2; 0; 1]; [2; 1; 0]] = true /\
  forallb (fun axes => is_perm_of_seq 6 (map (tr_src [3; 2] axes) (seq 0 6))) [[0; 1]; [1; 0]] = true /\
  tr_shape [2; 3; 4] [0; 2; 1] = [2; 4; 3] /\
  (* element [i, j, k] of transpose(c, (0,2,1)) is c[i, k, j] *)
  nd_transpose [2; 3; 4] [0; 2; 1] (fun t => t) = map (fun t => let i := Nat.div t 12 in let j := Nat.div (Nat.modulo t 12) 3 in
                                                               let k := Nat.modulo t 3 in (i * 12 + k * 4 + j)) (seq 0 24).
Proof. vm_compute. repeat split. Qed.

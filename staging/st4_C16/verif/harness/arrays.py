"""arrays.py -- correspondence machinery for C16 (GTC/uncertain_array.py vs coq/Array.v).

A *program* is a JSON-able list of operations on array objects kept in a heap (the same
objects are used again and again, because UncertainArray keeps `_broadcasted_shape` on the
object that dispatched a binary ufunc).  It is executed on the implementation; every element
that appears is given an integer identifier by *fingerprint* (type, value bits, uncertainty
bits, dof, label / or the symbolic term of a tracer element); the scalar operation table the
Coq model needs is recorded by applying the *scalar* GTC operations (core.sin, a + b, ...) to
the actual element objects; after every step the result (kind, shape, element ids | exception
class) and the `_broadcasted_shape` of every heap object are recorded.  The Coq model (E := Z)
is run on the same program inside coqc and must reproduce every observation."""
import math, cmath, zlib, warnings, itertools, numbers
import numpy as np
from common import *

# ----------------------------------------------------------------------------- opcodes
UN_UFUNC = {1: 'positive', 2: 'negative', 3: 'conjugate', 4: 'exp', 5: 'log', 6: 'log10', 7: 'sqrt', 8: 'cos',
            9: 'sin', 10: 'tan', 11: 'arccos', 12: 'arcsin', 13: 'arctan', 14: 'sinh', 15: 'cosh', 16: 'tanh',
            17: 'arccosh', 18: 'arcsinh', 19: 'arctanh', 20: 'square', 21: 'absolute', 22: 'reciprocal'}
UN_CORE = {4: 'exp', 5: 'log', 6: 'log10', 7: 'sqrt', 8: 'cos', 9: 'sin', 10: 'tan', 11: 'acos', 12: 'asin',
           13: 'atan', 14: 'sinh', 15: 'cosh', 16: 'tanh', 17: 'acosh', 18: 'asinh', 19: 'atanh',
           20: 'mag_squared', 23: 'magnitude', 24: 'phase'}
VIEW = {30: 'real', 31: 'imag', 32: 'r', 33: 'x', 34: 'u', 35: 'v', 36: 'df'}
VIEW_METHOD = {33: 'value', 34: 'uncertainty', 35: 'variance', 36: 'dof'}
UNB = {40: 'isinf', 41: 'isnan', 42: 'isfinite', 43: 'logical_not'}
BGEN = {50: 'add', 51: 'subtract', 52: 'multiply', 53: 'true_divide', 54: 'power', 55: 'maximum', 56: 'minimum',
        57: 'logical_and', 58: 'logical_or'}
BCMP = {60: 'equal', 61: 'not_equal', 62: 'less', 63: 'less_equal', 64: 'greater', 65: 'greater_equal'}
F_ATAN2, F_SENS, F_UCOMP, F_RES1, F_RES2, F_LBL = 70, 71, 72, 90, 91, 92
OPERATOR = {50: lambda a, b: a + b, 51: lambda a, b: a - b, 52: lambda a, b: a * b, 53: lambda a, b: a / b,
            54: lambda a, b: a ** b, 60: lambda a, b: a == b, 61: lambda a, b: a != b, 62: lambda a, b: a < b,
            63: lambda a, b: a <= b, 64: lambda a, b: a > b, 65: lambda a, b: a >= b}

def gtc_mods():
    from GTC import core, reporting, lib, linear_algebra
    from GTC import uncertain_array
    return core, reporting, lib, linear_algebra, uncertain_array

# ----------------------------------------------------------------------------- tracer elements
def _pseudo(term):
    return (zlib.crc32(repr(term).encode()) % 4001 - 2000) / 128.0

def _tt(o):
    if o is None or isinstance(o, str):
        raise TypeError('unsupported operand for a symbolic element: %r' % (o,))     # as number <op> None does
    return o.t if isinstance(o, Sym) else ('k', fingerprint(o))

def _is_zero_number(o):
    return isinstance(o, (int, float, np.integer, np.floating)) and not isinstance(o, (bool, np.bool_)) and o == 0

class Sym(object):
    """a symbolic element: records which scalar operation was applied to which operands.
    Comparisons / truth / value are decided by a deterministic pseudo-random number per term."""
    __slots__ = ('t', 'val')
    def __init__(self, t):
        self.t = t; self.val = _pseudo(t)
    def __repr__(self): return 'Sym%r' % (self.t,)
    def _b(self, name, o): return Sym((name, self.t, _tt(o)))
    def _rb(self, name, o): return Sym((name, _tt(o), self.t))
    def __add__(self, o): return self._b('add', o)
    def __radd__(self, o): return self._rb('add', o)
    def __sub__(self, o): return self._b('sub', o)
    def __rsub__(self, o): return self._rb('sub', o)
    def __mul__(self, o): return self._b('mul', o)
    def __rmul__(self, o): return self._rb('mul', o)
    def __truediv__(self, o):
        if _is_zero_number(o): raise ZeroDivisionError('symbolic element / 0')
        return self._b('div', o)
    def __rtruediv__(self, o): return self._rb('div', o)
    def __pow__(self, o): return self._b('pow', o)
    def __rpow__(self, o): return self._rb('pow', o)
    def __neg__(self): return Sym(('neg', self.t))
    def __pos__(self): return Sym(('pos', self.t))
    def __abs__(self): return Sym(('abs', self.t))
    def _cmpval(self, o): return o.val if isinstance(o, Sym) else o
    def __eq__(self, o): return isinstance(o, Sym) and self.t == o.t
    def __ne__(self, o): return not self.__eq__(o)
    def __lt__(self, o): return self.val < self._cmpval(o)
    def __le__(self, o): return self.val <= self._cmpval(o)
    def __gt__(self, o): return self.val > self._cmpval(o)
    def __ge__(self, o): return self.val >= self._cmpval(o)
    def __hash__(self): return hash(self.t)
    def __bool__(self): return (zlib.crc32(repr(self.t).encode()) & 1) == 1
    x = property(lambda s: s.val)
    u = property(lambda s: Sym(('u', s.t)))
    v = property(lambda s: Sym(('v', s.t)))
    df = property(lambda s: Sym(('df', s.t)))
    r = property(lambda s: Sym(('r', s.t)))
    real = property(lambda s: Sym(('real', s.t)))
    imag = property(lambda s: Sym(('imag', s.t)))
    def conjugate(self): return Sym(('conj', self.t))
    def sensitivity(self, x): return self._b('sens', x)
    def u_component(self, x): return self._b('ucomp', x)
    def _intermediate(self, label): return Sym(('result', self.t, None if label is None else str(label)))
    def _atan2(self, o): return self._b('atan2', o)
    def _ratan2(self, o): return self._rb('atan2', o)
for _n in ('exp', 'log', 'log10', 'sqrt', 'cos', 'sin', 'tan', 'acos', 'asin', 'atan', 'sinh', 'cosh', 'tanh',
           'acosh', 'asinh', 'atanh', 'mag_squared', 'magnitude', 'phase'):
    setattr(Sym, '_' + _n, (lambda n: lambda self: Sym((n, self.t)))(_n))

# ----------------------------------------------------------------------------- fingerprints and ids
def _fh(x):
    x = float(x)
    return 'nan' if math.isnan(x) else x.hex()

def _attr(f):
    """an attribute that may raise (uncertainty of a number built from inf/nan): the exception class is the observation"""
    try:
        return f()
    except Exception as ex:
        return 'raises ' + type(ex).__name__

def _fh2(f):
    v = _attr(f)
    return v if isinstance(v, str) else _fh(v)

def fingerprint(o):
    core, reporting, lib, la, ua = gtc_mods()
    if o is None: return ('N',)
    if isinstance(o, (bool, np.bool_)): return ('b', bool(o))
    if isinstance(o, Sym): return ('S', o.t)
    if isinstance(o, np.generic) and not isinstance(o, (np.str_, np.bytes_)):
        return ('np', o.dtype.name, fingerprint(o.item()))      # np.float64(1.0) is not the element 1.0 (nor 1, nor 1+0j)
    if isinstance(o, (int, np.integer)): return ('i', int(o))
    if isinstance(o, (float, np.floating)): return ('f', _fh(o))
    if isinstance(o, (complex, np.complexfloating)): return ('c', _fh(o.real), _fh(o.imag))
    if isinstance(o, str): return ('s', str(o))
    if isinstance(o, lib.UncertainReal):
        uid = o._node.uid if o.is_elementary else None
        return ('ur', _fh(o.x), _fh2(lambda: o.u), _fh2(lambda: o.df), None if o.label is None else str(o.label), uid, bool(o.is_intermediate))
    if isinstance(o, lib.UncertainComplex):
        return ('uc', fingerprint(o.real), fingerprint(o.imag), _fh2(lambda: o.r), None if o.label is None else str(o.label))
    if isinstance(o, tuple):
        return ('t', type(o).__name__) + tuple(fingerprint(e) for e in o)
    return ('o', type(o).__name__, repr(o))

class Registry(object):
    def __init__(self):
        self.ids = {('N',): 0}
    def id(self, o):
        f = fingerprint(o)
        if f not in self.ids:
            self.ids[f] = len(self.ids)
        return self.ids[f]

# ----------------------------------------------------------------------------- scalar reference operations
def _s_isnan(x):
    core = gtc_mods()[0]
    v = core.value(x)
    if isinstance(v, numbers.Real): return math.isnan(v)
    if isinstance(v, numbers.Complex): return cmath.isnan(v)
    raise TypeError('isnan')
def _s_isinf(x):
    core = gtc_mods()[0]
    v = core.value(x)
    if isinstance(v, numbers.Real): return math.isinf(v)
    if isinstance(v, numbers.Complex): return cmath.isinf(v)
    raise TypeError('isinf')
def _s_max(a, b):
    if _s_isnan(a): return a
    if _s_isnan(b): return b
    return a if a > b else b
def _s_min(a, b):
    if _s_isnan(a): return a
    if _s_isnan(b): return b
    return a if a < b else b

def scalar_un(code, x):
    """what the scalar operation returns for one element (no reference to uncertain_array.py)"""
    core, reporting = gtc_mods()[:2]
    if code == 1: return +x
    if code == 2: return -x
    if code == 3: return x.conjugate()
    if code in UN_CORE: return getattr(core, UN_CORE[code])(x)
    if code == 21: return abs(x)
    if code == 22: return 1.0 / x
    if code == 30: return x.real
    if code == 31: return x.imag
    if code == 32: return x.r
    if code == 33: return core.value(x)
    if code == 34: return core.uncertainty(x)
    if code == 35: return core.variance(x)
    if code == 36: return core.dof(x)
    if code == 40: return _s_isinf(x)
    if code == 41: return _s_isnan(x)
    if code == 42: return not (_s_isnan(x) or _s_isinf(x))
    if code == 43: return not bool(x)
    if code == F_RES1: return core.result(x)
    raise KeyError(code)

def scalar_bin(code, a, b):
    core, reporting = gtc_mods()[:2]
    if code in OPERATOR:
        r = OPERATOR[code](a, b)
        return bool(r) if code in BCMP else r
    if code == 55: return _s_max(a, b)
    if code == 56: return _s_min(a, b)
    if code == 57: return a and b
    if code == 58: return a or b
    if code == F_ATAN2: return core.atan2(a, b)
    if code == F_SENS: return a.sensitivity(b)
    if code == F_UCOMP: return a.u_component(b)
    if code == F_RES2: return core.result(a, b)
    raise KeyError(code)

def guarded(f, *args):
    try:
        with warnings.catch_warnings():
            warnings.simplefilter('ignore')
            return ('ok', f(*args))
    except Exception as ex:
        return ('exn', type(ex).__name__)

# ----------------------------------------------------------------------------- building elements
def make_elem(spec):
    core = gtc_mods()[0]
    k = spec[0]
    if k == 'L': return Sym(('L', spec[1]))
    if k == 'f': return float(spec[1])
    if k == 'i': return int(spec[1])
    if k == 'c': return complex(spec[1], spec[2])
    if k == 'N': return None
    if k == 'ur': return core.ureal(spec[1], spec[2], spec[3] if spec[3] is not None else math.inf)
    if k == 'uc': return core.ucomplex(complex(spec[1], spec[2]), (spec[3], spec[4]), spec[5] if spec[5] is not None else math.inf)
    if k == 's': return str(spec[1])
    if k == 'b': return bool(spec[1])
    if k == 'np': return getattr(np, spec[1])(complex(spec[2], spec[3]) if len(spec) > 3 else float(spec[2]) if isinstance(spec[2], str) else spec[2])
    raise ValueError(spec)

def promote_scalar(s):
    return np.full((1,), s, dtype=object)[0]

def make_array(kind, shape, elems, label, dtype=None):
    """dtype=None: an object array holding exactly the given elements; otherwise a NUMERIC ndarray of that dtype (its
    elements, as .flat yields them, are NumPy scalars) -- la.uarray keeps the dtype of an ndarray it is given"""
    core, reporting, lib, la, ua = gtc_mods()
    n = int(np.prod(shape)) if len(shape) else 1
    if dtype is None:
        flat = np.empty(n, dtype=object)
        for i, e in enumerate(elems): flat[i] = e
    else:
        flat = np.array(list(elems), dtype=dtype) if n else np.empty(0, dtype=dtype)
    nd = flat.reshape(tuple(shape))
    if kind == 'KN':
        return nd
    if len(shape) == 0:
        return ua.UncertainArray(nd, label=label)
    return la.uarray(nd, label=label)

# ----------------------------------------------------------------------------- NumPy views / re-laid-out copies
def apply_view(a, how):
    """the NumPy operation `how` applied to any ndarray (an UncertainArray, or an index array to get the index map)"""
    k = how[0]
    if k == 'T': return a.T
    if k == 'transpose': return np.transpose(a, tuple(how[1]))
    if k == 'swapaxes': return np.swapaxes(a, how[1], how[2])
    if k == 'rev': return a[(slice(None),) * how[1] + (slice(None, None, -1),)]
    if k == 'step': return a[(slice(None),) * how[1] + (slice(how[2], None, how[3]),)]
    if k == 'fortran': return np.asanyarray(a, order='F') if a.ndim else a
    if k == 'fcopy': return np.array(a, order='F', subok=True)
    if k == 'bcast': return np.broadcast_to(a, tuple(how[1]), subok=True)
    raise ValueError(how)

def view_index_map(shape, how):
    n = int(np.prod(shape)) if len(shape) else 1
    v = apply_view(np.arange(n).reshape(tuple(shape)), how)
    return [int(d) for d in v.shape], [int(j) for j in v.flat]

def rand_view(rng, shape):
    nd = len(shape); choices = [['fortran'], ['fcopy']]
    if nd >= 2:
        perm = list(range(nd)); rng.shuffle(perm)
        a, b = rng.sample(range(nd), 2)
        choices += [['T']] * 3 + [['transpose', perm]] * 2 + [['swapaxes', a, b]] * 2
    if nd >= 1:
        ax = rng.randrange(nd)
        choices += [['rev', ax]] * 2 + [['step', ax, rng.choice([0, 1]), rng.choice([2, -1, -2])]]
        if int(np.prod(shape)) <= 12: choices += [['bcast', [rng.choice([1, 2])] + list(shape)]]
    return rng.choice(choices)

def c_ordered(o):
    return (not isinstance(o, np.ndarray)) or o.ndim < 2 or bool(o.flags['C_CONTIGUOUS'])

# ----------------------------------------------------------------------------- running a program on the implementation
UNSET = object()

def bstate_of(o):
    core, reporting, lib, la, ua = gtc_mods()
    if not isinstance(o, ua.UncertainArray): return 'BNone'
    b = getattr(o, '_broadcasted_shape', UNSET)
    if b is UNSET: return 'BUnset'
    if b is None: return 'BNone'
    return ['BSome', [int(d) for d in b]]

def kind_of(o):
    ua = gtc_mods()[4]
    return 'KU' if isinstance(o, ua.UncertainArray) else 'KN'

def cells_of(o):
    return list(np.asarray(o).flat) if not isinstance(o, np.ndarray) else list(o.flat)

class Ambiguous(Exception):
    pass

class Impl(object):
    """executes one program on the implementation and records what the model needs"""
    def __init__(self, ctx=16):
        new_context(ctx)
        self.heap = []; self.reg = Registry(); self.rows = {}; self.expected = []; self.tainted = set()
        self.notes = {'broadcast': 0, 'stale_read': 0, 'read_after_broadcast': 0, 'exn': 0, 'steps': 0, 'cells': 0,
                      'noncontiguous_operand': 0, 'raising_broadcast': 0, 'read_after_raise': 0}
        self.bin_scalar = {}              # step -> ids of the promoted scalar operands of a binary ufunc
        self.numeric = set()              # heap indices of arrays with a numeric (non-object) dtype
        self.zip_scalar = {}              # step -> id of the converted scalar operand of a zip op
        self.pure = set()                 # heap indices of plain ndarrays holding only plain numbers of mixed kinds
        self.ranges = set()               # ... whose elements are 0..n-1 (can be passed as a range object)
        self.seen_uids = set()            # uids of intermediate nodes seen in any array element (freshness of result())
        self.result_failures = []         # element-level checks of result(array) that failed
        self.shape_at = {}                # step -> shape of the source of a view op
        self.views = set()                # heap indices of NumPy views / re-laid-out copies
        self.raised = set()               # heap indices of objects that dispatched a binary ufunc which raised
        self.dispatched_bcast = set()     # heap indices of objects that dispatched a broadcasting binary ufunc

    def row(self, code, args, r):
        key = (code, tuple(self.reg.id(a) for a in args))
        val = ('ok', self.reg.id(r[1])) if r[0] == 'ok' else ('exn', cexn(r[1]))
        if key in self.rows and self.rows[key] != val:
            raise Ambiguous(key)
        self.rows[key] = val

    def operand(self, o):
        if o[0] == 'A': return self.heap[o[1]]
        return self.scalars[o[1]]

    def op_cells(self, o):
        if o[0] == 'A': return cells_of(self.heap[o[1]])
        return [self.scalars[o[1]]]

    def promoted(self, o):
        """the element a scalar operand of a binary ufunc becomes: np.full(shape, scalar, dtype=object) stores a NumPy scalar as
        the corresponding Python number (np.float64(2.5) -> 2.5); Python numbers and uncertain numbers are stored as they are"""
        return promote_scalar(self.scalars[o[1]])

    def record_pairs(self, code, A, B, sa, sb, extra_diag=False):
        """scalar-table rows for every pairing the model may ask for: NumPy-broadcast pairs,
        flat zip pairs, and (arctan2) each element with itself"""
        pairs = set()
        for p, q in zip(range(len(A)), range(len(B))): pairs.add((p, q))
        try:
            r = np.broadcast_shapes(tuple(sa), tuple(sb))
            if int(np.prod(r)) <= 4096:
                ia = np.broadcast_to(np.arange(len(A)).reshape(tuple(sa)), r).ravel()
                ib = np.broadcast_to(np.arange(len(B)).reshape(tuple(sb)), r).ravel()
                pairs.update(zip(ia.tolist(), ib.tolist()))
        except ValueError:
            pass
        for p, q in sorted(pairs):
            self.row(code, (A[p], B[q]), guarded(scalar_bin, code, A[p], B[q]))
        if extra_diag:
            for x in list(A) + list(B):
                self.row(code, (x, x), guarded(scalar_bin, code, x, x))

    def label_state(self, o):
        if kind_of(o) == 'KN': return ['Ok', 0]
        try:
            return ['Ok', self.reg.id(o.label)]
        except AttributeError:
            return ['Err', 'AttributeError']

    def observe(self, r, stale_bool=None):
        """r = ('ok', obj) | ('exn', name) | ('lbl', value)"""
        if r[0] == 'exn':
            out = ['XExn', cexn(r[1])]; self.notes['exn'] += 1
        elif r[0] == 'lbl':
            out = ['XLbl', self.reg.id(r[1])]
        else:
            o = r[1]
            cs = cells_of(o)
            ids = [self.reg.id(c) for c in cs]
            if stale_bool is not None:
                if len(ids) > stale_bool: self.tainted.add(len(self.heap))   # holds uninitialised memory: never an operand
                ids = [v if i < stale_bool else -1 for i, v in enumerate(ids)]
            out = ['XArr', kind_of(o), [int(d) for d in np.shape(o)], ids]
            self.heap.append(o); self.notes['cells'] += len(ids)
        self.expected.append([out, [[bstate_of(h), self.label_state(h)] for h in self.heap]])
        self.notes['steps'] += 1

    def step(self, op):
        core, reporting, lib, la, ua = gtc_mods()
        k = op['op']
        if k in ('un', 'unb', 'zip', 'result', 'copy') and op['i'] in self.dispatched_bcast:
            self.notes['read_after_broadcast'] += 1
        if k in ('un', 'unb', 'zip', 'result', 'copy', 'bin'):
            used = [op['i']] if 'i' in op else [o[1] for o in (op['x'], op['y']) if o[0] == 'A']
            if 'y' in op and k == 'zip' and op['y'][0] == 'A': used.append(op['y'][1])
            if any(not c_ordered(self.heap[j]) for j in used): self.notes['noncontiguous_operand'] += 1
            if any(j in self.raised for j in used): self.notes['read_after_raise'] += 1
        if k == 'new':
            elems = [make_elem(s) for s in op['elems']]
            lbl = op.get('label')
            if lbl is not None: self.reg.id(lbl)
            self.observe(('ok', make_array(op['kind'], op['shape'], elems, lbl, op.get('dtype'))))
            if op.get('dtype'): self.numeric.add(len(self.heap) - 1)
            if op.get('pure'): self.pure.add(len(self.heap) - 1)
            if op.get('range'): self.ranges.add(len(self.heap) - 1)
        elif k == 'bin':
            code = op['f']; x = self.operand(op['x']); y = self.operand(op['y'])
            A = self.op_cells(op['x']); B = self.op_cells(op['y'])
            if op['x'][0] == 'S': A = [self.promoted(op['x'])]
            if op['y'][0] == 'S': B = [self.promoted(op['y'])]
            self.bin_scalar[len(self.expected)] = [self.reg.id(A[0]) if op['x'][0] == 'S' else None, self.reg.id(B[0]) if op['y'][0] == 'S' else None]
            sa = np.shape(x) if op['x'][0] == 'A' else (); sb = np.shape(y) if op['y'][0] == 'A' else ()
            self.record_pairs(code, A, B, sa, sb)
            if tuple(sa) != tuple(sb) and op['x'][0] == 'A' and op['y'][0] == 'A':
                self.notes['broadcast'] += 1
                ku = [o[1] for o in (op['x'], op['y']) if kind_of(self.heap[o[1]]) == 'KU']
                if ku: self.dispatched_bcast.add(ku[0])
            name = 'arctan2' if code == F_ATAN2 else BGEN.get(code) or BCMP.get(code)
            form = op.get('form', 'ufunc')
            if form in ('tuple', 'range'):
                def seq(o, v):
                    if not (o[0] == 'A' and kind_of(v) == 'KN' and np.ndim(v) > 0 and v.dtype == object and v.size > 0): return v
                    if form == 'range' and o[1] in self.ranges: return range(v.size)
                    def tup(z): return tuple(tup(e) for e in z) if isinstance(z, list) else z
                    return tup(v.tolist())
                x = seq(op['x'], x); y = seq(op['y'], y)
            if form == 'list':       # pass a plain-ndarray operand as a nested list
                # (a nested list cannot carry the shape of an array with a zero-length axis)
                if op['x'][0] == 'A' and kind_of(x) == 'KN' and np.ndim(x) > 0 and x.dtype == object and x.size > 0: x = x.tolist()
                if op['y'][0] == 'A' and kind_of(y) == 'KN' and np.ndim(y) > 0 and y.dtype == object and y.size > 0: y = y.tolist()
            if form == 'operator' and code in OPERATOR:
                r = guarded(OPERATOR[code], x, y)
            else:
                r = guarded(getattr(np, name), x, y)
            if r[0] == 'exn':
                ku = [o[1] for o in (op['x'], op['y']) if o[0] == 'A' and kind_of(self.heap[o[1]]) == 'KU']
                if ku:
                    self.raised.add(ku[0])
                    if tuple(sa) != tuple(sb) and op['x'][0] == 'A' and op['y'][0] == 'A': self.notes['raising_broadcast'] += 1
            self.observe(r)
        elif k in ('un', 'unb'):
            code = op['f']; a = self.heap[op['i']]
            stale = bstate_of(a) not in ('BNone',)
            if stale: self.notes['stale_read'] += 1
            for c in cells_of(a):
                self.row(code, (c,), guarded(scalar_un, code, c))
            form = op.get('form', 'ufunc')
            if code in VIEW:
                if form == 'method' and code in VIEW_METHOD: r = guarded(lambda: getattr(a, VIEW_METHOD[code])())
                else: r = guarded(lambda: getattr(a, VIEW[code]))
            elif code in UNB:
                r = guarded(getattr(np, UNB[code]), a)
            elif form == 'core' and code in UN_CORE:
                r = guarded(getattr(core, UN_CORE[code]), a)
            elif code in (23, 24):
                r = guarded(getattr(core, UN_CORE[code]), a)
            elif form == 'operator' and code in (1, 2, 21):
                r = guarded({1: lambda v: +v, 2: lambda v: -v, 21: abs}[code], a)
            elif form == 'method' and code == 3:
                r = guarded(lambda: a.conjugate())
            else:
                r = guarded(getattr(np, UN_UFUNC[code]), a)
            self.observe(r, stale_bool=(len(cells_of(a)) if k == 'unb' else None))
        elif k == 'zip':
            code = op['f']; a = self.heap[op['i']]; y = self.operand(op['y'])
            if bstate_of(a) != 'BNone': self.notes['stale_read'] += 1
            A = cells_of(a); B = self.op_cells(op['y'])
            if op['y'][0] == 'S':
                # sensitivity / u_component do np.asarray(scalar): a plain number reaches the element method as the NumPy scalar
                # of the 0-d array (np.float64(2.5) for 2.5); that converted object is the scalar operand given to the model
                B = list(np.asarray(y).flat); self.zip_scalar[len(self.expected)] = self.reg.id(B[0])
            for p, q in zip(A, B):
                self.row(code, (p, q), guarded(scalar_bin, code, p, q))
            if code == F_SENS: r = guarded(reporting.sensitivity, a, y)
            elif code == F_UCOMP: r = guarded(reporting.u_component, a, y)
            else: r = guarded(core.atan2, a, y)
            self.observe(r)
        elif k == 'result':
            a = self.heap[op['i']]
            if bstate_of(a) != 'BNone': self.notes['stale_read'] += 1
            A = cells_of(a); lab = op['labels']
            if lab is None:
                for c in A: self.row(F_RES1, (c,), guarded(scalar_un, F_RES1, c))
                pre = [(c, getattr(c, 'label', None)) for c in A]
                r = guarded(core.result, a)
            else:
                if isinstance(lab, str):
                    flat = ['%s[%d]' % (lab, i) for i in range(len(A))]
                    self.reg.id(lab)
                    for i, l in enumerate(flat): self.rows[(F_LBL, (self.reg.id(lab), i))] = ('ok', self.reg.id(l))
                else:
                    flat = list(np.asarray(lab).flat)
                for c, l in zip(A, flat):
                    self.row(F_RES2, (c, str(l)), guarded(scalar_bin, F_RES2, c, str(l)))
                pre = [(c, getattr(c, 'label', None)) for c in A]
                r = guarded(core.result, a, tuple(lab) if op.get('lab_tuple') and isinstance(lab, list) else lab)
            if lab is None: flat_l = [None] * len(A)
            else: flat_l = [str(l) for l in flat]
            self.observe(r)
            if r[0] == 'ok':
                self.result_failures += check_result_elements(self, len(self.expected) - 1, pre, flat_l, cells_of(r[1]))
        elif k == 'copy':
            a = self.heap[op['i']]
            if bstate_of(a) != 'BNone': self.notes['stale_read'] += 1
            for c in cells_of(a): self.row(1, (c,), guarded(scalar_un, 1, c))
            o = op.get('order')
            self.observe(guarded(lambda: a.copy() if o is None else a.copy(order=o)))
        elif k == 'label':
            a = self.heap[op['i']]
            r = guarded(lambda: a.label)
            self.observe(('lbl', r[1]) if r[0] == 'ok' else r)
        elif k == 'pickle':
            import pickle
            a = self.heap[op['i']]
            self.observe(guarded(lambda: pickle.loads(pickle.dumps(a))))
        elif k == 'view':
            a = self.heap[op['i']]
            self.shape_at[len(self.expected)] = [int(d) for d in np.shape(a)]
            n0 = len(self.heap)
            self.observe(guarded(apply_view, a, op['how']))
            if len(self.heap) > n0:
                self.views.add(n0)
                if self.heap[n0].dtype != object and self.heap[n0].dtype != bool: self.numeric.add(n0)
        else:
            raise ValueError(k)

# ----------------------------------------------------------------------------- what the elements of result(array) ARE
def _vec(v):
    return [(getattr(n, 'uid', n), _fh(x)) for n, x in zip(v._index, v._value)]

def check_result_elements(impl, step, pre, labels, out):
    """element k of result(array[, labels]) must be: the same object for a number / an elementary or already declared
    uncertain number; otherwise a NEW declared intermediate (fresh uid) with the value, uncertainty, dof and component
    vectors of operand element k, its own node appended to the intermediate components, and label labels[k]
    (`<label>_re` / `<label>_im` on the components of an uncertain complex number).  Returns failure records."""
    core, reporting, lib, la, ua = gtc_mods()
    bad = []
    def fail(k, msg): bad.append({'kind': 'result-element', 'step': step, 'index': k, 'what': msg})
    def real(k, x, y, lbl, part=''):
        if not isinstance(y, lib.UncertainReal): return fail(k, 'not an uncertain real%s: %r' % (part, type(y).__name__))
        if x.is_elementary or x.is_intermediate:
            if y is not x: fail(k, 'an elementary / declared number%s was not returned unchanged' % part)
            return
        if not y.is_intermediate or y.is_elementary: return fail(k, 'element%s is not a declared intermediate' % part)
        if y.label != lbl and not (y.label is not None and lbl is not None and str(y.label) == lbl):
            fail(k, 'label%s %r, expected %r' % (part, y.label, lbl))
        if _fh(y.x) != _fh(x.x) or _fh2(lambda: y.u) != _fh2(lambda: x.u) or _fh2(lambda: y.df) != _fh2(lambda: x.df):
            fail(k, 'value / uncertainty / dof%s differ from the operand element' % part)
        if _vec(y._u_components) != _vec(x._u_components) or _vec(y._d_components) != _vec(x._d_components):
            fail(k, 'component vectors%s differ from the operand element' % part)
        own = (y._node.uid, _fh(y._node.u))
        if sorted(_vec(y._i_components)) != sorted(_vec(x._i_components) + [own]):
            fail(k, 'intermediate components%s are not the operand\'s plus the new node' % part)
        if y._node.uid in impl.seen_uids: fail(k, 'uid%s %r is not fresh' % (part, y._node.uid))
        impl.seen_uids.add(y._node.uid)
    if len(out) < len(pre): return [{'kind': 'result-element', 'step': step, 'index': len(out), 'what': 'result has fewer elements than the operand'}]
    for k, ((x, _), y) in enumerate(zip(pre, out)):
        lbl = labels[k] if k < len(labels) else None
        if k >= len(labels):
            continue                                            # fewer labels than elements: covered by the model (cell stays None)
        if isinstance(x, lib.UncertainReal):
            real(k, x, y, lbl)
        elif isinstance(x, lib.UncertainComplex):
            if not isinstance(y, lib.UncertainComplex): fail(k, 'not an uncertain complex: %r' % type(y).__name__); continue
            real(k, x.real, y.real, None if lbl is None else lbl + '_re', ' (real part)')
            real(k, x.imag, y.imag, None if lbl is None else lbl + '_im', ' (imaginary part)')
            if not (x.real.is_elementary or x.real.is_intermediate) and y.label != lbl and str(y.label) != str(lbl):
                fail(k, 'label %r, expected %r' % (y.label, lbl))
        elif isinstance(x, (numbers.Number, np.generic)) or x is None:
            if y is not x and fingerprint(y) != fingerprint(x): fail(k, 'a pure number was not returned unchanged')
    return bad

# ----------------------------------------------------------------------------- Coq printing
def cnat_list(xs): return '[' + '; '.join(str(int(v)) for v in xs) + ']'
def czl(xs): return clist([cz(v) for v in xs])
def cbs(b): return b if isinstance(b, str) else '(BSome %s)' % cnat_list(b[1])

def coq_operand(o, reg, scalars):
    return '(OA %d)' % o[1] if o[0] == 'A' else '(OS %s)' % cz(reg.id(scalars[o[1]]))

def coq_op(op, impl, step=None):
    reg = impl.reg; k = op['op']
    if k == 'new':
        # the element ids are those observed in the created array (two equal specs are still two elements)
        elems = impl.expected[step][0][3]
        lbl = op.get('label') if op['kind'] == 'KU' else None
        return '(ONew %s %s %s %s)' % (op['kind'], cnat_list(op['shape']), czl(elems), cz(reg.id(lbl) if lbl is not None else 0))
    if k == 'bin':
        bk = 'BCmp' if op['f'] in BCMP else 'BGen'      # np.arctan2 is an ordinary two-argument wrapper since the fix
        sx, sy = impl.bin_scalar[step]
        return '(OBin %s %s %s %s)' % (bk, cz(op['f']), '(OS %s)' % cz(sx) if op['x'][0] == 'S' else coq_operand(op['x'], reg, impl.scalars),
                                       '(OS %s)' % cz(sy) if op['y'][0] == 'S' else coq_operand(op['y'], reg, impl.scalars))
    if k == 'un': return '(OUn %s %d)' % (cz(op['f']), op['i'])
    if k == 'unb': return '(OUnB %s %d)' % (cz(op['f']), op['i'])
    if k == 'zip':
        y = '(OS %s)' % cz(impl.zip_scalar[step]) if op['y'][0] == 'S' else coq_operand(op['y'], reg, impl.scalars)
        return '(OZip %s %d %s)' % (cz(op['f']), op['i'], y)
    if k == 'result':
        lab = op['labels']
        if lab is None: l = 'LNone'
        elif isinstance(lab, str): l = '(LBase %s)' % cz(reg.id(lab))
        else: l = '(LList %s)' % czl([reg.id(str(x)) for x in np.asarray(lab).flat])
        return '(OResult %d %s)' % (op['i'], l)
    if k == 'copy': return '(OCopy Ord%s %d)' % (op.get('order') or 'C', op['i'])
    if k == 'label': return '(OLabel %d)' % op['i']
    if k == 'pickle': return '(OPickle %d)' % op['i']
    if k == 'view':
        # the index map comes from NumPy applied to an index array of the source's shape
        src_shape = impl.shape_at[step]
        s, m = view_index_map(src_shape, op['how'])
        return '(OView %d %s %s)' % (op['i'], cnat_list(s), cnat_list(m))
    raise ValueError(k)

def coq_out(x):
    if x[0] == 'XExn': return '(XExn %s)' % x[1]
    if x[0] == 'XLbl': return '(XLbl %s)' % cz(x[1])
    return '(XArr %s %s %s)' % (x[1], cnat_list(x[2]), czl(x[3]))

def coq_case(prog, impl):
    rows = []
    for (code, args), val in impl.rows.items():
        rows.append('(%s, %s, %s)' % (cz(code), czl(args), 'Ok %s' % cz(val[1]) if val[0] == 'ok' else 'Err %s' % val[1]))
    ops = [coq_op(op, impl, i) for i, op in enumerate(prog['ops'])]
    exp = ['(%s, %s)' % (coq_out(x), clist(['(%s, %s)' % (cbs(b), 'Ok %s' % cz(l[1]) if l[0] == 'Ok' else 'Err %s' % l[1]) for b, l in bs]))
           for x, bs in impl.expected]
    return 'run_acase (%s, %s, %s)' % (clist(rows), clist(ops), clist(exp))

HEADER = ('From Coq Require Import ZArith List.\nFrom GTCV Require Import Num Array ArrayCase.\nImport ListNotations.\n')

def start(prog, ctx=16, upto=None):
    """a fresh Impl that has executed prog['ops'][:upto]"""
    impl = Impl(ctx); impl.spec_ids = {}
    impl.scalars = [make_elem(s) for s in prog['scalars']]
    for sc in impl.scalars: impl.reg.id(sc)
    for op in prog['ops'][:upto]:
        do(impl, op)
    return impl

def do(impl, op):
    n0 = len(impl.heap)
    with warnings.catch_warnings():
        warnings.simplefilter('ignore')
        impl.step(op)
    if op['op'] == 'new' and len(impl.heap) > n0:
        for spec, e in zip(op['elems'], cells_of(impl.heap[-1])):
            impl.spec_ids[json.dumps(spec)] = impl.reg.id(e)

def execute(prog, ctx=16):
    return start(prog, ctx)

# ----------------------------------------------------------------------------- program generator
def rand_shape(rng):
    while True:
        rank = rng.choice([0, 1, 1, 2, 2, 2, 3, 3])
        s = [rng.choice([1, 1, 2, 2, 3, 3, 4]) for _ in range(rank)]
        if rng.random() < 0.04 and rank: s[rng.randrange(rank)] = 0
        if int(np.prod(s)) <= 24: return s

def variant_shape(rng, base):
    r = rng.random(); s = list(base)
    if r < 0.25: return s
    if r < 0.45 and s: return s[rng.randint(1, len(s)):]
    if r < 0.8 and s:
        for i in range(len(s)):
            if rng.random() < 0.5: s[i] = 1
        return s
    if r < 0.88 and s:
        i = rng.randrange(len(s)); s[i] = s[i] + 1 if s[i] > 1 else 5
        return s
    if r < 0.94: return []
    return rand_shape(rng)

class Gen(object):
    def __init__(self, rng, mode):
        self.rng = rng; self.mode = mode; self.leaf = 0; self.shapes = []; self.kinds = []

    def number(self):
        """a plain number; a sequence of these has MIXED kinds, which NumPy would coerce to one dtype if it were asked to"""
        rng = self.rng; self.leaf += 1; k = self.leaf
        return rng.choice([['b', rng.random() < 0.5], ['i', rng.randint(-3, 3)], ['i', k], ['i', 2 ** 70 + k], ['f', round(rng.uniform(-2, 2), 2)],
                           ['f', float(k)], ['c', float(rng.randint(0, 2)), float(rng.randint(-1, 1))], ['c', 0.5 * k, 0.0],
                           ['np', 'float64', round(rng.uniform(0.1, 2), 2)], ['np', 'int64', rng.randint(1, 5)], ['np', 'float32', 0.5 * rng.randint(1, 5)]])

    def poison(self):
        """an element on which some scalar operations raise: None (TypeError), 0 / 0.0 (ZeroDivisionError, domain errors)"""
        # ... and NaN / inf, on which comparisons, maximum/minimum and isnan/isinf/isfinite take their special branches
        return self.rng.choice([['N'], ['i', 0], ['f', 0.0], ['f', -1.5], ['f', 'nan'], ['f', 'nan'], ['f', 'inf'], ['f', '-inf']])

    def elem(self):
        rng = self.rng; self.leaf += 1
        if self.mode == 'sym':
            if rng.random() < 0.85: return ['L', self.leaf]
            return ['f', round(rng.uniform(-3, 3), 2) + self.leaf] if rng.random() < 0.7 else ['i', self.leaf]
        r = rng.random(); x = round(rng.uniform(0.2, 0.9), 3) + 0.001 * self.leaf
        if r < 0.5: return ['ur', x, round(rng.uniform(0.01, 0.2), 3), rng.choice([None, None, 3.0, 7.5])]
        if r < 0.7: return ['uc', x, round(rng.uniform(-0.9, 0.9), 3), round(rng.uniform(0.01, 0.2), 3), round(rng.uniform(0.01, 0.2), 3), rng.choice([None, 5.0])]
        if r < 0.85:
            if rng.random() < 0.12: return ['f', rng.choice(['inf', '-inf', 'nan'])]
            return ['f', x if rng.random() < 0.9 else -x]
        if r < 0.93: return ['i', rng.randint(1, 3) + 10 * self.leaf]
        return ['c', x, round(rng.uniform(-1, 1), 3)]

    def scalar(self):
        rng = self.rng; self.leaf += 1
        if rng.random() < 0.3:          # every plain scalar kind, in both modes
            return rng.choice([['b', rng.random() < 0.5], ['i', rng.randint(-3, 3)], ['f', round(rng.uniform(-3, 3), 2)], ['f', 0.5], ['f', 2.5],
                               ['c', float(rng.randint(0, 2)), 0.5 * rng.randint(-2, 2)], ['np', 'float64', round(rng.uniform(0.1, 2), 2)],
                               ['np', 'int64', rng.randint(1, 4)], ['np', 'complex128', 1.0, -0.5]])
        if self.mode == 'sym': return ['f', round(rng.uniform(-3, 3), 2)] if rng.random() < 0.7 else ['i', rng.randint(-3, 3)]
        r = rng.random()
        if r < 0.4: return ['ur', round(rng.uniform(0.2, 0.9), 3) + 0.001 * self.leaf, round(rng.uniform(0.01, 0.2), 3), None]
        if r < 0.55: return ['uc', round(rng.uniform(0.2, 0.9), 3) + 0.001 * self.leaf, 0.3, 0.05, 0.07, None]
        if r < 0.85: return ['f', round(rng.uniform(0.2, 2), 2)] if rng.random() < 0.85 else ['f', rng.choice(['nan', 'inf', 0.0])]
        if r < 0.95: return ['i', rng.randint(1, 3)]
        return ['c', 0.5, -0.25]

    def program(self):
        rng = self.rng
        base = rand_shape(rng)
        ops = []; scalars = [self.scalar() for _ in range(2)]
        ninit = rng.randint(2, 4)
        for j in range(ninit):
            s = list(base) if j == 0 else variant_shape(rng, base)
            kind = 'KU' if j == 0 or rng.random() < 0.8 else 'KN'
            if kind == 'KU' and len(s) == 0 and rng.random() < 0.5: s = [1]
            n = int(np.prod(s)) if s else 1
            elems = [self.elem() for _ in range(n)]
            if n and rng.random() < 0.3: elems[rng.randrange(n)] = self.poison()
            op = {'op': 'new', 'kind': kind, 'shape': s, 'elems': elems, 'label': rng.choice([None, 'lab%d' % j])}
            if rng.random() < 0.25:
                # built from a NUMERIC ndarray: the (u)array keeps dtype int64 / float64 / float32 / complex128 / bool
                dt = rng.choice(['int64', 'int64', 'float64', 'float64', 'float32', 'complex128', 'bool'])
                def val():
                    if dt == 'int64': return ['np', dt, rng.randint(-3, 4)]
                    if dt == 'bool': return ['np', 'bool_', rng.random() < 0.5]
                    if dt == 'complex128': return ['np', dt, float(rng.randint(-2, 2)), 0.5 * rng.randint(-2, 2)]
                    if rng.random() < 0.1: return ['np', dt, rng.choice(['nan', 'inf', 0.0])]
                    return ['np', dt, 0.25 * rng.randint(-8, 12)]
                op['elems'] = [val() for _ in range(n)]; op['dtype'] = dt
            elif kind == 'KN' and n and len(s) and rng.random() < 0.6:
                # a plain sequence of pure numbers (passed to the ufuncs as nested list / tuple / range)
                if len(s) == 1 and rng.random() < 0.15:
                    op['elems'] = [['i', v] for v in range(n)]; op['range'] = True
                else:
                    op['elems'] = [self.number() for _ in range(n)]
                op['pure'] = True
            ops.append(op)
            self.shapes.append(s); self.kinds.append(kind)
        return {'mode': self.mode, 'scalars': scalars, 'ops': ops}

def extend_program(rng, prog, impl_factory, nops, profile='general'):
    """ops are chosen one at a time while the program runs on the implementation, so that operands always
    refer to objects that exist (the generator must know which steps raised)"""
    mode = prog['mode']
    impl = impl_factory(prog)
    for _ in range(nops):
        heap = impl.heap
        kus = [i for i, o in enumerate(heap) if kind_of(o) == 'KU']
        if not kus: break
        def pick_ku():
            # prefer objects whose dispatched binary ufunc raised, NumPy views with a non-C memory layout, objects that
            # dispatched a broadcasting ufunc (or hold a remembered broadcast shape), then the first (shared) operands
            raised = [i for i in kus if i in impl.raised]
            if raised and rng.random() < 0.4: return rng.choice(raised)
            numeric = [i for i in kus if i in impl.numeric]
            if numeric and rng.random() < 0.35: return rng.choice(numeric)
            views = [i for i in kus if i in impl.views]
            if views and rng.random() < 0.45: return rng.choice(views)
            stale = [i for i in kus if bstate_of(heap[i]) != 'BNone' or i in impl.dispatched_bcast]
            if stale and rng.random() < 0.5: return rng.choice(stale)
            return rng.choice(kus[:4]) if rng.random() < 0.7 else rng.choice(kus)
        def pick_any():
            if rng.random() < 0.75: return ['A', pick_ku()]
            if rng.random() < 0.5: return ['S', rng.randrange(len(prog['scalars']))]
            pure = [j for j in impl.pure if j < len(heap)]
            if pure and rng.random() < 0.5: return ['A', rng.choice(pure)]
            numeric = [j for j in impl.numeric if j < len(heap)]
            if numeric and rng.random() < 0.5: return ['A', rng.choice(numeric)]
            for _ in range(8):
                j = rng.randrange(len(heap))
                if j not in impl.tainted: return ['A', j]
            return ['A', pick_ku()]
        def mk_result():
            i = pick_ku(); a = heap[i]
            # result(x, label) on an ELEMENTARY number assigns the label to that number (side effect on a leaf that other
            # arrays share): in real mode labelled result() is only applied to arrays of computed / plain elements
            ok = mode == 'sym' or not any(getattr(c, 'is_elementary', False) or
                                          (hasattr(c, 'real') and getattr(getattr(c, 'real', None), 'is_elementary', False))
                                          for c in cells_of(a))
            q = rng.random(); o = {'op': 'result', 'i': i}
            if not ok or q < 0.3: lab = None
            elif q < 0.6: lab = 'r%d' % len(heap)
            else:
                n = len(cells_of(a)); u = rng.random()
                m = n if u < 0.7 else max(1, n - 1) if u < 0.85 else n + 1          # matching, too few, too many labels
                lab = ['m%d_%d' % (len(heap), j) for j in range(m)]
                if rng.random() < 0.5 and np.ndim(a) >= 1 and len(lab) == n and n:
                    lab = np.array(lab).reshape(np.shape(a)).tolist()
                elif rng.random() < 0.4: o['lab_tuple'] = True
            o['labels'] = lab
            return o
        if profile == 'result':
            # result()-centred histories: computed arrays, views of every layout, then result() in every label form
            q = rng.random()
            if q < 0.45: op = mk_result()
            elif q < 0.65:
                src = ['A', pick_ku()]
                op = {'op': 'view', 'i': src[1], 'how': rand_view(rng, list(np.shape(heap[src[1]])))}
            elif q < 0.85:
                x, y = ['A', pick_ku()], pick_any()
                op = {'op': 'bin', 'f': rng.choice([50, 51, 52]), 'x': x, 'y': y, 'form': 'ufunc'}
            elif q < 0.93: op = {'op': 'un', 'f': rng.choice([1, 2, 33, 34]), 'i': pick_ku(), 'form': 'ufunc'}
            else: op = {'op': 'copy', 'i': pick_ku(), 'order': rng.choice([None, 'F'])}
            if op['op'] == 'bin' and op['y'][0] == 'A':
                try:
                    if int(np.prod(np.broadcast_shapes(np.shape(heap[op['x'][1]]), np.shape(heap[op['y'][1]])))) > 48: continue
                except ValueError:
                    pass
            prog['ops'].append(op); do(impl, op)
            continue
        r = rng.random()
        if r < 0.10:
            src = pick_any()
            if src[0] != 'A': src = ['A', pick_ku()]
            op = {'op': 'view', 'i': src[1], 'how': rand_view(rng, list(np.shape(heap[src[1]])))}
            prog['ops'].append(op); do(impl, op)
            continue
        r = rng.random()
        if r < 0.40:
            code = rng.choice(list(BGEN) * 2 + [53, 54] + list(BCMP))
            x, y = pick_any(), pick_any()
            if not any(o[0] == 'A' and kind_of(heap[o[1]]) == 'KU' for o in (x, y)):
                x = ['A', pick_ku()]
            if x[0] == 'S' and y[0] == 'S': y = ['A', pick_ku()]
            form = rng.choice(['ufunc', 'ufunc', 'operator', 'list'])
            if any(o[0] == 'A' and o[1] in impl.pure for o in (x, y)): form = rng.choice(['list', 'list', 'tuple', 'range', 'ufunc'])
            if form == 'operator':
                # Python operators do not always reach np.<ufunc>(x, y): a NumPy scalar on the left applies its own reflection rules
                # (np.complex128(..) <= a becomes a >= ..), and ndarray.__pow__ of a numeric-dtype array turns ** 0.5 / 2 / -1 into
                # np.sqrt / np.square / np.reciprocal (same values, other scalar functions): the ufunc is called directly there
                if x[0] == 'S' and isinstance(impl.scalars[x[1]], np.generic): form = 'ufunc'
                # Python tries the reflected comparison of the uarray first when the left operand is a plain ndarray (subclass
                # rule) or a scalar: `nd < a` runs np.greater(a, nd), another ufunc with swapped operands
                if code in BCMP and not (x[0] == 'A' and kind_of(heap[x[1]]) == 'KU'): form = 'ufunc'
                if code == 54 and x[0] == 'A' and heap[x[1]].dtype != object: form = 'ufunc'      # (views of numeric arrays included)
            op = {'op': 'bin', 'f': code, 'x': x, 'y': y, 'form': form}
        elif r < 0.50:
            x, y = pick_any(), pick_any()
            if not any(o[0] == 'A' and kind_of(heap[o[1]]) == 'KU' for o in (x, y)):
                y = ['A', pick_ku()]
            if x[0] == 'S' and y[0] == 'S': x = ['A', pick_ku()]
            op = {'op': 'bin', 'f': F_ATAN2, 'x': x, 'y': y, 'form': rng.choice(['ufunc', 'list', 'tuple'])}
        elif r < 0.72:
            code = rng.choice(list(UN_UFUNC) + [23, 24] + list(VIEW) * 2)
            i = pick_ku(); form = rng.choice(['ufunc', 'core', 'operator', 'method'])
            if bstate_of(heap[i]) == 'BUnset':
                # core.f(array) turns the AttributeError of an unpickled array into TypeError (core.py, not modelled)
                form = 'ufunc'
                if code in (23, 24): code = 21
            op = {'op': 'un', 'f': code, 'i': i, 'form': form}
        elif r < 0.77:
            op = {'op': 'unb', 'f': rng.choice(list(UNB)), 'i': pick_ku()}
        elif r < 0.86:
            code = rng.choice([F_SENS, F_UCOMP, F_ATAN2])
            i = pick_ku()
            if bstate_of(heap[i]) == 'BUnset' and code == F_ATAN2: code = F_SENS
            y = ['A', pick_ku()] if (code == F_ATAN2 or rng.random() < 0.8) else ['S', rng.randrange(len(prog['scalars']))]
            op = {'op': 'zip', 'f': code, 'i': i, 'y': y}
        elif r < 0.91:
            op = mk_result()
        elif r < 0.965:
            # copy() with every memory order, on C-ordered operands and on views (the order must not touch the contents)
            op = {'op': 'copy', 'i': pick_ku(), 'order': rng.choice([None, 'C', 'F', 'F', 'A', 'K'])}
        elif r < 0.985:
            op = {'op': 'label', 'i': pick_ku()}
        else:
            op = {'op': 'pickle', 'i': pick_ku()}
        # int ** int towers never finish: no power when an operand holds an integer beyond +-4
        if op['op'] == 'bin' and op['f'] == 54:
            def bigint(o):
                cs = cells_of(heap[o[1]]) if o[0] == 'A' else [impl.scalars[o[1]]]
                return any(isinstance(c, (int, np.integer)) and not isinstance(c, (bool, np.bool_)) and abs(int(c)) > 4 for c in cs)
            if bigint(op['x']) or bigint(op['y']): op['f'] = 50
        # keep results small
        if op['op'] == 'bin' and op['x'][0] == 'A' and op['y'][0] == 'A':
            try:
                if int(np.prod(np.broadcast_shapes(np.shape(heap[op['x'][1]]), np.shape(heap[op['y'][1]])))) > 48: continue
            except ValueError:
                pass
        prog['ops'].append(op)
        do(impl, op)
    return impl

def gen_and_run(rng, mode, ctx=16, profile='general'):
    """one random program, executed on the implementation while it is generated;
    returns (prog, impl) or None if two different elements got the same fingerprint"""
    import signal
    prog = Gen(rng, mode).program()
    nops = rng.randint(4, 10)
    def on_alarm(sig, frm): raise Ambiguous('timeout')
    old = signal.signal(signal.SIGALRM, on_alarm)
    signal.setitimer(signal.ITIMER_REAL, 10.0)
    try:
        impl = extend_program(rng, prog, lambda p: start(p, ctx), nops, profile)
    except Ambiguous:
        return None
    finally:
        signal.setitimer(signal.ITIMER_REAL, 0)
        signal.signal(signal.SIGALRM, old)
    return prog, impl

# ----------------------------------------------------------------------------- reusable correspondence drivers
NOTE_KEYS = ('broadcast', 'stale_read', 'read_after_broadcast', 'exn', 'steps', 'cells', 'noncontiguous_operand',
             'raising_broadcast', 'read_after_raise')

def directed_programs():
    """a small fixed stream run in every general correspondence: every comparison, maximum / minimum and the isnan / isinf /
    isfinite tests on operands that hold NaN and +-inf (object and float64 dtype, array-array and scalar-array, both orders) --
    the special branches that random elements reach only by luck"""
    progs = []
    for code in list(BCMP) + [55, 56]:
        ops = [{'op': 'new', 'kind': 'KU', 'shape': [4], 'elems': [['f', 'nan'], ['f', 1.0], ['ur', 0.5, 0.1, None], ['f', 'inf']], 'label': None},
               {'op': 'new', 'kind': 'KU', 'shape': [4], 'elems': [['f', 1.0], ['f', 'nan'], ['f', 'nan'], ['f', '-inf']], 'label': None},
               {'op': 'new', 'kind': 'KU', 'shape': [4], 'elems': [['np', 'float64', 'nan'], ['np', 'float64', 2.0], ['np', 'float64', 'inf'], ['np', 'float64', 0.5]],
                'label': None, 'dtype': 'float64'}]
        for x, y in ((['A', 0], ['A', 1]), (['A', 1], ['A', 0]), (['A', 0], ['S', 0]), (['S', 0], ['A', 0]), (['A', 2], ['S', 1]),
                     (['S', 1], ['A', 2]), (['A', 2], ['A', 0]), (['A', 0], ['A', 0])):
            ops.append({'op': 'bin', 'f': code, 'x': x, 'y': y, 'form': 'ufunc'})
        for c in UNB:
            ops.append({'op': 'unb', 'f': c, 'i': 0}); ops.append({'op': 'unb', 'f': c, 'i': 2})
        progs.append({'mode': 'real', 'scalars': [['f', 'nan'], ['f', 1.0]], 'ops': ops})
    # sequences of plain numbers of mixed kinds as list / tuple operands, both orders, with symbolic and with real elements
    for mode, elems in (('sym', [['L', 1], ['L', 2], ['L', 3]]), ('real', [['ur', 0.5, 0.1, None], ['ur', 1.5, 0.2, 3.0], ['f', 2.0]])):
        ops = [{'op': 'new', 'kind': 'KU', 'shape': [3], 'elems': elems, 'label': None},
               {'op': 'new', 'kind': 'KN', 'shape': [3], 'elems': [['b', True], ['i', 2], ['f', 2.5]], 'label': None, 'pure': True},
               {'op': 'new', 'kind': 'KN', 'shape': [3], 'elems': [['i', 2 ** 70 + 1], ['f', 1.0], ['c', 0.0, 1.0]], 'label': None, 'pure': True},
               {'op': 'new', 'kind': 'KN', 'shape': [1, 3], 'elems': [['np', 'float32', 0.5], ['i', 3], ['b', False]], 'label': None, 'pure': True}]
        for code in (50, 51, 52, 53, 62, 70):
            for j in (1, 2, 3):
                for form in ('list', 'tuple'):
                    ops.append({'op': 'bin', 'f': code, 'x': ['A', 0], 'y': ['A', j], 'form': form})
                    ops.append({'op': 'bin', 'f': code, 'x': ['A', j], 'y': ['A', 0], 'form': form})
        progs.append({'mode': mode, 'scalars': [['f', 1.0], ['f', 2.0]], 'ops': ops})
    return progs

def array_correspondence(rng, n, name, profile='general', p_sym=0.5, extra_terms=(), extra_meta=(), per_file=40):
    """n random array histories of the given profile run on the implementation and through the Coq model (coqc,
    vm_compute); returns the usual correspondence dict.  extra_terms are further closed Gallina terms of type Z."""
    progs = []; terms = []; dist = {'mode': {}, 'ops': {}, 'rank': {}, 'outcome': {}, 'result_label_forms': {}}
    notes = {k: 0 for k in NOTE_KEYS}; ambiguous = 0; distinct = set(); mism = []; res_checked = 0
    directed = directed_programs() if profile == 'general' else []
    dist['directed_programs'] = len(directed)
    while len(progs) < n + len(directed):
        if directed:
            prog = directed.pop(0); mode = prog['mode']
            try:
                impl = start(prog)
            except Ambiguous:
                ambiguous += 1; continue
        else:
            mode = 'sym' if rng.random() < p_sym else 'real'
            r = gen_and_run(rng, mode, profile=profile)
            if r is None:
                ambiguous += 1; continue
            prog, impl = r
        progs.append(prog); terms.append(coq_case(prog, impl))
        dist['mode'][mode] = dist['mode'].get(mode, 0) + 1
        nontrivial_result = False
        for op in prog['ops']:
            k = op['op'] + ('' if 'f' not in op else ':%d' % op['f'])
            dist['ops'][k] = dist['ops'].get(k, 0) + 1
            if op['op'] == 'new': dist['rank'][str(len(op['shape']))] = dist['rank'].get(str(len(op['shape'])), 0) + 1
            if op['op'] == 'result':
                lab = op['labels']
                form = 'none' if lab is None else 'base string' if isinstance(lab, str) else \
                       ('tuple' if op.get('lab_tuple') else 'nested list' if lab and isinstance(lab[0], list) else 'flat list')
                dist['result_label_forms'][form] = dist['result_label_forms'].get(form, 0) + 1
                res_checked += 1; nontrivial_result = True
        for x, _ in impl.expected:
            key = x[0] if x[0] != 'XExn' else x[1]
            dist['outcome'][key] = dist['outcome'].get(key, 0) + 1
        for k in notes: notes[k] += impl.notes[k]
        for f in impl.result_failures:
            mism.append(dict(f, program=prog))
        if (impl.notes['broadcast'] and impl.notes['read_after_broadcast']) or impl.notes['noncontiguous_operand'] \
           or impl.notes['read_after_raise'] or (profile == 'result' and nontrivial_result):
            distinct.add(json.dumps([[o['op'], o.get('f'), o.get('how')] for o in prog['ops']] + [o['shape'] for o in prog['ops'] if o['op'] == 'new']))
    extra_terms = list(extra_terms)
    values, errors = coq_eval_cases(name, HEADER, terms + extra_terms, per_file=per_file)
    for e in errors:
        mism.append({'kind': 'coq-error', 'detail': e})
    for i, v in enumerate(values):
        if v is None or v == -1: continue
        if i < len(progs):
            mism.append({'kind': 'array-program', 'first_differing_step': v, 'program': progs[i]})
        else:
            mism.append({'kind': 'extra-term', 'meta': extra_meta[i - len(progs)] if i - len(progs) < len(extra_meta) else None, 'code': v})
    dist['notes'] = notes; dist['ambiguous_discarded'] = ambiguous; dist['result_ops'] = res_checked
    return {'programs': len(progs) + len(extra_terms), 'steps': notes['steps'], 'mismatches': mism, 'distinct': len(distinct),
            'distribution': dist, 'samples': progs[:2]}

def result_correspondence(rng, tier, name='C16res'):
    """ONLY result()-centred array histories (for C06 as well as C16): 2-4 arrays of rank 0-3, computed (non-elementary)
    arrays made by + - *, NumPy views of every memory layout (T, transpose, swapaxes, reversed / strided slices, Fortran
    order, broadcast_to), then result(array) / result(array, 'base') / result(array, flat | nested | tuple of labels with
    matching, too few or too many labels) and reads of the results.  Compared: the Coq model of UncertainArray._intermediate
    (shape, C index order of elements and of the generated labels 'base[k]', exceptions) and, element by element on the
    implementation, that each element IS a new declared intermediate (is_intermediate, fresh uid, label, value / u / dof and
    component vectors of the operand's element, own node appended) or the unchanged object for numbers, elementary and
    already declared uncertain numbers."""
    n = 120 if tier == 'quick' else 3000
    r = array_correspondence(rng, n, name, profile='result', p_sym=0.3, per_file=40 if tier == 'quick' else 200)
    r['rule'] = ('result()-centred histories on shared array objects: computed arrays, views of every memory layout, every label '
                 'form (none, base string, flat / nested / tuple sequences; matching, too few, too many labels); model comparison of '
                 'shape / index order / labels / exceptions plus per-element checks (declared intermediate, fresh uid, label, value and '
                 'component vectors equal to the operand element); non-trivial = contains a result() step')
    return r

"""C16 -- uncertain arrays are the element-wise lifting of scalar operations."""
import random, time, warnings, math
import numpy as np
from common import *
import arrays
from arrays import *

COQ_PROPS = 'props/C16.v'
PARTIAL = ('proved for all shapes/ranks/histories over abstract elements, for the code as repaired by the four C16 fixes: '
           'broadcasting index map; lifting of every binary ufunc (np.arctan2 in both operand orders and under broadcasting, '
           'comparisons, scalar-array); no object ever holds a remembered broadcast shape; unary ops / views / copy / result with '
           'the operand\'s own shape after any history (copy for every memory order); full history independence of every operation; pickle round trip; NumPy views as operands. '
           'REFUTED (witness replayed, known finding): sensitivity / u_component / core.atan2 do not broadcast. Not modelled: '
           'structured arrays, slicing/views sharing memory, matmul/dot, reductions, out= kwargs, core.* wrappers translating '
           'AttributeError; element-level scalar semantics is the scalar-operation table (C01-C06 cover it)')
ASSUMPTIONS = ['numpy selects the leftmost UncertainArray input as the __array_ufunc__ dispatcher (validated by correspondence)',
               'np.broadcast / np.empty / flat iteration behave as modelled (validated by direct broadcast cases and by correspondence)']
TRUSTED = ['element fingerprints (type, value/uncertainty bits, dof, label, uid of elementary numbers | symbolic term) identify elements',
           'scalar operation table recorded from scalar GTC operations on the actual element objects']

def bcast_terms(rng, n):
    terms = []; meta = []
    for _ in range(n):
        s = rand_shape(rng); t = variant_shape(rng, s)
        if rng.random() < 0.5: s, t = t, s
        try:
            r = np.broadcast_shapes(tuple(s), tuple(t))
            l0 = np.broadcast_to(np.arange(int(np.prod(s))).reshape(tuple(s)), r).ravel().tolist()
            l1 = np.broadcast_to(np.arange(int(np.prod(t))).reshape(tuple(t)), r).ravel().tolist()
            e = '(Some (%s, %s, %s))' % (cnat_list(r), czl(l0), czl(l1))
        except ValueError:
            e = 'None'
        terms.append('bcast_case %s %s %s' % (cnat_list(s), cnat_list(t), e)); meta.append({'bcast': [s, t]})
    return terms, meta

def correspondence(rng, tier):
    n = 400 if tier == 'quick' else 12000
    bterms, bmeta = bcast_terms(rng, 200 if tier == 'quick' else 4000)
    r = array_correspondence(rng, n, 'C16', profile='general', extra_terms=bterms, extra_meta=bmeta, per_file=40 if tier == 'quick' else 200)
    q = result_correspondence(rng, tier, 'C16res')          # result()-centred histories (shared with C06)
    for k in ('programs', 'steps', 'distinct'): r[k] += q[k]
    r['mismatches'] += q['mismatches']
    r['distribution']['result_centred'] = q['distribution']
    r.update({
            'rule': 'random histories of 6-14 operations on 2-4 shared array objects (rank 0-3, dims 0-4, <= 24 elements, '
                    'size-1 axes, incompatible shapes, scalars, plain ndarrays/lists); half with symbolic tracer elements, '
                    'half with ureal/ucomplex/float/int/complex elements; 10% of the steps make a NumPy view or re-laid-out copy '
                    '(T, transpose, swapaxes, reversed / strided slices, Fortran order, broadcast_to) that later steps use as operand; '
                    '30% of the arrays hold an element on which scalar operations raise or branch (None, 0, negative, nan, inf); the generator returns to '
                    'objects whose dispatched ufunc raised, to views, and to dispatchers of broadcasting ufuncs; non-trivial = a read of '
                    'the dispatcher after a broadcasting op, or an operation on a non-C-contiguous operand, or an operation on an object '
                    'whose dispatched binary ufunc raised; 60% of the plain-ndarray operands are sequences of pure numbers of mixed kinds (bool, int, huge int, float, complex, numpy scalars) passed as nested list / tuple / range; 25% of the arrays (KU and KN, dispatchers included) are built from NUMERIC ndarrays (int64, float64, float32, complex128, bool: elements are NumPy scalars) and 30% of the scalars are of every plain kind (bool, int, float, complex, numpy scalars); a fixed directed stream (comparisons / maximum / minimum / isnan.. on NaN and inf; mixed-kind list and tuple operands) runs in every tier; plus direct NumPy-vs-model broadcasting cases; plus result()-centred histories: ' + q['rule'],
    })
    return r


# ------------------------------------------------------------------------- property oracle (search only)
def _ideal(op, heap, scalars, labels):
    """what the property says the step returns, from the operands' contents and shapes only:
    ('arr', kind, shape, [fingerprints]) | ('exn', name) | ('lbl', fingerprint)"""
    core = gtc_mods()[0]
    def opd(o):
        if o[0] == 'A':
            a = heap[o[1]]; return np.shape(a), cells_of(a)
        if op['op'] == 'bin':        # np.full(shape, scalar, dtype=object) stores a NumPy scalar as the Python number
            return (), [arrays.promote_scalar(scalars[o[1]])]
        if op['op'] == 'zip':        # sensitivity / u_component hand np.asarray(scalar) to the elements (np.float64(2.5) for 2.5)
            return (), list(np.asarray(scalars[o[1]]).flat)
        return (), [scalars[o[1]]]
    def lift2(code, x, y, kind):
        (sx, cx), (sy, cy) = opd(x), opd(y)
        try: r = np.broadcast_shapes(tuple(sx), tuple(sy))
        except ValueError: return ('exn', 'ValueError')
        ix = np.broadcast_to(np.arange(len(cx)).reshape(tuple(sx)), r).ravel()
        iy = np.broadcast_to(np.arange(len(cy)).reshape(tuple(sy)), r).ravel()
        out = []
        for p, q in zip(ix.tolist(), iy.tolist()):
            v = guarded(scalar_bin, code, cx[p], cy[q])
            if v[0] == 'exn': return ('exn', cexn(v[1]))
            out.append(fingerprint(v[1]))
        return ('arr', kind, [int(d) for d in r], out)
    def lift1(code, i, kind):
        a = heap[i]; out = []
        for c in cells_of(a):
            v = guarded(scalar_un, code, c)
            if v[0] == 'exn': return ('exn', cexn(v[1]))
            out.append(fingerprint(v[1]))
        return ('arr', kind, [int(d) for d in np.shape(a)], out)
    k = op['op']
    if k == 'bin': return lift2(op['f'], op['x'], op['y'], 'KN' if op['f'] in BCMP else 'KU')
    if k == 'un': return lift1(op['f'], op['i'], 'KU')
    if k == 'unb': return lift1(op['f'], op['i'], 'KN')
    if k == 'copy': return lift1(1, op['i'], 'KU')
    if k == 'zip': return lift2(op['f'], ['A', op['i']], op['y'], 'KU')
    if k == 'label': return ('lbl', fingerprint(labels[op['i']]))
    if k == 'pickle':
        a = heap[op['i']]; return ('arr', 'KU', [int(d) for d in np.shape(a)], [fingerprint(c) for c in cells_of(a)])
    if k == 'view':
        a = heap[op['i']]; cs = cells_of(a)
        try:
            s, m = view_index_map([int(d) for d in np.shape(a)], op['how'])
        except Exception as ex:
            return ('exn', cexn(type(ex).__name__))
        return ('arr', kind_of(a), s, [fingerprint(cs[j]) for j in m])
    if k == 'result':
        a = heap[op['i']]; lab = op['labels']
        if lab is None: return lift1(F_RES1, op['i'], 'KU')
        flat = ['%s[%d]' % (lab, j) for j in range(len(cells_of(a)))] if isinstance(lab, str) else [str(l) for l in np.asarray(lab).flat]
        if len(flat) != len(cells_of(a)): return None          # the property says nothing
        out = []
        for c, l in zip(cells_of(a), flat):
            v = guarded(scalar_bin, F_RES2, c, l)
            if v[0] == 'exn': return ('exn', cexn(v[1]))
            out.append(fingerprint(v[1]))
        return ('arr', 'KU', [int(d) for d in np.shape(a)], out)
    return None

def check_program(prog, ctx=16, known_hits=None):
    """run prog on the implementation and compare every step with the stateless lifting semantics;
    returns None or {'step','expected','observed','known_class'} for the first deviating step"""
    impl = arrays.Impl(ctx); impl.spec_ids = {}
    impl.scalars = [make_elem(s) for s in prog['scalars']]
    labels = []
    for step, op in enumerate(prog['ops']):
        heap = impl.heap
        before = [bstate_of(o) for o in heap]
        with warnings.catch_warnings():
            warnings.simplefilter('ignore')
            want = None if op['op'] == 'new' else _ideal(op, heap, impl.scalars, labels)
            n0 = len(heap)
            arrays.do(impl, op)
        if impl.result_failures:
            f = impl.result_failures[0]
            return {'step': step, 'op': op, 'expected': 'element %d of result(array): %s' % (f['index'], 'a new declared intermediate equal to the operand element / the unchanged object'),
                    'observed': f['what'], 'known_class': None,
                    'program': {'mode': prog['mode'], 'scalars': prog['scalars'], 'ops': prog['ops'][:step + 1]}}
        got_raw = impl.expected[-1][0]
        # observed, as fingerprints
        if got_raw[0] == 'XExn': got = ('exn', got_raw[1])
        elif got_raw[0] == 'XLbl': got = ('lbl', fingerprint(heap[op['i']].label) if False else None)
        else:
            o = impl.heap[-1]; got = ('arr', kind_of(o), [int(d) for d in np.shape(o)], [fingerprint(c) for c in cells_of(o)])
        if got_raw[0] == 'XLbl':
            got = ('lbl', fingerprint(impl.heap[op['i']].label))
        # bookkeeping of labels and dispatch
        if len(impl.heap) > n0:
            # copy() keeps the label; results, views and unpickled arrays have none
            labels.append(op.get('label') if op['op'] == 'new' else labels[op['i']] if op['op'] in ('copy', 'view') else None)
        known = None
        # the only listed finding left: sensitivity / u_component / core.atan2 with a second operand of another shape
        if op['op'] == 'zip':
            i = op['i']
            sy = np.shape(heap[op['y'][1]]) if op['y'][0] == 'A' else ()
            if tuple(sy) != tuple(np.shape(heap[i])): known = 'zip-no-broadcast'
            if op['f'] == F_ATAN2 and op['y'][0] != 'A': known = 'zip-no-broadcast'
        if want is not None and want != got and known is not None:
            if known_hits is not None: known_hits[known] = known_hits.get(known, 0) + 1
            continue                     # a listed finding: later steps are still checked (from actual contents)
        if want is not None and want != got:
            return {'step': step, 'op': op, 'expected': want, 'observed': got, 'known_class': known,
                    'program': {'mode': prog['mode'], 'scalars': prog['scalars'], 'ops': prog['ops'][:step + 1]}}
    return None

def _jsonable(x):
    return json.loads(json.dumps(x, default=str))

def search(rng, tier, broken):
    tried = 0; known_hits = {}
    cands = []
    for kind, detail in broken or []:
        if kind == 'correspondence':
            for m in detail:
                if m.get('kind') == 'array-program': cands.append(m['program'])
    def examine(prog):
        nonlocal tried
        tried += 1
        try:
            return check_program(prog, known_hits=known_hits)
        except arrays.Ambiguous:
            return None
    for prog in cands:
        r = examine(prog)
        if r is not None: return {'tried': tried, 'failing': _jsonable(r), 'known_classes_seen': known_hits}
    n = 300 if tier == 'quick' else 3000
    for _ in range(n):
        g = gen_and_run(rng, 'sym' if rng.random() < 0.5 else 'real', profile='result' if rng.random() < 0.3 else 'general')
        if g is None: continue
        r = examine(g[0])
        if r is not None: return {'tried': tried, 'failing': _jsonable(r), 'known_classes_seen': known_hits}
    return {'tried': tried, 'failing': None, 'known_classes_seen': known_hits}

def is_known(f):
    return f.get('known_class') is not None

def replay(payload):
    print(json.dumps(payload.get('broken'), indent=1)[:3000])
    f = payload.get('failing_input')
    if f:
        r = check_program(f['program'])
        print('replayed failing input on the implementation:',
              'STILL FAILS at step %d: expected %r observed %r' % (r['step'], r['expected'], r['observed']) if r and r['known_class'] is None else 'passes now')
        return 1 if r and r['known_class'] is None else 0
    return 0

# ------------------------------------------------------------------------- known findings (run on the implementation)
def _mk(shape, base):
    core, reporting, lib, la, ua = gtc_mods()
    n = int(np.prod(shape))
    flat = np.empty(n, dtype=object)
    for i in range(n): flat[i] = core.ureal(base + i, 0.1 * (i + 1))
    return la.uarray(flat.reshape(shape))

def kf_C16_stale_shape():
    new_context(16)
    a = _mk((3, 1), 1.0); b = _mk((3,), 10.0)
    c = a + b
    v = a.x
    bad = v.shape == (3, 3) and sum(e is None for e in v.flat) == 6
    return bad, 'a(3,1)+b(3,); a.x has shape %r with %d None' % (v.shape, sum(e is None for e in v.flat))

def kf_C16_arctan2_second():
    new_context(16)
    core = gtc_mods()[0]
    b = _mk((3,), 10.0)
    r = np.arctan2(np.array([1.0, 2.0, 3.0], dtype=object), b)
    want = [core.atan2(y, x).x for y, x in zip([1.0, 2.0, 3.0], b)]
    got = [e.x for e in r]
    return got != want and all(abs(g - math.pi / 4) < 1e-15 for g in got), 'np.arctan2(ndarray, uarray) values %r, scalar atan2 %r' % (got, want)

def kf_C16_arctan2_broadcast():
    new_context(16)
    a = _mk((3, 1), 1.0); b = _mk((3,), 10.0)
    try:
        np.arctan2(a, b)
    except AttributeError as ex:
        return True, 'AttributeError: %s; a._broadcasted_shape = %r' % (ex, a._broadcasted_shape)
    return False, 'no exception'

def kf_C16_zip_no_broadcast():
    new_context(16)
    core, reporting = gtc_mods()[:2]
    a = _mk((2, 1), 1.0); b = _mk((2,), 10.0); y = a * 2.0
    s = reporting.sensitivity(y, core.ureal(1, 1))
    z = core.atan2(a, b)
    bad = s.shape == (2, 1) and s.flat[1] is None and z.shape == (2, 1)
    return bad, 'sensitivity(y(2,1), scalar) = %r; core.atan2(a(2,1), b(2,)).shape = %r (NumPy broadcast: (2, 2))' % (list(s.flat), z.shape)

def kf_C16_pickle():
    import pickle
    new_context(16)
    g = pickle.loads(pickle.dumps(_mk((2,), 1.0)))
    bad = []
    for name, f in (('x', lambda: g.x), ('label', lambda: g.label), ('copy', lambda: g.copy())):
        try:
            f()
        except AttributeError as ex:
            bad.append('%s -> AttributeError (%s)' % (name, ex))
    return bool(bad), 'unpickled array: ' + ('; '.join(bad) if bad else 'views, label and copy work')

def kf_C16_copy_order():
    """copy(order=o) must have the operand's shape and, at every index, +element -- for every memory order"""
    new_context(16)
    a = _mk((2, 3), 1.0)
    bad = []
    for src, name in ((a, 'a'), (a.T, 'a.T')):
        for o in ('C', 'F', 'A', 'K'):
            try:
                r = src.copy(order=o)
            except Exception as ex:
                bad.append("%s.copy(order=%r) raises %s" % (name, o, type(ex).__name__)); continue
            if r.shape != src.shape or any(r[i].x != src[i].x or r[i].u != src[i].u for i in np.ndindex(src.shape)):
                bad.append("%s.copy(order=%r).x = %r, operand %r" % (name, o, r.x.tolist(), src.x.tolist()))
    return bool(bad), '; '.join(bad) if bad else 'copy(order=C|F|A|K) keeps shape and logical contents'

(* ArchiveRestore.v -- what _thaw restores (for every frozen archive, no size bound), the
   end-to-end statement freeze -> storage -> thaw for declared intermediates, the bridge from
   restored registries to the kernel's session state, the two statements that fixes
   C07-json-complex-list and C07-nan-dof-same-session made provable (a JSON load is the pickle
   load; node records, NaN dof included, re-attach in the writing session), their concrete
   instances, and the witness of the remaining defect (XML empty label). *)
From Coq Require Import ZArith List Bool String Lia.
From Coq Require Import PrimFloat.
From GTCV Require Import Num FNum Vector VectorFacts Opres KTypes Kernel Archive ArchiveFacts ArchiveCase.
Import ListNotations.
Local Open Scope string_scope.
Local Open Scope list_scope.

(* ---------- association lists ---------- *)
Lemma assoc_app_none {A} (a b : list (key * A)) k : assoc a k = None -> assoc (a ++ b) k = assoc b k.
Proof.
  induction a as [|[k' x] a IH]; simpl; [reflexivity|].
  destruct (keqb k k'); [discriminate|exact IH].
Qed.

Lemma assoc_app_some {A} (a b : list (key * A)) k x : assoc a k = Some x -> assoc (a ++ b) k = Some x.
Proof.
  induction a as [|[k' y] a IH]; simpl; [discriminate|].
  destruct (keqb k k'); [tauto|exact IH].
Qed.

Lemma assoc_set_app_last {A} (a : list (key * A)) k x y :
  assoc a k = None -> assoc_set (a ++ [(k, x)]) k y = a ++ [(k, y)].
Proof.
  induction a as [|[k' z] a IH]; simpl; intros H.
  - now rewrite keqb_refl.
  - destruct (keqb k k'); [discriminate|]. now rewrite IH.
Qed.

Lemma assoc_set_same {A} (l : list (key * A)) k x : assoc (assoc_set l k x) k = Some x.
Proof.
  induction l as [|[k' y] l IH]; simpl.
  - now rewrite keqb_refl.
  - destruct (keqb k k') eqn:E; simpl; [now rewrite keqb_refl|]. now rewrite E.
Qed.

Lemma assoc_set_other {A} (l : list (key * A)) k k' x : keqb k' k = false -> assoc (assoc_set l k x) k' = assoc l k'.
Proof.
  intros H. induction l as [|[k0 y] l IH]; simpl.
  - now rewrite H.
  - destruct (keqb k k0) eqn:E; simpl.
    + apply keqb_eq in E. subst k0. now rewrite H.
    + destruct (keqb k' k0); [reflexivity|exact IH].
Qed.

Lemma assoc_in {A} (l : list (key * A)) k x :
  NoDup (map fst l) -> In (k, x) l -> assoc l k = Some x.
Proof.
  induction l as [|[k' y] l IH]; simpl; intros ND Hin; [contradiction|].
  inversion ND as [|? ? Hnot ND']; subst.
  destruct Hin as [E|Hin].
  - inversion E; subst. now rewrite keqb_refl.
  - destruct (keqb k k') eqn:E.
    + apply keqb_eq in E. subst k'. exfalso. apply Hnot. apply in_map_iff. now exists (k, x).
    + now apply IH.
Qed.

Lemma assoc_none_notin {A} (l : list (key * A)) k : ~ In k (map fst l) -> assoc l k = None.
Proof.
  induction l as [|[k' y] l IH]; simpl; intros H; [reflexivity|].
  destruct (keqb k k') eqn:E.
  - apply keqb_eq in E. subst. exfalso. apply H. now left.
  - apply IH. intros Hin. apply H. now right.
Qed.

Lemma mapM_in {A B} (f : A -> res B) (l : list A) (l' : list B) x :
  mapM f l = Ok l' -> In x l -> exists y, f x = Ok y /\ In y l'.
Proof.
  revert l'. induction l as [|a l IH]; simpl; intros l' H Hin; [contradiction|].
  destruct (f a) as [b|] eqn:Fa; simpl in H; [|discriminate].
  destruct (mapM f l) as [bs|] eqn:M; simpl in H; [|discriminate].
  inversion H; subst. destruct Hin as [->|Hin].
  - exists b. split; [exact Fa|now left].
  - destruct (IH bs eq_refl Hin) as [y [Hy Hin']]. exists y. split; [exact Hy|now right].
Qed.

Section Restore.
  Variable N : Num.
  Notation V := (T N).
  Notation aleaf := (aleaf N). Notation anode := (anode N). Notation frozen := (frozen N).
  Notation freal := (freal N). Notation actx := (actx N). Notation archive := (archive N).
  Notation ureal := (ureal V).

  (* the Leaf a fresh registry holds after the first loop of _thaw: Leaf.__init__ defaults,
     overwritten by whatever optional attributes the archived leaf carries *)
  Definition fresh_leaf (k : key) (fl : aleaf) : aleaf :=
    mkAL (al_label fl) (al_u fl) (al_df fl) (al_indep fl)
         (al_cplx fl)
         (or_else (al_corr fl) (if al_indep fl then None else Some [(k, a_one N)]))
         (or_else (al_ens fl) (if al_indep fl then None else Some [])).

  Lemma thaw_leaves_fresh (L : list (key * aleaf)) : forall acc nodes,
    NoDup (map fst L) -> (forall k, In k (map fst L) -> assoc acc k = None) ->
    thaw_leaves N (mkCx acc nodes) L
    = Ok (mkCx (acc ++ map (fun kl => (fst kl, fresh_leaf (fst kl) (snd kl))) L) nodes).
  Proof.
    induction L as [|[k fl] L IH]; intros acc nodes ND Hacc; simpl.
    - now rewrite app_nil_r.
    - inversion ND as [|? ? Hnot ND']; subst.
      unfold thaw_leaf, new_leaf. cbn [cx_leaves cx_nodes].
      rewrite (Hacc k (or_introl eq_refl)). cbn [bind cx_leaves cx_nodes al_label al_u al_df al_indep al_cplx al_corr al_ens].
      rewrite assoc_set_app_last by (apply Hacc; now left).
      rewrite IH; [| exact ND' |].
      + rewrite <- app_assoc. unfold fresh_leaf. cbn [app map fst snd].
        replace (or_else (al_cplx fl) None) with (al_cplx fl) by (destruct (al_cplx fl); reflexivity).
        reflexivity.
      + intros k' Hk'. rewrite assoc_app_none.
        * simpl. destruct (keqb k' k) eqn:E; [|reflexivity].
          apply keqb_eq in E. subst k'. contradiction.
        * apply Hacc. now right.
  Qed.

  Lemma thaw_nodes_fresh (L : list (key * anode)) : forall leaves acc,
    NoDup (map fst L) -> (forall k, In k (map fst L) -> assoc acc k = None) ->
    thaw_nodes N (mkCx leaves acc) L = Ok (mkCx leaves (acc ++ L)).
  Proof.
    induction L as [|[k n] L IH]; intros leaves acc ND Hacc; simpl.
    - now rewrite app_nil_r.
    - inversion ND as [|? ? Hnot ND']; subst.
      unfold new_node. cbn [cx_leaves cx_nodes]. rewrite (Hacc k (or_introl eq_refl)). cbn [bind].
      rewrite IH; [| exact ND' |].
      + rewrite <- app_assoc. destruct n; reflexivity.
      + intros k' Hk'. rewrite assoc_app_none by (apply Hacc; now right).
        simpl. destruct (keqb k' k) eqn:E; [|reflexivity].
        apply keqb_eq in E. subst k'. contradiction.
  Qed.

  (* ---------- the last loop only ever touches the complex attribute ---------- *)
  Definition same_but_cplx (a b : aleaf) : Prop :=
    al_label a = al_label b /\ al_u a = al_u b /\ al_df a = al_df b /\ al_indep a = al_indep b /\
    al_corr a = al_corr b /\ al_ens a = al_ens b /\
    (al_cplx b = al_cplx a \/ exists kr ki, al_cplx b = Some (CTuple, kr, ki)).

  Definition frame (a b : list (key * aleaf)) : Prop :=
    forall k l, assoc a k = Some l -> exists l', assoc b k = Some l' /\ same_but_cplx l l'.

  Lemma same_but_cplx_refl l : same_but_cplx l l.
  Proof. repeat split; try reflexivity. now left. Qed.

  Lemma same_but_cplx_trans a b c : same_but_cplx a b -> same_but_cplx b c -> same_but_cplx a c.
  Proof.
    intros (A1 & A2 & A3 & A4 & A5 & A6 & A7) (B1 & B2 & B3 & B4 & B5 & B6 & B7).
    repeat split; try congruence.
    destruct B7 as [E|E]; [|now right]. destruct A7 as [E'|E']; [left; congruence|right].
    destruct E' as (kr & ki & E'). exists kr, ki. congruence.
  Qed.

  Lemma frame_refl a : frame a a.
  Proof. intros k l H. exists l. split; [exact H|apply same_but_cplx_refl]. Qed.

  Lemma frame_trans a b c : frame a b -> frame b c -> frame a c.
  Proof.
    intros H1 H2 k l H. destruct (H1 k l H) as [l1 [E1 S1]]. destruct (H2 k l1 E1) as [l2 [E2 S2]].
    exists l2. split; [exact E2|eapply same_but_cplx_trans; eauto].
  Qed.

  Lemma frame_set_cplx cx k c : frame (cx_leaves cx) (cx_leaves (set_cplx N cx k (CTuple, fst c, snd c))).
  Proof.
    unfold set_cplx. destruct (assoc (cx_leaves cx) k) as [l0|] eqn:E; [|apply frame_refl].
    intros k' l H. cbn [cx_leaves]. destruct (keqb k' k) eqn:Ek.
    - apply keqb_eq in Ek. subst k'. rewrite assoc_set_same. eexists. split; [reflexivity|].
      rewrite E in H. inversion H; subst. repeat split; try reflexivity. right. now exists (fst c), (snd c).
    - rewrite (assoc_set_other _ _ _ _ Ek). exists l. split; [exact H|apply same_but_cplx_refl].
  Qed.

  Lemma thaw_cplx_frame f ik cx tc cx' z :
    thaw_cplx N f ik cx tc = Ok (cx', z) -> frame (cx_leaves cx) (cx_leaves cx') /\ cx_nodes cx' = cx_nodes cx.
  Proof.
    unfold thaw_cplx. destruct tc as [t fc].
    destruct (sassoc (f_ureal f) (fc_re fc)) as [fre|]; [|discriminate].
    destruct (build N cx ik fre) as [re|]; [|discriminate]. cbn [bind].
    destruct (sassoc (f_ureal f) (fc_im fc)) as [fim|]; [|discriminate].
    destruct (build N cx ik fim) as [im|]; [|discriminate]. cbn [bind].
    destruct (Bool.eqb (is_elem N re) (is_elem N im)); [|discriminate].
    intros H. inversion H; subst. clear H.
    destruct (unode re) as [| |kr|]; try (split; [apply frame_refl|reflexivity]).
    destruct (unode im) as [| |ki|]; try (split; [apply frame_refl|reflexivity]).
    split.
    - eapply frame_trans; [apply (frame_set_cplx cx kr (kr, ki))|apply (frame_set_cplx _ ki (kr, ki))].
    - unfold set_cplx.
      destruct (assoc (cx_leaves cx) kr); cbn [cx_leaves cx_nodes];
        match goal with |- context [assoc ?l ki] => destruct (assoc l ki) end; reflexivity.
  Qed.

  Lemma thaw_cplxs_frame f ik l : forall cx cx' zs,
    thaw_cplxs N f ik cx l = Ok (cx', zs) -> frame (cx_leaves cx) (cx_leaves cx') /\ cx_nodes cx' = cx_nodes cx.
  Proof.
    induction l as [|tc l IH]; intros cx cx' zs H; simpl in H.
    - inversion H; subst. split; [apply frame_refl|reflexivity].
    - destruct (thaw_cplx N f ik cx tc) as [[cx1 z]|] eqn:E1; [|discriminate]. cbn [bind] in H.
      destruct (thaw_cplxs N f ik cx1 l) as [[cx2 zs']|] eqn:E2; [|discriminate]. cbn [bind] in H.
      inversion H; subst.
      destruct (thaw_cplx_frame _ _ _ _ _ _ E1) as [F1 N1]. destruct (IH _ _ _ E2) as [F2 N2].
      split; [eapply frame_trans; eauto|congruence].
  Qed.

  (* Every leaf of the archive and every intermediate node record is restored, in a fresh
     session, with exactly the archived attributes (label, u, df, independent, correlation
     table, ensemble); the complex pairing is the archived one or a tuple set by the Complex
     branch of _thaw. For every frozen archive, of any size. *)
  Theorem thaw_fresh_registries (f : frozen) cx' A' :
    NoDup (map fst (f_leaves f)) -> NoDup (map fst (f_interm f)) ->
    thaw N (empty_ctx N) f = Ok (cx', A') ->
    cx_nodes cx' = f_interm f /\
    forall k fl, In (k, fl) (f_leaves f) ->
      exists l', assoc (cx_leaves cx') k = Some l' /\ same_but_cplx (fresh_leaf k fl) l'.
  Proof.
    intros NDl NDn H. unfold thaw, empty_ctx in H.
    rewrite (thaw_leaves_fresh _ [] [] NDl (fun _ _ => eq_refl)) in H. cbn [bind app] in H.
    rewrite (thaw_nodes_fresh _ _ [] NDn (fun _ _ => eq_refl)) in H. cbn [bind app] in H.
    match type of H with context [build_tagged ?n ?c ?i ?l] => destruct (build_tagged n c i l) as [reals|]; [|discriminate] end.
    cbn [bind] in H.
    match type of H with context [thaw_cplxs ?n ?f0 ?i ?c ?l] => destruct (thaw_cplxs n f0 i c l) as [[cx3 zs]|] eqn:E; [|discriminate] end.
    cbn [bind] in H. inversion H; subst. clear H.
    destruct (thaw_cplxs_frame _ _ _ _ _ _ E) as [F Nn]. cbn [cx_leaves cx_nodes] in *.
    split; [exact Nn|].
    intros k fl Hin. apply F.
    apply assoc_in.
    - rewrite map_map. cbn [fst]. exact NDl.
    - apply in_map_iff. now exists (k, fl).
  Qed.

  (* ---------- the restored numbers ---------- *)
  Lemma thaw_treal cx f cx' A' :
    thaw N cx f = Ok (cx', A') ->
    exists cx2, build_tagged N cx2 (map fst (f_interm f)) (f_treal f) = Ok (a_treal A').
  Proof.
    unfold thaw. intros H.
    destruct (thaw_leaves N cx (f_leaves f)) as [cx1|]; [|discriminate]. cbn [bind] in H.
    destruct (thaw_nodes N cx1 (f_interm f)) as [cx2|]; [|discriminate]. cbn [bind] in H.
    destruct (build_tagged N cx2 (map fst (f_interm f)) (f_treal f)) as [reals|] eqn:B; [|discriminate]. cbn [bind] in H.
    destruct (thaw_cplxs N f (map fst (f_interm f)) cx2 (f_tcplx f)) as [[cx3 zs]|]; [|discriminate]. cbn [bind] in H.
    inversion H; subst. exists cx2. exact B.
  Qed.

  Lemma build_interm cx ik x u d i lb k o :
    build N cx ik (FInterm x u d i lb k) = Ok o -> o = mkU x u d i (NodeRef k).
  Proof.
    unfold build. destruct (kmem k ik); [|discriminate].
    destruct (check_leaf_keys N cx u); [|discriminate]. cbn [bind].
    destruct (check_leaf_keys N cx d); [|discriminate]. cbn [bind].
    destruct (check_node_keys N ik i); [|discriminate]. cbn [bind]. now inversion 1.
  Qed.

  Lemma build_elem cx ik x k o :
    build N cx ik (FElem x k) = Ok o ->
    exists l, assoc (cx_leaves cx) k = Some l /\ ux o = x /\ unode o = LeafRef k /\ ic o = [] /\
              (if al_indep l then uc o = [(k, al_u l)] /\ dc o = [] else uc o = [] /\ dc o = [(k, al_u l)]).
  Proof.
    unfold build. destruct (assoc (cx_leaves cx) k) as [l|]; [|discriminate].
    intros H. inversion H; subst. exists l. destruct (al_indep l); repeat split; reflexivity.
  Qed.

  (* the three transports keep the tagged reals, up to the label of an IntermediateReal record
     (which _builder does not read: the label lives in the node table) *)
  Definition freal_core (fr : freal) : freal :=
    match fr with FElem _ _ => fr | FInterm x u d i _ k => FInterm x u d i None k end.

  Lemma transport_treal c f f' :
    frozen_ok N f -> transport N c f = Ok f' ->
    map (fun tf => (fst tf, freal_core (snd tf))) (f_treal f') = map (fun tf => (fst tf, freal_core (snd tf))) (f_treal f)
    /\ map fst (f_interm f') = map fst (f_interm f).
  Proof.
    intros Hok H. destruct c; unfold transport in H.
    - inversion H; subst. split; reflexivity.
    - rewrite (json_roundtrip N f Hok) in H. inversion H; subst. split; reflexivity.
    - rewrite (xml_roundtrip N f Hok) in H. inversion H; subst. unfold xml_image, tup_image, lab_image.
      cbn [f_treal f_interm]. rewrite !map_map. cbn [fst snd]. split.
      + apply map_ext. intros [t [x k|x u d i lb k]]; reflexivity.
      + apply map_ext. intros [k n]. reflexivity.
  Qed.

  Lemma freeze_treal cx A f :
    freeze N cx A = Ok f ->
    freeze_tagged N cx (map fst (f_interm f)) (a_treal A) = Ok (f_treal f).
  Proof.
    unfold freeze. intros H.
    destruct (a_treal A) as [|t0 tr] eqn:Et; destruct (a_tcplx A) as [|z0 zr] eqn:Ez; try discriminate;
      (destruct (forallb _ _); [|discriminate]);
      (destruct (collect_leaves N cx _ []) as [leaves|]; [|discriminate]); cbn [bind] in H;
      (destruct (collect_interm N cx _ []) as [interm|]; [|discriminate]); cbn [bind] in H;
      (match type of H with context [freeze_tagged ?n ?c ?i ?l] => destruct (freeze_tagged n c i l) as [treal|] eqn:E1; [|discriminate] end);
      cbn [bind] in H;
      (match type of H with context [bind (freeze_tagged ?n ?c ?i ?l) _] => destruct (freeze_tagged n c i l) as [ur|]; [|discriminate] end);
      cbn [bind] in H; inversion H; subst; cbn [f_interm f_treal]; exact E1.
  Qed.

  (* END TO END, any storage function, ANY reading session in which the load succeeds (fresh or
     the writing session itself): every tagged declared-intermediate real comes back with the
     same value, the same independent and dependent component vectors (uid for uid, float for
     float), the same node uid, and its components with respect to exactly the archived
     intermediates. *)
  Theorem restore_intermediate (c : codec) (cx cx0 : actx) (A : archive) f f' cx' A' t o k :
    freeze N cx A = Ok f -> frozen_ok N f -> transport N c f = Ok f' -> thaw N cx0 f' = Ok (cx', A') ->
    In (t, o) (a_treal A) -> unode o = NodeRef k ->
    In (t, mkU (ux o) (uc o) (dc o) (restrict_ic N (map fst (f_interm f)) (ic o)) (NodeRef k)) (a_treal A').
  Proof.
    intros Hf Hok Ht Hth Hin Hn.
    pose proof (freeze_treal _ _ _ Hf) as Hfr.
    destruct (mapM_in _ _ _ _ Hfr Hin) as [[t1 fr] [E1 In1]]. cbn [fst snd] in E1.
    unfold freeze_real in E1. rewrite Hn in E1.
    destruct (assoc (cx_nodes cx) k) as [nd|]; [|discriminate]. cbn [bind] in E1. inversion E1; subst t1 fr. clear E1.
    destruct (transport_treal _ _ _ Hok Ht) as [Etr Eik].
    assert (In2 : exists lb', In (t, FInterm (ux o) (uc o) (dc o) (restrict_ic N (map fst (f_interm f)) (ic o)) lb' k) (f_treal f')).
    { assert (I : In (t, freal_core (FInterm (ux o) (uc o) (dc o) (restrict_ic N (map fst (f_interm f)) (ic o)) (an_label nd) k))
                     (map (fun tf => (fst tf, freal_core (snd tf))) (f_treal f'))).
      { rewrite Etr. apply in_map_iff. eexists. split; [|exact In1]. reflexivity. }
      apply in_map_iff in I. destruct I as [[t2 fr2] [E2 I2]]. cbn [fst snd] in E2.
      inversion E2; subst t2. destruct fr2 as [x2 k2|x2 u2 d2 i2 lb2 k2]; cbn in H1; [discriminate|].
      inversion H1; subst. now exists lb2. }
    destruct In2 as [lb' In2].
    destruct (thaw_treal _ _ _ _ Hth) as [cx2 B].
    destruct (mapM_in _ _ _ _ B In2) as [[t3 o3] [E3 In3]]. cbn [fst snd] in E3.
    destruct (build N cx2 (map fst (f_interm f')) _) as [ob|] eqn:Eb; [|discriminate]. cbn [bind] in E3.
    inversion E3; subst t3 o3. apply build_interm in Eb. subst ob. exact In3.
  Qed.

  (* a tagged elementary real comes back with its value and uid, seeded with the standard
     uncertainty of the registered leaf, on the side given by that leaf's independent flag *)
  Theorem restore_elementary (c : codec) (cx cx0 : actx) (A : archive) f f' cx' A' t o k :
    freeze N cx A = Ok f -> frozen_ok N f -> transport N c f = Ok f' -> thaw N cx0 f' = Ok (cx', A') ->
    In (t, o) (a_treal A) -> unode o = LeafRef k ->
    exists o' l, In (t, o') (a_treal A') /\ ux o' = ux o /\ unode o' = LeafRef k /\ ic o' = [] /\
                 (if al_indep l then uc o' = [(k, al_u l)] /\ dc o' = [] else uc o' = [] /\ dc o' = [(k, al_u l)]).
  Proof.
    intros Hf Hok Ht Hth Hin Hn.
    pose proof (freeze_treal _ _ _ Hf) as Hfr.
    destruct (mapM_in _ _ _ _ Hfr Hin) as [[t1 fr] [E1 In1]]. cbn [fst snd] in E1.
    unfold freeze_real in E1. rewrite Hn in E1. cbn [bind] in E1. inversion E1; subst t1 fr. clear E1.
    destruct (transport_treal _ _ _ Hok Ht) as [Etr _].
    assert (In2 : In (t, FElem (ux o) k) (f_treal f')).
    { assert (I : In (t, freal_core (FElem (ux o) k)) (map (fun tf => (fst tf, freal_core (snd tf))) (f_treal f'))).
      { rewrite Etr. apply in_map_iff. eexists. split; [|exact In1]. reflexivity. }
      apply in_map_iff in I. destruct I as [[t2 fr2] [E2 I2]]. cbn [fst snd] in E2.
      inversion E2; subst t2. destruct fr2 as [x2 k2|x2 u2 d2 i2 lb2 k2]; cbn in H1; [|discriminate].
      inversion H1; subst. exact I2. }
    destruct (thaw_treal _ _ _ _ Hth) as [cx2 B].
    destruct (mapM_in _ _ _ _ B In2) as [[t3 o3] [E3 In3]]. cbn [fst snd] in E3.
    destruct (build N cx2 (map fst (f_interm f')) _) as [ob|] eqn:Eb; [|discriminate]. cbn [bind] in E3.
    inversion E3; subst t3 o3. destruct (build_elem _ _ _ _ _ Eb) as [l (_ & Hx & Hu & Hi & Hv)].
    exists ob, l. repeat split; assumption.
  Qed.
  (* ---------- JSON restores what pickle restores ---------- *)
  (* in a session every complex pairing is a tuple: ucomplex / _thaw write tuples, and (since
     fix C07-json-complex-list) so does every reader *)
  Definition ctx_tuples (cx : actx) : Prop :=
    forall k l, assoc (cx_leaves cx) k = Some l -> cplx_tuple N l.

  Lemma collect_leaves_tuples cx ks : forall acc L,
    ctx_tuples cx -> Forall (fun kl => cplx_tuple N (snd kl)) acc ->
    collect_leaves N cx ks acc = Ok L -> Forall (fun kl => cplx_tuple N (snd kl)) L.
  Proof.
    induction ks as [|k ks IH]; intros acc L Hcx Hacc H; simpl in H.
    - inversion H; subst. exact Hacc.
    - destruct (assoc (cx_leaves cx) k) as [l|] eqn:E; [|discriminate].
      apply (IH _ _ Hcx) in H; [exact H|].
      clear H IH. induction acc as [|[k0 l0] acc IHa]; simpl.
      + constructor; [exact (Hcx k l E)|constructor].
      + inversion Hacc; subst. destruct (keqb k k0).
        * constructor; [exact (Hcx k l E)|assumption].
        * constructor; [assumption|now apply IHa].
  Qed.

  Lemma freeze_tuples cx A f : ctx_tuples cx -> freeze N cx A = Ok f -> tuples N f.
  Proof.
    unfold freeze. intros Hcx H.
    assert (G : forall L, collect_leaves N cx (flat_map (obj_keys N) (unreals N A)) [] = Ok L ->
                forall k l, In (k, l) L -> cplx_tuple N l).
    { intros L HL k l Hin. pose proof (collect_leaves_tuples _ _ _ _ Hcx (Forall_nil _) HL) as F.
      rewrite Forall_forall in F. exact (F (k, l) Hin). }
    destruct (a_treal A) as [|t0 tr] eqn:Et; destruct (a_tcplx A) as [|z0 zr] eqn:Ez; try discriminate;
      (destruct (forallb _ _); [|discriminate]);
      (destruct (collect_leaves N cx _ []) as [leaves|] eqn:EL; [|discriminate]); cbn [bind] in H;
      (destruct (collect_interm N cx _ []) as [interm|]; [|discriminate]); cbn [bind] in H;
      (match type of H with context [freeze_tagged ?n ?c ?i ?l] => destruct (freeze_tagged n c i l) as [treal|]; [|discriminate] end);
      cbn [bind] in H;
      (match type of H with context [bind (freeze_tagged ?n ?c ?i ?l) _] => destruct (freeze_tagged n c i l) as [ur|]; [|discriminate] end);
      cbn [bind] in H; inversion H; subst; intros k l Hin; cbn [f_leaves] in Hin; exact (G _ eq_refl k l Hin).
  Qed.

  (* For every session, every archive and every reading session: writing with dumps_json and reading
     with loads_json gives exactly -- registries, restored numbers, or the same exception -- what
     the pickle path gives.  (This is the statement the list-valued complex pairing refuted.) *)
  Theorem json_like_pickle (cx cx' : actx) (A : archive) f :
    freeze N cx A = Ok f -> frozen_ok N f -> ctx_tuples cx ->
    store_restore N Json cx A cx' = store_restore N Pickle cx A cx'.
  Proof.
    intros Hf Hok Hcx. unfold store_restore. rewrite Hf. cbn [bind]. unfold transport.
    rewrite (json_roundtrip_exact N f Hok (freeze_tuples _ _ _ Hcx Hf)). reflexivity.
  Qed.

  (* ---------- node records re-attach in the writing session, whatever their dof ---------- *)
  Lemma dof_reuse_ok (d : V) : (eqb N d d || (negb (eqb N d d) && negb (eqb N d d))) = true.
  Proof. destruct (eqb N d d); reflexivity. Qed.

  Lemma label_eqb_refl lb : label_eqb lb lb = true.
  Proof. destruct lb as [s|]; simpl; [apply String.eqb_refl|reflexivity]. Qed.

  (* the second loop of _thaw, run in a session that still holds the archived node records:
     every new_node call finds its record indistinguishable and the registry is unchanged --
     for ANY dof, NaN (a zero-uncertainty intermediate) included; the standard uncertainty of a
     node is never NaN *)
  Theorem thaw_nodes_same_session (L : list (key * anode)) (cx : actx) :
    (forall k n, In (k, n) L -> assoc (cx_nodes cx) k = Some n) ->
    (forall k n, In (k, n) L -> eqb N (an_u n) (an_u n) = true) ->
    thaw_nodes N cx L = Ok cx.
  Proof.
    induction L as [|[k n] L IH]; intros Hreg Hu; simpl; [reflexivity|].
    unfold new_node. rewrite (Hreg k n (or_introl eq_refl)).
    rewrite label_eqb_refl, (Hu k n (or_introl eq_refl)), dof_reuse_ok. cbn [andb bind].
    apply IH; intros k' n' Hin; [apply Hreg|apply (Hu k')]; now right.
  Qed.
End Restore.

(* ================= the bridge to the kernel's session state ================= *)
Section Bridge.
  Variable N : Num.
  Notation V := (T N).

  (* the dof code compares (uid_i, uid_j) with node.complex: a list is never equal to a tuple,
     exactly like a missing attribute (getattr(k, 'complex', (None, None))) *)
  Definition to_kleaf (i : nat) (l : aleaf N) : leaf V :=
    mkLeaf (al_u l) (if is_inf N (al_df l) then DInf else if is_nan N (al_df l) then DNaN else DFin (al_df l))
           (al_indep l)
           (match al_corr l with Some c => c | None => [] end)
           i
           (match al_cplx l with Some (CTuple, a, b) => Some (a, b) | _ => None end)
           None.

  Fixpoint to_kleaves (i : nat) (l : list (key * aleaf N)) : list (key * leaf V) :=
    match l with [] => [] | (k, a) :: l' => (k, to_kleaf i a) :: to_kleaves (S i) l' end.

  Definition to_kstate (cx : actx N) : state V :=
    mkS 0 0 0 (to_kleaves 0 (cx_leaves cx)) []
        (map (fun kl => match al_ens (snd kl) with Some e => e | None => [] end) (cx_leaves cx)) [].
End Bridge.

(* ================= witnesses (binary64 model, the one run against the implementation) ================= *)
Local Open Scope float_scope.
Notation half := 0x1p-1%float.
Notation f0 := 0%float. Notation f1 := 1%float. Notation f2 := 2%float. Notation f4 := 4%float. Notation f5 := 5%float.
Definition L1 : key := (1%Z, 1%Z).
Definition L2 : key := (1%Z, 2%Z).
Definition M1 : key := (1%Z, 1%Z).

(* z = ucomplex(1+2j, (1, .5, .5, 1), df=5); y = result(2*z.real + z.imag, label='y'); only y is tagged *)
Definition wleaf (k : key) (other : key) : aleaf NF :=
  @mkAL NF None f1 f5 false (Some (CTuple, L1, L2)) (Some [(k, f1); (other, half)]) (Some []).
Definition wctx : actx NF :=
  @mkCx NF [(L1, wleaf L1 L2); (L2, wleaf L2 L1)] [(M1, @mkAN NF (Some "y"%string) 0x1.52a7fa9d2f8eap+1%float f5)].
Definition wy : ureal float := mkU f4 [] [(L1, f2); (L2, f1)] [(M1, 0x1.52a7fa9d2f8eap+1%float)] (NodeRef M1).
Definition war : archive NF := @mkAr NF [("y"%string, wy)] [].

Definition restored_leaf (c : codec) (k : key) : option (aleaf NF) :=
  match store_restore NF c wctx war (empty_ctx NF) with
  | Ok (cx', _) => assoc (cx_leaves cx') k
  | Err _ => None
  end.

Definition restored_ws (c : codec) : res (float * dfval float * option float) :=
  match store_restore NF c wctx war (empty_ctx NF) with
  | Ok (cx', A') => match a_treal A' with
                    | (_, y) :: _ => welch_satterthwaite NF (to_kstate NF cx') (mkU (ux y) (uc y) (dc y) (ic y) NoNode) None
                    | [] => Err OtherExn
                    end
  | Err e => Err e
  end.

(* the history that used to break (fixed finding C07-json-complex-list): the leaves of the untagged
   complex influence come back from JSON exactly as from pickle and XML, and Welch-Satterthwaite on
   a further result gives dof 5 on all three paths *)
Lemma json_complex_restored :
  restored_leaf Json L1 = Some (wleaf L1 L2) /\ restored_leaf Json L2 = Some (wleaf L2 L1)
  /\ restored_leaf Xml L1 = Some (wleaf L1 L2) /\ restored_leaf Pickle L1 = Some (wleaf L1 L2)
  /\ restored_ws Json = Ok (7%float, DFin f5, None)
  /\ restored_ws Xml = Ok (7%float, DFin f5, None)
  /\ restored_ws Pickle = Ok (7%float, DFin f5, None)
  /\ restored_ws Json = welch_satterthwaite NF (to_kstate NF wctx) (mkU f4 [] [(L1, f2); (L2, f1)] [] NoNode) None.
Proof. repeat split; reflexivity. Qed.

(* XML: a leaf labelled "" comes back labelled None, and a same-session reload is refused *)
Definition xctx : actx NF := @mkCx NF [(L1, @mkAL NF (Some ""%string) f1 infinity true None None None)] [].
Definition xar : archive NF := @mkAr NF [("x"%string, mkU f1 [(L1, f1)] [] [] (LeafRef L1))] [].

Lemma xml_empty_label_witness :
  (match store_restore NF Xml xctx xar (empty_ctx NF) with
   | Ok (cx', _) => option_map (@al_label NF) (assoc (cx_leaves cx') L1)
   | Err _ => None end) = Some None
  /\ store_restore NF Xml xctx xar xctx = Err RuntimeError
  /\ (match store_restore NF Json xctx xar (empty_ctx NF) with
      | Ok (cx', _) => option_map (@al_label NF) (assoc (cx_leaves cx') L1)
      | Err _ => None end) = Some (Some ""%string)
  /\ (exists r, store_restore NF Json xctx xar xctx = Ok r).
Proof. repeat split; try reflexivity. eexists; reflexivity. Qed.

(* the history of fixed finding C07-nan-dof-same-session: an intermediate whose dof is NaN (zero
   uncertainty from finite-dof inputs) is read back in the session that wrote it, on every path,
   and the registries of that session are what they were *)
Definition nctx : actx NF :=
  @mkCx NF [(L1, @mkAL NF None f1 f5 true None None None)] [(M1, @mkAN NF (Some "y"%string) f0 nan)].
Definition nar : archive NF := @mkAr NF [("y"%string, mkU f0 [(L1, f0)] [] [(M1, f0)] (NodeRef M1))] [].

Definition same_session_ok (c : codec) : bool :=
  match store_restore NF c nctx nar nctx with
  | Ok (cx', A') => actx_eqb cx' nctx && archive_eqb A' nar
  | Err _ => false
  end.

Lemma nan_dof_reloaded :
  same_session_ok Pickle = true /\ same_session_ok Json = true /\ same_session_ok Xml = true.
Proof. repeat split; reflexivity. Qed.

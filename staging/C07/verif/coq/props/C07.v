(* props/C07.v -- Property C07: archived uncertain numbers are restored with no loss of
   information.  Statements only; proofs are in ArchiveFacts.v / ArchiveRestore.v. *)
From Coq Require Import ZArith List Bool String PrimFloat.
From GTCV Require Import Num FNum Vector Opres KTypes Kernel Archive ArchiveFacts ArchiveCase ArchiveRestore.
Import ListNotations.

(* ---- the codecs lose nothing: for EVERY frozen archive (any number of leaves, intermediates,
   tags, any vectors), reading the JSON document the writer produces gives the archive back
   (a complex pair is read as a tuple whatever it was) ---- *)
Theorem C07_codec_json :
  forall (N : Num) (f : frozen N), frozen_ok N f -> json_decode N (json_encode N f) = Ok (json_image N f).
Proof. exact json_roundtrip. Qed.
Print Assumptions C07_codec_json.

(* ... and an archive whose complex pairs are tuples -- every archive frozen in a session -- comes
   back EXACTLY (was false while jason_to_leaf built a list: fixed finding C07-json-complex-list) *)
Theorem C07_codec_json_exact :
  forall (N : Num) (f : frozen N), frozen_ok N f -> tuples N f -> json_decode N (json_encode N f) = Ok f.
Proof. exact json_roundtrip_exact. Qed.
Print Assumptions C07_codec_json_exact.

(* same for XML (document as the reader sees it after serialisation): the only changes are
   label "" -> None, complex pairs as tuples, component names of a complex recomputed from its tag *)
Theorem C07_codec_xml :
  forall (N : Num) (f : frozen N), frozen_ok N f -> xml_decode N (xml_encode N f) = Ok (xml_image N f).
Proof. exact xml_roundtrip. Qed.
Print Assumptions C07_codec_xml.

(* ---- _thaw in a fresh session restores every archived leaf (label, u, df, independent,
   correlation table, ensemble; complex pairing = the archived one or the tuple set for a tagged
   complex) and every intermediate node record, for every frozen archive ---- *)
Theorem C07_restore_registries :
  forall (N : Num) (f : frozen N) cx' A',
    NoDup (map fst (f_leaves f)) -> NoDup (map fst (f_interm f)) ->
    thaw N (empty_ctx N) f = Ok (cx', A') ->
    cx_nodes cx' = f_interm f /\
    forall k fl, In (k, fl) (f_leaves f) ->
      exists l', assoc (cx_leaves cx') k = Some l' /\ same_but_cplx N (fresh_leaf N k fl) l'.
Proof. exact thaw_fresh_registries. Qed.
Print Assumptions C07_restore_registries.

(* ---- end to end, any storage function (pickle / JSON / XML), any reading session in which the
   load succeeds: a tagged declared-intermediate real has identical value, identical component
   vectors w.r.t. every elementary influence, identical uid, and its components w.r.t. exactly the
   archived intermediates ---- *)
Theorem C07_restore_intermediate :
  forall (N : Num) (c : codec) (cx cx0 : actx N) (A : archive N) f f' cx' A' t o k,
    freeze N cx A = Ok f -> frozen_ok N f -> transport N c f = Ok f' -> thaw N cx0 f' = Ok (cx', A') ->
    In (t, o) (a_treal A) -> unode o = NodeRef k ->
    In (t, mkU (ux o) (uc o) (dc o) (restrict_ic N (map fst (f_interm f)) (ic o)) (NodeRef k)) (a_treal A').
Proof. exact restore_intermediate. Qed.
Print Assumptions C07_restore_intermediate.

Theorem C07_restore_elementary :
  forall (N : Num) (c : codec) (cx cx0 : actx N) (A : archive N) f f' cx' A' t o k,
    freeze N cx A = Ok f -> frozen_ok N f -> transport N c f = Ok f' -> thaw N cx0 f' = Ok (cx', A') ->
    In (t, o) (a_treal A) -> unode o = LeafRef k ->
    exists o' l, In (t, o') (a_treal A') /\ ux o' = ux o /\ unode o' = LeafRef k /\ ic o' = [] /\
                 (if al_indep l then uc o' = [(k, al_u l)] /\ dc o' = [] else uc o' = [] /\ dc o' = [(k, al_u l)]).
Proof. exact restore_elementary. Qed.
Print Assumptions C07_restore_elementary.

(* ---- the statement that C07_json_complex_refuted used to refute: for every writing session (complex
   pairings are tuples), every archive and every reading session, dumps_json / loads_json give exactly
   what the pickle path gives -- the same registries and restored numbers, or the same exception.
   With C07_restore_registries this is "every leaf attribute the reporting code reads, complex pairing
   with its Python class included, is restored by JSON" ---- *)
Theorem C07_json_like_pickle :
  forall (N : Num) (cx cx' : actx N) (A : archive N) f,
    freeze N cx A = Ok f -> frozen_ok N f -> ctx_tuples N cx ->
    store_restore N Json cx A cx' = store_restore N Pickle cx A cx'.
Proof. exact json_like_pickle. Qed.
Print Assumptions C07_json_like_pickle.

(* the freezing step keeps the invariant the theorem needs *)
Theorem C07_freeze_keeps_tuples :
  forall (N : Num) (cx : actx N) (A : archive N) f, ctx_tuples N cx -> freeze N cx A = Ok f -> tuples N f.
Proof. exact freeze_tuples. Qed.
Print Assumptions C07_freeze_keeps_tuples.

(* ---- the statement that C07_nan_dof_same_session_refuted used to refute: in a session that still holds
   the archived intermediate node records, the node loop of _thaw re-attaches to every one of them and
   leaves the registry unchanged, whatever the dof (NaN for a zero-uncertainty intermediate included) ---- *)
Theorem C07_nodes_reattach :
  forall (N : Num) (L : list (key * anode N)) (cx : actx N),
    (forall k n, In (k, n) L -> assoc (cx_nodes cx) k = Some n) ->
    (forall k n, In (k, n) L -> eqb N (an_u n) (an_u n) = true) ->
    thaw_nodes N cx L = Ok cx.
Proof. exact thaw_nodes_same_session. Qed.
Print Assumptions C07_nodes_reattach.

(* ---- one defect remains: the full statement is FALSE of the faithful model for XML labels (known
   finding C07-xml-empty-label, replayed on the implementation on every run) ---- *)

(* XML: label "" is restored as None in a fresh session and the reload is refused (uid in use) in
   the writing session; JSON keeps it *)
Theorem C07_xml_label_refuted :
  (match store_restore NF Xml xctx xar (empty_ctx NF) with
   | Ok (cx', _) => option_map (@al_label NF) (assoc (cx_leaves cx') L1)
   | Err _ => None end) = Some None
  /\ store_restore NF Xml xctx xar xctx = Err RuntimeError.
Proof. destruct xml_empty_label_witness as (A & B & _). split; assumption. Qed.
Print Assumptions C07_xml_label_refuted.

(* ---- non-vacuity: the hypotheses of the theorems above are met by a non-trivial archive
   (two correlated finite-dof leaves paired as a complex, one labelled intermediate) and the
   conclusions are visible on it ---- *)
Definition ex_frozen : frozen NF :=
  @mkFz NF [(L1, wleaf L1 L2); (L2, wleaf L2 L1)]
        [(M1, @mkAN NF (Some "y"%string) 0x1.52a7fa9d2f8eap+1%float 5%float)]
        [("y"%string, @FInterm NF 4%float [] [(L1, 2%float); (L2, 1%float)] [(M1, 0x1.52a7fa9d2f8eap+1%float)] (Some "y"%string) M1)]
        [] [].

Example C07_example_freeze : freeze NF wctx war = Ok ex_frozen.
Proof. reflexivity. Qed.

Example C07_example_frozen_ok : frozen_ok NF ex_frozen.
Proof.
  split.
  - intros k l Hin. simpl in Hin. destruct Hin as [E|[E|[]]]; inversion E; subst; split;
      try (intros Hinf; vm_compute in Hinf; discriminate); reflexivity.
  - intros k n Hin. simpl in Hin. destruct Hin as [E|[]]; inversion E; subst.
    intros Hinf; vm_compute in Hinf; discriminate.
Qed.

Example C07_example_restored :
  forall c, match store_restore NF c wctx war (empty_ctx NF) with
            | Ok (cx', A') => a_treal A' = [("y"%string, wy)] /\ cx_nodes cx' = cx_nodes wctx
            | Err _ => False
            end.
Proof. intros []; split; reflexivity. Qed.

(* the two histories of the fixed findings, now restored correctly on every path *)
Example C07_example_json_complex :
  restored_leaf Json L1 = Some (wleaf L1 L2) /\ restored_leaf Json L2 = Some (wleaf L2 L1)
  /\ restored_ws Json = Ok (7%float, DFin 5%float, None)
  /\ restored_ws Pickle = Ok (7%float, DFin 5%float, None)
  /\ restored_ws Xml = Ok (7%float, DFin 5%float, None).
Proof. destruct json_complex_restored as (A & B & _ & _ & E & F & G & _). repeat split; assumption. Qed.

Example C07_example_ctx_tuples : ctx_tuples NF wctx.
Proof.
  intros k l H. unfold wctx in H. cbn [cx_leaves assoc] in H.
  destruct (keqb k L1); [inversion H; subst; reflexivity|].
  destruct (keqb k L2); [inversion H; subst; reflexivity|discriminate].
Qed.

Example C07_example_nan_dof_reloaded :
  same_session_ok Pickle = true /\ same_session_ok Json = true /\ same_session_ok Xml = true.
Proof. exact nan_dof_reloaded. Qed.

Example C07_example_nodup : NoDup (map fst (f_leaves ex_frozen)) /\ NoDup (map fst (f_interm ex_frozen)).
Proof.
  split; simpl; repeat constructor; simpl; try tauto.
  intros [H|[]]. inversion H.
Qed.

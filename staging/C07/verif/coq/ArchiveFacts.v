(* ArchiveFacts.v -- theorems about the archive model (Archive.v): the JSON and XML codecs
   invert each other up to explicit representation changes, for every frozen archive. *)
From Coq Require Import ZArith List Bool String Lia.
From GTCV Require Import Num Vector VectorFacts Opres KTypes Kernel Archive.
Import ListNotations.
Local Open Scope string_scope.
Local Open Scope list_scope.

Lemma mapM_map {A B C} (f : B -> res C) (g : A -> B) (h : A -> C) (l : list A) :
  (forall x, In x l -> f (g x) = Ok (h x)) -> mapM f (map g l) = Ok (map h l).
Proof.
  induction l as [|a l IH]; intros H; simpl; [reflexivity|].
  rewrite (H a (or_introl eq_refl)). simpl. rewrite IH; [reflexivity|].
  intros x Hx. apply H. now right.
Qed.

Lemma map_pair_id {A B} (l : list (A * B)) : map (fun p => (fst p, snd p)) l = l.
Proof. induction l as [|[a b] l IH]; simpl; [reflexivity|now rewrite IH]. Qed.

Section Codec.
  Variable N : Num.
  Notation V := (T N).
  Notation aleaf := (aleaf N). Notation anode := (anode N). Notation frozen := (frozen N).
  Notation freal := (freal N).

  (* ---------- well-formed frozen archives ---------- *)
  (* the only float the codecs touch: an infinite dof is +inf (a dof is >= 1 or NaN, never -inf) *)
  Definition dof_ok (d : V) : Prop := is_inf N d = true -> d = c_inf N.
  (* a frozenset of uids is represented by its sorted duplicate-free list *)
  Definition ens_ok (e : option (list key)) : Prop :=
    match e with Some l => kinsert_all l = l | None => True end.
  Definition leaf_ok (l : aleaf) : Prop := dof_ok (al_df l) /\ ens_ok (al_ens l).

  Definition frozen_ok (f : frozen) : Prop :=
    (forall k l, In (k, l) (f_leaves f) -> leaf_ok l) /\
    (forall k n, In (k, n) (f_interm f) -> dof_ok (an_df n)).

  (* ---------- what a JSON round trip changes: nothing but the Python class of a complex pair,
     which the reader always makes a tuple (the pairs of live leaves are tuples already) ---------- *)
  Definition json_leaf (l : aleaf) : aleaf :=
    mkAL (al_label l) (al_u l) (al_df l) (al_indep l)
         (match al_cplx l with Some (_, a, b) => Some (CTuple, a, b) | None => None end)
         (al_corr l) (al_ens l).

  Definition json_image (f : frozen) : frozen :=
    mkFz (map (fun kl => (fst kl, json_leaf (snd kl))) (f_leaves f))
         (f_interm f) (f_treal f) (f_tcplx f) (f_ureal f).

  Lemma zip_vec_ok (v : list (key * V)) : zip_vec N (map fst v) (map snd v) = Ok v.
  Proof. induction v as [|[k x] v IH]; simpl; [reflexivity|]. rewrite IH. reflexivity. Qed.

  Lemma d_dof_jdof d : dof_ok d -> d_dof N (jdof N d) = Ok d.
  Proof.
    intros H. unfold jdof. destruct (is_inf N d) eqn:E; simpl; [|reflexivity].
    now rewrite <- (H E).
  Qed.

  Lemma d_label_jlabel lb : d_label N (jlabel N lb) = Ok lb.
  Proof. destruct lb; reflexivity. Qed.

  Lemma uid_leaf_ok k : uid_leaf_of (juid_leaf k) = Ok k.
  Proof. destruct k; reflexivity. Qed.
  Lemma uid_node_ok k : uid_node_of (juid_node k) = Ok k.
  Proof. destruct k; reflexivity. Qed.

  Lemma d_vector_leaf v : d_vector N (d_uid_leaf N) (vector_to_json N juid_leaf v) = Ok v.
  Proof.
    unfold d_vector, vector_to_json. cbn [is_class jget String.eqb Ascii.eqb Bool.eqb jfield bind].
    cbn.
    rewrite (mapM_map (d_uid_leaf N) _ fst); [|intros x _; apply uid_leaf_ok].
    cbn. rewrite (mapM_map (d_num N) _ snd); [|intros x _; reflexivity].
    cbn. apply zip_vec_ok.
  Qed.

  Lemma d_vector_node v : d_vector N (d_uid_node N) (vector_to_json N juid_node v) = Ok v.
  Proof.
    unfold d_vector, vector_to_json. cbn.
    rewrite (mapM_map (d_uid_node N) _ fst); [|intros x _; apply uid_node_ok].
    cbn. rewrite (mapM_map (d_num N) _ snd); [|intros x _; reflexivity].
    cbn. apply zip_vec_ok.
  Qed.

  Lemma d_freal_ok fr : d_freal N (freal_to_json N fr) = Ok fr.
  Proof.
    destruct fr as [x k | x u d i lb k].
    - cbn. destruct k; reflexivity.
    - unfold d_freal, freal_to_json.
      cbn [is_class jget String.eqb Ascii.eqb Bool.eqb jfield bind jtext T_].
      cbn -[d_vector vector_to_json].
      rewrite !d_vector_leaf. cbn -[d_vector vector_to_json].
      rewrite d_vector_node. cbn. rewrite d_label_jlabel. cbn. destruct k; reflexivity.
  Qed.

  Lemma d_fcomplex_ok c : d_fcomplex N (fcomplex_to_json N c) = Ok c.
  Proof. destruct c as [a b lb]. cbn. rewrite d_label_jlabel. reflexivity. Qed.

  Lemma d_leaf_ok k l : leaf_ok l -> d_leaf N (leaf_to_json N k l) = Ok (k, json_leaf l).
  Proof.
    intros [Hd He]. destruct l as [lb u df ind cp co en]. unfold json_leaf. simpl in *.
    unfold d_leaf, leaf_to_json. cbn [al_label al_u al_df al_indep al_cplx al_corr al_ens].
    assert (Hco : forall c : list (key * V),
               mapM (fun kr : jstr * json N => k' <- uid_leaf_of (fst kr);; v <- d_num N (snd kr);; Ok (k', v))
                    (map (fun kr : key * V => (juid_leaf (fst kr), JNum (snd kr))) c) = Ok c).
    { intros c. rewrite (mapM_map _ _ (fun p => (fst p, snd p))).
      - now rewrite map_pair_id.
      - intros [[c0 n0] v0] _. reflexivity. }
    assert (Hen : forall e : list key,
               mapM (d_uid_leaf N) (map (fun k' : key => JStr (juid_leaf k')) e) = Ok e).
    { intros e. rewrite (mapM_map _ _ (fun p => p)); [now rewrite map_id|].
      intros [c0 n0] _. reflexivity. }
    destruct k as [kc kn]. destruct cp as [[[r [a1 a2]] [b1 b2]]|]; destruct co as [c|]; destruct en as [e|];
      cbn -[mapM]; rewrite ?uid_leaf_ok; cbn -[mapM];
      rewrite d_label_jlabel; cbn -[mapM]; rewrite (d_dof_jdof _ Hd); cbn -[mapM];
      rewrite ?uid_leaf_ok; cbn -[mapM]; rewrite ?Hco; cbn -[mapM]; rewrite ?Hen; cbn -[mapM];
      try (simpl in He; rewrite He); reflexivity.
  Qed.

  Lemma d_interm_ok k (n : anode) :
    dof_ok (an_df n) ->
    d_interm N (juid_node k, JArr [jlabel N (an_label n); JNum (an_u n); jdof N (an_df n)]) = Ok (k, n).
  Proof.
    intros H. unfold d_interm. cbn [fst snd]. rewrite uid_node_ok. cbn.
    rewrite d_label_jlabel. cbn. rewrite (d_dof_jdof _ H). destruct n; reflexivity.
  Qed.

  Lemma d_tagged_ok {A} (d : json N -> res A) (e : A -> json N) (l : list (string * A)) :
    (forall a, d (e a) = Ok a) ->
    d_tagged N d (JObj (map (fun ta => (T_ (fst ta), e (snd ta))) l)) = Ok l.
  Proof.
    intros H. unfold d_tagged. rewrite (mapM_map _ _ (fun p => (fst p, snd p))).
    - now rewrite map_pair_id.
    - intros x _. cbn. rewrite H. reflexivity.
  Qed.

  (* JSON: decode (encode f) = f with every complex pair a tuple *)
  Theorem json_roundtrip (f : frozen) :
    frozen_ok f -> json_decode N (json_encode N f) = Ok (json_image f).
  Proof.
    intros [Hl Hn]. unfold json_decode, json_encode.
    cbn [jget T_ jtext String.eqb Ascii.eqb Bool.eqb JSON_SCHEMA is_class jfield bind].
    cbn -[mapM d_tagged d_freal d_fcomplex freal_to_json fcomplex_to_json leaf_to_json d_leaf d_interm].
    rewrite (mapM_map _ _ (fun kl => (fst kl, json_leaf (snd kl)))).
    2:{ intros [k l] Hin. cbn [fst snd]. rewrite uid_leaf_ok. cbn [bind].
        rewrite (d_leaf_ok k l (Hl k l Hin)). reflexivity. }
    cbn -[mapM d_tagged d_freal d_fcomplex freal_to_json fcomplex_to_json d_interm].
    rewrite (mapM_map _ _ (fun kn => (fst kn, snd kn))).
    2:{ intros [k n] Hin. cbn [fst snd]. apply d_interm_ok. exact (Hn k n Hin). }
    rewrite map_pair_id.
    cbn -[d_tagged d_freal d_fcomplex freal_to_json fcomplex_to_json].
    rewrite (d_tagged_ok _ _ _ d_freal_ok). cbn -[d_tagged d_freal d_fcomplex freal_to_json fcomplex_to_json].
    rewrite (d_tagged_ok _ _ _ d_fcomplex_ok). cbn -[d_tagged d_freal d_fcomplex freal_to_json fcomplex_to_json].
    rewrite (d_tagged_ok _ _ _ d_freal_ok). reflexivity.
  Qed.

  (* archives whose complex pairs are tuples -- every archive frozen from a session (see
     freeze_tuples in ArchiveRestore.v) -- come back from JSON EXACTLY *)
  Definition cplx_tuple (l : aleaf) : Prop :=
    match al_cplx l with Some (r, _, _) => r = CTuple | None => True end.
  Definition tuples (f : frozen) : Prop := forall k l, In (k, l) (f_leaves f) -> cplx_tuple l.

  Lemma json_leaf_id l : cplx_tuple l -> json_leaf l = l.
  Proof.
    destruct l as [lb u df ind cp co en]. unfold cplx_tuple, json_leaf. simpl.
    destruct cp as [[[r a] b]|]; [intros ->|]; reflexivity.
  Qed.

  Lemma json_image_id f : tuples f -> json_image f = f.
  Proof.
    intros H. destruct f as [lv it tr tc ur]. unfold json_image. cbn [f_leaves f_interm f_treal f_tcplx f_ureal] in *.
    f_equal. unfold tuples in H. cbn [f_leaves] in H.
    induction lv as [|[k l] lv IH]; [reflexivity|]. cbn [map fst snd].
    rewrite (json_leaf_id l (H k l (or_introl eq_refl))). f_equal. apply IH.
    intros k' l' Hin. apply (H k' l'). now right.
  Qed.

  Theorem json_roundtrip_exact (f : frozen) :
    frozen_ok f -> tuples f -> json_decode N (json_encode N f) = Ok f.
  Proof. intros Hok Ht. rewrite (json_roundtrip f Hok). now rewrite json_image_id. Qed.

  (* ---------- XML ---------- *)
  (* what an XML round trip changes: an empty label becomes None; the complex pair is a tuple;
     the names of the components of a tagged complex are recomputed from its tag *)
  Definition xl (lb : label) : label :=
    match lb with Some s => if String.eqb s "" then None else lb | None => None end.

  Definition lab_leaf (l : aleaf) : aleaf :=
    mkAL (xl (al_label l)) (al_u l) (al_df l) (al_indep l) (al_cplx l) (al_corr l) (al_ens l).
  Definition lab_node (n : anode) : anode := mkAN (xl (an_label n)) (an_u n) (an_df n).
  Definition lab_freal (fr : freal) : freal :=
    match fr with FElem _ _ => fr | FInterm x u d i lb k => FInterm x u d i (xl lb) k end.
  Definition lab_image (f : frozen) : frozen :=
    mkFz (map (fun kl => (fst kl, lab_leaf (snd kl))) (f_leaves f))
         (map (fun kn => (fst kn, lab_node (snd kn))) (f_interm f))
         (map (fun tf => (fst tf, lab_freal (snd tf))) (f_treal f))
         (map (fun tc => (fst tc, mkFC (fc_re (snd tc)) (fc_im (snd tc)) (xl (fc_label (snd tc))))) (f_tcplx f))
         (map (fun tf => (fst tf, lab_freal (snd tf))) (f_ureal f)).

  Definition tup_leaf (l : aleaf) : aleaf :=
    mkAL (al_label l) (al_u l) (al_df l) (al_indep l)
         (match al_cplx l with Some (_, a, b) => Some (CTuple, a, b) | None => None end)
         (al_corr l) (al_ens l).
  Definition tup_image (f : frozen) : frozen :=
    mkFz (map (fun kl => (fst kl, tup_leaf (snd kl))) (f_leaves f))
         (f_interm f) (f_treal f)
         (map (fun tc => (fst tc, mkFC (append (fst tc) "_re") (append (fst tc) "_im") (fc_label (snd tc)))) (f_tcplx f))
         (f_ureal f).

  Definition xml_image (f : frozen) : frozen := tup_image (lab_image f).

  Lemma ser_xlabel lb : ser_text N (xlabel N lb) = xlabel N (xl lb).
  Proof. destruct lb as [s|]; simpl; [|reflexivity]. destruct (String.eqb s ""); reflexivity. Qed.

  Lemma ser_xdof d : ser_text N (xdof N d) = xdof N d.
  Proof. unfold xdof. destruct (is_inf N d); reflexivity. Qed.

  Lemma ser_components name uidf v : ser_parse N (x_components N name uidf v) = x_components N name uidf v.
  Proof.
    unfold x_components. simpl. f_equal. rewrite map_map. apply map_ext. intros [k x]. reflexivity.
  Qed.

  Lemma ser_real t fr : ser_parse N (x_real N t fr) = x_real N t (lab_freal fr).
  Proof.
    destruct fr as [x k | x u d i lb k]; [reflexivity|].
    unfold x_real. cbn -[x_components]. rewrite !ser_components, ser_xlabel. reflexivity.
  Qed.

  Lemma ser_leaf k l : ser_parse N (x_leaf N k l) = x_leaf N k (lab_leaf l).
  Proof.
    destruct l as [lb u df ind cp co en]. unfold x_leaf, lab_leaf. cbn [al_label al_u al_df al_indep al_cplx al_corr al_ens].
    cbn [ser_parse]. f_equal. rewrite !map_app. cbn [map ser_parse xleafel ser_text].
    rewrite ser_xlabel, ser_xdof. f_equal. f_equal; [|f_equal].
    - destruct cp as [[[r a] b]|]; reflexivity.
    - destruct co as [c|]; [|reflexivity]. cbn. rewrite map_map. do 2 f_equal.
    - destruct en as [e|]; [|reflexivity]. cbn. rewrite map_map. do 2 f_equal.
  Qed.

  Lemma ser_archive f : ser_parse N (archive_to_xml N f) = archive_to_xml N (lab_image f).
  Proof.
    unfold archive_to_xml, lab_image. cbn [ser_parse map ser_text f_leaves f_interm f_treal f_tcplx f_ureal].
    rewrite !map_map. cbn [fst snd]. f_equal.
    apply f_equal2; [f_equal; apply map_ext; intros [k l]; apply ser_leaf|].
    apply f_equal2; [f_equal; apply map_ext; intros [t fr]; apply ser_real|].
    apply f_equal2; [f_equal; apply map_ext; intros [t fr]; apply ser_real|].
    apply f_equal2; [f_equal; apply map_ext; intros [t c]; cbn; rewrite ser_xlabel; reflexivity|].
    apply f_equal2; [f_equal; apply map_ext; intros [k n]; cbn; rewrite ser_xlabel, ser_xdof; reflexivity|].
    reflexivity.
  Qed.

  Lemma x_float_xdof d : dof_ok d -> x_float N (xdof N d) = Ok d.
  Proof. intros H. unfold xdof. destruct (is_inf N d) eqn:E; simpl; [now rewrite <- (H E)|reflexivity]. Qed.

  Lemma x_label_xlabel lb : x_label N (xlabel N lb) = Ok lb.
  Proof. destruct lb; reflexivity. Qed.

  Lemma xd_components_ok (x : xml N) name uidf uidd v tag at_ tx pre post :
    x = XEl tag at_ tx (pre ++ x_components N name uidf v :: post) ->
    xfind N pre name = None ->
    (forall k (y : V), uidd (XEl "component" [("uid", uidf k)] (TNum y) []) = Ok k) ->
    xd_components N x name uidd = Ok v.
  Proof.
    intros -> Hpre Hu. unfold xd_components, xfield. cbn [xkids].
    assert (E : xfind N (pre ++ x_components N name uidf v :: post) name = Some (x_components N name uidf v)).
    { induction pre as [|p pre IH]; simpl in *.
      - rewrite String.eqb_refl. reflexivity.
      - destruct (String.eqb (xtag N p) name); [discriminate|]. now apply IH. }
    rewrite E. cbn [bind xkids x_components].
    rewrite (mapM_map _ _ (fun p => (fst p, snd p))); [now rewrite map_pair_id|].
    intros [k y] _. cbn [fst snd]. rewrite Hu. reflexivity.
  Qed.

  Lemma xd_real_ok t fr : xd_real N (x_real N t fr) = Ok (t, fr).
  Proof.
    destruct fr as [x k | x u d i lb k].
    - destruct k. reflexivity.
    - unfold xd_real. cbn [x_real xtag String.eqb Ascii.eqb Bool.eqb].
      cbn -[xd_components x_components].
      rewrite (xd_components_ok _ "uComponents" xuid_leaf _ u _ _ _ [xleafel N "value" (TNum x); xleafel N "label" (xlabel N lb)]
                 [x_components N "dComponents" xuid_leaf d; x_components N "iComponents" xuid_node i] eq_refl eq_refl);
        [|intros [c n] y; reflexivity].
      cbn -[xd_components x_components].
      rewrite (xd_components_ok _ "dComponents" xuid_leaf _ d _ _ _
                 [xleafel N "value" (TNum x); xleafel N "label" (xlabel N lb); x_components N "uComponents" xuid_leaf u]
                 [x_components N "iComponents" xuid_node i] eq_refl eq_refl);
        [|intros [c n] y; reflexivity].
      cbn -[xd_components x_components].
      rewrite (xd_components_ok _ "iComponents" xuid_node _ i _ _ _
                 [xleafel N "value" (TNum x); xleafel N "label" (xlabel N lb); x_components N "uComponents" xuid_leaf u;
                  x_components N "dComponents" xuid_leaf d] [] eq_refl eq_refl);
        [|intros [c n] y; reflexivity].
      cbn. rewrite x_label_xlabel. destruct k. reflexivity.
  Qed.

  Lemma xd_leaf_ok k l : leaf_ok l -> xd_leaf N (x_leaf N k l) = Ok (k, tup_leaf l).
  Proof.
    intros [Hd He]. destruct l as [lb u df ind cp co en]. unfold tup_leaf. simpl in *.
    destruct k as [kc kn].
    assert (Hco : forall c : list (key * V),
               mapM (fun e : xml N => k' <- x_uid_leaf N e;; v <- x_float N (xtxt N e);; Ok (k', v))
                    (map (fun kr : key * V => XEl "correlation" [("uid", xuid_leaf (fst kr))] (TNum (snd kr)) []) c) = Ok c).
    { intros c. rewrite (mapM_map _ _ (fun p => (fst p, snd p))); [now rewrite map_pair_id|].
      intros [[c0 n0] v0] _. reflexivity. }
    assert (Hen : forall e : list key,
               mapM (x_uid_leaf N) (map (fun k' : key => XEl "node" [("uid", xuid_leaf k')] (@TNone N) []) e) = Ok e).
    { intros e. rewrite (mapM_map _ _ (fun p => p)); [now rewrite map_id|]. intros [c0 n0] _. reflexivity. }
    unfold xd_leaf, x_leaf. cbn [al_label al_u al_df al_indep al_cplx al_corr al_ens].
    destruct cp as [[[r [a1 a2]] [b1 b2]]|]; destruct co as [c|]; destruct en as [e|];
      cbn -[mapM]; rewrite x_label_xlabel; cbn -[mapM]; rewrite (x_float_xdof _ Hd); cbn -[mapM];
      rewrite ?Hco; cbn -[mapM]; rewrite ?Hen; cbn -[mapM];
      try (simpl in He; rewrite He); reflexivity.
  Qed.

  Theorem xml_decode_tree (g : frozen) :
    frozen_ok g -> xml_decode N (archive_to_xml N g) = Ok (tup_image g).
  Proof.
    intros [Hl Hn]. unfold xml_decode, archive_to_xml.
    cbn -[mapM xd_leaf xd_real x_leaf x_real].
    rewrite (mapM_map _ _ (fun kl => (fst kl, tup_leaf (snd kl)))).
    2:{ intros [k l] Hin. cbn [fst snd]. apply xd_leaf_ok. exact (Hl k l Hin). }
    cbn -[mapM xd_real x_real].
    rewrite (mapM_map _ _ (fun tf => (fst tf, snd tf))); [|intros [t fr] _; apply xd_real_ok].
    cbn -[mapM xd_real x_real].
    rewrite (mapM_map _ _ (fun tc => (fst tc, mkFC (append (fst tc) "_re") (append (fst tc) "_im") (fc_label (snd tc))))).
    2:{ intros [t [a b lb]] _. destruct lb; reflexivity. }
    cbn -[mapM xd_real x_real].
    rewrite (mapM_map _ _ (fun tf => (fst tf, snd tf))); [|intros [t fr] _; apply xd_real_ok].
    cbn -[mapM].
    rewrite (mapM_map _ _ (fun kn => (fst kn, snd kn))).
    2:{ intros [[c n] [lb u df]] Hin. pose proof (Hn _ _ Hin) as Hdf. cbn in Hdf.
        destruct lb; unfold xd_interm; cbn -[x_float xdof]; rewrite (x_float_xdof _ Hdf); reflexivity. }
    rewrite !map_pair_id. reflexivity.
  Qed.

  Lemma lab_image_ok f : frozen_ok f -> frozen_ok (lab_image f).
  Proof.
    intros [Hl Hn]. split; unfold lab_image; cbn [f_leaves f_interm].
    - intros k l Hin. apply in_map_iff in Hin. destruct Hin as [[k0 l0] [E Hin]]. inversion E; subst.
      destruct (Hl _ _ Hin) as [A B]. split; assumption.
    - intros k n Hin. apply in_map_iff in Hin. destruct Hin as [[k0 n0] [E Hin]]. inversion E; subst.
      exact (Hn _ _ Hin).
  Qed.

  (* XML: decode (the document as read back) = f with empty labels turned into None, complex
     pairs as tuples, component names recomputed *)
  Theorem xml_roundtrip (f : frozen) :
    frozen_ok f -> xml_decode N (xml_encode N f) = Ok (xml_image f).
  Proof.
    intros H. unfold xml_encode, xml_image. rewrite ser_archive.
    apply xml_decode_tree. now apply lab_image_ok.
  Qed.
End Codec.

(* COpres.v -- the result shapes of the UncertainComplex operator/function bodies of
   GTC/lib.py, as emitted by tools/tr_lib_complex.py. *)
From Coq Require Import ZArith Bool.
From GTCV Require Import Num Opres KTypes Cplx.

(* an operand of a call into the uncertain-REAL kernel made by a complex operator *)
Inductive rarg (V : Type) :=
| ASelfRe | ASelfIm               (* self.real, self.imag *)
| AOthRe | AOthIm                 (* other.real, other.imag (other is an UncertainComplex) *)
| AOth                            (* other (an UncertainReal) *)
| ANumV (v : V)                   (* a plain float *)
| AConstV (v : V).                (* UncertainReal._constant(v) *)
Arguments ASelfRe {V}. Arguments ASelfIm {V}. Arguments AOthRe {V}. Arguments AOthIm {V}.
Arguments AOth {V}. Arguments ANumV {V}. Arguments AConstV {V}.

Inductive rexp (V : Type) :=
| RBin (f : binop) (a b : rarg V)   (* a + b, a - b through UncertainReal.__add__ ... *)
| RUn (f : unop) (a : rarg V)       (* +a, -a *)
| RNest (f : binop) (e : rexp V) (b : rarg V)   (* (e) f b : the left operand is the result of another call *)
| RArg (a : rarg V)                 (* the object itself (an operand, or a fresh constant) *)
| RNestUn (f : unop) (e : rexp V).  (* +(e), -(e): unary operator on the result of another call *)
Arguments RBin {V}. Arguments RUn {V}. Arguments RNest {V}. Arguments RArg {V}. Arguments RNestUn {V}.

(* which assembler of lib.py 3857-4244 *)
Inductive bikind := K_uc_uc | K_uc_ur | K_uc_n | K_ur_uc | K_n_uc.

Inductive cres (C : CNum) :=
| CSelf                                         (* return self *)
| CNegSelf                                      (* return -self *)
| CUni (z : pyn C) (j : jac C)                  (* _univariate_uc(self, z, dz_dx) *)
| CBi (k : bikind) (z : pyn C) (jl jr : jac C)  (* _bivariate_k(lhs, rhs, z, dz_dl, dz_dr) *)
| CPair (re im : rexp (T (cN C)))               (* UncertainComplex(re, im) *)
| CRealMergeW (y w1 w2 : pyn C)                 (* UncertainReal(y, merge_weighted_vectors(re.., w1, im.., w2) x 3) *)
| CPhase                                        (* self.imag._atan2(self.real) *)
| CPromL                                        (* (lhs + 0j)**rhs : lhs an UncertainReal (lib._pow) *)
| CPromR.                                       (* lhs**(rhs + 0j) : rhs an UncertainReal (lib._rpow) *)
Arguments CSelf {C}. Arguments CNegSelf {C}. Arguments CUni {C}. Arguments CBi {C}.
Arguments CPair {C}. Arguments CRealMergeW {C}. Arguments CPhase {C}. Arguments CPromL {C}. Arguments CPromR {C}.

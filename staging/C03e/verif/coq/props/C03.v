(* props/C03.v -- Property C03: complex sensitivities are the 2x2 real Jacobians of the complex
   function.  Only statements, closed by lemmas proved in CFacts.v / CChain.v, plus the axioms
   each depends on.  Everything is about the model evaluated over the reals (RCNum = RNum + the
   principal-branch cmath functions); the operator/function bodies are regenerated from
   GTC/lib.py (class UncertainComplex) on every run by tools/tr_lib_complex.py. *)
From Coq Require Import ZArith List Bool Reals Lra.
From Coquelicot Require Import Coquelicot.
From GTCV Require Import Num RNum Vector VectorFacts Opres KTypes Kernel DerivTable ChainRule.
From GTCV Require Import Cplx CplxR COpres CKernel CKernelFacts CCaseLib CWitness CFacts CChain.
From GTCV.gen Require Import Gen_lib_complex.
Import ListNotations.
Local Open Scope R_scope.

(* (1) C03_assemble: for each of the six assemblers the real and imaginary component vectors
   (u, d and i) of the result are J * (operand components) for the 4-tuple(s) passed in, for
   every overlap pattern of the sparse vectors *)
Theorem C03_assemble_univariate :
  forall re im (z : pyn RCNum) (j : jac RCNum) k, all_sorted re -> all_sorted im ->
  let r := univariate_uc RCNum re im z j in
  (get0 (uc (fst r)) k = j0 RCNum j * get0 (uc re) k + j1 RCNum j * get0 (uc im) k /\
   get0 (dc (fst r)) k = j0 RCNum j * get0 (dc re) k + j1 RCNum j * get0 (dc im) k /\
   get0 (ic (fst r)) k = j0 RCNum j * get0 (ic re) k + j1 RCNum j * get0 (ic im) k) /\
  (get0 (uc (snd r)) k = j2 RCNum j * get0 (uc re) k + j3 RCNum j * get0 (uc im) k /\
   get0 (dc (snd r)) k = j2 RCNum j * get0 (dc re) k + j3 RCNum j * get0 (dc im) k /\
   get0 (ic (snd r)) k = j2 RCNum j * get0 (ic re) k + j3 RCNum j * get0 (ic im) k).
Proof. exact asm_univariate. Qed.
Print Assumptions C03_assemble_univariate.

Definition C03_assemble_uc_uc := asm_uc_uc.
Definition C03_assemble_uc_ur := asm_uc_ur.
Definition C03_assemble_uc_n := asm_uc_n.
Definition C03_assemble_ur_uc := asm_ur_uc.
Definition C03_assemble_n_uc := asm_n_uc.
Theorem C03_assemble_bivariate_all :
  (forall lr li rr ri (z : pyn RCNum) (dl dr : jac RCNum) k,
      all_sorted lr -> all_sorted li -> all_sorted rr -> all_sorted ri ->
      let r := bivariate_uc_uc RCNum lr li rr ri z dl dr in
      get0 (uc (fst r)) k = j0 RCNum dl * get0 (uc lr) k + j1 RCNum dl * get0 (uc li) k
                            + j0 RCNum dr * get0 (uc rr) k + j1 RCNum dr * get0 (uc ri) k /\
      get0 (uc (snd r)) k = j2 RCNum dl * get0 (uc lr) k + j3 RCNum dl * get0 (uc li) k
                            + j2 RCNum dr * get0 (uc rr) k + j3 RCNum dr * get0 (uc ri) k) /\
  (forall lr li r0 (z : pyn RCNum) (dl dr : jac RCNum) k,
      all_sorted lr -> all_sorted li -> all_sorted r0 ->
      let r := bivariate_uc_ur RCNum lr li r0 z dl dr in
      get0 (uc (fst r)) k = j0 RCNum dl * get0 (uc lr) k + j1 RCNum dl * get0 (uc li) k + j0 RCNum dr * get0 (uc r0) k /\
      get0 (uc (snd r)) k = j2 RCNum dl * get0 (uc lr) k + j3 RCNum dl * get0 (uc li) k + j2 RCNum dr * get0 (uc r0) k) /\
  (forall l0 rr ri (z : pyn RCNum) (dl dr : jac RCNum) k,
      all_sorted l0 -> all_sorted rr -> all_sorted ri ->
      let r := bivariate_ur_uc RCNum l0 rr ri z dl dr in
      get0 (uc (fst r)) k = j0 RCNum dl * get0 (uc l0) k + j0 RCNum dr * get0 (uc rr) k + j1 RCNum dr * get0 (uc ri) k /\
      get0 (uc (snd r)) k = j2 RCNum dl * get0 (uc l0) k + j2 RCNum dr * get0 (uc rr) k + j3 RCNum dr * get0 (uc ri) k).
Proof.
  split; [|split]; intros.
  - destruct (asm_uc_uc lr li rr ri z dl dr k) as [[A _] [B _]]; auto.
  - destruct (asm_uc_ur lr li r0 z dl dr k) as [[A _] [B _]]; auto.
  - destruct (asm_ur_uc l0 rr ri z dl dr k) as [[A _] [B _]]; auto.
Qed.
Print Assumptions C03_assemble_bivariate_all.

(* (2) C03_arith: the 4-tuples the source passes for * and / are the real Jacobians of the
   R^2 -> R^2 maps (total derivative along every differentiable curve) *)
Theorem C03_arith_mul : forall a b c d,
  quad_der mul_re a b c d c (- d) a (- b) /\ quad_der mul_im a b c d d c b a.
Proof. intros; split; [apply qd_mul_re | apply qd_mul_im]. Qed.
Print Assumptions C03_arith_mul.

Theorem C03_arith_div : forall a b c d, c * c + d * d <> 0 ->
  c_quot RCNum (a, b) (c, d) = Ok (div_re a b c d, div_im a b c d) /\
  let n := c * c + d * d in let zr := div_re a b c d in let zi := div_im a b c d in
  quad_der div_re a b c d (c / n) (d / n) ((- zr * c + - zi * d) / n) (- ((- zi * c - - zr * d) / n)) /\
  quad_der div_im a b c d (- d / n) (c / n) ((- zi * c - - zr * d) / n) ((- zr * c + - zi * d) / n).
Proof.
  intros a b c d Hn. split; [apply c_quot_R; auto|]. split; [apply qd_div_re | apply qd_div_im]; auto.
Qed.
Print Assumptions C03_arith_div.

(* (2b) C03_arith for + and -: the component-wise uncertain-REAL operations the source performs
   (whose own chain rule is C02) compute Re and Im of z1 + z2, z1 - z2 for every operand kind,
   and the shortcuts `return self` / `return -self` are taken only when that IS the result *)
Theorem C03_arith_addsub :
  (forall a b o r, gc_add_uc RCNum (a, b) o = Ok r ->
     addsub_ok (a + fst (widen RCNum o)) (b + snd (widen RCNum o)) a b (fst (widen RCNum o)) (snd (widen RCNum o)) r) /\
  (forall a b o r, gc_add_n RCNum (a, b) o = Ok r ->
     addsub_ok (a + fst (widen RCNum o)) (b + snd (widen RCNum o)) a b (fst (widen RCNum o)) (snd (widen RCNum o)) r) /\
  (forall a b o r, gc_radd_n RCNum (a, b) o = Ok r ->
     addsub_ok (fst (widen RCNum o) + a) (snd (widen RCNum o) + b) a b (fst (widen RCNum o)) (snd (widen RCNum o)) r) /\
  (forall a b o r, gc_sub_uc RCNum (a, b) o = Ok r ->
     addsub_ok (a - fst (widen RCNum o)) (b - snd (widen RCNum o)) a b (fst (widen RCNum o)) (snd (widen RCNum o)) r) /\
  (forall a b o r, gc_sub_n RCNum (a, b) o = Ok r ->
     addsub_ok (a - fst (widen RCNum o)) (b - snd (widen RCNum o)) a b (fst (widen RCNum o)) (snd (widen RCNum o)) r) /\
  (forall a b o r, gc_rsub_n RCNum (a, b) o = Ok r ->
     addsub_ok (fst (widen RCNum o) - a) (snd (widen RCNum o) - b) a b (fst (widen RCNum o)) (snd (widen RCNum o)) r) /\
  (forall a b x r, gc_add_ur RCNum (a, b) (PR x) = Ok r -> addsub_ok (a + x) (b + 0) a b x 0 r) /\
  (forall a b x r, gc_radd_ur RCNum (a, b) (PR x) = Ok r -> addsub_ok (x + a) (0 + b) a b x 0 r) /\
  (forall a b x r, gc_sub_ur RCNum (a, b) (PR x) = Ok r -> addsub_ok (a - x) (b - 0) a b x 0 r) /\
  (forall a b x r, gc_rsub_ur RCNum (a, b) (PR x) = Ok r -> addsub_ok (x - a) (0 - b) a b x 0 r).
Proof.
  split; [exact gc_add_uc_ok|]. split; [exact gc_add_n_ok|]. split; [exact gc_radd_n_ok|].
  split; [exact gc_sub_uc_ok|]. split; [exact gc_sub_n_ok|]. split; [exact gc_rsub_n_ok|].
  split; [exact gc_add_ur_ok|]. split; [exact gc_radd_ur_ok|]. split; [exact gc_sub_ur_ok|exact gc_rsub_ur_ok].
Qed.
Print Assumptions C03_arith_addsub.

(* (3) cr_table (partial): for the analytic functions below, the real Jacobian at z is
   [[p, -q], [q, p]] with p + jq = f'(z) as written in the source *)
Theorem C03_cr_table_partial :
  (forall z, cr_at cexp_R z (cexp_R z)) /\ (forall z, cr_at csin_R z (ccos_R z)) /\
  (forall z, cr_at ccos_R z (- fst (csin_R z), - snd (csin_R z))) /\
  (forall z, cr_at csinh_R z (ccosh_R z)) /\ (forall z, cr_at ccosh_R z (csinh_R z)) /\
  (forall z, 0 < fst z -> cr_at clog_R z (cdiv_R (1, 0) z)) /\
  (forall z, cr_at (fun w => cmul_R w w) z (2 * fst z, 2 * snd z)).
Proof.
  split; [exact cr_exp|]. split; [exact cr_sin|]. split; [exact cr_cos|]. split; [exact cr_sinh|].
  split; [exact cr_cosh|]. split; [exact cr_log_right|exact cr_square].
Qed.
Print Assumptions C03_cr_table_partial.

Theorem C03_jac_magnitude : forall a b, a * a + b * b <> 0 ->
  bin_der (fun x y => sqrt (x * x + y * y)) a b (a / sqrt (a * a + b * b)) (b / sqrt (a * a + b * b)).
Proof. exact jac_magnitude. Qed.
Print Assumptions C03_jac_magnitude.

(* (4) the generated bodies: z1 * z2 for EVERY mix of operand kinds (uncertain complex,
   uncertain real, plain int/float/complex number, either side, with the == 1 shortcut) and the
   entire functions: the result's two components denote Re and Im of the complex function of
   the operands' denotations -- value and all partial derivatives *)
Theorem C03_mul_all_kinds :
  forall U I e0 rev sre sim oth slots Fa Fb Fc Fd v,
    Den U I e0 (snd sre) Fa -> Den U I e0 (snd sim) Fb -> oth_den U I e0 oth Fc Fd ->
    (match oth with OthC _ _ => rev = false | _ => True end) ->
    capply_bin RCNum B_mul rev sre sim oth slots = Ok v ->
    cval_den U I e0 v Fa Fb
      (fun e => if rev then mul_re (Fc e) (Fd e) (Fa e) (Fb e) else mul_re (Fa e) (Fb e) (Fc e) (Fd e))
      (fun e => if rev then mul_im (Fc e) (Fd e) (Fa e) (Fb e) else mul_im (Fa e) (Fb e) (Fc e) (Fd e)).
Proof. exact capply_mul_sound. Qed.
Print Assumptions C03_mul_all_kinds.

Theorem C03_entire_functions :
  forall U I e0 f g sre sim Fa Fb v,
    cfun_R f = Some g -> Den U I e0 (snd sre) Fa -> Den U I e0 (snd sim) Fb ->
    capply_un RCNum (CUf f) sre sim = Ok v ->
    cval_den U I e0 v Fa Fb (fun e => fst (g (Fa e, Fb e))) (fun e => snd (g (Fa e, Fb e))).
Proof. exact capply_fun_sound. Qed.
Print Assumptions C03_entire_functions.

(* (5) the chain rule (partial): for every expression tree over complex objects of a state,
   products with complex / real / plain-number operands on either side, and exp sin cos sinh
   cosh -- no bound on depth or sharing -- the two components of the result denote Re and Im
   of the plain complex function [csem] of the tree ... *)
Theorem C03_chain_rule_partial :
  forall U I e0 (s : cstate R) (Fc : nat -> env -> RC) (Fr : nat -> env -> R),
    (forall i r, get_cplx RCNum s i = Ok r ->
       Den U I e0 (snd (snd (fst r))) (fun en => fst (Fc i en)) /\ Den U I e0 (snd (snd r)) (fun en => snd (Fc i en))) ->
    (forall i r, get_real RNum (ks s) i = Ok r -> Den U I e0 (snd (fst r)) (Fr i)) ->
    forall e q, wf e -> ceval s e = Ok q ->
      Den U I e0 (fst q) (fun en => fst (csem Fc Fr e en)) /\
      Den U I e0 (snd q) (fun en => snd (csem Fc Fr e en)).
Proof. intros U I e0 s Fc Fr H1 H2 e q. apply ceval_sound; auto. Qed.
Print Assumptions C03_chain_rule_partial.

(* ... and (6) each entry of reporting.sensitivity(y, x) = JacobianMatrix(y_re/x_re, y_re/x_im,
   y_im/x_re, y_im/x_im) is the partial derivative of that component of the function with respect
   to that component of the elementary complex input x = (kr, ki); u_component is the same
   matrix scaled column-wise by u(x_re), u(x_im) *)
Theorem C03_jacobian_entries :
  forall U I e0 (s : KTypes.state R) (yre yim : KTypes.ureal R) (Gr Gi : env -> R) kr ki lr li xr xi,
    attrs_ok U I s -> Den U I e0 yre Gr -> Den U I e0 yim Gi ->
    Kernel.assoc (s_leaves s) kr = Some lr -> Kernel.assoc (s_leaves s) ki = Some li ->
    unode xr = LeafRef kr -> unode xi = LeafRef ki -> 0 < U kr -> 0 < U ki ->
    exists Drr Dri Dir Dii,
      is_derive (fun t => Gr (upd e0 kr t)) (e0 kr) Drr /\ is_derive (fun t => Gr (upd e0 ki t)) (e0 ki) Dri /\
      is_derive (fun t => Gi (upd e0 kr t)) (e0 kr) Dir /\ is_derive (fun t => Gi (upd e0 ki t)) (e0 ki) Dii /\
      sensitivity RNum s yre xr = Ok Drr /\ sensitivity RNum s yre xi = Ok Dri /\
      sensitivity RNum s yim xr = Ok Dir /\ sensitivity RNum s yim xi = Ok Dii /\
      u_component RNum s yre xr = Ok (U kr * Drr) /\ u_component RNum s yre xi = Ok (U ki * Dri) /\
      u_component RNum s yim xr = Ok (U kr * Dir) /\ u_component RNum s yim xi = Ok (U ki * Dii).
Proof.
  intros U I e0 s yre yim Gr Gi kr ki lr li xr xi Hat Hr Hi Lr Li Xr Xi Ur Ui.
  destruct (reporting_sound U I e0 s yre Gr kr lr xr Hat Hr Lr Xr Ur) as [Drr [A1 [A2 A3]]].
  destruct (reporting_sound U I e0 s yre Gr ki li xi Hat Hr Li Xi Ui) as [Dri [B1 [B2 B3]]].
  destruct (reporting_sound U I e0 s yim Gi kr lr xr Hat Hi Lr Xr Ur) as [Dir [C1 [C2 C3]]].
  destruct (reporting_sound U I e0 s yim Gi ki li xi Hat Hi Li Xi Ui) as [Dii [D1 [D2 D3]]].
  exists Drr, Dri, Dir, Dii. repeat (split; [assumption|]). assumption.
Qed.
Print Assumptions C03_jacobian_entries.

(* (7) refuted: the derivative expression of acosh uses the principal root of the PRODUCT
   (x-1)(x+1); at x = -2+j this is MINUS the product of the principal roots, which is what
   d/dx acosh x = 1/(sqrt(x-1) sqrt(x+1)) needs on Re x < 0 (seen on the implementation: the
   reported Jacobian of acosh(ucomplex(-2+1j)) is that of -f'(z); known finding C03-acosh) *)
Theorem C03_acosh_roots_refuted :
  exists x : RC,
    let p := csqrt_R (cmul_R (csub_R x (1, 0)) (cadd_R x (1, 0))) in
    let q := cmul_R (csqrt_R (csub_R x (1, 0))) (csqrt_R (cadd_R x (1, 0))) in
    snd p < 0 /\ 0 < snd q.
Proof. exact acosh_roots_refuted. Qed.
Print Assumptions C03_acosh_roots_refuted.

(* (8) C10 for the complex dof: _EnsembleComponents' class-level accumulators are cleared before
   use on every path of willink_hall, so a dof() read does not depend on what an earlier call
   (possibly one that raised part-way) left in them -- for every number instance *)
Theorem C03_dof_entry_independent :
  forall (C : CNum) (k : KTypes.state (T (cN C))) (a a' : option (T (cN C) * T (cN C) * T (cN C)))
         (jr ji : nat) (ore oim : KTypes.ureal (T (cN C))),
    let '(k1, a1, r1) := willink_hall C k a jr ji ore oim in
    let '(k2, a2, r2) := willink_hall C k a' jr ji ore oim in
    k1 = k2 /\ r1 = r2 /\ (a1 = a2 \/ (a1 = a /\ a2 = a')).
Proof. exact willink_hall_entry_independent. Qed.
Print Assumptions C03_dof_entry_independent.

(* (9) C01-intermediate-times-complex / C06-result-real-plus-complex-literal (FIXED; was refuted by the witness
   result(x) + 1j -> AssertionError): an uncertain real x of ANY kind (elementary, declared intermediate, constant, temporary)
   combined with a plain complex number by + - * / yields, whenever the operation succeeds, an uncertain complex number
   whose two components are NEW undeclared objects -- the operand object is never reused as a component, so
   UncertainComplex.__init__ and result() never see components of different kinds.  For every number instance. *)
Theorem C01_promotion_components_fresh :
  forall (C : CNum) (f : binop) (rev : bool) (x : nat * KTypes.ureal (T (cN C))) (c : pyn C) v,
    match f with B_add | B_sub | B_mul | B_div => True | _ => False end ->
    rapply_bin_c C f rev x c = Ok v ->
    exists re im, v = RCplx C re im /\ fresh C re /\ fresh C im.
Proof. exact promotion_fresh. Qed.
Print Assumptions C01_promotion_components_fresh.

(* ... and on the binary64 model, a program recorded on the repaired implementation: m = result(ureal(2,.5)*1.5); m+1j,
   m*1j, m*(2+1j); result(x+2j), result((1+2j)*x) for elementary x; result(c*(2+1j)) for a constant: the model agrees
   with every recorded output, the promoted values are complex, result() declares both components *)
Theorem C06_result_real_plus_complex_literal_fixed :
  run_ccase c01_case = (-1)%Z /\
  forallb is_cplx_new [nth 3 c01_outs OutUnit; nth 4 c01_outs OutUnit; nth 5 c01_outs OutUnit;
                       nth 6 c01_outs OutUnit; nth 8 c01_outs OutUnit; nth 11 c01_outs OutUnit] = true /\
  forallb is_cplx_declared [nth 7 c01_outs OutUnit; nth 9 c01_outs OutUnit; nth 12 c01_outs OutUnit] = true.
Proof. exact c01_fixed. Qed.

(* ---------- non-vacuity ---------- *)
(* a concrete state: one elementary complex z = 1 + 2j with u = (1/2, 1/4) (independent), and
   the tree  exp(z) * z  (z used twice): all hypotheses of C03_chain_rule_partial hold and the model
   evaluates the tree *)
Definition kr1 : key := (1%Z, 1%Z).
Definition ki1 : key := (1%Z, 2%Z).
Definition ex_cstate : cstate R :=
  mkCS (mkS 1%Z 2%Z 0%Z
          [(kr1, mkLeaf (/ 2) DInf true [] 0%nat (Some (kr1, ki1)) None);
           (ki1, mkLeaf (/ 4) DInf true [] 1%nat (Some (kr1, ki1)) None)]
          [] [[]; []]
          [SReal (mkU 1 [(kr1, / 2)] [] [] (LeafRef kr1)) None;
           SReal (mkU 2 [(ki1, / 4)] [] [] (LeafRef ki1)) None])
       [(0%nat, CObj (mkCM 1%nat None true None None None))] None.
Definition ex_U (k : key) : R := if keqb k kr1 then / 2 else / 4.
Definition ex_I (k : key) : bool := true.
Definition ex_e0 (k : key) : R := if keqb k kr1 then 1 else 2.
Definition ex_Fc (i : nat) : env -> RC := fun e => (e kr1, e ki1).
Definition ex_tree : cexpr := XMul (XFun U_exp (XVar 0)) (XVar 0).

Example C03_nonvacuous :
  (forall i r, get_cplx RCNum ex_cstate i = Ok r ->
     Den ex_U ex_I ex_e0 (snd (snd (fst r))) (fun en => fst (ex_Fc i en)) /\
     Den ex_U ex_I ex_e0 (snd (snd r)) (fun en => snd (ex_Fc i en))) /\
  wf ex_tree /\ exists q, ceval ex_cstate ex_tree = Ok q.
Proof.
  split; [|split].
  - intros i r H. destruct i as [|i].
    + vm_compute in H. injection H as <-. cbn [fst snd]. split.
      * apply (den_leaf_indep ex_U ex_I ex_e0 kr1 1 (LeafRef kr1)); reflexivity.
      * apply (den_leaf_indep ex_U ex_I ex_e0 ki1 2 (LeafRef ki1)); reflexivity.
    + exfalso. unfold get_cplx in H. cbn in H. destruct i; discriminate H.
  - cbn. repeat split; discriminate.
  - eexists. unfold ex_tree, ceval. reflexivity.
Qed.

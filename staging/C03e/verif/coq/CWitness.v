(* CWitness.v -- concrete witnesses evaluated on the binary64 model (vm_compute). *)
From Coq Require Import ZArith List Bool PrimFloat.
From GTCV Require Import Num FNum Vector Opres KTypes Kernel Cplx CFNum COpres CKernel CCaseLib.
Import ListNotations.
Local Open Scope float_scope.

(* C01-intermediate-times-complex / C06-result-real-plus-complex-literal (FIXED): a program recorded on the repaired
   implementation --  m = result(ureal(2,.5)*1.5);  m+1j, m*1j, m*(2+1j);  x = ureal(2,.5): result(x+2j), result((1+2j)*x);
   c = constant(3): result(c*(2+1j))  -- with the outputs the implementation produced.  The model agrees on every step
   (run_ccase = -1), every promoted value is an uncertain complex number, and result() of each declares both components *)
Definition c01_case : ccase := (1%Z, [(F_sqrt, [0x1.2000000000000p-1], Ok 0x1.8000000000000p-1); (F_sqrt, [0x1.0000000000000p-2], Ok 0x1.0000000000000p-1); (F_sqrt, [0x0.0p+0], Ok 0x0.0p+0); (F_sqrt, [0x1.0000000000000p+0], Ok 0x1.0000000000000p+0); (F_hypot, [0x0.0p+0; 0x1.0000000000000p+0], Ok 0x1.0000000000000p+0); (F_pow, [0x1.0000000000000p+0; 0x1.0000000000000p+1], Ok 0x1.0000000000000p+0); (F_hypot, [0x1.0000000000000p+1; 0x1.0000000000000p+0], Ok 0x1.1e3779b97f4a8p+1); (F_pow, [0x1.1e3779b97f4a8p+1; 0x1.0000000000000p+1], Ok 0x1.4000000000001p+2); (F_hypot, [0x0.0p+0; 0x1.0000000000000p+1], Ok 0x1.0000000000000p+1); (F_pow, [0x1.0000000000000p+1; 0x1.0000000000000p+1], Ok 0x1.0000000000000p+2); (F_hypot, [0x1.0000000000000p+0; 0x1.0000000000000p+1], Ok 0x1.1e3779b97f4a8p+1)], [], [(CK (OpUreal 0x1.0000000000000p+1 0x1.0000000000000p-1 DInf None true)); (CK (OpBin B_mul (ARef 0) (ANum 0x1.8000000000000p+0))); (CK (OpResult 1 None)); (CBin B_add (CArgR 2) (CArgN (NC 0x0.0p+0 0x1.0000000000000p+0))); (CBin B_mul (CArgR 2) (CArgN (NC 0x0.0p+0 0x1.0000000000000p+0))); (CBin B_mul (CArgR 2) (CArgN (NC 0x1.0000000000000p+1 0x1.0000000000000p+0))); (CBin B_add (CArgR 0) (CArgN (NC 0x0.0p+0 0x1.0000000000000p+1))); (CResult 9 None); (CBin B_mul (CArgN (NC 0x1.0000000000000p+0 0x1.0000000000000p+1)) (CArgR 0)); (CResult 13 None); (CK (OpConstant 0x1.8000000000000p+1 None)); (CBin B_mul (CArgR 17) (CArgN (NC 0x1.0000000000000p+1 0x1.0000000000000p+0))); (CResult 18 None)], [(OutObj 0x1.0000000000000p+1 [((1%Z, 1%Z), 0x1.0000000000000p-1)] [] [] (KElem (1%Z, 1%Z))); (OutObj 0x1.8000000000000p+1 [((1%Z, 1%Z), 0x1.8000000000000p-1)] [] [] KPlain); (OutObj 0x1.8000000000000p+1 [((1%Z, 1%Z), 0x1.8000000000000p-1)] [] [((1%Z, 1%Z), 0x1.8000000000000p-1)] (KInterm (1%Z, 1%Z))); (OutList [(OutObj 0x1.8000000000000p+1 [((1%Z, 1%Z), 0x1.8000000000000p-1)] [] [((1%Z, 1%Z), 0x1.8000000000000p-1)] KPlain); (OutObj 0x1.0000000000000p+0 [] [] [] KConst)]); (OutList [(OutObj 0x0.0p+0 [((1%Z, 1%Z), 0x0.0p+0)] [] [((1%Z, 1%Z), 0x0.0p+0)] KPlain); (OutObj 0x1.8000000000000p+1 [((1%Z, 1%Z), 0x1.8000000000000p-1)] [] [((1%Z, 1%Z), 0x1.8000000000000p-1)] KPlain)]); (OutList [(OutObj 0x1.8000000000000p+2 [((1%Z, 1%Z), 0x1.8000000000000p+0)] [] [((1%Z, 1%Z), 0x1.8000000000000p+0)] KPlain); (OutObj 0x1.8000000000000p+1 [((1%Z, 1%Z), 0x1.8000000000000p-1)] [] [((1%Z, 1%Z), 0x1.8000000000000p-1)] KPlain)]); (OutList [(OutObj 0x1.0000000000000p+1 [((1%Z, 1%Z), 0x1.0000000000000p-1)] [] [] KPlain); (OutObj 0x1.0000000000000p+1 [] [] [] KConst)]); (OutList [(OutObj 0x1.0000000000000p+1 [((1%Z, 1%Z), 0x1.0000000000000p-1)] [] [((1%Z, 2%Z), 0x1.0000000000000p-1)] (KInterm (1%Z, 2%Z))); (OutObj 0x1.0000000000000p+1 [] [] [((1%Z, 3%Z), 0x0.0p+0)] (KInterm (1%Z, 3%Z)))]); (OutList [(OutObj 0x1.0000000000000p+1 [((1%Z, 1%Z), 0x1.0000000000000p-1)] [] [] KPlain); (OutObj 0x1.0000000000000p+2 [((1%Z, 1%Z), 0x1.0000000000000p+0)] [] [] KPlain)]); (OutList [(OutObj 0x1.0000000000000p+1 [((1%Z, 1%Z), 0x1.0000000000000p-1)] [] [((1%Z, 4%Z), 0x1.0000000000000p-1)] (KInterm (1%Z, 4%Z))); (OutObj 0x1.0000000000000p+2 [((1%Z, 1%Z), 0x1.0000000000000p+0)] [] [((1%Z, 5%Z), 0x1.0000000000000p+0)] (KInterm (1%Z, 5%Z)))]); (OutObj 0x1.8000000000000p+1 [] [] [] KConst); (OutList [(OutObj 0x1.8000000000000p+2 [] [] [] KPlain); (OutObj 0x1.8000000000000p+1 [] [] [] KPlain)]); (OutList [(OutObj 0x1.8000000000000p+2 [] [] [((1%Z, 6%Z), 0x0.0p+0)] (KInterm (1%Z, 6%Z))); (OutObj 0x1.8000000000000p+1 [] [] [((1%Z, 7%Z), 0x0.0p+0)] (KInterm (1%Z, 7%Z)))])]).

Definition c01_outs : list (out float) :=
  let '(ctx, tbl, ctbl, prog, _) := c01_case in
  snd (crun (FCNum tbl ctbl) (cinit (FCNum tbl ctbl) ctx) prog).
Definition is_cplx_new (o : out float) : bool :=
  match o with OutList [OutObj _ _ _ _ KPlain; OutObj _ _ _ _ _] => true | _ => false end.
Definition is_cplx_declared (o : out float) : bool :=
  match o with OutList [OutObj _ _ _ _ (KInterm _); OutObj _ _ _ _ (KInterm _)] => true | _ => false end.

Lemma c01_fixed :
  run_ccase c01_case = (-1)%Z /\
  forallb is_cplx_new [nth 3 c01_outs OutUnit; nth 4 c01_outs OutUnit; nth 5 c01_outs OutUnit;
                       nth 6 c01_outs OutUnit; nth 8 c01_outs OutUnit; nth 11 c01_outs OutUnit] = true /\
  forallb is_cplx_declared [nth 7 c01_outs OutUnit; nth 9 c01_outs OutUnit; nth 12 c01_outs OutUnit] = true.
Proof. vm_compute. repeat split. Qed.

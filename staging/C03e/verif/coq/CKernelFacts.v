(* CKernelFacts.v -- structural facts about the complex kernel model that hold for every
   number instance (no real analysis).
   willink_hall_entry_independent (C10): the class-level accumulators of _EnsembleComponents
   are cleared before they are used on every path of willink_hall, so what a dof() call
   returns, the caches it fills and the accumulator values it leaves behind do not depend on
   the accumulator state on entry (left by an earlier call, possibly one that raised part-way)
   -- except that the paths which never touch the accumulators leave them as they were. *)
From Coq Require Import ZArith List Bool.
From GTCV Require Import Num Vector Opres KTypes Kernel Cplx COpres CKernel.
Import ListNotations.

Section WH.
  Variable C : CNum.
  Notation V := (T (cN C)).

  Theorem willink_hall_entry_independent :
    forall (k : state V) (a a' : option (V * V * V)) (jr ji : nat) (ore oim : ureal V),
      let '(k1, a1, r1) := willink_hall C k a jr ji ore oim in
      let '(k2, a2, r2) := willink_hall C k a' jr ji ore oim in
      k1 = k2 /\ r1 = r2 /\ (a1 = a2 \/ (a1 = a /\ a2 = a')).
  Proof.
    intros k a a' jr ji ore oim. unfold willink_hall.
    destruct (is_constant (cN C) ore && is_constant (cN C) oim); [auto|].
    match goal with |- context [if ?c then _ else _] => destruct c end; [auto|].
    destruct (all_inf (cN C) k (extend (uc ore) (uc oim))) as [iu|e1];
      destruct (all_inf (cN C) k (extend (dc ore) (dc oim))) as [id|e2]; auto.
    destruct (iu && id).
    - destruct (svcc C k jr ji) as [k1 [v|e]]; auto.
    - match goal with |- context [wh_indep ?c ?kk ?x ?y ?z] => destruct (wh_indep c kk x y z) as [a1 [e|]] end; auto.
      match goal with |- context [wh_dep ?c ?kk ?x ?y ?z ?w ?r ?aa] => destruct (wh_dep c kk x y z w r aa) as [a2 [reg|e]] end; auto.
      match goal with |- context [wh_finish ?c ?kk ?x ?aa] => destruct (wh_finish c kk x aa) as [a3 [e|]] end; auto.
      destruct (svcc C k jr ji) as [k1 [[[[s11 s12] s21] s22]|e]]; auto.
      match goal with |- context [if ?c then _ else _] => destruct c end; auto.
  Qed.

  (* the same statement at the level of the df read of the state machine: the observable
     output of  z.df  and the resulting kernel state do not depend on the accumulators *)
  Corollary cread_df_entry_independent :
    forall (s : cstate V) (a' : option (V * V * V)) (i : nat),
      snd (cread_df C s i) = snd (cread_df C (with_acc C s a') i) /\
      ks (fst (cread_df C s i)) = ks (fst (cread_df C (with_acc C s a') i)) /\
      cobjs (fst (cread_df C s i)) = cobjs (fst (cread_df C (with_acc C s a') i)).
  Proof.
    intros s a' i. unfold cread_df.
    change (get_cplx C (with_acc C s a') i) with (get_cplx C s i).
    destruct (get_cplx C s i) as [[[[j m] [jr ore]] [ji oim]]|e]; [|auto].
    cbn [with_acc ks wacc cobjs].
    pose proof (willink_hall_entry_independent (ks s) (wacc s) a' jr ji ore oim) as H.
    destruct (willink_hall C (ks s) (wacc s) jr ji ore oim) as [[k1 a1] r1].
    destruct (willink_hall C (ks s) a' jr ji ore oim) as [[k2 a2] r2].
    destruct H as [-> [-> _]].
    destruct r2 as [[[[[v11 v12] v21] v22] d]|e]; [|auto].
    destruct (cm_v m); auto.
  Qed.
End WH.

(* ---------- promotion of an uncertain real by a plain complex number builds FRESH components ----------
   (repaired lib._add/_radd/_sub/_rsub/_mul/_rmul/_div/_rdiv: every component is a new temporary, `+( ... )`, or a new
   constant; no elementary / intermediate / constant operand object is ever reused as a component, so
   UncertainComplex.__init__ never sees components of different kinds and result() of the value is transparent) *)
From GTCV.gen Require Import Gen_lib_real Gen_lib_complex.

Section Promotion.
  Variable C : CNum.
  Notation N := (cN C).
  Notation V := (T (cN C)).

  (* a component that is a new, undeclared object *)
  Definition fresh (c : cpart C) : Prop :=
    exists o, c = CNew C o /\ is_intermediate N o = false /\ is_elementary N o = false.

  Lemma fresh_pos_of (c : cpart C) r :
    (v <- apply_un N U_pos (comp_obj C c) ;;
     match v with VObj o' => Ok (CNew C o') | VSame _ => Ok c | _ => Err OtherExn end) = Ok r -> fresh r.
  Proof.
    unfold apply_un. cbn [g_unop]. unfold g_pos. cbn [bind realize pick]. intros H. injection H as <-.
    eexists; split; [reflexivity|]. split; reflexivity.
  Qed.

  Lemma fresh_un f (x : sarg C) r : (f = U_pos \/ f = U_neg) ->
    match snd x with
    | OpdU o => v <- apply_un N f o ;;
                match v with VObj o' => Ok (CNew C o') | VSame _ => of_same C x | _ => Err OtherExn end
    | OpdN _ => Err TypeError
    end = Ok r -> fresh r.
  Proof.
    intros Hf. destruct (snd x) as [o|v]; [|discriminate].
    unfold apply_un. destruct Hf as [-> | ->]; cbn [g_unop]; [unfold g_pos | unfold g_neg];
      cbn [bind realize pick]; intros H; injection H as <-;
      (eexists; split; [reflexivity|]; split; reflexivity).
  Qed.

  Lemma fresh_const v r : of_same C (None, OpdU (mk_constant N v None)) = Ok r -> fresh r.
  Proof. cbn. intros H; injection H as <-. eexists; split; [reflexivity|]. split; reflexivity. Qed.

  (* number (op) uncertain real for - and / : always a new object *)
  Lemma fresh_rsub v (o : ureal V) j r :
    bin_part C B_sub (None, OpdN v) (Some j, OpdU o) = Ok r -> fresh r.
  Proof.
    unfold bin_part, apply_bin. cbn [snd g_bin_nu]. unfold g_rsub_num.
    destruct (eqb N v (dyad N 0 0)); cbn [bind realize pick]; intros H; injection H as <-;
      (eexists; split; [reflexivity|]; split; reflexivity).
  Qed.

  Lemma fresh_rdiv v (o : ureal V) j r :
    bin_part C B_div (None, OpdN v) (Some j, OpdU o) = Ok r -> fresh r.
  Proof.
    unfold bin_part, apply_bin. cbn [snd g_bin_nu]. unfold g_rdiv_num.
    destruct (div N v (ux o)) as [q|e]; cbn [bind]; [|discriminate].
    destruct (div N (neg N q) (ux o)) as [q2|e]; cbn [bind realize pick]; [|discriminate].
    intros H; injection H as <-. eexists; split; [reflexivity|]. split; reflexivity.
  Qed.

  Lemma mk_cplx_fresh re im : fresh re -> fresh im -> mk_cplx C re im = Ok (RCplx C re im).
  Proof.
    intros [o1 [-> [I1 _]]] [o2 [-> [I2 _]]]. unfold mk_cplx. cbn [comp_obj]. rewrite I1, I2. reflexivity.
  Qed.

  (* the shapes of real-kernel calls whose result is always a new object *)
  Definition fresh_shape (e : rexp V) : bool :=
    match e with
    | RNestUn U_pos _ => true
    | RUn U_pos _ | RUn U_neg _ => true
    | RArg (AConstV _) => true
    | RBin B_sub (ANumV _) AOth | RBin B_div (ANumV _) AOth => true
    | _ => false
    end.

  Lemma rexp_fresh sre sim (o : ureal V) j e r :
    fresh_shape e = true ->
    rexp_val C sre sim (OthR C o) (Some j, None) e = Ok r -> fresh r.
  Proof.
    intros Hs H. destruct e as [f a b|f a|f e1 b|a|f e1]; cbn [fresh_shape] in Hs.
    - destruct f; try discriminate Hs; destruct a; try discriminate Hs; destruct b; try discriminate Hs;
        cbn [rexp_val rarg_val bind fst snd] in H; [eapply fresh_rsub | eapply fresh_rdiv]; exact H.
    - cbn [rexp_val] in H.
      destruct (rarg_val C sre sim (OthR C o) (Some j, None) a) as [x|]; cbn [bind] in H; [|discriminate H].
      eapply (fresh_un f x); [|exact H]. destruct f; try discriminate Hs; auto.
    - discriminate Hs.
    - destruct a; try discriminate Hs. cbn [rexp_val rarg_val bind] in H. eapply fresh_const; exact H.
    - destruct f; try discriminate Hs. cbn [rexp_val] in H.
      destruct (rexp_val C sre sim (OthR C o) (Some j, None) e1) as [c|]; cbn [bind] in H; [|discriminate H].
      eapply fresh_pos_of; exact H.
  Qed.

  Lemma realize_pair_fresh sre sim (o : ureal V) j e1 e2 v :
    fresh_shape e1 = true -> fresh_shape e2 = true ->
    realize_c C (CPair e1 e2) sre sim (OthR C o) (Some j, None) = Ok v ->
    exists re im, v = RCplx C re im /\ fresh re /\ fresh im.
  Proof.
    intros S1 S2 H. cbn [realize_c] in H.
    destruct (rexp_val C sre sim (OthR C o) (Some j, None) e1) as [re|] eqn:E1; cbn [bind] in H; [|discriminate H].
    destruct (rexp_val C sre sim (OthR C o) (Some j, None) e2) as [im|] eqn:E2; cbn [bind] in H; [|discriminate H].
    pose proof (rexp_fresh _ _ _ _ _ _ S1 E1) as F1. pose proof (rexp_fresh _ _ _ _ _ _ S2 E2) as F2.
    rewrite (mk_cplx_fresh re im F1 F2) in H. injection H as <-. eauto.
  Qed.

  (* x (op) c and c (op) x for an uncertain real x of ANY kind (elementary, declared intermediate, constant,
     temporary) and any plain complex number c, op in + - * / : when the operation succeeds the result is an uncertain
     complex number whose two components are NEW undeclared objects -- the operand object is never a component *)
  Theorem promotion_fresh : forall (f : binop) (rev : bool) (x : nat * ureal V) (c : pyn C) v,
    match f with B_add | B_sub | B_mul | B_div => True | _ => False end ->
    rapply_bin_c C f rev x c = Ok v ->
    exists re im, v = RCplx C re im /\ fresh re /\ fresh im.
  Proof.
    intros f rev [j o] c v Hf H. unfold rapply_bin_c in H.
    destruct f; try contradiction; destruct rev; unfold gr_bin in H; cbn [bind fst snd] in H.
    all: unfold gr_add_c, gr_radd_c, gr_sub_c, gr_rsub_c, gr_mul_c, gr_rmul_c, gr_div_c, gr_rdiv_c in H.
    all: repeat (cbv beta iota zeta delta [bind] in H;
                 match type of H with
                 | context [n_eqb ?a1 ?a2 ?a3] => destruct (n_eqb a1 a2 a3)
                 | context [n_abs ?a1 ?a2] => destruct (n_abs a1 a2); [|discriminate H]
                 | context [n_pow ?a1 ?a2 ?a3] => destruct (n_pow a1 a2 a3); [|discriminate H]
                 | context [n_div ?a1 ?a2 ?a3] => destruct (n_div a1 a2 a3); [|discriminate H]
                 end);
         cbv beta iota zeta delta [bind] in H;
         refine (realize_pair_fresh _ _ _ _ _ _ _ _ _ H); reflexivity.
  Qed.
End Promotion.

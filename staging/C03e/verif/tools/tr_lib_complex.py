#!/usr/bin/env python3
"""tr_lib_complex.py -- fail-closed Python-ast -> Gallina translator for the UncertainComplex
operators and functions of GTC/lib.py.   Usage: tr_lib_complex.py <repo> <outdir>

For every method in the worklist and every operand kind of the other operand
(uc = UncertainComplex, ur = UncertainReal, n = plain number) it emits

    Definition gc_<name>_<kind> (C : CNum) (sv : cplx C) (o : pyn C) : res (cres C)

sv = self._value, o = the other operand's value (PC for uc, PR for ur, the number itself
for n).  The body is the same computation as the Python source: the value expression z, the
derivative expression(s) through z_to_seq, and WHICH assembler is called with which argument
order (cres.CUni / CBi k), or the component-wise calls into the uncertain-real kernel
(cres.CPair), or the shortcut returns (CSelf / CNegSelf).  Python's dynamically typed
float/complex arithmetic is kept dynamic (Cplx.pyn, n_add ... n_pow, n_cm).

Anything outside the recognised subset makes that one definition ABSENT (with a comment),
so whatever depends on it stops compiling: never guess, never reuse an old definition."""
import ast, sys, os, math

class Untranslatable(Exception):
    pass

CMATH = {'exp', 'log', 'log10', 'sqrt', 'sin', 'cos', 'tan', 'asin', 'acos', 'atan', 'sinh', 'cosh', 'tanh',
         'asinh', 'acosh', 'atanh'}
NAMED_CONST = {'LOG10_E': '(@PR C (c_log10e (cN C)))'}
ASSEMBLERS = {'_bivariate_uc_uc': 'K_uc_uc', '_bivariate_uc_ur': 'K_uc_ur', '_bivariate_uc_n': 'K_uc_n',
              '_bivariate_ur_uc': 'K_ur_uc', '_bivariate_n_uc': 'K_n_uc'}

def zlit(z):
    return '(%d)%%Z' % z if z < 0 else '%d%%Z' % z

def const(v):
    if isinstance(v, bool):
        raise Untranslatable('bool constant')
    if isinstance(v, int):
        return '(@PR C (of_Z (cN C) %s))' % zlit(v)
    if isinstance(v, float):
        if math.isnan(v) or math.isinf(v):
            raise Untranslatable('non-finite constant')
        n, d = v.as_integer_ratio()
        e = -(d.bit_length() - 1)
        assert d == 1 << (-e)
        return '(@PR C (dyad (cN C) %s %s))' % (zlit(n), zlit(e))
    raise Untranslatable('constant %r' % (v,))

# typed values: ('num', term) | ('jac', term) | ('ureal', rarg-term) | ('rexp', term) | ('self',) | ('other',)
class Body:
    def __init__(self, kind, selfname, othername):
        self.kind = kind                 # 'uc' | 'ur' | 'n' | None (unary)
        self.env = {selfname: ('self',)}
        if othername:
            self.env[othername] = ('other',)
        self.tmp = 0
        self.real_names = set()
        self.allow_muldiv = False

    def fresh(self, base):
        self.tmp += 1
        return '%s_%d' % (base, self.tmp)

    def close(self, prelude, final):
        s = final
        for b in reversed(prelude):
            s = '(%s ;; %s)' % (b, s)
        return s if prelude else '(%s)' % final

    # ---- expressions: (prelude, typed value)
    def expr(self, e):
        if isinstance(e, ast.Constant):
            return [], ('num', const(e.value))
        if isinstance(e, ast.Name):
            if e.id in self.env:
                v = self.env[e.id]
                if v == ('uopd',): return [], ('ureal', 'AOth')
                if v == ('numopd',): return [], ('num', 'o')
                if v == ('other',):
                    if self.kind == 'n': return [], ('num', 'o')
                    if self.kind == 'ur': return [], ('ureal', 'AOth')
                    raise Untranslatable('bare UncertainComplex operand in an expression')
                return [], v
            if e.id in NAMED_CONST:
                return [], ('num', NAMED_CONST[e.id])
            raise Untranslatable('unbound name %s' % e.id)
        if isinstance(e, ast.Attribute):
            p, v = self.expr_obj(e.value)
            a = e.attr
            if v == ('self',):
                if a in ('_value', 'x'): return p, ('num', '(of_c C sv)')
                if a == 'real': return p, ('ureal', 'ASelfRe')
                if a == 'imag': return p, ('ureal', 'ASelfIm')
            elif v == ('other',):
                if self.kind == 'uc':
                    if a in ('_value', 'x'): return p, ('num', 'o')
                    if a == 'real': return p, ('ureal', 'AOthRe')
                    if a == 'imag': return p, ('ureal', 'AOthIm')
                elif self.kind == 'ur':
                    if a == 'x': return p, ('num', 'o')
                elif self.kind == 'n':
                    if a == 'real': return p, ('num', '(@PR C (n_real C o))')
                    if a == 'imag': return p, ('num', '(@PR C (n_imag C o))')
            elif v == ('numopd',):
                if a == 'real': return p, ('num', '(@PR C (n_real C o))')
                if a == 'imag': return p, ('num', '(@PR C (n_imag C o))')
            elif v[0] == 'num':
                if a == 'real': return p, ('num', '(@PR C (n_real C %s))' % v[1])
                if a == 'imag': return p, ('num', '(@PR C (n_imag C %s))' % v[1])
            raise Untranslatable('attribute .%s of %s' % (a, v[0]))
        if isinstance(e, ast.UnaryOp):
            p, v = self.expr(e.operand)
            if v[0] == 'num':
                if isinstance(e.op, ast.USub): return p, ('num', '(n_neg C %s)' % v[1])
                if isinstance(e.op, ast.UAdd): return p, v
            if v[0] == 'ureal':
                if isinstance(e.op, ast.USub): return p, ('rexp', '(RUn U_neg %s)' % v[1])
                if isinstance(e.op, ast.UAdd): return p, ('rexp', '(RUn U_pos %s)' % v[1])
            if v[0] == 'rexp' and self.kind == 'rc':
                if isinstance(e.op, ast.USub): return p, ('rexp', '(RNestUn U_neg %s)' % v[1])
                if isinstance(e.op, ast.UAdd): return p, ('rexp', '(RNestUn U_pos %s)' % v[1])
            raise Untranslatable('unary op on %s' % v[0])
        if isinstance(e, ast.BinOp):
            pl, vl = self.expr(e.left)
            pr, vr = self.expr(e.right)
            p = pl + pr
            if vl[0] == 'num' and vr[0] == 'num':
                tl, tr = vl[1], vr[1]
                if isinstance(e.op, ast.Add):  return p, ('num', '(n_add C %s %s)' % (tl, tr))
                if isinstance(e.op, ast.Sub):  return p, ('num', '(n_sub C %s %s)' % (tl, tr))
                if isinstance(e.op, ast.Mult): return p, ('num', '(n_mul C %s %s)' % (tl, tr))
                if isinstance(e.op, ast.Div):
                    v = self.fresh('q')
                    return p + ['%s <- n_div C %s %s' % (v, tl, tr)], ('num', v)
                if isinstance(e.op, ast.Pow):
                    v = self.fresh('p')
                    return p + ['%s <- n_pow C %s %s' % (v, tl, tr)], ('num', v)
                raise Untranslatable('binary op %s' % type(e.op).__name__)
            if ('ureal' in (vl[0], vr[0]) or vl[0] == 'rexp') and isinstance(e.op, (ast.Add, ast.Sub, ast.Mult, ast.Div)):
                # a call into the uncertain-real kernel: UncertainReal.__add__/__radd__/__sub__/__rsub__/__mul__/...
                def arg(v):
                    if v[0] == 'ureal': return v[1]
                    if v[0] == 'num': return '(ANumV (n_real C %s))' % v[1]
                    raise Untranslatable('operand of a real-kernel call: %s' % v[0])
                if pl or pr:
                    raise Untranslatable('effectful operand of a real-kernel call')
                if vl[0] == 'num' and not self.num_is_real(e.left):
                    raise Untranslatable('possibly complex number operand of a real-kernel call')
                if vr[0] == 'num' and not self.num_is_real(e.right):
                    raise Untranslatable('possibly complex number operand of a real-kernel call')
                f = {ast.Add: 'B_add', ast.Sub: 'B_sub', ast.Mult: 'B_mul', ast.Div: 'B_div'}[type(e.op)]
                if isinstance(e.op, (ast.Mult, ast.Div)) and not self.allow_muldiv:
                    raise Untranslatable('* or / of uncertain reals inside an UncertainComplex method')
                if vl[0] == 'rexp':
                    return [], ('rexp', '(RNest %s %s %s)' % (f, vl[1], arg(vr)))
                return [], ('rexp', '(RBin %s %s %s)' % (f, arg(vl), arg(vr)))
            raise Untranslatable('binary op on %s, %s' % (vl[0], vr[0]))
        if isinstance(e, ast.Call):
            f = e.func
            if e.keywords:
                raise Untranslatable('keyword call')
            if isinstance(f, ast.Name) and f.id == 'complex' and len(e.args) == 1:
                p, v = self.num(e.args[0]); return p, ('num', '(n_complex C %s)' % v)
            if isinstance(f, ast.Name) and f.id == 'abs' and len(e.args) == 1:
                p, v = self.num(e.args[0]); t = self.fresh('a')
                return p + ['%s <- n_abs C %s' % (t, v)], ('num', t)
            if isinstance(f, ast.Name) and f.id == 'z_to_seq' and len(e.args) == 1:
                p, v = self.num(e.args[0]); return p, ('jac', '(z_to_seq C %s)' % v)
            if (isinstance(f, ast.Attribute) and isinstance(f.value, ast.Name) and f.value.id == 'cmath'
                    and f.attr in CMATH and len(e.args) == 1):
                p, v = self.num(e.args[0]); t = self.fresh('m')
                return p + ['%s <- n_cm C C_%s %s' % (t, f.attr, v)], ('num', t)
            if (isinstance(f, ast.Attribute) and f.attr == '_constant' and isinstance(f.value, ast.Name)
                    and f.value.id == 'UncertainReal' and len(e.args) == 1):
                p, v = self.num(e.args[0])
                if p or not self.num_is_real(e.args[0]):
                    raise Untranslatable('argument of UncertainReal._constant')
                return [], ('ureal', '(AConstV (n_real C %s))' % v)
            raise Untranslatable('call %s' % ast.dump(f))
        if isinstance(e, ast.IfExp):
            c = self.test(e.test)
            pa, va = self.num(e.body); pb, vb = self.num(e.orelse)
            t = self.fresh('c')
            return ['%s <- (if %s then %s else %s)' % (t, c, self.close(pa, 'Ok ' + va), self.close(pb, 'Ok ' + vb))], ('num', t)
        raise Untranslatable('expression %s' % type(e).__name__)

    def num_is_real(self, e):
        """syntactically certain to be a float"""
        if isinstance(e, ast.Constant):
            return isinstance(e.value, (int, float)) and not isinstance(e.value, bool)
        if isinstance(e, ast.Attribute) and e.attr in ('real', 'imag'):
            return True
        if isinstance(e, ast.Call) and isinstance(e.func, ast.Name) and e.func.id == 'abs':
            return True
        if isinstance(e, ast.UnaryOp) and isinstance(e.op, (ast.USub, ast.UAdd)):
            return self.num_is_real(e.operand)
        if isinstance(e, ast.BinOp) and isinstance(e.op, (ast.Add, ast.Sub, ast.Mult, ast.Div)):
            return self.num_is_real(e.left) and self.num_is_real(e.right)
        if isinstance(e, ast.BinOp) and isinstance(e.op, ast.Pow):
            # abs(z)**2 : a non-negative float to an integer power
            return (isinstance(e.left, ast.Call) and isinstance(e.left.func, ast.Name) and e.left.func.id == 'abs'
                    and isinstance(e.right, ast.Constant) and isinstance(e.right.value, int))
        if isinstance(e, ast.Name):
            if e.id in self.real_names: return True
            if self.env.get(e.id) == ('other',) and getattr(self, 'other_is_real', False): return True
        return False

    def expr_obj(self, e):
        if isinstance(e, ast.Name) and e.id in self.env and self.env[e.id] in (('self',), ('other',), ('numopd',)):
            return [], self.env[e.id]
        return self.expr(e)

    def num(self, e):
        p, v = self.expr(e)
        if v[0] != 'num':
            raise Untranslatable('number expected, got %s' % v[0])
        return p, v[1]

    def test(self, t):
        if isinstance(t, ast.Compare) and len(t.ops) == 1:
            pl, tl = self.num(t.left); pr, tr = self.num(t.comparators[0])
            if pl or pr:
                raise Untranslatable('effectful comparison operand')
            if isinstance(t.ops[0], ast.Eq):    return '(n_eqb C %s %s)' % (tl, tr)
            if isinstance(t.ops[0], ast.NotEq): return '(negb (n_eqb C %s %s))' % (tl, tr)
        raise Untranslatable('test %s' % ast.dump(t))

    # ---- statements
    def block(self, stmts):
        if not stmts:
            raise Untranslatable('fall off the end of a block')
        s, rest = stmts[0], stmts[1:]
        if isinstance(s, ast.Expr) and isinstance(s.value, ast.Constant) and isinstance(s.value.value, str):
            return self.block(rest)
        if isinstance(s, ast.Assign):
            if len(s.targets) != 1 or not isinstance(s.targets[0], ast.Name):
                raise Untranslatable('assignment target')
            name = s.targets[0].id
            saved = dict(self.env)
            p, v = self.expr_obj(s.value)
            if v in (('self',), ('other',)) or v[0] in ('ureal',):
                if p: raise Untranslatable('effectful alias')
                self.env[name] = v
                body = self.block(rest)
                self.env = saved
                return body
            t = self.fresh(name)
            if v[0] == 'num' and self.num_is_real(s.value): self.real_names.add(name)
            self.env[name] = (v[0], t)
            body = self.block(rest)
            self.env = saved
            return self.close(p, '(let %s := %s in %s)' % (t, v[1], body))
        if isinstance(s, ast.If):
            c = self.test(s.test)
            saved = dict(self.env)
            a = self.block(list(s.body) + list(rest)) if not self.returns(s.body) else self.block(list(s.body))
            self.env = dict(saved)
            b = self.block(list(s.orelse) + list(rest)) if not self.returns(s.orelse) else self.block(list(s.orelse))
            self.env = saved
            return '(if %s then %s else %s)' % (c, a, b)
        if isinstance(s, ast.Try):
            # try: <assignments> except ZeroDivisionError: raise ZeroDivisionError(...)   (same exception class)
            if (len(s.handlers) == 1 and isinstance(s.handlers[0].type, ast.Name) and s.handlers[0].type.id == 'ZeroDivisionError'
                    and len(s.handlers[0].body) == 1 and isinstance(s.handlers[0].body[0], ast.Raise)
                    and isinstance(s.handlers[0].body[0].exc, ast.Call)
                    and isinstance(s.handlers[0].body[0].exc.func, ast.Name)
                    and s.handlers[0].body[0].exc.func.id == 'ZeroDivisionError'
                    and not s.orelse and not s.finalbody
                    and all(isinstance(b, ast.Assign) for b in s.body)):
                # only n_div raises ZeroDivisionError inside; anything else propagates unchanged as well
                return self.block(list(s.body) + list(rest))
            raise Untranslatable('try statement')
        if isinstance(s, ast.Return):
            return self.ret(s.value)
        raise Untranslatable('statement %s' % type(s).__name__)

    def returns(self, stmts):
        return bool(stmts) and isinstance(stmts[-1], ast.Return)

    def is_name(self, e, what):
        return isinstance(e, ast.Name) and self.env.get(e.id) == what

    def ret(self, e):
        if self.is_name(e, ('self',)):
            return '(Ok CSelf)'
        if isinstance(e, ast.UnaryOp) and isinstance(e.op, ast.USub) and self.is_name(e.operand, ('self',)):
            return '(Ok CNegSelf)'
        if isinstance(e, ast.Call) and not e.keywords:
            f = e.func
            if isinstance(f, ast.Name) and f.id == '_univariate_uc' and len(e.args) == 3:
                if not self.is_name(e.args[0], ('self',)):
                    raise Untranslatable('_univariate_uc: first argument is not self')
                pz, z = self.num(e.args[1]); pj, j = self.expr(e.args[2])
                if j[0] != 'jac': raise Untranslatable('_univariate_uc: dz_dx is not a z_to_seq value')
                return self.close(pz + pj, 'Ok (CUni %s %s)' % (z, j[1]))
            if isinstance(f, ast.Name) and f.id in ASSEMBLERS and len(e.args) == 5:
                k = ASSEMBLERS[f.id]
                # operand order: (lhs, rhs) where self is the uc side named by the assembler
                want = {'K_uc_uc': (('self',), ('other',)), 'K_uc_ur': (('self',), ('other',)), 'K_uc_n': (('self',), ('other',)),
                        'K_ur_uc': (('other',), ('self',)), 'K_n_uc': (('other',), ('self',))}[k]
                if not (self.is_name(e.args[0], want[0]) and self.is_name(e.args[1], want[1])):
                    raise Untranslatable('%s: unexpected operand order' % f.id)
                okkind = {'K_uc_uc': 'uc', 'K_uc_ur': 'ur', 'K_uc_n': 'n', 'K_ur_uc': 'ur', 'K_n_uc': 'n'}[k]
                if okkind != self.kind:
                    raise Untranslatable('%s called in the %s branch' % (f.id, self.kind))
                pz, z = self.num(e.args[2]); pl, jl = self.expr(e.args[3]); pr, jr = self.expr(e.args[4])
                if jl[0] != 'jac' or jr[0] != 'jac': raise Untranslatable('%s: derivative is not a z_to_seq value' % f.id)
                return self.close(pz + pl + pr, 'Ok (CBi %s %s %s %s)' % (k, z, jl[1], jr[1]))
            if isinstance(f, ast.Name) and f.id == 'UncertainComplex' and len(e.args) == 2:
                def comp(a):
                    p, v = self.expr(a)
                    if p: raise Untranslatable('effectful component')
                    if v[0] == 'rexp': return v[1]
                    if v[0] == 'ureal' and self.kind == 'rc': return '(RArg %s)' % v[1]
                    raise Untranslatable('UncertainComplex component is not a real-kernel call: %s' % v[0])
                return '(Ok (CPair %s %s))' % (comp(e.args[0]), comp(e.args[1]))
            if isinstance(f, ast.Name) and f.id == 'UncertainReal' and len(e.args) == 4:
                py, y = self.num(e.args[0])
                ws = None
                for a, comp in zip(e.args[1:], ('_u_components', '_d_components', '_i_components')):
                    if not (isinstance(a, ast.Call) and isinstance(a.func, ast.Attribute) and a.func.attr == 'merge_weighted_vectors'
                            and isinstance(a.func.value, ast.Name) and a.func.value.id == 'vector' and len(a.args) == 4):
                        raise Untranslatable('UncertainReal(...): not merge_weighted_vectors')
                    v1, w1, v2, w2 = a.args
                    def isvec(v, which):
                        if not (isinstance(v, ast.Attribute) and v.attr == comp): return False
                        p, o = self.expr(v.value)
                        return o == ('ureal', which)
                    if not (isvec(v1, 'ASelfRe') and isvec(v2, 'ASelfIm')):
                        raise Untranslatable('UncertainReal(...): unexpected vectors')
                    p1, t1 = self.num(w1); p2, t2 = self.num(w2)
                    if p1 or p2: raise Untranslatable('effectful weight')
                    if ws is None: ws = (t1, t2)
                    elif ws != (t1, t2): raise Untranslatable('UncertainReal(...): the three vectors use different weights')
                return self.close(py, 'Ok (CRealMergeW %s %s %s)' % (y, ws[0], ws[1]))
            if (isinstance(f, ast.Attribute) and f.attr == '_atan2' and len(e.args) == 1):
                p1, a = self.expr(f.value); p2, b = self.expr(e.args[0])
                if a == ('ureal', 'ASelfIm') and b == ('ureal', 'ASelfRe'):
                    return '(Ok CPhase)'
                raise Untranslatable('_atan2 call shape')
        if self.kind == 'rc' and isinstance(e, ast.BinOp) and isinstance(e.op, ast.Pow):
            def plus0j(x, what):
                return (isinstance(x, ast.BinOp) and isinstance(x.op, ast.Add) and self.is_name(x.left, what)
                        and isinstance(x.right, ast.Constant) and x.right.value == 0j)
            if plus0j(e.left, ('uopd',)) and self.is_name(e.right, ('numopd',)):
                return '(Ok CPromL)'
            if self.is_name(e.left, ('numopd',)) and plus0j(e.right, ('uopd',)):
                return '(Ok CPromR)'
        raise Untranslatable('return shape %s' % ast.dump(e)[:80])


def isinstance_test(t, name):
    """isinstance(<name>, X) -> 'UncertainComplex' | 'UncertainReal' | 'Real' | 'Complex' | None"""
    if (isinstance(t, ast.Call) and isinstance(t.func, ast.Name) and t.func.id == 'isinstance' and len(t.args) == 2
            and isinstance(t.args[0], ast.Name) and t.args[0].id == name):
        x = t.args[1]
        if isinstance(x, ast.Name) and x.id in ('UncertainComplex', 'UncertainReal'):
            return x.id
        if isinstance(x, ast.Attribute) and isinstance(x.value, ast.Name) and x.value.id == 'numbers' and x.attr in ('Real', 'Complex'):
            return x.attr
    return None

def is_notimplemented(stmts):
    return (len(stmts) == 1 and isinstance(stmts[0], ast.Return) and isinstance(stmts[0].value, ast.Name)
            and stmts[0].value.id == 'NotImplemented')

def compile_binary(fn, gname):
    """fn: ast.FunctionDef of an operator method (self, other) -> {kind: gallina text or Untranslatable}"""
    args = [a.arg for a in fn.args.args]
    if len(args) != 2 or args[0] != 'self':
        raise Untranslatable('signature')
    other = args[1]
    body = [s for s in fn.body if not (isinstance(s, ast.Expr) and isinstance(s.value, ast.Constant))]
    # leading aliases  lhs = self / rhs = self
    aliases = {}
    while body and isinstance(body[0], ast.Assign) and isinstance(body[0].value, ast.Name) and body[0].value.id == 'self':
        aliases[body[0].targets[0].id] = 'self'; body = body[1:]
    if len(body) != 1 or not isinstance(body[0], ast.If):
        raise Untranslatable('operator body is not one isinstance chain')
    chain = []
    node = body[0]
    while True:
        k = isinstance_test(node.test, other)
        if k is None: raise Untranslatable('chain test')
        chain.append((k, node.body))
        if len(node.orelse) == 1 and isinstance(node.orelse[0], ast.If):
            node = node.orelse[0]
        else:
            if not is_notimplemented(node.orelse):
                raise Untranslatable('chain does not end in return NotImplemented')
            break
    kinds = [k for k, _ in chain]
    allowed = [['UncertainComplex', 'UncertainReal', 'Real', 'Complex'], ['UncertainComplex', 'UncertainReal', 'Complex'],
               ['UncertainReal', 'Real', 'Complex'], ['UncertainReal', 'Complex']]
    if kinds not in allowed:
        raise Untranslatable('unexpected isinstance chain %r' % kinds)
    out = {}
    def mk(kind, stmts, other_is_real=False):
        b = Body(kind, 'self', other)
        for a in aliases: b.env[a] = ('self',)
        b.other_is_real = other_is_real
        return b.block(list(stmts))
    for k, stmts in chain:
        if k == 'UncertainComplex': out['uc'] = lambda s=stmts: mk('uc', s)
        if k == 'UncertainReal': out['ur'] = lambda s=stmts: mk('ur', s)
    real = [s for k, s in chain if k == 'Real']
    cplx = [s for k, s in chain if k == 'Complex'][0]
    if real:
        out['n'] = lambda: '(if is_real C o then %s else %s)' % (mk('n', real[0], True), mk('n', cplx))
    else:
        out['n'] = lambda: mk('n', cplx)
    return out

def compile_real_lib(fn, uname, nname):
    """the `isinstance(<nname>, numbers.Complex)` branch of lib._add ... lib._rpow (uname: the UncertainReal
    parameter).  It must come after an isinstance(.., numbers.Real) branch, so the number is a complex."""
    args = [a.arg for a in fn.args.args]
    if args != ['lhs', 'rhs']:
        raise Untranslatable('signature')
    body = [s for s in fn.body if not (isinstance(s, ast.Expr) and isinstance(s.value, ast.Constant))]
    if len(body) != 1 or not isinstance(body[0], ast.If):
        raise Untranslatable('body is not one isinstance chain')
    node = body[0]; seen = []
    while True:
        k = isinstance_test(node.test, nname)
        if k is None: raise Untranslatable('chain test')
        if k == 'Complex':
            if 'Real' not in seen: raise Untranslatable('numbers.Complex branch not preceded by numbers.Real')
            b = Body('rc', '__no_self__', None)
            b.env = {uname: ('uopd',), nname: ('numopd',)}
            b.allow_muldiv = True
            return b.block(list(node.body))
        seen.append(k)
        if len(node.orelse) == 1 and isinstance(node.orelse[0], ast.If):
            node = node.orelse[0]
        else:
            raise Untranslatable('no numbers.Complex branch')

REAL_LIB = [('_add', 'lhs', 'rhs'), ('_radd', 'rhs', 'lhs'), ('_sub', 'lhs', 'rhs'), ('_rsub', 'rhs', 'lhs'),
            ('_mul', 'lhs', 'rhs'), ('_rmul', 'rhs', 'lhs'), ('_div', 'lhs', 'rhs'), ('_rdiv', 'rhs', 'lhs'),
            ('_pow', 'lhs', 'rhs'), ('_rpow', 'rhs', 'lhs')]

def compile_unary(fn):
    args = [a.arg for a in fn.args.args]
    if args != ['self']:
        raise Untranslatable('signature')
    b = Body(None, 'self', None)
    return b.block(list(fn.body))

BINARY = ['__add__', '__radd__', '__sub__', '__rsub__', '__mul__', '__rmul__', '__div__', '__rdiv__', '__pow__', '__rpow__']
UNARY = ['__neg__', '__pos__', 'conjugate', '_exp', '_log', '_log10', '_sqrt', '_sin', '_cos', '_tan', '_asin', '_acos', '_atan',
         '_sinh', '_cosh', '_tanh', '_asinh', '_acosh', '_atanh', '_magnitude', '_mag_squared', '_phase']
# kinds every operator must provide (what CKernel.v refers to)
EXPECT = {'__add__': ['uc', 'ur', 'n'], '__radd__': ['ur', 'n'], '__sub__': ['uc', 'ur', 'n'], '__rsub__': ['ur', 'n'],
          '__mul__': ['uc', 'ur', 'n'], '__rmul__': ['ur', 'n'], '__div__': ['uc', 'ur', 'n'], '__rdiv__': ['ur', 'n'],
          '__pow__': ['uc', 'ur', 'n'], '__rpow__': ['ur', 'n']}

def main(repo, outdir):
    src = open(os.path.join(repo, 'GTC', 'lib.py')).read()
    tree = ast.parse(src)
    cls = [n for n in tree.body if isinstance(n, ast.ClassDef) and n.name == 'UncertainComplex']
    out = ['(* GENERATED by tools/tr_lib_complex.py from GTC/lib.py (class UncertainComplex) -- do not edit *)',
           'From Coq Require Import ZArith Bool.',
           'From GTCV Require Import Num Opres KTypes Cplx COpres.', '']
    missing = []
    methods = {}
    if cls:
        methods = {n.name: n for n in cls[0].body if isinstance(n, ast.FunctionDef)}
    def emit(gname, thunk):
        try:
            body = thunk()
            out.append('Definition %s (C : CNum) (sv : cplx C) (o : pyn C) : res (cres C) :=\n  %s.\n' % (gname, body))
        except Untranslatable as ex:
            out.append('(* ABSENT %s: %s *)\n' % (gname, ex)); missing.append(gname)
    for name in BINARY:
        g = 'gc_' + name.strip('_')
        fn = methods.get(name)
        if fn is None:
            for k in EXPECT[name]:
                out.append('(* ABSENT %s_%s: method not found *)\n' % (g, k)); missing.append('%s_%s' % (g, k))
            continue
        try:
            parts = compile_binary(fn, g)
        except Untranslatable as ex:
            for k in EXPECT[name]:
                out.append('(* ABSENT %s_%s: %s *)\n' % (g, k, ex)); missing.append('%s_%s' % (g, k))
            continue
        for k in EXPECT[name]:
            if k not in parts:
                out.append('(* ABSENT %s_%s: no such branch *)\n' % (g, k)); missing.append('%s_%s' % (g, k))
            else:
                emit('%s_%s' % (g, k), parts[k])
        for k in parts:
            if k not in EXPECT[name]:
                # a branch the model does not know about: fail closed
                out.append('(* UNEXPECTED branch %s_%s *)\nDefinition %s_%s_unexpected_branch : False := I.\n' % (g, k, g, k))
                missing.append('%s_%s(unexpected)' % (g, k))
    for name in UNARY:
        g = 'gc_' + name.strip('_')
        fn = methods.get(name)
        if fn is None:
            out.append('(* ABSENT %s: method not found *)\n' % g); missing.append(g); continue
        emit(g, lambda fn=fn: compile_unary(fn))
    # the complex-number branches of the module-level uncertain-real operators
    funs = {n.name: n for n in tree.body if isinstance(n, ast.FunctionDef)}
    for name, uname, nname in REAL_LIB:
        g = 'gr_' + name.strip('_') + '_c'
        fn = funs.get(name)
        if fn is None:
            out.append('(* ABSENT %s: function not found *)\n' % g); missing.append(g); continue
        emit(g, lambda fn=fn, u=uname, n=nname: compile_real_lib(fn, u, n))
    # __truediv__/__rtruediv__ must simply forward
    for a, b in (('__truediv__', '__div__'), ('__rtruediv__', '__rdiv__')):
        fn = methods.get(a)
        ok = (fn is not None and len(fn.body) == 1 and isinstance(fn.body[0], ast.Return)
              and isinstance(fn.body[0].value, ast.Call) and isinstance(fn.body[0].value.func, ast.Attribute)
              and fn.body[0].value.func.attr == b and isinstance(fn.body[0].value.func.value, ast.Name)
              and fn.body[0].value.func.value.id == 'self' and len(fn.body[0].value.args) == 1)
        if ok:
            out.append('Definition gc_%s_forwards : True := I.\n' % a.strip('_'))
        else:
            out.append('(* ABSENT gc_%s_forwards *)\n' % a.strip('_')); missing.append('gc_%s_forwards' % a.strip('_'))
    os.makedirs(outdir, exist_ok=True)
    path = os.path.join(outdir, 'Gen_lib_complex.v')
    text = '\n'.join(out)
    if not os.path.exists(path) or open(path).read() != text:
        open(path, 'w').write(text)
    return missing

if __name__ == '__main__':
    m = main(sys.argv[1], sys.argv[2])
    if m:
        print('tr_lib_complex: ABSENT: ' + ', '.join(m))
        sys.exit(1)
    print('tr_lib_complex: ok')

"""cgen.py -- program generators for the uncertain-complex kernel correspondence (CKernel.v via
ckernel.CSession) and the reusable entry point

    run_ckernel_corr(rng, profile, name, tier='quick', n=None) -> the dict check.py expects

profiles: 'all' (what C03 runs), 'functions', 'operators', 'random', 'dof' (willink_hall, the real
welch_satterthwaite through complex pairs, UncertainComplex.set_correlation, conjugate and caches,
failing dof() followed by dof()), 'promotion' (uncertain real (op) plain complex number, ** leaving
the reals), 'value' (functions + operators + promotion: what C01 needs), 'history' (dof + random).
Other property modules (C01, C04, C05, C10) call run_ckernel_corr with their own name."""
import math, cmath, random, os, sys, collections, hashlib
from common import *
import ckernel
from ckernel import CSession, CFUNS, CUNOPS, CBINOPS, REAL_RESULT

# ------------------------------------------------------------------ points
E = 2.0 ** -30          # exact small offset from a cut
QUADS = [1.25 + 0.75j, -1.25 + 0.75j, -1.25 - 0.75j, 1.25 - 0.75j, 0.3 + 2.5j, -0.3 + 2.5j, -0.3 - 2.5j, 0.3 - 2.5j,
         3 + 0.125j, -3 + 0.125j, -3 - 0.125j, 3 - 0.125j, 0.0625 + 0.03125j, -0.0625 - 0.03125j]
def cut_points():
    pts = []
    for a in (0.5, 2.0, 7.5):
        for sr in (1, -1):
            for e in (E, -E, 0.0, -0.0):
                pts.append(complex(sr * a, e))      # both sides of the real axis (log sqrt asin acos acosh atanh cuts)
                pts.append(complex(e, sr * a))      # both sides of the imaginary axis (atan asinh cuts)
    return pts
SPECIAL = [0j, complex(0.0, -0.0), complex(-0.0, 0.0), 1 + 0j, -1 + 0j, 1j, -1j, 1e-9 + 1e-9j, 1e3 - 2e3j, 1e200 + 1e200j,
           -2 + 1j, complex(1, E), complex(-1, -E), 710.0 + 1j]
ALL_POINTS = QUADS + cut_points() + SPECIAL

UFORMS = [0.5, (0.5, 0.25), (0.25, 0.0), (0.0, 0.125), (1.0, 0.2, 0.2, 2.0), (0.04, -0.01, -0.01, 0.09), 1.0]

def declare(s, rng, z, kind):
    """declare a complex operand of the given kind with value z; returns the slot naming it"""
    before = set(s.cplx_slots())
    if kind == 'elem':
        s.ucomplex(z, rng.choice(UFORMS[:4] + [1.0]), rng.choice([math.inf, 5.0]), label=rng.choice([None, 7]), indep=True)
    elif kind == 'corr':
        s.ucomplex(z, rng.choice(UFORMS[4:6]), math.inf, indep=rng.random() < 0.5)
    elif kind == 'dep':
        s.ucomplex(z, (0.5, 0.25), math.inf, indep=False)
    elif kind == 'ens':
        s.cmultiple([z, z.conjugate() + 1], [rng.choice(UFORMS[:2] + UFORMS[4:6]), (0.1, 0.2)], rng.choice([4.0, math.inf]))
    elif kind == 'const':
        if rng.random() < 0.5: s.cconstant(z, label=rng.choice([None, 2]))
        else: s.ucomplex(z, 0.0)
    elif kind == 'interm':
        i = declare(s, rng, z * 0.5, 'elem')
        if i is None: return None
        s.cbin('mul', ('c', i), ('n', 2.0))
        j = max(s.cplx_slots())
        s.cresult(j, label=rng.choice([None, 11]))
    new = [i for i in s.cplx_slots() if i not in before]
    if not new: return None
    if kind == 'ens': return new[-2]
    return new[-1]

CKINDS = ['elem', 'corr', 'dep', 'ens', 'interm', 'const']

def observe(s, y, xs, real_y=False):
    """sensitivity / u_component of result y w.r.t. the operands xs"""
    for x in xs:
        s.csens(('r', y) if real_y else ('c', y), x)
        s.cucomp(('r', y) if real_y else ('c', y), x)

def fun_session(rng, ctx, f, pts):
    s = CSession(ctx); s.tag = 'fun:' + f
    for k, z in enumerate(pts):
        kind = CKINDS[(k + len(f)) % len(CKINDS)] if rng.random() < 0.8 else rng.choice(CKINDS)
        i = declare(s, rng, z, kind)
        if i is None: continue
        n0 = len(s.slots)
        s.cun(f, i)
        if s.slots[n0] is None: continue
        xs = [('c', i), ('r', i), ('r', i + 1)]
        observe(s, n0, xs[:2] if rng.random() < 0.5 else xs, real_y=f in REAL_RESULT)
        if rng.random() < 0.3 and f not in REAL_RESULT:
            s.cread(rng.choice(['x', 'u', 'v', 'r']), n0)
    s.heap_ok = s.check_heap(); s.close()
    return s

NUMS = [0, 1, 0.0, 1.0, -0.0, 2, -1, 0.5, 2.5, -3.25, 0j, 1 + 0j, complex(1, -0.0), 1j, 2 - 1j, -0.5 + 0.25j, complex(0.0, 0.0), 3 + 0j]

def operand(s, rng, kind, z):
    """returns an argument descriptor ('c',i) / ('r',i) / ('n',v)"""
    if kind in CKINDS:
        i = declare(s, rng, z, kind)
        return None if i is None else ('c', i)
    if kind == 'ur':
        n0 = len(s.slots); s.ureal(z.real if z.real != 0 or rng.random() < 0.3 else 1.5, rng.choice([0.25, 1.0]), rng.choice([math.inf, 3.0]),
                                   indep=rng.random() < 0.7)
        return ('r', n0)
    if kind == 'urconst':
        n0 = len(s.slots); s.constant(z.real); return ('r', n0)
    if kind == 'urinterm':
        n0 = len(s.slots); s.ureal(z.real, 0.5); s.bin('mul', ('ref', n0), ('num', 1.5)); s.result(n0 + 1)
        return ('r', n0 + 2)
    if kind == 'int': return ('n', rng.choice([0, 1, 2, -1, 3, int(z.real) or 2]))
    if kind == 'float': return ('n', rng.choice([0.0, 1.0, -0.0, 0.5, z.real, z.imag]))
    if kind == 'complex': return ('n', rng.choice([0j, 1 + 0j, 1j, z, z.conjugate(), complex(z.real, 0.0)]))

NKINDS = ['ur', 'urconst', 'urinterm', 'int', 'float', 'complex']

def op_session(rng, ctx, f, pairs):
    s = CSession(ctx); s.tag = 'op:' + f
    for (ka, kb) in pairs:
        za = rng.choice(QUADS + [0j, 1 + 0j, -2 + 1j, 2 + 0j]); zb = rng.choice(QUADS + [0j, 1 + 0j, 1j, 2 + 0j, 0.5 + 0j])
        a = operand(s, rng, ka, za)
        b = a if (ka == kb and rng.random() < 0.15) else operand(s, rng, kb, zb)
        if a is None or b is None: continue
        n0 = len(s.slots)
        s.cbin(f, a, b)
        if s.slots[n0] is None: continue
        xs = [x for x in (a, b) if x[0] != 'n']
        if rng.random() < 0.5: xs += [x if x[0] == 'r' else ('r', x[1] + 1) for x in xs[:1]]
        if rng.random() < 0.2: xs.append(('n', 2.5))
        observe(s, n0, xs)
        if rng.random() < 0.25: s.cread(rng.choice(['x', 'u', 'v', 'r']), n0)
    s.heap_ok = s.check_heap(); s.close()
    return s

def rand_session(rng, ctx, size, malformed=False):
    """a random program mixing complex and real operations, sharing, result(), reads, correlations"""
    s = CSession(ctx); s.tag = 'random'
    for _ in range(rng.randint(1, 3)):
        declare(s, rng, rng.choice(QUADS), rng.choice(CKINDS))
    if rng.random() < 0.7: s.ureal(rng.uniform(-2, 2), rng.choice([0.1, 0.5]), rng.choice([math.inf, 6.0]), indep=rng.random() < 0.6)
    if malformed:
        bad = rng.choice([(complex(math.nan, 1), 1.0, math.inf), (1j, -1.0, math.inf), (1j, (1.0, -2.0), math.inf), (1j, math.inf, math.inf),
                          (1j, math.nan, 3.0), (1j, 1.0, 0.5), (1j, 1.0, math.nan), (1j, (1.0, 0.2, 0.3, 1.0), math.inf),
                          (1j, (1.0, 5.0, 5.0, 1.0), math.inf), (1j, (1.0, 2.0, 3.0), math.inf), (1j, (-1.0, 0.0, 0.0, 1.0), math.inf),
                          (complex(math.inf, 0), 1.0, math.inf), (1j, (0.0, 0.5, 0.5, 1.0), math.inf), (1j, (1.0, math.inf, math.inf, 1.0), 4.0)])
        s.ucomplex(bad[0], bad[1], bad[2])
    def cs(): return s.cplx_slots()
    def rs(): return [i for i, o in enumerate(s.slots) if isinstance(o, s.UR)]
    while len(s.ops) < size:
        c = rng.random(); C = cs()
        if not C: break
        a = rng.choice(C)
        va = s.cobj(a)._value
        if c < 0.28:
            f = rng.choice(CUNOPS)
            if not malformed or rng.random() < 0.6:
                if f in ('exp', 'sinh', 'cosh', 'sin', 'cos', 'tan', 'tanh') and (abs(va.real) > 300 or abs(va.imag) > 300): f = 'conjugate'
                if f in ('log', 'log10', 'magnitude') and va == 0: f = 'pos'
            s.cun(f, a)
        elif c < 0.62:
            f = rng.choice(CBINOPS)
            k = rng.random()
            if k < 0.4: A, B = ('c', a), ('c', rng.choice(C))
            elif k < 0.55 and rs(): A, B = ('c', a), ('r', rng.choice(rs()))
            elif k < 0.7 and rs(): A, B = ('r', rng.choice(rs())), ('c', a)
            elif k < 0.85: A, B = ('c', a), ('n', rng.choice(NUMS))
            else: A, B = ('n', rng.choice(NUMS)), ('c', a)
            if not malformed or rng.random() < 0.6:
                vb = s._val(B)
                if f == 'div' and vb == 0: f = 'add'
                if f == 'pow' and (s._val(A) == 0 or abs(vb) > 8 or abs(s._val(A)) > 50): f = 'mul'
            s.cbin(f, A, B)
        elif c < 0.70:
            s.cresult(a, label=rng.choice([None, rng.randint(10, 19)]))
        elif c < 0.80:
            s.cread(rng.choice(['x', 'u', 'v', 'r', 'df', 'df']), a)
        elif c < 0.86:
            # real reads on the components, correlations between component leaves
            k = rng.random()
            if k < 0.5: s.read(rng.choice(['x', 'u', 'v', 'df']), rng.choice([a, a + 1]))
            else:
                el = [i for i in rs() if s.slots[i].is_elementary and not s.slots[i]._node.independent]
                if len(el) >= 2:
                    x, y = rng.sample(el, 2)
                    s.set_corr(rng.choice([0.5, -0.3, 0.9]), x, y)
                elif len(C) >= 2:
                    s.cset_corr([rng.choice([0.0, 0.2, -0.4]) for _ in range(4)], a, ('c', rng.choice(C)))
        else:
            X = rng.choice(C); k = rng.random()
            y = ('c', a) if k < 0.7 or not rs() else ('r', rng.choice(rs()))
            x = ('c', X) if rng.random() < 0.6 else (('r', rng.choice(rs())) if rs() else ('n', 1j))
            (s.csens if rng.random() < 0.5 else s.cucomp)(y, x)
    C = cs()
    for a in rng.sample(C, min(len(C), 3)):
        s.cread('v', a); s.cread('r', a)
        for X in rng.sample(C, min(len(C), 2)):
            s.cucomp(('c', a), ('c', X))
    s.heap_ok = s.check_heap(); s.close()
    return s

# ------------------------------------------------------------------ degrees of freedom
def _last_c(s):
    return max(s.cplx_slots())

def _rcun(s, f, a):
    """real-valued function of a complex object followed by a df read of the result (if there is one)"""
    n0 = len(s.slots); s.cun(f, a)
    if isinstance(s.slots[n0], s.UR): s.read('df', n0)
    return n0

def _rbin(s, f, a, b):
    """real operation on two slots (if both hold uncertain reals) followed by a df read; returns the result slot"""
    if not (isinstance(s.slots[a], s.UR) and isinstance(s.slots[b], s.UR)): return None
    n0 = len(s.slots); s.bin(f, ('ref', a), ('ref', b)); s.read('df', n0)
    return n0

def dof_session(rng, ctx, variant):
    """willink_hall / welch_satterthwaite through complex pairs / set_correlation / conjugate / caches"""
    s = CSession(ctx); s.tag = 'dof:' + variant
    df1 = rng.choice([3.0, 5.0, 7.5]); df2 = rng.choice([4.0, 9.0])
    def zval(): return rng.choice(QUADS)
    def uf(): return rng.choice([(0.5, 0.25), 0.5, (1.0, 0.2, 0.2, 2.0), (0.04, -0.01, -0.01, 0.09), (0.3, 0.0)])
    def sweep(i):
        s.cread('df', i); s.read('df', i); s.read('df', i + 1); s.cread('v', i)
    if variant == 'indep':
        # independent finite-dof complex inputs (each counted as two W-S terms: known C05 finding), mixed with inf
        s.ucomplex(zval(), uf(), df1); a = _last_c(s)
        s.ucomplex(zval(), uf(), rng.choice([math.inf, df2])); b = _last_c(s)
        s.ureal(1.5, 0.25, rng.choice([math.inf, 6.0])); r = len(s.slots) - 1
        s.cbin(rng.choice(['mul', 'add', 'div']), ('c', a), ('c', b)); c = _last_c(s); sweep(c)
        s.cbin('mul', ('c', c), ('r', r)); d = _last_c(s); sweep(d)
        s.cun(rng.choice(['exp', 'sqrt', 'conjugate']), d); sweep(_last_c(s))
        _rcun(s, 'magnitude', d)
        n0 = _rbin(s, 'mul', a, a + 1)       # z.real * z.imag
        n0 = _rbin(s, 'add', a, b + 1)
        sweep(a); sweep(c)                                                                    # again: caches
    elif variant == 'ensemble':
        n = rng.randint(2, 3)
        s.cmultiple([zval() for _ in range(n)], [uf() for _ in range(n)], df1)
        C = s.cplx_slots()[-n:]
        rr = [0.1, 0.35, -0.2, 0.05]; rng.shuffle(rr)
        s.cset_corr(rr, C[0], ('c', C[-1]))                     # four DIFFERENT coefficients: which pair gets which
        for _ in range(rng.randint(0, 2)):
            x, y = rng.sample(C, 2) if n > 1 else (C[0], C[0])
            k = rng.random()
            if k < 0.5: s.cset_corr([rng.choice([0.0, 0.3, -0.2, 0.5]) for _ in range(4)], x, ('c', y))
            elif k < 0.8: s.set_corr(rng.choice([0.4, -0.6]), x + rng.randint(0, 1), y + rng.randint(0, 1))
            else: s.cset_corr(rng.choice([0.5, -0.25]), x, None)
        s.cbin(rng.choice(['mul', 'add', 'sub']), ('c', C[0]), ('c', C[-1])); c = _last_c(s); sweep(c)
        s.ucomplex(zval(), uf(), rng.choice([math.inf, df2]), indep=rng.random() < 0.5); e = _last_c(s)
        s.cbin('mul', ('c', c), ('c', e)); d = _last_c(s); sweep(d)
        _rcun(s, rng.choice(['magnitude', 'mag_squared', 'phase']), d)
        n0 = _rbin(s, 'add', C[0], C[-1] + 1)   # components of two members
        n0 = _rbin(s, 'mul', C[0], C[0] + 1)    # both components of one member
        if n0 is not None: _rbin(s, 'add', n0, e)
        for i in C: s.cread('df', i)
    elif variant == 'partial':
        # one component only of a dependent finite-dof complex input, alone / followed by another dependent leaf
        dfz = rng.choice([5.0, math.inf])
        s.ucomplex(zval(), (1.0, 0.5), dfz, indep=False); z = _last_c(s)
        which = rng.choice([0, 1])
        k = rng.random()
        if k < 0.35:
            s.cbin('mul', ('r', z + which), ('n', 1 + 2j)); sweep(_last_c(s))
        elif k < 0.7:
            if rng.random() < 0.5: s.ureal(1.0, 0.3, math.inf, indep=False); a = len(s.slots) - 1
            else: s.multiple([1.0, 2.0], [1.0, 0.5], rng.choice([7.0, dfz if dfz != math.inf else 7.0])); a = len(s.slots) - 2
            n0 = _rbin(s, 'add', z + which, a)
            if n0 is not None: s.cbin('mul', ('r', n0), ('n', 1 + 2j)); sweep(_last_c(s))
        else:
            s.ucomplex(zval(), (0.5, 0.5), dfz, indep=False); z2 = _last_c(s)
            n0 = _rbin(s, 'add', z + which, z2 + rng.choice([0, 1]))
            s.cbin('add', ('c', z2), ('r', z + which)); sweep(_last_c(s))
        # a failing (or not) dof() followed by dof() on an unrelated complex number
        s.ucomplex(2 + 1j, (0.5, 0.25), 7.0); u = _last_c(s)
        s.cun('exp', u); e = _last_c(s); s.cread('df', e)
        s.cread('df', _last_c(s) if rng.random() < 0.3 else e)
    elif variant == 'failthen':
        # a dof() that raises AFTER it has accumulated finite-dof terms, then dof() of unrelated numbers
        s.ucomplex(zval(), (0.5, 0.25), rng.choice([4.0, 6.0])); q = _last_c(s)          # independent, finite dof
        if rng.random() < 0.5:
            s.ucomplex(zval(), (1.0, 0.5), 5.0, indep=False); z = _last_c(s)
            s.cbin('mul', ('r', z + rng.choice([0, 1])), ('n', 1 + 2j)); w = _last_c(s)   # one component only: IndexError
        else:
            s.multiple([1.0, 2.0], [1.0, 0.5], 5.0); a = len(s.slots) - 2
            s.cbin('mul', ('n', 1j), ('r', a + 1)); c1 = _last_c(s)
            s.cbin('add', ('r', a), ('c', c1)); w = _last_c(s)                             # real ensemble: AssertionError
        s.cbin('mul', ('c', w), ('c', q)); wq = _last_c(s)
        s.cread('df', wq)
        s.ucomplex(2 + 1j, (0.5, 0.25), 7.0); u = _last_c(s)
        s.cun('exp', u); e = _last_c(s); s.cread('df', e)
        s.cbin('mul', ('c', q), ('c', u)); s.cread('df', _last_c(s))
        s.cread('df', wq); s.cread('df', e)
    elif variant == 'getset':
        # the single-argument forms get_correlation(z) / get_covariance(z) / set_correlation(r, z) of an elementary
        # ucomplex, interleaved in every order with the reads that fill caches (z.r, z.u, z.v, z.df = what repr(z) reads)
        k = rng.random()
        if k < 0.4: s.ucomplex(zval(), (0.5, 0.25), math.inf, indep=False); z = _last_c(s)
        elif k < 0.6: s.ucomplex(zval(), rng.choice([(1.0, 0.2, 0.2, 2.0), (0.04, -0.01, -0.01, 0.09)]), rng.choice([math.inf, df1])); z = _last_c(s)
        elif k < 0.8: s.cmultiple([zval(), zval()], [(0.5, 0.25), (0.1, 0.2)], df1); z = _last_c(s) - 2
        else: s.ucomplex(zval(), (0.5, 0.25), rng.choice([math.inf, df1])); z = _last_c(s)          # independent: set raises
        s.ucomplex(zval(), (0.3, 0.6), math.inf, indep=False); w = _last_c(s)
        acts = [lambda: s.cread('r', z), lambda: s.cread('u', z), lambda: s.cread('v', z), lambda: s.cread('df', z),
                lambda: s.cget_corr(z), lambda: s.cget_corr(z, cov=True),
                lambda: s.cset_corr(rng.choice([0.5, -0.25, 0.125, 0.3, 1.0, -1.0, 0.0]), z, None)]
        order = list(range(len(acts))); rng.shuffle(order)
        for i in order: acts[i]()
        s.cget_corr(z); s.cget_corr(z, cov=True)
        s.cset_corr(rng.choice([0.7, -0.6, 0.2]), z, None)
        s.cget_corr(z); s.cget_corr(z, cov=True); s.cread('r', z); s.cread('v', z); s.read('u', z); s.get_corr(z, z + 1); s.get_cov(z, z + 1)
        # two-argument forms, and results that depend on z
        s.cset_corr([0.1, 0.35, -0.2, 0.05], z, ('c', w))
        for b in (('c', w), ('c', z), ('r', w), ('r', z + 1), ('n', 1j)):
            s.cget_corr(z, b, cov=rng.random() < 0.5); s.cget_corr(w, b, cov=rng.random() < 0.5)
        s.cbin('mul', ('c', z), ('c', w)); c = _last_c(s)
        acts2 = [lambda: s.cget_corr(c), lambda: s.cget_corr(c, cov=True), lambda: s.cread('r', c), lambda: s.cread('v', c),
                 lambda: s.cget_corr(c, ('c', z)), lambda: s.cget_corr(c, ('r', z), cov=True), lambda: s.cset_corr(0.4, w, None)]
        rng.shuffle(acts2)
        for a2 in acts2: a2()
        s.cget_corr(c); s.cget_corr(c, cov=True)
    elif variant == 'realens':
        # complex results built from members of a finite-dof REAL ensemble (known C05 finding) and from dependent reals
        s.multiple([1.0, 2.0, 0.5], [1.0, 0.5, 0.25], rng.choice([5.0, math.inf])); a = len(s.slots) - 3
        if rng.random() < 0.5: s.set_corr(0.4, a, a + 1)
        s.cbin('mul', ('n', 1j), ('r', a + 1)); c1 = _last_c(s)
        s.cbin('add', ('r', a), ('c', c1)); c2 = _last_c(s); sweep(c2)
        s.cbin('mul', ('r', a + 2), ('n', 2 + 1j)); sweep(_last_c(s))
        s.ucomplex(1 + 1j, 0.5, 6.0); u = _last_c(s); s.cun('sin', u); s.cread('df', _last_c(s))
    elif variant == 'setcorr':
        # the guards of UncertainComplex.set_correlation: every branch
        s.ucomplex(zval(), (0.5, 0.25), math.inf, indep=False); a = _last_c(s)
        s.ucomplex(zval(), (0.5, 0.25), math.inf, indep=False); b = _last_c(s)
        s.ucomplex(zval(), (0.5, 0.25), df1, indep=False); f = _last_c(s)
        s.ucomplex(zval(), (0.5, 0.25), math.inf, indep=True); i = _last_c(s)
        s.cmultiple([zval(), zval()], [(0.5, 0.25), (0.1, 0.2)], df1); e2 = _last_c(s); e1 = e2 - 2
        s.cconstant(1 + 1j); k = _last_c(s)
        s.cbin('mul', ('c', a), ('n', 2.0)); t = _last_c(s)
        s.ureal(1.0, 0.5, math.inf, indep=False); r = len(s.slots) - 1
        R = lambda: [rng.choice([0.1, -0.2, 0.3, 0.0, 0.45]) for _ in range(4)]
        trials = [(R(), a, ('c', b)), (R(), e1, ('c', e2)), (R(), a, ('c', f)), (R(), f, ('c', a)), (R(), f, ('c', e1)),
                  (R(), e1, ('c', f)), (R(), a, ('c', i)), (R(), i, ('c', a)), (R(), a, ('c', k)), (R(), k, ('c', a)),
                  (R(), a, ('c', t)), (R(), t, ('c', a)), (R(), a, ('r', r)), (0.5, a, ('c', b)), ([0.1, 0.2], a, ('c', b)),
                  ([0.0, 0.0, 0.0, 0.0], a, ('c', b)), (0.3, a, None), (0.0, a, None), (0.3, i, None), (0.3, f, None),
                  ([0.1, 1.5, 0.2, 0.3], a, ('c', b)), (R(), a, ('n', 1j)), (0.7, e1, None), (R(), a, ('c', a)),
                  ([1.0, 0.2, 0.2, 1.0], b, ('c', b)), (0.3, t, None), (0.3, k, None)]
        first = trials[:3]; trials = trials[3:]
        for t3 in first: t3[0][:] = rng.sample([0.1, 0.35, -0.2, 0.05], 4)
        rng.shuffle(trials)
        for rr, x, y in first + trials[:rng.randint(8, 15)]:
            s.cset_corr(rr, x, y)
        s.cbin('mul', ('c', a), ('c', b)); c = _last_c(s); sweep(c)
        s.cbin('mul', ('c', e1), ('c', e2)); sweep(_last_c(s))
        s.cbin('mul', ('c', a), ('c', f)); sweep(_last_c(s))
        for x in (a, b, f, e1):
            s.cread('v', x); s.cread('r', x)
    elif variant == 'conj':
        # conjugate() is a NEW object: cached _u/_v/_r of the operand must not travel
        s.ucomplex(zval(), rng.choice([(1.0, 0.2, 0.2, 2.0), (0.04, -0.01, -0.01, 0.09)]), rng.choice([math.inf, df1])); a = _last_c(s)
        s.ucomplex(zval(), (0.5, 0.25), math.inf); b = _last_c(s)
        s.cbin('mul', ('c', a), ('c', b)); c = _last_c(s)
        for x in (a, c):
            for at in ('u', 'v', 'r', 'df'): s.cread(at, x)
            s.cun('conjugate', x); y = _last_c(s)
            for at in rng.sample(['v', 'r', 'u', 'df'], 4): s.cread(at, y)
            s.cun(rng.choice(['neg', 'pos']), x); y = _last_c(s)
            s.cread('v', y); s.cread('r', y)
        s.cset_corr(0.5, a, None) if False else None
    elif variant == 'resultdf':
        # dof of a complex result before and after result(): circular finite-dof inputs (equal real / imaginary dofs of
        # every derived number), combined by + - * / and scaled by real / complex numbers, plus non-circular controls; the
        # declared intermediate is read, used again, and the operand is re-read (the node buffers u and dof per component)
        circ = rng.random() < 0.7
        def cin(df):
            u = rng.choice([0.5, 0.25, 1.0]) if circ else rng.choice([(0.5, 0.25), (1.0, 0.2, 0.2, 2.0), (0.04, -0.01, -0.01, 0.09)])
            s.ucomplex(zval(), u, df, indep=rng.random() < 0.8); return _last_c(s)
        a = cin(df1); b = cin(rng.choice([df2, df1, math.inf]))
        k = rng.random()
        if k < 0.45: s.cbin(rng.choice(['mul', 'add', 'sub', 'div']), ('c', a), ('c', b))
        elif k < 0.7: s.cbin('mul', ('n', rng.choice([2.5, 1 + 2j, -0.5j, 3 + 0j])), ('c', a))
        elif k < 0.85: s.cbin(rng.choice(['div', 'mul']), ('c', a), ('n', rng.choice([2.0, 1 - 1j])))
        else: s.cun(rng.choice(['exp', 'conjugate', 'sqrt']), a)
        y = _last_c(s)
        if rng.random() < 0.5: s.cread('df', y)
        s.cresult(y, rng.choice([None, 7])); r = _last_c(s)
        s.cread('df', r); s.cread('df', y); s.read('df', r); s.read('df', r + 1); s.cread('v', r)
        s.cbin('mul', ('c', r), ('n', rng.choice([2.0, 1 + 1j]))); sweep(_last_c(s))
        s.cbin('add', ('c', r), ('c', b)); sweep(_last_c(s))
        s.cresult(r, None); s.cread('df', _last_c(s))
    s.heap_ok = s.check_heap(); s.close()
    return s

DOF_VARIANTS = ['indep', 'ensemble', 'partial', 'failthen', 'realens', 'setcorr', 'getset', 'conj', 'resultdf']

# ------------------------------------------------------------------ uncertain real (op) plain complex number
CLITS = [1 + 0j, 0j, 1j, 2 + 1j, complex(0.0, -0.0), complex(1.0, -0.0), -1j, 0.5 - 2j, 3 + 0j, complex(-0.0, 0.0)]
UROLES = ['elem', 'dep', 'interm', 'const', 'temp', 'ensdep']

def ureal_role(s, rng, role, x):
    n0 = len(s.slots)
    if role == 'elem': s.ureal(x, 0.5, rng.choice([math.inf, 4.0])); return n0
    if role == 'dep': s.ureal(x, 0.25, math.inf, indep=False); return n0
    if role == 'ensdep': s.multiple([x, x + 1], [0.5, 0.25], 5.0); return n0
    if role == 'const': s.constant(x); return n0
    s.ureal(x, 0.5); s.bin('mul', ('ref', n0), ('num', 1.5))
    if role == 'temp': return n0 + 1
    s.result(n0 + 1, label=rng.choice([None, 12])); return n0 + 2      # interm

def promo_session(rng, ctx, f, roles):
    s = CSession(ctx); s.tag = 'promo:' + f
    for role in roles:
        x = rng.choice([2.0, -1.5, 0.5, 1.0, 0.0]) if f != 'div' else rng.choice([2.0, -1.5, 0.5])
        i = ureal_role(s, rng, role, x)
        # the literals that hit the identity shortcuts of this operator (== 0.0 for + -, == 1.0 for * / **) ALWAYS,
        # for every role on both sides; the others sampled
        ident = [0j, complex(0.0, -0.0), complex(-0.0, 0.0)] if f in ('add', 'sub') else [1 + 0j, complex(1.0, -0.0)]
        lits = [c for c in CLITS if c not in ident]; rng.shuffle(lits)
        seen_l = []
        for c in ident + lits[:4]:
            if any(c == d and math.copysign(1, c.real) == math.copysign(1, d.real) and math.copysign(1, c.imag) == math.copysign(1, d.imag) for d in seen_l): continue
            seen_l.append(c)
            for A, B in ((('r', i), ('n', c)), (('n', c), ('r', i))):
                n0 = len(s.slots)
                s.cbin(f, A, B)
                if s.slots[n0] is not None and isinstance(s.slots[n0], s.UR) and s.cobj(n0) is not None:
                    if rng.random() < 0.5:
                        s.csens(('c', n0), ('r', i)); s.cucomp(('c', n0), ('r', i))
                    if rng.random() < 0.15: s.cread(rng.choice(['x', 'u', 'v', 'df']), n0)
                    # result() of EVERY promoted value must be transparent (its components are new objects whatever the
                    # role of the real operand), and the declared value keeps its components
                    n1 = len(s.slots); s.cresult(n0, label=rng.choice([None, None, 41]))
                    if isinstance(s.slots[n1], s.UR) and s.cobj(n1) is not None:
                        s.cucomp(('c', n1), ('r', i))
                        if rng.random() < 0.3: s.csens(('c', n1), ('c', n0))
    # ** leaving the reals (negative base, fractional exponent): the (lhs+0j)**rhs fall-backs
    if f == 'pow':
        s.ureal(-2.0, 0.5); a = len(s.slots) - 1
        s.ureal(0.5, 0.1); b = len(s.slots) - 1
        for A, B in ((('r', a), ('n', 0.5)), (('r', a), ('r', b)), (('n', -2.0), ('r', b)), (('n', -2), ('r', b)), (('r', a), ('n', 2)),
                     (('r', b), ('n', 0.5)), (('r', a), ('n', 1 + 0j)), (('n', 0.0), ('r', b)), (('r', a), ('n', -1.5))):
            n0 = len(s.slots); s.cbin('pow', A, B)
            if s.cobj(n0) is not None and isinstance(s.slots[n0], s.UR):
                s.csens(('c', n0), ('r', a)); s.cucomp(('c', n0), ('r', b))
                n1 = len(s.slots); s.cresult(n0)
                if isinstance(s.slots[n1], s.UR) and s.cobj(n1) is not None: s.cucomp(('c', n1), ('r', a))
    # exact zero on the left of an uncertain complex
    s.ucomplex(rng.choice(QUADS), (0.5, 0.25)); z = max(s.cplx_slots())
    for c in (0, 0.0, -0.0, 0j, 1, 1.0, 1 + 0j):
        s.cbin(f, ('n', c), ('c', z)); n0 = max(s.cplx_slots())
        s.cucomp(('c', n0), ('c', z))
    s.heap_ok = s.check_heap(); s.close()
    return s

# ------------------------------------------------------------------ complex numbers ASSEMBLED from uncertain reals
# Z = A + c*B (A, B uncertain reals of different roles, c imaginary), A + 0j, A*(2+1j), ucomplex + A, ...: the two
# components then carry DIFFERENT u / d / i key sets (one may be empty), unlike anything built from ucomplex().
AROLES = ['elem', 'dep', 'ensdep', 'interm', 'interm2', 'const', 'temp']

def areal(s, rng, role, x):
    """an uncertain real of the given role with value x; returns its slot"""
    if role != 'interm2': return ureal_role(s, rng, role, x)
    # an intermediate that depends on an elementary input and on ANOTHER intermediate
    n0 = len(s.slots)
    s.ureal(x - 0.25, 0.03, rng.choice([math.inf, 6.0]), indep=rng.random() < 0.7)
    s.ureal(0.5, 0.04); s.bin('mul', ('ref', n0 + 1), ('num', 0.5)); s.result(n0 + 2, label=rng.choice([None, 21]))
    s.bin('add', ('ref', n0), ('ref', n0 + 3)); s.result(n0 + 4, label=rng.choice([None, 22]))
    return n0 + 5

ASM_FORMS = ['a+cj*b', 'b*cj+a', 'a+0j', 'a*(c)', 'uc+a', 'a-uc', 'cj*b']

def assemble(s, rng, form, a, b):
    """build a complex object from the reals in slots a (-> real part) and b (-> imaginary part); returns its slot"""
    before = set(s.cplx_slots())
    cj = rng.choice([2j, 0.5j, -1.5j, 1j])
    def last():
        new = [i for i in s.cplx_slots() if i not in before]
        return new[-1] if new else None
    if form == 'a+cj*b':
        s.cbin('mul', ('n', cj), ('r', b)); t = last()
        if t is not None: s.cbin('add', ('r', a), ('c', t))
    elif form == 'b*cj+a':
        s.cbin('mul', ('r', b), ('n', cj)); t = last()
        if t is not None: s.cbin(rng.choice(['add', 'sub']), ('c', t), ('r', a))
    elif form == 'a+0j':
        s.cbin(rng.choice(['add', 'sub']), ('r', a), ('n', rng.choice([0j, 2j, 0.5 + 0j])))
    elif form == 'a*(c)':
        s.cbin(rng.choice(['mul', 'div']), ('r', a), ('n', rng.choice([2 + 1j, 0.5 - 2j, 3 + 0j])))
    elif form == 'uc+a':
        s.ucomplex(rng.choice(QUADS), (0.5, 0.25), indep=rng.random() < 0.7); t = last()
        if t is not None: s.cbin(rng.choice(['add', 'mul']), ('c', t), ('r', a))
    elif form == 'a-uc':
        s.ucomplex(rng.choice(QUADS), (0.5, 0.25)); t = last()
        if t is not None: s.cbin(rng.choice(['sub', 'div']), ('r', a), ('c', t))
    elif form == 'cj*b':
        s.cbin('mul', ('n', cj), ('r', b))
    z = last()
    if z is not None and rng.random() < 0.15:
        s.cresult(z, label=rng.choice([None, 31])); z = last()
    return z

def _inputs(s, upto):
    """slots (first occurrence) of the elementary / intermediate / constant uncertain reals declared so far"""
    seen = set(); out = []
    for i in range(upto):
        o = s.slots[i]
        if isinstance(o, s.UR) and id(o) not in seen and (o.is_elementary or o.is_intermediate or s.lib._is_uncertain_real_constant(o)):
            seen.add(id(o)); out.append(i)
    return out

def _query(s, rng, y, ins, real_y=False, cins=(), full=False):
    """sensitivity and u_component of result y w.r.t. the declared real inputs: every INTERMEDIATE one, and (unless
    full) a sample of the elementary / constant ones"""
    if not full:
        inter = [i for i in ins if s.slots[i].is_intermediate]
        rest = [i for i in ins if not s.slots[i].is_intermediate]
        ins = inter + rng.sample(rest, min(len(rest), 2))
    for x in ins:
        both = full or rng.random() < 0.5
        if real_y:
            s.sens(y, x)
            if both: s.ucomp(y, x)
        else:
            if both or rng.random() < 0.5: s.csens(('c', y), ('r', x))
            if both or rng.random() < 0.7: s.cucomp(('c', y), ('r', x))
    for x in cins:
        if real_y:
            s.csens(('r', y), ('c', x))
        else:
            s.cucomp(('c', y), ('c', x))

def asm_un_session(rng, ctx, ra, rb, form, funs):
    s = CSession(ctx); s.tag = 'asm:un'
    xa, xb = rng.choice([(0.65, -0.9), (-0.4, 0.7), (1.3, 0.45), (-0.8, -0.35)])
    a = areal(s, rng, ra, xa); b = areal(s, rng, rb, xb)
    z = assemble(s, rng, form, a, b)
    if z is not None:
        ins = _inputs(s, len(s.slots))
        cins = [i for i in s.cplx_slots() if i != z and (s.cobj(i).real.is_elementary or s.cobj(i).real.is_intermediate)][:1]
        _query(s, rng, z, ins, cins=cins, full=True)
        for f in funs:
            n0 = len(s.slots); s.cun(f, z)
            if not isinstance(s.slots[n0], s.UR): continue
            _query(s, rng, n0, ins, real_y=f in REAL_RESULT, cins=cins)
            if rng.random() < 0.2 and f not in REAL_RESULT:
                # a second step: the chain goes on through the assembled structure
                n1 = len(s.slots); s.cun(rng.choice(['exp', 'conjugate', 'sqrt']), n0)
                if isinstance(s.slots[n1], s.UR): _query(s, rng, n1, ins)
    s.heap_ok = s.check_heap(); s.close()
    return s

def asm_bin_session(rng, ctx, roles, forms):
    """binary operators on assembled operands: both operands assembled with DIFFERENT intermediate sets, or an
    assembled operand with an elementary ucomplex / an intermediate ureal / a number, either side"""
    s = CSession(ctx); s.tag = 'asm:bin'
    Z = []
    for (ra, rb), form in zip(roles, forms):
        a = areal(s, rng, ra, rng.choice([0.65, -0.4, 1.3])); b = areal(s, rng, rb, rng.choice([-0.9, 0.7, 0.45]))
        z = assemble(s, rng, form, a, b)
        if z is not None: Z.append(z)
    s.ucomplex(rng.choice(QUADS), (0.5, 0.25)); e = max(s.cplx_slots())
    r = areal(s, rng, rng.choice(['interm', 'interm2', 'elem']), 1.5)
    ins = _inputs(s, len(s.slots))
    cins = [e]
    for f in CBINOPS:
        pairs = []
        if len(Z) >= 2: pairs += [(('c', Z[0]), ('c', Z[1])), (('c', Z[1]), ('c', Z[0]))]
        for z in Z[:2]:
            pairs += [(('c', z), ('c', e)), (('c', e), ('c', z)), (('c', z), ('r', r)), (('r', r), ('c', z)),
                      (('c', z), ('n', rng.choice([2, 0.5, 2 - 1j, 1j]))), (('n', rng.choice([2, 0.5, 2 - 1j, 1j])), ('c', z)),
                      (('c', z), ('c', z))]
        rng.shuffle(pairs)
        for A, B in pairs[:6]:
            n0 = len(s.slots); s.cbin(f, A, B)
            if isinstance(s.slots[n0], s.UR) and s.cobj(n0) is not None:
                _query(s, rng, n0, ins, cins=cins)
    s.heap_ok = s.check_heap(); s.close()
    return s

def asm_sessions(rng, nxt, scale=1):
    out = []
    # unary: every function behind every (real-part role, imaginary-part role) class, forms rotating
    pairs = [(a, b) for a in AROLES for b in AROLES]
    rng.shuffle(pairs)
    funs = list(CUNOPS)
    must = [('interm', 'elem'), ('elem', 'interm'), ('interm', 'interm2'), ('interm2', 'const'), ('const', 'interm'),
            ('dep', 'interm'), ('interm', 'ensdep'), ('temp', 'interm2')]
    chosen = must + [p for p in pairs if p not in must][:4 * scale]
    for k, (ra, rb) in enumerate(chosen):
        form = ASM_FORMS[k % 2] if k < len(must) else rng.choice(ASM_FORMS)
        rng.shuffle(funs)
        out.append(asm_un_session(rng, nxt(), ra, rb, form, list(funs) if k < len(must) else funs[:11]))
    for k in range(4 * scale):
        roles = [(rng.choice(AROLES), rng.choice(AROLES)) for _ in range(2)]
        if k % 2 == 0: roles[0] = ('interm', 'elem'); roles[1] = ('elem', 'interm2')
        out.append(asm_bin_session(rng, nxt(), roles, [rng.choice(ASM_FORMS[:2]), rng.choice(ASM_FORMS)]))
    return out

# ------------------------------------------------------------------ directed family: declaration ORDER of influences
# An operand W whose real and imaginary component vectors have chosen key patterns: tokens declared in sequence order
#   S  a real leaf shared by both parts      (W += cj*a : weight 0 in Re W, cj.imag in Im W)
#   R  a real leaf of the real part only      (W += r)
#   P  a complex pair: Re-only and Im-only key, adjacent   (W +-= z)
#   Q  a complex pair that belongs to a SECOND operand V = sum(cj*S) + sum(Q)
# in each of the three vector kinds: u (independent leaves), d (dependent leaves), i (declared intermediates), or mixed.
# E.g. S P S gives Re W ~ (a, re z, d), Im W ~ (a, im z, d): same length, same first and last key, different in between.
import itertools
ORD_KINDS = ['u', 'd', 'i', 'm']

def ord_sequences(maxlen=3, alphabet='SRP'):
    out = []
    for n in range(1, maxlen + 1):
        out += [''.join(t) for t in itertools.product(alphabet, repeat=n)]
    return out

def _ord_leaf(s, rng, tok, kind, k):
    """declare the leaf of one token; returns ('r'|'c', slot)"""
    kd = rng.choice(['u', 'd', 'i']) if kind == 'm' else kind
    x = [0.5, -0.75, 1.25, 2.0, -1.5][k % 5]
    if tok in 'SR':
        n0 = len(s.slots)
        if kd == 'u': s.ureal(x, 0.1 * (k + 1)); return ('r', n0)
        if kd == 'd': s.ureal(x, 0.1 * (k + 1), math.inf, indep=False); return ('r', n0)
        s.ureal(x, 0.1 * (k + 1)); s.bin('mul', ('ref', n0), ('num', 1.5)); s.result(n0 + 1); return ('r', n0 + 2)
    z = complex(x, 3.0 - k)
    before = set(s.cplx_slots())
    if kd == 'u': s.ucomplex(z, (0.2, 0.3))
    elif kd == 'd': s.ucomplex(z, (0.2, 0.3), math.inf, indep=False)
    else:
        s.ucomplex(z, (0.2, 0.3)); z0 = max(s.cplx_slots())
        s.cbin('mul', ('c', z0), ('n', 2.0)); s.cresult(max(s.cplx_slots()))
    return ('c', max(i for i in s.cplx_slots() if i not in before))

def _ord_build(s, rng, leaves, toks, own):
    """fold the tokens into one complex operand: shared S leaves, plus the tokens in `own`"""
    W = None
    def lastc(before):
        new = [i for i in s.cplx_slots() if i not in before]
        return new[-1] if new else None
    for tok, lf in zip(toks, leaves):
        if tok != 'S' and tok not in own: continue
        before = set(s.cplx_slots())
        if tok == 'S':
            cj = rng.choice([2j, 0.5j, -1.5j]) if (isinstance(s.slots[lf[1]], s.UR) and s.slots[lf[1]].is_intermediate) else rng.choice([1j, 2j, -1.5j])
            s.cbin('mul', ('n', cj), lf) if rng.random() < 0.5 else s.cbin('mul', lf, ('n', cj))
            t = lastc(before)
            if t is None: continue
            term = ('c', t)
        else:
            term = lf
        if W is None:
            if term[0] == 'c': W = term[1]
            else:
                before = set(s.cplx_slots()); s.cbin('add', term, ('n', 0j)); W = lastc(before)
            continue
        before = set(s.cplx_slots())
        f = 'add' if tok != 'P' or rng.random() < 0.6 else 'sub'
        if rng.random() < 0.5 or f == 'sub': s.cbin(f, ('c', W), term)
        else: s.cbin(f, term, ('c', W))
        w2 = lastc(before)
        if w2 is not None: W = w2
    return W

def ord_session(rng, ctx, seqs, kinds, two=False):
    s = CSession(ctx); s.tag = 'order'
    for toks, kind in zip(seqs, kinds):
        leaves = [_ord_leaf(s, rng, t, kind, k) for k, t in enumerate(toks)]
        W = _ord_build(s, rng, leaves, toks, 'RP')
        if W is None: continue
        V = _ord_build(s, rng, leaves, toks, 'Q') if two else None
        ins = []
        for lf in leaves:
            if lf not in ins: ins.append(lf)
        def q(y, real_y=False):
            for x in ins:
                Y = ('r', y) if real_y else ('c', y)
                s.csens(Y, x) if rng.random() < 0.5 else None
                s.cucomp(Y, x)
        q(W)
        k = rng.choice([2 + 1j, -0.7 + 1.9j, 0.5 - 2j])
        ops = [('mul', ('c', W), ('n', k)), ('mul', ('n', k), ('c', W)), ('div', ('c', W), ('n', k)), ('div', ('n', k), ('c', W)),
               ('pow', ('c', W), ('n', 2)), ('mul', ('c', W), ('c', W)), ('mul', ('c', W), ('n', 2.5)), ('sub', ('n', 1j), ('c', W))]
        P = [lf for lf, t in zip(leaves, toks) if t == 'P']
        if P: ops += [('mul', ('c', W), P[0]), ('div', P[-1], ('c', W))]
        Rr = [lf for lf, t in zip(leaves, toks) if t in 'SR']
        if Rr: ops += [('mul', ('c', W), Rr[0]), ('div', Rr[-1], ('c', W)), ('pow', ('c', W), Rr[0])]
        if V is not None:
            ops = [('mul', ('c', W), ('c', V)), ('div', ('c', W), ('c', V)), ('mul', ('c', V), ('c', W)), ('sub', ('c', V), ('c', W)),
                   ('pow', ('c', W), ('c', V)), ('mul', ('c', V), ('n', k))] + ops[:4]
        rng.shuffle(ops)
        for f, A, B in ops[:6 if not two else 7]:
            n0 = len(s.slots); s.cbin(f, A, B)
            if isinstance(s.slots[n0], s.UR) and s.cobj(n0) is not None: q(n0)
        for f in rng.sample(['exp', 'conjugate', 'sqrt', 'sin', 'log', 'neg', 'atan', 'magnitude', 'mag_squared', 'phase'], 3):
            n0 = len(s.slots); s.cun(f, W)
            if isinstance(s.slots[n0], s.UR): q(n0, real_y=f in REAL_RESULT)
    s.heap_ok = s.check_heap(); s.close()
    return s

def ord_sessions(rng, nxt, tier='quick'):
    out = []
    seqs = ord_sequences(3, 'SRP')                    # all 39 orders of up to three tokens
    if tier != 'quick': seqs += [''.join(t) for t in itertools.product('SRP', repeat=4)]
    rot = rng.randrange(4)
    jobs = [(q, ORD_KINDS[(k + rot) % 4]) for k, q in enumerate(seqs)]
    if tier != 'quick': jobs = [(q, kd) for q in seqs for kd in ORD_KINDS]
    # the equal-length / same-ends / different-middle patterns in every vector kind, always
    jobs += [(q, kd) for q in ('SPS', 'SPPS', 'SPRS', 'SRPS') for kd in ('u', 'd', 'i')]
    rng.shuffle(jobs)
    for g in range(0, len(jobs), 2):
        out.append(ord_session(rng, nxt(), [j[0] for j in jobs[g:g + 2]], [j[1] for j in jobs[g:g + 2]]))
    # two operands that share the S leaves and own different pairs
    two = ['SPQS', 'SQPS', 'PSQ', 'SPSQS', 'QSPS', 'SPQ', 'PQS', 'SPQRS'] + \
          [''.join(rng.choice('SPQR') for _ in range(rng.randint(3, 5))) for _ in range(4 if tier == 'quick' else 40)]
    two = [q for q in two if 'P' in q and 'Q' in q]
    for g in range(0, len(two), 2):
        qs = two[g:g + 2]
        out.append(ord_session(rng, nxt(), qs, [rng.choice(ORD_KINDS) for _ in qs], two=True))
    return out

# ------------------------------------------------------------------ the reusable entry point
RULE = ('systematic: each of the 22 complex functions/unary operators at %d points (four quadrants, both sides of and ON every '
        'branch cut by exact offsets 2^-30 and signed zeros, zero, huge/small modulus) with operand kinds rotating over '
        '{elementary independent, correlated (4-element covariance), dependent, ensemble member (multiple_ucomplex), intermediate, '
        'constant}; each of + - * / ** for every ordered pair of operand kinds incl. ureal / constant / intermediate ureal / int / '
        'float / complex; every ureal role x complex literal x operator on both sides (promotion to complex, ** leaving the reals, '
        'exact-zero left operands); complex numbers ASSEMBLED from uncertain reals of every role pair (elementary / dependent / ensemble / '
        'intermediate / nested intermediate / constant / temporary, so the two components carry different u, d, i key sets, one possibly '
        'empty) through every unary function and binary operator (both operands assembled, or with ucomplex / ureal / number, either side) '
        'with sensitivity and u_component w.r.t. every elementary AND intermediate input; a directed family enumerating the relative '
        'DECLARATION ORDER of shared / real-part-only / complex-pair influences (all orders of up to 3 tokens, the equal-length same-ends '
        'different-middle patterns, two operands sharing leaves) in the u, d and i vectors, through * / ** + - and functions, every input queried; '
        'degrees of freedom: willink_hall and the real welch_satterthwaite through complex pairs '
        '(independent / ensemble / partially used / real-ensemble inputs, every guard of UncertainComplex.set_correlation, conjugate '
        'and caches, failing dof() then dof()); plus random mixed programs with a malformed stream; after every operation the value and '
        'the u/d/i component vectors of both component reals, reporting.sensitivity and u_component (4-tuples), x/u/v/r/df reads and '
        'exceptions are compared bit for bit with the binary64 model; non-trivial = more than 3 steps; distinct by hash of the operation list'
        % len(ALL_POINTS))

def build_sessions(rng, profile, tier='quick', n=None):
    sessions = []; ctx = [0]
    def nxt():
        ctx[0] += 1; return ctx[0]
    reps = 1 if tier == 'quick' else 6
    want = {'all': ('fun', 'op', 'promo', 'asm', 'ord', 'dof', 'rand'), 'assembled': ('asm', 'ord'), 'order': ('ord',), 'functions': ('fun',), 'operators': ('op',), 'random': ('rand',),
            'dof': ('dof',), 'resultdf': ('rdf',), 'promotion': ('promo',), 'value': ('fun', 'op', 'promo', 'asm', 'ord'), 'history': ('dof', 'rand')}[profile]
    for rep in range(reps):
        if 'fun' in want:
            for f in CUNOPS:
                pts = list(ALL_POINTS); rng.shuffle(pts)
                for g in range(0, len(pts), 13):
                    sessions.append(fun_session(rng, nxt(), f, pts[g:g + 13]))
        if 'op' in want:
            pairs = [(a, b) for a in CKINDS for b in CKINDS + NKINDS] + [(a, b) for a in NKINDS for b in CKINDS]
            for f in CBINOPS:
                P = list(pairs); rng.shuffle(P)
                for g in range(0, len(P), 12):
                    sessions.append(op_session(rng, nxt(), f, P[g:g + 12]))
        if 'promo' in want:
            for f in CBINOPS:
                R = list(UROLES); rng.shuffle(R)
                sessions.append(promo_session(rng, nxt(), f, R[:3])); sessions.append(promo_session(rng, nxt(), f, R[3:]))
        if 'asm' in want:
            sessions.extend(asm_sessions(rng, nxt, 1 if profile != 'assembled' else 2))
        if 'ord' in want and rep == 0:
            sessions.extend(ord_sessions(rng, nxt, tier))
        if 'dof' in want:
            for v in DOF_VARIANTS:
                for _ in range(n or (5 if profile == 'all' else 12)):
                    sessions.append(dof_session(rng, nxt(), v))
    if 'rdf' in want:
        for _ in range(n or (40 if tier == 'quick' else 1200)):
            sessions.append(dof_session(rng, nxt(), 'resultdf'))
    if 'rand' in want:
        nrand = n or (45 if tier == 'quick' else 1500)
        for i in range(nrand):
            sessions.append(rand_session(rng, nxt(), rng.randint(10, 28), malformed=(i % 6 == 5)))
    return sessions

def run_ckernel_corr(rng, profile, name, tier='quick', n=None):
    """generate the programs of a profile, evaluate the binary64 model on them inside coqc, compare every step.
    Returns the dict check.py expects from a correspondence suite."""
    sessions = build_sessions(rng, profile, tier, n)
    mism = ckernel.run_sessions(sessions, name, per_file=max(8, (len(sessions) + NCPU - 1) // NCPU) if tier == 'quick' else 60)
    import cpins
    mism.extend(cpins.pinned_drift())      # an unproven generated body changed: reported, not followed
    stats = collections.Counter()
    for s in sessions: stats.update(s.stats)
    tags = collections.Counter(s.tag.split(':')[0] for s in sessions)
    distinct = len(set(hashlib.sha1(repr(s.pyops).encode()).hexdigest() for s in sessions if len(s.ops) > 3))
    return {'programs': len(sessions), 'steps': sum(len(s.ops) for s in sessions), 'mismatches': mism,
            'distinct': distinct, 'distribution': dict(stats, **{'sessions_' + k: v for k, v in tags.items()}),
            'rule': 'profile %s -- ' % profile + RULE,
            'samples': [{'program': repr(s.pyops[:8])} for s in sessions[:2]]}

"""ckf.py -- regression checks of FIXED findings of the complex kernel that several property modules replay
(p_C01, p_C03, p_C06 import them).  Each returns (reproduces, detail): for a kind "fixed" entry a reproduction is a VIOLATION."""
from common import *

def kf_C01_intermediate_times_complex():
    """C01 (fixed): result(x) (op) complex literal raised AssertionError: the promotion code of lib._add/_mul/... reused the
    intermediate operand itself as one component (x + 0.0 -> x, x * 1.0 -> x) and UncertainComplex.__init__ asserts
    that both components have the same is_intermediate"""
    from GTC import core
    new_context(9)
    x = core.result(core.ureal(2.0, 0.5) * 1.5)
    hits = []
    for name, th in (('result(x)+1j', lambda: x + 1j), ('result(x)*1j', lambda: x * 1j), ('result(x)*(2+1j)', lambda: x * (2 + 1j)),
                     ('1j*result(x)', lambda: 1j * x), ('result(x)/(-1j)', lambda: x / (-1j)), ('2j+result(x)', lambda: 2j + x),
                     ('result(x)-2j', lambda: x - 2j)):
        try:
            th()
        except AssertionError:
            hits.append(name)
        except Exception as ex:
            return True, '%s raised %r' % (name, ex)
    return len(hits) > 0, hits

def kf_C06_result_real_plus_complex_literal():
    """C06 (fixed): result(x + 2j), result(x*(1+2j)), result((1+2j)*x), result(x*(2+1j)) raised AssertionError for an
    ELEMENTARY x (one component was x itself: elementary, the other a new object), and the operations themselves for a
    declared intermediate x.  Now: for elementary, intermediate and constant x every promoted value can be declared, and
    value, uncertainty and the components w.r.t. x are those of the undeclared value."""
    from GTC import core, reporting
    problems = []
    for role in ('elementary', 'intermediate', 'constant'):
        new_context(9)
        if role == 'elementary': x = core.ureal(2.3, 0.27)
        elif role == 'intermediate': x = core.result(core.ureal(1.15, 0.135) * 2.0)
        else: x = core.constant(2.3)
        for name, th in (('x+2j', lambda: x + 2j), ('x*(1+2j)', lambda: x * (1 + 2j)), ('(1+2j)*x', lambda: (1 + 2j) * x),
                         ('x*(2+1j)', lambda: x * (2 + 1j)), ('x*1j', lambda: x * 1j), ('2j+x', lambda: 2j + x), ('x-2j', lambda: x - 2j),
                         ('x/(-1j)', lambda: x / (-1j)), ('x/(1-2j)', lambda: x / (1 - 2j))):
            try:
                z = th(); r = core.result(z)
            except Exception as ex:
                problems.append('%s %s: %s' % (role, name, type(ex).__name__)); continue
            same = (complex(r.x) == complex(z.x) and tuple(r.u) == tuple(z.u)
                    and tuple(reporting.u_component(r, x)) == tuple(reporting.u_component(z, x)))
            if role != 'constant':
                want = tuple(reporting.u_component(z, x))
                if want == (0.0, 0.0, 0.0, 0.0): same = False
            if not same: problems.append('%s %s: result() changed value / u / components' % (role, name))
    return len(problems) > 0, problems

"""C03 -- complex sensitivities are the 2x2 real Jacobians of the complex function."""
import math, cmath, random, os, sys, collections, hashlib
from common import *
import ckernel
from ckernel import CSession, CFUNS, CUNOPS, CBINOPS, REAL_RESULT

COQ_PROPS = 'props/C03.v'

# regenerate gen/Gen_lib_complex.v from the working tree BEFORE the build step of check.py
# (check.py imports this module first, then runs tools/translate.py and make)
def _regenerate():
    sys.path.insert(0, os.path.join(VERIF, 'tools'))
    import tr_lib_complex
    try:
        return tr_lib_complex.main(REPO, os.path.join(COQ, 'gen'))
    except Exception as ex:      # fail closed: an unparsable lib.py leaves no definitions
        open(os.path.join(COQ, 'gen', 'Gen_lib_complex.v'), 'w').write('(* ABSENT: translator raised %r *)\n' % (ex,))
        return ['translator raised %r' % (ex,)]
TRANSLATOR_ABSENT = _regenerate()

from cpins import UNPROVEN, PINS, generated_defs, pinned_drift

PARTIAL = ('proved over the reals: all six assemblers compute J*(operand components) on the u, d and i vectors (C03_assemble_*) and '
           'assembled results denote the composed function when the 4-tuples are total derivatives (assemble_sound); the 4-tuples of * and / '
           'are the real Jacobians of the R^2 maps and _Py_c_quot is the quotient (C03_arith_mul/_div); the + and - bodies (10, with every '
           'return-self shortcut) compute Re/Im of z1+-z2 (C03_arith_addsub); Cauchy-Riemann table for exp sin cos sinh cosh, log on Re z > 0, '
           'z*z, and the Jacobians of magnitude / mag_squared; the GENERATED * bodies for every operand kind on either side and exp sin cos sinh '
           'cosh denote the complex functions, and the chain rule by induction over all trees of those (C03_chain_rule_partial) with '
           'JacobianMatrix entries = partial derivatives, u_component = column-scaled (C03_jacobian_entries).  NOT proved (bit-exact '
           'correspondence + oracle + pinned formula hashes only): the generated bodies of / ** neg pos conjugate log log10 sqrt tan tanh asin '
           'acos atan asinh acosh (refuted on Re z < 0: known finding) atanh magnitude mag_squared phase; + and - are proved at formula level, '
           'not through the denotation.  Modelled and tied bit-exactly but without analytic theorems: complex dof (willink_hall with the persistent '
           '_EnsembleComponents accumulators; proved: its result does not depend on the accumulators on entry, C03_dof_entry_independent), '
           'UncertainComplex.set_correlation, the promotion of an uncertain real by a plain complex number (lib._add ... _rpow): proved that its components are always new objects '
           '(C01_promotion_components_fresh; fixed findings C01-intermediate-times-complex, C06-result-real-plus-complex-literal)')
ASSUMPTIONS = ['rounding error of float arithmetic is not bounded by proof (theorems are over the reals)',
               'cmath functions and the general complex power are oracles over floats; over the reals they are the principal-branch '
               'functions of CplxR.v, whose values ON a branch cut are not those of the signed-zero implementation']
TRUSTED = ['harness/C03_pinned.json: hashes of the generated definitions not yet covered by a theorem (a change is reported, not followed)',
           'Coquelicot (is_derive, auto_derive) and the Coq Reals library',
           'translator tools/tr_lib_complex.py (UncertainComplex operator/function bodies -> Gallina, fail-closed), run at import of harness/p_C03.py',
           'harness/ckernel.py: cmath recording proxy, rule-based rows for complex ** and abs()']

from cgen import *      # generators, QUADS, run_ckernel_corr

def correspondence(rng, tier):
    r = run_ckernel_corr(rng, 'all', 'C03', tier)
    if TRANSLATOR_ABSENT:
        r['mismatches'].append({'kind': 'translator', 'absent': TRANSLATOR_ABSENT})
    return r

# ------------------------------------------------------------------ oracle (search only)
PLAIN = {'exp': cmath.exp, 'log': cmath.log, 'log10': cmath.log10, 'sqrt': cmath.sqrt, 'sin': cmath.sin, 'cos': cmath.cos,
         'tan': cmath.tan, 'asin': cmath.asin, 'acos': cmath.acos, 'atan': cmath.atan, 'sinh': cmath.sinh, 'cosh': cmath.cosh,
         'tanh': cmath.tanh, 'asinh': cmath.asinh, 'acosh': cmath.acosh, 'atanh': cmath.atanh,
         'conjugate': lambda z: complex(z).conjugate(), 'neg': lambda z: -z,
         'magnitude': lambda z: complex(abs(z), 0), 'mag_squared': lambda z: complex(abs(z) ** 2, 0),
         'phase': lambda z: complex(cmath.phase(z), 0)}
BINP = {'add': lambda a, b: a + b, 'sub': lambda a, b: a - b, 'mul': lambda a, b: a * b, 'div': lambda a, b: a / b,
        'pow': lambda a, b: a ** b}

def dist_to_trouble(f, z):
    """distance of z from the branch cuts / singularities of f (where the derivative is undefined or huge)"""
    z = complex(z); x, y = z.real, z.imag
    inf = math.inf
    def ray_re(lo, hi):   # distance to the real segment [lo, hi]
        cx = min(max(x, lo), hi); return math.hypot(x - cx, y)
    def ray_im(lo, hi):
        cy = min(max(y, lo), hi); return math.hypot(x, y - cy)
    if f in ('log', 'log10', 'sqrt', 'phase'): return ray_re(-1e300, 0)
    if f == 'magnitude': return abs(z)
    if f in ('asin', 'acos', 'atanh'): return min(ray_re(1, 1e300), ray_re(-1e300, -1))
    if f in ('atan', 'asinh'): return min(ray_im(1, 1e300), ray_im(-1e300, -1))
    if f == 'acosh': return ray_re(-1e300, 1)
    if f == 'tan': return abs(cmath.cos(z))
    if f == 'tanh': return abs(cmath.cosh(z))
    return inf

def rand_tree(rng, nin, depth):
    if depth == 0 or rng.random() < 0.15:
        if rng.random() < 0.8: return ('var', rng.randrange(nin))
        return ('num', rng.choice([2.0, -1.5, 0.5, 1 + 1j, 2 - 0.5j, 3]))
    if rng.random() < 0.5:
        return ('un', rng.choice(list(PLAIN)), rand_tree(rng, nin, depth - 1))
    return ('bin', rng.choice(list(BINP)), rand_tree(rng, nin, depth - 1), rand_tree(rng, nin, depth - 1))

class Domain(ArithmeticError):
    pass

def ev_plain(t, xs, margin=0.05):
    if t[0] == 'var': return xs[t[1]]
    if t[0] == 'num': return t[1]
    if t[0] == 'un':
        v = complex(ev_plain(t[2], xs, margin))
        if abs(v) > 30 or dist_to_trouble(t[1], v) < margin: raise Domain()
        return PLAIN[t[1]](v)
    a = ev_plain(t[2], xs, margin); b = ev_plain(t[3], xs, margin)
    if t[1] == 'div' and abs(b) < margin: raise Domain()
    if t[1] == 'pow':
        if abs(a) < margin or dist_to_trouble('log', a) < margin or abs(b) > 4 or abs(a) > 20: raise Domain()
        a = complex(a)
    return BINP[t[1]](a, b)

def ev_gtc(t, xs, core):
    if t[0] == 'var': return xs[t[1]]
    if t[0] == 'num': return t[1]
    if t[0] == 'un':
        v = ev_gtc(t[2], xs, core)
        if t[1] == 'neg': return -v
        if t[1] == 'conjugate': return v.conjugate()
        return getattr(core, t[1])(v)
    a = ev_gtc(t[2], xs, core); b = ev_gtc(t[3], xs, core)
    return BINP[t[1]](a, b)

def known_region(t, xs):
    """does evaluating t at xs hit a listed known finding?  (acosh with Re < 0; ** with a zero base)"""
    try:
        if t[0] in ('var', 'num'): return False
        if t[0] == 'un':
            if known_region(t[2], xs): return True
            v = complex(ev_plain(t[2], xs, 0.0))
            return t[1] == 'acosh' and v.real < 0
        if known_region(t[2], xs) or known_region(t[3], xs): return True
        return t[1] == 'pow' and ev_plain(t[2], xs, 0.0) == 0
    except Exception:
        return False

def num_jac(t, xs, i, is_real):
    """2x2 (or 2x1 for a real input) Jacobian by Richardson-extrapolated central differences + error estimate"""
    cols = []; err = 0.0
    for d in ((1.0,) if is_real else (1.0, 1j)):
        def f(h):
            a = list(xs); b = list(xs); a[i] = a[i] + h * d; b[i] = b[i] - h * d
            return (complex(ev_plain(t, a)) - complex(ev_plain(t, b))) / (2 * h)
        h = 1e-3 * max(1.0, abs(xs[i]))
        d1, d2 = f(h), f(h / 2)
        dd = (4 * d2 - d1) / 3
        cols.append(dd); err = max(err, abs(d2 - d1))
    if is_real: cols.append(0j)
    # JacobianMatrix(rr, ri, ir, ii)
    return (cols[0].real, cols[1].real, cols[0].imag, cols[1].imag), err

def check_tree(t, vals, kinds, us):
    """returns None or a dict describing a failing input.  kinds[i] in {'c','r','i'}: elementary ucomplex, elementary
    ureal, INTERMEDIATE ureal (result() of a sum of two elementary ureals)"""
    from GTC import core, reporting, lib
    new_context(7)
    if known_region(t, vals): return None
    try:
        y0 = complex(ev_plain(t, vals))
        if not (math.isfinite(y0.real) and math.isfinite(y0.imag)) or abs(y0) > 1e6: return None
    except (ArithmeticError, ValueError, OverflowError, ZeroDivisionError, TypeError):
        return None
    def mk(v, k, u):
        if k == 'c': return core.ucomplex(v, u)
        if k == 'd':          # elementary, NOT independent, components correlated: its leaves live in the d-vectors
            z = core.ucomplex(v, u, independent=False); core.set_correlation(0.3, z); return z
        if k == 'i': return core.result(core.ureal(v - 0.25, u[0]) + core.ureal(0.25, u[1]))
        return core.ureal(v, u[0])
    ins = [mk(v, k, u) for v, k, u in zip(vals, kinds, us)]
    try:
        y = ev_gtc(t, ins, core)
    except Exception as ex:
        return {'tree': t, 'x': [str(v) for v in vals], 'kinds': kinds, 'u': us, 'raises': type(ex).__name__}
    if not isinstance(y, (lib.UncertainComplex, lib.UncertainReal)): return None
    for i, x in enumerate(ins):
        try:
            J, err = num_jac(t, vals, i, kinds[i] not in ('c', 'd'))
        except (ArithmeticError, ValueError, OverflowError, ZeroDivisionError, TypeError):
            continue
        scale = max(1.0, max(abs(v) for v in J))
        if not all(math.isfinite(v) for v in J) or err > 1e-4 * scale: continue      # ill-conditioned point
        S = reporting.sensitivity(y, x); Cc = reporting.u_component(y, x)
        S = tuple(S) if isinstance(S, tuple) else (float(S), 0.0, 0.0, 0.0)
        Cc = tuple(Cc) if isinstance(Cc, tuple) else (float(Cc), 0.0, 0.0, 0.0)
        if isinstance(y, lib.UncertainReal): J = (J[0], J[1], 0.0, 0.0)
        tol = 1e-5 * scale + 10 * err
        ux = (us[i][0], us[i][1]) if kinds[i] in ('c', 'd') else (float(x.u), 0.0)
        want_c = (S[0] * ux[0], S[1] * ux[1], S[2] * ux[0], S[3] * ux[1])
        if any(abs(a - b) > tol for a, b in zip(S, J)) or any(abs(a - b) > 1e-12 * max(1.0, abs(a)) for a, b in zip(Cc, want_c)):
            return {'tree': t, 'x': [str(v) for v in vals], 'kinds': kinds, 'u': us, 'input': i,
                    'sensitivity': list(S), 'numerical_jacobian': list(J), 'u_component': list(Cc)}
    return None

def check_declare(t, vals, kinds, us):
    """result() must be transparent: declaring the value of tree t must succeed whenever computing it does, and keep the
    value and the components w.r.t. the inputs (fixed finding C06-result-real-plus-complex-literal)"""
    from GTC import core, reporting, lib
    new_context(7)
    def mk(v, k, u):
        if k == 'c': return core.ucomplex(v, u)
        if k == 'i': return core.result(core.ureal(v - 0.25, u[0]) + core.ureal(0.25, u[1]))
        if k == 'k': return core.constant(v)
        return core.ureal(v, u[0])
    ins = [mk(v, k, u) for v, k, u in zip(vals, kinds, us)]
    try:
        y = ev_gtc(t, ins, core)
    except AssertionError:
        return {'declare': True, 'tree': t, 'x': [str(v) for v in vals], 'kinds': kinds, 'u': us, 'raises': 'AssertionError'}
    except Exception:
        return None
    if not isinstance(y, (lib.UncertainComplex, lib.UncertainReal)): return None
    try:
        r = core.result(y)
    except Exception as ex:
        return {'declare': True, 'tree': t, 'x': [str(v) for v in vals], 'kinds': kinds, 'u': us, 'result_raises': type(ex).__name__}
    for x in ins:
        a = reporting.u_component(y, x); b = reporting.u_component(r, x)
        a = tuple(a) if isinstance(a, tuple) else (a,); b = tuple(b) if isinstance(b, tuple) else (b,)
        if a != b or complex(core.value(r)) != complex(core.value(y)):
            return {'declare': True, 'tree': t, 'x': [str(v) for v in vals], 'kinds': kinds, 'u': us, 'changed_by_result': [list(a), list(b)]}
    return None

def search(rng, tier, broken):
    n = 1200 if tier == 'quick' else 15000
    tried = 0
    # first: every function on a grid over the four quadrants (fast, catches sheet errors)
    for f in PLAIN:
        for z in QUADS + [-2 + 1j, -0.5 - 2j, 2 - 3j, 0.2 + 0.1j]:
            tried += 1
            r = check_tree(('un', f, ('var', 0)), [z], ['c'], [(0.5, 0.25)])
            if r is not None: return {'tried': tried, 'failing': r}
    # every operator with plain-number operands on either side (the shortcut returns)
    for f in BINP:
        for c in (1j, 2j, -1j, 1 + 0j, 1, 1.0, 0.0, 0j, 2, 0.5 + 1j):
            for t in (('bin', f, ('var', 0), ('num', c)), ('bin', f, ('num', c), ('var', 0))):
                tried += 1
                r = check_tree(t, [1.25 + 0.75j], ['c'], [(0.5, 0.25)])
                if r is not None and 'raises' not in r: return {'tried': tried, 'failing': r}
    # complex numbers assembled from uncertain reals (elementary / intermediate in either component), through every
    # function and operator, queried w.r.t. both real inputs
    def asm(a, b, c=2j): return ('bin', 'add', ('var', a), ('bin', 'mul', ('num', c), ('var', b)))
    for ka, kb in (('i', 'r'), ('r', 'i'), ('i', 'i'), ('r', 'r')):
        for (xa, xb) in ((0.65, -0.9), (-0.4, 0.35)):
            Z = asm(0, 1, 1j if kb == 'r' else 2j)
            trees = [('un', f, Z) for f in PLAIN] + [('bin', f, Z, ('num', 2 - 1j)) for f in BINP] + \
                    [('bin', f, ('num', 0.5 + 1j), Z) for f in BINP] + [('bin', 'mul', Z, Z), ('bin', 'div', ('var', 0), Z)]
            for t in trees:
                tried += 1
                r = check_tree(t, [xa, xb], [ka, kb], [(0.03, 0.04), (0.05, 0.02)])
                if r is not None and 'raises' not in r: return {'tried': tried, 'failing': r}
    # an uncertain real of every role (op) a complex literal, both sides, incl. the identity shortcuts; then result()
    for kd in ('r', 'i', 'k'):
        for f in ('add', 'sub', 'mul', 'div'):
            for c in (2j, 1j, -1j, 1 + 2j, 2 + 1j, 0j, 1 + 0j, 1.5 + 2j):
                for t in (('bin', f, ('var', 0), ('num', c)), ('bin', f, ('num', c), ('var', 0))):
                    tried += 1
                    r = check_declare(t, [2.3], [kd], [(0.27, 0.1)])
                    if r is not None: return {'tried': tried, 'failing': r}
    # REAL results w.r.t. a COMPLEX input of every kind (independent / dependent-and-correlated), and complex ones
    for kd in ('d', 'c'):
        for f in ('magnitude', 'mag_squared', 'phase', 'exp', 'conjugate'):
            for z in (1.25 + 0.75j, -0.3 - 2.5j):
                for t in (('un', f, ('var', 0)), ('un', f, ('bin', 'mul', ('var', 0), ('num', 2 - 1j))),
                          ('bin', 'mul', ('un', f, ('var', 0)), ('var', 1))):
                    tried += 1
                    r = check_tree(t, [z, 0.75], [kd, 'r'], [(0.5, 0.25), (0.1, 0.1)])
                    if r is not None and 'raises' not in r: return {'tried': tried, 'failing': r}
    # declaration ORDER of influences: W = sum over tokens declared in sequence order (S: + 1j*a shared real leaf,
    # R: + r real-part-only leaf, P: + z complex pair); then products / quotients / functions of W, every input queried
    import itertools
    seqs = [''.join(q) for n_ in (1, 2, 3) for q in itertools.product('SRP', repeat=n_)] + ['SPPS', 'SPRS', 'SRPS', 'PSSP']
    for q in seqs:
        W = None
        for k_, tok in enumerate(q):
            term = ('bin', 'mul', ('num', 1j), ('var', k_)) if tok == 'S' else ('var', k_)
            W = term if W is None else ('bin', 'add', W, term)
        kinds = ['c' if tok == 'P' else 'r' for tok in q]
        vals = [complex(0.5 + 0.75 * k_, 3.0 - k_) if tok == 'P' else round(0.5 + 0.6 * k_, 2) for k_, tok in enumerate(q)]
        us = [(0.2 + 0.05 * k_, 0.3) for k_ in range(len(q))]
        kk = 2 + 1j
        for t in (('bin', 'mul', W, ('num', kk)), ('bin', 'mul', ('num', kk), W), ('bin', 'div', W, ('num', kk)),
                  ('bin', 'mul', W, W), ('bin', 'div', ('num', kk), W), ('un', 'exp', ('bin', 'mul', W, ('num', 0.25)))):
            tried += 1
            r = check_tree(t, vals, kinds, us)
            if r is not None and 'raises' not in r: return {'tried': tried, 'failing': r}
    for _ in range(n):
        nin = rng.randint(1, 3)
        t = rand_tree(rng, nin, rng.randint(1, 4))
        kinds = [rng.choice(['c', 'c', 'd', 'r', 'i']) for _ in range(nin)]
        vals = [complex(round(rng.uniform(-2.5, 2.5), 3), round(rng.uniform(-2.5, 2.5), 3)) if k in ('c', 'd') else round(rng.uniform(-2.5, 2.5), 3)
                for k in kinds]
        us = [(round(rng.uniform(0.05, 1.0), 3), round(rng.uniform(0.05, 1.0), 3)) for _ in range(nin)]
        tried += 1
        r = check_tree(t, vals, kinds, us)
        if r is not None:
            return {'tried': tried, 'failing': r}
    return {'tried': tried, 'failing': None}

def tuple_tree(t):
    """a tree read back from JSON: lists -> tuples, complex literals (written as strings) -> complex"""
    t = tuple(tuple_tree(x) if isinstance(x, list) else x for x in t)
    if t and t[0] == 'num' and isinstance(t[1], str):
        return ('num', complex(t[1]))
    return t

def _vals(f):
    return [complex(v) if k in ('c', 'd') else float(complex(v).real) for v, k in zip(f['x'], f['kinds'])]

def is_known(f):
    try:
        return known_region(tuple_tree(f['tree']), _vals(f))
    except Exception:
        return False

def replay(payload):
    f = payload.get('failing_input')
    print(json.dumps(payload.get('broken'), indent=1, default=str)[:3000])
    if f:
        fn = check_declare if f.get('declare') else check_tree
        r = fn(tuple_tree(f['tree']), _vals(f), f['kinds'], [tuple(u) for u in f['u']])
        print('replayed failing input on the implementation:', 'STILL FAILS %r' % (r,) if r else 'passes now')
        return 1 if r else 0
    return 0

# ------------------------------------------------------------------ known findings (replayed on the implementation)
def known_acosh_sign():
    """acosh(ucomplex) on Re z < 0: the reported Jacobian is that of -f'(z)"""
    from GTC import core, reporting
    new_context(9)
    z0 = -2 + 1j
    z = core.ucomplex(z0, 1.0); y = core.acosh(z)
    S = reporting.sensitivity(y, z)
    h = 1e-6
    d = (cmath.acosh(z0 + h) - cmath.acosh(z0 - h)) / (2 * h)
    wrong = abs(S.rr + d.real) < 1e-6 and abs(S.ir + d.imag) < 1e-6 and abs(S.rr - d.real) > 0.1
    return wrong, {'sensitivity': list(S), "f'(z)": str(d)}

def known_pow_zero_base():
    """ucomplex(0j, u) ** 2 raises ZeroDivisionError (zr*z/zl) although z**2 is differentiable at 0"""
    from GTC import core
    new_context(9)
    try:
        core.ucomplex(0j, 1.0) ** 2
    except ZeroDivisionError:
        return True, 'ZeroDivisionError'
    except Exception as ex:
        return False, repr(ex)
    return False, 'no exception'

from ckf import kf_C01_intermediate_times_complex, kf_C06_result_real_plus_complex_literal

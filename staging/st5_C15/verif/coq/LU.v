(* LU.v -- executable model of GTC/LU.py (ludcmp, _lubksb, invab, ludet, solve) and of the
   matmul / dot / transpose / solve / inv / det wrappers of GTC/linear_algebra.py.
   Definitions only; theorems are in LUFacts.v.

   The model is written once over an element interface [Elt] (the operations LU.py applies to
   array elements: * - + /, 1.0/x, x == 0.0, abs(x), and the float arithmetic on the pivot
   weights).  It is RUN at [LUInst.FElt] (Python int / float / UncertainReal elements over
   binary64, bit for bit against the implementation) and REASONED ABOUT at [ring_elt] (any
   commutative ring with a partial inverse: fields of plain numbers, and the dual numbers
   value + components of uncertainty).

   Arrays are total functions of their indices (numpy object arrays of a fixed shape; every
   index the loops produce is in range by construction), Python's in-place element assignment
   a[i,j] = v is [mupd]. *)
From Coq Require Import ZArith List Bool.
From GTCV Require Import Num.
Import ListNotations.

Record Elt := mkElt {
  E : Type;                      (* array elements *)
  W : Type;                      (* plain numbers: abs() of an element, the scaling vv *)
  e_of_Z : Z -> E;               (* Python int as an element (parity, np.identity) *)
  e_add : E -> E -> res E;
  e_sub : E -> E -> res E;
  e_mul : E -> E -> res E;
  e_div : E -> E -> res E;
  e_rdiv1 : E -> res E;          (* 1.0 / x *)
  e_pos : E -> E;                (* +x : what UncertainArray.copy() applies to every element *)
  e_isz : E -> bool;             (* x == 0.0 : compares the VALUE of an uncertain number *)
  e_skip : E -> bool;            (* isinstance(x, numbers.Number) and x == 0.0 : a plain-number zero *)
  e_abs : E -> res W;            (* abs(x): a plain number (an external function, hypot, for complex x) *)
  w_zero : W;                    (* 0.0 *)
  w_gt : W -> W -> bool;
  w_ge : W -> W -> bool;
  w_mul : W -> W -> W;
  w_recip : W -> res W           (* 1.0 / big *)
}.

Fixpoint foldM {S X : Type} (f : S -> X -> res S) (l : list X) (s : S) : res S :=
  match l with
  | [] => Ok s
  | k :: l' => s' <- f s k ;; foldM f l' s'
  end.

Fixpoint mapM {X Y : Type} (f : X -> res Y) (l : list X) : res (list Y) :=
  match l with
  | [] => Ok []
  | x :: l' => y <- f x ;; ys <- mapM f l' ;; Ok (y :: ys)
  end.

Definition vupd {X : Type} (b : nat -> X) (i : nat) (v : X) : nat -> X :=
  fun i' => if Nat.eqb i i' then v else b i'.

(* a[p,k], a[q,k] = a[q,k], a[p,k] for every k *)
Definition swap_rows_gen {X : Type} (m : nat -> nat -> X) (p q : nat) : nat -> nat -> X :=
  fun i j => if Nat.eqb i p then m q j else if Nat.eqb i q then m p j else m i j.

Section LUModel.
  Variable L : Elt.
  Notation El := (E L).
  Notation Wt := (W L).

  Definition mat := nat -> nat -> El.
  Definition vecE := nat -> El.

  Definition mupd (m : mat) (i j : nat) (v : El) : mat :=
    fun i' j' => if Nat.eqb i i' && Nat.eqb j j' then v else m i' j'.

  Definition swap_rows (m : mat) (p q : nat) : mat := swap_rows_gen m p q.

  (* reduce(lambda sum,k: sum - f[k]*g[k], ks, init) *)
  Definition red_sub (f g : nat -> El) (ks : list nat) (init : El) : res El :=
    foldM (fun sum k => p <- e_mul L (f k) (g k) ;; e_sub L sum p) ks init.

  (* ---------------- ludcmp : LU.py 27-108 ---------------- *)
  (* big = 0.0; for j: temp = abs(a[i,j]); big = temp if temp > big else big *)
  Definition row_big (n : nat) (a : mat) (i : nat) : res Wt :=
    foldM (fun big j => temp <- e_abs L (a i j) ;; Ok (if w_gt L temp big then temp else big))
          (seq 0 n) (w_zero L).

  (* vv[i] = 1.0/big ; ZeroDivisionError -> RuntimeError('zero column') *)
  Definition scaling (n : nat) (a : mat) : res (nat -> Wt) :=
    foldM (fun vv i => big <- row_big n a i ;;
                       match w_recip L big with
                       | Ok r => Ok (vupd vv i r)
                       | Err ZeroDivisionError => Err RuntimeError
                       | Err e => Err e
                       end)
          (seq 0 n) (fun _ => w_zero L).

  Record lustate := mkLU {
    lu_a : mat; lu_vv : nat -> Wt; lu_idx : nat -> nat; lu_par : Z;
    lu_imax : option nat      (* the Python local imax survives from one column to the next *)
  }.

  (* for i in range(j): a[i,j] = reduce(..., range(i), a[i,j]) *)
  Definition col_upper (j : nat) (a : mat) : res mat :=
    foldM (fun a i => v <- red_sub (fun k => a i k) (fun k => a k j) (seq 0 i) (a i j) ;;
                      Ok (mupd a i j v))
          (seq 0 j) a.

  (* for i in range(j,N): a[i,j] = reduce(..., range(j), a[i,j]); dum = vv[i]*abs(a[i,j]);
     if dum >= big: big = dum; imax = i *)
  Definition col_lower (n j : nat) (vv : nat -> Wt) (a : mat) (imax : option nat)
    : res (mat * Wt * option nat) :=
    foldM (fun st i =>
             let '(a, big, imax) := st in
             v <- red_sub (fun k => a i k) (fun k => a k j) (seq 0 j) (a i j) ;;
             let a' := mupd a i j v in
             av <- e_abs L v ;;
             let dum := w_mul L (vv i) av in
             if w_ge L dum big then Ok (a', dum, Some i) else Ok (a', big, imax))
          (seq j (n - j)) (a, w_zero L, imax).

  (* tmp = 1.0/a[j,j]; for i in range(j+1,N): a[i,j] *= tmp *)
  Definition col_scale (n j : nat) (a : mat) : res mat :=
    if Nat.eqb j (n - 1) then Ok a
    else tmp <- e_rdiv1 L (a j j) ;;
         foldM (fun a i => v <- e_mul L (a i j) tmp ;; Ok (mupd a i j v)) (seq (S j) (n - S j)) a.

  Definition lu_col (n : nat) (st : lustate) (j : nat) : res lustate :=
    a1 <- col_upper j (lu_a st) ;;
    '(a2, _, imax) <- col_lower n j (lu_vv st) a1 (lu_imax st) ;;
    match imax with
    | None => Err OtherExn            (* UnboundLocalError: no dum >= big ever held *)
    | Some im =>
        let '(a3, par, vv) :=
          if Nat.eqb j im then (a2, lu_par st, lu_vv st)
          else (swap_rows a2 im j, (- lu_par st)%Z, vupd (lu_vv st) im (lu_vv st j)) in
        if e_isz L (a3 j j) then Err RuntimeError      (* singular pivot element *)
        else a4 <- col_scale n j a3 ;;
             Ok (mkLU a4 vv (vupd (lu_idx st) j im) par (Some im))
    end.

  Definition ludcmp (n : nat) (a : mat) : res (mat * (nat -> nat) * Z) :=
    vv <- scaling n a ;;
    st <- foldM (lu_col n) (seq 0 n) (mkLU a vv (fun _ => 0) 1%Z None) ;;
    Ok (lu_a st, lu_idx st, lu_par st).

  (* ---------------- _lubksb : LU.py 111-158 ---------------- *)
  Definition fwd_step (lu : mat) (idx : nat -> nat) (st : vecE * option nat) (i : nat)
    : res (vecE * option nat) :=
    let '(b, ii) := st in
    let ip := idx i in
    let sum := b ip in                  (* sum, b[ip] = b[ip], b[i] *)
    let b1 := vupd b ip (b i) in
    match ii with
    | Some k => s <- red_sub (fun j => lu i j) b1 (seq k (i - k)) sum ;;
                Ok (vupd b1 i s, ii)
    | None => Ok (vupd b1 i sum, if e_skip L sum then None else Some i)
        (* elif not (isinstance(sum, numbers.Number) and sum == 0.0): ii = i *)
    end.

  Definition back_step (n : nat) (lu : mat) (b : vecE) (i : nat) : res vecE :=
    s <- red_sub (fun j => lu i j) b (seq (S i) (n - S i)) (b i) ;;
    q <- e_div L s (lu i i) ;;
    Ok (vupd b i q).

  Definition lubksb (n : nat) (lu : mat) (idx : nat -> nat) (b : vecE) : res vecE :=
    '(b1, _) <- foldM (fwd_step lu idx) (seq 0 n) (b, None) ;;
    foldM (back_step n lu) (rev (seq 0 n)) b1.

  (* ---------------- ludet : reduce(lambda p,i: p*a_lu[i,i], range(N), p) ---------------- *)
  Definition ludet (n : nat) (lu : mat) (par : Z) : res El :=
    foldM (fun p i => e_mul L p (lu i i)) (seq 0 n) (e_of_Z L par).

  (* ---------------- pure results of solve / invab / inv / det ---------------- *)
  Definition solve (n : nat) (a : mat) (b : vecE) : res vecE :=
    '(lu, idx, _) <- ludcmp n a ;; lubksb n lu idx b.

  Definition invab (n m : nat) (a b : mat) : res mat :=
    '(lu, idx, _) <- ludcmp n a ;;
    foldM (fun y j => col <- lubksb n lu idx (fun i => b i j) ;;
                      Ok (fun i j' => if Nat.eqb j' j then col i else y i j'))
          (seq 0 m) (fun _ _ => e_of_Z L 0).

  (* LU.solve with a 2-D right-hand side (after the repair of finding C15-5): every column of the copy of b is
     solved as a list, exactly as invab does *)
  Definition solve2 (n m : nat) (a b : mat) : res mat := invab n m a b.

  Definition identity : mat := fun i j => e_of_Z L (if Nat.eqb i j then 1 else 0)%Z.

  Definition inv (n : nat) (a : mat) : res mat := invab n n a identity.

  Definition det (n : nat) (a : mat) : res El :=
    '(lu, _, par) <- ludcmp n a ;; ludet n lu par.

  (* ---------------- numpy's object dot (OBJECT_dot): prod_0, then tmp = tmp + prod_k ------- *)
  Definition dot1 (m : nat) (f g : nat -> El) : res El :=
    match m with
    | O => Ok (e_of_Z L 0)
    | S m' => p0 <- e_mul L (f 0) (g 0) ;;
              foldM (fun acc k => p <- e_mul L (f k) (g k) ;; e_add L acc p) (seq 1 m') p0
    end.

  (* (n x m) times (m x p), as rows *)
  Definition matmul (n m p : nat) (a b : mat) : res (list (list El)) :=
    mapM (fun i => mapM (fun j => dot1 m (fun k => a i k) (fun k => b k j)) (seq 0 p)) (seq 0 n).

  (* ---------------- N-d operands (flat, row-major) ---------------- *)
  (* np.dot(a, b) for a of shape A' + (L,) and b of shape B' + (L, M) (or (L,), then M = 1):
     result[p, q, m] = sum_l a[p, l] * b[q, l, m], p over the PA = prod A' leading positions of a,
     q over the QB = prod B' stacks of b; the result is flat in the order (p, q, m) *)
  Definition nd_dot (PA Ln QB M : nat) (fa fb : nat -> El) : res (list El) :=
    mapM (fun t => let p := Nat.div t (QB * M) in
                   let q := Nat.modulo (Nat.div t M) QB in
                   let m := Nat.modulo t M in
                   dot1 Ln (fun l => fa (p * Ln + l)) (fun l => fb (q * Ln * M + l * M + m)))
         (seq 0 (PA * QB * M)).

  Definition prodn (l : list nat) : nat := fold_right Nat.mul 1 l.

  (* multi-index of flat position t in an array of the given shape *)
  Fixpoint unravel (shape : list nat) (t : nat) : list nat :=
    match shape with
    | [] => []
    | _ :: rest => Nat.div t (prodn rest) :: unravel rest (Nat.modulo t (prodn rest))
    end.

  (* flat position of a multi-index in an array that is broadcast along its dimensions of size 1 *)
  Fixpoint ravel_b (shape idx : list nat) : nat :=
    match shape, idx with
    | d :: rest, i :: is_ => (if Nat.eqb d 1 then 0 else i) * prodn rest + ravel_b rest is_
    | _, _ => 0
    end.

  Fixpoint bshape (sa sb : list nat) : list nat :=
    match sa, sb with
    | x :: sa', y :: sb' => (if Nat.eqb x 1 then y else x) :: bshape sa' sb'
    | _, _ => []
    end.

  Fixpoint bcast_ok (sa sb : list nat) : bool :=
    match sa, sb with
    | x :: sa', y :: sb' => (Nat.eqb x y || Nat.eqb x 1 || Nat.eqb y 1) && bcast_ok sa' sb'
    | [], [] => true
    | _, _ => false
    end.

  (* matmul of stacks: a of shape SA + (n, L), b of shape SB + (L, p), SA and SB of equal length and
     broadcast against each other: result[s, i, j] = sum_l a[s|SA, i, l] * b[s|SB, l, j] *)
  Definition nd_matmul (SA SB : list nat) (n Ln p : nat) (fa fb : nat -> El) : res (list El) :=
    let S := bshape SA SB in
    mapM (fun t => let s := Nat.div t (n * p) in
                   let i := Nat.modulo (Nat.div t p) n in
                   let j := Nat.modulo t p in
                   let mi := unravel S s in
                   let ta := ravel_b SA mi in
                   let tb := ravel_b SB mi in
                   dot1 Ln (fun l => fa (ta * n * Ln + i * Ln + l)) (fun l => fb (tb * Ln * p + l * p + j)))
         (seq 0 (prodn S * n * p)).

  (* np.transpose(a, axes) of an N-d array (flat, row-major): the result has shape
     [shape[axes[k]]]_k and result[r_0, ..., r_{d-1}] = a[s] with s[axes[k]] = r[k], i.e. the source
     position is sum_k r_k * stride(axes[k]).  Only the positions move: elements are not touched. *)
  Fixpoint strides (shape : list nat) : list nat :=
    match shape with
    | [] => []
    | _ :: rest => prodn rest :: strides rest
    end.

  Definition tr_shape (shape axes : list nat) : list nat := map (fun ax => nth ax shape 1) axes.

  Fixpoint tr_src_aux (st : list nat) (axes r : list nat) : nat :=
    match axes, r with
    | ax :: axes', rk :: r' => rk * nth ax st 0 + tr_src_aux st axes' r'
    | _, _ => 0
    end.

  Definition tr_src (shape axes : list nat) (t : nat) : nat :=
    tr_src_aux (strides shape) axes (unravel (tr_shape shape axes) t).

  Definition nd_transpose {X : Type} (shape axes : list nat) (fa : nat -> X) : list X :=
    map (fun t => fa (tr_src shape axes t)) (seq 0 (prodn shape)).

  (* every position 0..cnt-1 occurs exactly once in l *)
  Definition is_perm_of_seq (cnt : nat) (l : list nat) : bool :=
    Nat.eqb (length l) cnt && forallb (fun k => Nat.eqb (count_occ Nat.eq_dec l k) 1) (seq 0 cnt).

  (* np.dot with a scalar operand: the element-wise product, scalar on its own side *)
  Definition nd_scale (lft : bool) (sc : El) (cnt : nat) (fa : nat -> El) : res (list El) :=
    mapM (fun t => if lft then e_mul L sc (fa t) else e_mul L (fa t) sc) (seq 0 cnt).

  (* ---------------- arrays as Python objects: which cells a call writes ---------------- *)
  (* a store maps array identities to contents (1-D arrays use column 0);  [fresh] is the next
     unused identity.  ludcmp and _lubksb assign into the array they are given; solve, invab
     and det hand them copies. *)
  Definition store := nat -> mat.

  (* UncertainArray.copy(): out[i] = +item *)
  Definition copy_arr (a : mat) : mat := fun i j => e_pos L (a i j).

  Definition ludcmp_at (n : nat) (s : store) (p : nat) : res (store * (nat -> nat) * Z) :=
    '(lu, idx, par) <- ludcmp n (s p) ;; Ok (vupd s p lu, idx, par).

  Definition lubksb_at (n : nat) (s : store) (plu : nat) (idx : nat -> nat) (pb : nat) : res store :=
    x <- lubksb n (s plu) idx (fun i => s pb i 0) ;; Ok (vupd s pb (fun i _ => x i)).

  (* a_lu,i,p = ludcmp(a.copy()); return _lubksb(a_lu,i,b.copy()) *)
  Definition solve_at (n : nat) (s : store) (pa pb fresh : nat) : res (store * nat) :=
    let s1 := vupd s fresh (copy_arr (s pa)) in
    '(s2, idx, _) <- ludcmp_at n s1 fresh ;;
    let s3 := vupd s2 (S fresh) (copy_arr (s2 pb)) in
    s4 <- lubksb_at n s3 fresh idx (S fresh) ;;
    Ok (s4, S fresh).

  (* a_lu,idx,p = ludcmp(a.copy()); y = np.empty; per column: a fresh list, _lubksb, copy into y *)
  Definition invab_at (n m : nat) (s : store) (pa pb fresh : nat) : res (store * nat) :=
    let s1 := vupd s fresh (copy_arr (s pa)) in
    '(s2, idx, _) <- ludcmp_at n s1 fresh ;;
    let py := S fresh in
    let pc := S (S fresh) in
    s5 <- foldM (fun s j =>
                   let s' := vupd s pc (fun i _ => s pb i j) in
                   s'' <- lubksb_at n s' fresh idx pc ;;
                   Ok (vupd s'' py (fun i j' => if Nat.eqb j' j then s'' pc i 0 else s'' py i j')))
                (seq 0 m) (vupd s2 py (fun _ _ => e_of_Z L 0)) ;;
    Ok (s5, py).

  (* a_lu,i,p = ludcmp(a.copy()); x = b.copy(); per column j: col = _lubksb(a_lu, i, [x[k,j] for k]); x[k,j] = col[k] *)
  Definition solve2_at (n m : nat) (s : store) (pa pb fresh : nat) : res (store * nat) :=
    let s1 := vupd s fresh (copy_arr (s pa)) in
    '(s2, idx, _) <- ludcmp_at n s1 fresh ;;
    let px := S fresh in
    let pc := S (S fresh) in
    s5 <- foldM (fun s j =>
                   let s' := vupd s pc (fun i _ => s px i j) in
                   s'' <- lubksb_at n s' fresh idx pc ;;
                   Ok (vupd s'' px (fun i j' => if Nat.eqb j' j then s'' pc i 0 else s'' px i j')))
                (seq 0 m) (vupd s2 px (copy_arr (s2 pb))) ;;
    Ok (s5, px).

  (* b = np.identity(a.shape[0], a.dtype); return LU.invab(a,b) *)
  Definition inv_at (n : nat) (s : store) (pa fresh : nat) : res (store * nat) :=
    invab_at n n (vupd s fresh identity) pa fresh (S fresh).

  Definition det_at (n : nat) (s : store) (pa fresh : nat) : res (store * El) :=
    let s1 := vupd s fresh (copy_arr (s pa)) in
    '(s2, _, par) <- ludcmp_at n s1 fresh ;;
    d <- ludet n (s2 fresh) par ;; Ok (s2, d).

  (* ---------------- conversion from / to rows ---------------- *)
  Definition of_rows (rows : list (list El)) : mat :=
    fun i j => nth j (nth i rows []) (e_of_Z L 0).
  Definition of_list (l : list El) : vecE := fun i => nth i l (e_of_Z L 0).
  Definition to_rows (n m : nat) (a : mat) : list (list El) :=
    map (fun i => map (fun j => a i j) (seq 0 m)) (seq 0 n).
  Definition to_list (n : nat) (b : vecE) : list El := map b (seq 0 n).
End LUModel.

(* np.transpose of a 2-D array given as rows: column j of the argument becomes row j *)
Section Transpose.
  Variable X : Type.
  Fixpoint transpose_rows (ncols : nat) (rows : list (list X)) : list (list X) :=
    match ncols with
    | O => []
    | S c => flat_map (fun r => match r with [] => [] | x :: _ => [x] end) rows
             :: transpose_rows c (map (@tl X) rows)
    end.
End Transpose.

(* ---------------- the commutative-ring instance the theorems are about ---------------- *)
Section RingElt.
  Variables (A Wt : Type).
  Variables (rO rI : A) (radd rmul rsub : A -> A -> A) (ropp rinv : A -> A).
  Variables isz skipz : A -> bool.
  Variable ofZ : Z -> A.
  Variables (absw : A -> Wt) (w0 : Wt) (wgt wge : Wt -> Wt -> bool) (wmul : Wt -> Wt -> Wt)
            (wrecip : Wt -> res Wt).

  Definition ring_elt : Elt := {|
    E := A; W := Wt;
    e_of_Z := ofZ;
    e_add := fun x y => Ok (radd x y);
    e_sub := fun x y => Ok (rsub x y);
    e_mul := fun x y => Ok (rmul x y);
    e_div := fun x y => if isz y then Err ZeroDivisionError else Ok (rmul x (rinv y));
    e_rdiv1 := fun y => if isz y then Err ZeroDivisionError else Ok (rinv y);
    e_pos := fun x => x;
    e_isz := isz;
    e_skip := skipz;
    e_abs := fun x => Ok (absw x);
    w_zero := w0; w_gt := wgt; w_ge := wge; w_mul := wmul; w_recip := wrecip
  |}.
End RingElt.

(* LUInst.v -- the element instance the LU model is RUN at: Python int, float and
   UncertainReal array elements (mixed freely, as numpy object arrays allow), over any Num;
   at FNum this is binary64 and is compared bit for bit with la.solve / inv / det / matmul.
   Uncertain-number arithmetic is Kernel.apply_bin, i.e. the operator bodies regenerated from
   GTC/lib.py on every run.  Also: the case checker used by the generated correspondence
   files.  Definitions only. *)
From Coq Require Import ZArith List Bool.
From Coq Require Import PrimFloat FloatOps SpecFloat.
From GTCV Require Import Num FNum Vector Opres KTypes Kernel LU.
Import ListNotations.

Section Inst.
  Variable N : Num.
  Notation V := (T N).

  Inductive elt :=
  | EU (o : ureal V)          (* UncertainReal *)
  | EN (v : V)                (* float *)
  | EI (z : Z)                (* int *)
  | EC (re im : V).           (* complex (a Python complex object; not numpy's complex128) *)

  Definition of_operand (o : operand N) : elt :=
    match o with OpdU u => EU u | OpdN v => EN v end.

  Definition fl (f : binop) (x y : V) : res elt :=
    match f with
    | B_add => Ok (EN (add N x y))
    | B_sub => Ok (EN (sub N x y))
    | B_mul => Ok (EN (mul N x y))
    | B_div => v <- div N x y ;; Ok (EN v)
    | _ => Err OtherExn
    end.

  Definition un_num (f : binop) (oa : ureal V) (v : V) : res elt :=
    r <- apply_bin N f (@OpdU N oa) (@OpdN N v) ;; o <- of_opval N r oa oa ;; Ok (of_operand o).
  Definition num_un (f : binop) (v : V) (ob : ureal V) : res elt :=
    r <- apply_bin N f (@OpdN N v) (@OpdU N ob) ;; o <- of_opval N r ob ob ;; Ok (of_operand o).

  (* CPython complex arithmetic (Objects/complexobject.c): sums and differences by components, the
     product by the textbook formula, the quotient _Py_c_quot (Smith's method); a float or int operand is
     first converted to a complex with imaginary part 0.0 *)
  Definition c_quot (ar ai br bi : V) : res elt :=
    let abr := if ltb N br (of_Z N 0) then neg N br else br in
    let abi := if ltb N bi (of_Z N 0) then neg N bi else bi in
    if leb N abi abr then
      if eqb N abr (of_Z N 0) then Err ZeroDivisionError
      else ratio <- div N bi br ;;
           let denom := add N br (mul N bi ratio) in
           re <- div N (add N ar (mul N ai ratio)) denom ;;
           im <- div N (sub N ai (mul N ar ratio)) denom ;;
           Ok (EC re im)
    else if leb N abr abi then
      ratio <- div N br bi ;;
      let denom := add N (mul N br ratio) bi in
      re <- div N (add N (mul N ar ratio) ai) denom ;;
      im <- div N (sub N (mul N ai ratio) ar) denom ;;
      Ok (EC re im)
    else Err OtherExn.          (* NaN operands: not generated *)

  Definition cbin (f : binop) (ar ai br bi : V) : res elt :=
    match f with
    | B_add => Ok (EC (add N ar br) (add N ai bi))
    | B_sub => Ok (EC (sub N ar br) (sub N ai bi))
    | B_mul => Ok (EC (sub N (mul N ar br) (mul N ai bi)) (add N (mul N ar bi) (mul N ai br)))
    | B_div => c_quot ar ai br bi
    | _ => Err OtherExn
    end.

  Definition as_num (a : elt) : option V :=
    match a with EN v => Some v | EI z => Some (of_Z N z) | _ => None end.

  (* lhs (op) rhs with Python's dispatch on the operand types *)
  Definition bin (f : binop) (a b : elt) : res elt :=
    match a, b with
    | EC ar ai, EC br bi => cbin f ar ai br bi
    | EC ar ai, _ => match as_num b with Some v => cbin f ar ai v (of_Z N 0) | None => Err OtherExn end
    | _, EC br bi => match as_num a with Some v => cbin f v (of_Z N 0) br bi | None => Err OtherExn end
    | EI x, EI y =>
        match f with
        | B_add => Ok (EI (x + y)) | B_sub => Ok (EI (x - y)) | B_mul => Ok (EI (x * y))
        | _ => fl f (of_Z N x) (of_Z N y)         (* int / int is true division *)
        end
    | EI x, EN y => fl f (of_Z N x) y
    | EN x, EI y => fl f x (of_Z N y)
    | EN x, EN y => fl f x y
    | EU oa, EU ob => r <- apply_bin N f (@OpdU N oa) (@OpdU N ob) ;; o <- of_opval N r oa ob ;; Ok (of_operand o)
    | EU oa, EN y => un_num f oa y
    | EU oa, EI y => un_num f oa (of_Z N y)
    | EN x, EU ob => num_un f x ob
    | EI x, EU ob => num_un f (of_Z N x) ob
    end.

  Definition val (a : elt) : V :=
    match a with EU o => ux o | EN v => v | EI z => of_Z N z | EC re _ => re end.

  Definition isz (a : elt) : bool :=
    match a with
    | EI z => Z.eqb z 0
    | EC re im => eqb N re (of_Z N 0) && eqb N im (of_Z N 0)
    | _ => eqb N (val a) (of_Z N 0)
    end.

  (* abs(x): of the value; for a complex number the external hypot(re, im) *)
  Definition eabs (a : elt) : res V :=
    match a with EC re im => libm2 N F_hypot re im | _ => Ok (nabs N (val a)) end.

  (* +x : UncertainReal.__pos__ copies the three vectors and drops the node; +number = number *)
  Definition pos (a : elt) : elt :=
    match a with
    | EU o => EU (new_un N (ux o) (uc o) (dc o) (ic o))
    | _ => a
    end.

  (* isinstance(x, numbers.Number) and x == 0.0 : uncertain numbers are not numbers.Number *)
  Definition skipz (a : elt) : bool :=
    match a with EU _ => false | _ => isz a end.

  Definition FElt : Elt := {|
    E := elt; W := V;
    e_of_Z := EI;
    e_add := bin B_add; e_sub := bin B_sub; e_mul := bin B_mul; e_div := bin B_div;
    e_rdiv1 := fun x => bin B_div (EN (of_Z N 1)) x;
    e_pos := pos;
    e_isz := isz;
    e_skip := skipz;
    e_abs := eabs;
    w_zero := of_Z N 0;
    w_gt := fun a b => ltb N b a;
    w_ge := fun a b => leb N b a;
    w_mul := mul N;
    w_recip := fun big => div N (of_Z N 1) big
  |}.

  (* the hand-written [pos] is what the generated body of __pos__ does (re-checked on every run) *)
  Lemma pos_is_generated : forall o : ureal V,
      v <- apply_un N U_pos o ;; of_opval N v o o = Ok (@OpdU N (new_un N (ux o) (uc o) (dc o) (ic o))).
  Proof. intros o. reflexivity. Qed.

  (* ---------- comparing with what the implementation produced ---------- *)
  Definition elt_same (a b : elt) : bool :=
    match a, b with
    | EU o, EU o' => out_eqb N (dump N o) (dump N o')
    | EN v, EN v' => same N v v'
    | EI z, EI z' => Z.eqb z z'
    | EC r i, EC r' i' => same N r r' && same N i i'
    | _, _ => false
    end.

  Fixpoint list_same {X} (eq : X -> X -> bool) (a b : list X) : bool :=
    match a, b with
    | [], [] => true
    | x :: a', y :: b' => eq x y && list_same eq a' b'
    | _, _ => false
    end.

  Definition rows_same := list_same (list_same elt_same).

  Definition res_same {X} (eq : X -> X -> bool) (a b : res X) : bool :=
    match a, b with
    | Ok x, Ok y => eq x y
    | Err e, Err e' => exn_eqb e e'
    | _, _ => false
    end.

  Inductive call :=
  | CSolve (n : nat) (a : list (list elt)) (b : list elt)
  | CSolve2 (n m : nat) (a b : list (list elt))
  | CInv (n : nat) (a : list (list elt))
  | CDet (n : nat) (a : list (list elt))
  | CInvab (n m : nat) (a b : list (list elt))
  | CMatmul (n m p : nat) (a b : list (list elt))
  | CTranspose (n m : nat) (a : list (list elt))
  | CDotN (PA La Lb QB M : nat) (fa fb : list elt)
  | CMatmulN (SA SB : list nat) (n La Lb p : nat) (fa fb : list elt)
  | CScale (lft : bool) (sc : elt) (fa : list elt)
  | CMatmulMixed (ra rb : nat)
  | CDtypeMismatch
  | CIdentity (n : nat)
  | CListArg
  | CBoolDtype
  | CTransposeN (shape axes : list nat) (fa : list elt).

  (* result rows and the contents of the argument arrays after the call *)
  Definition outcome := res (list (list elt) * list (list elt) * list (list elt)).

  Definition col0 (n : nat) (m : mat FElt) : list (list elt) := to_rows FElt n 1 m.

  (* shape checks: ludcmp raises RuntimeError unless a is square; numpy raises ValueError for
     misaligned dot operands *)
  Definition is_rect (n m : nat) (a : list (list elt)) : bool :=
    Nat.eqb (length a) n && forallb (fun r => Nat.eqb (length r) m) a.

  Definition run_call (c : call) : outcome :=
    match c with
    | CSolve n a b => if negb (is_rect n n a) then Err RuntimeError else
        let s : store FElt := fun p => match p with O => of_rows FElt a | _ => (fun i _ => of_list FElt b i) end in
        '(s', px) <- solve_at FElt n s 0 1 2 ;;
        Ok (col0 n (s' px), to_rows FElt n n (s' 0), col0 n (s' 1))
    | CSolve2 n m a b => if negb (is_rect n n a) then Err RuntimeError else
        let s : store FElt := fun p => match p with O => of_rows FElt a | _ => of_rows FElt b end in
        '(s', px) <- solve2_at FElt n m s 0 1 2 ;;
        Ok (to_rows FElt n m (s' px), to_rows FElt n n (s' 0), to_rows FElt n m (s' 1))
    | CInv n a => if negb (is_rect n n a) then Err RuntimeError else
        let s : store FElt := fun _ => of_rows FElt a in
        '(s', py) <- inv_at FElt n s 0 1 ;;
        Ok (to_rows FElt n n (s' py), to_rows FElt n n (s' 0), [])
    | CDet n a => if negb (is_rect n n a) then Err RuntimeError else
        let s : store FElt := fun _ => of_rows FElt a in
        '(s', d) <- det_at FElt n s 0 1 ;;
        Ok ([[d]], to_rows FElt n n (s' 0), [])
    | CInvab n m a b => if negb (is_rect n n a) then Err RuntimeError else
        let s : store FElt := fun p => match p with O => of_rows FElt a | _ => of_rows FElt b end in
        '(s', py) <- invab_at FElt n m s 0 1 2 ;;
        Ok (to_rows FElt n m (s' py), to_rows FElt n n (s' 0), to_rows FElt n m (s' 1))
    | CMatmul n m p a b => if negb (is_rect n m a && is_rect m p b) then Err ValueError else
        r <- matmul FElt n m p (of_rows FElt a) (of_rows FElt b) ;; Ok (r, a, b)
    | CTranspose n m a => Ok (transpose_rows elt m a, a, [])
    | CDotN PA La Lb QB M fa fb =>
        if negb (Nat.eqb La Lb) then Err ValueError else
        r <- nd_dot FElt PA La QB M (of_list FElt fa) (of_list FElt fb) ;; Ok ([r], [fa], [fb])
    | CMatmulN SA SB n La Lb p fa fb =>
        if negb (bcast_ok SA SB && Nat.eqb La Lb) then Err ValueError else
        r <- nd_matmul FElt SA SB n La p (of_list FElt fa) (of_list FElt fb) ;; Ok ([r], [fa], [fb])
    | CTransposeN shape axes fa =>
        Ok ([nd_transpose shape axes (of_list FElt fa)], [fa], [])
    (* known finding C15-4 (arguments that are not object-dtype uarrays): a nested list has no .dtype / .shape;
       UncertainArray.copy() applies unary + to numpy booleans (UFuncTypeError, not in the exn enumeration) *)
    | CListArg => Err AttributeError
    | CBoolDtype => Err OtherExn
    | CIdentity n => Ok (to_rows FElt n n (identity FElt), [], [])      (* la.identity(n): a fresh array of ints *)
    | CDtypeMismatch => Err AssertionError      (* LU.solve / LU.invab: assert a.dtype == b.dtype *)
    | CMatmulMixed ra rb =>
        (* known finding C15-3: la.matmul pairs the stacks of operands of the SAME rank only; with
           different ranks, one of them >= 3, the shorter operand is indexed with too many indices *)
        if negb (Nat.eqb ra rb) && Nat.leb 3 (Nat.max ra rb) then Err IndexError else Err OtherExn
    | CScale lft sc fa =>
        r <- nd_scale FElt lft sc (length fa) (of_list FElt fa) ;; Ok ([r], [fa], [])
    end.

  Definition outcome_same (x y : outcome) : bool :=
    res_same (fun p q => let '(r, a, b) := p in let '(r', a', b') := q in
                         rows_same r r' && rows_same a a' && rows_same b b') x y.

  (* -1: agreement; 1: result differs; 2: argument a differs; 3: argument b differs;
     4: one raised and the other did not / different exceptions *)
  Definition check_outcome (got expected : outcome) : Z :=
    match got, expected with
    | Ok (r, a, b), Ok (r', a', b') =>
        if negb (rows_same r r') then 1%Z
        else if negb (rows_same a a') then 2%Z
        else if negb (rows_same b b') then 3%Z else (-1)%Z
    | Err e, Err e' => if exn_eqb e e' then (-1)%Z else 4%Z
    | _, _ => 4%Z
    end.

  Definition check_call (c : call) (expected : outcome) : Z := check_outcome (run_call c) expected.
End Inst.

Arguments EU {N} o. Arguments EN {N} v. Arguments EI {N} z.

(* ---------- known finding C15-4, integer-dtype uarrays: LU.invab allocates its result with a.dtype, so every
   element of la.inv / LU.invab is stored through numpy's float -> integer cast (truncation toward zero) ---------- *)
Definition f_trunc (x : float) : Z :=
  match Prim2SF x with
  | S754_finite s m e =>
      let v := if (0 <=? e)%Z then Z.shiftl (Zpos m) e else Z.shiftr (Zpos m) (- e) in
      if s then (- v)%Z else v
  | _ => 0%Z
  end.

Definition trunc_elt (tbl : list oracle_entry) (e : elt (FNum tbl)) : elt (FNum tbl) :=
  match e with EN v => EI (f_trunc v) | _ => e end.

Definition check_call_int_result (tbl : list oracle_entry) (c : call (FNum tbl)) (expected : outcome (FNum tbl)) : Z :=
  check_outcome (FNum tbl)
    (match run_call (FNum tbl) c with
     | Ok (r, a, b) => Ok (map (map (trunc_elt tbl)) r, a, b)
     | Err e => Err e
     end) expected.

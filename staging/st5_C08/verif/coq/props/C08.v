(* props/C08.v -- Property C08: archives are isolated, order-independent and follow their
   lifecycle.  Only statements, closed by lemmas of LifecycleFacts.v, plus the axioms each depends
   on.  The model (Lifecycle.v) is tied to GTC/archive.py, persistence.py, context.py by the
   correspondence run of harness/p_C08.py (every step of every generated history, whole state). *)
From Coq Require Import ZArith List Bool String.
From GTCV Require Import Num Lifecycle LifecycleFacts.
Import ListNotations.
Open Scope Z_scope.

(* ---- (1) the lifecycle table, rejections: for ANY archive (so: at every point of every
   history) an operation that is not valid for the archive's state returns RuntimeError and
   leaves the whole state -- all archives, the session, numbers, documents -- unchanged *)
Theorem C08_lifecycle_rejects :
  forall st ar a, stable st -> nth_error (st_ars st) ar = Some a ->
  (is_open a = false -> forall kw kwo, kw <> [] -> resolve_kw (st_objs st) kw = Some kwo ->
      step st (OAdd ar kw) = (st, OutErr RuntimeError)) /\
  (is_thawed a = false -> forall names, names <> [] -> step st (OExtract ar names) = (st, OutErr RuntimeError)) /\
  (a_dump a = false -> forall f, step st (OWrite ar f) = (st, OutErr RuntimeError)) /\
  (alen a = 0%nat -> forall f, step st (OWrite ar f) = (st, OutErr RuntimeError)) /\
  (a_dump a = true -> step st (OThaw ar) = (st, OutErr RuntimeError)).
Proof. exact step_rejections. Qed.
Print Assumptions C08_lifecycle_rejects.

(* [stable st]: the weak registries hold exactly the nodes live numbers refer to; every state a
   history reaches is stable (induction over the history) *)
Theorem C08_reachable_stable : forall k0 (h : list op), stable (run (init_state k0) h).
Proof. exact run_stable. Qed.
Print Assumptions C08_reachable_stable.

(* the same, said of histories: after any finite sequence of session operations *)
Theorem C08_lifecycle_history :
  forall k0 (h : list op) ar a, nth_error (st_ars (run (init_state k0) h)) ar = Some a ->
  let st := run (init_state k0) h in
  (is_open a = false -> forall kw kwo, kw <> [] -> resolve_kw (st_objs st) kw = Some kwo ->
      step st (OAdd ar kw) = (st, OutErr RuntimeError)) /\
  (is_thawed a = false -> forall names, names <> [] -> step st (OExtract ar names) = (st, OutErr RuntimeError)) /\
  (a_dump a = false -> forall f, step st (OWrite ar f) = (st, OutErr RuntimeError)) /\
  (alen a = 0%nat -> forall f, step st (OWrite ar f) = (st, OutErr RuntimeError)) /\
  (a_dump a = true -> step st (OThaw ar) = (st, OutErr RuntimeError)).
Proof. intros k0 h ar a H. exact (step_rejections _ ar a (run_stable k0 h) H). Qed.
Print Assumptions C08_lifecycle_history.

(* ---- (2) open archives: add is accepted exactly by the tag/type/declaration rule [add_ok];
   a rejected add leaves the archive unchanged, in every row *)
Theorem C08_add_accepts_iff :
  forall a key o, is_open a = true -> (snd (setitem a key o) = Ok tt <-> add_ok a key o = true).
Proof. exact setitem_accepts_iff. Qed.
Print Assumptions C08_add_accepts_iff.

(* every rejected _setitem -- every row of the table, the undeclared complex included since the
   repair (fix: checks before side effects) -- leaves the archive exactly as it was *)
Theorem C08_add_reject_unchanged :
  forall a key o a' e, setitem a key o = (a', Err e) ->
  a' = a /\ (e = RuntimeError \/ (e = AttributeError /\ a_u2i a = None)).
Proof. exact setitem_atomic. Qed.
Print Assumptions C08_add_reject_unchanged.

(* Archive.add with any keyword list is all or nothing (fix: add restores the dicts when an entry
   is rejected); replaces the former C08_add_partial_refuted / C08_add_undeclared_complex_refuted *)
Theorem C08_add_atomic :
  forall a kw a' e, add a kw = (a', Err e) -> a' = a /\ (e = RuntimeError \/ e = AttributeError).
Proof. exact add_atomic. Qed.
Print Assumptions C08_add_atomic.

(* replaces the former C08_write_after_failed_add_refuted: a rejected add cannot spoil a later write *)
Theorem C08_write_after_rejected_add :
  forall s a kw a' e f, add a kw = (a', Err e) -> write s a' f = write s a f.
Proof. exact write_after_rejected_add. Qed.
Print Assumptions C08_write_after_rejected_add.

Theorem C08_add_stores :
  forall a key r a', setitem a key (PReal r) = (a', Ok tt) ->
  sget (a_treal a') key = Some (RLive r) /\
  (forall k', k' <> key -> sget (a_treal a') k' = sget (a_treal a) k') /\
  a_tcomplex a' = a_tcomplex a /\ a_ureal a' = a_ureal a /\ is_open a' = true.
Proof. exact setitem_real_stored. Qed.
Print Assumptions C08_add_stores.

(* the inputs that used to witness the three defects (replayed on GTC as regression checks) *)
Example C08_former_witnesses_repaired :
  add empty_archive [("a"%string, PReal x_elem); ("b"%string, PReal p_plain)] = (empty_archive, Err RuntimeError) /\
  setitem empty_archive "z"%string (PComplex p_plain p_plain) = (empty_archive, Err RuntimeError) /\
  exists a0 a1, add empty_archive [("a"%string, PReal x_elem)] = (a0, Ok tt) /\
    setitem a0 "z"%string (PComplex p_plain p_plain) = (a0, Err RuntimeError) /\
    (forall f, exists d, write ses1 a0 f = (a1, Ok d)) /\ is_written a1 = true /\
    snd (setitem a0 "m"%string (PReal m_interm)) = Ok tt.
Proof. exact former_witnesses_repaired. Qed.

(* ---- (3) written: write again = same document, archive unchanged, whatever the session did *)
Theorem C08_write_twice_same :
  forall s a f a1 d s', write s a f = (a1, Ok d) -> write s' a1 f = (a1, Ok d).
Proof. exact write_twice_same. Qed.
Print Assumptions C08_write_twice_same.

(* ---- (4) Archive.copy of an archive in any state: an open archive with the same tags; copying
   an open / thawed archive touches nothing else *)
Theorem C08_copy_open_same_tags :
  forall s a s' a', copy s a = (s', Ok a') -> is_open a' = true /\ tags a' = tags a.
Proof. intros s a s' a' H. split; [exact (copy_is_open _ _ _ _ H) | exact (copy_same_tags _ _ _ _ H)]. Qed.
Print Assumptions C08_copy_open_same_tags.

Theorem C08_copy_ready_pure : forall s a, a_ready a = true -> fst (copy s a) = s.
Proof. exact copy_ready_pure. Qed.
Print Assumptions C08_copy_ready_pure.

(* ---- (5) isolation: add / write / extract, succeeding or failing, in any state, leave the
   session alone: counters unchanged, every registered leaf keeps its attributes, every leaf a
   live number refers to stays registered (a written archive no longer holds numbers, so nodes
   only it referred to leave the weak registry) *)
Theorem C08_write_pure :
  forall st ar f, session_preserved st (fst (step st (OWrite ar f))) /\ st_objs (fst (step st (OWrite ar f))) = st_objs st.
Proof. exact step_write_pure. Qed.
Print Assumptions C08_write_pure.

Theorem C08_add_pure :
  forall st ar kw, session_preserved st (fst (step st (OAdd ar kw))) /\ st_objs (fst (step st (OAdd ar kw))) = st_objs st /\
                   st_docs (fst (step st (OAdd ar kw))) = st_docs st.
Proof. exact step_add_pure. Qed.
Print Assumptions C08_add_pure.

Theorem C08_extract_pure :
  forall st ar names,
  session_preserved st (fst (step st (OExtract ar names))) /\
  st_ars (fst (step st (OExtract ar names))) = st_ars st /\
  st_docs (fst (step st (OExtract ar names))) = st_docs st.
Proof. exact step_extract_pure. Qed.
Print Assumptions C08_extract_pure.

(* reading is pure for what live numbers report from their leaves (fix: _thaw merges the archived
   correlations instead of assigning them): loading a document, Archive.copy, _thaw -- succeeding
   or failing, at any point of any history -- never unregisters a leaf a live number refers to,
   never changes its label, u, df, independent, never removes or changes a correlation it
   knows, and keeps its ensemble (the same set object, at least the same members).  Replaces the former C08_read_pure_refuted / C08_copy_pure_refuted. *)
Theorem C08_read_pure :
  forall st o u l, load_op o = true ->
  In u (flat_map pyobj_leaf_refs (st_objs st)) -> lget (s_leaves (st_ses st)) u = Some l ->
  exists l', lget (s_leaves (st_ses (fst (step st o)))) u = Some l' /\ leaf_le l l'.
Proof. exact step_load_keeps. Qed.
Print Assumptions C08_read_pure.

Theorem C08_thaw_keeps_session :
  forall s a b s' a' r, thaw s a b = (s', a', r) -> keeps s s'.
Proof. exact thaw_keeps. Qed.
Print Assumptions C08_thaw_keeps_session.

(* the history that used to lose r(y1,y3): now the registry is literally unchanged by the load *)
Example C08_hist17_repaired :
  let st := run (init_state 1) hist17 in
  snd (step st (ORead 0)) = OutOk /\ snd (step st (OCopy 0)) = OutOk /\
  corr_of st (1, 1) (1, 3) = Some 2 /\ corr_of st (1, 3) (1, 1) = Some 2 /\
  corr_of (fst (step st (ORead 0))) (1, 1) (1, 3) = Some 2 /\ corr_of (fst (step st (ORead 0))) (1, 1) (1, 2) = Some 4 /\
  corr_of (fst (step st (OCopy 0))) (1, 1) (1, 3) = Some 2 /\
  s_leaves (st_ses (fst (step st (ORead 0)))) = s_leaves (st_ses st).
Proof. exact hist17_repaired. Qed.

(* a JSON document is read exactly as the pickled frozen archive (fix in json_format.jason_to_leaf,
   C07): replaces the former C08_read_json_complex_refuted *)
Theorem C08_read_json_as_pickle : forall s a, read s (FJson, a) = read s (FPickle, a).
Proof. exact read_json_as_pickle. Qed.
Print Assumptions C08_read_json_as_pickle.

Example C08_hist20_repaired :
  let st := run (init_state 1) hist20 in
  snd (step st (ORead 0)) = OutOk /\ st_ses (fst (step st (ORead 0))) = st_ses st.
Proof. exact hist20_repaired. Qed.

(* ---- (5a') the live register wins entry by entry, an explicit zero included: a coefficient revised
   after the dump (to zero, to another value, or newly added) is what the leaf knows after any load *)
Theorem C08_live_entry_wins :
  forall arch c v r, dget uid_eqb c v = Some r -> dget uid_eqb (corr_merge c arch) v = Some r.
Proof. exact corr_merge_live_wins. Qed.
Print Assumptions C08_live_entry_wins.

Example C08_live_zero_wins :
  let st := run (init_state 1) hist_zero in
  let rd := fst (step st (ORead 0)) in let cp := fst (step st (OCopy 0)) in
  snd (step st (ORead 0)) = OutOk /\ snd (step st (OCopy 0)) = OutOk /\
  corr_of st (1, 1) (1, 4) = Some 0 /\ corr_of st (1, 2) (1, 3) = Some 0 /\
  corr_of st (1, 1) (1, 3) = Some 2 /\ corr_of st (1, 2) (1, 4) = Some (-4) /\
  s_leaves (st_ses rd) = s_leaves (st_ses st) /\ s_leaves (st_ses cp) = s_leaves (st_ses st).
Proof. exact live_zero_wins. Qed.

(* ---- (5b) order of loads: what a leaf knows after an archived record is merged into its own is
   its own entries plus the archived ones it lacked; records that agree wherever both speak
   (archives written at different times: the later one only adds correlations) merge to the
   same knowledge in either order *)
Theorem C08_merge_lookup :
  forall b a v, dget uid_eqb (corr_merge a b) v = match dget uid_eqb a v with Some r => Some r | None => dget uid_eqb b v end.
Proof. exact dget_corr_merge. Qed.
Print Assumptions C08_merge_lookup.

Theorem C08_merge_order_independent :
  forall a b, (forall v r r', dget uid_eqb a v = Some r -> dget uid_eqb b v = Some r' -> r = r') ->
  forall v, dget uid_eqb (corr_merge a b) v = dget uid_eqb (corr_merge b a) v.
Proof. exact corr_merge_order. Qed.
Print Assumptions C08_merge_order_independent.

(* A = {x,y} written, THEN r(x,z) declared, THEN B = {x,z} written; a fresh session reads A,B or B,A *)
Example C08_order_ab_ba :
  let st := run (init_state 1) hist_ab in
  let ab := run st [ORead 0; ORead 1] in
  let ba := run st [ORead 1; ORead 0] in
  corr_of ab (1, 1) (1, 3) = Some 2 /\ corr_of ab (1, 3) (1, 1) = Some 2 /\ corr_of ab (1, 1) (1, 2) = Some 4 /\
  corr_of ba (1, 1) (1, 3) = Some 2 /\ corr_of ba (1, 3) (1, 1) = Some 2 /\ corr_of ba (1, 1) (1, 2) = Some 4.
Proof. exact order_ab_ba. Qed.

(* ---- (5c) ensembles.  [leaf_le] (the relation of C08_read_pure / C08_thaw_keeps_session) includes the
   ensemble since the repair (fix: _thaw extends a live node's ensemble in place): a live leaf keeps
   its set OBJECT (members of an ensemble share it; append_real_ensemble relies on that) with at least
   the members it had -- unconditionally; the members afterwards are exactly the old ones and the
   archived ones, so nothing changes when the record names only members the leaf already has (every
   document written in the session).  Replaces the former C08_thaw_keeps_ensemble_partial. *)
Theorem C08_thaw_keeps_ensemble :
  forall s a b s' a' r u l g c, thaw s a b = (s', a', r) ->
  lget (s_leaves s) u = Some l -> l_ens l = Some (g, c) ->
  exists l' c', lget (s_leaves s') u = Some l' /\ l_ens l' = Some (g, c') /\ incl c c'.
Proof.
  intros s a b s' a' r u l g c H Hl He. destruct (thaw_keeps _ _ _ _ _ _ H u l Hl) as (l' & G & L).
  destruct L as (_ & _ & _ & _ & _ & L6). destruct (L6 _ _ He) as (c' & E' & I). eauto.
Qed.
Print Assumptions C08_thaw_keeps_ensemble.

Theorem C08_ensemble_update_members :
  forall e c x, In x (ens_union c e) <-> In x c \/ In x e.
Proof. exact ens_union_in. Qed.
Print Assumptions C08_ensemble_update_members.

(* x1,x2,x3 one ensemble (5 dof); archive A holds x1 only, archive B holds x2,x3; reading A and B and
   Archive.copy of A in the session leave every live leaf's ensemble {x1,x2,x3} *)
Example C08_split_ensemble :
  let st := run (init_state 1)
    [ODeclEnsemble [(None, 2); (None, 3); (None, 5)] 5; OSetCorr 0 1 4;
     OArchive; OAdd 0 [("x1"%string, 0%nat)]; OWrite 0 FJson;
     OArchive; OAdd 1 [("x2"%string, 1%nat); ("x3"%string, 2%nat)]; OWrite 1 FXml;
     ORead 0; ORead 1; OCopy 0] in
  map (fun p => l_ens (snd p)) (s_leaves (st_ses st)) =
  [Some ((1, 1), [(1, 1); (1, 2); (1, 3)]); Some ((1, 1), [(1, 1); (1, 2); (1, 3)]); Some ((1, 1), [(1, 1); (1, 2); (1, 3)])].
Proof. vm_compute. reflexivity. Qed.

(* the former defect: a,b an ensemble, archived; then y joins the ensemble (a line-fit prediction);
   reading the OLDER document keeps y in the ensemble of a, b and y, and the set is still shared:
   a further member w appended through b reaches a and y as well *)
Example C08_grown_ensemble_repaired :
  let st := run (init_state 1)
    [ODeclEnsemble [(None, 2); (None, 3)] 13; OArchive; OAdd 0 [("a"%string, 0%nat); ("b"%string, 1%nat)]; OWrite 0 FJson;
     ODeclReal None 4 13 false; OAppendEns 0 2; ORead 0; ODeclReal None 5 13 false; OAppendEns 1 3] in
  map (fun p => l_ens (snd p)) (s_leaves (st_ses st)) =
  [Some ((1, 1), [(1, 1); (1, 2); (1, 3); (1, 4)]); Some ((1, 1), [(1, 1); (1, 2); (1, 3); (1, 4)]);
   Some ((1, 1), [(1, 1); (1, 2); (1, 3); (1, 4)]); Some ((1, 1), [(1, 1); (1, 2); (1, 3); (1, 4)])].
Proof. vm_compute. reflexivity. Qed.

(* ---- (6) fresh uids.  Loading (and Archive.copy) never touches the context id or the counters;
   a number declared after a load takes (context id, counter+1), which no uid of the document
   equals when the document comes from a session with another context id (uuid4: assumption) *)
Theorem C08_load_keeps_counters :
  forall s d s' r, read s d = (s', r) -> s_id s' = s_id s /\ s_ne s' = s_ne s /\ s_ni s' = s_ni s.
Proof. exact read_counters. Qed.
Print Assumptions C08_load_keeps_counters.

Theorem C08_fresh_uid :
  forall s d s' a' lbl u df ind s'' r,
  (forall v, In v (doc_uids (snd d)) -> fst v <> s_id s) ->
  read s d = (s', Ok a') -> decl_real s' lbl u df ind = (s'', Ok r) ->
  exists id, r_node r = NLeaf id /\ ~ In id (doc_uids (snd d)).
Proof. exact fresh_uid_other_session. Qed.
Print Assumptions C08_fresh_uid.

(* same-session documents: fresh as long as every same-context uid of the document is at most
   the counter -- an invariant of histories that is validated by the correspondence and the
   oracle but not proved here (hence _partial); it is re-established by the conclusion *)
Theorem C08_fresh_uid_partial :
  forall s d s' a' lbl u df ind s'' r,
  bounded s (doc_uids (snd d)) ->
  read s d = (s', Ok a') -> decl_real s' lbl u df ind = (s'', Ok r) ->
  r_node r = NLeaf (s_id s, s_ne s + 1) /\ ~ In (s_id s, s_ne s + 1) (doc_uids (snd d)) /\ bounded s'' (doc_uids (snd d)).
Proof. exact fresh_uid_after_read. Qed.
Print Assumptions C08_fresh_uid_partial.

(* non-vacuity of (6): a document written in session 3 is read in session 4, then a number is declared *)
Example C08_fresh_uid_nonvacuous :
  let st := run (init_state 3) [ODeclReal None 16 (-1) true; OArchive; OAdd 0 [("x"%string, 0%nat)]; OWrite 0 FJson; ONewSession 4] in
  exists d s' a' s'' r,
    nth_error (st_docs st) 0 = Some d /\ doc_uids (snd d) = [(3, 1); (3, 1)] /\
    (forall v, In v (doc_uids (snd d)) -> fst v <> s_id (st_ses st)) /\
    read (st_ses st) d = (s', Ok a') /\ decl_real s' None 16 (-1) true = (s'', Ok r) /\ r_node r = NLeaf (4, 1).
Proof.
  vm_compute. do 5 eexists. split; [reflexivity|]. split; [reflexivity|]. split.
  - intros v [<-|[<-|[]]]; discriminate.
  - split; [reflexivity|]. split; reflexivity.
Qed.

(* ---- non-vacuity: a history that reaches an archive in each of the four states, with an
   accepted and a rejected operation for each *)
Open Scope string_scope.
Definition ex_hist : list op :=
  [ODeclReal (Some "x") 16 (-1) true; ODeclComplex (Some "z") 4 8 (-1) false; OMul 0 1; OResult 2 (Some "m") 1 2;
   OArchive; OAdd 0 [("x", 0%nat); ("z", 1%nat); ("m", 3%nat)];       (* archive 0: open *)
   OCopy 0; OWrite 1 FJson;                                             (* archive 1: written *)
   ORead 0;                                                             (* archive 2: thawed *)
   OReadRaw 0].                                                         (* archive 3: loaded, not thawed *)
Example C08_nonvacuous :
  let st := run (init_state 3) ex_hist in
  option_map is_open (nth_error (st_ars st) 0) = Some true /\
  option_map is_written (nth_error (st_ars st) 1) = Some true /\
  option_map is_thawed (nth_error (st_ars st) 2) = Some true /\
  option_map is_loaded (nth_error (st_ars st) 3) = Some true /\
  snd (step st (OAdd 0 [("w", 0%nat)])) = OutOk /\ snd (step st (OExtract 0 ["x"])) = OutErr RuntimeError /\
  snd (step st (OWrite 1 FXml)) = OutOk /\ snd (step st (OAdd 1 [("w", 0%nat)])) = OutErr RuntimeError /\
  (exists os, snd (step st (OExtract 2 ["x"; "z"; "m"])) = OutObjs os /\ List.length os = 3%nat) /\
  snd (step st (OWrite 2 FJson)) = OutErr RuntimeError /\
  snd (step st (OThaw 3)) = OutOk /\ snd (step st (OExtract 3 ["x"])) = OutErr RuntimeError /\
  snd (step st (OCopy 3)) = OutOk.
Proof. vm_compute. repeat split; try reflexivity. eexists; split; reflexivity. Qed.

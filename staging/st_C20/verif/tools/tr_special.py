#!/usr/bin/env python3
"""tr_special.py -- fail-closed Python-ast -> Gallina translator for the formula-level parts of
the special propagation functions (property C20).  Usage: tr_special.py <repo> <outdir>

Emits <outdir>/Gen_special.v with
  g_mul2_weights / g_mul2_value   lib.mult_2nd_real_pair: the two weight formulas for both values
                                  of `estimated`, the value expression (and a shape check that the
                                  result is UncertainReal(value, merge_weighted(u,w1,u,w2), Vector(),
                                  merge_weighted(i,w1,i,w2)) after the x1,x2,v1,v2 reads)
  g_simple_variance               function._simple_variance: the three tolerances -> RuntimeError
  g_implicit_dx_dy                function.implicit_real: dx_dy (and the shape of the returned object)
  g_nr_get_root_shape             function.nr_get_root: witness that the statement sequence is the one coq/Special.v models by hand
  g_merge_tol / g_merge_differs   type_a.merge: default TOL, the guard (and the shape a + (b - value(b)))
  g_mod_value / g_fmod_value      UncertainReal.__mod__ / _fmod value expressions (and their shapes)
Anything outside the recognised shape makes that definition ABSENT (comment says why), so the
model coq/Special.v stops compiling: nothing is guessed and no old definition is reused."""
import ast, sys, os
sys.path.insert(0, os.path.dirname(os.path.abspath(__file__)))
from translate import FunCompiler, Untranslatable

def find_func(tree, name, cls=None):
    body = tree.body
    if cls is not None:
        for n in body:
            if isinstance(n, ast.ClassDef) and n.name == cls:
                body = n.body; break
        else:
            raise Untranslatable('class %s not found' % cls)
    for n in body:
        if isinstance(n, ast.FunctionDef) and n.name == name:
            return n
    raise Untranslatable('function %s not found' % name)

def strip_doc(stmts):
    if stmts and isinstance(stmts[0], ast.Expr) and isinstance(stmts[0].value, ast.Constant) and isinstance(stmts[0].value.value, str):
        return stmts[1:]
    return stmts

def src(e):
    return ast.unparse(e).replace(' ', '').replace('\n', '')

def straight(fc, stmts):
    """straight-line assignments -> list of binder strings; updates fc.env"""
    pre = []
    for s in stmts:
        if not (isinstance(s, ast.Assign) and len(s.targets) == 1 and isinstance(s.targets[0], ast.Name)):
            raise Untranslatable('statement %s in a straight-line block' % type(s).__name__)
        p, t = fc.expr(s.value)
        v = fc.fresh(s.targets[0].id)
        pre += p + ['%s <- Ok %s' % (v, t)]
        fc.env[s.targets[0].id] = v
    return pre

# ------------------------------------------------------------------ lib.mult_2nd_real_pair
def tr_mul2(lib):
    f = find_func(lib, 'mult_2nd_real_pair')
    if [a.arg for a in f.args.args] != ['arg1', 'arg2', 'estimated']:
        raise Untranslatable('mult_2nd_real_pair arguments')
    body = strip_doc(f.body)
    # prologue: the influence / dependence checks -- shape-checked textually (modelled by hand)
    want_pro = ['uids=set()', 'u_args=[]',
                "forargin(arg1,arg2):\\narg_uids=set(arg._u_components.keys())\\nforuidinarg_uids:\\nifuidinuids:\\nraiseRuntimeError('{!r}isacommoninfluence'.format(arg))\\nuids.update(arg_uids)\\nu_args.append(arg.u)",
                "iflen(arg1._d_components)orlen(arg2._d_components):\\nraiseRuntimeError('influenceswerenotdefinedasindependent')"]
    got = [ast.unparse(s).replace(' ', '').replace('\n', '\\n') for s in body[:4]]
    if got != want_pro:
        raise Untranslatable('mult_2nd_real_pair precondition prologue changed: %r' % (got,))
    reads = [src(s) for s in body[4:8]]
    if reads != ['x1=arg1._x', 'x2=arg2._x', 'v1=arg1.v', 'v2=arg2.v']:
        raise Untranslatable('mult_2nd_real_pair reads: %r' % (reads,))
    iff = body[8]
    if not (isinstance(iff, ast.If) and src(iff.test) == 'estimatedisTrue'):
        raise Untranslatable('estimated test')
    tail = [src(s) for s in body[9:]]
    want_tail = ['v=vector.merge_weighted_vectors(arg1._u_components,weight1,arg2._u_components,weight2)',
                 'interm=vector.merge_weighted_vectors(arg1._i_components,weight1,arg2._i_components,weight2)']
    if tail[:2] != want_tail or len(body) != 12 or not isinstance(body[11], ast.Return):
        raise Untranslatable('mult_2nd_real_pair result assembly: %r' % (tail,))
    r = body[11].value
    if not (isinstance(r, ast.Call) and src(r.func) == 'UncertainReal' and len(r.args) == 4 and not r.keywords
            and [src(a) for a in r.args[1:]] == ['v', 'vector.Vector()', 'interm']):
        raise Untranslatable('mult_2nd_real_pair return shape')
    env = {'x1': 'x1', 'x2': 'x2', 'v1': 'v1', 'v2': 'v2'}
    def arm(stmts):
        fc = FunCompiler(env)
        pre = straight(fc, stmts)
        if 'weight1' not in fc.env or 'weight2' not in fc.env:
            raise Untranslatable('weights not assigned')
        return fc.close(pre, 'Ok (%s, %s)' % (fc.env['weight1'], fc.env['weight2']))
    a = arm(iff.body); b = arm(iff.orelse)
    fc = FunCompiler(env)
    p, t = fc.expr(r.args[0])
    if p: raise Untranslatable('effectful value expression')
    return ('Definition g_mul2_weights (N : Num) (estimated : bool) (x1 x2 v1 v2 : T N) : res (T N * T N) :=\n'
            '  if estimated then %s\n  else %s.\n\n'
            'Definition g_mul2_value (N : Num) (x1 x2 : T N) : T N := %s.\n' % (a, b, t))

# ------------------------------------------------------------------ function._simple_variance
def booltest(fc, t):
    if isinstance(t, ast.BoolOp):
        parts = [booltest(fc, v) for v in t.values]
        op = ' || ' if isinstance(t.op, ast.Or) else ' && '
        return '(' + op.join(parts) + ')'
    return fc.test(t)

def tr_simple_variance(fn):
    f = find_func(fn, '_simple_variance')
    body = strip_doc(f.body)
    if not (len(body) == 2 and src(body[0]) == 'v11,v12,v21,v22=v' and isinstance(body[1], ast.If)
            and not body[1].orelse and len(body[1].body) == 1 and isinstance(body[1].body[0], ast.Raise)):
        raise Untranslatable('_simple_variance shape')
    fc = FunCompiler({'v11': 'v11', 'v12': 'v12', 'v21': 'v21', 'v22': 'v22'})
    c = booltest(fc, body[1].test)
    e = fc.exn(body[1].body[0].exc)
    return ('Definition g_simple_variance (N : Num) (v11 v12 v21 v22 : T N) : res unit :=\n'
            '  if %s then Err %s else Ok tt.\n' % (c, e))

# ------------------------------------------------------------------ function.implicit_real
def tr_implicit(fn):
    f = find_func(fn, 'implicit_real')
    body = strip_doc(f.body)
    got = [src(s) for s in body]
    want = ['xk,dy_dx=nr_get_root(fn,x_min,x_max,epsilon)', 'y=fn(UncertainReal._constant(xk))', None,
            'returnUncertainReal(xk,vector.scale_vector(y._u_components,dx_dy),vector.scale_vector(y._d_components,dx_dy),vector.scale_vector(y._i_components,dx_dy))']
    if len(got) != 4 or any(w is not None and w != g for w, g in zip(want, got)):
        raise Untranslatable('implicit_real shape: %r' % (got,))
    s = body[2]
    if not (isinstance(s, ast.Assign) and src(s.targets[0]) == 'dx_dy'):
        raise Untranslatable('dx_dy assignment')
    fc = FunCompiler({'dy_dx': 'dy_dx'})
    p, t = fc.expr(s.value)
    return 'Definition g_implicit_dx_dy (N : Num) (dy_dx : T N) : res (T N) :=\n  %s.\n' % fc.close(p, 'Ok ' + t)

# ------------------------------------------------------------------ function.nr_get_root (hand-modelled: shape pin)
class _NoStr(ast.NodeTransformer):
    """error-message texts are irrelevant to the model"""
    def visit_Constant(self, n):
        return ast.copy_location(ast.Constant(value='S'), n) if isinstance(n.value, str) else n

NR_GET_ROOT_SHAPE = ["ifx_max<=x_min:\\nraiseRuntimeError('S'.format((x_min,x_max)))",
 'lower,upper=(x_min,x_max)',
 'ureal=lambdax,u:UncertainReal._elementary(x,u,inf,None,True)',
 'value=lambdax:x.xifisinstance(x,UncertainReal)elsefloat(x)',
 'x=ureal(lower,1.0)',
 'f_x=fn(x)',
 'fl=value(f_x)',
 "assertisinstance(f_x,UncertainReal),'S'%type(f_x)",
 'ifabs(fl)<epsilon:\\nreturn(lower,f_x.sensitivity(x))',
 'x=ureal(upper,1.0)',
 'f_x=fn(x)',
 'fu=value(f_x)',
 'ifabs(fu)<epsilon:\\nreturn(upper,f_x.sensitivity(x))',
 "iffl*fu>=0.0:\\nraiseRuntimeError('S'.format((fl,fu)))",
 'iffl>0.0:\\nlower,upper=(upper,lower)',
 'xk=(lower+upper)/2.0',
 'dx2=abs(upper-lower)',
 'dx=dx2',
 'x=ureal(xk,1.0)',
 'f_x=fn(x)',
 'f=value(f_x)',
 'df=f_x.sensitivity(x)',
 'foriinxrange(100):\\nif((xk-upper)*df-f)*((xk-lower)*df-f)>0.0orabs(2.0*f)>abs(dx2*df):\\ndx2=dx\\ndx=(upper-lower)/2.0\\nifabs(dx)<=epsilon:\\nreturn(xk,df)\\nelse:\\nxk=lower+dx\\nelse:\\ndx2=dx\\ndx=f/df\\nifabs(dx)<=epsilon:\\nreturn(xk,df)\\nelse:\\nxk-=dx\\nifabs(dx)<=epsilon:\\nreturn(xk,df)\\nx=ureal(xk,1.0)\\nf_x=fn(x)\\nf=value(f_x)\\ndf=f_x.sensitivity(x)\\niff<0.0:\\nlower=xk\\nelse:\\nupper=xk',
 "raiseRuntimeError('S')"]

def tr_nr_get_root(fn):
    """coq/Special.v models nr_get_root by hand (probe at x_min, early exit returning `lower` and the sensitivity of THAT
    evaluation, probe at x_max, early exit returning `upper` and the sensitivity of THAT evaluation, sign test, swap, the
    100-iteration Newton/bisection loop).  The source must have exactly the statement sequence the model was written against
    (modulo layout, comments and message texts); otherwise the witness definition is absent and Special.v stops compiling."""
    f = find_func(fn, 'nr_get_root')
    if [a.arg for a in f.args.args] != ['fn', 'x_min', 'x_max', 'epsilon']:
        raise Untranslatable('nr_get_root arguments')
    got = [ast.unparse(_NoStr().visit(s)).replace(' ', '').replace('\n', '\\n') for s in strip_doc(f.body)]
    if got != NR_GET_ROOT_SHAPE:
        for i, (g, w) in enumerate(zip(got + [None] * len(NR_GET_ROOT_SHAPE), NR_GET_ROOT_SHAPE + [None] * len(got))):
            if g != w:
                raise Untranslatable('nr_get_root statement %d is %r, the model was written against %r' % (i, g, w))
    return 'Definition g_nr_get_root_shape : unit := tt.\n'

# ------------------------------------------------------------------ type_a.merge
def tr_merge(ta):
    f = find_func(ta, 'merge')
    if [a.arg for a in f.args.args] != ['a', 'b', 'TOL'] or len(f.args.defaults) != 1:
        raise Untranslatable('merge arguments')
    fc = FunCompiler({'va': 'va', 'vb': 'vb', 'TOL': 'tol'})
    p, tol = fc.expr(f.args.defaults[0])
    body = strip_doc(f.body)
    if not (len(body) == 1 and isinstance(body[0], ast.If) and len(body[0].body) == 1 and isinstance(body[0].body[0], ast.Raise)
            and len(body[0].orelse) == 1 and src(body[0].orelse[0]) == 'returna+(b-value(b))'):
        raise Untranslatable('merge shape')
    if fc.exn(body[0].body[0].exc) != 'RuntimeError':
        raise Untranslatable('merge exception')
    t = body[0].test
    # abs(value(a) - value(b)) > TOL   with value(a), value(b) named va, vb
    class Sub(ast.NodeTransformer):
        def visit_Call(self, n):
            if isinstance(n.func, ast.Name) and n.func.id == 'value' and len(n.args) == 1 and isinstance(n.args[0], ast.Name) \
                    and n.args[0].id in ('a', 'b'):
                return ast.Name(id='v' + n.args[0].id, ctx=ast.Load())
            return self.generic_visit(n)
    c = fc.test(Sub().visit(t))
    return ('Definition g_merge_tol (N : Num) : T N := %s.\n\n'
            'Definition g_merge_differs (N : Num) (va vb tol : T N) : bool := %s.\n' % (tol, c))

# ------------------------------------------------------------------ UncertainReal.__mod__, _fmod
def tr_mod(lib):
    f = find_func(lib, '__mod__', 'UncertainReal')
    body = strip_doc(f.body)
    want = 'returnUncertainReal(self.x%y,vector.Vector(copy=self._u_components),vector.Vector(copy=self._d_components),vector.Vector(copy=self._i_components))'
    if len(body) != 1 or src(body[0]) != want:
        raise Untranslatable('__mod__ shape')
    fc = FunCompiler({'self.x': 'x', 'y': 'y'})
    p, t = fc.expr(body[0].value.args[0])
    out = 'Definition g_mod_value (N : Num) (x y : T N) : res (T N) :=\n  %s.\n\n' % fc.close(p, 'Ok ' + t)
    g = find_func(lib, '_fmod', 'UncertainReal')
    body = strip_doc(g.body)
    if [src(s) for s in body] != ['x=self._x', 'returnmath.fmod(x,y)+(self-x)']:
        raise Untranslatable('_fmod shape')
    fc = FunCompiler({'x': 'x', 'y': 'y'})
    p, t = fc.expr(body[1].value.left)
    out += 'Definition g_fmod_value (N : Num) (x y : T N) : res (T N) :=\n  %s.\n' % fc.close(p, 'Ok ' + t)
    return out

def main(repo, outdir):
    parse = lambda p: ast.parse(open(os.path.join(repo, 'GTC', p)).read())
    lib, fn, ta = parse('lib.py'), parse('function.py'), parse('type_a.py')
    parts = ['(* GENERATED by tools/tr_special.py from GTC/lib.py, GTC/function.py, GTC/type_a.py -- do not edit *)\n'
             'From Coq Require Import ZArith Bool.\nFrom GTCV Require Import Num.\n']
    rc = 0
    for name, th in [('mult_2nd_real_pair', lambda: tr_mul2(lib)), ('_simple_variance', lambda: tr_simple_variance(fn)),
                     ('implicit_real', lambda: tr_implicit(fn)), ('nr_get_root', lambda: tr_nr_get_root(fn)), ('merge', lambda: tr_merge(ta)),
                     ('__mod__/_fmod', lambda: tr_mod(lib))]:
        try:
            parts.append(th())
        except (Untranslatable, IndexError, AttributeError) as ex:
            parts.append('(* %s: NOT TRANSLATED (%s) -- definition absent on purpose *)\n' % (name, str(ex).replace('*)', '* )')[:400]))
            print('tr_special: %s not translated: %s' % (name, ex))
            rc = 1
    os.makedirs(outdir, exist_ok=True)
    with open(os.path.join(outdir, 'Gen_special.v'), 'w') as f:
        f.write('\n'.join(parts))
    return rc

if __name__ == '__main__':
    # exit status 0 even when something was not translated: the absent definition stops coq/Special.v (property
    # C20 only) from compiling; a non-zero status here would mark the translator step of every property as broken
    main(sys.argv[1], sys.argv[2])
    sys.exit(0)

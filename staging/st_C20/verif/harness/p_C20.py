"""C20 -- special propagation functions keep their stated contracts
(function.mul2, x % y, fmod, type_a.merge, function.implicit)."""
import math, random, collections, hashlib
from fractions import Fraction
from common import *
from kernel import ckey, cvec, cdf

COQ_PROPS = 'props/C20.v'
PARTIAL = ('proved over the reals for all inputs: mul2 of two uncertain reals (exact second-order variance for both values of '
           'estimated, attribution to the influences of both factors, root-sum-square of the budget = u, the two RuntimeError '
           'preconditions), complex/mixed products as sums/differences of real second-order products with additive variances under '
           'disjoint influences, _simple_variance tolerances -> RuntimeError; % and fmod (value = floor/trunc remainder, uc/dc/ic '
           'unchanged, incl. x = 0 where the argument itself is returned; ZeroDivisionError / ValueError iff y = 0); merge (value of a, '
           'components of both, RuntimeError iff |a-b| > TOL); implicit (components = -(dF/dx_i)/(dF/dx) u_i through the chain rule '
           'of C02 for fn given as an expression tree, the derivative is taken at the returned point for every successful search, a root at '
           'a bracket end is returned as that end, RuntimeError when there is no sign change or the range is empty).  NOT proved: convergence of the Newton/bisection loop to a '
           'root (the loop is modelled and run bit-exactly, its result is a hypothesis of the component theorem), "fn(x) has zero '
           'components" for the returned x (needs a two-variable chain rule), complex arguments of merge/implicit, and rounding.')
ASSUMPTIONS = ['rounding error of float arithmetic is not bounded by proof (theorems are over the reals)',
               'the user function passed to implicit is an expression tree over + - * / and the real functions (what the chain-rule theorem covers)']
TRUSTED = ['tools/tr_special.py (weights, tolerances, dx_dy, merge guard, % and fmod value expressions regenerated each run; shape checks of the surrounding code)',
           'Coquelicot / Coq Reals']

HEADER = '''From Coq Require Import ZArith List Bool PrimFloat.
From GTCV Require Import Num FNum Vector Opres KTypes Kernel Special SpecialCase.
Import ListNotations.
Local Open Scope float_scope.
'''

# ------------------------------------------------------------------ translator (also run by check.py / bin/setup)
def regenerate():
    """the generated file the proofs were compiled against must be what the source says now"""
    import importlib.util
    spec = importlib.util.spec_from_file_location('tr_special', os.path.join(VERIF, 'tools', 'tr_special.py'))
    m = importlib.util.module_from_spec(spec); spec.loader.exec_module(m)
    tmp = scratch('gen_special_tmp')
    rc = m.main(REPO, tmp)
    new = open(os.path.join(tmp, 'Gen_special.v')).read()
    dst = os.path.join(COQ, 'gen', 'Gen_special.v')
    changed = (not os.path.exists(dst)) or open(dst).read() != new
    if changed:
        os.makedirs(os.path.dirname(dst), exist_ok=True)
        open(dst, 'w').write(new)
    shutil.rmtree(tmp, ignore_errors=True)
    return rc, changed

# check.py imports this module before it builds: regenerate now so that the build that follows
# compiles the model and the proofs against the current source (fail-closed: an untranslatable
# function leaves its definition absent and Special.v stops compiling)
try:
    _TR = regenerate()
except Exception as _ex:            # pragma: no cover
    _TR = (2, False)

# ------------------------------------------------------------------ printers
def cnode(o):
    n = o._node
    if n is None: return 'NoNode'
    if o.is_elementary: return '(LeafRef %s)' % ckey(n.uid)
    if o.is_intermediate: return '(NodeRef %s)' % ckey(n.uid)
    return '(ConstLeaf None)'

def cu(o):
    return '(mkU %s %s %s %s %s)' % (cf(o._x), cvec(o._u_components), cvec(o._d_components), cvec(o._i_components), cnode(o))

def cobs(r, args=()):
    """observation of a returned value; args = the argument objects (for identity)"""
    from GTC import lib
    for i, a in enumerate(args):
        if r is a and isinstance(a, (lib.UncertainReal, lib.UncertainComplex)):
            return '(XSame %d)' % i
    if isinstance(r, lib.UncertainReal):
        return '(XObj %s %s %s %s)' % (cf(r._x), cvec(r._u_components), cvec(r._d_components), cvec(r._i_components))
    if isinstance(r, lib.UncertainComplex):
        return '(XCplx %s %s)' % (cobs(r.real), cobs(r.imag))
    if isinstance(r, (int, float)) and not isinstance(r, bool):
        return '(XNum %s)' % cf(r)
    return '(XExn OtherExn)'

def observe(thunk, args=()):
    try:
        r = thunk()
    except Exception as ex:
        return '(XExn %s)' % cexn(type(ex).__name__), ('exn', type(ex).__name__)
    return cobs(r, args), ('ok', r)

def cache_of(o):
    try:
        return o._u
    except AttributeError:
        return None

def cleaves(objs):
    """the Leaf / Node records the model needs for the given uncertain reals"""
    leaves = {}; nodes = {}
    for o in objs:
        for n in list(o._u_components._index) + list(o._d_components._index):
            leaves[n.uid] = n
        if o._node is not None and o.is_elementary: leaves[o._node.uid] = o._node
        if o._node is not None and o.is_intermediate: nodes[o._node.uid[:2]] = o._node
    L = []
    for uid in sorted(leaves):
        n = leaves[uid]
        corr = '[]' if n.independent else clist(['(%s, %s)' % (ckey(k), cf(r)) for k, r in sorted(n.correlation.items())])
        L.append('(%s, mkLeaf %s %s %s %s 0%%nat None None)' % (ckey(uid), cf(n.u), cdf(n.df), cbool(n.independent), corr))
    M = ['(%s, mkNode %s %s None)' % (ckey(uid), cf(n.u), cdf(n.df)) for uid, n in sorted(nodes.items())]
    return clist(L), clist(M)

# ------------------------------------------------------------------ argument factories
VALS = [0.0, -0.0, 1.0, -1.0, 3.0, -3.0, 7.25, -7.25, 0.5, 2.0, 1e-3, -2.5, 6.0, 1e6]
def rv(rng):
    c = rng.random()
    if c < 0.4: return rng.choice(VALS)
    if c < 0.5: return float(rng.randint(-6, 6))
    return rng.uniform(-10, 10)
def ru(rng):
    return rng.choice([0.1, 0.5, 1.0, 2.0, rng.uniform(0.01, 3.0)])

def real_arg(rng, kind=None, x=None):
    """an uncertain real of a given structural kind; returns (object, kind)"""
    from GTC import core
    kind = kind or rng.choice(['elem', 'elem', 'elem', 'sum', 'scaled', 'interm', 'const', 'dep', 'mixed', 'finite_df'])
    x = rv(rng) if x is None else x
    if kind == 'elem': o = core.ureal(x, ru(rng))
    elif kind == 'finite_df': o = core.ureal(x, ru(rng), rng.choice([3.0, 7.5]))
    elif kind == 'dep': o = core.ureal(x, ru(rng), independent=False)
    elif kind == 'const': o = core.constant(x)
    elif kind == 'sum':
        a = core.ureal(x - 1.25, ru(rng)); b = core.ureal(1.25, ru(rng)); o = a + b
    elif kind == 'scaled':
        a = core.ureal(x / 2.0, ru(rng)); o = a * 2.0
    elif kind == 'interm':
        a = core.ureal(x - 0.5, ru(rng)); b = core.ureal(0.5, ru(rng)); o = core.result(a + b)
        if rng.random() < 0.5: o = o * 1.0 + core.ureal(0.0, ru(rng))
    else:   # mixed: independent and dependent influences
        a = core.ureal(x, ru(rng)); b = core.ureal(0.0, ru(rng), independent=False); c = core.ureal(0.0, ru(rng), independent=False)
        core.set_correlation(rng.choice([0.5, -0.3]), b, c)
        o = a + b + c
    if rng.random() < 0.3 and kind not in ('elem', 'dep', 'finite_df'):
        o.u          # fill the _u cache
    return o, kind

# ------------------------------------------------------------------ case builders
class Cases(object):
    def __init__(self):
        self.terms = []; self.meta = []; self.stats = collections.Counter()
    def add(self, term, meta):
        self.terms.append(term); self.meta.append(meta); self.stats[meta['fn']] += 1
        if meta.get('outcome'): self.stats[meta['fn'] + ':' + meta['outcome']] += 1

def gen_mod(rng, C, k):
    from GTC import core
    new_context(100 + k)
    x = rng.choice([0.0, -0.0, 3.0, -3.0, 6.0, 7.25, -7.25, 1.0, -1.0, rv(rng), rv(rng)])
    o, kind = real_arg(rng, x=x)
    y = rng.choice([3.0, -3.0, 2, -2, 2.5, -2.5, 0.5, 1.0, 1, 7.25, -7.25, 0.0, 0, math.inf, rng.uniform(-5, 5), rng.uniform(0.1, 4)])
    which = rng.choice(['mod', 'fmod', 'fmod'])
    extra = []
    with record_math() as rec:
        if which == 'mod':
            try: extra.append(('pymod', (o._x, y), ('ok', o._x % y)))
            except ZeroDivisionError: extra.append(('pymod', (o._x, y), ('exn', 'ZeroDivisionError')))
            obs, r = observe(lambda: o % y, (o,))
        else:
            obs, r = observe(lambda: core.fmod(o, y), (o,))
    tbl = oracle_table(rec.log, extra)
    C.add('(case_%s %s %s %s %s)' % (which, tbl, cu(o), cf(y), obs),
          {'fn': which, 'kind': kind, 'x': o._x, 'y': y, 'outcome': 'exn' if r[0] == 'exn' else ('same' if 'XSame' in obs else 'new'),
           'py': '%s of a %s-kind ureal with x=%r and y=%r' % (which, kind, o._x, y)})

def gen_merge(rng, C, k):
    from GTC import type_a
    new_context(300 + k)
    x = rng.choice([0.0, 0.0, 1.0, -2.5, rv(rng)])
    delta = rng.choice([0.0, 0.0, 0.0, 5e-14, -5e-14, 1e-13, 2e-13, -3e-13, 1e-9, 0.5, math.nan])
    ka = rng.choice(['u', 'u', 'u', 'n']); kb = rng.choice(['u', 'u', 'u', 'n'])
    if math.isnan(delta): kb = 'n'
    a = real_arg(rng, x=x)[0] if ka == 'u' else x
    b = real_arg(rng, x=x + delta)[0] if kb == 'u' else x + delta
    if ka == 'u' and kb == 'u' and rng.random() < 0.08: b = a
    tol = rng.choice([None, None, None, 1e-10, 1.0, 0.0])
    with record_math() as rec:
        obs, r = observe((lambda: type_a.merge(a, b)) if tol is None else (lambda: type_a.merge(a, b, tol)), (a, b))
    ca = '(FU %s)' % cu(a) if ka == 'u' else '(FN %s)' % cf(a)
    cb = '(FU %s)' % cu(b) if kb == 'u' else '(FN %s)' % cf(b)
    C.add('(case_merge %s %s %s %s %s)' % (oracle_table(rec.log), ca, cb, copt(tol, cf), obs),
          {'fn': 'merge', 'kinds': ka + kb, 'delta': delta, 'tol': tol, 'outcome': 'exn' if r[0] == 'exn' else 'ok',
           'py': 'merge(%s x=%r, %s x=%r, TOL=%r)' % (ka, x, kb, x + delta, tol)})

def cplx_arg(rng):
    from GTC import core
    kind = rng.choice(['elem', 'elem', 'elem', 'unequal', 'corr', 'scaled', 'sum', 'const', 'rot'])
    z = complex(rv(rng), rv(rng)); u = ru(rng)
    if kind == 'elem': o = core.ucomplex(z, u)
    elif kind == 'unequal': o = core.ucomplex(z, (u, u * rng.choice([2.0, 1.0 + 1e-12, 1.0 + 1e-16])))
    elif kind == 'corr': o = core.ucomplex(z, (u * u, 0.3 * u * u, 0.3 * u * u, u * u))
    elif kind == 'scaled': o = core.ucomplex(z, u) * 2.0
    elif kind == 'sum': o = core.ucomplex(z, u) + core.ucomplex(1j, u)
    elif kind == 'const': o = core.ucomplex(z, 0)
    else: o = core.ucomplex(z, u) * (1 + 1j)     # real and imaginary parts share influences, covariance 0
    return o, 'c_' + kind

def gen_mul2(rng, C, k):
    from GTC import core, lib, function
    new_context(500 + k)
    shape = rng.choice(['rr', 'rr', 'rr', 'rr', 'rc', 'cr', 'cc', 'cc', 'other'])
    def mk(c):
        if c == 'r': return real_arg(rng, x=rng.choice([0.0, 0.0, rv(rng), rv(rng)]))
        if c == 'c': return cplx_arg(rng)
        return rng.choice([1.5, 2]), 'number'
    if shape == 'other':
        a1, k1 = mk(rng.choice('rco')); a2, k2 = mk('o') if k1 != 'number' or rng.random() < 0.5 else mk('r')
    else:
        a1, k1 = mk(shape[0]); a2, k2 = mk(shape[1])
    c = rng.random()
    if shape == 'rr' and c < 0.12: a2, k2 = a1, 'same-object'
    elif shape == 'rr' and c < 0.24: a2, k2 = a1 + core.ureal(rv(rng), ru(rng)), 'shares-influence'
    elif shape == 'cc' and c < 0.12: a2, k2 = a2 + a1.real, 'shares-influence'
    est = rng.random() < 0.5
    comps = []
    def marg(a):
        if isinstance(a, lib.UncertainReal):
            comps.append(a); return '(FReal %s %s)' % (cu(a), copt(cache_of(a), cf))
        if isinstance(a, lib.UncertainComplex):
            re, im = a.real, a.imag; comps.extend([re, im])
            return '(FCplx %s %s %s %s)' % (cu(re), copt(cache_of(re), cf), cu(im), copt(cache_of(im), cf))
        return 'FOther'
    m1, m2 = marg(a1), marg(a2)
    leaves, nodes = cleaves(comps)
    extra = [pow_entry(o._x, 2) for o in comps]
    with record_math() as rec:
        obs, r = observe(lambda: function.mul2(a1, a2, est))
    C.add('(case_mul2 %s %s %s %s %s %s %s)' % (oracle_table(rec.log, extra), leaves, nodes, m1, m2, cbool(est), obs),
          {'fn': 'mul2', 'shape': shape, 'kinds': (k1, k2), 'estimated': est, 'outcome': shape + (':exn' if r[0] == 'exn' else ':ok'),
           'py': 'mul2(%s, %s, estimated=%r)' % (k1, k2, est)})

# fn for implicit as an expression tree: ('v',) the argument, ('c', i) captured object i, ('n', x), ('un', f, e), ('bin', f, e1, e2)
V = ('v',)
def sub(a, b): return ('bin', 'sub', a, b)
def add(a, b): return ('bin', 'add', a, b)
def mul(a, b): return ('bin', 'mul', a, b)
def div(a, b): return ('bin', 'div', a, b)
def un(f, a): return ('un', f, a)
def num(x): return ('n', float(x))
def cap(i): return ('c', i)

def ev_tree(t, v, caps, core):
    k = t[0]
    if k == 'v': return v
    if k == 'c': return caps[t[1]]
    if k == 'n': return t[1]
    if k == 'un':
        a = ev_tree(t[2], v, caps, core)
        return -a if t[1] == 'neg' else getattr(core, t[1])(a)
    a = ev_tree(t[2], v, caps, core); b = ev_tree(t[3], v, caps, core)
    return {'add': lambda: a + b, 'sub': lambda: a - b, 'mul': lambda: a * b, 'div': lambda: a / b}[t[1]]()

def ctree(t):
    k = t[0]
    if k == 'v': return '(FV 0)'
    if k == 'c': return '(FV %d)' % (t[1] + 1)
    if k == 'n': return '(FC %s)' % cf(t[1])
    if k == 'un': return '(FUn U_%s %s)' % (t[1], ctree(t[2]))
    return '(FBin B_%s %s %s)' % (t[1], ctree(t[2]), ctree(t[3]))

NL_END = [(fk, end, dep) for fk in ('cubic', 'sq', 'exp', 'deccubic') for end in ('hi', 'lo') for dep in (False, True)]

def nl_end_problem(rng, fk, end, dep):
    """a NON-LINEAR fn whose root lies exactly on (or within epsilon of) a bracket end: dF/dx differs between the two ends and
    the root, so the derivative must be the one taken AT that end; inputs independent or dependent/intermediate"""
    from GTC import core
    r = rng.choice([2.0, 1.5, 3.0, 1.25, rng.uniform(0.75, 3.0)])
    bv = rng.choice([1.0, 0.5, 2.0, rng.uniform(0.2, 2.0)])
    cube = add(mul(mul(V, V), V), mul(cap(1), V))
    t = {'cubic': sub(cube, cap(0)), 'deccubic': sub(cap(0), cube), 'sq': sub(mul(V, V), cap(0)), 'exp': sub(un('exp', V), cap(0))}[fk]
    def mk():
        if dep:
            d = [core.ureal(bv - 0.25, ru(rng), independent=False), core.ureal(0.25, ru(rng), independent=False), core.ureal(0.5, ru(rng), independent=False)]
            core.set_correlation(rng.choice([0.5, -0.4]), d[0], d[1]); core.set_correlation(0.3, d[1], d[2])
            b = core.result(d[0] + d[1]) if rng.random() < 0.5 else d[0] + d[1]
        else:
            b = core.ureal(bv, ru(rng))
        av = {'cubic': (r * r) * r + b.x * r, 'deccubic': (r * r) * r + b.x * r, 'sq': r * r, 'exp': math.exp(r)}[fk]
        if dep:
            a = core.ureal(av - 0.5, ru(rng), independent=False) + d[2]
            if a.x != av: a = core.ureal(av, ru(rng), independent=False)
        else:
            a = core.ureal(av, ru(rng))
        return [a, b]
    w = rng.choice([1.0, 0.5, 2.0])
    eps = rng.choice([1e-13, 1e-13, 1e-9]); off = 0.0
    if rng.random() < 0.25: eps, off = 1e-6, rng.choice([1e-8, -1e-8])       # within epsilon of the end, not exactly on it
    lo, hi = (r + off, r + w) if end == 'lo' else (max(r - w, 0.25), r + off)
    return t, mk, lo, hi, 'nl_end:%s:%s:%s' % (fk, end, 'dep' if dep else 'indep'), True, eps

def implicit_problem(rng, forced=None):
    """returns (tree, captured-factory, x_min, x_max, description, root_at_end)"""
    from GTC import core
    if forced is not None:
        return nl_end_problem(rng, *forced)
    p = rng.choice(['nl_end', 'nl_end', 'lin', 'lin', 'lin_end_lo', 'lin_end_hi', 'sq', 'cube', 'exp', 'affine', 'tanh', 'ratio', 'nosign', 'badrange', 'badrange',
                    'plain', 'two', 'sin', 'dep', 'flat', 'cube0', 'cube0', 'atan', 'cube_mid', 'quint',
                    'neg_both', 'neg_both', 'pos_both', 'declin', 'decexp', 'zero_end', 'zero_end', 'ident_eps', 'ident_eps',
                    'newton_eps', 'step_eps', 'underflow', 'noconv'])
    a0 = rng.choice([1.0, 2.0, 2.5, rng.uniform(0.5, 4.0)]); ua = ru(rng)
    mk = lambda: [core.ureal(a0, ua), core.ureal(rng.choice([0.5, 1.5, rng.uniform(0.2, 2.0)]), ru(rng))]
    end = False; eps = None
    E = 1e-13
    if p == 'nl_end': return nl_end_problem(rng, *rng.choice(NL_END))
    if p == 'neg_both':       # no root, fn NEGATIVE at both ends (the sign test must look at the product, not at one sign)
        t, lo, hi = rng.choice([(sub(un('neg', mul(V, V)), cap(0)), -1.0, 2.0),          # -(v*v) - a
                                (sub(cap(0), un('exp', V)), math.log(a0) + 0.5, math.log(a0) + 3.0),   # a - exp(v) above its root
                                (sub(V, cap(0)), a0 - 3.0, a0 - 0.5),                     # v - a below its root
                                (sub(num(-1.0), mul(cap(1), mul(V, V))), -2.0, 1.0)])
    elif p == 'pos_both':     # no root, fn positive at both ends
        t, lo, hi = rng.choice([(sub(V, cap(0)), a0 + 0.5, a0 + 3.0), (sub(cap(0), V), a0 - 3.0, a0 - 0.25),
                                (sub(un('exp', V), mul(num(1e-3), cap(0))), 1.0, 2.0)])
    elif p == 'declin':       # decreasing: fl > 0 swaps lower and upper
        t = sub(cap(0), V); lo, hi = a0 - rng.choice([1.0, 0.5, 3.0]), a0 + rng.choice([2.0, 0.25])
    elif p == 'decexp':
        t = sub(cap(0), un('exp', V)); lo, hi = -3.0, 3.0
    elif p == 'zero_end':     # epsilon <= 0 disables the |f| < epsilon exits: an exact zero at one end meets fl*fu >= 0 with either sign at the other
        c = rng.choice([1.0, -2.0]); s_ = rng.choice([1, -1]); at_lo = rng.random() < 0.5
        t = sub(V, num(c)) if s_ > 0 else sub(num(c), V)
        lo, hi = (c, c + 2.0) if at_lo else (c - 2.0, c)
        eps = rng.choice([0.0, -1.0, 0.0])
    elif p == 'ident_eps':    # fn = v: |fl| resp. |fu| below / AT / above epsilon, both signs
        import struct
        t = V if rng.random() < 0.5 else add(V, mul(num(0.0), cap(0)))
        e_ = rng.choice([E, 2.0 ** -20])
        m = rng.choice([e_, math.nextafter(e_, 0.0), math.nextafter(e_, 1.0), 0.0, 0.5 * e_, 2 * e_])
        which = rng.choice(['lo+', 'lo-', 'hi+', 'hi-'])
        lo, hi = {'lo+': (m, 1.0), 'lo-': (-m, 1.0), 'hi+': (-1.0, m), 'hi-': (-1.0, -m)}[which]
        eps = e_
    elif p == 'newton_eps':   # fn = v on [-1, 1+2e]: the first Newton step is exactly e: abs(dx) <= epsilon at / around the boundary
        e_ = 2.0 ** -20; t = V; lo, hi = -1.0, 1.0 + 2 * e_
        eps = rng.choice([e_, math.nextafter(e_, 0.0), math.nextafter(e_, 1.0)])
    elif p == 'step_eps':     # a step: bisection only; the interval halves 2, 1, 1/2, ... and meets epsilon exactly
        t = sub(un('tanh', mul(num(200.0), sub(V, num(0.3)))), mul(num(1e-3), cap(1))); lo, hi = -1.0, 3.0
        e_ = rng.choice([2.0 ** -3, 2.0 ** -6]); eps = rng.choice([e_, math.nextafter(e_, 0.0), math.nextafter(e_, 1.0)])
    elif p == 'underflow':    # a sign change whose product fl*fu underflows to -0.0: -0.0 >= 0.0 holds
        t = mul(num(1e-200), V); lo, hi = -1.0, 1.0; eps = rng.choice([1e-300, 1e-13])
    elif p == 'noconv':       # negative epsilon: no convergence test can succeed -> 100 iterations -> RuntimeError
        t = sub(V, cap(0)); lo, hi = a0 - 1.0, a0 + 2.5; eps = -1.0
    elif p == 'lin': t = sub(V, cap(0)); lo, hi = a0 - rng.choice([1.0, 0.5, 3.0]), a0 + rng.choice([2.0, 0.25, 1.0])
    elif p == 'lin_end_lo': t = sub(V, cap(0)); lo, hi = a0, a0 + 2.0; end = True
    elif p == 'lin_end_hi': t = sub(V, cap(0)); lo, hi = a0 - 2.0, a0; end = True
    elif p == 'sq': t = sub(mul(V, V), cap(0)); lo, hi = 0.0, a0 + 1.0
    elif p == 'cube': t = sub(mul(mul(V, V), V), cap(0)); lo, hi = -1.0, a0 + 1.0
    elif p == 'exp': t = sub(un('exp', V), cap(0)); lo, hi = -3.0, 3.0
    elif p == 'affine': t = sub(mul(cap(1), V), cap(0)); lo, hi = -1.0, 30.0
    elif p == 'tanh': t = sub(un('tanh', mul(num(5.0), V)), mul(num(0.1), cap(1))); lo, hi = -2.0, 3.0
    elif p == 'ratio': t = sub(div(V, cap(1)), cap(0)); lo, hi = 0.0, 25.0
    elif p == 'nosign': t = add(mul(V, V), cap(0)); lo, hi = -1.0, 2.0
    elif p == 'badrange': t = sub(V, cap(0)); lo, hi = rng.choice([(3.0, 3.0), (4.0, 1.0), (a0, a0), (a0, a0), (a0, math.nextafter(a0, 9.0))])   # x_max == x_min AT a root: only the range test can refuse it
    elif p == 'plain': t = num(rng.choice([1.0, 0.0])); lo, hi = 0.0, 1.0
    elif p == 'two': t = mul(sub(V, cap(0)), sub(V, cap(1))); lo, hi = -1.0, 6.0
    elif p == 'sin': t = sub(un('sin', V), mul(num(0.2), cap(1))); lo, hi = -1.0, 1.2
    elif p == 'cube0':      # triple root: Newton converges linearly, the "not decreasing fast enough" test decides
        t = mul(mul(V, V), V) if rng.random() < 0.5 else sub(mul(mul(V, V), V), mul(num(1e-9), cap(0)))
        lo, hi = rng.choice([(-1.0, 2.0), (-0.5, 3.0), (-2.0, 0.75)])
    elif p == 'atan':       # Newton overshoots: bisection steps interleave
        t = sub(un('atan', mul(num(8.0), V)), mul(num(0.1), cap(1))); lo, hi = rng.choice([(-3.0, 4.0), (-10.0, 1.0)])
    elif p == 'cube_mid':   # f = df = 0 at the first midpoint: the tie |2f| = |dx2 df|
        c = rng.choice([1.0, 2.5]); d = sub(V, num(c)); t = mul(mul(d, d), d); lo, hi = c - 1.5, c + 1.5
    elif p == 'quint':
        t = sub(mul(mul(mul(V, V), mul(V, V)), V), mul(num(1e-3), cap(0))); lo, hi = -1.0, 1.5
    elif p == 'flat': t = sub(mul(num(0.0), V), num(0.0)) if rng.random() < 0.5 else div(cap(0), sub(V, num(1.0))); lo, hi = 0.0, 2.0
    else:
        t = sub(mul(V, cap(1)), cap(0)); lo, hi = -2.0, 40.0
        mk = lambda: (lambda d: [d[0] + d[1], core.result(d[1] * 2.0 + core.ureal(0.3, 0.2))])(
            [core.ureal(a0, ua, independent=False), core.ureal(0.7, 0.3, independent=False)])
    return t, mk, lo, hi, p, end, eps

def gen_implicit(rng, C, k):
    from GTC import core, function, context
    ctx = 700 + k
    new_context(ctx)
    # the first len(NL_END) cases of every run enumerate the non-linear bracket-end class (both ends x 4 fn kinds x independent /
    # dependent inputs), so that every user of these cases (C20 and C02) reaches it whatever the seed
    t, mk, lo, hi, p, end, eps = implicit_problem(rng, NL_END[k] if k < len(NL_END) else None)
    caps = mk()
    if eps is None: eps = rng.choice([1e-13, 1e-13, 1e-13, 1e-6, 1e-15])
    ne = context._context._elementary_id_counter
    with record_math() as rec:
        obs, r = observe(lambda: function.implicit(lambda v: ev_tree(t, v, caps, core), lo, hi, eps))
    ne2 = context._context._elementary_id_counter
    C.add('(case_implicit2 %s %s %s %s %s %s %s %s %s %s)' % (oracle_table(rec.log), cz(ctx), cz(ne), clist([cu(c) for c in caps]), ctree(t),
                                                            cf(lo), cf(hi), cf(eps), obs, cz(ne2)),
          {'fn': 'implicit', 'problem': p, 'root_at_end': end, 'evaluations': ne2 - ne,
           'outcome': ('exn:' + r[1] if r[0] == 'exn' else ('ok:%s-evaluations' % ('2-3' if ne2 - ne <= 3 else '4-8' if ne2 - ne <= 8 else '9+'))),
           'py': 'implicit(%s, %r, %r, %r)' % (p, lo, hi, eps)})

# (kept under this name for harness/p_C02.py, which reuses these cases: before finding C20-implicit-end was fixed this was a
# second comparison against the repaired variant of the model; there is one model now)
CASE2 = '''Definition case_implicit2 := case_implicit.
'''

def correspondence(rng, tier):
    q = tier == 'quick'
    C = Cases()
    mism = []
    if _TR[0] != 0:
        mism.append({'kind': 'translator', 'detail': 'tools/tr_special.py could not translate part of the anchored code (definition left absent)'})
    for k in range(150 if q else 2500): gen_mod(rng, C, k)
    for k in range(80 if q else 1200): gen_merge(rng, C, k)
    for k in range(170 if q else 3000): gen_mul2(rng, C, k)
    for k in range(130 if q else 2000): gen_implicit(rng, C, k)
    vals, errs = coq_eval_cases('C20', HEADER + CASE2, C.terms, per_file=30 if q else 120, timeout=900)
    for e in errs:
        mism.append({'kind': 'coqc-failed', 'file': e['file'], 'output': e['output'][-1200:]})
    for v, m, t in zip(vals, C.meta, C.terms):
        if v is None or v == -1: continue
        mism.append({'kind': 'model-vs-implementation', 'case': m, 'code': v, 'term': t[:1500]})
    dist = dict(C.stats)
    distinct = len(set(hashlib.sha1(t.encode()).hexdigest() for t, m in zip(C.terms, C.meta)))
    return {'programs': len(C.terms), 'steps': len(C.terms), 'mismatches': mism, 'distinct': distinct, 'distribution': dist,
            'rule': 'one call per case: x % y / fmod(x,y) over structural kinds of x (elementary, dependent, sum, scaled, intermediate, constant, mixed) '
                    'x values incl. +-0, multiples of y, negative moduli, y = 0, inf; merge over (uncertain|number)^2, differences around TOL, custom TOL, NaN; '
                    'mul2 over real/complex/mixed/non-uncertain argument pairs incl. zero values, shared influences, dependent and correlated components, '
                    'unequal variances, cached u, both values of estimated; implicit over 17 function families (roots inside and AT the bracket ends, no sign '
                    'change, empty range, non-uncertain return, two roots, zero derivative) with every evaluation of fn recomputed by the model; value and the '
                    'three component vectors compared bit for bit, exceptions by class, identity of a returned argument, uid counter after implicit; '
                    'distinct = distinct case terms (all are non-trivial calls)',
            'samples': [m for m in C.meta[:1]] + [m for m in C.meta if m['fn'] == 'mul2'][:1] + [m for m in C.meta if m['fn'] == 'implicit'][:1]}

# ------------------------------------------------------------------ oracle (search only; never the verdict)
def F(x): return Fraction(float(x))

def check_mul2_real(x1, u1, x2, u2, est):
    from GTC import core, function, reporting
    new_context(40)
    a = core.ureal(x1, u1); b = core.ureal(x2, u2)
    y = function.mul2(a, b, est)
    v1, v2 = F(u1) ** 2, F(u2) ** 2
    if est:
        want = max(F(x2) ** 2 - v2 / 2, 0) * v1 + max(F(x1) ** 2 - v1 / 2, 0) * v2
    else:
        want = F(x2) ** 2 * v1 + F(x1) ** 2 * v2 + v1 * v2
    scale = float(F(x2) ** 2 * v1 + F(x1) ** 2 * v2 + v1 * v2) + 1e-300
    if y.x != x1 * x2: return 'value %r != %r' % (y.x, x1 * x2)
    if abs(F(y.v) - want) > 1e-9 * scale: return 'variance %r, expected %r' % (y.v, float(want))
    ca, cb = reporting.u_component(y, a), reporting.u_component(y, b)
    if abs(math.sqrt(ca * ca + cb * cb) - y.u) > 1e-9 * math.sqrt(scale): return 'budget rss %r != u %r' % (math.sqrt(ca * ca + cb * cb), y.u)
    if not est:
        ai = core.result(core.ureal(x1 / 2, u1) + core.ureal(x1 / 2, u1))      # an intermediate factor: its component is weighted like the others
        yi = function.mul2(ai, b, est)
        w1 = math.sqrt(x2 * x2 + u2 * u2 / 2)
        ci = reporting.u_component(yi, ai)
        if abs(ci - w1 * ai.u) > 1e-9 * max(1.0, w1 * ai.u): return 'intermediate component %r, expected %r' % (ci, w1 * ai.u)
    for bad in (lambda: function.mul2(a, a + b, est), lambda: function.mul2(core.ureal(x1, u1, independent=False), b, est),
                lambda: function.mul2(a, core.ureal(x2, u2, independent=False), est)):
        try:
            bad(); return 'precondition violation not rejected'
        except RuntimeError:
            pass
    return None

def check_mod(x, u, y, which):
    from GTC import core
    new_context(41)
    a = core.ureal(x, u); o = a + core.ureal(0.0, 0.5, independent=False)
    r = (o % y) if which == 'mod' else core.fmod(o, y)
    want = (o.x % y) if which == 'mod' else math.fmod(o.x, y)
    if r.x != want: return '%s value %r != %r' % (which, r.x, want)
    for v, w in ((r._u_components, o._u_components), (r._d_components, o._d_components), (r._i_components, o._i_components)):
        if [k.uid for k in v._index] != [k.uid for k in w._index] or list(v._value) != list(w._value):
            return '%s changed the components' % which
    return None

def check_merge(x, ua, ub, delta, tol):
    from GTC import core, type_a, reporting
    new_context(42)
    a = core.ureal(x, ua); b = core.ureal(x + delta, ub)
    d = abs(F(x) - F(x + delta))
    try:
        r = type_a.merge(a, b, tol)
    except RuntimeError:
        return None if d > F(tol) * (1 - Fraction(1, 10**6)) else 'merge raised although |a-b| <= TOL'
    if d > F(tol) * (1 + Fraction(1, 10**6)) + Fraction(1, 10**300): return 'merge accepted values differing by more than TOL'
    if r.x != a.x: return 'merge value %r != %r' % (r.x, a.x)
    if reporting.u_component(r, a) != ua or reporting.u_component(r, b) != ub: return 'merge components'
    return None

def check_implicit(fam, a0, ua, lo, hi, dep=False):
    """root strictly inside the bracket (the bracket-end case is the known finding)"""
    from GTC import core, function, reporting
    new_context(43)
    a = core.ureal(a0, ua, independent=not dep)
    fn, root, dxda = {'lin': (lambda v: v - a, a0, 1.0), 'sq': (lambda v: v * v - a, math.sqrt(a0), 0.5 / math.sqrt(a0)),
                      'exp': (lambda v: core.exp(v) - a, math.log(a0), 1.0 / a0)}[fam]
    if not (lo + 1e-6 < root < hi - 1e-6): return None
    x = function.implicit(fn, lo, hi)
    if abs(x.x - root) > 1e-9 * max(1.0, abs(root)): return 'implicit value %r, root %r' % (x.x, root)
    c = reporting.u_component(x, a)
    if abs(c - dxda * ua) > 1e-7 * max(1.0, abs(dxda * ua)): return 'implicit component %r, expected %r' % (c, dxda * ua)
    res = fn(x)
    if abs(res.x) > 1e-9 or abs(reporting.u_component(res, a)) > 1e-7 * ua: return 'residual not zero: %r' % (res,)
    try:
        function.implicit(fn, hi + 1.0, hi + 2.0)
        return 'no RuntimeError for a bracket without sign change'
    except RuntimeError:
        pass
    return None

PLAIN = {'lin': lambda v, a: v - a, 'declin': lambda v, a: a - v, 'sq': lambda v, a: v * v - a, 'negsq': lambda v, a: -(v * v) - a,
         'exp': lambda v, a: math.exp(v) - a, 'decexp': lambda v, a: a - math.exp(v)}

def check_implicit_bracket(fam, a0, ua, lo, hi, eps=1e-13):
    """RuntimeError iff there is no sign change between the bracket ends (both signs); the end values are kept well away
    from zero (the bracket-end root is the known finding) and the functions are monotone on the bracket or have no root"""
    from GTC import core, function
    new_context(45)
    a = core.ureal(a0, ua)
    g = PLAIN[fam]
    fn = {'lin': lambda v: v - a, 'declin': lambda v: a - v, 'sq': lambda v: v * v - a, 'negsq': lambda v: -(v * v) - a,
          'exp': lambda v: core.exp(v) - a, 'decexp': lambda v: a - core.exp(v)}[fam]
    fl, fu = g(lo, a0), g(hi, a0)
    if not (lo < hi) or min(abs(fl), abs(fu)) < 1e-3: return None
    if fam in ('sq', 'negsq') and lo < 0 < hi: return None          # not monotone there
    change = (fl < 0) != (fu < 0)
    try:
        x = function.implicit(fn, lo, hi, eps)
    except RuntimeError:
        return 'RuntimeError although fn changes sign on the bracket: fn(%r)=%r, fn(%r)=%r' % (lo, fl, hi, fu) if change else None
    if not change:
        return 'no RuntimeError for a bracket without sign change: fn(%r)=%r, fn(%r)=%r, returned x=%r' % (lo, fl, hi, fu, x.x)
    if not (lo <= x.x <= hi) or abs(g(x.x, a0)) > 1e-6 * max(1.0, abs(a0)): return 'implicit returned %r, fn there = %r' % (x.x, g(x.x, a0))
    return None

def check_implicit_end(fam, a0, ua, end, width, eps=1e-13, dep=False, b0=1.0):
    """a root exactly at a bracket end is returned as such, with the components the implicit-function theorem gives AT THE ROOT:
    u_a(x) = -(dF/da)/(dF/dx) u(a) with dF/dx taken at the root (non-linear families: it differs between the ends).
    a0 is the root for every family."""
    from GTC import core, function, reporting
    new_context(46)
    r = a0
    av, dFdx, dFda = {'lin': (r, 1.0, -1.0), 'declin': (r, -1.0, 1.0), 'scaled': (r, 3.0, -3.0),
                      'cubic': ((r * r) * r + b0 * r, 3 * r * r + b0, -1.0), 'deccubic': ((r * r) * r + b0 * r, -(3 * r * r + b0), 1.0),
                      'sq': (r * r, 2 * r, -1.0), 'exp': (math.exp(r), math.exp(r), -1.0)}[fam]
    a = core.ureal(av, ua, independent=not dep)
    b = core.ureal(b0, 0.5 * ua, independent=not dep)
    if dep: core.set_correlation(0.5, a, b)
    fn = {'lin': lambda v: v - a, 'declin': lambda v: a - v, 'scaled': lambda v: 3.0 * v - 3.0 * a,
          'cubic': lambda v: v * v * v + b * v - a, 'deccubic': lambda v: a - (v * v * v + b * v),
          'sq': lambda v: v * v - a, 'exp': lambda v: core.exp(v) - a}[fam]
    lo, hi = (r, r + width) if end == 'lo' else (r - width, r)
    if fam in ('sq',) and lo <= 0: lo = 0.25 * r
    x = function.implicit(fn, lo, hi, eps)
    if abs(x.x - r) > 1e-9 * max(1.0, abs(r)):
        return 'root %r at the %s end of [%r, %r] but implicit returned %r' % (r, end, lo, hi, x.x)
    c = reporting.u_component(x, a); want = -dFda / dFdx * ua
    if abs(c - want) > 1e-7 * max(1.0, abs(want)):
        return 'root at the %s end of [%r, %r]: component for a is %r, the implicit-function theorem at the root gives %r' % (end, lo, hi, c, want)
    if fam in ('cubic', 'deccubic'):
        cb = reporting.u_component(x, b); wb = -(r if fam == 'cubic' else -r) / dFdx * 0.5 * ua
        if abs(cb - wb) > 1e-7 * max(1.0, abs(wb)):
            return 'root at the %s end of [%r, %r]: component for b is %r, expected %r' % (end, lo, hi, cb, wb)
    return None

def rand_implicit_end(rng):
    """a random input of kind implicit_end (also used by harness/p_C02.py)"""
    fam = rng.choice(['lin', 'declin', 'scaled', 'cubic', 'cubic', 'deccubic', 'sq', 'exp'])
    return {'kind': 'implicit_end', 'family': fam, 'a0': rng.choice([1.0, 3.0, 2.0, rng.uniform(0.5, 3.0)]), 'ua': ru(rng),
            'end': rng.choice(['lo', 'hi']), 'width': rng.choice([2.0, 0.25, 1.0, rng.uniform(0.1, 3.0)]), 'eps': rng.choice([1e-13, 1e-9]),
            'dep': rng.random() < 0.5, 'b0': rng.choice([1.0, 0.5, rng.uniform(0.2, 2.0)])}

def run_check(f):
    k = f['kind']
    if k == 'implicit_bracket': return check_implicit_bracket(f['family'], f['a0'], f['ua'], f['lo'], f['hi'], f.get('eps', 1e-13))
    if k == 'mul2': return check_mul2_real(f['x1'], f['u1'], f['x2'], f['u2'], f['estimated'])
    if k in ('mod', 'fmod'): return check_mod(f['x'], f['u'], f['y'], k)
    if k == 'merge': return check_merge(f['x'], f['ua'], f['ub'], f['delta'], f['tol'])
    if k == 'implicit': return check_implicit(f['family'], f['a0'], f['ua'], f['lo'], f['hi'], f.get('dep', False))
    if k == 'implicit_end': return check_implicit_end(f['family'], f['a0'], f['ua'], f['end'], f['width'], f.get('eps', 1e-13), f.get('dep', False), f.get('b0', 1.0))
    return None

def search(rng, tier, broken):
    n = 600 if tier == 'quick' else 8000
    for i in range(n):
        c = rng.random()
        if c < 0.35:
            f = {'kind': 'mul2', 'x1': rng.choice([0.0, 1.0, rv(rng)]), 'u1': ru(rng), 'x2': rng.choice([0.0, -2.0, rv(rng)]), 'u2': ru(rng),
                 'estimated': rng.random() < 0.5}
        elif c < 0.6:
            f = {'kind': rng.choice(['mod', 'fmod']), 'x': rng.choice([0.0, 6.0, -6.0, rv(rng)]), 'u': ru(rng),
                 'y': rng.choice([3.0, -3.0, 2.5, -2.5, rng.uniform(0.1, 5), -rng.uniform(0.1, 5)])}
        elif c < 0.8:
            f = {'kind': 'merge', 'x': rv(rng), 'ua': ru(rng), 'ub': ru(rng), 'delta': rng.choice([0.0, 3e-14, 1e-12, 0.25]), 'tol': rng.choice([1e-13, 1e-6])}
        elif c < 0.86:
            f = rand_implicit_end(rng)
        elif c < 0.92:
            fam = rng.choice(['lin', 'declin', 'sq', 'negsq', 'exp', 'decexp'])
            a0 = rng.uniform(0.5, 4.0)
            lo = rng.uniform(-6.0, 6.0) if fam not in ('sq', 'negsq') else rng.choice([rng.uniform(0.0, 4.0), rng.uniform(-4.0, -0.5)])
            hi = lo + rng.choice([0.25, 1.0, 3.0, rng.uniform(0.1, 8.0)])
            f = {'kind': 'implicit_bracket', 'family': fam, 'a0': a0, 'ua': ru(rng), 'lo': lo, 'hi': hi, 'eps': rng.choice([1e-13, 1e-9])}
        else:
            f = {'kind': 'implicit', 'family': rng.choice(['lin', 'sq', 'exp']), 'a0': rng.uniform(0.5, 4.0), 'ua': ru(rng),
                 'lo': rng.choice([0.01, -0.5 if False else 0.05]), 'hi': rng.uniform(2.5, 6.0), 'dep': rng.random() < 0.5}
            if f['family'] == 'exp': f['lo'] = -2.0
        try:
            p = run_check(f)
        except Exception as ex:
            p = 'raised %r' % (ex,)
        if p and not is_known(f):
            f['problem'] = p
            return {'tried': i + 1, 'failing': f}
    return {'tried': n, 'failing': None}

def is_known(f):
    return False          # C20-implicit-end is fixed: nothing is excused any more

def kf_C20_implicit_end():
    """regression test of the FIXED finding: reproduces iff implicit returns the function value for a root at a bracket end"""
    from GTC import core, function
    new_context(44)
    x = core.ureal(1.0, 0.1)
    lo = function.implicit(lambda v: v - x, 1, 3)
    x3 = core.ureal(3.0, 0.1)
    hi = function.implicit(lambda v: v - x3, 1, 3)
    bad = (lo.x != 1.0) or (hi.x != 3.0)
    return (bad, 'implicit(lambda v: v - ureal(1,.1), 1, 3).x = %r (root 1.0); implicit(lambda v: v - ureal(3,.1), 1, 3).x = %r (root 3.0)' % (lo.x, hi.x))

def replay(payload):
    print(json.dumps(payload.get('broken'), indent=1)[:3000])
    f = payload.get('failing_input')
    if f:
        try:
            p = run_check(f)
        except Exception as ex:
            p = 'raised %r' % (ex,)
        print('replayed failing input on the implementation:', 'STILL FAILS: %s' % p if p else 'passes now')
        return 1 if p else 0
    return 0

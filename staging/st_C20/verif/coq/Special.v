(* Special.v -- executable model of the special propagation functions of GTC (property C20):
   lib.mult_2nd_real_pair / mult_2nd_complex_pair / mult_2nd_real_complex + function.mul2
   (+ _simple_variance), UncertainReal.__mod__ and _fmod (core.fmod), type_a.merge,
   function.implicit / implicit_real / nr_get_root.
   Num-parametric like the kernel: run at FNum against the implementation, reasoned about over
   the reals.  The formula-level parts (weights for both values of `estimated`, tolerances of
   _simple_variance, dx_dy, merge guard and TOL, the % and fmod value expressions) are
   GENERATED (gen/Gen_special.v, tools/tr_special.py); + and - are the generated operator
   bodies of the kernel (Kernel.apply_bin).  Definitions only. *)
From Coq Require Import ZArith List Bool.
From GTCV Require Import Num Vector Opres KTypes Kernel.
From GTCV.gen Require Import Gen_lib_real Gen_special.
Import ListNotations.

Section Special.
  Variable N : Num.
  Notation V := (T N).
  Notation vec := (vec N).
  Notation ureal := (ureal V). Notation state := (state V).
  Notation operand := (@operand N). Notation opval := (opval V).
  Notation cache := (option V).

  (* ================= x % y and fmod(x, y) ================= *)
  (* UncertainReal.__mod__: a new object, the three vectors copied *)
  Definition umod (o : ureal) (y : V) : res opval :=
    m <- g_mod_value N (ux o) y ;;
    Ok (VObj (new_un N m (uc o) (dc o) (ic o))).

  (* the object an operator result denotes; [self] is what VSame refers to *)
  Definition as_obj (v : opval) (self : ureal) : res ureal :=
    match v with
    | VObj o => Ok o
    | VSame _ => Ok self
    | _ => Err OtherExn
    end.

  (* UncertainReal._fmod:  x = self._x;  return math.fmod(x,y) + (self - x)
     [VSame L] = the argument object itself is returned *)
  Definition ufmod (o : ureal) (y : V) : res opval :=
    let x := ux o in
    m <- g_fmod_value N x y ;;
    d <- apply_bin N B_sub (OpdU o) (OpdN x) ;;              (* self - x      : _sub  *)
    od <- as_obj d o ;;
    r <- apply_bin N B_add (OpdN m) (OpdU od) ;;             (* float + ureal : _radd *)
    match r with
    | VSame _ => (match d with VSame _ => Ok (VSame L) | _ => Ok (VObj od) end)
    | VObj o' => Ok (VObj o')
    | _ => Err OtherExn
    end.

  (* ================= type_a.merge ================= *)
  Inductive mres := MSameA | MSameB | MObj (o : ureal) | MPlain (v : V).

  Definition val_of (r : operand) : V := match r with OpdU o => ux o | OpdN v => v end.

  (* if abs(value(a) - value(b)) > TOL: raise RuntimeError  else: return a + (b - value(b)) *)
  Definition tmerge (a b : operand) (tol : V) : res mres :=
    let va := val_of a in let vb := val_of b in
    if g_merge_differs N va vb tol then Err RuntimeError
    else
      match b with
      | OpdN _ =>
          let d := sub N vb vb in
          match a with
          | OpdN _ => Ok (MPlain (add N va d))
          | OpdU oa =>
              r <- apply_bin N B_add (OpdU oa) (OpdN d) ;;
              match r with VSame _ => Ok MSameA | VObj o => Ok (MObj o) | _ => Err OtherExn end
          end
      | OpdU ob =>
          d <- apply_bin N B_sub (OpdU ob) (OpdN vb) ;;
          od <- as_obj d ob ;;
          match a with
          | OpdU oa =>
              r <- apply_bin N B_add (OpdU oa) (OpdU od) ;;
              match r with VObj o => Ok (MObj o) | _ => Err OtherExn end
          | OpdN _ =>
              r <- apply_bin N B_add (OpdN va) (OpdU od) ;;
              match r with
              | VSame _ => (match d with VSame _ => Ok MSameB | _ => Ok (MObj od) end)
              | VObj o => Ok (MObj o)
              | _ => Err OtherExn
              end
          end
      end.

  (* ================= function.mul2 ================= *)
  Definition is_nil {A} (l : list A) : bool := match l with [] => true | _ => false end.

  (* no key of b's independent components is among a's *)
  Definition keys_disjoint (a b : vec) : bool :=
    forallb (fun k => negb (kmem k (keys a))) (keys b).

  (* lib.mult_2nd_real_pair; the caches (the _u attribute of each argument, filled by the
     reads of .u and .v) are threaded because a cached u makes .v return u*u *)
  Definition mul2_real_pair (s : state) (a : ureal) (ca : cache) (b : ureal) (cb : cache) (est : bool)
    : res (ureal * cache * cache) :=
    '(_, ca1) <- prop_u N s a ca ;;
    if negb (keys_disjoint (uc a) (uc b)) then Err RuntimeError else
    '(_, cb1) <- prop_u N s b cb ;;
    if negb (is_nil (dc a)) || negb (is_nil (dc b)) then Err RuntimeError else
    '(v1, ca2) <- prop_v N s a ca1 ;;
    '(v2, cb2) <- prop_v N s b cb1 ;;
    '(w1, w2) <- g_mul2_weights N est (ux a) (ux b) v1 v2 ;;
    Ok (new_un N (g_mul2_value N (ux a) (ux b))
               (merge_w (uc a) w1 (uc b) w2) [] (merge_w (ic a) w1 (ic b) w2), ca2, cb2).

  (* UncertainComplex.v (std_variance_covariance_complex) followed by _simple_variance *)
  Definition simple_variance (s : state) (re : ureal) (cre : cache) (im : ureal) (cim : cache)
    : res (cache * cache) :=
    '(vr, cre') <- prop_v N s re cre ;;
    '(vi, cim') <- prop_v N s im cim ;;
    cv <- std_covariance_real N s re im ;;
    _ <- g_simple_variance N vr cv cv vi ;;
    Ok (cre', cim').

  Definition obj_of (v : opval) : res ureal :=
    match v with VObj o => Ok o | _ => Err OtherExn end.

  Inductive marg :=
  | MReal (o : ureal) (c : cache)
  | MCplx (re : ureal) (cre : cache) (im : ureal) (cim : cache)
  | MOther.
  Inductive mout := MOutR (o : ureal) | MOutC (re im : ureal).

  (* lib.mult_2nd_real_complex *)
  Definition mul2_real_complex (s : state) (a : ureal) (ca : cache) (yr : ureal) (cyr : cache)
             (yi : ureal) (cyi : cache) (est : bool) : res mout :=
    '(re, ca1, _) <- mul2_real_pair s a ca yr cyr est ;;
    '(im, _, _) <- mul2_real_pair s a ca1 yi cyi est ;;
    Ok (MOutC re im).

  (* lib.mult_2nd_complex_pair *)
  Definition mul2_complex_pair (s : state) (xr : ureal) (cxr : cache) (xi : ureal) (cxi : cache)
             (yr : ureal) (cyr : cache) (yi : ureal) (cyi : cache) (est : bool) : res mout :=
    '(p1, cxr, cyr) <- mul2_real_pair s xr cxr yr cyr est ;;
    '(p2, cxi, cyi) <- mul2_real_pair s xi cxi yi cyi est ;;
    re <- (v <- apply_bin N B_sub (OpdU p1) (OpdU p2) ;; obj_of v) ;;
    '(p3, cxi, cyr) <- mul2_real_pair s xi cxi yr cyr est ;;
    '(p4, cxr, cyi) <- mul2_real_pair s xr cxr yi cyi est ;;
    im <- (v <- apply_bin N B_add (OpdU p3) (OpdU p4) ;; obj_of v) ;;
    Ok (MOutC re im).

  (* function.mul2 *)
  Definition mul2 (s : state) (a1 a2 : marg) (est : bool) : res mout :=
    match a1, a2 with
    | MOther, _ | _, MOther => Err RuntimeError
    | MReal a ca, MReal b cb => '(o, _, _) <- mul2_real_pair s a ca b cb est ;; Ok (MOutR o)
    | MReal a ca, MCplx yr cyr yi cyi =>
        '(cyr, cyi) <- simple_variance s yr cyr yi cyi ;;
        mul2_real_complex s a ca yr cyr yi cyi est
    | MCplx xr cxr xi cxi, MReal b cb =>
        '(cxr, cxi) <- simple_variance s xr cxr xi cxi ;;
        mul2_real_complex s b cb xr cxr xi cxi est
    | MCplx xr cxr xi cxi, MCplx yr cyr yi cyi =>
        '(cxr, cxi) <- simple_variance s xr cxr xi cxi ;;
        '(cyr, cyi) <- simple_variance s yr cyr yi cyi ;;
        mul2_complex_pair s xr cxr xi cxi yr cyr yi cyi est
    end.

  (* ================= function.implicit ================= *)
  Section Implicit.
    (* the user's function: what fn(x) returns for an uncertain-real argument x *)
    Variable F : ureal -> res operand.

    (* f_x.sensitivity(x): a plain number has no such method *)
    Definition sens_of (s : state) (r : operand) (x : ureal) : res V :=
      match r with OpdU o => sensitivity N s o x | OpdN _ => Err AttributeError end.

    (* x = UncertainReal._elementary(xv, 1.0, inf, None, True);  f_x = fn(x) *)
    Definition probe (s : state) (xv : V) : res (state * ureal * operand) :=
      '(s', x) <- elementary N s xv (one N) DInf None true ;;
      r <- F x ;;
      Ok (s', x, r).

    (* the loop `for i in xrange(100)` of nr_get_root *)
    Fixpoint nr_loop (fuel : nat) (s : state) (eps xk lower upper dx dx2 f df : V)
      : res (state * V * V) :=
      match fuel with
      | O => Err RuntimeError                                   (* "Failed to converge" *)
      | S fuel' =>
          let bisect :=
              ltb N (zero N) (mul N (sub N (mul N (sub N xk upper) df) f)
                                     (sub N (mul N (sub N xk lower) df) f))
              || ltb N (nabs N (mul N dx2 df)) (nabs N (mul N (two N) f)) in
          '(dx', xk') <- (if bisect
                          then d <- div N (sub N upper lower) (two N) ;; Ok (d, add N lower d)
                          else d <- div N f df ;; Ok (d, sub N xk d)) ;;
          if leb N (nabs N dx') eps then Ok (s, xk, df)
          else
            '(s', x, r) <- probe s xk' ;;
            let f' := val_of r in
            df' <- sens_of s' r x ;;
            if ltb N f' (zero N)
            then nr_loop fuel' s' eps xk' xk' upper dx' dx f' df'
            else nr_loop fuel' s' eps xk' lower xk' dx' dx f' df'
      end.

    (* a root found at a bracket end (|fn| < epsilon there) is returned as `lower` / `upper`, i.e. x_min / x_max
       (before the repair "fix: implicit() returned the function value ..." the FUNCTION value fl / fu was
       returned; finding C20-implicit-end, now a regression test) *)
    Definition nr_get_root_n (fuel : nat) (s : state) (x_min x_max eps : V) : res (state * V * V) :=
      if leb N x_max x_min then Err RuntimeError else
      '(s1, x1, r1) <- probe s x_min ;;
      let fl := val_of r1 in
      match r1 with
      | OpdN _ => Err AssertionError
      | OpdU _ =>
        if ltb N (nabs N fl) eps then
          d <- sens_of s1 r1 x1 ;; Ok (s1, x_min, d)
        else
        '(s2, x2, r2) <- probe s1 x_max ;;
        let fu := val_of r2 in
        if ltb N (nabs N fu) eps then
          d <- sens_of s2 r2 x2 ;; Ok (s2, x_max, d)
        else
        if leb N (zero N) (mul N fl fu) then Err RuntimeError else
        let lower := if ltb N (zero N) fl then x_max else x_min in
        let upper := if ltb N (zero N) fl then x_min else x_max in
        xk <- div N (add N lower upper) (two N) ;;
        let dx2 := nabs N (sub N upper lower) in
        '(s3, x3, r3) <- probe s2 xk ;;
        df <- sens_of s3 r3 x3 ;;
        nr_loop fuel s3 eps xk lower upper dx2 dx2 (val_of r3) df
      end.

    (* for i in xrange(100) *)
    Definition nr_get_root := nr_get_root_n 100.

    (* nr_get_root is modelled by hand; tools/tr_special.py emits this witness only while the statement sequence of the source
       is the one modelled above (each early exit returns the sensitivity of the evaluation made AT that end) *)
    Definition nr_get_root_source_shape : unit := g_nr_get_root_shape.

    (* implicit_real: y = fn(constant(xk)); dx_dy = -1/dy_dx; scale the three vectors *)
    Definition finish_implicit (xk dy_dx : V) : res ureal :=
      y <- F (mk_constant N xk None) ;;
      dx <- g_implicit_dx_dy N dy_dx ;;
      match y with
      | OpdN _ => Err AttributeError
      | OpdU oy => Ok (new_un N xk (scale (uc oy) dx) (scale (dc oy) dx) (scale (ic oy) dx))
      end.

    Definition implicit_real (s : state) (x_min x_max eps : V) : res (state * ureal) :=
      '(s', xk, dy_dx) <- nr_get_root s x_min x_max eps ;;
      o <- finish_implicit xk dy_dx ;;
      Ok (s', o).
  End Implicit.

  (* fn given as an expression tree over the argument (slot 0) and captured objects (slots 1..) *)
  Definition fn_of_expr (captured : list ureal) (e : expr N) (x : ureal) : res operand :=
    eval_un N (mkS 0 0 0 [] [] [] (SReal x None :: map (fun a => SReal a None) captured)) e.

End Special.

Arguments MSameA {N}. Arguments MSameB {N}. Arguments MObj {N} o. Arguments MPlain {N} v.
Arguments MReal {N} o c. Arguments MCplx {N} re cre im cim. Arguments MOther {N}.
Arguments MOutR {N} o. Arguments MOutC {N} re im.

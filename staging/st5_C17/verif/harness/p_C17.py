"""C17 -- uncertainty budgets are complete and agree with the components of uncertainty.

Correspondence: random models (independent / dependent / ensemble / complex influences in permuted
creation orders, partial use of complex inputs, declared real and complex intermediates) are built
on the implementation; the session snapshot (leaves, nodes, component vectors) is handed to the Coq
model coq/Budget.v, which is run (FNum, vm_compute) on every budget()/components() call of an option
grid; rows (label, u bit-for-bit, uid) or the exception class must be identical."""
import math, random, itertools
from fractions import Fraction
from common import *

COQ_PROPS = 'props/C17.v'
PARTIAL = ('proved (all vector lengths, all option values): real budget/components list each key of uc U dc exactly once with '
           '|u_component|, root-sum-square = u(y) when the influences are uncorrelated, influences=[...] lists exactly the requested '
           'ones in order, intermediate=True lists the declared intermediates except y, options only filter/sort/truncate (sorted by u '
           'descending by default); complex budget = one row per real influence and one u_bar row per complex pair UNDER the invariant '
           'that both components of each complex influence are present and adjacent, each row = u_bar(u_component(y, influence)) for '
           'independent AND dependent influences (C17-dependent-zero repaired); components() = budget rows without labels for every y and '
           'mode (C17-components-attr repaired). Refuted on the faithful model (known findings): partial use of a complex input mis-pairs '
           'and drops the next influence; a real result lists a complex influence as two rows. '
           'The positional invariant is derived from "both components present" + the session invariant (consecutive uids, shared complex id). '
           'Not proved, validated by correspondence only: complex intermediate=True and complex influences=[...] rows, label texts. '
           'Sorting is modelled as a stable insertion '
           'sort: equal to list.sort for NaN-free keys (validated by correspondence, not proved about timsort).')
ASSUMPTIONS = ['no NaN among the reported u values (list.sort with NaN keys is algorithm dependent)',
               'label strings are latin-1; key in {"u","label",None}',
               'rounding of u_bar (sum of squares, /2, sqrt) is bit-exact in correspondence, exact reals in the theorems']
TRUSTED = ['Coq Strings/DecimalString libraries (label formatting in the model)']

HEADER = '''From Coq Require Import ZArith List PrimFloat String.
From GTCV Require Import Num FNum Vector Opres KTypes Kernel Budget BudgetCase.
Import ListNotations.
Open Scope float_scope.
'''

# ------------------------------------------------------------------ model generator
LABELS = ['a', 'b', 'zz', 'x1', 'R', 'v_re', 'k', 'm2', 'Q', 'ab']
UVALS = [0.1, 0.25, 0.5, 1.0, 1.0, 2.0, 0.3, 1.7]

def gen_model(rng):
    """python source lines building a model; returns dict(src, y, ycomplex, pool, used, partial, ...)"""
    src = []
    reals = []; cplx = []; consts = []
    kinds = []
    n = rng.randint(1, 6)
    for _ in range(n):
        kinds.append(rng.choice(['ri', 'ri', 'rd', 'ens', 'ci', 'ci', 'cd', 'cens', 'const', 'cz']))
    cnt = [0]
    def name(p):
        cnt[0] += 1
        return '%s%d' % (p, cnt[0])
    def lab():
        return repr(rng.choice(LABELS) + str(rng.randint(0, 9))) if rng.random() < 0.6 else 'None'
    def val():
        return round(rng.uniform(-3, 3), 3) or 1.0
    def cval():
        return complex(val(), val())
    def df():
        return rng.choice(['inf', 'inf', '5', '11.5'])
    for k in kinds:
        if k == 'ri':
            v = name('x'); src.append('%s = ureal(%r, %r, df=%s, label=%s)' % (v, val(), rng.choice(UVALS), df(), lab())); reals.append(v)
        elif k == 'rd':
            v = name('x'); src.append('%s = ureal(%r, %r, label=%s, independent=False)' % (v, val(), rng.choice(UVALS), lab())); reals.append(v)
        elif k == 'ens':
            m = rng.randint(2, 3); vs = [name('x') for _ in range(m)]
            src.append('%s = multiple_ureal(%r, %r, %s%s)' % (', '.join(vs), [val() for _ in vs], [rng.choice(UVALS) for _ in vs], rng.choice(['4', '7.5', 'inf']),
                                                               (', label_seq=%r' % [rng.choice(LABELS) + str(i) for i in range(m)]) if rng.random() < 0.5 else ''))
            if rng.random() < 0.6:
                src.append('set_correlation(%r, %s, %s)' % (rng.choice([0.5, -0.25, 0.9]), vs[0], vs[1]))
            reals.extend(vs)
        elif k == 'ci':
            # a complex uncertainty with ONE ZERO component is a legitimate boundary declaration (C11)
            v = name('z'); u = rng.choice(['%r' % rng.choice(UVALS), '(%r, %r)' % (rng.choice(UVALS), rng.choice(UVALS)), '(%r, 0)' % rng.choice(UVALS),
                                           '(0, %r)' % rng.choice(UVALS), '(%r, 0.0)' % rng.choice(UVALS), '(0.0, %r)' % rng.choice(UVALS)])
            src.append('%s = ucomplex(%r, %s, df=%s, label=%s)' % (v, cval(), u, df(), lab())); cplx.append(v)
        elif k == 'cd':
            v = name('z'); a, b = rng.choice(UVALS), rng.choice(UVALS); r = rng.choice([0.5, -0.3, 0.0])
            if r:
                src.append('%s = ucomplex(%r, (%r, %r, %r, %r), label=%s)' % (v, cval(), a * a, r * a * b, r * a * b, b * b, lab()))
            else:
                if rng.random() < 0.4: a, b = rng.choice([(a, 0.0), (0.0, b)])       # one zero component, dependent
                src.append('%s = ucomplex(%r, (%r, %r), label=%s, independent=False)' % (v, cval(), a, b, lab()))
            cplx.append(v)
        elif k == 'cens':
            vs = [name('z') for _ in range(2)]
            def upair():
                c = rng.random()
                return (rng.choice(UVALS), 0.0) if c < 0.2 else (0.0, rng.choice(UVALS)) if c < 0.4 else (rng.choice(UVALS), rng.choice(UVALS))
            src.append('%s = multiple_ucomplex(%r, %r, %s%s)' % (', '.join(vs), [cval() for _ in vs], [upair() for _ in vs], rng.choice(['6', 'inf']),
                                                                  (', label_seq=%r' % ['e%d' % i for i in range(2)]) if rng.random() < 0.5 else ''))
            cplx.extend(vs)
        elif k == 'const':
            v = name('c'); src.append('%s = constant(%r, label=%s)' % (v, val(), lab())); consts.append(v)
        elif k == 'cz':
            v = name('cz'); src.append('%s = ucomplex(%r, 0, label=%s)' % (v, cval(), lab())); consts.append(v)
    # correlations between dependent reals of infinite dof
    deps = [l.split(' = ')[0] for l in src if 'independent=False' in l and l.startswith('x')]
    for a, b in itertools.combinations(deps, 2):
        if rng.random() < 0.5:
            src.append('set_correlation(%r, %s, %s)' % (rng.choice([0.5, -0.4, 0.2]), a, b))
    if not reals and not cplx:
        v = name('x'); src.append('%s = ureal(1.5, 0.5)' % v); reals.append(v)
    ycomplex = rng.random() < 0.55
    partial_ok = rng.random() < 0.35          # allow partial use of complex inputs
    used = set(); partial = set()
    def ratom():
        c = rng.random()
        if cplx and c < 0.45:
            z = rng.choice(cplx)
            if partial_ok or not ycomplex:
                a = rng.choice(['%s.real', '%s.imag', 'magnitude(%s)', '(%s*%s).real', '%s.real*%s.imag'])
            else:
                a = rng.choice(['magnitude(%s)', '(%s*%s).real', '(%s.real*%s.imag)', 'mag_squared(%s)'])
            if a in ('%s.real', '%s.imag'): partial.add(z)
            used.add(z)
            return a.replace('%s', z)
        if reals:
            x = rng.choice(reals); used.add(x); return x
        z = rng.choice(cplx); used.add(z); return 'magnitude(%s)' % z
    def catom():
        c = rng.random()
        if cplx and c < 0.6:
            z = rng.choice(cplx); used.add(z)
            return rng.choice(['%s', '%s*%s', '%s*(0.5-1j)', 'exp(%s)', '(2.0*%s)']).replace('%s', z)
        return rng.choice(['%s*(1+2j)', '%s*1j', '(%s+0j)']) % ratom()
    def rterm():
        c = rng.random()
        if c < 0.4: return '%r*%s' % (rng.choice([1.0, 2.0, -1.0, 0.5, 3.0]), ratom())
        if c < 0.7: return '%s*%s' % (ratom(), ratom())
        if c < 0.8: return '(%s - %s)' % (ratom(), ratom())
        return ratom()
    def cterm():
        c = rng.random()
        if c < 0.5: return catom()
        if c < 0.8: return '%s*%s' % (catom(), rng.choice([catom, ratom])())
        return '%r*%s' % (rng.choice([1.0, 2.0, -1.0]), catom())
    results = []
    for _ in range(rng.choice([0, 0, 1, 2, 3])):
        v = name('r')
        if rng.random() < 0.5:
            e = ' + '.join(rterm() for _ in range(rng.randint(1, 2)))
        else:
            e = ' + '.join(cterm() for _ in range(rng.randint(1, 2)))
        src.append('%s = result(%s%s)' % (v, e, (', label=%s' % lab()) if rng.random() < 0.7 else ''))
        results.append(v)
    terms = []
    for _ in range(rng.randint(1, 4)):
        if results and rng.random() < 0.5:
            r = rng.choice(results)
            terms.append(rng.choice(['%s', '2.0*%s', '%s*%s']).replace('%s', r) if ycomplex else r)
        else:
            terms.append(cterm() if ycomplex else rterm())
    if ycomplex:
        terms.append(catom())
        src.append('y = ' + ' + '.join(terms))
    else:
        # a real y: project complex-valued result terms
        src.append('y = ' + ' + '.join('magnitude(%s)' % t if t in results else t for t in terms))
        src.append('y = y.real if hasattr(y, "real") and not hasattr(y, "_node") else y')
    if results and rng.random() < 0.25:
        src.append('y = result(y%s)' % ((', label=%s' % lab()) if rng.random() < 0.5 else ''))
    if rng.random() < 0.02:
        src.append('y = 3.5')            # neither uncertain real nor complex: empty budget
    pool = reals + cplx + consts + results
    return {'src': src, 'pool': pool, 'reals': reals, 'cplx': cplx, 'consts': consts, 'results': results,
            'used': sorted(used), 'partial': sorted(partial)}

def gen_restored_model(rng):
    """several SESSIONS: 1-3 earlier sessions (context ids smaller AND larger than the reporting session's id 7) declare inputs and
    real / complex intermediate results and archive them (JSON, XML or pickle string); the reporting session restores them,
    declares further intermediates of its own and y = result(f(restored, new)) (sometimes undeclared).  So the keys of y's
    intermediate vector are NOT in creation order: y's own node sits in the middle, restored nodes sort before and after it."""
    src = []; reals = []; cplx = []; results = []
    others = rng.sample([2, 5, 2000, 3000, 90000], rng.randint(1, 3))
    if all(c > 7 for c in others) and rng.random() < 0.5: others[0] = rng.choice([2, 5])
    rest_real = []; rest_cplx = []; loads = []
    for si, cid in enumerate(others):
        src.append('context._context = context.Context(id=%d)' % cid)
        xs = []
        for j in range(rng.randint(1, 2)):
            v = 'a%d_%d' % (si, j)
            src.append('%s = ureal(%r, %r, label=%s%s)' % (v, round(rng.uniform(-3, 3), 3) or 1.0, rng.choice(UVALS), rng.choice(["'%s'" % v, 'None']),
                                                         rng.choice(['', ', independent=False', ', df=6'])))
            xs.append(v)
        zs = []
        if rng.random() < 0.5:
            v = 'q%d' % si
            src.append('%s = ucomplex(%r, %s, label=%s)' % (v, complex(round(rng.uniform(-2, 2), 2), round(rng.uniform(-2, 2), 2)),
                                                          rng.choice(['0.5', '(1.0, 0.25)', '(0.3, 0.0)']), rng.choice(["'%s'" % v, 'None'])))
            zs.append(v)
        names = list(xs) + list(zs)
        for j in range(rng.randint(1, 3)):
            v = 'w%d_%d' % (si, j)
            a, b = rng.choice(xs), rng.choice(xs)
            if zs and rng.random() < 0.45:
                e = rng.choice(['%s*%s' % (zs[0], a), '2.0*%s' % zs[0], '%s*(1+2j) + %s' % (a, zs[0]), '%s*1j + %s' % (a, b)]); rest_cplx.append(v)
            else:
                e = rng.choice(['2.0*%s + 1' % a, '%s*%s' % (a, b), '%s - 0.5*%s' % (a, b), 'sin(%s)' % a] + (['magnitude(%s)' % zs[0]] if zs else [])); rest_real.append(v)
            src.append('%s = result(%s%s)' % (v, e, rng.choice(['', ", label='%s'" % v, ", label='%s'" % rng.choice(LABELS)])))
            names.append(v)
        fmt = rng.choice(['json', 'json', 'xml', 'pickle'])
        d, l = {'json': ('dumps_json', 'loads_json'), 'xml': ('dumps_xml', 'loads_xml'), 'pickle': ('dumps', 'loads')}[fmt]
        src.append('_ar = persistence.Archive(); _ar.add(%s); _s%d = persistence.%s(_ar)' % (', '.join('%s=%s' % (n, n) for n in names), si, d))
        loads.append('_ar = persistence.%s(_s%d); %s = [_ar.extract(n) for n in %r]' % (l, si, ', '.join(names) + (',' if len(names) == 1 else ''), names))
        reals += xs; cplx += zs
    src.append('context._context = context.Context(id=7)')
    src += loads
    for j in range(rng.randint(1, 2)):
        v = 'x%d' % (j + 1); src.append('%s = ureal(%r, %r, label=%s)' % (v, round(rng.uniform(-3, 3), 3) or 1.0, rng.choice(UVALS), rng.choice(["'%s'" % v, 'None']))); reals.append(v)
    own = []
    for j in range(rng.randint(0, 2)):
        v = 'r%d' % (j + 1)
        e = '%s*%s + %s' % (rng.choice(rest_real + reals), rng.choice(reals), rng.choice(rest_real + reals))
        if rest_cplx and rng.random() < 0.4: e = '%s*%s' % (rng.choice(rest_cplx), rng.choice(reals))
        src.append('%s = result(%s%s)' % (v, e, rng.choice(['', ", label='%s'" % v]))); own.append(v)
    ycomplex = bool(rest_cplx) and rng.random() < 0.5
    terms = []
    for v in rest_real + rest_cplx + own:
        if rng.random() < 0.8:
            terms.append(rng.choice(['%s', '2.0*%s', '%s*' + rng.choice(reals)]).replace('%s', v))
    if not terms: terms.append((rest_real + rest_cplx)[0])
    terms.append(rng.choice(reals))
    rng.shuffle(terms)
    if ycomplex: terms.append('1j*%s' % rng.choice(reals))
    src.append('y = ' + ' + '.join(terms))
    if not ycomplex: src.append('y = magnitude(y) if not hasattr(y, "_node") else y')
    if rng.random() < 0.8: src.append('y = result(y%s)' % rng.choice(['', ", label='Y'"]))
    if rng.random() < 0.4:                     # a later intermediate that y does not depend on (larger counter than y's node)
        src.append('r9 = result(%s*2.0)' % rng.choice(reals)); own.append('r9')
    results = rest_real + rest_cplx + own
    return {'src': src, 'pool': reals + cplx + results, 'reals': reals, 'cplx': cplx, 'consts': [], 'results': results, 'used': [], 'partial': [],
            'restored': True}

RESTORED_KW = [{'intermediate': 'True', 'trim': '0'}, {'intermediate': 'True'}, {'intermediate': 'True', 'trim': '0', 'key': 'None'},
               {'intermediate': 'True', 'trim': '0.3', 'reverse': 'False'}, {'intermediate': 'True', 'max_number': '2', 'trim': '0'},
               {'intermediate': 'True', 'trim': '0', 'key': "'label'"}]

def gen_calls(rng, m, ncalls):
    """a list of calls: (fn, kwargs-as-source-dict)"""
    calls = []
    pool = m['pool']
    for i in range(ncalls):
        fn = 'budget' if rng.random() < 0.65 else 'components'
        kw = {}
        mode = rng.choice(['default', 'default', 'default', 'interm', 'infl', 'infl'])
        if mode == 'interm':
            kw['intermediate'] = 'True'
        elif mode == 'infl':
            k = rng.randint(0, min(5, len(pool)))
            sel = [rng.choice(pool) for _ in range(k)]
            c = rng.random()
            if c < 0.08 and m['src'][-1] != 'y = 3.5': sel.insert(rng.randint(0, len(sel)), 'y')
            elif c < 0.14: sel.insert(rng.randint(0, len(sel)), '2.5')
            elif c < 0.20 and m['src'][-1] != 'y = 3.5': sel.insert(rng.randint(0, len(sel)), '(y*1.0)')
            elif c < 0.30 and m['cplx']: sel.insert(rng.randint(0, len(sel)), rng.choice(m['cplx']) + rng.choice(['.real', '.imag']))
            kw['influences'] = '[' + ', '.join(sel) + ']'
            if rng.random() < 0.04: kw['intermediate'] = 'True'
        c = rng.random()
        if c < 0.55: kw['trim'] = '0'
        elif c < 0.75: kw['trim'] = repr(rng.choice([0.5, 1.0, 0.1, -1.0, 1.5, 0.3]))
        c = rng.random()
        if c < 0.3: kw['max_number'] = repr(rng.choice([0, 1, 2, 3, 100, -1, -2]))
        if fn == 'budget':
            c = rng.random()
            if c < 0.25: kw['key'] = "'label'"
            elif c < 0.35: kw['key'] = 'None'
            elif c < 0.45: kw['key'] = "'u'"
            if rng.random() < 0.4: kw['reverse'] = rng.choice(['True', 'False'])
        calls.append((fn, kw))
    # the plain complete lists always
    calls.insert(0, ('budget', {'trim': '0'}))
    calls.insert(1, ('components', {'trim': '0'}))
    return calls

# ------------------------------------------------------------------ snapshot -> Coq
def ckey(uid):
    return '(%s, %s)' % (cz(uid[0]), cz(uid[1]))

def clabel(s):
    if s is None: return 'None'
    return '(Some %s)' % cz(int.from_bytes(b'\x01' + s.encode('latin-1'), 'big'))

def cdf(d):
    if math.isinf(d): return 'DInf'
    if math.isnan(d): return 'DNaN'
    return '(DFin %s)' % cf(d)

class Snap(object):
    def __init__(self):
        self.leaves = {}; self.nodes = {}
    def node(self, n):
        from GTC import nodes
        if type(n) is nodes.Node:
            self.nodes[n.uid] = n
        elif n.uid is not None:
            self.leaves[n.uid] = n
    def vec(self, v):
        items = []
        for n, x in zip(v._index, v._value):
            self.node(n)
            items.append('(%s, %s)' % (ckey(n.uid), cf(x)))
        return clist(items)
    def ureal(self, o):
        from GTC import nodes
        n = o._node
        if n is None: nr = 'NoNode'
        elif type(n) is nodes.Node: nr = '(NodeRef %s)' % ckey(n.uid); self.node(n)
        elif n.uid is None: nr = '(ConstLeaf %s)' % clabel(n.label)
        else: nr = '(LeafRef %s)' % ckey(n.uid); self.node(n)
        return '(mkU %s %s %s %s %s)' % (cf(o.x), self.vec(o._u_components), self.vec(o._d_components), self.vec(o._i_components), nr)
    def yval(self, y):
        from GTC import lib
        if isinstance(y, lib.UncertainReal): return '(@YReal NN %s)' % self.ureal(y)
        if isinstance(y, lib.UncertainComplex): return '(@YComplex NN %s %s)' % (self.ureal(y.real), self.ureal(y.imag))
        return '(@YOther NN)'
    def infl(self, i):
        from GTC import lib
        if isinstance(i, lib.UncertainReal): return '(@IReal NN %s)' % self.ureal(i)
        if isinstance(i, lib.UncertainComplex): return '(@IComplex NN %s %s %s)' % (self.ureal(i.real), self.ureal(i.imag), clabel(i.label))
        return '(@IOther NN)'
    def state(self):
        ls = []
        for uid in sorted(self.leaves):
            l = self.leaves[uid]
            cx = 'None'
            if hasattr(l, 'complex'):
                cx = '(Some (%s, %s))' % (ckey(l.complex[0]), ckey(l.complex[1]))
            ls.append('(%s, mkLeaf %s %s %s [] 0%%nat %s %s)' % (ckey(uid), cf(l.u), cdf(l.df), cbool(l.independent), cx, clabel(l.label)))
        ns = []; ncx = []
        for uid in sorted(self.nodes):
            n = self.nodes[uid]
            ns.append('(%s, mkNode %s %s %s)' % (ckey(uid), cf(n.u), cdf(n.df) if n.df is not None else 'DInf', clabel(n.label)))
            if hasattr(n, 'complex'):
                ncx.append('(%s, (%s, %s))' % (ckey(uid), ckey(n.complex[0]), ckey(n.complex[1])))
        return 'mkS 0%%Z 0%%Z 0%%Z %s %s [] []' % (clist(ls), clist(ns)), clist(ncx)

def cruid(u):
    if u is None: return 'UNone'
    if isinstance(u, tuple) and len(u) == 2 and all(isinstance(e, int) for e in u): return '(UElem %s)' % ckey(u)
    if isinstance(u, tuple) and len(u) == 3 and all(isinstance(e, int) for e in u): return '(UInterm %s)' % ckey(u)
    if isinstance(u, (tuple, list)) and len(u) == 2: return '(UPair %s %s)' % (cruid(u[0]), cruid(u[1]))
    raise ValueError('unexpected uid %r' % (u,))

def cstr(s):
    if any(ord(ch) < 32 or ord(ch) > 126 for ch in s): raise ValueError('label %r' % s)
    return '"%s"%%string' % s.replace('"', '""')

def crows(rows, is_budget):
    out = []
    for r in rows:
        lb = ('(Some %s)' % cstr(r.label) if r.label is not None else 'None') if is_budget else 'None'
        out.append('(@mkRow NN %s %s %s)' % (lb, cf(r.u), cruid(r.uid)))
    return clist(out)

def copts(infl_txt, kw):
    trim = float(eval(kw.get('trim', '0.01')))
    mx = eval(kw.get('max_number', 'None'))
    key = eval(kw.get('key', "'u'"))
    return '(@mkOpts NN %s %s %s %s %s %s)' % (infl_txt, cf(trim), copt(mx, cz), cbool(eval(kw.get('intermediate', 'False'))),
                                          {None: 'None', 'u': '(Some KU)', 'label': '(Some KLabel)'}[key], cbool(eval(kw.get('reverse', 'True'))))

def run_src(src, ctx=7):
    new_context(ctx)
    ns = {}
    exec('from GTC import *\nfrom GTC import reporting, context, persistence\ninf = float("inf")\n' + '\n'.join(src), ns)
    return ns

def call_src(fn, kw, target='y'):
    return 'reporting.%s(%s%s)' % (fn, target, ''.join(', %s=%s' % (k, v) for k, v in sorted(kw.items())))

def observe(ns, fn, kw, target='y'):
    """('ok', rows) or ('exn', class name); influences=[...] uses the objects evaluated before the first report"""
    kw2 = dict(kw)
    if 'influences' in kw2:
        ns['_infl'] = kw2.pop('influences_obj'); kw2['influences'] = '_infl'
    kw2.pop('influences_obj', None)
    try:
        rows = eval(call_src(fn, kw2, target), ns)
    except Exception as ex:
        import traceback
        if any(fr.name == '__repr__' for fr in traceback.extract_tb(ex.__traceback__)):
            return ('exn', 'raised-inside-repr')        # -> OtherExn: only the fact that it raises is compared
        return ('exn', type(ex).__name__)
    return ('ok', rows)

def observe_ucomp(t, io):
    """reporting.u_component(t, io): ('ok', [floats]) (one for real/real, else four) or ('exn', class)"""
    from GTC import reporting as rp
    try:
        c = rp.u_component(t, io)
    except Exception as ex:
        import traceback
        if any(fr.name == '__repr__' for fr in traceback.extract_tb(ex.__traceback__)):
            return ('exn', 'raised-inside-repr')
        return ('exn', type(ex).__name__)
    if isinstance(c, (int, float)): return ('ok', [float(c)])
    return ('ok', [float(v) for v in c])

def dump_ureal(o):
    """bit-exact dump of the value and the three component vectors of an uncertain real"""
    return (float(o.x).hex(),) + tuple(tuple((n.uid, float(x).hex()) for n, x in zip(v._index, v._value))
                                       for v in (o._u_components, o._d_components, o._i_components))

def watch_list(ns, m):
    """(name, uncertain real) for every object whose vectors a report could touch"""
    from GTC import lib
    out = []
    def add(name, o):
        if isinstance(o, lib.UncertainReal): out.append((name, o))
        elif isinstance(o, lib.UncertainComplex): out.append((name + '.real', o.real)); out.append((name + '.imag', o.imag))
    for v in ['y', 'ymag'] + list(m['pool']):
        if v in ns: add(v, ns[v])
    return out

SEQ_KW = [{'trim': '0'}, {'trim': '0'}, {'trim': '0', 'key': 'None'}, {}, {'trim': '0', 'intermediate': 'True'}]

def sequence_calls(rng, ycomplex):
    """the report sequence run after the option-grid calls on y: (target, fn, kw)"""
    seq = []
    if ycomplex:
        for t in ('y.real', 'y.imag', 'ymag2'):          # ymag2 = magnitude(y) evaluated AFTER the complex reports
            seq.append((t, 'budget', {'trim': '0'}))
            seq.append((t, 'components', {'trim': '0'}))
            if rng.random() < 0.5: seq.append((t, rng.choice(['budget', 'components']), dict(rng.choice(SEQ_KW))))
        seq.append(('y', 'budget', {'trim': '0'})); seq.append(('y', 'components', {'trim': '0'}))
        seq.append((rng.choice(['y.real', 'y.imag']), 'budget', {'trim': '0', 'key': 'None'}))
    else:
        seq.append(('y', 'budget', {'trim': '0', 'key': 'None'})); seq.append(('y', 'components', {'trim': '0'}))
    return seq

def case_term(m, calls, rng=None, extra_targets=(), fixed_calls=None):
    """run the model's source and a SEQUENCE of report calls on the implementation: the option-grid calls on y, then
    (complex y) real reports of y.real, y.imag, magnitude(y), then y again.  Everything the model needs (targets,
    influences) is snapshotted BEFORE the first report; after every call all component vectors are dumped again and
    must be bit-identical (reports are reads).  Returns (Coq term : Z, observations, calls as run, vector changes, number of watched objects)"""
    from GTC import lib, core
    rng = rng or random.Random(0)
    with record_math() as rec:
        ns = run_src(m['src'])
        y = ns['y']
        ycomplex = isinstance(y, lib.UncertainComplex)
        if ycomplex:
            try: ns['ymag'] = core.magnitude(y)
            except Exception: pass
        snap = Snap()
        tsnap = {'y': snap.yval(y)}
        if ycomplex:
            tsnap['y.real'] = snap.yval(y.real); tsnap['y.imag'] = snap.yval(y.imag)
            if 'ymag' in ns: tsnap['ymag2'] = snap.yval(ns['ymag'])
        for tn in extra_targets:
            tsnap[tn] = snap.yval(ns[tn])
        # the declared numbers themselves: their shape is checked by Budget.decl_ok, and two of them are reported on
        decls = []
        for v in m['reals'] + m['cplx'] + m['consts']:
            o = ns[v]
            for x in ((o.real, o.imag) if isinstance(o, lib.UncertainComplex) else (o,)):
                decls.append(snap.ureal(x))
        inputs = m['cplx'] + m['reals']
        picked = ([rng.choice(m['cplx'])] if m['cplx'] else []) + ([rng.choice(inputs)] if inputs else [])
        extra = []
        for v in picked:
            tsnap[v] = snap.yval(ns[v])
            extra.append((v, 'budget', {'trim': '0'})); extra.append((v, rng.choice(['budget', 'components']), dict(rng.choice(SEQ_KW))))
        allcalls = [('y', fn, kw) for fn, kw in calls] + [c for c in sequence_calls(rng, ycomplex) if c[0] in tsnap] + extra
        if fixed_calls is not None: allcalls = list(fixed_calls)
        # reporting.u_component(target, influence) for the influences AS THE USER HOLDS THEM (uncertain reals, the uncertain
        # complex numbers themselves, parts of complex numbers, constants, intermediates, y itself): pure, evaluated first
        ucalls = []; uinfo = []
        cands = [(v, ns[v]) for v in m['pool']] + [(v + part, getattr(ns[v], part[1:])) for v in m['cplx'] for part in ('.real', '.imag')]
        utargets = [('y', y)] + ([('y.real', y.real), ('y.imag', y.imag)] if ycomplex else []) + [(tn, ns[tn]) for tn in extra_targets]
        for tn, t in utargets:
            if not isinstance(t, (lib.UncertainReal, lib.UncertainComplex)): continue
            sel = cands if len(cands) <= 7 else rng.sample(cands, 7)
            for iname, io in sel + [('y', y)]:
                r = observe_ucomp(t, io)
                exp = '(Ok %s)' % clist([cf(v) for v in r[1]]) if r[0] == 'ok' else '(Err %s)' % cexn(r[1])
                ucalls.append('(<<%s>>, %s, %s)' % (tn, snap.infl(io), exp)); uinfo.append((tn, iname, r))
        # influences: evaluate the expressions and take their snapshots before any report
        prepared = []
        for t, fn, kw in allcalls:
            kw = dict(kw); itxt = 'None'
            if 'influences' in kw:
                objs = eval(kw['influences'], ns)
                kw['influences_obj'] = objs
                itxt = '(Some %s)' % clist([snap.infl(i) for i in objs])
            prepared.append((t, fn, kw, itxt))
        watched = watch_list(ns, m)
        base = {name: dump_ureal(o) for name, o in watched}
        ctxt = []; obs = []; changes = []
        for t, fn, kw, itxt in prepared:
            if t == 'ymag2' and 'ymag2' not in ns:
                ns['ymag2'] = core.magnitude(y)
                d = dump_ureal(ns['ymag2'])
                if d != base['ymag']:
                    changes.append({'after': 'earlier reports', 'object': 'magnitude(y) evaluated after the reports', 'before': repr(base['ymag'])[:400], 'now': repr(d)[:400]})
            r = observe(ns, fn, kw, t)
            obs.append(r)
            exp = ('(Ok %s)' % crows(r[1], fn == 'budget')) if r[0] == 'ok' else '(Err %s)' % cexn(r[1])
            ctxt.append('(<<%s>>, %s, %s, %s)' % (t, cbool(fn == 'budget'), copts(itxt, kw), exp))
            for name, o in watched:
                d = dump_ureal(o)
                if d != base[name]:
                    changes.append({'after': call_src(fn, {k: v for k, v in kw.items() if k != 'influences_obj'}, t), 'object': name,
                                    'before': repr(base[name])[:400], 'now': repr(d)[:400]})
                    base[name] = d          # report each change once
    st, ncx = snap.state()
    tbl = oracle_table(rec.log)
    run = [(t, fn, {k: v for k, v in kw.items() if k != 'influences_obj'}) for t, fn, kw, _ in prepared]
    run_info = {'ucalls': uinfo, 'ycomplex': ycomplex}
    # the targets are bound once (let) and referred to by name in every call
    names = {t: 'tg%d' % i for i, t in enumerate(sorted(tsnap))}
    lets = ''.join('let %s := %s in ' % (names[t], tsnap[t]) for t in sorted(tsnap))
    body = '(let NN := FNum %s in %srun_case17u NN (%s) %s %s %s %s)' % (tbl, lets, st, ncx, clist(decls), clist(ucalls), clist(ctxt))
    for t in tsnap: body = body.replace('<<%s>>' % t, names[t])
    return (body,
            obs, run, changes, len(watched), run_info)

def classify(m, ns):
    from GTC import lib
    y = ns['y']
    return {'y': 'complex' if isinstance(y, lib.UncertainComplex) else 'real' if isinstance(y, lib.UncertainReal) else 'other',
            'partial': bool(m['partial']), 'n_inputs': len(m['reals']) + len(m['cplx']), 'results': len(m['results'])}

def correspondence(rng, tier):
    nmodels = 160 if tier == 'quick' else 3000
    ncalls = 14
    terms = []; meta = []
    dist = {'y_real': 0, 'y_complex': 0, 'partial_complex_use': 0, 'with_intermediates': 0, 'calls_budget': 0, 'calls_components': 0,
            'calls_raising': 0, 'mode_default': 0, 'mode_intermediate': 0, 'mode_influences': 0, 'rows_total': 0, 'key_label': 0,
            'max_number': 0, 'trim_nonzero': 0, 'gen_failed': 0, 'sequence_calls_on_parts': 0, 'vector_dumps_compared': 0}
    distinct = set(); samples = []; mismatches = []
    tries = 0
    while len(terms) < nmodels and tries < nmodels * 3:
        tries += 1
        restored = (tries % 6 == 0)
        m = gen_restored_model(rng) if restored else gen_model(rng)
        calls = gen_calls(rng, m, ncalls - 6 if restored else ncalls)
        if restored:
            calls = [('budget', dict(k)) for k in RESTORED_KW[:3]] + [(rng.choice(['budget', 'components']), dict(k)) for k in RESTORED_KW] + calls
            dist['restored_sessions'] = dist.get('restored_sessions', 0) + 1
        try:
            term, obs, run, changes, nwatched, info = case_term(m, calls, rng)
        except Exception as ex:
            dist['gen_failed'] += 1
            continue
        terms.append(term); meta.append((m, run, obs, info))
        dist['u_component_calls'] = dist.get('u_component_calls', 0) + len(info['ucalls'])
        for ch in changes[:3]:
            mismatches.append(dict(ch, kind='report-call-changed-component-vectors', python=m['src'],
                                   sequence=[call_src(fn, kw, t) for t, fn, kw in run]))
        dist['sequence_calls_on_parts'] += sum(1 for t, _, _ in run if t != 'y')
        dist['vector_dumps_compared'] += len(run) * nwatched
        dist['y_complex' if info['ycomplex'] else 'y_real'] += 1
        if m['partial']: dist['partial_complex_use'] += 1
        if m['results']: dist['with_intermediates'] += 1
        for (t, fn, kw), r in zip(run, obs):
            dist['calls_' + fn] += 1
            if r[0] == 'exn': dist['calls_raising'] += 1
            else:
                dist['rows_total'] += len(r[1])
                if len(r[1]) >= 2: distinct.add((len(terms), call_src(fn, kw, t)))
            dist['mode_intermediate' if 'intermediate' in kw else 'mode_influences' if 'influences' in kw else 'mode_default'] += 1
            if kw.get('key') == "'label'": dist['key_label'] += 1
            if 'max_number' in kw: dist['max_number'] += 1
            if kw.get('trim', '0.01') != '0': dist['trim_nonzero'] += 1
        if len(samples) < 3:
            samples.append({'python': m['src'], 'calls': [call_src(fn, kw, t) for t, fn, kw in run[:4] + run[-4:]]})
    values, errors = coq_eval_cases('C17', HEADER, terms, per_file=20)
    for e in errors:
        mismatches.append({'kind': 'coq-file-failed', 'detail': e})
    for i, v in enumerate(values):
        if v is None or v == -1: continue
        m, run, obs, info = meta[i]
        if 80000000 <= v < 90000000:
            tn, iname, r = info['ucalls'][v - 80000000]
            mismatches.append({'kind': 'u_component-model-vs-implementation', 'python': m['src'], 'call': 'reporting.u_component(%s, %s)' % (tn, iname),
                               'implementation': repr(r)[:300]})
            continue
        if v >= 90000000:
            mismatches.append({'kind': 'declared-number-vectors-differ-from-model', 'python': m['src'], 'declared_part_index': v - 90000000,
                               'meaning': 'the component vectors of a declared number are not what Kernel.elementary / Budget.decl_ok give: '
                                          'its own leaf with its standard uncertainty (zero included) as the only entry; parts in order '
                                          'of m.reals + m.cplx (real, imag) + m.consts: %r' % (m['reals'] + m['cplx'] + m['consts'],)})
            continue
        ci = v // 10000; code = v % 10000 - 10
        t, fn, kw = run[ci] if ci < len(run) else ('y', '?', {})
        mismatches.append({'kind': 'budget-model-vs-implementation', 'python': m['src'], 'call': call_src(fn, kw, t),
                           'sequence_before': [call_src(f2, k2, t2) for t2, f2, k2 in run[:ci]][-6:],
                           'implementation': repr(obs[ci])[:600] if ci < len(obs) else None,
                           'code': code, 'meaning': 'first differing row index (>=1000: lengths differ); -2 one side raised; -3 different exceptions'})
    res = {'programs': len(terms), 'steps': sum(len(c) + len(i['ucalls']) for _, c, _, i in meta), 'mismatches': mismatches, 'distinct': len(distinct),
            'distribution': dist, 'samples': samples,
            'rule': 'random models (1-6 declarations of independent/dependent/ensemble reals, independent/correlated/ensemble complex, constants, '
                    'in random creation order; real or complex y; optional partial use z.real/z.imag; 0-3 declared intermediates) x 14 calls of '
                    'budget/components over the option grid (default/intermediate/influences incl. malformed, trim, max_number, key, reverse), '
                    'every 6th model spans SEVERAL SESSIONS: intermediates (real and complex) declared and archived (JSON/XML/pickle) under '
                    'context ids smaller and larger than the reporting session, restored, mixed with new intermediates, y declared in the '
                    'middle of its uid-ordered intermediate vector, intermediate=True reports first; '
                    'reporting.u_component(target, influence) for influences as the user holds them (reals, complex numbers themselves, their '
                    'parts, constants, intermediates) against Budget.u_component_any; '
                    'followed for a complex y by real reports of y.real, y.imag and magnitude(y) (evaluated after the complex reports) and the '
                    'complex reports again -- one SEQUENCE on the same objects; the model works on snapshots taken before the first call; after '
                    'every call the value and the three component vectors of y, its parts, magnitude(y) and every declared input/intermediate '
                    'are dumped bit-exactly and must be unchanged; every returned row (label, u by bits, uid) or exception class compared with the FNum model; non-trivial = a call returning >= 2 rows'}
    tr = budget_transparency_correspondence(rng, 'quick' if tier == 'quick' else 'mid', 'C17t')
    return add_to(res, tr, 'result_transparency', tr['rule'])

# ------------------------------------------------------------------ result() is transparent for the reports (C06 / C17)
T_BUDGET_KW = [{'intermediate': 'True'}, {'intermediate': 'True', 'trim': '0'}, {'intermediate': 'True', 'trim': '0.5'},
               {'intermediate': 'True', 'max_number': '1'}, {'intermediate': 'True', 'max_number': '2', 'reverse': 'False'},
               {'intermediate': 'True', 'reverse': 'False'}, {'intermediate': 'True', 'key': "'label'"}, {'intermediate': 'True', 'key': 'None'},
               {'intermediate': 'True', 'trim': '0.05', 'key': "'u'"}, {}, {'trim': '0'}, {'trim': '0.5', 'max_number': '2'}]
T_COMP_KW = [{'intermediate': 'True'}, {'intermediate': 'True', 'trim': '0'}, {'intermediate': 'True', 'trim': '0.3'},
             {'intermediate': 'True', 'max_number': '2'}, {}, {'trim': '0'}]

def gen_transparency_model(rng):
    """w = a sum dominated by a few inputs plus SMALL declared intermediates (components far below 1 % of u(w), between 1 % and
    100 %, and comparable); yw = result(w): the same number, declared.  Real (70 %) or complex w."""
    src = []; reals = []; cplx = []; results = []
    n = rng.randint(2, 4)
    for i in range(n):
        v = 'x%d' % (i + 1)
        u = rng.choice([1.0, 0.5, 2.0, 1.0, 0.02, 1e-3])
        kind = rng.random()
        if kind < 0.6: src.append('%s = ureal(%r, %r, label=%s)' % (v, round(rng.uniform(-3, 3), 3) or 1.0, u, rng.choice(["'%s'" % v, 'None'])))
        elif kind < 0.8: src.append('%s = ureal(%r, %r, independent=False)' % (v, round(rng.uniform(-3, 3), 3) or 1.0, u))
        else: src.append('%s = ureal(%r, %r, df=%s)' % (v, round(rng.uniform(-3, 3), 3) or 1.0, u, rng.choice(['5', '8.5'])))
        reals.append(v)
    wcomplex = rng.random() < 0.3
    if wcomplex or rng.random() < 0.3:
        src.append('z1 = ucomplex(%r, %s, label=%s)' % (complex(round(rng.uniform(-2, 2), 2), round(rng.uniform(-2, 2), 2)),
                                                      rng.choice(['0.5', '(1.0, 0.25)', '(0.01, 0.0)']), rng.choice(["'z'", 'None'])))
        cplx.append('z1')
    k = rng.randint(1, 4)
    for j in range(k):
        v = 'r%d' % (j + 1)
        coef = rng.choice([1e-3, 1e-4, 0.004, 0.05, 0.3, 1.0])       # small, medium, comparable contributions
        a, b = rng.choice(reals), rng.choice(reals)
        e = rng.choice(['%r*%s' % (coef, a), '%r*%s*%s' % (coef, a, b), '%r*(%s - %s)' % (coef, a, b), '%r*sin(%s)' % (coef, a)])
        if cplx and rng.random() < 0.3:
            e = rng.choice(['%r*z1' % coef, '%r*magnitude(z1)' % coef, '%r*z1*%s' % (coef, a)])
        src.append('%s = result(%s%s)' % (v, e, rng.choice(['', ", label='m%d'" % j, ", label='%s'" % rng.choice(LABELS)])))
        results.append(v)
    terms = ['%r*%s' % (rng.choice([1.0, 2.0, -1.0, 3.0]), rng.choice(reals)) for _ in range(rng.randint(1, 2))]
    for v in results:
        terms.append(rng.choice(['%s', '%s', '2.0*%s', '%s*%s']).replace('%s', v) if not wcomplex else rng.choice(['%s*(1+2j)', '%s*1j', '(%s+0j)', '%s']) % v)
    if wcomplex: terms.append(rng.choice(['z1', '2.0*z1', 'z1*%s' % rng.choice(reals)]))
    rng.shuffle(terms)
    src.append('w = ' + ' + '.join(terms))
    if not wcomplex: src.append('w = magnitude(w) if not hasattr(w, "_node") else w')
    src.append('yw = result(w%s)' % rng.choice(['', ", label='Y'", ", label='yw'"]))
    src.append('y = yw')
    return {'src': src, 'pool': reals + cplx + results, 'reals': reals, 'cplx': cplx, 'consts': [], 'results': results, 'used': [], 'partial': []}

def budget_transparency_correspondence(rng, tier, name):
    """C06 for the reports of C17: every budget / components of result(w) equals the one of w -- default listing, influences,
    and intermediate=True (where y's own node is left out BEFORE trim / sort / max_number), with default trim and explicit
    trim / max_number / key / reverse, for w whose own uncertainty dominates small declared intermediates.  Checked twice:
    (a) implementation differential w vs result(w); (b) both against the Coq model Budget.v (FNum), row by row."""
    nmodels = {'quick': 40, 'mid': 300}.get(tier, 1000)
    terms = []; meta = []; mismatches = []
    dist = {'w_real': 0, 'w_complex': 0, 'calls': 0, 'intermediate_calls_default_trim': 0, 'rows_trimmed_away_by_default_trim': 0, 'gen_failed': 0}
    tries = 0
    while len(terms) < nmodels and tries < nmodels * 3:
        tries += 1
        m = gen_transparency_model(rng)
        fixed = []
        for kw in T_BUDGET_KW: fixed += [('w', 'budget', dict(kw)), ('y', 'budget', dict(kw))]
        for kw in T_COMP_KW: fixed += [('w', 'components', dict(kw)), ('y', 'components', dict(kw))]
        if rng.random() < 0.5:
            infl = '[' + ', '.join(rng.sample(m['pool'], min(len(m['pool']), 3))) + ']'
            fixed += [('w', 'budget', {'influences': infl}), ('y', 'budget', {'influences': infl})]
        try:
            term, obs, run, changes, nwatched, info = case_term(m, [], rng, extra_targets=('w',), fixed_calls=fixed)
        except Exception:
            dist['gen_failed'] += 1; continue
        terms.append(term); meta.append((m, run, obs, info))
        dist['w_complex' if info['ycomplex'] else 'w_real'] += 1
        dist['calls'] += len(run)
        for ch in changes[:2]:
            mismatches.append(dict(ch, kind='report-call-changed-component-vectors', python=m['src']))
        # (a) differential: the report about result(w) is the report about w
        for i in range(0, len(run) - 1, 2):
            (tw, fn, kw), (ty, _, _) = run[i], run[i + 1]
            rw, ry = obs[i], obs[i + 1]
            cw = [(r.uid, r.u, getattr(r, 'label', None)) for r in rw[1]] if rw[0] == 'ok' else rw
            cy = [(r.uid, r.u, getattr(r, 'label', None)) for r in ry[1]] if ry[0] == 'ok' else ry
            if kw.get('intermediate') and 'trim' not in kw:
                dist['intermediate_calls_default_trim'] += 1
                full = obs[i + 2] if i + 2 < len(obs) and run[i + 2][2].get('trim') == '0' and run[i + 2][2].get('intermediate') else None
                if rw[0] == 'ok' and full and full[0] == 'ok' and len(kw) == 1:
                    dist['rows_trimmed_away_by_default_trim'] += len(full[1]) - len(rw[1])
            if cw != cy:
                mismatches.append({'kind': 'result-not-transparent-for-report', 'python': m['src'], 'call_on_w': call_src(fn, kw, 'w'),
                                   'call_on_result_w': call_src(fn, kw, 'yw'), 'w': repr(cw)[:500], 'result(w)': repr(cy)[:500]})
    values, errors = coq_eval_cases(name, HEADER, terms, per_file=20)
    for e in errors: mismatches.append({'kind': 'coq-file-failed', 'detail': e})
    for i, v in enumerate(values):
        if v is None or v == -1: continue
        m, run, obs, info = meta[i]
        if v >= 80000000:
            mismatches.append({'kind': 'declared-number-or-u_component-differs-from-model', 'python': m['src'], 'code': v}); continue
        ci = v // 10000
        t, fn, kw = run[ci] if ci < len(run) else ('y', '?', {})
        mismatches.append({'kind': 'budget-model-vs-implementation', 'python': m['src'], 'call': call_src(fn, kw, 'yw' if t == 'y' else t),
                           'implementation': repr(obs[ci])[:500] if ci < len(obs) else None, 'code': v % 10000 - 10})
    return {'programs': len(terms), 'steps': dist['calls'], 'mismatches': mismatches, 'distinct': len(terms), 'distribution': dist,
            'samples': [{'python': meta[0][0]['src']}] if meta else [],
            'rule': 'models w = dominant inputs + declared intermediates whose components are far below / around / comparable to 1 %% of u(w), '
                    'yw = result(w); %d budget and %d components option sets (intermediate=True with default and explicit trim, max_number, '
                    'key, reverse; default; influences) on w and on yw: rows must be identical (differential) and equal to the Coq model Budget.v'
                    % (len(T_BUDGET_KW), len(T_COMP_KW))}

def add_to(r, f, tag, text):
    """merge an extra correspondence dict f into r"""
    r['mismatches'] = r.get('mismatches', []) + f.get('mismatches', [])
    r['programs'] = r.get('programs', 0) + f.get('programs', 0); r['steps'] = r.get('steps', 0) + f.get('steps', 0)
    r['distinct'] = r.get('distinct', 0) + f.get('distinct', 0)
    r.setdefault('distribution', {})[tag] = f.get('distribution', f.get('programs', 0))
    r['rule'] = r.get('rule', '') + '; plus ' + tag + ': ' + text
    return r

# ------------------------------------------------------------------ property oracle (search only)
def u_bar_exact(c):
    return math.sqrt(float(sum(Fraction(float(v)) ** 2 for v in c) / 2))

def close(a, b):
    return abs(a - b) <= 1e-12 * max(abs(a), abs(b), 1e-300)

def real_report_rows(t):
    from GTC import reporting as rp
    return {fn: [(repr(r.uid), r.u) for r in getattr(rp, fn)(t, trim=0)] for fn in ('budget', 'components')}

def check_real_rows(name, t, rows, leaves):
    """rows of a complete real report of t: no uid twice, every row is a declared elementary input with u == |u_component(t, x)|
    (exactly: both read the same vector), every input with a non-zero component is listed"""
    from GTC import reporting as rp
    for fn in ('budget', 'components'):
        uids = [u for u, _ in rows[fn]]
        dup = sorted(set(u for u in uids if uids.count(u) > 1))
        if dup: return '%s(%s, trim=0) lists %s more than once' % (fn, name, ', '.join(dup))
        for uid, u in rows[fn]:
            if uid not in leaves: return '%s(%s, trim=0) lists %s, which is not a declared elementary input' % (fn, name, uid)
            c = abs(rp.u_component(t, leaves[uid]))
            if u != c: return '%s(%s, trim=0): u of %s is %r, |u_component| is %r' % (fn, name, uid, u, c)
        for uid, x in leaves.items():
            if rp.u_component(t, x) != 0 and uid not in uids: return '%s(%s, trim=0) misses %s' % (fn, name, uid)
    return None

def m_decl(m, v):
    for l in m['src']:
        if l.split(' = ')[0].replace(' ', '').split(',').count(v): return l
    return v

def spec_check(m, ns):
    """the property for one model, INCLUDING report sequences: the complete real reports of y.real, y.imag and magnitude(y)
    are taken before any complex report of y, the single-report checks (which produce the complex reports) run, and the real
    reports -- of the same objects and of a freshly evaluated magnitude(y) -- must be the same afterwards"""
    from GTC import lib, core, reporting as rp
    y = ns['y']
    # a declared number reports exactly itself (a constant: nothing), whatever its uncertainties -- one zero component included
    for v in m['reals'] + m['cplx'] + m['consts']:
        o = ns[v]
        if isinstance(o, lib.UncertainComplex):
            ur, ui = o.real.u, o.imag.u
            want = [(repr(o.uid), math.sqrt((ur * ur + ui * ui) / 2))] if o.is_elementary else []
        else:
            want = [(repr(o.uid), o.u)] if o.is_elementary else []
        for fn in ('budget', 'components'):
            got = [(repr(r.uid), r.u) for r in getattr(rp, fn)(o, trim=0)]
            if len(got) != len(want) or any(g[0] != w[0] or not close(g[1], w[1]) for g, w in zip(got, want)):
                return {'class': [], 'what': '%s(%s, trim=0) of the declared number %s is %r, expected %r' % (fn, v, m_decl(m, v), got, want)}
    seq = []
    if isinstance(y, lib.UncertainComplex):
        leaves = {}
        for v in m['reals'] + m['cplx']:
            o = ns[v]
            for x in ((o.real, o.imag) if isinstance(o, lib.UncertainComplex) else (o,)):
                if getattr(x, 'is_elementary', False): leaves[repr(x.uid)] = x
        seq = [('y.real', y.real), ('y.imag', y.imag)]
        try: seq.append(('magnitude(y)', core.magnitude(y)))
        except Exception: pass
        before = {}
        for name, t in seq:
            before[name] = real_report_rows(t)
            bad = check_real_rows(name, t, before[name], leaves)
            if bad: return {'class': [], 'what': bad + ' (before any complex report)'}
    r = spec_check_single(m, ns)
    for name, t in seq:
        after = real_report_rows(t)
        if after != before[name]:
            return {'class': [], 'what': 'the real report of %s changed after budget/components of the complex y: before %r, after %r' % (name, before[name], after)}
        bad = check_real_rows(name, t, after, leaves)
        if bad: return {'class': [], 'what': bad + ' (after a complex report)'}
    if seq and seq[-1][0] == 'magnitude(y)':
        t2 = core.magnitude(y)
        after = real_report_rows(t2)
        if after != before['magnitude(y)']:
            return {'class': [], 'what': 'magnitude(y) evaluated after a complex report of y has another budget: before %r, after %r' % (before['magnitude(y)'], after)}
    return r

def spec_check_single(m, ns):
    """independent restatement of the property for one model; returns None or a dict describing the failure
    (with a 'class' field used by is_known)"""
    from GTC import reporting as rp, lib, core
    y = ns['y']
    yc = isinstance(y, lib.UncertainComplex)
    if not yc and not isinstance(y, lib.UncertainReal): return None
    # the elementary influences of y, by construction: every declared input with a non-absent component
    parts = (y.real, y.imag) if yc else (y,)
    def present(xr):
        n = xr._node
        return any((n in p._u_components) or (n in p._d_components) for p in parts)
    expected = {}      # the known behaviour (see known_findings: two rows for a complex influence of a real y)
                       # -- so that any OTHER deviation is still reported
    ideal = {}         # what the property text asks for; accepted as well (a repaired tree is not a failing input)
    cls = set()        # known-finding classes whose effect on this model cannot be predicted (-> skipped)
    # u_component(y, influence) for the influence as a whole agrees with the components for its parts
    for v in m['reals'] + m['cplx']:
        o = ns[v]
        if not getattr(o, 'is_elementary', False): continue
        c = rp.u_component(y, o)
        oparts = (o.real, o.imag) if isinstance(o, lib.UncertainComplex) else (o,)
        byparts = [rp.u_component(p, q) for p in parts for q in oparts]
        if yc and len(oparts) == 1: byparts = [byparts[0], 0.0, byparts[1], 0.0]
        if not yc and len(oparts) == 2: byparts = byparts + [0.0, 0.0]
        whole = [c] if isinstance(c, (int, float)) else list(c)
        if [float(a) for a in whole] != [float(b) for b in byparts]:
            return {'class': [], 'what': 'u_component(y, %s) = %r but the components of uncertainty of the parts are %r' % (v, whole, byparts)}
    for v in m['reals']:
        x = ns[v]
        if not x.is_elementary or not present(x): continue
        c = rp.u_component(y, x)
        ideal[x.uid] = expected[x.uid] = u_bar_exact(c) if yc else abs(c)
    for v in m['cplx']:
        z = ns[v]
        if not z.is_elementary: continue
        pr, pi = present(z.real), present(z.imag)
        if not (pr or pi): continue
        if pr != pi and v not in m['partial']:
            # NOT the known finding complex-partial-use: the model never takes z.real / z.imag of this input alone
            return {'class': [], 'what': 'y is computed from the complex input %s as a whole, but the leaf of its %s component is absent from '
                                         'the component vectors of y (u_component = %r)' % (v, 'imaginary' if pr else 'real', tuple(rp.u_component(y, z)))}
        c = rp.u_component(y, z)
        ideal[z.uid] = u_bar_exact(c)
        if not yc:
            # known finding C17-real-two-rows, stated precisely: a real y lists the complex influence z as one row per
            # component that occurs, with the uid of z.real / z.imag and u = |u_component(y, z)[0]| / |u_component(y, z)[1]|
            # -- u_component of z AS THE USER HOLDS IT -- and u_component(y, z)[2] = [3] = 0
            if c[2] != 0 or c[3] != 0:
                return {'class': [], 'what': 'u_component(y, %s) of a real y has non-zero imaginary-part entries: %r' % (v, tuple(c))}
            if pr: expected[z.real.uid] = abs(c[0])
            if pi: expected[z.imag.uid] = abs(c[1])
            continue
        expected[z.uid] = u_bar_exact(c)
        if not (pr and pi): cls.add('complex-partial-use')
    try:
        got = rp.budget(y, trim=0)
    except Exception as ex:
        return {'class': sorted(cls), 'what': 'budget raised %r' % ex}
    gotd = {}
    for r in got:
        if r.uid in gotd: return {'class': sorted(cls), 'what': 'uid %r listed twice' % (r.uid,)}
        gotd[r.uid] = r.u
    def differs(exp):
        if set(gotd) != set(exp):
            return 'influences listed %r, expected %r' % (sorted(map(repr, gotd)), sorted(map(repr, exp)))
        for k in exp:
            if not close(gotd[k], exp[k]):
                return 'u of %r is %r, expected %r' % (k, gotd[k], exp[k])
        return None
    bad = differs(expected)
    if bad and differs(ideal) is None: bad = None
    if bad: return {'class': sorted(cls), 'what': bad}
    # components agrees with budget
    comp = rp.components(y, trim=0)
    if sorted((repr(c.uid), c.u) for c in comp) != sorted((repr(r.uid), r.u) for r in got):
        return {'class': sorted(cls), 'what': 'components(trim=0) differs from budget(trim=0)'}
    us = [r.u for r in got]
    if any(us[i] < us[i + 1] for i in range(len(us) - 1)):
        return {'class': sorted(cls), 'what': 'default order is not descending in u'}
    # root-sum-square
    if not yc and not y._d_components._index and not y.is_intermediate:
        rss = math.sqrt(float(sum(Fraction(u) ** 2 for u in us)))
        if not close(rss, y.u) and abs(rss - y.u) > 1e-12:
            return {'class': sorted(cls), 'what': 'rss %r != u(y) %r' % (rss, y.u)}
    # options only filter and order
    full = [(repr(r.uid), r.u) for r in got]
    if rp.budget(y, trim=0, max_number=0) != [] or len(rp.budget(y, trim=0, max_number=2)) != min(2, len(got)):
        return {'class': sorted(cls), 'what': 'max_number does not truncate to the requested length'}
    if [(repr(r.uid), r.u) for r in rp.budget(y, trim=0, reverse=False)] != sorted(((repr(r.uid), r.u) for r in got), key=lambda t: t[1]) and len(set(us)) == len(us):
        return {'class': sorted(cls), 'what': 'reverse=False is not ascending in u'}
    for kw in ({'trim': 0.5}, {'trim': 1.0}, {'max_number': 1}, {'reverse': False, 'trim': 0}, {'trim': 0, 'key': 'label'}, {}):
        try:
            sub = rp.budget(y, **kw)
        except TypeError:
            continue
        rows = [(repr(r.uid), r.u) for r in sub]
        if any(r not in full for r in rows) or len(set(rows)) != len(rows):
            return {'class': sorted(cls), 'what': 'budget(%r) is not a sub-list of the complete budget' % (kw,)}
        if 'trim' in kw and kw['trim'] and us:
            want = [r for r in full if r[1] >= max(us) * kw['trim']]
            if sorted(rows) != sorted(want):
                return {'class': sorted(cls), 'what': 'trim=%r kept %r, expected %r' % (kw['trim'], rows, want)}
        if kw.get('max_number') == 1 and full and (len(rows) != 1 or rows[0][1] != max(us)):
            return {'class': sorted(cls), 'what': 'max_number=1 did not keep the largest'}
    # influences=[...]: exactly the requested ones -- none when none are requested
    for fn in (rp.budget, rp.components):
        for empty in ([], ()):
            if list(fn(y, influences=empty, trim=0)) != []:
                return {'class': [], 'what': '%s(y, influences=%r, trim=0) lists %d rows, none were requested' % (fn.__name__, empty, len(fn(y, influences=empty, trim=0)))}
    req = [v for v in m['reals'] if ns[v].is_elementary][:3]
    if req:
        rows = rp.budget(y, influences=[ns[v] for v in req], trim=0, key=None)
        if [r.uid for r in rows] != [ns[v].uid for v in req]:
            return {'class': sorted(cls), 'what': 'influences=[...] did not list exactly the requested'}
        for r, v in zip(rows, req):
            c = rp.u_component(y, ns[v])
            e = u_bar_exact(c) if yc else abs(c)
            if not close(r.u, e): return {'class': sorted(cls), 'what': 'influences=[...] u mismatch for %s' % v}
    # influences=[z] for a real y: the two components of z, in order
    if not yc and m['cplx']:
        z = ns[m['cplx'][0]]
        if z.real.is_elementary and z.imag.is_elementary:
            rows = rp.budget(y, influences=[z], trim=0, key=None)
            want = [(z.real.uid, abs(rp.u_component(y, z.real))), (z.imag.uid, abs(rp.u_component(y, z.imag)))]
            if [(r.uid, r.u) for r in rows] != want:
                return {'class': sorted(cls - {'real-result-complex-influence'}), 'what': 'influences=[z] for a real y: %r, expected %r' % (rows, want)}
    # a declared intermediate y is not listed in its own intermediate budget
    if getattr(y, 'is_intermediate', False):
        try:
            rows = rp.budget(y, intermediate=True, trim=0)
            if any(r.uid == y.uid for r in rows):
                return {'class': [], 'what': 'y itself listed by budget(y, intermediate=True)'}
            if not yc and any(c.uid == y.uid for c in rp.components(y, intermediate=True, trim=0)):
                return {'class': [], 'what': 'y itself listed by components(y, intermediate=True)'}
        except AttributeError:
            pass
    # intermediate=True
    if m['results']:
        try:
            rows = rp.budget(y, intermediate=True, trim=0)
        except Exception as ex:
            return {'class': sorted(cls), 'what': 'budget(intermediate=True) raised %r' % ex}
        gotd = {repr(r.uid): r.u for r in rows}
        for v in m['results']:
            r = ns[v]
            if not getattr(r, 'is_intermediate', False) or r is y: continue
            if yc is False and isinstance(r, lib.UncertainComplex): continue      # two rows: same class as real-result-complex-influence
            c = rp.u_component(y, r)
            e = u_bar_exact(c) if (yc or isinstance(r, lib.UncertainComplex)) else abs(c)
            inic = any((n in p._i_components) for p in parts for n in ([r._node] if isinstance(r, lib.UncertainReal) else [r.real._node, r.imag._node]))
            if not inic: continue
            if r.uid == y.uid: continue
            if repr(r.uid) not in gotd: return {'class': sorted(cls), 'what': 'intermediate %s missing' % v}
            if not close(gotd[repr(r.uid)], e): return {'class': sorted(cls), 'what': 'intermediate %s u mismatch' % v}
        try:
            rp.components(y, intermediate=True, trim=0)
        except AttributeError as ex:
            # (was the known finding C17-components-attr for a complex y; repaired, so a failure again)
            return {'class': sorted(cls), 'what': 'components(intermediate=True) raised %r' % ex}
    return None

KNOWN_CLASSES = {'complex-partial-use', 'real-result-complex-influence'}    # C17-components-attr and C17-dependent-zero are FIXED

def is_known(f):
    c = set(f.get('class') or [])
    return bool(c) and c <= KNOWN_CLASSES

def transparency_check(m, ns):
    """every report about result(w) equals the report about w"""
    from GTC import reporting as rp
    w, yw = ns['w'], ns['yw']
    for fn in ('budget', 'components'):
        for kw in (T_BUDGET_KW if fn == 'budget' else T_COMP_KW):
            a = observe(ns, fn, dict(kw), 'w'); b = observe(ns, fn, dict(kw), 'yw')
            ca = [(r.uid, r.u) for r in a[1]] if a[0] == 'ok' else a
            cb = [(r.uid, r.u) for r in b[1]] if b[0] == 'ok' else b
            if ca != cb:
                return {'class': [], 'what': '%s differs from %s: %r vs %r' % (call_src(fn, kw, 'result(w)'), call_src(fn, kw, 'w'), cb, ca)}
    return None

def search(rng, tier, broken):
    n = 400 if tier == 'quick' else 6000
    for i in range(n):
        transp = (i % 5 == 4)
        m = gen_transparency_model(rng) if transp else gen_restored_model(rng) if i % 5 == 3 else gen_model(rng)
        try:
            ns = run_src(m['src'])
        except Exception:
            continue
        try:
            r = transparency_check(m, ns) if transp else spec_check(m, ns)
        except Exception as ex:
            r = {'class': [], 'what': 'oracle raised %r' % ex}
        if r is not None and not is_known(r):
            return {'tried': i + 1, 'failing': {'python': m['src'], 'model': {k: m[k] for k in ('reals', 'cplx', 'consts', 'results', 'partial')},
                                                'class': r['class'], 'what': r['what']}}
    return {'tried': n, 'failing': None}

# ------------------------------------------------------------------ known findings
def kf_C17_partial():
    from GTC import core, reporting
    new_context(17)
    z = core.ucomplex(1 + 2j, (1, 0.5), label='z'); x = core.ureal(3, 0.2, label='x'); w = core.ureal(4, 0.3, label='w')
    y = z.real * (1 + 2j) + x + w
    uids = [r.uid for r in reporting.budget(y, trim=0)]
    return (x.uid not in uids and len(uids) == 2, 'budget(z.real*(1+2j)+x+w, trim=0) lists %r: x %r is missing' % (uids, x.uid))

def kf_C17_real_two_rows():
    from GTC import core, reporting
    new_context(17)
    z = core.ucomplex(1 + 2j, (1, 0.5), label='z')
    m = core.magnitude(z)
    rows = reporting.budget(m, trim=0)
    return (len(rows) == 2 and [r.uid for r in rows] != [z.uid], 'budget(magnitude(z), trim=0) = %r' % (rows,))

def kf_C17_components_attr():
    from GTC import core, reporting
    new_context(17)
    z = core.ucomplex(1 + 2j, (1, 0.5)); x = core.ureal(3, 0.2)
    r1 = core.result(x * 2.0, label='r1')
    y = z * r1
    try:
        reporting.components(y, intermediate=True, trim=0)
    except AttributeError as ex:
        return (True, 'components(z*r1, intermediate=True) raised %r' % ex)
    return (False, 'no exception')

def kf_C17_dependent_zero():
    from GTC import core, reporting
    new_context(17)
    x = core.ureal(1, 1, independent=False)
    y = x * (1 + 1j)
    u = reporting.budget(y, trim=0)[0].u
    ub = reporting.u_bar(reporting.u_component(y, x))
    return (u == 0.0 and ub == 1.0, 'budget((1+1j)*x, trim=0) reports u=%r for the dependent x, u_bar(u_component) = %r' % (u, ub))

def replay(payload):
    print(json.dumps(payload.get('broken'), indent=1)[:3000])
    f = payload.get('failing_input')
    if f and 'python' in f and 'model' in f:
        m = dict(f['model']); m['src'] = f['python']
        ns = run_src(m['src'])
        r = transparency_check(m, ns) if 'yw' in ns and 'w' in ns else spec_check(m, ns)
        if r and is_known(r):
            print('replayed on the implementation: passes now (only the known finding %s remains)' % ', '.join(r['class']))
            return 0
        print('replayed on the implementation:', 'STILL FAILS %r' % (r,) if r else 'passes now')
        return 1 if r else 0
    for b in payload.get('broken', []):
        if b.get('kind') == 'correspondence':
            for mm in b['detail']:
                if 'python' in mm and 'call' in mm:
                    ns = run_src(mm['python'])
                    try:
                        print(mm['call'], '->', eval(mm['call'], ns))
                    except Exception as ex:
                        print(mm['call'], 'raised', repr(ex))
            return 1
    return 0

(* ArrayFacts.v -- theorems about the Array model (the REPAIRED uncertain_array.py), for every
   element type E and every scalar operation table: NumPy broadcasting as an index map (by
   induction on rank), the fill loop, well-formedness of every reachable heap, the element-wise
   lifting of every binary ufunc (np.arctan2 included, either operand order, with broadcasting),
   unary operations / views / copy / result / same-shape sensitivity, the invariant that after ANY
   history no object holds a remembered broadcast shape, and from it full history independence:
   content-equal reachable heaps are equal. *)
From Coq Require Import ZArith List Bool Arith Lia.
From GTCV Require Import Num Array.
Import ListNotations.

(* ------------------------------------------------------------------ shapes *)
Definition compat (s r : shape) : Prop := Forall2 (fun d n => d = n \/ d = 1) s r.

Lemma shape_eqb_eq : forall a b, shape_eqb a b = true <-> a = b.
Proof.
  induction a as [|x a IH]; destruct b as [|y b]; simpl; split; intro H; try congruence; try reflexivity.
  - apply andb_true_iff in H. destruct H as [H1 H2]. apply Nat.eqb_eq in H1. apply IH in H2. congruence.
  - inversion H; subst. rewrite Nat.eqb_refl. simpl. apply IH. reflexivity.
Qed.

Lemma shape_eqb_refl : forall a, shape_eqb a a = true.
Proof. intro a. apply shape_eqb_eq. reflexivity. Qed.

Lemma size_app : forall a b, size (a ++ b) = size a * size b.
Proof. induction a as [|x a IH]; intro b; simpl; [lia|]. rewrite IH. lia. Qed.

Lemma size_repeat1 : forall k, size (repeat 1 k) = 1.
Proof.
  induction k as [|k IH]; [reflexivity|].
  change (size (repeat 1 (S k))) with (1 * size (repeat 1 k)). rewrite IH. reflexivity.
Qed.

Lemma size_pad : forall s r, size (pad s r) = size s.
Proof. intros s r. unfold pad. rewrite size_app, size_repeat1. lia. Qed.

Lemma bdim_spec : forall x y d, bdim x y = Some d -> (x = d \/ x = 1) /\ (y = d \/ y = 1).
Proof.
  intros x y d H. unfold bdim in H.
  destruct (x =? y) eqn:E1; [apply Nat.eqb_eq in E1; inversion H; subst; auto|].
  destruct (x =? 1) eqn:E2; [apply Nat.eqb_eq in E2; inversion H; subst; auto|].
  destruct (y =? 1) eqn:E3; [apply Nat.eqb_eq in E3; inversion H; subst; auto|discriminate].
Qed.

Definition rpad (a r : list nat) : list nat := a ++ repeat 1 (length r - length a).

Lemma compat_refl : forall s, compat s s.
Proof. induction s; constructor; auto. Qed.

Lemma compat_ones : forall r, compat (repeat 1 (length r)) r.
Proof. induction r; simpl; constructor; auto. Qed.

Lemma bshape_rev_spec : forall a b r, bshape_rev a b = Some r ->
  length a <= length r /\ length b <= length r /\ compat (rpad a r) r /\ compat (rpad b r) r.
Proof.
  induction a as [|x a IH]; intros b r H.
  - simpl in H. inversion H; subst. unfold rpad. simpl. rewrite Nat.sub_0_r, Nat.sub_diag, app_nil_r.
    repeat split; try lia. apply compat_ones. apply compat_refl.
  - destruct b as [|y b].
    + simpl in H. inversion H; subst. unfold rpad. simpl length. rewrite Nat.sub_diag, app_nil_r. simpl.
      repeat split; try lia. apply compat_refl. constructor; auto. apply compat_ones.
    + simpl in H. destruct (bshape_rev a b) as [r'|] eqn:E; [|discriminate].
      destruct (bdim x y) as [d|] eqn:D; [|discriminate]. inversion H; subst.
      destruct (IH _ _ E) as (L1 & L2 & C1 & C2). destruct (bdim_spec _ _ _ D) as [Dx Dy].
      unfold rpad in *. simpl. repeat split; try lia; constructor; auto.
  Qed.

Lemma Forall2_rev_compat : forall s r, compat s r -> compat (rev s) (rev r).
Proof.
  intros s r H. induction H; simpl; [constructor|].
  apply Forall2_app; [assumption|]. constructor; [assumption|constructor].
Qed.

Lemma rev_repeat : forall (A : Type) (x : A) k, rev (repeat x k) = repeat x k.
Proof.
  intros A x k. induction k as [|k IH]; simpl; [reflexivity|]. rewrite IH.
  clear IH. induction k as [|k IH]; simpl; [reflexivity|]. f_equal. exact IH.
Qed.

Lemma pad_rev : forall s r, pad s r = rev (rpad (rev s) (rev r)).
Proof.
  intros s r. unfold pad, rpad. rewrite rev_app_distr, rev_involutive, rev_repeat, !rev_length. reflexivity.
Qed.

(* the broadcast shape is compatible with both (rank-padded) operand shapes *)
Lemma bshape_spec : forall s t r, bshape s t = Some r ->
  compat (pad s r) r /\ compat (pad t r) r.
Proof.
  intros s t r H. unfold bshape in H.
  destruct (bshape_rev (rev s) (rev t)) as [q|] eqn:E; [|discriminate]. simpl in H. inversion H; subst.
  destruct (bshape_rev_spec _ _ _ E) as (_ & _ & C1 & C2).
  split; rewrite pad_rev, rev_involutive.
  - pose proof (Forall2_rev_compat _ _ C1) as C. exact C.
  - pose proof (Forall2_rev_compat _ _ C2) as C. exact C.
Qed.

Lemma compat_length : forall s r, compat s r -> length s = length r.
Proof. intros s r H. induction H; simpl; congruence. Qed.

Lemma bdim_same : forall x, bdim x x = Some x.
Proof. intro x. unfold bdim. rewrite Nat.eqb_refl. reflexivity. Qed.

Lemma bshape_rev_same : forall a, bshape_rev a a = Some a.
Proof. induction a as [|x a IH]; simpl; [reflexivity|]. rewrite IH, bdim_same. reflexivity. Qed.

Lemma bshape_same : forall s, bshape s s = Some s.
Proof. intro s. unfold bshape. rewrite bshape_rev_same. simpl. rewrite rev_involutive. reflexivity. Qed.

Lemma pad_same : forall s, pad s s = s.
Proof. intro s. unfold pad. rewrite Nat.sub_diag. reflexivity. Qed.

(* ------------------------------------------------------------------ indices *)
Lemma flat_lt : forall r idx, valid r idx -> flat r idx < size r.
Proof.
  induction r as [|n r IH]; intros idx H; destruct idx as [|i idx]; simpl in *; try contradiction; try lia.
  destruct H as [Hi Hv]. specialize (IH _ Hv).
  change (fold_right Nat.mul 1 r) with (size r). nia.
Qed.

Lemma bidx_valid : forall s r idx, compat s r -> valid r idx -> valid s (bidx s r idx).
Proof.
  intros s r idx C. revert idx. induction C as [|d n s r Hd C IH]; intros idx H.
  - destruct idx; simpl in *; auto.
  - destruct idx as [|i idx]; simpl in *; [contradiction|]. destruct H as [Hi Hv]. split; [|apply IH; exact Hv].
    destruct (d =? n) eqn:E; [apply Nat.eqb_eq in E; lia|]. apply Nat.eqb_neq in E. lia.
Qed.

Lemma bidx_same : forall s idx, valid s idx -> bidx s s idx = idx.
Proof.
  induction s as [|d s IH]; intros idx H; destruct idx as [|i idx]; simpl in *; try contradiction; try reflexivity.
  rewrite Nat.eqb_refl. f_equal. apply IH. tauto.
Qed.

Lemma src_same : forall s idx, valid s idx -> src s s idx = flat s idx.
Proof. intros s idx H. unfold src. rewrite pad_same, bidx_same; auto. Qed.

Lemma src_lt : forall s r idx, compat (pad s r) r -> valid r idx -> src s r idx < size s.
Proof.
  intros s r idx C H. unfold src. rewrite <- (size_pad s r). apply flat_lt. apply bidx_valid; assumption.
Qed.

Section Facts.
Variable E : Type.
Variable none : E.
Variable un : Z -> E -> res E.
Variable bin : Z -> E -> E -> res E.
Variable ilabel : E -> nat -> E.

Notation bl := (bl E).
Notation chunks := (chunks E).
Notation bcast_list := (bcast_list E).
Notation fill := (fill E none).
Notation step := (step E none un bin ilabel).
Notation step_bin := (step_bin E none bin).
Notation step_un := (step_un E none un).
Notation step_zip := (step_zip E none bin).
Notation run := (run E none un bin ilabel).
Notation arr := (arr E).
Notation heap := (heap E).

(* ------------------------------------------------------------------ chunks / concat *)
Lemma chunks_length : forall n k l, length (chunks n k l) = n.
Proof. induction n as [|n IH]; intros k l; simpl; [reflexivity|]. rewrite IH. reflexivity. Qed.

Lemma skipn_add : forall (l : list E) b a, skipn a (skipn b l) = skipn (b + a) l.
Proof.
  intros l b. revert l. induction b as [|b IH]; intros l a; [reflexivity|].
  destruct l as [|x l]; simpl; [destruct a; reflexivity|]. apply IH.
Qed.

Lemma chunks_nth : forall n k l i, i < n ->
  nth i (chunks n k l) [] = firstn k (skipn (i * k) l).
Proof.
  induction n as [|n IH]; intros k l i Hi; [lia|]. destruct i as [|i]; simpl.
  - reflexivity.
  - rewrite IH by lia. rewrite skipn_add. reflexivity.
Qed.

Lemma chunks_each_length : forall n k l, length l = n * k ->
  Forall (fun c => length c = k) (chunks n k l).
Proof.
  induction n as [|n IH]; intros k l H; simpl; constructor.
  - rewrite firstn_length. simpl in H. lia.
  - apply IH. rewrite skipn_length. simpl in H. lia.
Qed.

Lemma nth_concat_uniform : forall (L : list (list E)) k i j d,
  Forall (fun c => length c = k) L -> i < length L -> j < k ->
  nth (i * k + j) (concat L) d = nth j (nth i L []) d.
Proof.
  induction L as [|c L IH]; intros k i j d HF Hi Hj; simpl in Hi; [lia|].
  inversion HF as [|c' L' Hc HF']; subst. simpl concat. destruct i as [|i].
  - simpl. rewrite app_nth1 by lia. reflexivity.
  - rewrite app_nth2 by (simpl; nia). replace (S i * length c + j - length c) with (i * length c + j) by (simpl; lia).
    simpl nth. apply IH; auto; lia.
Qed.

Lemma concat_uniform_length : forall (L : list (list E)) k,
  Forall (fun c => length c = k) L -> length (concat L) = length L * k.
Proof.
  induction L as [|c L IH]; intros k HF; simpl; [reflexivity|].
  inversion HF; subst. rewrite app_length, (IH (length c)); auto.
Qed.

Lemma nth_skipn' : forall (l : list E) a j d, nth j (skipn a l) d = nth (a + j) l d.
Proof.
  intros l a. revert l. induction a as [|a IH]; intros l j d; [reflexivity|].
  destruct l as [|x l]; simpl; [destruct j; reflexivity|]. apply IH.
Qed.

Lemma nth_firstn' : forall (l : list E) k j d, j < k -> nth j (firstn k l) d = nth j l d.
Proof.
  intros l k. revert l. induction k as [|k IH]; intros l j d Hj; [lia|].
  destruct l as [|x l]; simpl; [reflexivity|]. destruct j as [|j]; [reflexivity|]. apply IH. lia.
Qed.

Lemma nth_firstn_skipn : forall (l : list E) a k j d, j < k ->
  nth j (firstn k (skipn a l)) d = nth (a + j) l d.
Proof. intros. rewrite nth_firstn' by assumption. apply nth_skipn'. Qed.

(* ------------------------------------------------------------------ broadcasting, by induction on rank *)
Lemma bl_length : forall s r cells, compat s r -> length cells = size s -> length (bl s r cells) = size r.
Proof.
  intros s r cells C. revert cells. induction C as [|d n s r Hd C IH]; intros cells L; simpl in *; [exact L|].
  change (fold_right Nat.mul 1 s) with (size s) in *. change (fold_right Nat.mul 1 r) with (size r).
  destruct (d =? n) eqn:Edn.
  - apply Nat.eqb_eq in Edn. subst d.
    rewrite (concat_uniform_length _ (size r)).
    + rewrite map_length, chunks_length. reflexivity.
    + apply Forall_map. pose proof (chunks_each_length n (size s) cells L) as HF.
      eapply Forall_impl; [|exact HF]. intros c Hc. apply IH. exact Hc.
  - apply Nat.eqb_neq in Edn. assert (d = 1) by lia. subst d.
    rewrite (concat_uniform_length _ (size r)).
    + rewrite repeat_length. reflexivity.
    + apply Forall_forall. intros c Hc. apply repeat_spec in Hc. subst c. apply IH. lia.
Qed.

Theorem bl_nth : forall s r cells idx d0,
  compat s r -> length cells = size s -> valid r idx ->
  nth (flat r idx) (bl s r cells) d0 = nth (flat s (bidx s r idx)) cells d0.
Proof.
  intros s r cells idx d0 C. revert cells idx.
  induction C as [|d n s r Hd C IH]; intros cells idx L V.
  - destruct idx; simpl in *; [reflexivity|contradiction].
  - destruct idx as [|i idx]; simpl in V; [contradiction|]. destruct V as [Hi V].
    simpl. change (fold_right Nat.mul 1 s) with (size s) in *. change (fold_right Nat.mul 1 r) with (size r).
    pose proof (flat_lt _ _ V) as Hfr.
    pose proof (flat_lt _ _ (bidx_valid _ _ _ C V)) as Hfs.
    destruct (d =? n) eqn:Edn.
    + apply Nat.eqb_eq in Edn. subst d. simpl in L. change (fold_right Nat.mul 1 s) with (size s) in L.
      pose proof (chunks_each_length n (size s) cells L) as HF.
      rewrite (nth_concat_uniform _ (size r)).
      * rewrite (nth_indep _ _ (bl s r [])) by (rewrite map_length, chunks_length; exact Hi).
        rewrite map_nth. rewrite chunks_nth by exact Hi.
        rewrite IH; [|rewrite firstn_length, skipn_length; nia|exact V].
        apply nth_firstn_skipn. exact Hfs.
      * apply Forall_map. eapply Forall_impl; [|exact HF]. intros c Hc. apply bl_length; assumption.
      * rewrite map_length, chunks_length. exact Hi.
      * exact Hfr.
    + apply Nat.eqb_neq in Edn. assert (d = 1) by lia. subst d.
      simpl in L. change (fold_right Nat.mul 1 s) with (size s) in L.
      rewrite (nth_concat_uniform _ (size r)).
      * rewrite (nth_indep _ _ (bl s r cells)) by (rewrite repeat_length; exact Hi).
        rewrite nth_repeat. rewrite IH; [|lia|exact V]. reflexivity.
      * apply Forall_forall. intros c Hc. apply repeat_spec in Hc. subst c. apply bl_length; [assumption|lia].
      * rewrite repeat_length. exact Hi.
      * exact Hfr.
Qed.

Corollary bcast_list_nth : forall s r cells idx d0,
  compat (pad s r) r -> length cells = size s -> valid r idx ->
  nth (flat r idx) (bcast_list s r cells) d0 = nth (src s r idx) cells d0.
Proof.
  intros. unfold bcast_list, src. apply bl_nth; auto. rewrite size_pad. assumption.
Qed.

Corollary bcast_list_length : forall s r cells,
  compat (pad s r) r -> length cells = size s -> length (bcast_list s r cells) = size r.
Proof. intros. unfold bcast_list. apply bl_length; auto. rewrite size_pad. assumption. Qed.

(* ------------------------------------------------------------------ the fill loop *)
Lemma fill_ok : forall (X : Type) (f : X -> res E) items m cells,
  fill m items f = Ok cells ->
  length items <= m /\ length cells = m /\
  (forall i dx, i < length items -> f (nth i items dx) = Ok (nth i cells none)) /\
  (forall i, length items <= i -> nth i cells none = none).
Proof.
  intros X f. induction items as [|x t IH]; intros m cells H; simpl in H.
  - inversion H; subst. split; [simpl; lia|]. split; [apply repeat_length|]. split.
    + intros i dx Hi. simpl in Hi. lia.
    + intros i _. destruct (Nat.lt_ge_cases i m) as [Hlt|Hge].
      * apply nth_repeat.
      * apply nth_overflow. rewrite repeat_length. exact Hge.
  - destruct (f x) as [v|e] eqn:Fx; simpl in H; [|discriminate].
    destruct m as [|m]; [discriminate|].
    destruct (fill m t f) as [r|e] eqn:Ft; simpl in H; [|discriminate]. inversion H; subst.
    destruct (IH _ _ Ft) as (L1 & L2 & P1 & P2). split; [simpl; lia|]. split; [simpl; lia|]. split.
    + intros i dx Hi. destruct i as [|i]; [exact Fx|]. simpl. apply P1. simpl in Hi. lia.
    + intros i Hi. destruct i as [|i]; [simpl in Hi; lia|]. simpl. apply P2. simpl in Hi. lia.
Qed.

Lemma fill_err : forall (X : Type) (f : X -> res E) items m e,
  fill m items f = Err e ->
  (exists i dx, i < length items /\ f (nth i items dx) = Err e) \/ (e = IndexError /\ m < length items).
Proof.
  intros X f. induction items as [|x t IH]; intros m e H; simpl in H; [discriminate|].
  destruct (f x) as [v|e'] eqn:Fx; simpl in H.
  - destruct m as [|m].
    + inversion H; subst. right. split; [reflexivity|simpl; lia].
    + destruct (fill m t f) as [r|e''] eqn:Ft; simpl in H; [discriminate|]. inversion H; subst.
      destruct (IH _ _ Ft) as [(i & dx & Hi & Hf)|[He Hm]].
      * left. exists (S i), dx. split; [simpl; lia|exact Hf].
      * right. split; [exact He|simpl; lia].
  - inversion H; subst. left. exists 0, x. split; [simpl; lia|exact Fx].
Qed.

(* ------------------------------------------------------------------ heaps *)
Definition wf_arr (a : arr) : Prop := length (a_cells E a) = size (a_shape E a).
Definition wf_heap (h : heap) : Prop := Forall wf_arr h.

Lemma wf_upd : forall h i b, wf_heap h -> wf_heap (upd E h i (fun a => set_bs E a b)).
Proof.
  induction h as [|a h IH]; intros i b H; simpl; [constructor|].
  inversion H; subst. destruct i; constructor; auto. apply IH. assumption.
Qed.

Lemma wf_snoc : forall h a, wf_heap h -> wf_arr a -> wf_heap (h ++ [a]).
Proof. intros. apply Forall_app. split; auto. Qed.

Lemma wf_nth : forall h i a, wf_heap h -> nth_error h i = Some a -> wf_arr a.
Proof. intros h i a H N. eapply Forall_forall; [exact H|]. eapply nth_error_In. exact N. Qed.

Lemma finish_wf : forall h k s r lbl, wf_heap h ->
  (forall cells, r = Ok cells -> length cells = size s) -> wf_heap (fst (finish E h k s r lbl)).
Proof.
  intros h k s r lbl H L. unfold finish. destruct r as [cells|e]; simpl; [|exact H].
  apply wf_snoc; [exact H|]. unfold wf_arr, fresh. simpl. apply L. reflexivity.
Qed.

Lemma fill_length : forall (X : Type) (f : X -> res E) items m cells,
  fill m items f = Ok cells -> length cells = m.
Proof. intros X f items m cells H. apply fill_ok in H. tauto. Qed.

Lemma step_bin_wf : forall h bk f x y, wf_heap h -> wf_heap (fst (step_bin h bk f x y)).
Proof.
  intros h bk f x y H. unfold Array.step_bin.
  destruct (match is_ku E h x with Some i => Some i | None => is_ku E h y end) as [self|]; [|exact H].
  destruct (input E h x y) as [[s0 c0]|]; [|exact H].
  destruct (input E h y x) as [[s1 c1]|]; [|exact H].
  destruct (nth_error h self) as [me|]; [|exact H].
  destruct (shape_eqb s0 s1).
  - apply finish_wf; [apply wf_upd; exact H|]. intros cells Hc. eapply fill_length. exact Hc.
  - destruct (bshape s0 s1) as [r|]; [|apply wf_upd; exact H].
    apply finish_wf; [apply wf_upd; exact H|]. intros cells Hc. eapply fill_length. exact Hc.
Qed.

Lemma step_un_wf : forall h k f i lbl, wf_heap h -> wf_heap (fst (step_un h k f i lbl)).
Proof.
  intros h k f i lbl H. unfold Array.step_un. destruct (get_ku E h i) as [a|]; [|exact H].
  destruct (ce_shape E a) as [s|e]; [|exact H].
  destruct (Array.fill E none (size s) (a_cells E a) (un f)) as [cells|e] eqn:F; [|exact H].
  destruct (lbl a); [|exact H]. simpl. apply wf_snoc; [exact H|]. unfold wf_arr, fresh. simpl.
  eapply fill_length. exact F.
Qed.

Lemma step_zip_wf : forall h f i ys, wf_heap h -> wf_heap (fst (step_zip h f i ys)).
Proof.
  intros h f i ys H. unfold Array.step_zip. destruct (get_ku E h i) as [a|]; [|exact H].
  destruct ys as [yc|]; [|exact H]. destruct (ce_shape E a) as [s|e]; [|exact H].
  apply finish_wf; [exact H|]. intros cells Hc. eapply fill_length. exact Hc.
Qed.

Lemma get_ku_nth : forall h i a, get_ku E h i = Some a -> nth_error h i = Some a /\ a_kind E a = KU.
Proof.
  intros h i a H. unfold get_ku in H. destruct (nth_error h i) as [b|]; [|discriminate].
  destruct (a_kind E b) eqn:K; [|discriminate]. inversion H; subst. auto.
Qed.

Theorem step_wf : forall h o, wf_heap h -> wf_heap (fst (step h o)).
Proof.
  intros h o H. destruct o as [k s cells lbl|bk f x y|f i|f i|f i y|i l|i|i|i|i s m]; simpl.
  - destruct (size s =? length cells) eqn:Q; [|exact H]. simpl. apply wf_snoc; [exact H|].
    unfold wf_arr, fresh. simpl. apply Nat.eqb_eq in Q. lia.
  - apply step_bin_wf. exact H.
  - apply step_un_wf. exact H.
  - apply step_un_wf. exact H.
  - apply step_zip_wf. exact H.
  - destruct l as [|e|l].
    + apply step_un_wf. exact H.
    + destruct (get_ku E h i); [apply step_zip_wf|]; exact H.
    + apply step_zip_wf. exact H.
  - apply step_un_wf. exact H.
  - destruct (get_ku E h i); exact H.
  - destruct (get_ku E h i) as [a|] eqn:G; [|exact H]. simpl. apply wf_snoc; [exact H|].
    apply get_ku_nth in G. destruct G as [G _]. pose proof (wf_nth _ _ _ H G) as W. exact W.
  - destruct (nth_error h i) as [a|]; [|exact H].
    destruct ((size s =? length m) && forallb (fun j => j <? length (a_cells E a)) m) eqn:Q; [|exact H].
    simpl. apply wf_snoc; [exact H|]. unfold wf_arr, fresh. simpl. rewrite map_length.
    apply andb_true_iff in Q. destruct Q as [Q _]. apply Nat.eqb_eq in Q. lia.
Qed.

(* every heap reachable by any history is well formed *)
Theorem run_wf : forall p h, wf_heap h -> wf_heap (fst (run h p)).
Proof.
  induction p as [|o p IH]; intros h H; simpl; [exact H|].
  destruct (step h o) as [h1 x] eqn:S. pose proof (step_wf h o H) as W. rewrite S in W. simpl in W.
  specialize (IH h1 W). destruct (run h1 p) as [h2 xs]. simpl in *. exact IH.
Qed.


(* ------------------------------------------------------------------ flat <-> multi-index *)
Lemma unflat_exists : forall r i, i < size r -> exists idx, valid r idx /\ flat r idx = i.
Proof.
  induction r as [|n r IH]; intros i Hi.
  - exists []. simpl in *. split; [exact I|lia].
  - simpl in Hi. change (fold_right Nat.mul 1 r) with (size r) in Hi.
    assert (Hk : 0 < size r) by nia.
    destruct (IH (i mod size r)) as (idx & V & F); [apply Nat.mod_upper_bound; lia|].
    exists (i / size r :: idx). simpl. change (fold_right Nat.mul 1 r) with (size r). split.
    + split; [apply Nat.div_lt_upper_bound; lia|exact V].
    + rewrite F. pose proof (Nat.div_mod i (size r)). lia.
Qed.

Lemma fill_combine_flat : forall f (l0 l1 : list E) m, length l0 = m -> length l1 = m ->
  match fill m (combine l0 l1) (fun p => bin f (fst p) (snd p)) with
  | Ok cells => length cells = m /\
      forall j, j < m -> bin f (nth j l0 none) (nth j l1 none) = Ok (nth j cells none)
  | Err e => exists j, j < m /\ bin f (nth j l0 none) (nth j l1 none) = Err e
  end.
Proof.
  intros f l0 l1 m L0 L1.
  assert (LC : length (combine l0 l1) = m) by (rewrite combine_length; lia).
  destruct (fill m (combine l0 l1) (fun p => bin f (fst p) (snd p))) as [cells|e] eqn:F.
  - destruct (fill_ok _ _ _ _ _ F) as (_ & Lc & P & _). split; [exact Lc|].
    intros j Hj. specialize (P j (none, none)). rewrite LC in P. specialize (P Hj).
    rewrite combine_nth in P by lia. exact P.
  - destruct (fill_err _ _ _ _ _ F) as [(i & dx & Hi & Hf)|[_ Hm]]; [|lia].
    exists i. rewrite LC in Hi. split; [exact Hi|].
    rewrite (nth_indep _ dx (none, none)) in Hf by lia. rewrite combine_nth in Hf by lia. exact Hf.
Qed.

Lemma fill_pairs_lift : forall f (l0 l1 : list E) r (g0 g1 : list nat -> E),
  length l0 = size r -> length l1 = size r ->
  (forall idx, valid r idx -> nth (flat r idx) l0 none = g0 idx) ->
  (forall idx, valid r idx -> nth (flat r idx) l1 none = g1 idx) ->
  match fill (size r) (combine l0 l1) (fun p => bin f (fst p) (snd p)) with
  | Ok cells => length cells = size r /\
      forall idx, valid r idx -> bin f (g0 idx) (g1 idx) = Ok (nth (flat r idx) cells none)
  | Err e => exists idx, valid r idx /\ bin f (g0 idx) (g1 idx) = Err e
  end.
Proof.
  intros f l0 l1 r g0 g1 L0 L1 G0 G1.
  pose proof (fill_combine_flat f l0 l1 (size r) L0 L1) as H.
  destruct (fill (size r) (combine l0 l1) (fun p => bin f (fst p) (snd p))) as [cells|e].
  - destruct H as [Lc P]. split; [exact Lc|]. intros idx V.
    rewrite <- (G0 idx V), <- (G1 idx V). apply P. apply flat_lt. exact V.
  - destruct H as (j & Hj & Hf). destruct (unflat_exists r j Hj) as (idx & V & Fj). exists idx. split; [exact V|].
    rewrite <- (G0 idx V), <- (G1 idx V), Fj. exact Hf.
Qed.

Lemma fill_map_flat : forall f (l : list E) m, length l = m ->
  match fill m l (un f) with
  | Ok cells => length cells = m /\ forall j, j < m -> un f (nth j l none) = Ok (nth j cells none)
  | Err e => exists j, j < m /\ un f (nth j l none) = Err e
  end.
Proof.
  intros f l m L. destruct (fill m l (un f)) as [cells|e] eqn:F.
  - destruct (fill_ok _ _ _ _ _ F) as (_ & Lc & P & _). split; [exact Lc|]. intros j Hj. apply P. lia.
  - destruct (fill_err _ _ _ _ _ F) as [(i & dx & Hi & Hf)|[_ Hm]]; [|lia].
    exists i. split; [lia|]. rewrite (nth_indep _ dx none) in Hf by lia. exact Hf.
Qed.

(* ------------------------------------------------------------------ binary ufuncs *)
Definition dispatcher (h : heap) (x y : operand E) : option nat :=
  match is_ku E h x with Some i => Some i | None => is_ku E h y end.

Lemma is_ku_spec : forall h x i, is_ku E h x = Some i ->
  x = OA i /\ exists a, nth_error h i = Some a /\ a_kind E a = KU.
Proof.
  intros h x i H. destruct x as [j|e]; simpl in H; [|discriminate].
  destruct (nth_error h j) as [a|] eqn:N; [|discriminate]. destruct (a_kind E a) eqn:K; [|discriminate].
  inversion H; subst. split; [reflexivity|]. exists a. auto.
Qed.

Lemma input_wf : forall h x y s c, wf_heap h -> input E h x y = Some (s, c) -> length c = size s.
Proof.
  intros h x y s c W H. destruct x as [i|e]; simpl in H.
  - destruct (nth_error h i) as [a|] eqn:N; [|discriminate]. inversion H; subst. exact (wf_nth _ _ _ W N).
  - destruct y as [j|e']; [|discriminate]. destruct (nth_error h j) as [b|]; [|discriminate].
    inversion H; subst. apply repeat_length.
Qed.

Lemma self_input : forall h x y self me s0 c0 s1 c1,
  dispatcher h x y = Some self -> nth_error h self = Some me ->
  input E h x y = Some (s0, c0) -> input E h y x = Some (s1, c1) ->
  (s0 = a_shape E me /\ c0 = a_cells E me) \/ (s1 = a_shape E me /\ c1 = a_cells E me).
Proof.
  intros h x y self me s0 c0 s1 c1 D N I0 I1. unfold dispatcher in D.
  destruct (is_ku E h x) as [i|] eqn:Kx.
  - inversion D; subst. destruct (is_ku_spec _ _ _ Kx) as [Hx _]. subst x. simpl in I0. rewrite N in I0.
    inversion I0; subst. left. auto.
  - destruct (is_ku_spec _ _ _ D) as [Hy _]. subst y. simpl in I1. rewrite N in I1.
    inversion I1; subst. right. auto.
Qed.

Lemma snd_finish : forall h k s r lbl,
  snd (finish E h k s r lbl) = match r with Ok cells => XArr k s cells | Err e => XExn e end.
Proof. intros. unfold finish. destruct r; reflexivity. Qed.

(* The element-wise lifting of every binary ufunc (np.arctan2 included), for operands of any shapes
   that broadcast, whichever operand dispatches. *)
Theorem bin_lift : forall h bk f x y self s0 c0 s1 c1 r,
  wf_heap h ->
  dispatcher h x y = Some self ->
  input E h x y = Some (s0, c0) -> input E h y x = Some (s1, c1) ->
  bshape s0 s1 = Some r ->
  match snd (step_bin h bk f x y) with
  | XArr k s cells =>
      k = bin_result_kind bk /\ s = r /\ length cells = size r /\
      forall idx, valid r idx ->
        bin f (nth (src s0 r idx) c0 none) (nth (src s1 r idx) c1 none) = Ok (nth (flat r idx) cells none)
  | XExn e => exists idx, valid r idx /\
        bin f (nth (src s0 r idx) c0 none) (nth (src s1 r idx) c1 none) = Err e
  | XLbl _ => False
  end.
Proof.
  intros h bk f x y self s0 c0 s1 c1 r W D I0 I1 B.
  pose proof (input_wf _ _ _ _ _ W I0) as L0. pose proof (input_wf _ _ _ _ _ W I1) as L1.
  assert (exists me, nth_error h self = Some me) as [me N].
  { unfold dispatcher in D. destruct (is_ku E h x) as [i|] eqn:Kx.
    - inversion D; subst. destruct (is_ku_spec _ _ _ Kx) as (_ & a & Na & _). eauto.
    - destruct (is_ku_spec _ _ _ D) as (_ & a & Na & _). eauto. }
  unfold Array.step_bin. fold (dispatcher h x y). rewrite D, I0, I1, N.
  destruct (shape_eqb s0 s1) eqn:Q.
  - apply shape_eqb_eq in Q. subst s1. rewrite bshape_same in B. inversion B; subst r.
    assert (Hs : a_shape E me = s0) by (destruct (self_input _ _ _ _ _ _ _ _ _ D N I0 I1) as [[A _]|[A _]]; congruence).
    rewrite Hs. rewrite snd_finish.
    assert (P := fill_pairs_lift f c0 c1 s0 (fun idx => nth (src s0 s0 idx) c0 none) (fun idx => nth (src s0 s0 idx) c1 none) L0 L1).
    assert (G0 : forall idx, valid s0 idx -> nth (flat s0 idx) c0 none = nth (src s0 s0 idx) c0 none)
      by (intros idx V; rewrite src_same by exact V; reflexivity).
    assert (G1 : forall idx, valid s0 idx -> nth (flat s0 idx) c1 none = nth (src s0 s0 idx) c1 none)
      by (intros idx V; rewrite src_same by exact V; reflexivity).
    specialize (P G0 G1).
    destruct (Array.fill E none (size s0) (combine c0 c1) (fun p => bin f (fst p) (snd p))) as [cells|e];
      [destruct P as [Lc P]; repeat split; auto|exact P].
  - rewrite B. destruct (bshape_spec _ _ _ B) as [C0 C1].
    assert (P := fill_pairs_lift f (bcast_list s0 r c0) (bcast_list s1 r c1) r
                   (fun idx => nth (src s0 r idx) c0 none) (fun idx => nth (src s1 r idx) c1 none)
                   (bcast_list_length _ _ _ C0 L0) (bcast_list_length _ _ _ C1 L1)
                   (fun idx V => bcast_list_nth s0 r c0 idx none C0 L0 V)
                   (fun idx V => bcast_list_nth s1 r c1 idx none C1 L1 V)).
    rewrite snd_finish.
    destruct (Array.fill E none (size r) (combine (bcast_list s0 r c0) (bcast_list s1 r c1)) (fun p => bin f (fst p) (snd p))) as [cells|e];
      [destruct P as [Lc P]; repeat split; auto|exact P].
Qed.

(* shapes that NumPy cannot broadcast: ValueError, and the dispatcher's remembered shape is reset *)
Theorem bin_incompatible : forall h bk f x y self s0 c0 s1 c1,
  dispatcher h x y = Some self ->
  input E h x y = Some (s0, c0) -> input E h y x = Some (s1, c1) ->
  bshape s0 s1 = None ->
  step_bin h bk f x y = (upd E h self (fun a => set_bs E a BNone), XExn ValueError).
Proof.
  intros h bk f x y self s0 c0 s1 c1 D I0 I1 B.
  assert (exists me, nth_error h self = Some me) as [me N].
  { unfold dispatcher in D. destruct (is_ku E h x) as [i|] eqn:Kx.
    - inversion D; subst. destruct (is_ku_spec _ _ _ Kx) as (_ & a & Na & _). eauto.
    - destruct (is_ku_spec _ _ _ D) as (_ & a & Na & _). eauto. }
  unfold Array.step_bin. fold (dispatcher h x y). rewrite D, I0, I1, N.
  destruct (shape_eqb s0 s1) eqn:Q.
  - apply shape_eqb_eq in Q. subst s1. rewrite bshape_same in B. discriminate.
  - rewrite B. reflexivity.
Qed.

(* ------------------------------------------------------------------ unary operations, views, copy, result *)
Theorem un_clean : forall h k f i lbl a l,
  wf_heap h -> get_ku E h i = Some a -> a_bs E a = BNone -> lbl a = Ok l ->
  match snd (step_un h k f i lbl) with
  | XArr k' s cells => k' = k /\ s = a_shape E a /\ length cells = size s /\
      forall idx, valid s idx -> un f (nth (flat s idx) (a_cells E a) none) = Ok (nth (flat s idx) cells none)
  | XExn e => exists idx, valid (a_shape E a) idx /\ un f (nth (flat (a_shape E a) idx) (a_cells E a) none) = Err e
  | XLbl _ => False
  end.
Proof.
  intros h k f i lbl a l W G Hb Hl. unfold Array.step_un. rewrite G. unfold ce_shape. rewrite Hb.
  destruct (get_ku_nth _ _ _ G) as [N _]. pose proof (wf_nth _ _ _ W N) as La. unfold wf_arr in La.
  pose proof (fill_map_flat f (a_cells E a) (size (a_shape E a)) La) as P.
  destruct (Array.fill E none (size (a_shape E a)) (a_cells E a) (un f)) as [cells|e].
  - rewrite Hl. simpl. destruct P as [Lc P]. repeat split; auto. intros idx V. apply P. apply flat_lt. exact V.
  - simpl. destruct P as (j & Hj & Hf). destruct (unflat_exists _ j Hj) as (idx & V & Fj). exists idx. rewrite Fj. auto.
Qed.

(* sensitivity / u_component / core.atan2 of two arrays of the same shape, no remembered shape *)
Theorem zip_clean : forall h f i j a b,
  wf_heap h -> get_ku E h i = Some a -> a_bs E a = BNone -> nth_error h j = Some b ->
  a_shape E b = a_shape E a ->
  match snd (step_zip h f i (zip_cells E h (OA j))) with
  | XArr k s cells => k = KU /\ s = a_shape E a /\ length cells = size s /\
      forall idx, valid s idx ->
        bin f (nth (flat s idx) (a_cells E a) none) (nth (flat s idx) (a_cells E b) none) = Ok (nth (flat s idx) cells none)
  | XExn e => exists idx, valid (a_shape E a) idx /\
        bin f (nth (flat (a_shape E a) idx) (a_cells E a) none) (nth (flat (a_shape E a) idx) (a_cells E b) none) = Err e
  | XLbl _ => False
  end.
Proof.
  intros h f i j a b W G Hb N Hs. unfold Array.step_zip, zip_cells. rewrite G, N. unfold ce_shape. rewrite Hb.
  destruct (get_ku_nth _ _ _ G) as [Na _]. pose proof (wf_nth _ _ _ W Na) as La. pose proof (wf_nth _ _ _ W N) as Lb.
  unfold wf_arr in *. rewrite Hs in Lb. rewrite snd_finish.
  pose proof (fill_pairs_lift f (a_cells E a) (a_cells E b) (a_shape E a)
                (fun idx => nth (flat (a_shape E a) idx) (a_cells E a) none)
                (fun idx => nth (flat (a_shape E a) idx) (a_cells E b) none) La Lb
                (fun idx V => eq_refl) (fun idx V => eq_refl)) as P.
  destruct (Array.fill E none (size (a_shape E a)) (combine (a_cells E a) (a_cells E b)) (fun p => bin f (fst p) (snd p))) as [cells|e].
  - destruct P as [Lc P]. repeat split; auto.
  - exact P.
Qed.

(* ------------------------------------------------------------------ no object ever remembers a shape *)
Definition clean_arr (a : arr) : Prop := a_bs E a = BNone.
Definition all_clean (h : heap) : Prop := Forall clean_arr h.

Lemma clean_upd : forall h i, all_clean h -> all_clean (upd E h i (fun a => set_bs E a BNone)).
Proof.
  induction h as [|a h IH]; intros i H; simpl; [constructor|]. inversion H as [|a' h' Ha Hh]; subst.
  destruct i as [|i].
  - constructor; [reflexivity|exact Hh].
  - constructor; [exact Ha|apply IH; exact Hh].
Qed.

Lemma clean_snoc_fresh : forall h k s cells l, all_clean h -> all_clean (h ++ [fresh E k s cells l]).
Proof. intros. apply Forall_app. split; [assumption|]. constructor; [reflexivity|constructor]. Qed.

Lemma clean_finish : forall h k s r l, all_clean h -> all_clean (fst (finish E h k s r l)).
Proof.
  intros h k s r l H. unfold finish. destruct r; simpl; [|exact H]. apply clean_snoc_fresh. exact H.
Qed.

Lemma clean_step_un : forall h k f i lbl, all_clean h -> all_clean (fst (step_un h k f i lbl)).
Proof.
  intros h k f i lbl H. unfold Array.step_un. destruct (get_ku E h i) as [a|]; [|exact H].
  destruct (ce_shape E a) as [s|]; [|exact H]. destruct (Array.fill E none (size s) (a_cells E a) (un f)); [|exact H].
  destruct (lbl a); [|exact H]. simpl. apply clean_snoc_fresh. exact H.
Qed.

Lemma clean_step_zip : forall h f i ys, all_clean h -> all_clean (fst (step_zip h f i ys)).
Proof.
  intros h f i ys H. unfold Array.step_zip. destruct (get_ku E h i) as [a|]; [|exact H].
  destruct ys; [|exact H]. destruct (ce_shape E a); [|exact H]. apply clean_finish. exact H.
Qed.

(* every operation -- broadcasting binary ufuncs, failing ones, unpickling included -- leaves every
   object with _broadcasted_shape = None *)
Theorem clean_step : forall h o, all_clean h -> all_clean (fst (step h o)).
Proof.
  intros h o H. destruct o as [k s cells lbl|bk f x y|f i|f i|f i y|i l|i|i|i|i s m]; simpl in *.
  - destruct (size s =? length cells); [|exact H]. simpl. apply clean_snoc_fresh. exact H.
  - unfold Array.step_bin.
    destruct (match is_ku E h x with Some i => Some i | None => is_ku E h y end) as [self|]; [|exact H].
    destruct (input E h x y) as [[s0 c0]|]; [|exact H]. destruct (input E h y x) as [[s1 c1]|]; [|exact H].
    destruct (nth_error h self) as [me|]; [|exact H].
    destruct (shape_eqb s0 s1); [apply clean_finish; apply clean_upd; exact H|].
    destruct (bshape s0 s1); [apply clean_finish|]; apply clean_upd; exact H.
  - apply clean_step_un. exact H.
  - apply clean_step_un. exact H.
  - apply clean_step_zip. exact H.
  - destruct l as [|e|l]; [apply clean_step_un; exact H| |apply clean_step_zip; exact H].
    destruct (get_ku E h i); [apply clean_step_zip|]; exact H.
  - apply clean_step_un. exact H.
  - destruct (get_ku E h i); exact H.
  - destruct (get_ku E h i); [|exact H]. simpl. apply clean_snoc_fresh. exact H.
  - destruct (nth_error h i) as [a|]; [|exact H].
    destruct ((size s =? length m) && forallb (fun j => j <? length (a_cells E a)) m); [|exact H].
    simpl. apply clean_snoc_fresh. exact H.
Qed.

Theorem clean_run : forall p h, all_clean h -> all_clean (fst (run h p)).
Proof.
  induction p as [|o p IH]; intros h H; simpl; [exact H|].
  pose proof (clean_step h o H) as C.
  destruct (step h o) as [h1 x] eqn:S. simpl in *. specialize (IH h1 C).
  destruct (run h1 p) as [h2 xs]. simpl in *. exact IH.
Qed.

(* ------------------------------------------------------------------ history independence *)
Definition content_eq (a b : arr) : Prop :=
  a_kind E a = a_kind E b /\ a_shape E a = a_shape E b /\ a_cells E a = a_cells E b /\
  a_label E a = a_label E b.
Definition heap_ceq (h1 h2 : heap) : Prop := Forall2 content_eq h1 h2.

(* two heaps whose objects have the same kinds, shapes, contents and labels, and in which no object
   remembers a shape, are the same heap: nothing else is left for an operation to depend on *)
Lemma ceq_clean_eq : forall h1 h2, heap_ceq h1 h2 -> all_clean h1 -> all_clean h2 -> h1 = h2.
Proof.
  intros h1 h2 H. induction H as [|a b h1 h2 C H IH]; intros C1 C2; [reflexivity|].
  inversion C1 as [|? ? Ha C1']; inversion C2 as [|? ? Hb C2']; subst.
  f_equal; [|apply IH; assumption].
  destruct a as [ka sa ca ba la], b as [kb sb cb bb lb]. unfold content_eq, clean_arr in *. simpl in *.
  destruct C as (K & S & Cc & L). subst. reflexivity.
Qed.

(* a NumPy view / re-laid-out copy: shape s, kind and label of the source, element k = source element m[k] *)
Theorem view_gather : forall h i a s m,
  nth_error h i = Some a -> length m = size s -> (forall j, In j m -> j < length (a_cells E a)) ->
  exists cells,
    step h (OView i s m) = (h ++ [fresh E (a_kind E a) s cells (a_label E a)], XArr (a_kind E a) s cells) /\
    length cells = size s /\
    forall k, k < size s -> nth k cells none = nth (nth k m 0) (a_cells E a) none.
Proof.
  intros h i a s m N L B. simpl. rewrite N.
  assert (Q : (size s =? length m) && forallb (fun j => j <? length (a_cells E a)) m = true).
  { apply andb_true_iff. split; [apply Nat.eqb_eq; lia|]. apply forallb_forall. intros j Hj. apply Nat.ltb_lt. auto. }
  rewrite Q. eexists. split; [reflexivity|]. split; [rewrite map_length; exact L|].
  intros k Hk. rewrite (nth_indep _ none (nth (0) (a_cells E a) none)) by (rewrite map_length; lia).
  rewrite (map_nth (fun j => nth j (a_cells E a) none) m 0 k). reflexivity.
Qed.

(* a pickle round trip yields an object that every unary operation / view treats like the original *)
Theorem pickle_roundtrip : forall h i a f k,
  all_clean h -> get_ku E h i = Some a ->
  fst (step h (OPickle i)) = h ++ [fresh E KU (a_shape E a) (a_cells E a) none] /\
  snd (step_un (fst (step h (OPickle i))) k f (length h) (fun _ => Ok none)) = snd (step_un h k f i (fun _ => Ok none)).
Proof.
  intros h i a f k C G. simpl. rewrite G. simpl. split; [reflexivity|].
  assert (Hb : a_bs E a = BNone).
  { destruct (get_ku_nth _ _ _ G) as [N _]. eapply Forall_forall in C; [exact C|]. eapply nth_error_In. exact N. }
  unfold Array.step_un.
  assert (G' : get_ku E (h ++ [fresh E KU (a_shape E a) (a_cells E a) none]) (length h)
               = Some (fresh E KU (a_shape E a) (a_cells E a) none)).
  { unfold get_ku. rewrite nth_error_app2 by lia. rewrite Nat.sub_diag. reflexivity. }
  rewrite G', G. unfold ce_shape. rewrite Hb. simpl.
  destruct (Array.fill E none (size (a_shape E a)) (a_cells E a) (un f)); reflexivity.
Qed.

Lemma heap_ceq_refl : forall h, heap_ceq h h.
Proof. induction h; constructor; auto. unfold content_eq. auto. Qed.

End Facts.

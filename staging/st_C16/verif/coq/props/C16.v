(* props/C16.v -- Property C16: uncertain arrays are the element-wise lifting of scalar
   operations.  Statements about the model of GTC/uncertain_array.py in Array.v -- the code as
   repaired by the fixes C16-stale-broadcast-shape, C16-arctan2-uarray-second,
   C16-arctan2-broadcast and C16-pickle-attributes -- for EVERY element type E, every table of
   scalar operations (which may raise), every shape, rank and history; closed by lemmas of
   ArrayFacts.v.  The theorems that those defects were blocking (full history independence,
   views with the operand's own shape after any history, the arctan2 lifting for both operand
   orders and under broadcasting, the pickle round trip) are now proved outright.  One
   `_refuted` statement remains (sensitivity / u_component / core.atan2 do not broadcast), with
   its witness replayed on the implementation and the true restriction C16_zip_on. *)
From Coq Require Import ZArith List Bool Arith Lia.
From GTCV Require Import Num Array ArrayFacts.
Import ListNotations.

Section C16.
Variable E : Type.
Variable none : E.
Variable un : Z -> E -> res E.
Variable bin : Z -> E -> E -> res E.
Variable ilabel : E -> nat -> E.
Notation step := (step E none un bin ilabel).
Notation run := (run E none un bin ilabel).

(* (1) NumPy broadcasting as an index map, by induction on rank: the k-th operand iterator of
   np.broadcast yields, at result index idx, the operand element whose index is idx with the
   leading axes dropped and every stretched (size-1) axis read at 0. *)
Theorem C16_broadcast_index :
  forall (s t r : shape) (cs ct : list E) (idx : list nat) (d : E),
    bshape s t = Some r -> length cs = size s -> length ct = size t -> valid r idx ->
    nth (flat r idx) (bcast_list E s r cs) d = nth (src s r idx) cs d /\ src s r idx < size s /\
    nth (flat r idx) (bcast_list E t r ct) d = nth (src t r idx) ct d /\ src t r idx < size t /\
    length (bcast_list E s r cs) = size r /\ length (bcast_list E t r ct) = size r.
Proof.
  intros s t r cs ct idx d B Ls Lt V. destruct (bshape_spec _ _ _ B) as [Cs Ct].
  repeat split.
  - apply bcast_list_nth; assumption.
  - apply src_lt; assumption.
  - apply bcast_list_nth; assumption.
  - apply src_lt; assumption.
  - apply bcast_list_length; assumption.
  - apply bcast_list_length; assumption.
Qed.

(* (2) THE LIFTING, every binary ufunc (arithmetic, power, np.arctan2, maximum/minimum, logical
   and/or, comparisons): for operands of any shapes that broadcast, array-array and scalar-array,
   whichever input dispatches, after ANY history: the result has the broadcast shape and its
   element at every index is exactly the scalar result for the broadcast operand elements; if a
   scalar operation raises, the array operation raises that exception. *)
Theorem C16_lift :
  forall (history : list (op E)) bk f x y self s0 c0 s1 c1 r,
    let h := fst (run [] history) in
    dispatcher E h x y = Some self ->
    input E h x y = Some (s0, c0) -> input E h y x = Some (s1, c1) ->
    bshape s0 s1 = Some r ->
    match snd (step h (OBin bk f x y)) with
    | XArr k s cells =>
        k = bin_result_kind bk /\ s = r /\ length cells = size r /\
        forall idx, valid r idx ->
          bin f (nth (src s0 r idx) c0 none) (nth (src s1 r idx) c1 none) = Ok (nth (flat r idx) cells none)
    | XExn e => exists idx, valid r idx /\
          bin f (nth (src s0 r idx) c0 none) (nth (src s1 r idx) c1 none) = Err e
    | XLbl _ => False
    end.
Proof.
  intros history bk f x y self s0 c0 s1 c1 r h D I0 I1 B.
  apply (bin_lift E none bin h bk f x y self s0 c0 s1 c1 r); auto.
  apply run_wf. constructor.
Qed.

(* (2') what the arctan2 defects were blocking, spelled out: np.arctan2(x, y) is the lifting of the
   scalar atan2 (opcode f) with the FIRST input as ordinate and the SECOND as abscissa whether the
   dispatching UncertainArray is x or y (the other may be an ndarray, a list or a scalar), and for
   shapes that need broadcasting it returns the broadcast array instead of raising *)
Theorem C16_arctan2_lift :
  forall (history : list (op E)) f x y s0 c0 s1 c1 r,
    let h := fst (run [] history) in
    (is_ku E h x <> None \/ is_ku E h y <> None) ->
    input E h x y = Some (s0, c0) -> input E h y x = Some (s1, c1) ->
    bshape s0 s1 = Some r ->
    match snd (step h (OBin BGen f x y)) with
    | XArr k s cells =>
        k = KU /\ s = r /\ length cells = size r /\
        forall idx, valid r idx ->
          bin f (nth (src s0 r idx) c0 none) (nth (src s1 r idx) c1 none) = Ok (nth (flat r idx) cells none)
    | XExn e => exists idx, valid r idx /\
          bin f (nth (src s0 r idx) c0 none) (nth (src s1 r idx) c1 none) = Err e
    | XLbl _ => False
    end.
Proof.
  intros history f x y s0 c0 s1 c1 r h K I0 I1 B.
  assert (exists self, dispatcher E h x y = Some self) as [self D].
  { unfold dispatcher. destruct (is_ku E h x) as [i|]; [eauto|]. destruct (is_ku E h y) as [j|]; [eauto|].
    destruct K as [K|K]; congruence. }
  exact (C16_lift history BGen f x y self s0 c0 s1 c1 r D I0 I1 B).
Qed.

Theorem C16_lift_incompatible :
  forall (h : heap E) bk f x y self s0 c0 s1 c1,
    dispatcher E h x y = Some self ->
    input E h x y = Some (s0, c0) -> input E h y x = Some (s1, c1) -> bshape s0 s1 = None ->
    step h (OBin bk f x y) = (upd E h self (fun a => set_bs E a BNone), XExn ValueError).
Proof. intros. simpl. eapply bin_incompatible; eauto. Qed.

(* every heap any history can reach is well formed (cells = product of the shape) ... *)
Theorem C16_reachable_wf : forall history : list (op E), wf_heap E (fst (run [] history)).
Proof. intro p. apply run_wf. constructor. Qed.

(* (3) ... and in it NO object holds a remembered broadcast shape: broadcasting binary ufuncs,
   operations that raise half way, unpickling -- after every operation `_broadcasted_shape` is
   None on every object.  (This is what the stale-shape defect violated.) *)
Theorem C16_no_remembered_shape :
  forall (history : list (op E)) i a,
    nth_error (fst (run [] history)) i = Some a -> a_bs E a = BNone.
Proof.
  intros history i a N.
  assert (C : all_clean E (fst (run [] history))) by (apply clean_run; constructor).
  eapply Forall_forall in C; [exact C|]. eapply nth_error_In. exact N.
Qed.

(* (4) unary ufuncs, core functions, attribute views x u v df r real imag, result(array), copy():
   element-wise with the operand's OWN shape -- after ANY history, whatever was done with the same
   array object before (no restriction left) *)
Theorem C16_unary_views :
  forall (history : list (op E)) f i a,
    let h := fst (run [] history) in
    get_ku E h i = Some a ->
    match snd (step h (OUn f i)) with
    | XArr k s cells => k = KU /\ s = a_shape E a /\ length cells = size s /\
        forall idx, valid s idx -> un f (nth (flat s idx) (a_cells E a) none) = Ok (nth (flat s idx) cells none)
    | XExn e => exists idx, valid (a_shape E a) idx /\ un f (nth (flat (a_shape E a) idx) (a_cells E a) none) = Err e
    | XLbl _ => False
    end.
Proof.
  intros history f i a h G. simpl.
  apply (un_clean E none un h KU f i (fun _ => Ok none) a none); auto.
  - apply run_wf. constructor.
  - destruct (get_ku_nth E h i a G) as [N _]. exact (C16_no_remembered_shape history i a N).
Qed.

Theorem C16_bool_views :
  forall (history : list (op E)) f i a,
    let h := fst (run [] history) in
    get_ku E h i = Some a ->
    match snd (step h (OUnB f i)) with
    | XArr k s cells => k = KN /\ s = a_shape E a /\ length cells = size s /\
        forall idx, valid s idx -> un f (nth (flat s idx) (a_cells E a) none) = Ok (nth (flat s idx) cells none)
    | XExn e => exists idx, valid (a_shape E a) idx /\ un f (nth (flat (a_shape E a) idx) (a_cells E a) none) = Err e
    | XLbl _ => False
    end.
Proof.
  intros history f i a h G. simpl.
  apply (un_clean E none un h KN f i (fun _ => Ok none) a none); auto.
  - apply run_wf. constructor.
  - destruct (get_ku_nth E h i a G) as [N _]. exact (C16_no_remembered_shape history i a N).
Qed.

Theorem C16_copy :
  forall (history : list (op E)) i a,
    let h := fst (run [] history) in
    get_ku E h i = Some a ->
    match snd (step h (OCopy i)) with
    | XArr k s cells => k = KU /\ s = a_shape E a /\ length cells = size s /\
        forall idx, valid s idx -> un F_POS (nth (flat s idx) (a_cells E a) none) = Ok (nth (flat s idx) cells none)
    | XExn e => exists idx, valid (a_shape E a) idx /\ un F_POS (nth (flat (a_shape E a) idx) (a_cells E a) none) = Err e
    | XLbl _ => False
    end.
Proof.
  intros history i a h G. simpl.
  apply (un_clean E none un h KU F_POS i (label_of E) a (a_label E a)); auto.
  - apply run_wf. constructor.
  - destruct (get_ku_nth E h i a G) as [N _]. exact (C16_no_remembered_shape history i a N).
Qed.

Theorem C16_result :
  forall (history : list (op E)) i a,
    let h := fst (run [] history) in
    get_ku E h i = Some a ->
    match snd (step h (OResult i LNone)) with
    | XArr k s cells => k = KU /\ s = a_shape E a /\ length cells = size s /\
        forall idx, valid s idx -> un F_RES1 (nth (flat s idx) (a_cells E a) none) = Ok (nth (flat s idx) cells none)
    | XExn e => exists idx, valid (a_shape E a) idx /\ un F_RES1 (nth (flat (a_shape E a) idx) (a_cells E a) none) = Err e
    | XLbl _ => False
    end.
Proof.
  intros history i a h G. simpl.
  apply (un_clean E none un h KU F_RES1 i (fun _ => Ok none) a none); auto.
  - apply run_wf. constructor.
  - destruct (get_ku_nth E h i a G) as [N _]. exact (C16_no_remembered_shape history i a N).
Qed.

(* sensitivity / u_component / core.atan2 between arrays of the same shape, after any history *)
Theorem C16_zip_on :
  forall (history : list (op E)) f i j a b,
    let h := fst (run [] history) in
    get_ku E h i = Some a -> nth_error h j = Some b -> a_shape E b = a_shape E a ->
    match snd (step h (OZip f i (OA j))) with
    | XArr k s cells => k = KU /\ s = a_shape E a /\ length cells = size s /\
        forall idx, valid s idx ->
          bin f (nth (flat s idx) (a_cells E a) none) (nth (flat s idx) (a_cells E b) none) = Ok (nth (flat s idx) cells none)
    | XExn e => exists idx, valid (a_shape E a) idx /\
          bin f (nth (flat (a_shape E a) idx) (a_cells E a) none) (nth (flat (a_shape E a) idx) (a_cells E b) none) = Err e
    | XLbl _ => False
    end.
Proof.
  intros history f i j a b h G N Hs. simpl.
  apply (zip_clean E none bin h f i j a b); auto.
  - apply run_wf. constructor.
  - destruct (get_ku_nth E h i a G) as [Na _]. exact (C16_no_remembered_shape history i a Na).
Qed.

(* (5) HISTORY INDEPENDENCE, unrestricted: two histories -- any sequences of operations, on the same
   array objects or not, with broadcasting, failures, pickling -- that lead to objects with the same
   kinds, shapes, contents and labels give the same outcome (result array or exception, AND successor
   heap) for EVERY operation: binary, unary, view, copy, result, sensitivity, label.  The outcome
   depends only on the operands' contents and shapes. *)
Theorem C16_history_independent :
  forall (p1 p2 : list (op E)) (o : op E),
    heap_ceq E (fst (run [] p1)) (fst (run [] p2)) ->
    step (fst (run [] p1)) o = step (fst (run [] p2)) o.
Proof.
  intros p1 p2 o H.
  rewrite (ceq_clean_eq E _ _ H); [reflexivity| |]; apply clean_run; constructor.
Qed.

(* (6) a pickle round trip yields an object with the same shape and contents (the label is not
   carried) on which every unary ufunc / core function / view gives what it gives on the original *)
Theorem C16_pickle_roundtrip :
  forall (history : list (op E)) i a f,
    let h := fst (run [] history) in
    get_ku E h i = Some a ->
    fst (step h (OPickle i)) = h ++ [fresh E KU (a_shape E a) (a_cells E a) none] /\
    snd (step (fst (step h (OPickle i))) (OUn f (length h))) = snd (step h (OUn f i)) /\
    snd (step (fst (step h (OPickle i))) (OLabel (length h))) = XLbl none.
Proof.
  intros history i a f h G.
  assert (C : all_clean E h) by (apply clean_run; constructor).
  destruct (pickle_roundtrip E none un bin ilabel h i a f KU C G) as [P1 P2].
  split; [exact P1|]. split; [exact P2|].
  rewrite P1. simpl. unfold get_ku. rewrite nth_error_app2 by lia. rewrite Nat.sub_diag. reflexivity.
Qed.

(* (7) operands that are NumPy views or re-laid-out copies (a.T, np.transpose, np.swapaxes, a[::-1],
   strided slices, Fortran order, np.broadcast_to): the new object has the requested shape, the kind and
   label of its source and, at every flat logical position k, the source element m[k] that NumPy's index
   map designates -- nothing else (no memory layout) exists in the model, and since [history] in (2)-(6)
   ranges over ALL operation sequences, views included, every array operation applied to such an operand
   is the lifting over its LOGICAL elements. *)
Theorem C16_view :
  forall (history : list (op E)) i a s m,
    let h := fst (run [] history) in
    nth_error h i = Some a -> length m = size s -> (forall j, In j m -> j < length (a_cells E a)) ->
    exists cells,
      step h (OView i s m) = (h ++ [fresh E (a_kind E a) s cells (a_label E a)], XArr (a_kind E a) s cells) /\
      length cells = size s /\
      forall k, k < size s -> nth k cells none = nth (nth k m 0) (a_cells E a) none.
Proof. intros history i a s m h N L B. exact (view_gather E none un bin ilabel h i a s m N L B). Qed.

End C16.

Print Assumptions C16_broadcast_index.
Print Assumptions C16_lift.
Print Assumptions C16_arctan2_lift.
Print Assumptions C16_lift_incompatible.
Print Assumptions C16_reachable_wf.
Print Assumptions C16_no_remembered_shape.
Print Assumptions C16_unary_views.
Print Assumptions C16_bool_views.
Print Assumptions C16_copy.
Print Assumptions C16_result.
Print Assumptions C16_zip_on.
Print Assumptions C16_history_independent.
Print Assumptions C16_pickle_roundtrip.
Print Assumptions C16_view.

(* ------------------------------------------------------------------ a concrete instance: witnesses and non-vacuity *)
Definition wun (f e : Z) : res Z := if Z.eqb e 0 then Err TypeError else Ok (f * 1000 + e)%Z.
Definition wbin (f a b : Z) : res Z := if Z.eqb a 0 || Z.eqb b 0 then Err TypeError else Ok (a * 100 + b)%Z.
Definition wlbl (e : Z) (i : nat) : Z := (e + Z.of_nat i)%Z.
Definition wstep := step Z 0%Z wun wbin wlbl.
Definition wrun := run Z 0%Z wun wbin wlbl.

(* a(3,1) + b(3,) : a dispatches a broadcasting operation *)
Definition hist1 : list (op Z) :=
  [ONew KU [3; 1] [1; 2; 3]%Z 0%Z; ONew KU [3] [4; 5; 6]%Z 0%Z; OBin BGen 50%Z (OA 0) (OA 1)].
(* the same three objects created directly: no operation was ever applied to a *)
Definition hist2 : list (op Z) :=
  [ONew KU [3; 1] [1; 2; 3]%Z 0%Z; ONew KU [3] [4; 5; 6]%Z 0%Z;
   ONew KU [3; 3] [104; 105; 106; 204; 205; 206; 304; 305; 306]%Z 0%Z].

Example C16_lift_example :
  snd (wstep (fst (wrun [] [ONew KU [3; 1] [1; 2; 3]%Z 0%Z; ONew KU [3] [4; 5; 6]%Z 0%Z])) (OBin BGen 50%Z (OA 0) (OA 1)))
  = XArr KU [3; 3] [104; 105; 106; 204; 205; 206; 304; 305; 306]%Z
  /\ bshape [3; 1] [3] = Some [3; 3] /\ src [3; 1] [3; 3] [2; 1] = 2 /\ src [3] [3; 3] [2; 1] = 1
  /\ bshape [2; 1; 4] [3; 1] = Some [2; 3; 4] /\ bshape [2; 3] [4; 3] = None /\ bshape [0] [1] = Some [0]
  /\ snd (wstep (fst (wrun [] hist1)) (OBin BCmp 62%Z (OS 7%Z) (OA 1))) = XArr KN [3] [704; 705; 706]%Z.
Proof. vm_compute. repeat split; reflexivity. Qed.

(* non-vacuity of (5), on the very witness that refuted it before the repair: the two histories reach
   content-equal heaps, and the view of object 0 -- which dispatched the broadcasting a(3,1)+b(3,) in
   hist1 and nothing in hist2 -- has the operand's own shape (3,1) in both (it was (3,3) with six None) *)
Example C16_history_independent_example :
  heap_ceq Z (fst (wrun [] hist1)) (fst (wrun [] hist2)) /\
  snd (wstep (fst (wrun [] hist1)) (OUn 33%Z 0)) = XArr KU [3; 1] [33001; 33002; 33003]%Z /\
  snd (wstep (fst (wrun [] hist2)) (OUn 33%Z 0)) = XArr KU [3; 1] [33001; 33002; 33003]%Z /\
  snd (wstep (fst (wrun [] hist1)) (OCopy 0)) = XArr KU [3; 1] [1001; 1002; 1003]%Z /\
  snd (wstep (fst (wrun [] hist1)) (OZip 71%Z 1 (OA 1))) = XArr KU [3] [404; 505; 606]%Z.
Proof.
  split; [vm_compute; repeat constructor|]. vm_compute. repeat split; reflexivity.
Qed.

(* non-vacuity of (2'): np.arctan2(ndarray, uarray) -- the uarray dispatches as SECOND input -- pairs the
   first input with the second (it was f(x, x)); a scalar first input; and shapes (3,1) x (3,) give the
   broadcast array (it raised AttributeError and left (3,3) behind on the dispatcher) *)
Example C16_arctan2_example :
  (let h := fst (wrun [] [ONew KN [3] [7; 8; 9]%Z 0%Z; ONew KU [3] [4; 5; 6]%Z 0%Z]) in
   dispatcher Z h (OA 0) (OA 1) = Some 1 /\
   snd (wstep h (OBin BGen 70%Z (OA 0) (OA 1))) = XArr KU [3] [704; 805; 906]%Z) /\
  snd (wstep (fst (wrun [] [ONew KU [3] [1; 2; 3]%Z 0%Z])) (OBin BGen 70%Z (OS 9%Z) (OA 0))) = XArr KU [3] [901; 902; 903]%Z /\
  wstep (fst (wrun [] [ONew KU [3; 1] [1; 2; 3]%Z 0%Z; ONew KU [3] [4; 5; 6]%Z 0%Z])) (OBin BGen 70%Z (OA 0) (OA 1))
  = ([mkArr Z KU [3; 1] [1; 2; 3]%Z BNone 0%Z; mkArr Z KU [3] [4; 5; 6]%Z BNone 0%Z;
      mkArr Z KU [3; 3] [104; 105; 106; 204; 205; 206; 304; 305; 306]%Z BNone 0%Z],
     XArr KU [3; 3] [104; 105; 106; 204; 205; 206; 304; 305; 306]%Z).
Proof. vm_compute. repeat split; reflexivity. Qed.

(* non-vacuity of (6) *)
Example C16_pickle_example :
  let h := fst (wrun [] [ONew KU [2] [1; 2]%Z 5%Z; OPickle 0]) in
  snd (wstep h (OUn 33%Z 0)) = XArr KU [2] [33001; 33002]%Z /\
  snd (wstep h (OUn 33%Z 1)) = XArr KU [2] [33001; 33002]%Z /\
  snd (wstep h (OLabel 0)) = XLbl 5%Z /\ snd (wstep h (OLabel 1)) = XLbl 0%Z.
Proof. vm_compute. repeat split; reflexivity. Qed.

(* non-vacuity of (7): a(2,3).T, then a unary function, a binary ufunc with the C-ordered original of the
   transposed shape, and copy(): all over the logical elements of the view (a.T[i,j] = a[j,i]) *)
Example C16_view_example :
  let h := fst (wrun [] [ONew KU [2; 3] [1; 2; 3; 4; 5; 6]%Z 9%Z; OView 0 [3; 2] [0; 3; 1; 4; 2; 5];
                         ONew KU [3; 2] [11; 12; 13; 14; 15; 16]%Z 0%Z]) in
  snd (wstep h (OUn 33%Z 1)) = XArr KU [3; 2] [33001; 33004; 33002; 33005; 33003; 33006]%Z /\
  snd (wstep h (OCopy 1)) = XArr KU [3; 2] [1001; 1004; 1002; 1005; 1003; 1006]%Z /\
  snd (wstep h (OBin BGen 51%Z (OA 1) (OA 2))) = XArr KU [3; 2] [111; 412; 213; 514; 315; 616]%Z /\
  snd (wstep h (OLabel 1)) = XLbl 9%Z.
Proof. vm_compute. repeat split; reflexivity. Qed.

(* STILL REFUTED (known finding C16-zip-no-broadcast): sensitivity / u_component / core.atan2 do not
   broadcast: a(2,1) with b(2,) is zipped in flat order with a's shape (NumPy would give (2,2)); with a
   shorter second operand the tail is None *)
Theorem C16_zip_broadcast_refuted :
  exists (h : heap Z),
    bshape [2; 1] [2] = Some [2; 2] /\
    snd (wstep h (OZip 71%Z 0 (OA 1))) = XArr KU [2; 1] [104; 205]%Z /\
    snd (wstep h (OBin BGen 71%Z (OA 0) (OA 1))) = XArr KU [2; 2] [104; 105; 204; 205]%Z /\
    snd (wstep h (OZip 71%Z 0 (OS 9%Z))) = XArr KU [2; 1] [109; 0]%Z.
Proof.
  exists (fst (wrun [] [ONew KU [2; 1] [1; 2]%Z 0%Z; ONew KU [2] [4; 5]%Z 0%Z])). vm_compute. repeat split; reflexivity.
Qed.
Print Assumptions C16_zip_broadcast_refuted.

(* Array.v -- executable model of GTC/uncertain_array.py (UncertainArray) AS REPAIRED by the
   fixes C16-stale-broadcast-shape, C16-arctan2-* and C16-pickle-attributes: shapes, flat
   row-major element lists, NumPy's broadcasting rule, the `_broadcasted_shape` field (still
   there, still read by `_create_empty`, but now reset in a `finally` clause of
   `__array_ufunc__` so that it is None whenever no ufunc is running), `__array_ufunc__`
   dispatch (which input is `self` is explicit), the element-wise method family -- `_arctan2`
   now builds its pairs from both inputs like every other two-argument wrapper, so it is an
   ordinary [BGen] ufunc --, attribute views, sensitivity / u_component / core.atan2 (zip of
   the two `.flat` iterators, no broadcasting: still a known finding), result(array, labels),
   copy(), and a pickle round trip (`__array_finalize__` now sets both private attributes
   first; the label is not carried by pickle).  Elements are abstract: a type E with a
   distinguished [none] (Python None / an unwritten cell of np.empty) and opcode-indexed
   scalar operations returning [res E].  The model is run with E := Z (element identifiers,
   scalar operations = a finite table recorded from scalar GTC) against the implementation,
   and reasoned about for every E in ArrayFacts.v. *)
From Coq Require Import ZArith List Bool Arith Lia.
From GTCV Require Import Num.
Import ListNotations.

Definition shape := list nat.
Definition size (s : shape) : nat := fold_right Nat.mul 1 s.

(* ---------- NumPy broadcasting of two shapes (right aligned) ---------- *)
Definition bdim (x y : nat) : option nat :=
  if x =? y then Some x else if x =? 1 then Some y else if y =? 1 then Some x else None.

Fixpoint bshape_rev (a b : list nat) : option (list nat) :=
  match a, b with
  | [], _ => Some b
  | _, [] => Some a
  | x :: a', y :: b' =>
      match bshape_rev a' b', bdim x y with
      | Some r, Some d => Some (d :: r)
      | _, _ => None
      end
  end.

Definition bshape (a b : shape) : option shape :=
  option_map (@rev nat) (bshape_rev (rev a) (rev b)).

(* prepend size-1 axes so that s has the rank of r *)
Definition pad (s r : shape) : shape := repeat 1 (length r - length s) ++ s.

Fixpoint shape_eqb (a b : shape) : bool :=
  match a, b with
  | [], [] => true
  | x :: a', y :: b' => (x =? y) && shape_eqb a' b'
  | _, _ => false
  end.

(* ---------- multi-indices (specification side) ---------- *)
Fixpoint flat (r : shape) (idx : list nat) : nat :=
  match r, idx with
  | _ :: r', i :: idx' => i * size r' + flat r' idx'
  | _, _ => 0
  end.

Fixpoint valid (r : shape) (idx : list nat) : Prop :=
  match r, idx with
  | [], [] => True
  | n :: r', i :: idx' => i < n /\ valid r' idx'
  | _, _ => False
  end.

(* the index of the operand element used at result index idx: stretched (size-1) axes read 0 *)
Fixpoint bidx (s r : shape) (idx : list nat) : list nat :=
  match s, r, idx with
  | d :: s', n :: r', i :: idx' => (if d =? n then i else 0) :: bidx s' r' idx'
  | _, _, _ => []
  end.

(* flat offset into an operand of shape s of the element that NumPy pairs with result index idx *)
Definition src (s r : shape) (idx : list nat) : nat := flat (pad s r) (bidx (pad s r) r idx).

(* what `_broadcasted_shape` holds.  [BUnset] (attribute missing) is only an OBSERVATION value: the
   repaired code always sets the attribute, the model never produces it; the harness reports it if
   the implementation ever shows it again *)
Inductive bstate := BUnset | BNone | BSome (s : shape).
Inductive akind := KU | KN.          (* UncertainArray | plain ndarray / list *)
Inductive bkind := BGen | BCmp.

Definition F_POS : Z := 1.           (* +item  (copy, np.positive) *)
Definition F_RES1 : Z := 90.         (* result(x) *)
Definition F_RES2 : Z := 91.         (* result(x, label) *)

Section Model.
Variable E : Type.
Variable none : E.
Variable un : Z -> E -> res E.
Variable bin : Z -> E -> E -> res E.
Variable ilabel : E -> nat -> E.     (* "{}[{}]".format(base, i) *)

(* ---------- what np.broadcast(...).iters[k] yields, in row-major order of r ---------- *)
Fixpoint chunks (n k : nat) (l : list E) : list (list E) :=
  match n with
  | 0 => []
  | S n' => firstn k l :: chunks n' k (skipn k l)
  end.

Fixpoint bl (s r : shape) (cells : list E) : list E :=
  match s, r with
  | d :: s', n :: r' =>
      if d =? n then concat (map (bl s' r') (chunks n (size s') cells))
      else concat (repeat (bl s' r' cells) n)
  | _, _ => cells
  end.

Definition bcast_list (s r : shape) (cells : list E) : list E := bl (pad s r) r cells.

(* ---------- array objects ---------- *)
Record arr := mkArr {
  a_kind : akind; a_shape : shape; a_cells : list E;
  a_bs : bstate;            (* _broadcasted_shape *)
  a_label : E }.
Definition heap := list arr.

Inductive operand := OA (i : nat) | OS (e : E).
Inductive lblarg := LNone | LBase (e : E) | LList (l : list E).

Inductive op :=
| ONew (k : akind) (s : shape) (cells : list E) (lbl : E)   (* uarray(...) / np.array(..., dtype=object) *)
| OBin (bk : bkind) (f : Z) (x y : operand)                 (* np.<ufunc>(x, y), x <op> y *)
| OUn (f : Z) (i : nat)          (* unary ufunc, core function, attribute view: UncertainArray result *)
| OUnB (f : Z) (i : nat)         (* isnan, isinf, isfinite, logical_not: plain bool ndarray result *)
| OZip (f : Z) (i : nat) (y : operand)   (* sensitivity, u_component, core.atan2 *)
| OResult (i : nat) (l : lblarg)
| OCopy (i : nat)
| OLabel (i : nat)
| OPickle (i : nat)
(* a VIEW or re-laid-out copy made by NumPy itself (a.T, np.transpose, np.swapaxes, a[::-1], a[:, ::2],
   np.asanyarray(a, order='F'), np.broadcast_to(a, s, subok=True)): a new object of shape s whose element
   at flat (C-order, logical) position k is element (nth k m) of object i; its memory layout is not part
   of the model -- no operation of uncertain_array.py may depend on it.  __array_finalize__ gives the new
   object the label of its source and _broadcasted_shape = None. *)
| OView (i : nat) (s : shape) (m : list nat).

Inductive out :=
| XArr (k : akind) (s : shape) (cells : list E)
| XLbl (e : E)
| XExn (e : exn).

(* `for i, item in enumerate(iterator): out[i] = f(item)` on out = np.empty(m): f is evaluated
   before the store, the store raises IndexError when i >= m, cells never written stay None *)
Fixpoint fill {X : Type} (m : nat) (items : list X) (f : X -> res E) {struct items} : res (list E) :=
  match items with
  | [] => Ok (repeat none m)
  | x :: t =>
      v <- f x ;;
      match m with
      | 0 => Err IndexError
      | S m' => r <- fill m' t f ;; Ok (v :: r)
      end
  end.

(* _create_empty: shape = self.shape if self._broadcasted_shape is None else self._broadcasted_shape *)
Definition ce_shape (a : arr) : res shape :=
  match a_bs a with
  | BUnset => Err AttributeError
  | BNone => Ok (a_shape a)
  | BSome s => Ok s
  end.

Definition set_bs (a : arr) (b : bstate) : arr :=
  mkArr (a_kind a) (a_shape a) (a_cells a) b (a_label a).

Fixpoint upd (h : heap) (i : nat) (f : arr -> arr) : heap :=
  match h, i with
  | [], _ => []
  | a :: t, 0 => f a :: t
  | a :: t, S i' => a :: upd t i' f
  end.

Definition fresh (k : akind) (s : shape) (cells : list E) (lbl : E) : arr :=
  mkArr k s cells BNone lbl.

Definition is_ku (h : heap) (x : operand) : option nat :=
  match x with
  | OA i => match nth_error h i with
            | Some a => match a_kind a with KU => Some i | KN => None end
            | None => None
            end
  | OS _ => None
  end.

(* shape and cells of an input after the scalar promotion np.full(other.shape, scalar) *)
Definition input (h : heap) (x other : operand) : option (shape * list E) :=
  match x with
  | OA i => match nth_error h i with Some a => Some (a_shape a, a_cells a) | None => None end
  | OS e => match other with
            | OA j => match nth_error h j with
                      | Some b => Some (a_shape b, repeat e (size (a_shape b)))
                      | None => None
                      end
            | OS _ => None
            end
  end.

Definition bin_result_kind (bk : bkind) : akind := match bk with BCmp => KN | BGen => KU end.

Definition finish (h : heap) (k : akind) (s : shape) (r : res (list E)) (lbl : E) : heap * out :=
  match r with
  | Ok cells => (h ++ [fresh k s cells lbl], XArr k s cells)
  | Err e => (h, XExn e)
  end.

Definition step_bin (h : heap) (bk : bkind) (f : Z) (x y : operand) : heap * out :=
  (* the dispatching operand: the leftmost UncertainArray among the inputs *)
  match (match is_ku h x with Some i => Some i | None => is_ku h y end) with
  | None => (h, XExn OtherExn)                (* not dispatched to GTC: outside the model *)
  | Some self =>
    match input h x y, input h y x, nth_error h self with
    | Some (s0, c0), Some (s1, c1), Some me =>
        (* self._broadcasted_shape = None before the shape test; and again in the `finally` clause
           around the method call: whatever happens, the dispatcher holds None afterwards *)
        let h0 := upd h self (fun a => set_bs a BNone) in
        if shape_eqb s0 s1 then
          finish h0 (bin_result_kind bk) (a_shape me)
                 (fill (size (a_shape me)) (combine c0 c1) (fun p => bin f (fst p) (snd p))) none
        else
          match bshape s0 s1 with
          | None => (h0, XExn ValueError)                        (* np.broadcast raises *)
          | Some r =>
              (* while the method runs the dispatcher holds r, which _create_empty uses as the shape *)
              finish h0 (bin_result_kind bk) r
                     (fill (size r) (combine (bcast_list s0 r c0) (bcast_list s1 r c1))
                           (fun p => bin f (fst p) (snd p))) none
          end
    | _, _, _ => (h, XExn OtherExn)
    end
  end.

Definition get_ku (h : heap) (i : nat) : option arr :=
  match nth_error h i with
  | Some a => match a_kind a with KU => Some a | KN => None end
  | None => None
  end.

Definition step_un (h : heap) (k : akind) (f : Z) (i : nat) (lbl : arr -> res E) : heap * out :=
  match get_ku h i with
  | None => (h, XExn OtherExn)
  | Some a =>
      match ce_shape a with
      | Err e => (h, XExn e)
      | Ok s =>
          match fill (size s) (a_cells a) (un f) with
          | Err e => (h, XExn e)
          | Ok cells =>
              match lbl a with
              | Err e => (h, XExn e)
              | Ok l => (h ++ [fresh k s cells l], XArr k s cells)
              end
          end
      end
  end.

Definition zip_cells (h : heap) (y : operand) : option (list E) :=
  match y with
  | OA j => match nth_error h j with Some b => Some (a_cells b) | None => None end
  | OS e => Some [e]                      (* np.asarray(scalar).flat *)
  end.

Definition step_zip (h : heap) (f : Z) (i : nat) (ys : option (list E)) : heap * out :=
  match get_ku h i, ys with
  | Some a, Some yc =>
      match ce_shape a with
      | Err e => (h, XExn e)
      | Ok s => finish h KU s (fill (size s) (combine (a_cells a) yc) (fun p => bin f (fst p) (snd p))) none
      end
  | _, _ => (h, XExn OtherExn)
  end.

Definition label_of (a : arr) : res E := Ok (a_label a).

Definition step (h : heap) (o : op) : heap * out :=
  match o with
  | ONew k s cells lbl =>
      if size s =? length cells then (h ++ [fresh k s cells lbl], XArr k s cells) else (h, XExn ValueError)
  | OBin bk f x y => step_bin h bk f x y
  | OUn f i => step_un h KU f i (fun _ => Ok none)
  | OUnB f i => step_un h KN f i (fun _ => Ok none)
  | OZip f i y => step_zip h f i (zip_cells h y)
  | OResult i LNone => step_un h KU F_RES1 i (fun _ => Ok none)
  | OResult i (LBase e) =>
      match get_ku h i with
      | Some a => step_zip h F_RES2 i (Some (map (ilabel e) (seq 0 (size (a_shape a)))))
      | None => (h, XExn OtherExn)
      end
  | OResult i (LList l) => step_zip h F_RES2 i (Some l)
  | OCopy i => step_un h KU F_POS i label_of
  | OLabel i =>
      match get_ku h i with
      | Some a => (h, match label_of a with Ok l => XLbl l | Err e => XExn e end)
      | None => (h, XExn OtherExn)
      end
  | OPickle i =>
      match get_ku h i with
      | Some a => (h ++ [fresh KU (a_shape a) (a_cells a) none], XArr KU (a_shape a) (a_cells a))
      | None => (h, XExn OtherExn)
      end
  | OView i s m =>
      match nth_error h i with
      | Some a =>
          if (size s =? length m) && forallb (fun j => j <? length (a_cells a)) m then
            let cells := map (fun j => nth j (a_cells a) none) m in
            (h ++ [fresh (a_kind a) s cells (a_label a)], XArr (a_kind a) s cells)
          else (h, XExn OtherExn)
      | None => (h, XExn OtherExn)
      end
  end.

(* a run records, after every step, the result and the _broadcasted_shape and label of every object *)
Definition obj_state (a : arr) : bstate * res E := (a_bs a, label_of a).

Fixpoint run (h : heap) (p : list op) : heap * list (out * list (bstate * res E)) :=
  match p with
  | [] => (h, [])
  | o :: t =>
      let '(h1, x) := step h o in
      let '(h2, xs) := run h1 t in
      (h2, (x, map obj_state h1) :: xs)
  end.

End Model.

Arguments OA {E} i.
Arguments OS {E} e.
Arguments LNone {E}.
Arguments LBase {E} e.
Arguments LList {E} l.
Arguments ONew {E} k s cells lbl.
Arguments OBin {E} bk f x y.
Arguments OUn {E} f i.
Arguments OUnB {E} f i.
Arguments OZip {E} f i y.
Arguments OResult {E} i l.
Arguments OCopy {E} i.
Arguments OLabel {E} i.
Arguments OPickle {E} i.
Arguments OView {E} i s m.
Arguments XArr {E} k s cells.
Arguments XLbl {E} e.
Arguments XExn {E} e.

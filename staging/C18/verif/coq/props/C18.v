(* props/C18.v -- Property C18: formatted output is the correctly rounded value(uncertainty)
   shorthand.  Statements only, closed by lemmas of FormatFacts.v.  They are about the
   Format.v model of GTC/formatting.py evaluated in exact arithmetic (QOps: exact floor(log10),
   exact half-even decimal rounding, exact powers of ten); the same Gallina code is run at
   binary64 (FlOps) against the implementation, string for string, on every check.
   [rplace q ue] = q / 10^ue rounded to the nearest integer, ties to even. *)
From Coq Require Import ZArith QArith Qabs Qround List Bool.
From GTCV Require Import Num FNum Format FormatF FormatQ FormatFacts FormatX.
Import ListNotations.
Local Open Scope Q_scope.

(* (1) the decimal place chosen by create_format/_update_format: u correctly rounded at
   10^u_exponent has exactly `digits` significant digits -- the carry case (0.0995 -> 0.10,
   u rounding up to the next power of ten) is a proof case, not an example *)
Theorem C18_place_of_uncertainty : forall (u : Q) (f : fmt),
  0 < u -> (1 <= fm_digits f)%Z ->
  exists p ue,
    update_format QOps u None f = Ok (set_update f p ue true) /\
    p10Q (fm_digits f - 1) <= inject_Z (rplace u ue) /\
    inject_Z (rplace u ue) < p10Q (fm_digits f).
Proof. exact update_format_spec. Qed.
Print Assumptions C18_place_of_uncertainty.

(* (2) C18_spec, end to end (create_format + _round_ureal + _to_string_ureal), every x, every
   u > 0, every digits >= 1, types f F e E g G %:  the text is  X(U)suffix  where X prints
   |Mx|*10^k with p decimals behind the sign, U prints N*10^k with the same p decimals or as a
   count of the last place, N = rplace u ue has exactly `digits` digits and is within half a
   place of u, Mx = rplace x ue is within half a place of x (same place 10^ue), and the suffix
   (none, %, e+XX) scales both: printed / 10^p * 10^sh = Mx * 10^ue resp. N * 10^ue. *)
Theorem C18_spec : forall x u a,
  0 < u ->
  let f0 := init_format a in
  (1 <= fm_digits f0)%Z -> good_type (fm_type f0) -> fm_style f0 <> StBad ->
  exists f ue,
    create_format QOps u None a = Ok f /\ fm_u_exponent f = ue /\
    let N := rplace u ue in let Mx := rplace x ue in
    p10Q (fm_digits f0 - 1) <= inject_Z N /\ inject_Z N < p10Q (fm_digits f0) /\
    Qabs (inject_Z N * p10Q ue - u) <= (1#2) * p10Q ue /\
    Qabs (inject_Z Mx * p10Q ue - x) <= (1#2) * p10Q ue /\
    let E := oomQ (maximumQ x u ue) in let sh := shift_of (fm_type f0) ue E in
    let p := Z.max (sh - ue) 0 in let k := Z.max (ue - sh) 0 in
    exists pu hash_u,
      to_string_ureal QOps x u f None =
        Ok (fixed_text (Mx <? 0)%Z (Z.abs Mx * 10 ^ k) p (fm_sign f0) (fm_hash f0) (fm_grouping f0)
            ++ [40%Z] ++ fixed_text false (N * 10 ^ k) pu SgNone hash_u (fm_grouping f0) ++ [41%Z]
            ++ suffix_of (fm_type f0) ue E) /\
      (pu = p \/ pu = 0%Z) /\
      inject_Z (Z.abs Mx * 10 ^ k) * p10Q (- p) * p10Q sh == inject_Z (Z.abs Mx) * p10Q ue /\
      inject_Z (N * 10 ^ k) * p10Q (- p) * p10Q sh == inject_Z N * p10Q ue.
Proof. exact format_ureal_spec. Qed.
Print Assumptions C18_spec.

(* (3) value and uncertainty are rounded at one common place and scaled by one common factor,
   for any Format (also one made for another number, as for the two components of a complex) *)
Theorem C18_common_place : forall x u f,
  fm_nzf f = true -> good_type (fm_type f) -> 0 < u -> (1 <= rplace u (fm_u_exponent f))%Z ->
  let ue := fm_u_exponent f in let t := fm_type f in
  let E := oomQ (maximumQ x u ue) in let sh := shift_of t ue E in
  exists vx vu,
    round_ureal QOps x u f =
      Ok ({| r_value := vx; r_precision := Z.max (sh - ue) 0; r_type := rtype_of t;
             r_exponent := E; r_suffix := suffix_of t ue E |},
          {| r_value := vu; r_precision := Z.max (sh - ue) 0; r_type := rtype_of t;
             r_exponent := E; r_suffix := suffix_of t ue E |}) /\
    (ue <= E)%Z /\
    vx == inject_Z (rplace x ue) * p10Q (ue - sh) /\
    vu == inject_Z (rplace u ue) * p10Q (ue - sh).
Proof. exact round_ureal_spec. Qed.
Print Assumptions C18_common_place.

(* (4) uncertain complex numbers: the place comes from the smaller component uncertainty (which
   gets exactly `digits` digits); both components then satisfy the hypothesis of (3) with
   that same place, so they are formatted component-wise with a common least-significant place *)
Theorem C18_complex_common_place : forall (ur ui : Q) (f : fmt),
  0 < ur -> 0 < ui -> (1 <= fm_digits f)%Z ->
  exists p ue,
    update_format QOps ur (Some ui) f = Ok (set_update f p ue true) /\
    let um := pymin QOps ur ui in
    p10Q (fm_digits f - 1) <= inject_Z (rplace um ue) /\ inject_Z (rplace um ue) < p10Q (fm_digits f) /\
    (1 <= rplace ur ue)%Z /\ (1 <= rplace ui ue)%Z.
Proof. exact update_format_complex_spec. Qed.
Print Assumptions C18_complex_common_place.

(* (5) fill / align / width / zero only pad: the result is the text between two runs of one
   fill character whose total length is max(width - len(text), 0) *)
Theorem C18_padding_only_pads : forall text f out,
  result text f = Ok out ->
  exists (c : Z) (l r : nat),
    out = repeat_z c l ++ text ++ repeat_z c r /\
    (l + r)%nat = match fm_width f with
                  | Some w => Z.to_nat (w - zlen text)
                  | None => 0%nat
                  end.
Proof. exact result_pads. Qed.
Print Assumptions C18_padding_only_pads.

(* the sign option only selects the character in front of the value text *)
Theorem C18_sign_only_signs : forall neg n p s hash grp,
  fixed_text neg n p s hash grp = sign_text neg s ++ fixed_text false n p SgNone hash grp.
Proof. exact fixed_text_sign. Qed.
Print Assumptions C18_sign_only_signs.

(* the digit reader inverts the digit printer used for every number in the text *)
Theorem C18_digits_parse_back : forall n, (0 <= n)%Z -> int_of_digits (digits n) 0 = n.
Proof. exact digits_roundtrip. Qed.
Print Assumptions C18_digits_parse_back.

(* (6) apply_format (repaired, finding C18-K4 fixed): for EVERY presentation type
   f F e E g G n % the numbers returned are the same rounded quantities Mx * 10^ue, N * 10^ue
   in the units of the original number -- the display-only scaling by 10^E or 100 is not
   applied -- and dof is truncated.  (Before the fix this held for f F % only and
   C18_apply_format_exponent_refuted exhibited x = 1.23457 for 12345.678 with type e.) *)
Theorem C18_apply_format_original_units : forall x u df f,
  fm_nzf f = true -> fm_type f <> Tother -> 0 < u -> (1 <= rplace u (fm_u_exponent f))%Z ->
  df <= 100000#1 ->
  let ue := fm_u_exponent f in
  exists vx vu d,
    apply_format_real QOps x u df f = Ok (vx, vu, d) /\
    vx == inject_Z (rplace x ue) * p10Q ue /\
    vu == inject_Z (rplace u ue) * p10Q ue /\
    d == inject_Z (Qfloor (df * p10Q (fm_df_precision f))) * p10Q (- fm_df_precision f).
Proof. exact apply_format_real_spec. Qed.
Print Assumptions C18_apply_format_original_units.

(* the same for uncertain complex numbers: both components at the common place, r rounded to
   r_precision (within half a unit of that place), dof truncated *)
Theorem C18_apply_format_complex : forall xr ur xi ui r df f,
  fm_nzf f = true -> fm_type f <> Tother -> 0 < ur -> 0 < ui ->
  (1 <= rplace ur (fm_u_exponent f))%Z -> (1 <= rplace ui (fm_u_exponent f))%Z ->
  df <= 100000#1 ->
  let ue := fm_u_exponent f in
  exists vxr vxi vur vui rr d,
    apply_format_complex QOps (xr, ur) (xi, ui) r df f = Ok ((vxr, vxi), (vur, vui), rr, d) /\
    vxr == inject_Z (rplace xr ue) * p10Q ue /\ vur == inject_Z (rplace ur ue) * p10Q ue /\
    vxi == inject_Z (rplace xi ue) * p10Q ue /\ vui == inject_Z (rplace ui ue) * p10Q ue /\
    Qabs (rr - r) <= (1#2) * p10Q (- fm_r_precision f) /\
    d == inject_Z (Qfloor (df * p10Q (fm_df_precision f))) * p10Q (- fm_df_precision f).
Proof. exact apply_format_complex_spec. Qed.
Print Assumptions C18_apply_format_complex.

(* non-vacuity, and the former counterexample: type e now gives 12345.7, 1.2, dof 7 *)
Example C18_ex_apply_format_exponent :
  exists f,
    create_format QOps (12#10) None (plain_args 2 Te) = Ok f /\
    fm_nzf f = true /\ fm_type f <> Tother /\ (1 <= rplace (12#10) (fm_u_exponent f))%Z /\
    exists vx vu d,
      apply_format_real QOps (12345678#1000) (12#10) (789#100) f = Ok (vx, vu, d) /\
      vx == 123457#10 /\ vu == 12#10 /\ d == 7.
Proof.
  eexists. split; [vm_compute; reflexivity|]. split; [reflexivity|]. split; [discriminate|].
  split; [vm_compute; discriminate|].
  eexists. eexists. eexists. split; [vm_compute; reflexivity|]. repeat split; vm_compute; reflexivity.
Qed.

Theorem C18_truncate_dof : forall dof p,
  dof <= 100000#1 ->
  exists d, truncate_dof QOps dof p = Ok d /\
    d == inject_Z (Qfloor (dof * p10Q p)) * p10Q (- p) /\
    d <= dof /\ dof < d + p10Q (- p).
Proof. exact truncate_dof_spec. Qed.
Print Assumptions C18_truncate_dof.

(* the correlation coefficient: round(r, r_precision) is within half a unit of that place *)
Theorem C18_round_r : forall q n, Qabs (roundQ q n - q) <= (1#2) * p10Q (- n).
Proof. exact roundQ_spec. Qed.
Print Assumptions C18_round_r.

(* (7) repr: dof above inf_dof = 1e5 is shown as infinity, otherwise unchanged *)
Theorem C18_repr_dof : forall df : Q,
  (100000#1 < df -> repr_df QOps df = o_inf QOps) /\ (df <= 100000#1 -> repr_df QOps df = df).
Proof. exact repr_df_spec. Qed.
Print Assumptions C18_repr_dof.

(* (8) the float steps are where the implementation leaves the exact model (finding C18-K1,
   DESIGN section 7 #26): for format(ureal(902563.7640693213, 9.995e-07), '.5e') the binary64
   instance of the SAME model code (with the libm results recorded on the implementation)
   prints ...2137(99950)e+05, as the implementation does, while exact arithmetic on the same
   two doubles gives ...2133(99950)e+05 *)
Example C18_scaled_types_float_refuted :
  exists s_float s_exact,
    format_un (FlOps w26_log w26_p10) (w26_x, w26_u) None w26_args = Ok s_float /\
    s_float = w26_impl /\
    format_un QOps (Q_of_float w26_x, Q_of_float w26_u) None w26_args = Ok s_exact /\
    s_float <> s_exact.
Proof.
  eexists. eexists. split; [vm_compute; reflexivity|]. split; [reflexivity|].
  split; [vm_compute; reflexivity|].
  intro H. apply (f_equal (fun l => nth 17 l 0%Z)) in H. vm_compute in H. discriminate H.
Qed.
Print Assumptions C18_scaled_types_float_refuted.

(* ---------------- non-vacuity ---------------- *)
(* the carry branch is taken: u = 0.0995, digits = 2 gives place 10^-2 and N = 10 *)
Example C18_ex_carry :
  exists f, create_format QOps (995#10000) None (plain_args 2 Tf) = Ok f /\
            fm_u_exponent f = (-2)%Z /\ rplace (995#10000) (fm_u_exponent f) = 10%Z.
Proof. eexists. split; [vm_compute; reflexivity|]. split; vm_compute; reflexivity. Qed.

(* the hypotheses of C18_spec / C18_common_place hold and the text is 1.23(10), 1.23(10)e+00,
   123(10)%, -1.23(12)e+03 *)
Example C18_ex_strings :
  format_un QOps (1234#1000, 995#10000) None (plain_args 2 Tf) = Ok [49; 46; 50; 51; 40; 49; 48; 41]%Z /\
  format_un QOps (1234#1000, 995#10000) None (plain_args 2 Te) =
    Ok [49; 46; 50; 51; 40; 49; 48; 41; 101; 43; 48; 48]%Z /\
  format_un QOps (1234#1000, 995#10000) None (plain_args 2 Tpct) = Ok [49; 50; 51; 40; 49; 48; 41; 37]%Z /\
  format_un QOps (-1234#1, 123#1) None (plain_args 2 Tg) =
    Ok [45; 49; 46; 50; 51; 40; 49; 50; 41; 101; 43; 48; 51]%Z.
Proof. repeat split; vm_compute; reflexivity. Qed.

Example C18_ex_hypotheses :
  exists f, create_format QOps (995#10000) None (plain_args 2 Te) = Ok f /\
    fm_nzf f = true /\ good_type (fm_type f) /\ (1 <= rplace (995#10000) (fm_u_exponent f))%Z /\
    fm_style (init_format (plain_args 2 Te)) <> StBad.
Proof.
  eexists. split; [vm_compute; reflexivity|]. split; [reflexivity|]. split; [exact I|].
  split; [vm_compute; discriminate|discriminate].
Qed.

(* padding really pads: '*^12' around 1.23(10) *)
Example C18_ex_padding :
  result [49; 46; 50; 51; 40; 49; 48; 41]%Z
    (set_update (init_format {| a_fill := Some 42%Z; a_align := Some AlCenter; a_sign := None; a_hash := false;
       a_zero := false; a_width := Some 12%Z; a_grouping := None; a_precision := None; a_type := None;
       a_style := None; a_digits := None; a_df_precision := None; a_r_precision := None |}) 0 0 true)
  = Ok [42; 42; 49; 46; 50; 51; 40; 49; 48; 41; 42; 42]%Z.
Proof. vm_compute. reflexivity. Qed.

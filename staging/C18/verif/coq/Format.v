(* Format.v -- executable model of GTC/formatting.py (create_format/_update_format, _round,
   _round_ureal, _to_string_ureal, to_string, _stylize, Format._result/_value, apply_format,
   _truncate_dof) and of UncertainReal.__repr__/__str__/__format__ (GTC/lib.py).

   The code is written ONCE, parametric in a record [FOps] of number operations.  It is run
   with binary64 floats (FormatF.v: exact IEEE arithmetic, exact decimal conversion, libm
   log10 and 10.**e from tables recorded on the implementation) against the real GTC, string
   for string, and reasoned about with exact rationals (FormatQ.v / FormatFacts.v).
   Strings are lists of Unicode code points ([list Z]).  Python exceptions are [Err] values.
   Parts of formatting.py that are outside property C18's domain (u = 0, non-finite x or u,
   locale type 'n', plain float/complex arguments of to_string) return
   [Err NotImplementedError]: the model refuses, it does not invent behaviour. *)
From Coq Require Import ZArith List Bool.
From GTCV Require Import Num.
Import ListNotations.
Local Open Scope Z_scope.

(* ------------------------------------------------------------------ number interface *)
Record FOps := {
  FT : Type;
  o_is_zero : FT -> bool;          (* v == 0 *)
  o_nonfinite : FT -> bool;        (* math.isinf(v) or math.isnan(v) *)
  o_is_nan : FT -> bool;
  o_abs : FT -> FT;                (* math.fabs *)
  o_ltb : FT -> FT -> bool;        (* a < b *)
  o_signbit : FT -> bool;          (* a '-' is printed *)
  o_one : FT;                      (* 1.0 *)
  o_c001 : FT;                     (* the literal 0.01 *)
  o_inf : FT;
  o_inf_dof : FT;                  (* GTC.inf_dof = 1e5 *)
  o_oom : FT -> res Z;             (* int(math.floor(math.log10(math.fabs(v)))), v != 0 *)
  o_round : FT -> Z -> res FT;     (* round(v, n) *)
  o_p10 : Z -> res FT;             (* 10. ** e *)
  o_div : FT -> FT -> res FT;      (* v / w *)
  o_mul : FT -> FT -> FT;          (* v * w *)
  o_rint : FT -> res Z;            (* round(v) : int *)
  o_floor : FT -> res Z;           (* math.floor(v) : int *)
  o_of_int : Z -> res FT;          (* float(n) *)
  o_scaled : FT -> Z -> Z          (* the digits '%.{p}f' prints: |v|*10^p rounded half-even, p >= 0 *)
}.

(* ------------------------------------------------------------------ strings *)
(* string literals are written as code-point lists; the text is in the comment beside each *)

Fixpoint digits_fuel (fuel : nat) (n : Z) (acc : list Z) : list Z :=
  match fuel with
  | O => acc
  | S f => let acc' := (48 + n mod 10) :: acc in
           if n <? 10 then acc' else digits_fuel f (n / 10) acc'
  end.
(* decimal digits of n >= 0, most significant first (str(n)) *)
Definition digits (n : Z) : list Z := digits_fuel (S (Z.to_nat (Z.log2 n))) n [].

Fixpoint repeat_z (c : Z) (n : nat) : list Z :=
  match n with O => [] | S k => c :: repeat_z c k end.

Definition zlen (l : list Z) : Z := Z.of_nat (length l).

(* insert the grouping character every three digits counted from the right *)
Fixpoint group_rev (sep : Z) (rev_digits : list Z) (k : nat) : list Z :=
  match rev_digits with
  | [] => []
  | d :: r => match k with
              | 3%nat => sep :: d :: group_rev sep r 1
              | _ => d :: group_rev sep r (S k)
              end
  end.
Definition group (sep : option Z) (ds : list Z) : list Z :=
  match sep with None => ds | Some c => rev (group_rev c (rev ds) 0) end.

(* ------------------------------------------------------------------ format fields *)
Inductive ty := Tf | TF | Te | TE | Tg | TG | Tn | Tpct | Tother.   (* Tother: b c d o s x X *)
Inductive sgn := SgNone | SgPlus | SgMinus | SgSpace.
Inductive algn := AlLeft | AlRight | AlEq | AlCenter.
Inductive sty := StNone | StL | StU | StBad.

Record fmt := {
  fm_fill : option Z; fm_align : option algn; fm_sign : sgn; fm_hash : bool; fm_zero : bool;
  fm_width : option Z; fm_grouping : option Z;
  fm_precision : Z; fm_type : ty; fm_style : sty;
  fm_digits : Z; fm_u_exponent : Z; fm_df_precision : Z; fm_r_precision : Z;
  fm_nzf : bool                    (* _nonzero_and_finite *)
}.

Definition set_update (f : fmt) (p ue : Z) (nzf : bool) : fmt :=
  {| fm_fill := fm_fill f; fm_align := fm_align f; fm_sign := fm_sign f; fm_hash := fm_hash f;
     fm_zero := fm_zero f; fm_width := fm_width f; fm_grouping := fm_grouping f;
     fm_precision := p; fm_type := fm_type f; fm_style := fm_style f; fm_digits := fm_digits f;
     fm_u_exponent := ue; fm_df_precision := fm_df_precision f; fm_r_precision := fm_r_precision f;
     fm_nzf := nzf |}.

Definition set_type (f : fmt) (t : ty) : fmt :=
  {| fm_fill := fm_fill f; fm_align := fm_align f; fm_sign := fm_sign f; fm_hash := fm_hash f;
     fm_zero := fm_zero f; fm_width := fm_width f; fm_grouping := fm_grouping f;
     fm_precision := fm_precision f; fm_type := t; fm_style := fm_style f; fm_digits := fm_digits f;
     fm_u_exponent := fm_u_exponent f; fm_df_precision := fm_df_precision f;
     fm_r_precision := fm_r_precision f; fm_nzf := fm_nzf f |}.

(* the keyword arguments of create_format (None = argument absent / regex group unmatched) *)
Record fargs := {
  a_fill : option Z; a_align : option algn; a_sign : option sgn; a_hash : bool; a_zero : bool;
  a_width : option Z; a_grouping : option Z; a_precision : option Z; a_type : option ty;
  a_style : option sty; a_digits : option Z; a_df_precision : option Z; a_r_precision : option Z
}.

Definition dflt {A} (o : option A) (d : A) : A := match o with Some a => a | None => d end.

(* Format.__init__ as called from create_format *)
Definition init_format (a : fargs) : fmt :=
  let digits := match a_digits a with Some d => Some d | None => a_precision a end in
  {| fm_fill := a_fill a; fm_align := a_align a; fm_sign := dflt (a_sign a) SgNone;
     fm_hash := a_hash a; fm_zero := a_zero a; fm_width := a_width a; fm_grouping := a_grouping a;
     fm_precision := dflt (a_precision a) 2; fm_type := dflt (a_type a) Tf;
     fm_style := dflt (a_style a) StNone; fm_digits := dflt digits 2; fm_u_exponent := 0;
     fm_df_precision := dflt (a_df_precision a) 0; fm_r_precision := dflt (a_r_precision a) 3;
     fm_nzf := true |}.

Section Model.
Variable O : FOps.
Notation T := (FT O).

(* Python's max(a, b) / min(a, b) on two floats *)
Definition pymax (a b : T) : T := if o_ltb O a b then b else a.
Definition pymin (a b : T) : T := if o_ltb O b a then b else a.

(* _order_of_magnitude *)
Definition order_of_magnitude (v : T) : res Z :=
  if o_is_zero O v then Ok 0 else o_oom O v.

(* _update_format; [ui] is the imaginary-part uncertainty for complex / StandardUncertainty *)
Definition update_format (ur : T) (ui : option T) (f : fmt) : res fmt :=
  let u := match ui with
           | None => ur
           | Some ui => let m := pymin ur ui in if o_is_zero O m then pymax ur ui else m
           end in
  if o_is_zero O u || o_nonfinite O u then Ok (set_update f (fm_digits f) (fm_u_exponent f) false)
  else
    e <- order_of_magnitude u ;;
    let p := if 0 <=? e - fm_precision f + 1 then 0 else fm_precision f - e + 1 in
    let ue := e - fm_digits f + 1 in
    rounded <- o_round O u (- ue) ;;
    er <- order_of_magnitude rounded ;;
    let ue := if e <? er then ue + 1 else ue in
    Ok (set_update f p ue true).

(* create_format(obj, digits=..., df_precision=..., r_precision=..., style=..., **kwargs) *)
Definition create_format (ur : T) (ui : option T) (a : fargs) : res fmt :=
  f <- update_format ur ui (init_format a) ;;
  match fm_style f with
  | StBad => Err ValueError
  | _ =>
    if fm_digits f <=? 0 then Err ValueError
    else match fm_type f, fm_grouping f with
         | Tn, Some _ => Err ValueError
         | _, _ => Ok f
         end
  end.

(* ---- Format._value for the finite values and types 'f'/'F' the rounding code produces ---- *)
Definition sign_text (neg : bool) (s : sgn) : list Z :=
  if neg then [45] else match s with SgPlus => [43] | SgSpace => [32] | _ => [] end.

Definition pad_zeros (k : nat) (ds : list Z) : list Z :=
  repeat_z 48 (k - length ds) ++ ds.

(* '{0:{sign}{hash}{grouping}.{precision}f}'.format(v)  for finite v *)
Definition fixed_text (neg : bool) (n : Z) (p : Z) (s : sgn) (hash : bool) (grp : option Z) : list Z :=
  let pn := Z.to_nat p in
  let ds := pad_zeros (S pn) (digits n) in
  let ip := firstn (length ds - pn) ds in
  let fp := skipn (length ds - pn) ds in
  sign_text neg s ++ group grp ip ++
  (if 0 <? p then 46 :: fp else if hash then [46] else []).

Definition value_text (v : T) (p : Z) (t : ty) (s : sgn) (hash : bool) (grp : option Z) : res (list Z) :=
  match t with
  | Tf | TF =>
      if p <? 0 then Err ValueError
      else if o_nonfinite O v then
        (* an overflowed quotient (x / 0.01): Python prints inf / INF (nan / NAN) with the sign *)
        let up := match t with TF => true | _ => false end in
        if o_is_nan O v then
          Ok (sign_text false s ++ (if up then [78; 65; 78] else [110; 97; 110]))
        else
          Ok (sign_text (o_signbit O v) s ++ (if up then [73; 78; 70] else [105; 110; 102]))
      else Ok (fixed_text (o_signbit O v) (o_scaled O v p) p s hash grp)
  | Tn => Err NotImplementedError
  | Tother => Err ValueError
  | _ => Err NotImplementedError      (* e/g never reach Format._value in the finite branch *)
  end.

(* ---- _round ---- *)
Record rounded := { r_value : T; r_precision : Z; r_type : ty; r_exponent : Z; r_suffix : list Z }.

Definition two_digits (n : Z) : list Z := pad_zeros 2 (digits n).
(* '{0:.0e}'.format(10.**e)[1:]  ==  e+XX *)
Definition exp_suffix_e (c : Z) (e : Z) : list Z :=
  c :: (if e <? 0 then 45 else 43) :: two_digits (Z.abs e).
(* '{0:.0g}'.format(10.**e)[1:] *)
Definition exp_suffix_g (c : Z) (e : Z) : list Z :=
  if (e =? 0) then []
  else if (-4 <=? e) && (e <? 0) then 46 :: repeat_z 48 (Z.to_nat (- e - 1)) ++ [49]
  else exp_suffix_e c e.

Definition is_fF (t : ty) := match t with Tf | TF => true | _ => false end.
Definition is_gGn (t : ty) := match t with Tg | TG | Tn => true | _ => false end.

Definition round_ (v : T) (f : fmt) (ex : option Z) : res rounded :=
  if negb (fm_nzf f) || o_nonfinite O v then
    Ok {| r_value := v; r_precision := fm_precision f; r_type := fm_type f; r_exponent := 0; r_suffix := [] |}
  else
    e <- match ex with Some e => Ok e | None => order_of_magnitude v end ;;
    let t := fm_type f in
    let ue := fm_u_exponent f in
    let as_f := is_fF t || (is_gGn t && (-4 <=? e) && (e <? e - ue)) in
    '(factor, dg, p, sfx) <-
      (if as_f then Ok (o_one O, - ue, Z.max (- ue) 0, [])
       else match t with
            | Tpct => Ok (o_c001 O, - ue - 2, Z.max (- ue - 2) 0, [37])
            | _ =>
              factor <- o_p10 O e ;;
              let d := Z.max (e - ue) 0 in
              sfx <- match t with
                     | Te => Ok (exp_suffix_e 101 e) | TE => Ok (exp_suffix_e 69 e)
                     | Tg => Ok (exp_suffix_g 101 e) | TG => Ok (exp_suffix_g 69 e)
                     | Tn => Err NotImplementedError
                     | _ => Err ValueError
                     end ;;
              Ok (factor, d, d, sfx)
            end) ;;
    let t' := match t with Te | Tg | Tpct => Tf | TE | TG => TF | _ => t end in
    q <- o_div O v factor ;;
    val <- o_round O q dg ;;
    Ok {| r_value := val; r_precision := p; r_type := t'; r_exponent := e; r_suffix := sfx |}.

(* _round_ureal *)
Definition round_ureal (x u : T) (f : fmt) : res (rounded * rounded) :=
  maximum <- o_round O (pymax (o_abs O x) u) (- fm_u_exponent f) ;;
  r <- round_ maximum f None ;;
  xr <- round_ x f (Some (r_exponent r)) ;;
  ur <- round_ u f (Some (r_exponent r)) ;;
  Ok (xr, ur).

(* _to_string_ureal (sign = None means "use fmt._sign") *)
Definition to_string_ureal (x u : T) (f : fmt) (s : option sgn) : res (list Z) :=
  if o_is_zero O u then Err NotImplementedError
  else if o_nonfinite O x || o_nonfinite O u then Err NotImplementedError
  else
    '(xr, ur) <- round_ureal x u f ;;
    let u_r := r_value ur in
    oom <- order_of_magnitude u_r ;;
    let p := r_precision xr in
    let sg := dflt s (fm_sign f) in
    u_str <-
      (if (0 <? p) && (0 <=? oom) then value_text u_r p (r_type ur) SgNone (fm_hash f) (fm_grouping f)
       else
         let '(hash_, type_) :=
            if oom <? 0 then (if fm_hash f then (false, r_type ur) else (fm_hash f, Tf))
            else (fm_hash f, r_type ur) in
         pw <- o_p10 O p ;;
         n <- o_rint O (o_mul O u_r pw) ;;
         v <- o_of_int O n ;;
         value_text v 0 type_ SgNone hash_ (fm_grouping f)) ;;
    x_str <- value_text (r_value xr) p (r_type xr) sg (fm_hash f) (fm_grouping f) ;;
    Ok (x_str ++ [40] ++ u_str ++ [41] ++ r_suffix xr).

(* ---- _stylize ---- *)
Definition is_digit (c : Z) : bool := (48 <=? c) && (c <=? 57).
Fixpoint take_digits (l : list Z) : list Z * list Z :=
  match l with
  | c :: r => if is_digit c then let '(d, r') := take_digits r in (c :: d, r') else ([], l)
  | [] => ([], [])
  end.
Fixpoint int_of_digits (ds : list Z) (acc : Z) : Z :=
  match ds with [] => acc | c :: r => int_of_digits r (10 * acc + (c - 48)) end.

(* first match of [eE][+-]\d+ : (text before, sign char, digits, text after) *)
Fixpoint find_exponent (l : list Z) : option (list Z * Z * list Z * list Z) :=
  match l with
  | [] => None
  | c :: r =>
    let here :=
      if (c =? 101) || (c =? 69) then
        match r with
        | s :: r' => if (s =? 43) || (s =? 45) then
                       match take_digits r' with
                       | ([], _) => None
                       | (d, rest) => Some ([], s, d, rest)
                       end
                     else None
        | [] => None
        end
      else None in
    match here with
    | Some m => Some m
    | None => match find_exponent r with
              | Some (pre, s, d, rest) => Some (c :: pre, s, d, rest)
              | None => None
              end
    end
  end.

Definition superscript (c : Z) : Z :=
  if c =? 43 then 8314 else if c =? 45 then 8315 else if c =? 48 then 8304 else if c =? 49 then 185
  else if c =? 50 then 178 else if c =? 51 then 179 else if (52 <=? c) && (c <=? 57) then 8308 + (c - 52)
  else c.

(* str(int) *)
Definition int_text (n : Z) : list Z := (if n <? 0 then [45] else []) ++ digits (Z.abs n).

Fixpoint replace_char (c : Z) (by_ : list Z) (l : list Z) : list Z :=
  match l with [] => [] | d :: r => (if d =? c then by_ else [d]) ++ replace_char c by_ r end.

Definition stylize (text : list Z) (f : fmt) : list Z :=
  match fm_style f, text with
  | StNone, _ => text
  | _, [] => text
  | st, _ =>
    let m := find_exponent text in
    let expn := match m with
                | Some (_, s, d, _) => let n := int_of_digits d 0 in if s =? 45 then - n else n
                | None => 0 end in
    let exponent :=
      match m, st with
      | Some _, StU => if expn =? 0 then [] else [215; 49; 48] ++ map superscript (int_text expn)
      | Some _, StL => if expn =? 0 then [] else [92; 116; 105; 109; 101; 115; 49; 48; 94; 123] (* \times10^{ *) ++ int_text expn ++ [125]
      | _, _ => []
      end in
    let text' := match m with Some (pre, _, _, rest) => pre ++ exponent ++ rest | None => text end in
    match st with
    | StL => replace_char 37 ([92; 37] (* \% *))
               (replace_char 41 ([92; 114; 105; 103; 104; 116; 41] (* \right) *)) (replace_char 40 ([92; 108; 101; 102; 116; 40] (* \left( *)) text'))
    | _ => text'
    end
  end.
(* NB the LaTeX replacements 'nan'/'inf' cannot fire on the finite branch modelled here;
   '(' ')' '%' are single characters not produced by each other's replacement except that
   "\left(" contains '(' -- Python's str.replace is sequential, '(' is replaced first and the
   later replacements look for ')' and '%' only, so char-wise replacement in this order agrees. *)

(* ---- Format._result: '{fill}{align}{zero}{width}s' applied to a str ---- *)
Definition result (text : list Z) (f : fmt) : res (list Z) :=
  match fm_fill f, fm_align f with
  | Some _, None => Err ValueError                 (* '*20s' : invalid format specifier *)
  | _, Some AlEq => Err ValueError                 (* '=' alignment not allowed in string format specifier *)
  | fl, al =>
    match fm_width f with
    | None => Ok text
    | Some w =>
      let fillc := match fl with Some c => c | None => if fm_zero f then 48 else 32 end in
      let n := Z.to_nat (w - zlen text) in
      match al with
      | Some AlRight => Ok (repeat_z fillc n ++ text)
      | Some AlCenter => let l := Nat.div n 2 in Ok (repeat_z fillc l ++ text ++ repeat_z fillc (n - l))
      | _ => Ok (text ++ repeat_z fillc n)
      end
    end
  end.

(* drop every occurrence of the percent symbol (plain '%' or LaTeX '\%'), then append one *)
Fixpoint drop_pct (latex : bool) (l : list Z) : list Z :=
  match l with
  | [] => []
  | c :: r =>
    if latex then
      match r with
      | d :: r' => if (c =? 92) && (d =? 37) then drop_pct latex r' else c :: drop_pct latex r
      | [] => [c]
      end
    else if c =? 37 then drop_pct latex r else c :: drop_pct latex r
  end.
Definition move_percent (l : list Z) (f : fmt) : list Z :=
  match fm_style f with
  | StL => drop_pct true l ++ [92; 37] (* \% *)
  | _ => drop_pct false l ++ [37]
  end.

(* to_string(un, fmt) for an uncertain real (im = None) or uncertain complex number *)
Definition to_string (re : T * T) (im : option (T * T)) (f : fmt) : res (list Z) :=
  s0 <- to_string_ureal (fst re) (snd re) f None ;;
  let r := stylize s0 f in
  r <- match im with
       | None => Ok r
       | Some (ix, iu) =>
         si <- to_string_ureal ix iu f (Some SgPlus) ;;
         let b1 := stylize [40] f in let b2 := stylize [41] f in
         let r := b1 ++ r ++ stylize si f ++ [106] ++ b2 in
         Ok (match fm_type f with Tpct => move_percent r f | _ => r end)
       end ;;
  result r f.

(* UncertainReal.__format__ / UncertainComplex.__format__:  an empty format_spec stands for
   ' .2f' (real) or '+.2f' (complex); then create_format(self, **parse(format_spec)) and
   to_string.  __str__ is create_format(self, sign=..., digits=2, type='f') + to_string, i.e.
   the same call with [a_digits := Some 2]. *)
Definition args_empty (a : fargs) : bool :=
  match a_fill a, a_align a, a_sign a, a_width a, a_grouping a, a_precision a, a_type a, a_style a with
  | None, None, None, None, None, None, None, None => negb (a_hash a) && negb (a_zero a)
  | _, _, _, _, _, _, _, _ => false
  end.

Definition default_args (cplx : bool) (a : fargs) : fargs :=
  {| a_fill := None; a_align := None; a_sign := Some (if cplx then SgPlus else SgSpace); a_hash := false;
     a_zero := false; a_width := None; a_grouping := None; a_precision := Some 2; a_type := Some Tf;
     a_style := None; a_digits := a_digits a; a_df_precision := a_df_precision a;
     a_r_precision := a_r_precision a |}.

Definition format_un (re : T * T) (im : option (T * T)) (a : fargs) : res (list Z) :=
  let cplx := match im with Some _ => true | None => false end in
  let a := if args_empty a then default_args cplx a else a in
  f <- create_format (snd re) (match im with Some (_, iu) => Some iu | None => None end) a ;;
  to_string re im f.

(* ---- apply_format ---- *)
Definition truncate_dof (dof : T) (p : Z) : res T :=
  if o_nonfinite O dof then Ok dof
  else if o_ltb O (o_inf_dof O) dof then Ok (o_inf O)
  else
    factor <- o_p10 O (- p) ;;
    q <- o_div O dof factor ;;
    n <- o_floor O q ;;
    nf <- o_of_int O n ;;
    o_round O (o_mul O factor nf) p.

(* apply_format replaces the display-only types % e E g G n by f: the numbers it returns are
   in the units of the uncertain number (fix of finding C18-K4) *)
Definition apply_type (f : fmt) : fmt :=
  match fm_type f with
  | Tpct | Te | TE | Tg | TG | Tn => set_type f Tf
  | _ => f
  end.

Definition apply_format_real (x u df : T) (f : fmt) : res (T * T * T) :=
  let f := apply_type f in
  '(xr, ur) <- round_ureal x u f ;;
  dof <- truncate_dof df (fm_df_precision f) ;;
  xv <- (if fm_nzf f then Ok (r_value xr) else o_round O (r_value xr) (r_precision xr)) ;;
  Ok (xv, r_value ur, dof).

Definition apply_format_complex (re im : T * T) (r df : T) (f : fmt) : res ((T * T) * (T * T) * T * T) :=
  let f := apply_type f in
  '(rx, ru) <- round_ureal (fst re) (snd re) f ;;
  '(ix, iu) <- round_ureal (fst im) (snd im) f ;;
  dof <- truncate_dof df (fm_df_precision f) ;;
  rr <- o_round O r (fm_r_precision f) ;;
  rv <- (if fm_nzf f then Ok (r_value rx) else o_round O (r_value rx) (r_precision rx)) ;;
  iv <- (if fm_nzf f then Ok (r_value ix) else o_round O (r_value ix) (r_precision ix)) ;;
  Ok ((rv, iv), (r_value ru, r_value iu), rr, dof).

(* ---- UncertainReal.__repr__: the three float reprs (and the label repr) are supplied by
   [rp]; what is modelled is the dof rule and the assembly ---- *)
Definition repr_df (df : T) : T :=
  if negb (o_is_nan O df) && o_ltb O (o_inf_dof O) df then o_inf O else df.

Definition repr_ureal (rp : T -> list Z) (x u df : T) (label : option (list Z)) : list Z :=
  [117; 114; 101; 97; 108; 40] (* ureal( *) ++ rp x ++ [44] ++ rp u ++ [44] ++ rp (repr_df df) ++
  match label with None => [] | Some l => [44; 32; 108; 97; 98; 101; 108; 61] (* , label= *) ++ l end ++ [41].

End Model.

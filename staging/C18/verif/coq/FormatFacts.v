(* FormatFacts.v -- theorems about the Format.v model at the exact-arithmetic instance QOps
   (property C18).  [rplace q ue] is q counted in units of 10^ue and rounded half-even: the
   "correct rounding of q at the decimal place 10^ue". *)
From Coq Require Import ZArith QArith Qround Qabs Qpower List Bool Lia Lqa.
From GTCV Require Import Num Format FormatQ.
Import ListNotations.
Local Open Scope Q_scope.

Definition rplace (q : Q) (ue : Z) : Z := rheQ (q * p10Q (- ue)).

(* ---------------- small helpers ---------------- *)
Lemma Qeq_bool_false : forall a b, ~ a == b -> Qeq_bool a b = false.
Proof.
  intros a b H. destruct (Qeq_bool a b) eqn:E; [|reflexivity].
  apply Qeq_bool_iff in E. contradiction.
Qed.

Global Instance rheQ_comp : Proper (Qeq ==> eq) rheQ.
Proof.
  intros a b H. unfold rheQ. cbv zeta.
  assert (Hf : Qfloor a = Qfloor b) by (apply Qfloor_comp; exact H).
  rewrite Hf.
  assert (Hc : Qcompare (a - inject_Z (Qfloor b)) (1#2) = Qcompare (b - inject_Z (Qfloor b)) (1#2)).
  { apply Qcompare_comp; [|reflexivity]. rewrite H. reflexivity. }
  rewrite Hc. reflexivity.
Qed.

Global Instance rplace_comp : Proper (Qeq ==> eq ==> eq) rplace.
Proof. intros a b H c d ->. unfold rplace. rewrite H. reflexivity. Qed.

Lemma oomQ_bounds : forall v a b, 0 < v -> p10Q a <= v -> v < p10Q b -> (a <= oomQ v < b)%Z.
Proof.
  intros v a b Hv Ha Hb.
  destruct (oomQ_spec v) as [H1 H2]; [lra|].
  rewrite Qabs_pos in H1, H2 by lra.
  split.
  - assert (p10Q a < p10Q (oomQ v + 1)) by lra. apply p10Q_lt_inv in H. lia.
  - apply p10Q_lt_inv. lra.
Qed.

(* the rounded count is within half a unit, i.e. the represented value within half a place *)
Lemma rplace_spec : forall q ue,
  Qabs (inject_Z (rplace q ue) * p10Q ue - q) <= (1#2) * p10Q ue.
Proof.
  intros q ue. unfold rplace.
  pose proof (rheQ_lo (q * p10Q (- ue))) as Hl. pose proof (rheQ_hi (q * p10Q (- ue))) as Hh.
  pose proof (p10Q_pos ue) as Hp. pose proof (p10Q_cancel ue) as Hc.
  set (N := inject_Z (rheQ (q * p10Q (- ue)))) in *.
  set (a := p10Q ue) in *. set (b := p10Q (- ue)) in *.
  assert (E : q == q * b * a) by (rewrite <- Qmult_assoc, (Qmult_comm b a), Hc; ring).
  apply Qabs_Qle_condition. split.
  - assert (q * b * a - (1#2) * a <= N * a) by nra. lra.
  - assert (N * a <= q * b * a + (1#2) * a) by nra. lra.
Qed.

Lemma rplace_mono : forall a b ue, a <= b -> (rplace a ue <= rplace b ue)%Z.
Proof.
  intros a b ue H. unfold rplace. apply rheQ_mono.
  pose proof (p10Q_pos (- ue)). nra.
Qed.

Lemma roundQ_rplace : forall q ue, roundQ q (- ue) == inject_Z (rplace q ue) * p10Q ue.
Proof. intros. unfold roundQ, rplace. rewrite Z.opp_involutive. reflexivity. Qed.

Lemma p10Q_m1 : p10Q (-1) == 1#10.
Proof. reflexivity. Qed.

(* ================= (1) _update_format: the place of the uncertainty =================
   For every u > 0 and digits d >= 1 the exact model sets u_exponent so that u, correctly
   rounded at 10^u_exponent, has EXACTLY d significant digits: 10^(d-1) <= N < 10^d --
   including the carry case (0.0995 -> 0.10), which is the [e <? er] branch. *)
Theorem update_format_spec : forall (u : Q) (f : fmt),
  0 < u -> (1 <= fm_digits f)%Z ->
  exists p ue,
    update_format QOps u None f = Ok (set_update f p ue true) /\
    p10Q (fm_digits f - 1) <= inject_Z (rplace u ue) /\
    inject_Z (rplace u ue) < p10Q (fm_digits f).
Proof.
  intros u f Hu Hd.
  unfold update_format, order_of_magnitude.
  cbn [o_is_zero o_nonfinite o_oom o_round QOps bind].
  rewrite (Qeq_bool_false u 0) by lra. cbn [orb bind].
  set (d := fm_digits f) in *. set (e := oomQ u).
  set (ue0 := (e - d + 1)%Z).
  destruct (oomQ_spec u) as [He1 He2]; [lra|]. fold e in He1, He2.
  rewrite Qabs_pos in He1, He2 by lra.
  (* s = u in units of 10^ue0 lies in [10^(d-1), 10^d) *)
  assert (Hs1 : p10Q (d - 1) <= u * p10Q (- ue0)).
  { replace (d - 1)%Z with (e + - ue0)%Z by (unfold ue0; lia). rewrite p10Q_plus.
    pose proof (p10Q_pos (- ue0)). nra. }
  assert (Hs2 : u * p10Q (- ue0) < p10Q d).
  { assert (E : p10Q d == p10Q (e + 1) * p10Q (- ue0)).
    { rewrite <- p10Q_plus. replace (e + 1 + - ue0)%Z with d by (unfold ue0; lia). reflexivity. }
    rewrite E. pose proof (p10Q_pos (- ue0)). nra. }
  pose proof (roundQ_rplace u ue0) as Hr.
  set (N0 := rplace u ue0) in *.
  assert (HN1 : (10 ^ (d - 1) <= N0)%Z).
  { apply rheQ_ge_int. rewrite <- p10Q_int by lia. exact Hs1. }
  assert (HN2 : (N0 <= 10 ^ d)%Z).
  { apply rheQ_le_int. rewrite <- p10Q_int by lia. lra. }
  assert (Hpos : (0 < 10 ^ (d - 1))%Z) by (apply Z.pow_pos_nonneg; lia).
  assert (HN0 : 0 < inject_Z N0) by (change 0 with (inject_Z 0); rewrite <- Zlt_Qlt; lia).
  pose proof (p10Q_pos ue0) as Hpue.
  assert (Hrpos : 0 < roundQ u (- ue0)) by (rewrite Hr; nra).
  rewrite (Qeq_bool_false (roundQ u (- ue0)) 0) by lra. cbn [bind].
  set (er := oomQ (roundQ u (- ue0))).
  destruct (Z_lt_le_dec N0 (10 ^ d)) as [Hlt|Hge].
  - (* no carry *)
    assert (Her : (er < e + 1)%Z).
    { apply (oomQ_bounds (roundQ u (- ue0)) er (e + 1)); [lra| |].
      - destruct (oomQ_spec (roundQ u (- ue0))) as [H1 _]; [lra|]. rewrite Qabs_pos in H1 by lra. exact H1.
      - rewrite Hr. replace (e + 1)%Z with (d + ue0)%Z by (unfold ue0; lia). rewrite p10Q_plus.
        rewrite (p10Q_int d) by lia.
        assert (inject_Z N0 < inject_Z (10 ^ d)) by (rewrite <- Zlt_Qlt; exact Hlt). nra. }
    destruct (Z.ltb_spec e er) as [Hc|Hc]; [lia|].
    eexists _, ue0. split; [reflexivity|].
    fold N0. split.
    + rewrite (p10Q_int (d - 1)) by lia. rewrite <- Zle_Qle. exact HN1.
    + rewrite (p10Q_int d) by lia. rewrite <- Zlt_Qlt. exact Hlt.
  - (* carry: the rounded uncertainty is 10^(e+1) *)
    assert (HNeq : N0 = (10 ^ d)%Z) by lia.
    assert (Hreq : roundQ u (- ue0) == p10Q (e + 1)).
    { rewrite Hr, HNeq. replace (e + 1)%Z with (d + ue0)%Z by (unfold ue0; lia).
      rewrite p10Q_plus, (p10Q_int d) by lia. reflexivity. }
    assert (Her : (e + 1 <= er)%Z).
    { apply (oomQ_bounds (roundQ u (- ue0)) (e + 1) (er + 1)); [lra|lra|].
      destruct (oomQ_spec (roundQ u (- ue0))) as [_ H2]; [lra|]. rewrite Qabs_pos in H2 by lra. exact H2. }
    destruct (Z.ltb_spec e er) as [Hc|Hc]; [|lia].
    eexists _, (ue0 + 1)%Z. split; [reflexivity|].
    assert (Hk : rplace u (ue0 + 1) = (10 ^ (d - 1))%Z).
    { unfold rplace. apply rheQ_near.
      - (* s/10 > 10^(d-1) - 1/2 since s >= 10^d - 1/2 *)
        pose proof (rheQ_hi (u * p10Q (- ue0))) as Hh. fold (rplace u ue0) in Hh. fold N0 in Hh.
        rewrite HNeq in Hh.
        replace (- (ue0 + 1))%Z with (- ue0 + -1)%Z by lia. rewrite p10Q_plus, p10Q_m1.
        assert (E10 : inject_Z (10 ^ d) == inject_Z (10 ^ (d - 1)) * (10#1)).
        { replace d with (d - 1 + 1)%Z at 1 by lia. rewrite Z.pow_add_r by lia.
          rewrite inject_Z_mult. reflexivity. }
        set (k := inject_Z (10 ^ (d - 1))) in *. lra.
      - replace (- (ue0 + 1))%Z with (- ue0 + -1)%Z by lia. rewrite p10Q_plus, p10Q_m1.
        assert (E10 : p10Q d == inject_Z (10 ^ (d - 1)) * (10#1)).
        { replace d with (d - 1 + 1)%Z at 1 by lia. rewrite p10Q_plus, (p10Q_int (d - 1)) by lia. reflexivity. }
        set (k := inject_Z (10 ^ (d - 1))) in *. lra. }
    rewrite Hk. split.
    + rewrite (p10Q_int (d - 1)) by lia. lra.
    + rewrite (p10Q_int d) by lia. rewrite <- Zlt_Qlt.
      apply Z.pow_lt_mono_r; lia.
Qed.

(* ================= (2) _round / _round_ureal: value and uncertainty share one place ======= *)
Definition good_type (t : ty) : Prop := match t with Tn | Tother => False | _ => True end.
Definition as_f_of (t : ty) (ue E : Z) : bool := is_fF t || (is_gGn t && (-4 <=? E)%Z && (E <? E - ue)%Z).
Definition shift_of (t : ty) (ue E : Z) : Z := if as_f_of t ue E then 0%Z else match t with Tpct => (-2)%Z | _ => E end.
Definition suffix_of (t : ty) (ue E : Z) : list Z :=
  if as_f_of t ue E then [] else
  match t with Tpct => [37%Z] | Te => exp_suffix_e 101 E | TE => exp_suffix_e 69 E
             | Tg => exp_suffix_g 101 E | TG => exp_suffix_g 69 E | _ => [] end.
Definition rtype_of (t : ty) : ty := match t with Te | Tg | Tpct => Tf | TE | TG => TF | _ => t end.

Global Instance roundQ_comp : Proper (Qeq ==> eq ==> Qeq) roundQ.
Proof. intros a b H n m ->. unfold roundQ. rewrite H. reflexivity. Qed.

Lemma p10Q_neq0 : forall e, ~ p10Q e == 0.
Proof. intro e. pose proof (p10Q_pos e). lra. Qed.

Lemma round_val : forall v sh ue,
  roundQ (v / p10Q sh) (sh - ue) == inject_Z (rplace v ue) * p10Q (ue - sh).
Proof.
  intros v sh ue. unfold roundQ, rplace.
  replace (- (sh - ue))%Z with (ue - sh)%Z by lia.
  assert (E : v / p10Q sh * p10Q (sh - ue) == v * p10Q (- ue)).
  { replace (sh - ue)%Z with (sh + - ue)%Z by lia. rewrite p10Q_plus.
    field. apply p10Q_neq0. }
  rewrite E. reflexivity.
Qed.

Lemma round_Q : forall v f E,
  fm_nzf f = true -> good_type (fm_type f) -> (fm_u_exponent f <= E)%Z ->
  exists val, round_ QOps v f (Some E) =
    Ok {| r_value := val;
          r_precision := Z.max (shift_of (fm_type f) (fm_u_exponent f) E - fm_u_exponent f) 0;
          r_type := rtype_of (fm_type f);
          r_exponent := E; r_suffix := suffix_of (fm_type f) (fm_u_exponent f) E |} /\
    val == inject_Z (rplace v (fm_u_exponent f)) *
           p10Q (fm_u_exponent f - shift_of (fm_type f) (fm_u_exponent f) E).
Proof.
  intros v f E Hnzf Hgt HE.
  unfold round_. rewrite Hnzf. cbn [negb orb o_nonfinite QOps bind].
  set (ue := fm_u_exponent f) in *.
  unfold shift_of, suffix_of.
  assert (Hp : forall e, Qeq_bool (p10Q e) 0 = false) by (intro; apply Qeq_bool_false, p10Q_neq0).
  assert (Hone : forall a, roundQ (a / 1) (- ue) == inject_Z (rplace a ue) * p10Q (ue - 0)).
  { intro a. change 1 with (p10Q 0). rewrite <- (round_val a 0 ue).
    replace (0 - ue)%Z with (- ue)%Z by lia. reflexivity. }
  assert (Hpct : forall a, roundQ (a / (1#100)) (- ue - 2) == inject_Z (rplace a ue) * p10Q (ue - -2)).
  { intro a. change (1#100) with (p10Q (-2)). rewrite <- (round_val a (-2) ue).
    replace (-2 - ue)%Z with (- ue - 2)%Z by lia. reflexivity. }
  assert (Hexp : forall a, roundQ (a / p10Q E) (Z.max (E - ue) 0) == inject_Z (rplace a ue) * p10Q (ue - E)).
  { intro a. rewrite Z.max_l by lia. apply round_val. }
  destruct (fm_type f) eqn:Ht; simpl in Hgt; try contradiction;
    unfold as_f_of; cbn [is_fF is_gGn orb andb];
    try (destruct ((-4 <=? E)%Z && (E <? E - ue)%Z));
    cbn [bind o_one o_div o_round o_c001 o_p10 QOps];
    rewrite ?Hp; try change (Qeq_bool 1 0) with false; try change (Qeq_bool (1#100) 0) with false;
    cbn [bind rtype_of];
    eexists; (split; [ try replace (0 - ue)%Z with (- ue)%Z by lia;
                       try replace (-2 - ue)%Z with (- ue - 2)%Z by lia; reflexivity
                     | match goal with
                       | |- roundQ (_ / p10Q _) _ == _ => apply Hexp
                       | |- roundQ (_ / (1#100)) _ == _ => apply Hpct
                       | |- roundQ (_ / 1) _ == _ => apply Hone
                       end ]).
Qed.

Lemma round_None : forall v f, ~ v == 0 ->
  round_ QOps v f None = round_ QOps v f (Some (oomQ v)).
Proof.
  intros v f Hv. unfold round_, order_of_magnitude.
  cbn [o_is_zero o_oom QOps]. rewrite (Qeq_bool_false v 0) by exact Hv. reflexivity.
Qed.

Lemma oomQ_ge : forall v a, 0 < v -> p10Q a <= v -> (a <= oomQ v)%Z.
Proof.
  intros v a Hv Ha. destruct (oomQ_spec v) as [_ H2]; [lra|].
  rewrite Qabs_pos in H2 by lra.
  assert (p10Q a < p10Q (oomQ v + 1)) by lra. apply p10Q_lt_inv in H. lia.
Qed.

Lemma pymax_ge_r : forall a b : Q, b <= pymax QOps a b.
Proof.
  intros a b. unfold pymax. cbn [o_ltb QOps]. unfold Qltb.
  destruct (Qle_bool b a) eqn:E; cbn [negb].
  - apply Qle_bool_iff in E. exact E.
  - lra.
Qed.

(* the rounded larger of |x| and u, whose decade is the common exponent E *)
Definition maximumQ (x u : Q) (ue : Z) : Q := roundQ (pymax QOps (Qabs x) u) (- ue).

Lemma maximumQ_ge : forall x u ue, 0 < u -> (1 <= rplace u ue)%Z -> p10Q ue <= maximumQ x u ue.
Proof.
  intros x u ue Hu HN. unfold maximumQ. rewrite roundQ_rplace.
  pose proof (rplace_mono u (pymax QOps (Qabs x) u) ue (pymax_ge_r _ _)) as Hm.
  assert (H1 : inject_Z 1 <= inject_Z (rplace (pymax QOps (Qabs x) u) ue)) by (rewrite <- Zle_Qle; lia).
  change (inject_Z 1) with 1 in H1. pose proof (p10Q_pos ue). nra.
Qed.


Theorem round_ureal_spec : forall x u f,
  fm_nzf f = true -> good_type (fm_type f) -> 0 < u -> (1 <= rplace u (fm_u_exponent f))%Z ->
  let ue := fm_u_exponent f in let t := fm_type f in
  let E := oomQ (maximumQ x u ue) in let sh := shift_of t ue E in
  exists vx vu,
    round_ureal QOps x u f =
      Ok ({| r_value := vx; r_precision := Z.max (sh - ue) 0; r_type := rtype_of t;
             r_exponent := E; r_suffix := suffix_of t ue E |},
          {| r_value := vu; r_precision := Z.max (sh - ue) 0; r_type := rtype_of t;
             r_exponent := E; r_suffix := suffix_of t ue E |}) /\
    (ue <= E)%Z /\
    vx == inject_Z (rplace x ue) * p10Q (ue - sh) /\
    vu == inject_Z (rplace u ue) * p10Q (ue - sh).
Proof.
  intros x u f Hnzf Hgt Hu HN ue t E sh.
  pose proof (maximumQ_ge x u ue Hu HN) as Hmax.
  pose proof (p10Q_pos ue) as Hp.
  assert (HE : (ue <= E)%Z) by (apply oomQ_ge; lra).
  unfold round_ureal. cbn [o_round o_abs QOps bind]. fold ue. fold (maximumQ x u ue).
  rewrite round_None by lra. fold E.
  destruct (round_Q (maximumQ x u ue) f E Hnzf Hgt HE) as [vm [Hm _]].
  destruct (round_Q x f E Hnzf Hgt HE) as [vx [Hx Hvx]].
  destruct (round_Q u f E Hnzf Hgt HE) as [vu [Hu' Hvu]].
  rewrite Hm. cbn [bind r_exponent]. rewrite Hx. cbn [bind]. rewrite Hu'. cbn [bind].
  exists vx, vu. split; [reflexivity|]. split; [exact HE|]. split; assumption.
Qed.

(* ================= (3) _to_string_ureal: which integers are printed ================= *)
Lemma value_text_Q : forall v p t s hash grp, (0 <= p)%Z -> (t = Tf \/ t = TF) ->
  value_text QOps v p t s hash grp =
  Ok (fixed_text (Qltb v 0) (rheQ (Qabs v * p10Q p)) p s hash grp).
Proof.
  intros v p t s hash grp Hp [-> | ->]; unfold value_text;
    destruct (Z.ltb_spec p 0); try lia; reflexivity.
Qed.

Lemma rtype_of_fF : forall t, good_type t -> rtype_of t = Tf \/ rtype_of t = TF.
Proof. intros [] H; simpl in *; try contradiction; auto. Qed.

Lemma Qabs_inject_Z : forall m, Qabs (inject_Z m) == inject_Z (Z.abs m).
Proof. intro m. unfold Qabs, inject_Z. simpl. reflexivity. Qed.

(* v = M * 10^a printed with p decimals, a + p >= 0: the digits are those of |M| * 10^(a+p) *)
Lemma scaled_int : forall v M a p, v == inject_Z M * p10Q a -> (0 <= a + p)%Z ->
  rheQ (Qabs v * p10Q p) = (Z.abs M * 10 ^ (a + p))%Z.
Proof.
  intros v M a p Hv Hap.
  assert (E : Qabs v * p10Q p == inject_Z (Z.abs M * 10 ^ (a + p))).
  { rewrite Hv, Qabs_Qmult, Qabs_inject_Z, (Qabs_pos (p10Q a)) by (apply Qlt_le_weak, p10Q_pos).
    rewrite inject_Z_mult, <- (p10Q_int (a + p)) by assumption. rewrite p10Q_plus. ring. }
  rewrite E. apply rheQ_int.
Qed.

Lemma scaled_int_pos : forall v M a p, v == inject_Z M * p10Q a -> (0 <= M)%Z -> (0 <= a + p)%Z ->
  rheQ (v * p10Q p) = (M * 10 ^ (a + p))%Z.
Proof.
  intros v M a p Hv HM Hap.
  assert (E : v * p10Q p == inject_Z (M * 10 ^ (a + p))).
  { rewrite Hv. rewrite inject_Z_mult, <- (p10Q_int (a + p)) by assumption. rewrite p10Q_plus. ring. }
  rewrite E. apply rheQ_int.
Qed.

Lemma signbit_int : forall v M a, v == inject_Z M * p10Q a -> Qltb v 0 = (M <? 0)%Z.
Proof.
  intros v M a Hv. unfold Qltb. pose proof (p10Q_pos a) as Hp.
  destruct (Z.ltb_spec M 0) as [Hlt|Hge].
  - assert (inject_Z M < 0) by (change 0 with (inject_Z 0); rewrite <- Zlt_Qlt; exact Hlt).
    destruct (Qle_bool 0 v) eqn:E; [|reflexivity].
    apply Qle_bool_iff in E. exfalso. nra.
  - assert (0 <= inject_Z M) by (change 0 with (inject_Z 0); rewrite <- Zle_Qle; exact Hge).
    assert (Hle : 0 <= v) by nra. apply Qle_bool_iff in Hle. rewrite Hle. reflexivity.
Qed.

Theorem to_string_ureal_spec : forall x u f s,
  fm_nzf f = true -> good_type (fm_type f) -> 0 < u -> (1 <= rplace u (fm_u_exponent f))%Z ->
  let ue := fm_u_exponent f in let t := fm_type f in
  let E := oomQ (maximumQ x u ue) in let sh := shift_of t ue E in
  let p := Z.max (sh - ue) 0 in let k := Z.max (ue - sh) 0 in
  let Mx := rplace x ue in let N := rplace u ue in
  exists (pu : Z) (hash_u : bool),
    to_string_ureal QOps x u f s =
      Ok (fixed_text (Mx <? 0)%Z (Z.abs Mx * 10 ^ k) p (dflt s (fm_sign f)) (fm_hash f) (fm_grouping f)
          ++ [40%Z] ++ fixed_text false (N * 10 ^ k) pu SgNone hash_u (fm_grouping f) ++ [41%Z]
          ++ suffix_of t ue E) /\
    (pu = p \/ pu = 0%Z).
Proof.
  intros x u f s Hnzf Hgt Hu HN ue t E sh p k Mx N.
  destruct (round_ureal_spec x u f Hnzf Hgt Hu HN) as [vx [vu [Hr [HE [Hvx Hvu]]]]].
  fold ue t E sh in Hr, Hvx, Hvu, HE. fold Mx in Hvx. fold N in Hvu, HN.
  unfold to_string_ureal. cbn [o_is_zero o_nonfinite QOps orb].
  rewrite (Qeq_bool_false u 0) by lra.
  rewrite Hr. cbn [bind r_value r_precision r_type r_suffix]. fold p.
  assert (HN1 : (1 <= N)%Z) by exact HN.
  assert (Hp0 : (0 <= p)%Z) by (unfold p; lia).
  assert (Hk : (ue - sh + p = k)%Z) by (unfold p, k; lia).
  assert (Hk0 : (0 <= ue - sh + p)%Z) by (unfold p; lia).
  assert (Hk1 : (0 <= k)%Z) by (unfold k; lia).
  pose proof (p10Q_pos (ue - sh)) as Hpp.
  assert (HNq : 1 <= inject_Z N) by (change 1 with (inject_Z 1); rewrite <- Zle_Qle; exact HN).
  assert (Hvupos : 0 < vu) by (rewrite Hvu; nra).
  unfold order_of_magnitude. cbn [o_is_zero o_oom QOps].
  rewrite (Qeq_bool_false vu 0) by lra. cbn [bind].
  pose proof (rtype_of_fF t Hgt) as Hty.
  (* the value text *)
  assert (Hxs : value_text QOps vx p (rtype_of t) (dflt s (fm_sign f)) (fm_hash f) (fm_grouping f) =
                Ok (fixed_text (Mx <? 0)%Z (Z.abs Mx * 10 ^ k) p (dflt s (fm_sign f)) (fm_hash f) (fm_grouping f))).
  { rewrite value_text_Q by assumption.
    rewrite (signbit_int vx Mx (ue - sh) Hvx).
    rewrite (scaled_int vx Mx (ue - sh) p Hvx) by exact Hk0. rewrite Hk. reflexivity. }
  destruct ((0 <? p)%Z && (0 <=? oomQ vu)%Z) eqn:Hst.
  - (* the uncertainty straddles the decimal point: printed with p decimals *)
    rewrite value_text_Q by assumption. cbn [bind].
    rewrite Hxs. cbn [bind].
    rewrite (signbit_int vu N (ue - sh) Hvu).
    rewrite (scaled_int vu N (ue - sh) p Hvu) by exact Hk0. rewrite Hk.
    destruct (Z.ltb_spec N 0); [lia|]. rewrite (Z.abs_eq N) by lia.
    exists p, (fm_hash f). split; [reflexivity|left; reflexivity].
  - (* printed as an integer count of the last place *)
    cbn [o_p10 o_rint o_mul o_of_int QOps bind].
    rewrite (scaled_int_pos vu N (ue - sh) p Hvu) by (try exact Hk0; lia). rewrite Hk.
    set (hu := if (oomQ vu <? 0)%Z then if fm_hash f then (false, rtype_of t) else (fm_hash f, Tf)
               else (fm_hash f, rtype_of t)).
    assert (Hhu : snd hu = Tf \/ snd hu = TF).
    { unfold hu. destruct (oomQ vu <? 0)%Z; [destruct (fm_hash f)|]; simpl; auto. }
    destruct hu as [hash_ type_] eqn:Ehu. simpl in Hhu.
    rewrite value_text_Q by (try lia; assumption). cbn [bind].
    rewrite Hxs. cbn [bind].
    assert (Hn0 : (0 <= N * 10 ^ k)%Z) by (apply Z.mul_nonneg_nonneg; [lia|apply Z.pow_nonneg; lia]).
    assert (Hs0 : Qltb (inject_Z (N * 10 ^ k)) 0 = false).
    { rewrite (signbit_int (inject_Z (N * 10 ^ k)) (N * 10 ^ k) 0) by (rewrite p10Q_0; ring).
      destruct (Z.ltb_spec (N * 10 ^ k) 0); [lia|reflexivity]. }
    rewrite Hs0.
    rewrite (scaled_int (inject_Z (N * 10 ^ k)) (N * 10 ^ k) 0 0) by (try lia; rewrite p10Q_0; ring).
    rewrite (Z.abs_eq (N * 10 ^ k)) by lia. simpl (10 ^ (0 + 0))%Z. rewrite Z.mul_1_r.
    exists 0%Z, hash_. split; [reflexivity|right; reflexivity].
Qed.

(* what the printed integers denote: value = Mx * 10^ue, uncertainty = N * 10^ue *)
Lemma shorthand_denotes : forall (M ue sh : Z),
  let p := Z.max (sh - ue) 0 in let k := Z.max (ue - sh) 0 in
  inject_Z (M * 10 ^ k) * p10Q (- p) * p10Q sh == inject_Z M * p10Q ue.
Proof.
  intros M ue sh p k. rewrite inject_Z_mult, <- (p10Q_int k) by (unfold k; lia).
  rewrite <- !Qmult_assoc, <- !p10Q_plus.
  replace (k + (- p + sh))%Z with ue by (unfold p, k; lia). reflexivity.
Qed.

(* ================= (4) fill / align / width / zero only pad ================= *)
Lemma repeat_z_length : forall c n, length (repeat_z c n) = n.
Proof. induction n; simpl; congruence. Qed.

Theorem result_pads : forall text f out,
  result text f = Ok out ->
  exists (c : Z) (l r : nat),
    out = repeat_z c l ++ text ++ repeat_z c r /\
    (l + r)%nat = match fm_width f with
                  | Some w => Z.to_nat (w - zlen text)
                  | None => 0%nat
                  end.
Proof.
  intros text f out H. unfold result in H.
  destruct (fm_fill f) as [fc|], (fm_align f) as [[]|], (fm_width f) as [w|];
    try discriminate H;
    (assert (E : forall a b : list Z, @Ok (list Z) a = Ok b -> a = b) by (intros a b H0; congruence));
    apply E in H; subst out; cbv zeta.
  all: match goal with
       | |- exists c l r, repeat_z ?a ?n ++ ?t ++ repeat_z ?a ?m = _ /\ _ =>
           exists a, n, m; split; [reflexivity|];
           match goal with |- (?x + (?N - ?x))%nat = ?N =>
             assert (x <= N)%nat by (apply Nat.div_le_upper_bound; lia); lia end
       | |- exists c l r, repeat_z ?a ?n ++ ?t = _ /\ _ =>
           exists a, n, 0%nat; simpl; rewrite app_nil_r, Nat.add_0_r; split; reflexivity
       | |- exists c l r, ?t ++ repeat_z ?a ?n = _ /\ _ =>
           exists a, 0%nat, n; split; reflexivity
       | |- exists c l r, ?t = _ /\ _ =>
           exists 32%Z, 0%nat, 0%nat; simpl; rewrite app_nil_r; split; reflexivity
       end.
Qed.

(* the sign option only selects the sign character in front of the value *)
Lemma fixed_text_sign : forall neg n p s hash grp,
  fixed_text neg n p s hash grp = sign_text neg s ++ fixed_text false n p SgNone hash grp.
Proof. intros. unfold fixed_text. simpl. reflexivity. Qed.

(* ================= (5) apply_format, _truncate_dof ================= *)
Lemma roundQ_spec : forall q n, Qabs (roundQ q n - q) <= (1#2) * p10Q (- n).
Proof.
  intros q n. pose proof (rplace_spec q (- n)) as H. rewrite <- roundQ_rplace in H.
  rewrite Z.opp_involutive in H. exact H.
Qed.

Theorem truncate_dof_spec : forall dof p,
  dof <= 100000#1 ->
  exists d, truncate_dof QOps dof p = Ok d /\
    d == inject_Z (Qfloor (dof * p10Q p)) * p10Q (- p) /\
    d <= dof /\ dof < d + p10Q (- p).
Proof.
  intros dof p Hd. unfold truncate_dof. cbn [o_nonfinite o_ltb o_inf_dof o_p10 o_div o_floor o_of_int o_mul o_round QOps bind].
  unfold Qltb. assert (Hle : Qle_bool dof (100000#1) = true) by (apply Qle_bool_iff; exact Hd).
  rewrite Hle. cbn [negb].
  rewrite (Qeq_bool_false (p10Q (- p)) 0) by apply p10Q_neq0. cbn [bind].
  assert (Eq : dof / p10Q (- p) == dof * p10Q p).
  { pose proof (p10Q_cancel p) as Hc. pose proof (p10Q_neq0 (- p)) as Hn.
    setoid_replace (dof * p10Q p) with (dof * p10Q p * p10Q (- p) / p10Q (- p))
      by (rewrite Qdiv_mult_l; [reflexivity|exact Hn]).
    rewrite <- Qmult_assoc, Hc, Qmult_1_r. reflexivity. }
  assert (Ef : Qfloor (dof / p10Q (- p)) = Qfloor (dof * p10Q p)) by (apply Qfloor_comp; exact Eq).
  rewrite Ef. set (n := Qfloor (dof * p10Q p)).
  eexists. split; [reflexivity|].
  assert (Er : roundQ (p10Q (- p) * inject_Z n) p == inject_Z n * p10Q (- p)).
  { unfold roundQ.
    assert (E : p10Q (- p) * inject_Z n * p10Q p == inject_Z n).
    { pose proof (p10Q_cancel p) as Hc. rewrite (Qmult_comm (p10Q (- p))), <- Qmult_assoc, (Qmult_comm (p10Q (- p))), Hc. ring. }
    rewrite E, rheQ_int. reflexivity. }
  split; [exact Er|].
  rewrite Er. pose proof (Qfloor_le (dof * p10Q p)) as F1. pose proof (Qlt_floor (dof * p10Q p)) as F2.
  fold n in F1, F2. rewrite inject_Z_plus in F2. change (inject_Z 1) with 1 in F2.
  pose proof (p10Q_pos (- p)) as Hp. pose proof (p10Q_cancel p) as Hc.
  assert (Edof : dof == dof * p10Q p * p10Q (- p)) by (rewrite <- Qmult_assoc, Hc; ring).
  split.
  - assert (inject_Z n * p10Q (- p) <= dof * p10Q p * p10Q (- p)) by nra. lra.
  - assert (dof * p10Q p * p10Q (- p) < (inject_Z n + 1) * p10Q (- p)) by nra. lra.
Qed.

(* apply_type: every presentation type except the integer ones becomes f (or stays F) *)
Lemma apply_type_props : forall f, fm_type f <> Tother ->
  fm_nzf (apply_type f) = fm_nzf f /\ fm_u_exponent (apply_type f) = fm_u_exponent f /\
  fm_df_precision (apply_type f) = fm_df_precision f /\ fm_r_precision (apply_type f) = fm_r_precision f /\
  (fm_type (apply_type f) = Tf \/ fm_type (apply_type f) = TF).
Proof.
  intros f Ht. unfold apply_type.
  destruct (fm_type f) eqn:E; try (exfalso; apply Ht; reflexivity); simpl; rewrite ?E; auto 6.
Qed.

Lemma round_ureal_fixed : forall x u f,
  fm_nzf f = true -> (fm_type f = Tf \/ fm_type f = TF) -> 0 < u -> (1 <= rplace u (fm_u_exponent f))%Z ->
  exists rx ru,
    round_ureal QOps x u f = Ok (rx, ru) /\
    r_value _ rx == inject_Z (rplace x (fm_u_exponent f)) * p10Q (fm_u_exponent f) /\
    r_value _ ru == inject_Z (rplace u (fm_u_exponent f)) * p10Q (fm_u_exponent f).
Proof.
  intros x u f Hn Ht Hu HN.
  assert (Hg : good_type (fm_type f)) by (destruct Ht as [-> | ->]; exact I).
  destruct (round_ureal_spec x u f Hn Hg Hu HN) as [vx [vu [Hr [_ [Hx Hv]]]]].
  eexists _, _. split; [exact Hr|]. cbn [r_value].
  destruct Ht as [Ht | Ht]; rewrite Ht in Hx, Hv; unfold shift_of, as_f_of in Hx, Hv;
    cbn [is_fF orb] in Hx, Hv; rewrite Z.sub_0_r in Hx, Hv; split; assumption.
Qed.

(* apply_format (after the fix of C18-K4): for EVERY presentation type f F e E g G n % the
   numbers are the rounded quantities in the units of the original number *)
Theorem apply_format_real_spec : forall x u df f,
  fm_nzf f = true -> fm_type f <> Tother -> 0 < u -> (1 <= rplace u (fm_u_exponent f))%Z ->
  df <= 100000#1 ->
  let ue := fm_u_exponent f in
  exists vx vu d,
    apply_format_real QOps x u df f = Ok (vx, vu, d) /\
    vx == inject_Z (rplace x ue) * p10Q ue /\
    vu == inject_Z (rplace u ue) * p10Q ue /\
    d == inject_Z (Qfloor (df * p10Q (fm_df_precision f))) * p10Q (- fm_df_precision f).
Proof.
  intros x u df f Hnzf Ht Hu HN Hdf ue.
  unfold apply_format_real.
  destruct (apply_type_props f Ht) as [H1 [H2 [H3 [_ H5]]]].
  set (f' := apply_type f) in *.
  rewrite Hnzf in H1.
  assert (HN' : (1 <= rplace u (fm_u_exponent f'))%Z) by (rewrite H2; exact HN).
  destruct (round_ureal_fixed x u f' H1 H5 Hu HN') as [rx [ru [Hr [Hx Hv]]]].
  rewrite H2 in Hx, Hv. fold ue in Hx, Hv.
  rewrite Hr. cbn [bind].
  destruct (truncate_dof_spec df (fm_df_precision f') Hdf) as [d [Hd [Hd1 _]]].
  rewrite Hd. cbn [bind]. rewrite H1. cbn [bind].
  exists (r_value _ rx), (r_value _ ru), d. rewrite H3 in Hd1. auto.
Qed.

Theorem apply_format_complex_spec : forall xr ur xi ui r df f,
  fm_nzf f = true -> fm_type f <> Tother -> 0 < ur -> 0 < ui ->
  (1 <= rplace ur (fm_u_exponent f))%Z -> (1 <= rplace ui (fm_u_exponent f))%Z ->
  df <= 100000#1 ->
  let ue := fm_u_exponent f in
  exists vxr vxi vur vui rr d,
    apply_format_complex QOps (xr, ur) (xi, ui) r df f = Ok ((vxr, vxi), (vur, vui), rr, d) /\
    vxr == inject_Z (rplace xr ue) * p10Q ue /\ vur == inject_Z (rplace ur ue) * p10Q ue /\
    vxi == inject_Z (rplace xi ue) * p10Q ue /\ vui == inject_Z (rplace ui ue) * p10Q ue /\
    Qabs (rr - r) <= (1#2) * p10Q (- fm_r_precision f) /\
    d == inject_Z (Qfloor (df * p10Q (fm_df_precision f))) * p10Q (- fm_df_precision f).
Proof.
  intros xr ur xi ui r df f Hnzf Ht Hur Hui HNr HNi Hdf ue.
  unfold apply_format_complex. cbn [fst snd].
  destruct (apply_type_props f Ht) as [H1 [H2 [H3 [H4 H5]]]].
  set (f' := apply_type f) in *.
  rewrite Hnzf in H1.
  assert (HNr' : (1 <= rplace ur (fm_u_exponent f'))%Z) by (rewrite H2; exact HNr).
  assert (HNi' : (1 <= rplace ui (fm_u_exponent f'))%Z) by (rewrite H2; exact HNi).
  destruct (round_ureal_fixed xr ur f' H1 H5 Hur HNr') as [rx [ru [Hr [Hx Hv]]]].
  destruct (round_ureal_fixed xi ui f' H1 H5 Hui HNi') as [ix [iu [Hi [Hix Hiv]]]].
  rewrite H2 in Hx, Hv, Hix, Hiv. fold ue in Hx, Hv, Hix, Hiv.
  rewrite Hr. cbn [bind]. rewrite Hi. cbn [bind].
  destruct (truncate_dof_spec df (fm_df_precision f') Hdf) as [d [Hd [Hd1 _]]].
  rewrite Hd. cbn [bind o_round QOps]. rewrite H1. cbn [bind].
  eexists _, _, _, _, _, d. split; [reflexivity|].
  rewrite H3 in Hd1. rewrite H4.
  repeat split; try assumption. apply roundQ_spec.
Qed.

(* ================= (6) complex numbers: one common place ================= *)
Lemma pymin_le_l : forall a b : Q, pymin QOps a b <= a.
Proof.
  intros a b. unfold pymin. cbn [o_ltb QOps]. unfold Qltb.
  destruct (Qle_bool a b) eqn:E; cbn [negb]; [lra|].
  destruct (Qlt_le_dec b a); [lra|]. apply Qle_bool_iff in q. congruence.
Qed.
Lemma pymin_le_r : forall a b : Q, pymin QOps a b <= b.
Proof.
  intros a b. unfold pymin. cbn [o_ltb QOps]. unfold Qltb.
  destruct (Qle_bool a b) eqn:E; cbn [negb]; [|lra].
  apply Qle_bool_iff in E. exact E.
Qed.
Lemma pymin_cases : forall a b : Q, pymin QOps a b = a \/ pymin QOps a b = b.
Proof. intros. unfold pymin. destruct (o_ltb QOps b a); auto. Qed.

Theorem update_format_complex_spec : forall (ur ui : Q) (f : fmt),
  0 < ur -> 0 < ui -> (1 <= fm_digits f)%Z ->
  exists p ue,
    update_format QOps ur (Some ui) f = Ok (set_update f p ue true) /\
    let um := pymin QOps ur ui in
    p10Q (fm_digits f - 1) <= inject_Z (rplace um ue) /\ inject_Z (rplace um ue) < p10Q (fm_digits f) /\
    (1 <= rplace ur ue)%Z /\ (1 <= rplace ui ue)%Z.
Proof.
  intros ur ui f Hr Hi Hd.
  assert (Hm : 0 < pymin QOps ur ui) by (destruct (pymin_cases ur ui) as [-> | ->]; assumption).
  destruct (update_format_spec (pymin QOps ur ui) f Hm Hd) as [p [ue [Hu [H1 H2]]]].
  exists p, ue. split.
  - unfold update_format in *. cbn [o_is_zero QOps] in *.
    rewrite (Qeq_bool_false (pymin QOps ur ui) 0) by lra. exact Hu.
  - cbv zeta. split; [exact H1|]. split; [exact H2|].
    assert (Hone : (1 <= rplace (pymin QOps ur ui) ue)%Z).
    { assert (Hpw : 1 <= p10Q (fm_digits f - 1)).
      { rewrite <- p10Q_0. apply p10Q_le. lia. }
      assert (inject_Z 1 <= inject_Z (rplace (pymin QOps ur ui) ue)) by (change (inject_Z 1) with 1; lra).
      rewrite <- Zle_Qle in H. exact H. }
    split; (eapply Z.le_trans; [exact Hone|apply rplace_mono]); [apply pymin_le_l|apply pymin_le_r].
Qed.

(* ================= (7) repr: dof above inf_dof is shown as infinity ================= *)
Theorem repr_df_spec : forall df : Q,
  (100000#1 < df -> repr_df QOps df = o_inf QOps) /\ (df <= 100000#1 -> repr_df QOps df = df).
Proof.
  intro df. unfold repr_df. cbn [o_is_nan o_ltb o_inf_dof QOps negb andb]. unfold Qltb. split; intro H.
  - destruct (Qle_bool df (100000#1)) eqn:E; [|reflexivity].
    apply Qle_bool_iff in E. lra.
  - apply Qle_bool_iff in H. rewrite H. reflexivity.
Qed.

(* ================= (8) C18_spec: create_format + _to_string_ureal, end to end =================
   For every value x, uncertainty u > 0, digits >= 1 and presentation type f F e E g G %:
   the text is  <x-text>(<u-text>)<suffix>  where, with ue the chosen place,
     N  = u / 10^ue rounded half-even has exactly `digits` digits  (|N*10^ue - u| <= 10^ue / 2),
     Mx = x / 10^ue rounded half-even                              (|Mx*10^ue - x| <= 10^ue / 2),
   x-text prints |Mx|*10^k with p decimals (sign in front), u-text prints N*10^k either with the
   same p decimals or as an integer count of the last place, and the suffix scales both by
   10^sh (sh = 0, -2 for '%', or the common exponent E): printed/10^p * 10^sh = Mx*10^ue, N*10^ue. *)
Theorem format_ureal_spec : forall x u a,
  0 < u ->
  let f0 := init_format a in
  (1 <= fm_digits f0)%Z -> good_type (fm_type f0) -> fm_style f0 <> StBad ->
  exists f ue,
    create_format QOps u None a = Ok f /\ fm_u_exponent f = ue /\
    let N := rplace u ue in let Mx := rplace x ue in
    p10Q (fm_digits f0 - 1) <= inject_Z N /\ inject_Z N < p10Q (fm_digits f0) /\
    Qabs (inject_Z N * p10Q ue - u) <= (1#2) * p10Q ue /\
    Qabs (inject_Z Mx * p10Q ue - x) <= (1#2) * p10Q ue /\
    let E := oomQ (maximumQ x u ue) in let sh := shift_of (fm_type f0) ue E in
    let p := Z.max (sh - ue) 0 in let k := Z.max (ue - sh) 0 in
    exists pu hash_u,
      to_string_ureal QOps x u f None =
        Ok (fixed_text (Mx <? 0)%Z (Z.abs Mx * 10 ^ k) p (fm_sign f0) (fm_hash f0) (fm_grouping f0)
            ++ [40%Z] ++ fixed_text false (N * 10 ^ k) pu SgNone hash_u (fm_grouping f0) ++ [41%Z]
            ++ suffix_of (fm_type f0) ue E) /\
      (pu = p \/ pu = 0%Z) /\
      inject_Z (Z.abs Mx * 10 ^ k) * p10Q (- p) * p10Q sh == inject_Z (Z.abs Mx) * p10Q ue /\
      inject_Z (N * 10 ^ k) * p10Q (- p) * p10Q sh == inject_Z N * p10Q ue.
Proof.
  intros x u a Hu f0 Hd Hgt Hst.
  destruct (update_format_spec u f0 Hu Hd) as [p0 [ue [Hup [HN1 HN2]]]].
  set (f := set_update f0 p0 ue true).
  exists f, ue.
  assert (Hcf : create_format QOps u None a = Ok f).
  { unfold create_format. fold f0. rewrite Hup. cbn [bind]. fold f.
    assert (Hs : fm_style f = fm_style f0) by reflexivity.
    assert (Hdg : fm_digits f = fm_digits f0) by reflexivity.
    assert (Hty : fm_type f = fm_type f0) by reflexivity.
    rewrite Hs, Hdg, Hty.
    destruct (Z.leb_spec (fm_digits f0) 0); [lia|].
    destruct (fm_style f0); try (exfalso; apply Hst; reflexivity);
      destruct (fm_type f0); simpl in Hgt; try contradiction; reflexivity. }
  split; [exact Hcf|]. split; [reflexivity|].
  cbv zeta. split; [exact HN1|]. split; [exact HN2|].
  split; [apply rplace_spec|]. split; [apply rplace_spec|].
  assert (Hone : (1 <= rplace u (fm_u_exponent f))%Z).
  { change (fm_u_exponent f) with ue.
    assert (Hpw : 1 <= p10Q (fm_digits f0 - 1)) by (rewrite <- p10Q_0; apply p10Q_le; lia).
    assert (H : inject_Z 1 <= inject_Z (rplace u ue)) by (change (inject_Z 1) with 1; lra).
    rewrite <- Zle_Qle in H. exact H. }
  destruct (to_string_ureal_spec x u f None (eq_refl : fm_nzf f = true) Hgt Hu Hone) as [pu [hu [Hs Hpu]]].
  exists pu, hu. split; [exact Hs|]. split; [exact Hpu|].
  split; apply shorthand_denotes.
Qed.

(* ================= (9) the digit printer is inverted by the digit reader ================= *)
Lemma int_of_digits_acc : forall l a,
  int_of_digits l a = (a * 10 ^ Z.of_nat (length l) + int_of_digits l 0)%Z.
Proof.
  induction l as [|c l IH]; intro a.
  - simpl. lia.
  - cbn [int_of_digits length]. rewrite (IH (10 * a + (c - 48))%Z), (IH (10 * 0 + (c - 48))%Z).
    rewrite Nat2Z.inj_succ, Z.pow_succ_r by lia. ring.
Qed.

Lemma digits_fuel_value : forall fuel n acc,
  (0 <= n)%Z -> (n < 2 ^ Z.of_nat fuel)%Z ->
  int_of_digits (digits_fuel fuel n acc) 0 = (n * 10 ^ Z.of_nat (length acc) + int_of_digits acc 0)%Z.
Proof.
  induction fuel as [|fuel IH]; intros n acc H0 Hlt.
  - simpl in Hlt. assert (n = 0)%Z by lia. subst. simpl. lia.
  - cbn [digits_fuel].
    pose proof (Z.div_mod n 10 ltac:(lia)) as Hdm.
    pose proof (Z.mod_pos_bound n 10 ltac:(lia)) as Hm.
    destruct (Z.ltb_spec n 10) as [Hs|Hb].
    + cbn [int_of_digits]. rewrite int_of_digits_acc.
      rewrite Z.mod_small by lia. ring.
    + rewrite IH.
      * cbn [length int_of_digits]. rewrite (int_of_digits_acc acc).
        rewrite Nat2Z.inj_succ, Z.pow_succ_r by lia. 
        replace (10 * 0 + (48 + n mod 10 - 48))%Z with (n mod 10)%Z by lia.
        set (P := (10 ^ Z.of_nat (length acc))%Z). set (V := int_of_digits acc 0).
        replace (n * P)%Z with ((10 * (n / 10) + n mod 10) * P)%Z by (rewrite <- Hdm; reflexivity).
        ring.
      * apply Z.div_pos; lia.
      * apply Z.div_lt_upper_bound; [lia|].
        rewrite Nat2Z.inj_succ, Z.pow_succ_r in Hlt by lia. lia.
Qed.

Theorem digits_roundtrip : forall n, (0 <= n)%Z -> int_of_digits (digits n) 0 = n.
Proof.
  intros n Hn. unfold digits. rewrite digits_fuel_value.
  - simpl. lia.
  - exact Hn.
  - destruct (Z.eq_dec n 0) as [->|Hne]; [simpl; lia|].
    rewrite Nat2Z.inj_succ, Z2Nat.id by (apply Z.log2_nonneg).
    apply Z.log2_spec. lia.
Qed.

"""C18 -- formatted output is the correctly rounded value(uncertainty) shorthand.

correspondence: harness/fmtcorr.py (Format.v model at binary64 vs GTC, string for string).
search: an independent restatement of the property in exact rational arithmetic
(fractions.Fraction): parse the text GTC produced back into x'(u'), and compare with u rounded
to `digits` significant digits and x rounded at the same place."""
import math, random, json, re
from fractions import Fraction
from common import *
import fmtcorr

COQ_PROPS = 'props/C18.v'
PARTIAL = ('C18_spec & co. are proved for the model in EXACT arithmetic (rationals: exact floor(log10), exact half-even '
           'rounding, exact 10**e); the binary64 run of the same model code is tied to GTC by correspondence, and the '
           'agreement of the float steps (math.log10, value/10.**e, u_r*10.**p) with the exact ones is validated by the '
           'oracle, not proved -- where they differ is listed as known findings K1-K3, K5 (K4, apply_format with exponent types, is fixed). The text is characterised as '
           'fixed_text(integer, decimals) pieces + the digit printer/reader round trip; a full string parser is not '
           'formalised. LaTeX/Unicode styling, grouping, # and repr assembly are covered by correspondence only; '
           'u = 0, non-finite x/u/dof and the locale type n are outside the model (it refuses).')
ASSUMPTIONS = ['float formatting (\'%.{p}f\') and round(x, n) are correctly rounded in CPython (dtoa/strtod): modelled exactly in Z and '
               'validated by the correspondence',
               'repr(float) round-trips (the three float reprs inside repr(ureal) are taken from the implementation)']
TRUSTED = ['PrimFloat / PrimInt63 kernel primitives appear under the one example that runs the binary64 instance inside a proof '
           '(C18_scaled_types_float_refuted); all other C18 theorems are closed under the global context',
           'harness/fmtcorr.py builds the format_spec string from the generated fields itself (GTC\'s regex is exercised, not trusted)']

def correspondence(rng, tier):
    n = 1500 if tier == 'quick' else 30000
    return fmtcorr.run_corr(rng, n)

# ------------------------------------------------------------------ the property oracle
RX = re.compile(r'^([ +-]?)(\d+)(?:\.(\d+))?\((\d+)(?:\.(\d+))?\)(?:([eE])([+-]\d+)|(%))?$')

def p10(e):
    return Fraction(10) ** e

def floor_log10(v):
    """exact floor(log10(v)) for a Fraction v > 0"""
    e = int(math.floor(math.log10(float(v)))) if 1e-300 < v < 1e300 else 0
    while p10(e) > v: e -= 1
    while p10(e + 1) <= v: e += 1
    return e

def candidates(v, place, tol):
    """acceptable integer counts of v in units of 10**place: the nearest one, both neighbours of a tie (within tol)"""
    s = v / p10(place)
    lo = math.floor(s); fr = s - lo
    if abs(fr - Fraction(1, 2)) <= tol: return {lo, lo + 1}
    return {lo} if fr < Fraction(1, 2) else {lo + 1}

def known_region(x, u, d, ty):
    """inputs matched by the known findings K1-K3 (see known/C18.json); returns the id or None"""
    ax = abs(x)
    if not (1 <= d <= 15): return 'domain'
    for v in (ax, u):
        if v != 0 and not (1e-280 <= v <= 1e280): return 'C18-K3'
    X, U = Fraction(x), Fraction(u)
    e = floor_log10(U); ue = e - d + 1
    big = max(abs(X), U)
    E = floor_log10(big) if big > 0 else 0
    t = ty.lower()
    # K1: a scaled presentation (e, %, g in exponent form) whose last place is near or below the spacing of doubles at x
    if t in 'e%g' and big / p10(ue) * Fraction(1, 2 ** 52) >= Fraction(1, 16):
        return 'C18-K1'
    # K5: a scaled presentation where u sits (to within float error) on the tie that carries into the next decade
    if t in 'e%g':
        su = U / p10(ue)
        if abs(su - (10 ** d - Fraction(1, 2))) <= Fraction(8, 2 ** 52) * su:
            return 'C18-K5'
    # K2: a fixed presentation whose place is above the units and whose integer digits exceed 2**52
    mult = 100 if t == '%' else 1
    if t in 'f%g' and ue + 1 + (2 if t == '%' else 0) > 0 and big * mult >= 2 ** 52:
        return 'C18-K2'
    return None

def check_format(x, u, d, ty, sign=''):
    """None if format(ureal(x,u), sign.{d}{ty}) satisfies the property, else a dict describing the failure.
    Only called outside the known regions."""
    from GTC import core
    new_context(18)
    un = core.ureal(x, u)
    spec = '%s.%d%s' % (sign, d, ty)
    try:
        s = format(un, spec)
    except Exception as ex:
        return {'x': x, 'u': u, 'digits': d, 'type': ty, 'sign': sign, 'output': 'EXC ' + type(ex).__name__,
                'why': 'format() raised %s: %s' % (type(ex).__name__, ex)}
    bad = lambda why: {'x': x, 'u': u, 'digits': d, 'type': ty, 'sign': sign, 'output': s, 'why': why}
    m = RX.match(s)
    if not m: return bad('text is not of the form x(u)[e+XX|%]')
    sg, xi, xf, ui, uf, ech, eexp, pct = m.groups()
    p = len(xf or '')
    sh = int(eexp) if ech else (-2 if pct else 0)
    if ech and ech != ('E' if ty.isupper() else 'e'): return bad('exponent letter case')
    if ty in 'fF' and (ech or pct): return bad('type f with a suffix')
    if ty == '%' and not pct: return bad('type % without percent sign')
    if ty in 'eE' and not ech: return bad('type e without exponent')
    if uf is not None and len(uf) != p: return bad('decimals of u differ from decimals of x')
    unit = sh - p
    X, U = Fraction(x), Fraction(u)
    xq = int(xi + (xf or '')) * p10(unit) * (-1 if sg == '-' else 1)
    uq = int(ui + (uf or '')) * p10(unit)
    if sg == '-' and not (x < 0 or (x == 0 and math.copysign(1, x) < 0)): return bad('minus sign on a non-negative value')
    if sign == '+' and sg not in '+-': return bad('sign + requested, none printed')
    if sign == ' ' and sg not in ' -': return bad('sign space requested, none printed')
    if sign in ('', '-') and sg in ('+', ' '): return bad('unrequested sign character')
    e = floor_log10(U); ue0 = e - d + 1
    scaled = bool(ech or pct)
    # DESIGN 6/C18: where the exact value lies within 2 ulp of a rounding tie either neighbour is accepted (math.log10 of
    # a double just below a power of ten may land on the integer, which moves a near-tie the other way at 15 digits);
    # the scaled types divide by an inexact factor first: 4 ulp
    rel = Fraction(4, 2 ** 52) if scaled else Fraction(2, 2 ** 52)
    ok_u = []
    for N in candidates(U, ue0, rel * (U / p10(ue0))):
        N, ue = (10 ** (d - 1), ue0 + 1) if N == 10 ** d else (N, ue0)
        if uq == N * p10(ue): ok_u.append((N, ue))
    if not ok_u:
        return bad('u\' = %s is not u rounded to %d significant digits (u = %r)' % (uq, d, u))
    if all(unit > ue for N, ue in ok_u):
        return bad('the last printed place 10^%d is coarser than the place 10^%d at which u has %d significant digits'
                   % (unit, ok_u[0][1], d))
    for N, ue in ok_u:
        if unit > ue: continue      # the last printed place must not be coarser than the rounding place
        Ms = candidates(abs(X), ue, rel * (abs(X) / p10(ue)))
        if any(abs(xq) == M * p10(ue) for M in Ms):
            if (xq < 0) != (x < 0) and xq != 0: return bad('sign of x\'')
            return None
    return bad('x\' = %s is not x rounded at the place 10^%d of the uncertainty (x = %r)' % (xq, ok_u[0][1], x))

def check_padding(x, u, d, ty, rng):
    """fill/align/width/sign only pad or sign the text"""
    from GTC import core
    new_context(18)
    un = core.ureal(x, u)
    try:
        plain = format(un, '.%d%s' % (d, ty))
    except Exception:
        return None
    fill = rng.choice(['*', 'x', '_', ' ']); al = rng.choice('<>^'); w = rng.choice([5, 12, 20, 33])
    spec = '%s%s%d.%d%s' % (fill, al, w, d, ty)
    out = format(un, spec)
    want = {'<': plain.ljust(w, fill), '>': plain.rjust(w, fill), '^': plain.center(w, fill)}[al]
    if al == '^':
        # str.center and format differ in where the odd character goes; accept either split
        n = max(w - len(plain), 0)
        wants = {fill * (n // 2) + plain + fill * (n - n // 2), fill * (n - n // 2) + plain + fill * (n // 2)}
    else:
        wants = {want}
    if out not in wants:
        return {'x': x, 'u': u, 'digits': d, 'type': ty, 'spec': spec, 'output': out, 'why': 'padding changed the text %r' % plain}
    sp = format(un, '+.%d%s' % (d, ty))
    if not (x < 0 or (x == 0 and math.copysign(1, x) < 0)) and sp != '+' + plain:
        return {'x': x, 'u': u, 'digits': d, 'type': ty, 'spec': '+', 'output': sp, 'why': 'sign option changed more than the sign'}
    return None

def check_apply(x, u, d, ty, df, dfp=1):
    """apply_format, every presentation type: the rounded quantities in the units of the original number, dof truncated
    to df_precision decimals"""
    from GTC import core, formatting as F
    new_context(18)
    un = core.ureal(x, u, df)
    rec = {'x': x, 'u': u, 'digits': d, 'type': ty, 'apply': True, 'df': df, 'df_precision': dfp}
    try:
        fm = F.create_format(un, digits=d, type=ty, df_precision=dfp)
        a = F.apply_format(un, fm)
    except Exception as ex:
        return dict(rec, output='EXC ' + type(ex).__name__, why='apply_format raised')
    X, U = Fraction(x), Fraction(u)
    e = floor_log10(U); ue0 = e - d + 1
    rel = Fraction(2, 2 ** 52)
    for N in candidates(U, ue0, rel * (U / p10(ue0))):
        N, ue = (10 ** (d - 1), ue0 + 1) if N == 10 ** d else (N, ue0)
        if a.u == float(N * p10(ue)):
            if any(abs(a.x) == float(M * p10(ue)) for M in candidates(abs(X), ue, rel * (abs(X) / p10(ue)))):
                if df > 1e5:
                    wants = [math.inf]
                else:
                    # truncation of the exact binary value, or of the decimal the float stands for (its repr): a dof
                    # like 99999.95 (binary 99999.94999...) may legitimately stay 99999.95
                    wants = [float(Fraction(math.floor(Fraction(v) * 10 ** dfp), 10 ** dfp)) for v in (df, repr(df))]
                if a.df in wants: return None
                return dict(rec, output=[a.x, a.u, a.df], why='dof not truncated to %d decimals (expected %r)' % (dfp, wants[-1]))
    return dict(rec, output=[a.x, a.u, a.df],
                why='apply_format numbers are not the rounded x, u in the units of the original number')

def check_repr(x, u, df, label=None):
    from GTC import core
    new_context(18)
    un = core.ureal(x, u, df, label=label) if label is not None else core.ureal(x, u, df)
    s = repr(un)
    new_context(19)
    rec = {'x': x, 'u': u, 'df': df, 'label': label, 'repr': s}
    try:
        back = eval(s, {'ureal': core.ureal, 'inf': math.inf, 'nan': math.nan})
    except Exception as ex:
        return dict(rec, why='repr does not evaluate: %r' % (ex,))
    want_df = math.inf if df > 1e5 else df
    if back.x != x or back.u != u or back.df != want_df or back.label != label:
        return dict(rec, why='repr evaluates to a different number (dof above 1e5 must be shown as inf)')
    return None

def search(rng, tier, broken):
    n = 4000 if tier == 'quick' else 40000
    tried = 0; skipped = {}
    for i in range(n):
        x, u = fmtcorr.rand_xu(rng, wide=False)
        d = rng.choice([1, 2, 2, 3, 4, 5, 6, 8, 10, 12, 15])
        ty = rng.choice(['f', 'F', 'e', 'E', 'g', 'G', '%'])
        k = known_region(x, u, d, ty)
        if k is not None:
            skipped[k] = skipped.get(k, 0) + 1
            continue
        tried += 1
        r = check_format(x, u, d, ty, rng.choice(['', '', '+', ' ', '-']))
        if r is None and i % 5 == 0:
            r = check_padding(x, u, d, ty, rng)
        if r is None and i % 4 == 0:
            dfp = rng.choice([0, 1, 1, 2, 3])
            df = rng.choice([3.0, 7.0, 9.5, 8.25, 23.0, 7.89, 12.3456789, 99999.95, 100000.0, 100000.5, math.inf])
            r = check_apply(x, u, d, ty, df, dfp)
        if r is None and i % 10 == 0:
            r = check_repr(x, u, rng.choice([3.0, 7.89, 100000.0, 100000.5, 100001.0, 2e5, 1e6, math.inf]),
                           rng.choice([None, 'R1', "it's"]))
        if r is not None and not is_known(r):
            return {'tried': tried, 'failing': r, 'skipped_known_regions': skipped}
    return {'tried': tried, 'failing': None, 'skipped_known_regions': skipped}

def is_known(f):
    if not isinstance(f, dict): return False
    if 'digits' in f and 'type' in f and 'x' in f and 'u' in f and not f.get('apply'):
        try:
            return known_region(float(f['x']), float(f['u']), int(f['digits']), str(f['type'])) is not None
        except Exception:
            return False
    return False

def replay(payload):
    print(json.dumps(payload.get('broken'), indent=1, default=str)[:3000])
    f = payload.get('failing_input')
    if not f:
        return 0
    if 'repr' in f:
        r = check_repr(f['x'], f['u'], f['df'], f.get('label'))
    elif f.get('apply'):
        r = check_apply(f['x'], f['u'], f['digits'], f['type'], f.get('df', math.inf), f.get('df_precision', 1))
    elif 'spec' in f:
        r = check_padding(f['x'], f['u'], f['digits'], f['type'], random.Random(0)) or \
            check_format(f['x'], f['u'], f['digits'], f['type'])
    else:
        r = check_format(f['x'], f['u'], f['digits'], f['type'], f.get('sign', ''))
    print('replayed failing input on the implementation:', 'STILL FAILS %r' % (r,) if r else 'passes now')
    return 1 if r else 0

# ------------------------------------------------------------------ known findings (replayed on the implementation)
def exact_shorthand_e(x, u, d):
    """x(u)e+XX computed in exact arithmetic (for K1)"""
    X, U = Fraction(x), Fraction(u)
    e = floor_log10(U); ue = e - d + 1
    N = min(candidates(U, ue, 0))
    if N == 10 ** d: N, ue = 10 ** (d - 1), ue + 1
    M = min(candidates(abs(X), ue, 0))
    E = floor_log10(max(M, N) * p10(ue))
    p = E - ue
    ms = str(M).rjust(p + 1, '0')
    return '%s%s.%s(%d)e%+03d' % ('-' if x < 0 else '', ms[:-p], ms[-p:], N, E)

def kf_scaled_digits():
    from GTC import core
    new_context(18)
    x, u = 902563.7640693213, 9.995e-07
    s = format(core.ureal(x, u), '.5e')
    want = exact_shorthand_e(x, u, 5)
    return s != want, {'output': s, 'exact': want}

def kf_big_fixed():
    from GTC import core
    new_context(18)
    s = format(core.ureal(1e25, 1.2e22), '.2f')
    m = RX.match(s)
    bad = (m is None) or int(m.group(2)) % 10 ** 21 != 0
    return bad, {'output': s, 'expected': '10000000000000000000000000(12000000000000000000000)'}

def kf_range_ends():
    from GTC import core
    new_context(18)
    out = {}
    for name, (x, u, spec) in {'subnormal_e': (5e-324, 5e-324, '.2e'), 'tiny_f': (1e-310, 1e-320, '.3f'),
                               'huge_round': (1.797e308, 9.99e307, '.1f')}.items():
        try:
            out[name] = format(core.ureal(x, u), spec)
        except Exception as ex:
            out[name] = 'EXC ' + type(ex).__name__
    return any(v.startswith('EXC') for v in out.values()), out

def kf_apply_exponent():
    from GTC import core, formatting as F
    new_context(18)
    un = core.ureal(12345.678, 1.2, 7.89)
    a = F.apply_format(un, F.create_format(un, digits=2, type='e'))
    return (a.x, a.u) != (12345.7, 1.2), {'apply_format': [a.x, a.u, a.df], 'expected': [12345.7, 1.2, 7.0]}

def kf_scaled_carry():
    from GTC import core
    new_context(18)
    s = format(core.ureal(0.08098859932085621, 9.95e-06), '.2%')
    m = RX.match(s)
    return (m is not None and len(m.group(4).lstrip('0')) == 3), {'output': s, 'expected': '8.0989(10)% or 8.09886(99)%'}

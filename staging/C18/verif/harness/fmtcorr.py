"""fmtcorr.py -- correspondence for GTC/formatting.py (property C18): generate (x, u, df,
format fields, route) cases, run them on the real GTC, emit one closed Gallina term per case
that evaluates the Format.v model at the binary64 instance (FormatF.v) and compares the
result with what the implementation returned: strings code point by code point, floats bit
by bit, exceptions by class."""
import math, struct, sys
from common import *

TYPES = ['f', 'F', 'e', 'E', 'g', 'G', '%']
TY = {'f': 'Tf', 'F': 'TF', 'e': 'Te', 'E': 'TE', 'g': 'Tg', 'G': 'TG', 'n': 'Tn', '%': 'Tpct'}
SG = {'+': 'SgPlus', '-': 'SgMinus', ' ': 'SgSpace'}
AL = {'<': 'AlLeft', '>': 'AlRight', '=': 'AlEq', '^': 'AlCenter'}
ST = {'L': 'StL', 'U': 'StU'}

HEADER = '''From Coq Require Import ZArith List Bool PrimFloat.
From GTCV Require Import Num FNum Format FormatF.
Import ListNotations.
Local Open Scope float_scope.
'''

def zs(s):
    return '([' + '; '.join(str(ord(c)) for c in s) + '])%Z'

def p10_table():
    rows = []
    for e in range(-720, 721):
        try:
            rows.append('(%s, Ok %s)' % (cz(e), cf(10. ** e)))
        except OverflowError:
            rows.append('(%s, Err OverflowError)' % cz(e))
    return 'Definition P10 : list (Z * res float) := ' + clist(rows) + '.\n'

def header():
    return HEADER + p10_table()

# ------------------------------------------------------------------ case generation
SPECIAL_MANT = [9.95, 9.995, 9.9995, 9.5, 9.49999, 9.949999999, 9.950000001, 9.96, 1.0, 1.05, 1.15, 1.25,
                1.35, 1.45, 1.5, 2.5, 9.9, 9.99, 9.999999999999, 0.995 * 10, 4.5, 5.0, 5.5, 1.4999999999999999,
                math.nextafter(10.0, 0.0), math.nextafter(1.0, 2.0), 9.999999999999996,
                9.9999996, 9.99999996, 9.999999996, 9.9999999996, 9.99999951, 9.999999949]

def rand_mant(rng):
    r = rng.random()
    if r < 0.3:
        return rng.choice(SPECIAL_MANT)
    if r < 0.5:
        return round(rng.uniform(1, 10), rng.randint(0, 3))      # short decimals: exact ties happen
    return rng.uniform(1, 10)

def rand_xu(rng, wide):
    """(x, u): u > 0 finite, x finite; magnitudes and ratios spread over the double range"""
    r = rng.random()
    if wide and r < 0.07:
        U = rng.choice([rng.randint(-323, -285), rng.randint(285, 307)])       # the ends of the double range
    elif wide and r < 0.17:
        U = rng.randint(-323, 307)
    elif r < 0.6:
        U = rng.randint(-8, 8)
    else:
        U = rng.randint(-40, 40)
    u = rand_mant(rng) * 10. ** U if U > -320 else rng.randint(1, 40) * 5e-324
    if not (u > 0 and math.isfinite(u)):
        u = 1.5
    r = rng.random()
    if r < 0.06:
        x = 0.0 if rng.random() < 0.7 else -0.0
    elif r < 0.12:
        x = u * rng.choice([1.0, 0.5, 0.05, 0.005, 0.25, 1.5, 2.5, 10.0, 100.0])     # ties with the place of u
    elif r < 0.2:
        x = float(rng.randint(-10 ** 6, 10 ** 6)) * 10. ** rng.randint(-6, 6)
    else:
        R = rng.choice([rng.randint(-6, 0), rng.randint(0, 6), rng.randint(0, 6), rng.randint(6, 17), rng.randint(14, 22)])
        try:
            x = rand_mant(rng) * 10. ** (U + R)
        except OverflowError:
            x = 1.0
        if rng.random() < 0.15:
            # a decimal with few digits relative to u's place: exact half-way cases
            k = rng.randint(0, 3)
            try:
                x = round(x, -(U - k))
            except OverflowError:
                pass
    if not math.isfinite(x):
        x = 1.0
    if rng.random() < 0.4:
        x = -x
    return x, u

def rand_fields(rng, malformed):
    f = {'fill': None, 'align': None, 'sign': None, 'hash': False, 'zero': False, 'width': None,
         'grouping': None, 'precision': None, 'type': None, 'style': None}
    r = rng.random()
    f['precision'] = (rng.choice([1, 1, 2, 2, 2, 3, 3, 4, 5, 6, 7, 8, 9, 10, 11, 12, 13, 14, 15, 15, 16, 17, 20])
                      if r < 0.93 else None)
    f['type'] = rng.choice(TYPES + TYPES + ['f', 'e', 'g', None])
    if rng.random() < 0.35: f['sign'] = rng.choice('+- ')
    if rng.random() < 0.3:
        f['width'] = rng.choice([1, 5, 10, 12, 15, 18, 20, 25, 30, 40, 64])
        if rng.random() < 0.6:
            f['align'] = rng.choice('<>^')
            if rng.random() < 0.6: f['fill'] = rng.choice(['*', ' ', '0', 'x', '_', '€', '.', '+'])
        if rng.random() < 0.3: f['zero'] = True
    elif rng.random() < 0.05:
        f['align'] = rng.choice('<>^'); f['zero'] = rng.random() < 0.5
    if rng.random() < 0.12: f['hash'] = True
    if rng.random() < 0.15: f['grouping'] = rng.choice(',_')
    if rng.random() < 0.25: f['style'] = rng.choice('LU')
    if not malformed and rng.random() < 0.025:
        # the empty format_spec (and nearly empty ones): __format__ substitutes its default
        for k in f: f[k] = False if k in ('hash', 'zero') else None
        if rng.random() < 0.3: f['type'] = rng.choice(TYPES)
    if malformed:
        k = rng.randrange(5)
        if k == 0: f['precision'] = 0
        elif k == 1: f['type'] = rng.choice('dxsbcoX')
        elif k == 2: f['align'] = '='; f['width'] = f['width'] or 20
        elif k == 3: f['type'] = rng.choice('dx'); f['precision'] = 0
        else: f['type'] = rng.choice('eg'); f['precision'] = rng.choice([25, 30, 40])
    return f

def spec_of(f):
    """the format_spec string for these fields (built here, NOT with GTC's regex)"""
    s = ''
    if f['fill'] is not None: s += f['fill']
    if f['align'] is not None: s += f['align']
    if f['sign'] is not None: s += f['sign']
    if f['hash']: s += '#'
    if f['zero']: s += '0'
    if f['width'] is not None: s += str(f['width'])
    if f['grouping'] is not None: s += f['grouping']
    if f['precision'] is not None: s += '.%d' % f['precision']
    if f['type'] is not None: s += f['type']
    if f['style'] is not None: s += f['style']
    return s

def fargs(f, digits=None, dfp=None, rp=None):
    ty = f['type']
    tys = 'None' if ty is None else '(Some %s)' % TY.get(ty, 'Tother')
    return ('{| a_fill := %s; a_align := %s; a_sign := %s; a_hash := %s; a_zero := %s; a_width := %s; '
            'a_grouping := %s; a_precision := %s; a_type := %s; a_style := %s; a_digits := %s; '
            'a_df_precision := %s; a_r_precision := %s |}') % (
        copt(f['fill'], lambda c: cz(ord(c))), copt(f['align'], lambda c: AL[c]), copt(f['sign'], lambda c: SG[c]),
        cbool(f['hash']), cbool(f['zero']), copt(f['width'], cz), copt(f['grouping'], lambda c: cz(ord(c))),
        copt(f['precision'], cz), tys, copt(f['style'], lambda c: ST.get(c, 'StBad')), copt(digits, cz),
        copt(dfp, cz), copt(rp, cz))

def gen_case(rng, i, tier):
    """a JSON-able case description"""
    r = rng.random()
    malformed = rng.random() < 0.08
    c = {'fields': rand_fields(rng, malformed), 'malformed': malformed}
    x, u = rand_xu(rng, wide=True)
    c['x'], c['u'] = x, u
    c['df'] = rng.choice([float('inf'), 3.0, 7.0, 7.89, 9.5, 8.25, 23.0, 4.125, 12.3456789, 99999.5, 100000.0, 100000.5,
                          100001.0, 2e5, 1e6, 2.5, 1.0000001, 55.55, 6.9, 1.1 + 2.2])
    if r < 0.40: c['route'] = 'format'
    elif r < 0.52: c['route'] = 'create'
    elif r < 0.66: c['route'] = 'apply'
    elif r < 0.70: c['route'] = 'str'
    elif r < 0.75: c['route'] = 'repr'
    elif r < 0.90: c['route'] = 'zformat'
    elif r < 0.94: c['route'] = 'zstr'
    else: c['route'] = 'zapply'
    if c['route'] in ('create', 'apply', 'zapply'):
        c['digits'] = rng.choice([None, 1, 2, 3, 4, 6, 9, 12, 15])
        c['dfp'] = rng.choice([None, 0, 1, 1, 2, 2, 3, 3, 5])
        c['rp'] = rng.choice([None, 0, 1, 2, 3, 5])
        if c['route'] != 'create':
            c['fields']['style'] = None
            if not malformed and rng.random() < 0.08:
                c['fields']['type'] = 'n'          # numbers only: no locale involved in apply_format
    if c['route'] in ('zformat', 'zstr', 'zapply'):
        x, u = rand_xu(rng, wide=False); c['x'], c['u'] = x, u      # u**2 must not under/overflow in the kernel
        x2, u2 = rand_xu(rng, wide=False)
        if rng.random() < 0.6:
            # comparable uncertainties (the usual case)
            s = 10. ** rng.randint(-2, 2) * rng.uniform(0.3, 3)
            try:
                u2 = u * s if math.isfinite(u * s) and u * s > 0 else u
                x2 = x * rng.uniform(-3, 3) if math.isfinite(x * 3) else x
            except OverflowError:
                pass
        c['ix'], c['iu'] = x2, u2
        c['r'] = rng.choice([0.0, 0.0, 0.5, -0.25, 0.123456, 0.9995, -0.99949, 0.0005])
        if c['df'] < 2: c['df'] = 3.0
    if c['route'] == 'repr':
        c['label'] = rng.choice([None, 'a', 'x_1', "it's", 'R1'])
        if rng.random() < 0.5: c['df'] = rng.choice([100000.0, 100000.5, 100001.0, 2e5, 1e6, 99999.5, 7.0])
    return c

def build_un(c):
    from GTC import core
    new_context(18)
    if c['route'].startswith('z'):
        kw = {}
        if c['df'] != float('inf'): kw['df'] = c['df']
        ur, ui, r = c['u'], c['iu'], c['r']
        z = None
        if r != 0.0:
            try:
                z = core.ucomplex(complex(c['x'], c['ix']), (ur * ur, r * ur * ui, r * ur * ui, ui * ui), **kw)
                if not (z.real.u > 0 and z.imag.u > 0 and math.isfinite(z.real.u) and math.isfinite(z.imag.u)):
                    z = None
            except Exception:
                z = None
            if z is None:
                new_context(18); c['r'] = 0.0
        if z is None:
            z = core.ucomplex(complex(c['x'], c['ix']), (ur, ui), **kw)
        return z
    lab = c.get('label')
    return core.ureal(c['x'], c['u'], c['df'], label=lab) if lab is not None else core.ureal(c['x'], c['u'], c['df'])

def run_gtc(c):
    """run the case on the implementation; returns (obs, log, inputs) where obs is ('str', s) |
    ('floats', [..]) | ('ints', [..]) | ('exn', name) and inputs are the numbers GTC holds"""
    from GTC import formatting as F
    from GTC import core
    un = build_un(c)
    f = c['fields']
    route = c['route']
    if route.startswith('z'):
        ins = {'x': un.real.x, 'u': un.real.u, 'ix': un.imag.x, 'iu': un.imag.u, 'r': un.r, 'df': un.df}
    else:
        ins = {'x': un.x, 'u': un.u, 'df': un.df}
    with record_math() as rec:
        try:
            if route in ('format', 'zformat'):
                obs = ('str', format(un, spec_of(f)))
            elif route in ('str', 'zstr'):
                obs = ('str', str(un))
            elif route == 'repr':
                obs = ('str', repr(un))
            else:
                kw = {k: v for k, v in f.items() if k != 'style' and v is not None and v is not False}
                fm = F.create_format(un, digits=c['digits'], df_precision=c['dfp'], r_precision=c['rp'],
                                     style=f['style'], **kw)
                if route == 'create':
                    obs = ('strints', F.to_string(un, fm), [fm._precision, fm._u_exponent, int(fm._nonzero_and_finite)])
                elif route == 'apply':
                    a = F.apply_format(un, fm)
                    obs = ('floats', [a.x, a.u, a.df])
                else:
                    a = F.apply_format(un, fm)
                    obs = ('floats', [a.x.real, a.x.imag, a.u.real, a.u.imag, a.r, a.df])
        except Exception as ex:
            obs = ('exn', type(ex).__name__)
    return obs, rec.log, ins

def want_str(obs):
    if obs[0] == 'exn': return '(inr %s)' % cexn(obs[1])
    return '(inl %s)' % zs(obs[1])

def coq_terms(c, obs, log, ins):
    """closed Gallina terms of type Z for this case (-1 = agreement)"""
    tbl = oracle_table(log)
    O = '(FlOps %s P10)' % tbl
    f = c['fields']
    route = c['route']
    re_ = '(%s, %s)' % (cf(ins['x']), cf(ins['u']))
    im_ = 'None' if not route.startswith('z') else '(Some (%s, %s))' % (cf(ins['ix']), cf(ins['iu']))
    iu_ = 'None' if not route.startswith('z') else '(Some %s)' % cf(ins['iu'])
    if route in ('format', 'zformat'):
        a = fargs(f)
        return ['cmp_str (format_un %s %s %s %s) %s' % (O, re_, im_, a, want_str(obs))]
    if route in ('str', 'zstr'):
        g = dict(f, fill=None, align=None, sign=' ' if route == 'str' else '+', hash=False, zero=False, width=None,
                 grouping=None, precision=None, type='f', style=None)
        a = fargs(g, digits=2)
        return ['cmp_str (format_un %s %s %s %s) %s' % (O, re_, im_, a, want_str(obs))]
    if route == 'repr':
        # the float reprs are external: give the model the implementation's repr of each float
        def rp(v): return zs(repr(v))
        dfm = float('inf') if (not math.isnan(ins['df']) and ins['df'] > 1e5) else ins['df']
        table = [(ins['x'], rp(ins['x'])), (ins['u'], rp(ins['u'])), (ins['df'], rp(ins['df'])), (float('inf'), rp(float('inf')))]
        rpf = '(fun v => %s [])' % ''.join('if fbits_eqb v %s then %s else ' % (cf(v), s) for v, s in table)
        lab = c.get('label')
        return ['cmp_str (Ok (repr_ureal %s %s %s %s %s %s)) %s' % (
            O, rpf, cf(ins['x']), cf(ins['u']), cf(ins['df']), copt(lab, lambda l: zs(repr(l))), want_str(obs))]
    a = fargs(f, digits=c['digits'], dfp=c['dfp'], rp=c['rp'])
    cre = 'create_format %s %s %s %s' % (O, cf(ins['u']), iu_, a)
    if route == 'create':
        if obs[0] == 'exn':
            return ['cmp_str (fm <- %s ;; to_string %s %s %s fm) %s' % (cre, O, re_, im_, want_str(obs))]
        return ['cmp_str (fm <- %s ;; to_string %s %s %s fm) (inl %s)' % (cre, O, re_, im_, zs(obs[1])),
                'cmp_str (fm <- %s ;; Ok [fm_precision fm; fm_u_exponent fm; (if fm_nzf fm then 1 else 0)%%Z]) (inl %s)' % (
                    cre, '([' + '; '.join(str(v) for v in obs[2]) + '])%Z')]
    want = '(inr %s)' % cexn(obs[1]) if obs[0] == 'exn' else '(inl %s)' % clist([cf(v) for v in obs[1]])
    if route == 'apply':
        return ['cmp_floats (fm <- %s ;; \'(x, u, d) <- apply_format_real %s %s %s %s fm ;; Ok [x; u; d]) %s' % (
            cre, O, cf(ins['x']), cf(ins['u']), cf(ins['df']), want)]
    return ['cmp_floats (fm <- %s ;; \'(x, u, r, d) <- apply_format_complex %s %s (%s, %s) %s %s fm ;; '
            'Ok [fst x; snd x; fst u; snd u; r; d]) %s' % (
                cre, O, re_, cf(ins['ix']), cf(ins['iu']), cf(ins['r']), cf(ins['df']), want)]

def classify(c, obs):
    f = c['fields']
    t = f['type'] or 'f'
    k = c['route'] + ':' + t
    return k

def run_corr(rng, n, name='C18'):
    cases = [gen_case(rng, i, None) for i in range(n)]
    terms = []; owner = []; dist = {}; distinct = set(); nexc = 0; samples = []
    for ci, c in enumerate(cases):
        obs, log, ins = run_gtc(c)
        c['obs'] = obs[1] if obs[0] != 'exn' else 'EXC ' + obs[1]
        k = classify(c, obs); dist[k] = dist.get(k, 0) + 1
        if obs[0] == 'exn':
            nexc += 1; dist['exception:' + obs[1]] = dist.get('exception:' + obs[1], 0) + 1
        else:
            distinct.add((c['route'], str(obs[1])))
        if c['malformed']: dist['malformed'] = dist.get('malformed', 0) + 1
        ts = coq_terms(c, obs, log, ins)
        for t in ts:
            terms.append(t); owner.append(ci)
        if len(samples) < 3 and obs[0] == 'str':
            samples.append({'x': c['x'], 'u': c['u'], 'spec': spec_of(c['fields']), 'route': c['route'], 'output': obs[1]})
    values, errors = coq_eval_cases(name, header(), terms, per_file=100)
    mism = []
    for t, ci, v in zip(terms, owner, values):
        if v != -1:
            c = cases[ci]
            mism.append({'case': c, 'spec': spec_of(c['fields']), 'code': v,
                         'meaning': 'model evaluation failed (see errors)' if v is None else
                                    ('model raised exception code %d' % (v - 1000) if 1000 <= v < 2000 else
                                     'results differ' if v == 2000 else 'implementation raised, model did not'),
                         'term': t[:1500]})
    for e in errors[:3]:
        mism.append({'coq_error': e})
    return {'programs': len(cases), 'steps': len(terms), 'mismatches': mism, 'distinct': len(distinct),
            'distribution': dict(sorted(dist.items())), 'samples': samples,
            'rule': 'cases = (x, u, dof[, imaginary part, r], format fields, route) with u > 0 finite: magnitudes 5e-324..1e307, '
                    'ratios |x|/u from 1e-6 to 1e22, x = +-0, carry mantissas (9.95, 9.995, ...), exact ties, digits 1..20, '
                    'types f F e E g G %% and none, sign/width/fill/align/zero/#/grouping/style L U; routes format(), str(), repr(), '
                    'create_format+to_string (also comparing _precision/_u_exponent), apply_format, for ureal and ucomplex; '
                    '8%% malformed (digits 0, integer types, = alignment, 25-40 digits); distinct = distinct (route, output) pairs that '
                    'are not exceptions; %d cases ended in an exception' % nexc}

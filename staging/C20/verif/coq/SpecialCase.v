(* SpecialCase.v -- support for the generated C20 correspondence cases: each case evaluates one
   function of Special.v at FNum (binary64 + the libm table recorded on the implementation) and
   compares the outcome with what the implementation returned, bit for bit:
   (-1) = agreement, 0 = disagreement. *)
From Coq Require Import ZArith List Bool PrimFloat.
From GTCV Require Import Num FNum Vector Opres KTypes Kernel Special.
Import ListNotations.

Notation fu := (KTypes.ureal float).
Notation fvec := (list (key * float)).

(* what the harness observes *)
Inductive sobs :=
| XExn (e : exn)
| XSame (i : nat)                         (* the very argument object i is returned *)
| XObj (x : float) (u d i : fvec)
| XNum (v : float)
| XCplx (re im : sobs).

Definition obs_obj (o : fu) : sobs := XObj (ux o) (uc o) (dc o) (ic o).

Definition N0 := FNum [].

Fixpoint sobs_eqb (a b : sobs) : bool :=
  match a, b with
  | XExn e, XExn e' => exn_eqb e e'
  | XSame i, XSame j => Nat.eqb i j
  | XObj x u d i, XObj x' u' d' i' =>
      fbits_eqb x x' && vec_eqb N0 u u' && vec_eqb N0 d d' && vec_eqb N0 i i'
  | XNum v, XNum v' => fbits_eqb v v'
  | XCplx r i, XCplx r' i' => sobs_eqb r r' && sobs_eqb i i'
  | _, _ => false
  end.

Definition agree (got expected : sobs) : Z := if sobs_eqb got expected then (-1)%Z else 0%Z.

Definition obs_opval (r : res (opval float)) : sobs :=
  match r with
  | Err e => XExn e
  | Ok (VObj o) => obs_obj o
  | Ok (VSame _) => XSame 0
  | Ok (VPlain v) => XNum v
  | Ok VComplex => XExn ComplexResult
  end.

(* ---------- x % y, fmod ---------- *)
Definition model_mod (tbl : list oracle_entry) (o : fu) (y : float) : sobs :=
  obs_opval (umod (FNum tbl) o y).
Definition model_fmod (tbl : list oracle_entry) (o : fu) (y : float) : sobs :=
  obs_opval (ufmod (FNum tbl) o y).
Definition case_mod tbl o y exp := agree (model_mod tbl o y) exp.
Definition case_fmod tbl o y exp := agree (model_fmod tbl o y) exp.

(* ---------- merge ---------- *)
Inductive farg := FU (o : fu) | FN (v : float).
Definition to_operand (tbl : list oracle_entry) (a : farg) : @operand (FNum tbl) :=
  match a with FU o => @OpdU (FNum tbl) o | FN v => @OpdN (FNum tbl) v end.

Definition model_merge (tbl : list oracle_entry) (a b : farg) (tol : option float) : sobs :=
  let N := FNum tbl in
  let t := match tol with Some t => t | None => Gen_special.g_merge_tol N end in
  match tmerge N (to_operand tbl a) (to_operand tbl b) t with
  | Err e => XExn e
  | Ok MSameA => XSame 0
  | Ok MSameB => XSame 1
  | Ok (MObj o) => obs_obj o
  | Ok (MPlain v) => XNum v
  end.
Definition case_merge tbl a b tol exp := agree (model_merge tbl a b tol) exp.

(* ---------- mul2 ---------- *)
Inductive fmarg :=
| FReal (o : fu) (c : option float)
| FCplx (re : fu) (cre : option float) (im : fu) (cim : option float)
| FOther.
Definition to_marg (tbl : list oracle_entry) (a : fmarg) : @marg (FNum tbl) :=
  match a with
  | FReal o c => @MReal (FNum tbl) o c
  | FCplx re cre im cim => @MCplx (FNum tbl) re cre im cim
  | FOther => @MOther (FNum tbl)
  end.

Definition model_mul2 (tbl : list oracle_entry) (leaves : list (key * leaf float))
           (nodes : list (key * inode float)) (a1 a2 : fmarg) (est : bool) : sobs :=
  let N := FNum tbl in
  match mul2 N (mkS 0 0 0 leaves nodes [] []) (to_marg tbl a1) (to_marg tbl a2) est with
  | Err e => XExn e
  | Ok (MOutR o) => obs_obj o
  | Ok (MOutC re im) => XCplx (obs_obj re) (obs_obj im)
  end.
Definition case_mul2 tbl leaves nodes a1 a2 est exp := agree (model_mul2 tbl leaves nodes a1 a2 est) exp.

(* ---------- implicit ---------- *)
Inductive fexpr :=
| FV (i : nat) | FC (v : float) | FUn (f : unop) (e : fexpr) | FBin (f : binop) (e1 e2 : fexpr).
Fixpoint to_expr (tbl : list oracle_entry) (e : fexpr) : expr (FNum tbl) :=
  match e with
  | FV i => EVar (FNum tbl) i
  | FC v => ENum (FNum tbl) v
  | FUn f e1 => EUn (FNum tbl) f (to_expr tbl e1)
  | FBin f e1 e2 => EBin (FNum tbl) f (to_expr tbl e1) (to_expr tbl e2)
  end.

(* expected: the outcome and the value of the context's elementary-uid counter afterwards
   (only compared when the call returned normally) *)
Definition model_implicit (tbl : list oracle_entry) (ctx ne : Z) (captured : list fu) (e : fexpr)
           (x_min x_max eps : float) : sobs * Z :=
  let N := FNum tbl in
  match implicit_real N (fn_of_expr N captured (to_expr tbl e)) (mkS ctx ne 0 [] [] [] []) x_min x_max eps with
  | Err ex => (XExn ex, 0%Z)
  | Ok (s', o) => (obs_obj o, s_ne s')
  end.
Definition case_implicit tbl ctx ne captured e x_min x_max eps exp exp_ne : Z :=
  let '(got, ne') := model_implicit tbl ctx ne captured e x_min x_max eps in
  match exp with
  | XExn _ => agree got exp
  | _ => if Z.eqb ne' exp_ne then agree got exp else 1%Z
  end.

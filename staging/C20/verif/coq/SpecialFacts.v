(* SpecialFacts.v -- C20: theorems about the model of the special propagation functions
   (Special.v) over the reals. *)
From Coq Require Import ZArith List Bool Reals Lia Lra Psatz.
From GTCV Require Import Num RNum Vector VectorFacts Opres KTypes Kernel DerivTable LPU Special.
From GTCV.gen Require Import Gen_lib_real Gen_special.
Import ListNotations.
Local Open Scope R_scope.

Notation cache := (option R).
Definition sq (_ : key) (u : R) : R := u * u.

Ltac rn := cbn [T of_Z dyad add sub mul neg nabs div eqb ltb leb same is_nan is_inf libm1 libm2 fsum RNum bind] in *.

(* ================================================================== *)
(* small facts about the real instance                                 *)
(* ================================================================== *)
Lemma dyad_0 : IZR 0 * powerRZ 2 0 = 0. Proof. simpl; ring. Qed.
Lemma dyad_2 : IZR 2 * powerRZ 2 0 = 2. Proof. simpl; ring. Qed.

Lemma Rltb_true x y : Rltb x y = true <-> x < y.
Proof. unfold Rltb. destruct (Rlt_dec x y); split; auto; discriminate. Qed.
Lemma Rltb_false x y : Rltb x y = false <-> ~ x < y.
Proof. unfold Rltb. destruct (Rlt_dec x y); split; auto; try discriminate. intros H; contradiction. Qed.
Lemma Rleb_true x y : Rleb x y = true <-> x <= y.
Proof. unfold Rleb. destruct (Rle_dec x y); split; auto; discriminate. Qed.
Lemma Rleb_false x y : Rleb x y = false <-> ~ x <= y.
Proof. unfold Rleb. destruct (Rle_dec x y); split; auto; try discriminate. intros H; contradiction. Qed.
Lemma Reqb_true_iff x y : Reqb x y = true <-> x = y.
Proof. unfold Reqb. destruct (Req_EM_T x y); split; auto; discriminate. Qed.
Lemma Reqb_false_iff x y : Reqb x y = false <-> x <> y.
Proof. unfold Reqb. destruct (Req_EM_T x y); split; auto; try discriminate. intros H; contradiction. Qed.

Lemma pow2_R x : pow_R x (IZR 2) = Ok (x * x).
Proof. exact (pow_R_2 x). Qed.

Lemma sqrt_ok v : 0 <= v -> R_libm1 F_sqrt v = Ok (sqrt v).
Proof. intros H. simpl. destruct (Rle_dec 0 v); [reflexivity|contradiction]. Qed.

Lemma half_ok v : R_div v (IZR 2 * powerRZ 2 0) = Ok (v / 2).
Proof. unfold R_div. rewrite dyad_2. destruct (Req_EM_T 2 0); [lra|reflexivity]. Qed.

(* ================================================================== *)
(* the generated weight formulas                                       *)
(* ================================================================== *)
Definition weight (est : bool) (x v : R) : R :=
  if est then sqrt (Rmax (x * x - v / 2) 0) else sqrt (x * x + v / 2).

Lemma weight_sq est x v : 0 <= v ->
  weight est x v * weight est x v = if est then Rmax (x * x - v / 2) 0 else x * x + v / 2.
Proof.
  intros Hv. unfold weight. destruct est; apply sqrt_sqrt.
  - apply Rmax_r.
  - nra.
Qed.

Lemma weights_spec est x1 x2 v1 v2 : 0 <= v1 -> 0 <= v2 ->
  g_mul2_weights RNum est x1 x2 v1 v2 = Ok (weight est x2 v2, weight est x1 v1).
Proof.
  intros H1 H2. unfold g_mul2_weights, weight. rn. unfold R_libm2.
  rewrite !pow2_R. rn. rewrite !half_ok. rn. rewrite dyad_0.
  destruct est.
  - unfold Rltb.
    destruct (Rlt_dec 0 (x2 * x2 - v2 / 2)) as [a|a]; destruct (Rlt_dec 0 (x1 * x1 - v1 / 2)) as [b|b]; rn.
    + rewrite !sqrt_ok by lra. rn. rewrite !Rmax_left by lra. reflexivity.
    + rewrite !sqrt_ok by lra. rn. rewrite Rmax_left by lra. rewrite (Rmax_right (x1 * x1 - v1 / 2)) by lra.
      rewrite sqrt_0. reflexivity.
    + rewrite !sqrt_ok by lra. rn. rewrite (Rmax_right (x2 * x2 - v2 / 2)) by lra. rewrite Rmax_left by lra.
      rewrite sqrt_0. reflexivity.
    + rewrite !Rmax_right by lra. rewrite sqrt_0. reflexivity.
  - rewrite !sqrt_ok by nra. rn. reflexivity.
Qed.

(* ================================================================== *)
(* sums of squares over merges of vectors with disjoint keys           *)
(* ================================================================== *)
Definition disjoint (v1 v2 : rvecs) : Prop :=
  forall k, In k (keys (N:=RNum) v1) -> In k (keys (N:=RNum) v2) -> False.

Lemma vsum_vmap (g : key -> R -> R) (f : R -> R) (v : rvecs) :
  vsum g (vmap (N:=RNum) f v) = vsum (fun k u => g k (f u)) v.
Proof. induction v as [|[k u] v IH]; simpl; auto. rewrite IH. reflexivity. Qed.

Lemma vsum_sq_mloop (f1 f2 : R -> R) (f12 : R -> R -> R) (v1 v2 : rvecs) :
  disjoint v1 v2 ->
  vsum sq (mloop (N:=RNum) f1 f2 f12 v1 v2) =
  vsum (fun _ u => f1 u * f1 u) v1 + vsum (fun _ u => f2 u * f2 u) v2.
Proof.
  revert v2. induction v1 as [|[k1 x1] t1 IH1]; intros v2 Hd.
  - cbn [mloop]. rewrite vsum_vmap. cbn [vsum]. unfold sq. lra.
  - induction v2 as [|[k2 x2] t2 IH2].
    + cbn [mloop]. rewrite vsum_vmap. cbn [vsum]. unfold sq. lra.
    + cbn [mloop]. destruct (kcmp k1 k2) eqn:E.
      * exfalso. apply kcmp_eq in E. subst k2. apply (Hd k1); simpl; auto.
      * cbn [vsum]. rewrite IH1.
        -- cbn [vsum]. unfold sq at 1. lra.
        -- intros k H1 H2. apply (Hd k); simpl; auto.
      * cbn [vsum]. cbn [mloop] in IH2. rewrite IH2.
        -- cbn [vsum]. unfold sq at 1. lra.
        -- intros k H1 H2. apply (Hd k); [exact H1 | simpl; auto].
Qed.

Lemma vsum_sq_merge_w (v1 v2 : rvecs) (w1 w2 : R) :
  disjoint v1 v2 ->
  vsum sq (merge_w (N:=RNum) v1 w1 v2 w2) = w1 * w1 * vsum sq v1 + w2 * w2 * vsum sq v2.
Proof.
  intros Hd. unfold merge_w. rewrite vsum_sq_mloop by exact Hd.
  rewrite <- !vsum_scal. f_equal; apply vsum_ext; intros; unfold sq; rn; ring.
Qed.

Lemma vsum_sq_merge (v1 v2 : rvecs) :
  disjoint v1 v2 -> vsum sq (merge (N:=RNum) v1 v2) = vsum sq v1 + vsum sq v2.
Proof. intros Hd. unfold merge. rewrite vsum_sq_mloop by exact Hd. reflexivity. Qed.

Lemma vsum_sq_nonneg (v : rvecs) : 0 <= vsum sq v.
Proof. induction v as [|[k u] v IH]; simpl; [lra|]. unfold sq at 1. nra. Qed.

Lemma kmem_In k l : kmem k l = true <-> In k l.
Proof.
  induction l as [|k' l IH]; simpl; [split; [discriminate|tauto]|].
  rewrite orb_true_iff, IH, keqb_eq. split; intros [H|H]; auto.
Qed.

Lemma keys_disjoint_spec (a b : rvecs) : keys_disjoint RNum a b = true <-> disjoint a b.
Proof.
  unfold keys_disjoint, disjoint. rewrite forallb_forall. split.
  - intros H k Ha Hb. specialize (H k Hb). rewrite negb_true_iff in H.
    apply (proj2 (kmem_In k _)) in Ha. congruence.
  - intros H k Hb. rewrite negb_true_iff. destruct (kmem k (keys (N:=RNum) a)) eqn:E; auto.
    apply kmem_In in E. exfalso; eauto.
Qed.

Lemma keys_disjoint_false (a b : rvecs) :
  keys_disjoint RNum a b = false <-> exists k, In k (keys (N:=RNum) a) /\ In k (keys (N:=RNum) b).
Proof.
  split.
  - intros H. unfold keys_disjoint in H.
    induction (keys (N:=RNum) b) as [|k l IH]; simpl in H; [discriminate|].
    apply andb_false_iff in H. destruct H as [H|H].
    + rewrite negb_false_iff in H. apply kmem_In in H. exists k; simpl; auto.
    + destruct (IH H) as [k' [H1 H2]]. exists k'; simpl; auto.
  - intros [k [Ha Hb]]. destruct (keys_disjoint RNum a b) eqn:E; auto.
    apply keys_disjoint_spec in E. exfalso; eauto.
Qed.

Lemma leaves_exist_nil s : leaves_exist s [].
Proof. intros k Hk. simpl in Hk. contradiction. Qed.
Lemma corr_sym_nil s : corr_sym_on s [].
Proof. split; intros k; simpl; intros; contradiction. Qed.

(* ================================================================== *)
(* what an argument reports as its uncertainty and variance            *)
(* ================================================================== *)
(* the two reads mult_2nd_real_pair makes of an argument: .u (fills the cache) then .v *)
Definition reads (s : state) (a : ureal) (c : cache) (v : R) : Prop :=
  exists u c1 c2, prop_u RNum s a c = Ok (u, c1) /\ prop_v RNum s a c1 = Ok (v, c2).

(* a result that was never read: v is the sum of squares of its (independent) components *)
Lemma reads_fresh s (a : ureal) :
  (unode a = NoNode \/ exists l, unode a = ConstLeaf l) -> dc a = [] ->
  reads s a None (vsum sq (uc a)).
Proof.
  intros Hn Hd. unfold reads, prop_u, prop_v.
  assert (Hv : std_variance_real RNum s a = Ok (vsum sq (uc a))).
  { rewrite std_variance_spec.
    - rewrite Hd. unfold dsum; simpl. f_equal. unfold sq. lra.
    - rewrite Hd. apply leaves_exist_nil.
    - rewrite Hd. apply corr_sym_nil. }
  assert (Hnu : node_u RNum s a = Ok (@None R)).
  { unfold node_u. cbn [T RNum] in *. destruct Hn as [->|[l ->]]; reflexivity. }
  rewrite Hnu. cbn [bind]. rewrite Hv. cbn [bind]. rn.
  rewrite sqrt_ok by apply vsum_sq_nonneg. cbn [bind].
  eexists _, _, _. split; [reflexivity|]. rn. rewrite sqrt_sqrt by apply vsum_sq_nonneg. reflexivity.
Qed.

(* an elementary independent input *)
Lemma reads_elementary s (a : ureal) k l c :
  unode a = LeafRef k -> leaf_of RNum s k = Ok l -> uc a = [(k, l_u l)] ->
  reads s a c (vsum sq (uc a)).
Proof.
  intros Hn Hl Hu. unfold reads, prop_u, prop_v, node_u. cbn [T RNum] in *. rewrite Hn, Hl. cbn [bind].
  eexists _, _, _. split; [reflexivity|]. rewrite Hu. simpl. unfold sq. rn. f_equal. f_equal. lra.
Qed.

(* ================================================================== *)
(* mult_2nd_real_pair                                                  *)
(* ================================================================== *)
Definition second_order_variance (est : bool) (x1 x2 v1 v2 : R) : R :=
  if est then Rmax (x2 * x2 - v2 / 2) 0 * v1 + Rmax (x1 * x1 - v1 / 2) 0 * v2
  else x2 * x2 * v1 + x1 * x1 * v2 + v1 * v2.

Theorem mul2_real_pair_spec s (a b : ureal) ca cb est :
  reads s a ca (vsum sq (uc a)) -> reads s b cb (vsum sq (uc b)) ->
  disjoint (uc a) (uc b) -> dc a = [] -> dc b = [] ->
  exists y ca' cb',
    mul2_real_pair RNum s a ca b cb est = Ok (y, ca', cb') /\
    ux y = ux a * ux b /\
    uc y = merge_w (N:=RNum) (uc a) (weight est (ux b) (vsum sq (uc b))) (uc b) (weight est (ux a) (vsum sq (uc a))) /\
    dc y = [] /\ unode y = NoNode /\
    std_variance_real RNum s y =
      Ok (second_order_variance est (ux a) (ux b) (vsum sq (uc a)) (vsum sq (uc b))).
Proof.
  intros (ua & ca1 & ca2 & Hua & Hva) (ub & cb1 & cb2 & Hub & Hvb) Hdis Hda Hdb.
  unfold mul2_real_pair. cbn [T RNum] in *. rewrite Hua. cbn [bind].
  rewrite (proj2 (keys_disjoint_spec _ _) Hdis). cbn [negb]. rewrite Hub. cbn [bind].
  rewrite Hda, Hdb. cbn [is_nil negb orb]. rewrite Hva, Hvb. cbn [bind].
  rewrite weights_spec by apply vsum_sq_nonneg. cbn [bind].
  eexists _, _, _. split; [reflexivity|].
  cbn [new_un ux uc dc unode g_mul2_value]. rn.
  repeat split; try reflexivity.
  rewrite std_variance_spec.
  - unfold new_un. cbn [uc dc]. unfold dsum; cbn [vsum]. f_equal.
    change (vsum (fun _ u => u * u)) with (vsum sq). rewrite vsum_sq_merge_w by exact Hdis.
    pose proof (vsum_sq_nonneg (uc a)) as Ha. pose proof (vsum_sq_nonneg (uc b)) as Hb.
    rewrite (weight_sq est (ux b)), (weight_sq est (ux a)) by assumption.
    unfold second_order_variance. destruct est; lra.
  - unfold new_un; cbn [dc]. apply leaves_exist_nil.
  - unfold new_un; cbn [dc]. apply corr_sym_nil.
Qed.

(* attribution: every influence of either factor, and nothing else, carries a component of the
   product; the component is the factor's own component times the weight of the other factor *)
Theorem mul2_real_pair_components s (a b : ureal) ca cb est y ca' cb' :
  mul2_real_pair RNum s a ca b cb est = Ok (y, ca', cb') ->
  sorted (N:=RNum) (uc a) -> sorted (N:=RNum) (uc b) ->
  sorted (N:=RNum) (ic a) -> sorted (N:=RNum) (ic b) ->
  exists w1 w2,
    (forall k, get0 (N:=RNum) (uc y) k = w1 * get0 (N:=RNum) (uc a) k + w2 * get0 (N:=RNum) (uc b) k) /\
    (forall k, get0 (N:=RNum) (ic y) k = w1 * get0 (N:=RNum) (ic a) k + w2 * get0 (N:=RNum) (ic b) k) /\
    (forall k, In k (keys (N:=RNum) (uc y)) <-> In k (keys (N:=RNum) (uc a)) \/ In k (keys (N:=RNum) (uc b))) /\
    sorted (N:=RNum) (uc y) /\ dc y = [].
Proof.
  intros H Sa Sb Sia Sib. unfold mul2_real_pair in H. cbn [T RNum] in *.
  destruct (prop_u RNum s a ca) as [[ua ca1]|] eqn:E1; [|discriminate]. cbn [bind] in H.
  destruct (negb (keys_disjoint RNum (uc a) (uc b))); [discriminate|].
  destruct (prop_u RNum s b cb) as [[ub cb1]|] eqn:E2; [|discriminate]. cbn [bind] in H.
  destruct (negb (is_nil (dc a)) || negb (is_nil (dc b))); [discriminate|].
  destruct (prop_v RNum s a ca1) as [[v1 ca2]|]; [|discriminate]. cbn [bind] in H.
  destruct (prop_v RNum s b cb1) as [[v2 cb2]|]; [|discriminate]. cbn [bind] in H.
  destruct (g_mul2_weights RNum est (ux a) (ux b) v1 v2) as [[w1 w2]|]; [|discriminate]. cbn [bind] in H.
  injection H as <- _ _. exists w1, w2. cbn [new_un uc dc ic].
  split; [intros k; apply get0_merge_w; assumption|].
  split; [intros k; apply get0_merge_w; assumption|].
  split; [intros k; apply keys_merge_w|].
  split; [apply sorted_merge_w; assumption | reflexivity].
Qed.

(* the budget: the components of the product, over its influences, root-sum-square to u *)
Lemma vget_own (w : rvecs) : sorted (N:=RNum) w ->
  forall k0 u0, In (k0, u0) w -> vget RNum w k0 = u0.
Proof.
  induction w as [|[k1 u1] w IHw]; intros Sw k0 u0 Hin; [destruct Hin|].
  unfold vget. cbn [get]. destruct Hin as [Heq|Hin].
  - injection Heq as -> ->. rewrite keqb_refl. reflexivity.
  - assert (Hlt : kcmp k1 k0 = Lt).
    { apply (sorted_head_lt RNum k1 u1 w k0 Sw). apply in_map_iff. exists (k0, u0); auto. }
    destruct (keqb_neq _ _ Hlt) as [E1 _]. rewrite E1.
    apply (IHw (sorted_tail RNum _ _ _ Sw)). exact Hin.
Qed.

Theorem mul2_budget_rss s (y : ureal) :
  sorted (N:=RNum) (uc y) -> dc y = [] -> unode y = NoNode ->
  exists u c, prop_u RNum s y None = Ok (u, c) /\
    u = sqrt (vsum (fun k _ => vget RNum (uc y) k * vget RNum (uc y) k) (uc y)).
Proof.
  intros S Hd Hn. unfold prop_u, node_u. cbn [T RNum] in *. rewrite Hn. cbn [bind].
  rewrite std_variance_spec.
  - cbn [bind]. rewrite Hd. unfold dsum; cbn [vsum]. rn.
    assert (E : vsum (fun _ u => u * u) (uc y) + 0 = vsum (fun k _ => vget RNum (uc y) k * vget RNum (uc y) k) (uc y)).
    { rewrite Rplus_0_r. apply vsum_ext. intros k u Hin. rewrite (vget_own (uc y) S k u Hin). reflexivity. }
    rewrite E.
    assert (P : 0 <= vsum (fun k _ => vget RNum (uc y) k * vget RNum (uc y) k) (uc y)).
    { rewrite <- E. pose proof (vsum_sq_nonneg (uc y)) as Hs. unfold sq in Hs. lra. }
    rewrite sqrt_ok by exact P. cbn [bind]. eexists _, _. split; reflexivity.
  - rewrite Hd. apply leaves_exist_nil.
  - rewrite Hd. apply corr_sym_nil.
Qed.

(* the preconditions *)
Theorem mul2_shared_influence_raises s (a b : ureal) ca cb est u c1 :
  prop_u RNum s a ca = Ok (u, c1) ->
  (exists k, In k (keys (N:=RNum) (uc a)) /\ In k (keys (N:=RNum) (uc b))) ->
  mul2_real_pair RNum s a ca b cb est = Err RuntimeError.
Proof.
  intros Hu Hk. unfold mul2_real_pair. cbn [T RNum] in *. rewrite Hu. cbn [bind].
  rewrite (proj2 (keys_disjoint_false _ _) Hk). reflexivity.
Qed.

Theorem mul2_dependent_raises s (a b : ureal) ca cb est u c1 u' c1' :
  prop_u RNum s a ca = Ok (u, c1) -> prop_u RNum s b cb = Ok (u', c1') ->
  dc a <> [] \/ dc b <> [] ->
  mul2_real_pair RNum s a ca b cb est = Err RuntimeError.
Proof.
  intros Hu Hu' Hd. unfold mul2_real_pair. cbn [T RNum] in *. rewrite Hu. cbn [bind].
  destruct (negb (keys_disjoint RNum (uc a) (uc b))); [reflexivity|].
  rewrite Hu'. cbn [bind].
  destruct (dc a), (dc b); cbn [is_nil negb orb]; try reflexivity.
  destruct Hd as [H|H]; contradiction H; reflexivity.
Qed.

Theorem mul2_success_preconditions s (a b : ureal) ca cb est r :
  mul2_real_pair RNum s a ca b cb est = Ok r ->
  disjoint (uc a) (uc b) /\ dc a = [] /\ dc b = [].
Proof.
  intros H. unfold mul2_real_pair in H. cbn [T RNum] in *.
  destruct (prop_u RNum s a ca) as [[ua ca1]|]; [|discriminate]. cbn [bind] in H.
  destruct (keys_disjoint RNum (uc a) (uc b)) eqn:E; [|discriminate]. cbn [negb] in H.
  destruct (prop_u RNum s b cb) as [[ub cb1]|]; [|discriminate]. cbn [bind] in H.
  split; [apply keys_disjoint_spec; exact E|].
  destruct (dc a), (dc b); cbn [is_nil negb orb] in H; try discriminate. auto.
Qed.

(* ================================================================== *)
(* complex and mixed products: sums / differences of real products     *)
(* ================================================================== *)
Lemma variance_indep s (y : ureal) : dc y = [] -> std_variance_real RNum s y = Ok (vsum sq (uc y)).
Proof.
  intros Hd. rewrite std_variance_spec.
  - rewrite Hd. unfold dsum; cbn [vsum]. f_equal. unfold sq. lra.
  - rewrite Hd. apply leaves_exist_nil.
  - rewrite Hd. apply corr_sym_nil.
Qed.

Lemma mul2_real_pair_shape s (a b : ureal) ca cb est y ca' cb' :
  mul2_real_pair RNum s a ca b cb est = Ok (y, ca', cb') -> dc y = [] /\ unode y = NoNode /\ ux y = ux a * ux b.
Proof.
  intros H. unfold mul2_real_pair in H. cbn [T RNum] in *.
  destruct (prop_u RNum s a ca) as [[ua ca1]|]; [|discriminate]. cbn [bind] in H.
  destruct (negb (keys_disjoint RNum (uc a) (uc b))); [discriminate|].
  destruct (prop_u RNum s b cb) as [[ub cb1]|]; [|discriminate]. cbn [bind] in H.
  destruct (negb (is_nil (dc a)) || negb (is_nil (dc b))); [discriminate|].
  destruct (prop_v RNum s a ca1) as [[v1 ca2]|]; [|discriminate]. cbn [bind] in H.
  destruct (prop_v RNum s b cb1) as [[v2 cb2]|]; [|discriminate]. cbn [bind] in H.
  destruct (g_mul2_weights RNum est (ux a) (ux b) v1 v2) as [[w1 w2]|]; [|discriminate]. cbn [bind] in H.
  injection H as <- _ _. repeat split.
Qed.

Lemma dyad_1 : IZR 1 * powerRZ 2 0 = 1. Proof. simpl; ring. Qed.

(* p1 - p2 and p1 + p2 for uncertain reals without dependent components *)
Lemma sub_uu_spec s (p1 p2 re : ureal) :
  dc p1 = [] -> dc p2 = [] ->
  (v <- apply_bin RNum B_sub (@OpdU RNum p1) (@OpdU RNum p2) ;; obj_of RNum v) = Ok re ->
  ux re = ux p1 - ux p2 /\ dc re = [] /\
  (sorted (N:=RNum) (uc p1) -> sorted (N:=RNum) (uc p2) ->
   forall k, get0 (N:=RNum) (uc re) k = get0 (N:=RNum) (uc p1) k - get0 (N:=RNum) (uc p2) k) /\
  (disjoint (uc p1) (uc p2) ->
   exists v1 v2, std_variance_real RNum s p1 = Ok v1 /\ std_variance_real RNum s p2 = Ok v2 /\
                 std_variance_real RNum s re = Ok (v1 + v2)).
Proof.
  intros H1 H2 H. cbn in H. injection H as <-. unfold new_un. cbn [ux uc dc]. rewrite H1, H2.
  split; [reflexivity|]. split; [reflexivity|]. split.
  - intros S1 S2 k. rewrite get0_merge_w by assumption. rring.
  - intros Hd. exists (vsum sq (uc p1)), (vsum sq (uc p2)).
    rewrite !variance_indep by (try assumption; reflexivity). cbn [uc].
    repeat split. f_equal. rewrite vsum_sq_merge_w by exact Hd. rring.
Qed.

Lemma add_uu_spec s (p1 p2 im : ureal) :
  dc p1 = [] -> dc p2 = [] ->
  (v <- apply_bin RNum B_add (@OpdU RNum p1) (@OpdU RNum p2) ;; obj_of RNum v) = Ok im ->
  ux im = ux p1 + ux p2 /\ dc im = [] /\
  (sorted (N:=RNum) (uc p1) -> sorted (N:=RNum) (uc p2) ->
   forall k, get0 (N:=RNum) (uc im) k = get0 (N:=RNum) (uc p1) k + get0 (N:=RNum) (uc p2) k) /\
  (disjoint (uc p1) (uc p2) ->
   exists v1 v2, std_variance_real RNum s p1 = Ok v1 /\ std_variance_real RNum s p2 = Ok v2 /\
                 std_variance_real RNum s im = Ok (v1 + v2)).
Proof.
  intros H1 H2 H. cbn in H. injection H as <-. unfold new_un. cbn [ux uc dc]. rewrite H1, H2.
  split; [reflexivity|]. split; [reflexivity|]. split.
  - intros S1 S2 k. rewrite get0_merge by assumption. reflexivity.
  - intros Hd. exists (vsum sq (uc p1)), (vsum sq (uc p2)).
    rewrite !variance_indep by (try assumption; reflexivity). cbn [uc].
    repeat split. f_equal. apply vsum_sq_merge. exact Hd.
Qed.

(* "p is a real second-order product of a and b" (whatever the cache contents) *)
Definition is_product s est (a b p : ureal) : Prop :=
  exists ca cb ca' cb', mul2_real_pair RNum s a ca b cb est = Ok (p, ca', cb').

Theorem mul2_complex_pair_spec s xr cxr xi cxi yr cyr yi cyi est re im :
  mul2_complex_pair RNum s xr cxr xi cxi yr cyr yi cyi est = Ok (MOutC re im) ->
  exists p1 p2 p3 p4,
    is_product s est xr yr p1 /\ is_product s est xi yi p2 /\
    is_product s est xi yr p3 /\ is_product s est xr yi p4 /\
    ux re = ux xr * ux yr - ux xi * ux yi /\ ux im = ux xi * ux yr + ux xr * ux yi /\
    dc re = [] /\ dc im = [] /\
    (sorted (N:=RNum) (uc p1) -> sorted (N:=RNum) (uc p2) ->
     forall k, get0 (N:=RNum) (uc re) k = get0 (N:=RNum) (uc p1) k - get0 (N:=RNum) (uc p2) k) /\
    (sorted (N:=RNum) (uc p3) -> sorted (N:=RNum) (uc p4) ->
     forall k, get0 (N:=RNum) (uc im) k = get0 (N:=RNum) (uc p3) k + get0 (N:=RNum) (uc p4) k) /\
    (disjoint (uc p1) (uc p2) ->
     exists v1 v2, std_variance_real RNum s p1 = Ok v1 /\ std_variance_real RNum s p2 = Ok v2 /\
                   std_variance_real RNum s re = Ok (v1 + v2)) /\
    (disjoint (uc p3) (uc p4) ->
     exists v3 v4, std_variance_real RNum s p3 = Ok v3 /\ std_variance_real RNum s p4 = Ok v4 /\
                   std_variance_real RNum s im = Ok (v3 + v4)).
Proof.
  intros H. unfold mul2_complex_pair in H.
  destruct (mul2_real_pair RNum s xr cxr yr cyr est) as [[[p1 c1] c2]|] eqn:E1; [|discriminate]. cbn [bind] in H.
  destruct (mul2_real_pair RNum s xi cxi yi cyi est) as [[[p2 c3] c4]|] eqn:E2; [|discriminate]. cbn [bind] in H.
  destruct (v <- apply_bin RNum B_sub (@OpdU RNum p1) (@OpdU RNum p2) ;; obj_of RNum v) as [re'|] eqn:Er; [|discriminate]. cbn [bind] in H.
  destruct (mul2_real_pair RNum s xi c3 yr c2 est) as [[[p3 c5] c6]|] eqn:E3; [|discriminate]. cbn [bind] in H.
  destruct (mul2_real_pair RNum s xr c1 yi c4 est) as [[[p4 c7] c8]|] eqn:E4; [|discriminate]. cbn [bind] in H.
  destruct (v <- apply_bin RNum B_add (@OpdU RNum p3) (@OpdU RNum p4) ;; obj_of RNum v) as [im'|] eqn:Ei; [|discriminate]. cbn [bind] in H.
  injection H as <- <-.
  destruct (mul2_real_pair_shape _ _ _ _ _ _ _ _ _ E1) as (D1 & _ & X1).
  destruct (mul2_real_pair_shape _ _ _ _ _ _ _ _ _ E2) as (D2 & _ & X2).
  destruct (mul2_real_pair_shape _ _ _ _ _ _ _ _ _ E3) as (D3 & _ & X3).
  destruct (mul2_real_pair_shape _ _ _ _ _ _ _ _ _ E4) as (D4 & _ & X4).
  destruct (sub_uu_spec s p1 p2 re' D1 D2 Er) as (Vr & Dr & Gr & Sr).
  destruct (add_uu_spec s p3 p4 im' D3 D4 Ei) as (Vi & Di & Gi & Si).
  exists p1, p2, p3, p4.
  split; [eexists _, _, _, _; exact E1|]. split; [eexists _, _, _, _; exact E2|].
  split; [eexists _, _, _, _; exact E3|]. split; [eexists _, _, _, _; exact E4|].
  cbn [T RNum] in *.
  split; [rewrite Vr, X1, X2; reflexivity|]. split; [rewrite Vi, X3, X4; reflexivity|].
  repeat split; assumption.
Qed.

Theorem mul2_real_complex_spec s a ca yr cyr yi cyi est re im :
  mul2_real_complex RNum s a ca yr cyr yi cyi est = Ok (MOutC re im) ->
  is_product s est a yr re /\ is_product s est a yi im.
Proof.
  intros H. unfold mul2_real_complex in H.
  destruct (mul2_real_pair RNum s a ca yr cyr est) as [[[p1 c1] c2]|] eqn:E1; [|discriminate]. cbn [bind] in H.
  destruct (mul2_real_pair RNum s a c1 yi cyi est) as [[[p2 c3] c4]|] eqn:E2; [|discriminate]. cbn [bind] in H.
  injection H as <- <-. split; eexists _, _, _, _; eassumption.
Qed.

(* _simple_variance: unequal variances or correlated components -> RuntimeError *)
Definition tol15 : R := IZR 2535301200456459 * powerRZ 2 (-101).      (* the double 1E-15 *)

Lemma g_simple_variance_spec v11 v12 v21 v22 :
  (g_simple_variance RNum v11 v12 v21 v22 = Err RuntimeError <->
   (tol15 < Rabs (v11 - v22) \/ tol15 < Rabs v12 \/ tol15 < Rabs v21)) /\
  (g_simple_variance RNum v11 v12 v21 v22 = Ok tt <->
   (Rabs (v11 - v22) <= tol15 /\ Rabs v12 <= tol15 /\ Rabs v21 <= tol15)).
Proof.
  unfold g_simple_variance, tol15. rn. unfold Rltb.
  set (t := IZR 2535301200456459 * powerRZ 2 (-101)).
  destruct (Rlt_dec t (Rabs (v11 - v22))), (Rlt_dec t (Rabs v12)), (Rlt_dec t (Rabs v21)); cbn [orb];
    split; split; intros H; try reflexivity; try discriminate; try tauto; try lra.
  all: try (destruct H as [H|[H|H]]; lra).
Qed.

Theorem simple_variance_raises s (re : ureal) cre (im : ureal) cim vr vi cv c1 c2 :
  prop_v RNum s re cre = Ok (vr, c1) -> prop_v RNum s im cim = Ok (vi, c2) ->
  std_covariance_real RNum s re im = Ok cv ->
  (tol15 < Rabs (vr - vi) \/ tol15 < Rabs cv) ->
  simple_variance RNum s re cre im cim = Err RuntimeError.
Proof.
  intros H1 H2 H3 H. unfold simple_variance. rewrite H1. cbn [bind]. rewrite H2. cbn [bind]. rewrite H3. cbn [bind].
  rewrite (proj2 (proj1 (g_simple_variance_spec vr cv cv vi))); [reflexivity|]. tauto.
Qed.

Theorem mul2_non_uncertain_raises s a est :
  mul2 RNum s MOther a est = Err RuntimeError /\ mul2 RNum s a MOther est = Err RuntimeError.
Proof. split; destruct a; reflexivity. Qed.

(* ================================================================== *)
(* x % y and fmod(x, y)                                                *)
(* ================================================================== *)
(* Python's float % and math.fmod over the reals: remainders of floor and of truncating
   division; ZeroDivisionError / ValueError for a zero modulus *)
Definition floor_R (x : R) : R := IZR (Int_part x).
Definition trunc_R (x : R) : R := if Rle_dec 0 x then IZR (Int_part x) else - IZR (Int_part (- x)).
Definition pymod_R (x y : R) : res R :=
  if Req_EM_T y 0 then Err ZeroDivisionError else Ok (x - y * floor_R (x / y)).
Definition fmod_R (x y : R) : res R :=
  if Req_EM_T y 0 then Err ValueError else Ok (x - y * trunc_R (x / y)).

(* the real instance with % and fmod added to the external functions *)
Definition RNumM : Num := {|
  T := R; of_Z := of_Z RNum; dyad := dyad RNum; c_log10e := c_log10e RNum; c_inf := c_inf RNum;
  add := Rplus; sub := Rminus; mul := Rmult; neg := Ropp; nabs := Rabs; div := R_div;
  same := Reqb; eqb := Reqb; ltb := Rltb; leb := Rleb;
  is_nan := fun _ => false; is_inf := fun _ => false;
  libm1 := R_libm1;
  libm2 := fun f x y => match f with F_fmod => fmod_R x y | F_pymod => pymod_R x y | _ => R_libm2 f x y end;
  fsum := fsum RNum |}.

Ltac rm := cbn [T of_Z dyad add sub mul neg nabs div eqb ltb leb same libm1 libm2 RNumM RNum bind] in *.

Lemma vmap_one (v : list (key * R)) : vmap (N:=RNumM) (Rmult (IZR 1 * powerRZ 2 0)) v = v.
Proof.
  induction v as [|[k u] v IH]; simpl; [reflexivity|]. simpl in IH. rewrite IH. f_equal. f_equal. ring.
Qed.

Lemma scale_one (v : list (key * R)) : scale (N:=RNumM) v (IZR 1 * powerRZ 2 0) = v.
Proof. unfold scale. rm. apply vmap_one. Qed.

Lemma trunc_0 y : trunc_R (0 / y) = 0.
Proof.
  unfold trunc_R. replace (0 / y) with 0 by (unfold Rdiv; ring).
  destruct (Rle_dec 0 0) as [_|n]; [|lra].
  replace (Int_part 0) with 0%Z; [reflexivity|]. symmetry.
  assert (H : Int_part (IZR 0) = 0%Z) by apply Int_part_IZR. exact H.
Qed.

Theorem umod_spec (o : ureal) (y : R) :
  (y <> 0 -> umod RNumM o y =
             Ok (VObj (mkU (ux o - y * floor_R (ux o / y)) (uc o) (dc o) (ic o) NoNode))) /\
  (y = 0 -> umod RNumM o y = Err ZeroDivisionError).
Proof.
  unfold umod, g_mod_value. rm. unfold pymod_R. split; intros H.
  - destruct (Req_EM_T y 0); [contradiction|]. reflexivity.
  - destruct (Req_EM_T y 0); [reflexivity|contradiction].
Qed.

Theorem ufmod_spec (o : ureal) (y : R) :
  (y = 0 -> ufmod RNumM o y = Err ValueError) /\
  (y <> 0 -> ux o = 0 -> ufmod RNumM o y = Ok (VSame L)) /\
  (y <> 0 -> ux o <> 0 ->
   exists r, ufmod RNumM o y = Ok (VObj r) /\ ux r = ux o - y * trunc_R (ux o / y) /\
             uc r = uc o /\ dc r = dc o /\ ic r = ic o).
Proof.
  unfold ufmod, g_fmod_value. rm. unfold fmod_R.
  split; [|split].
  - intros ->. destruct (Req_EM_T 0 0); [reflexivity|contradiction].
  - intros Hy Hx. destruct (Req_EM_T y 0); [contradiction|]. cbn [bind].
    unfold apply_bin, g_bin_un, g_bin_nu, g_sub_num, g_radd_num. rm.
    rewrite Hx. replace (IZR 0 * powerRZ 2 0) with 0 by (simpl; ring).
    unfold Reqb at 1. destruct (Req_EM_T 0 0) as [_|n']; [|contradiction]. cbn [bind realize as_obj].
    rewrite trunc_0. replace (0 - y * 0) with 0 by ring.
    unfold Reqb. destruct (Req_EM_T 0 0) as [_|n']; [|contradiction]. reflexivity.
  - intros Hy Hx. destruct (Req_EM_T y 0); [contradiction|]. cbn [bind].
    unfold apply_bin, g_bin_un, g_bin_nu, g_sub_num, g_radd_num. rm.
    replace (IZR 0 * powerRZ 2 0) with 0 by (simpl; ring).
    unfold Reqb at 1. destruct (Req_EM_T (ux o) 0) as [e|_]; [contradiction|]. cbn [bind realize pick as_obj].
    unfold new_un. cbn [ux uc dc ic]. rewrite !scale_one.
    set (m := ux o - y * trunc_R (ux o / y)).
    unfold Reqb. destruct (Req_EM_T m 0) as [e|ne]; cbn [bind realize pick].
    + eexists. split; [reflexivity|]. cbn [ux uc dc ic]. repeat split. rewrite e. ring.
    + eexists. split; [reflexivity|]. unfold new_un. cbn [ux uc dc ic]. rewrite !scale_one. repeat split. ring.
Qed.

(* ================================================================== *)
(* type_a.merge                                                        *)
(* ================================================================== *)
Theorem tmerge_raises (a b : @operand RNum) (tol : R) :
  tol < Rabs (val_of RNum a - val_of RNum b) -> tmerge RNum a b tol = Err RuntimeError.
Proof.
  intros H. unfold tmerge, g_merge_differs. rn. rewrite (proj2 (Rltb_true _ _) H). reflexivity.
Qed.

Lemma vmap_one' (v : list (key * R)) : vmap (N:=RNum) (Rmult (IZR 1 * powerRZ 2 0)) v = v.
Proof.
  induction v as [|[k u] v IH]; simpl; [reflexivity|]. simpl in IH. rewrite IH. f_equal. f_equal. ring.
Qed.
Lemma scale_one' (v : list (key * R)) : scale (N:=RNum) v (IZR 1 * powerRZ 2 0) = v.
Proof. unfold scale. rn. apply vmap_one'. Qed.

Theorem tmerge_uu_spec (oa ob : ureal) (tol : R) :
  Rabs (ux oa - ux ob) <= tol ->
  exists r, tmerge RNum (@OpdU RNum oa) (@OpdU RNum ob) tol = Ok (@MObj RNum r) /\
            ux r = ux oa /\
            uc r = merge (N:=RNum) (uc oa) (uc ob) /\ dc r = merge (N:=RNum) (dc oa) (dc ob) /\
            ic r = merge (N:=RNum) (ic oa) (ic ob).
Proof.
  intros H. unfold tmerge, g_merge_differs. rn. cbn [val_of].
  assert (E : Rltb tol (Rabs (ux oa - ux ob)) = false) by (apply Rltb_false; lra).
  cbn [T RNum] in *. rewrite E.
  unfold apply_bin, g_bin_un, g_bin_uu, g_sub_num, g_add_un. rn.
  replace (IZR 0 * powerRZ 2 0) with 0 by (simpl; ring).
  unfold Reqb. destruct (Req_EM_T (ux ob) 0) as [e|ne]; cbn [bind realize pick as_obj].
  - eexists. split; [reflexivity|]. unfold new_un. cbn [ux uc dc ic]. repeat split. rewrite e. ring.
  - eexists. split; [reflexivity|]. unfold new_un. cbn [ux uc dc ic]. rewrite !scale_one'. repeat split. ring.
Qed.

(* the merged object carries, for every influence, the sum of the components of a and b *)
Corollary tmerge_components (oa ob r : ureal) tol :
  tmerge RNum (@OpdU RNum oa) (@OpdU RNum ob) tol = Ok (@MObj RNum r) ->
  sorted (N:=RNum) (uc oa) -> sorted (N:=RNum) (uc ob) ->
  ux r = ux oa /\ forall k, get0 (N:=RNum) (uc r) k = get0 (N:=RNum) (uc oa) k + get0 (N:=RNum) (uc ob) k.
Proof.
  intros H S1 S2.
  destruct (Rle_dec (Rabs (ux oa - ux ob)) tol) as [Hle|Hgt].
  - destruct (tmerge_uu_spec oa ob tol Hle) as (r' & E & Hx & Hu & _). rewrite E in H. injection H as <-.
    cbn [T RNum] in *. split; [exact Hx|]. intros k. rewrite Hu. apply get0_merge; assumption.
  - rewrite tmerge_raises in H; [discriminate|]. cbn [val_of]. apply Rnot_le_lt. exact Hgt.
Qed.

(* ================================================================== *)
(* function.implicit                                                   *)
(* ================================================================== *)
Section ImplicitFacts.
  Variable F : ureal -> res (@operand RNum).

  Lemma dx_dy_spec d : d <> 0 -> g_implicit_dx_dy RNum d = Ok (- 1 / d).
  Proof.
    intros H. unfold g_implicit_dx_dy. rn. unfold R_div. destruct (Req_EM_T d 0); [contradiction|]. reflexivity.
  Qed.
  Lemma dx_dy_zero : g_implicit_dx_dy RNum 0 = Err ZeroDivisionError.
  Proof. unfold g_implicit_dx_dy. rn. unfold R_div. destruct (Req_EM_T 0 0); [reflexivity|contradiction]. Qed.

  (* the components of the solution: u_i(x) = -(u_i(F) / (dF/dx)), in all three vectors *)
  Definition scaled_by (d : R) (oy r : ureal) : Prop :=
    (forall k, get0 (N:=RNum) (uc r) k = - get0 (N:=RNum) (uc oy) k / d) /\
    (forall k, get0 (N:=RNum) (dc r) k = - get0 (N:=RNum) (dc oy) k / d) /\
    (forall k, get0 (N:=RNum) (ic r) k = - get0 (N:=RNum) (ic oy) k / d).

  Theorem finish_implicit_spec xk d oy :
    F (mk_constant RNum xk None) = Ok (@OpdU RNum oy) -> d <> 0 ->
    exists r, finish_implicit RNum F xk d = Ok r /\ ux r = xk /\ scaled_by d oy r.
  Proof.
    intros HF Hd. unfold finish_implicit. rewrite HF. cbn [bind]. rewrite dx_dy_spec by exact Hd. cbn [bind].
    eexists. split; [reflexivity|]. unfold new_un, scaled_by. cbn [ux uc dc ic].
    split; [reflexivity|]. repeat split; intros k; rewrite get0_scale; cbn [T RNum]; field; exact Hd.
  Qed.

  Theorem implicit_real_inv s lo hi eps s' r :
    implicit_real RNum F s lo hi eps = Ok (s', r) ->
    exists xk d oy,
      nr_get_root RNum F s lo hi eps = Ok (s', xk, d) /\
      F (mk_constant RNum xk None) = Ok (@OpdU RNum oy) /\ d <> 0 /\
      ux r = xk /\ scaled_by d oy r.
  Proof.
    intros H. unfold implicit_real in H.
    destruct (nr_get_root RNum F s lo hi eps) as [[[s1 xk] d]|] eqn:E; [|discriminate]. cbn [bind] in H.
    destruct (finish_implicit RNum F xk d) as [o|] eqn:Ef; [|discriminate]. cbn [bind] in H. injection H as <- <-.
    unfold finish_implicit in Ef.
    destruct (F (mk_constant RNum xk None)) as [[oy|v]|] eqn:EF; [| |discriminate]; cbn [bind] in Ef.
    - destruct (Req_EM_T d 0) as [->|Hd].
      + rewrite dx_dy_zero in Ef. discriminate.
      + destruct (finish_implicit_spec xk d oy EF Hd) as (r & Hr & Hx & Hs).
        unfold finish_implicit in Hr. rewrite EF in Hr. cbn [bind] in Hr. rewrite Hr in Ef. injection Ef as <-.
        exists xk, d, oy. repeat split; try assumption; apply Hs.
    - destruct (g_implicit_dx_dy RNum d); discriminate.
  Qed.

  (* RuntimeError: empty search range, and no sign change between the bracket ends *)
  Theorem empty_range_raises s lo hi eps :
    hi <= lo -> implicit_real RNum F s lo hi eps = Err RuntimeError.
  Proof.
    intros H. unfold implicit_real, nr_get_root, nr_get_root_n. rn. rewrite (proj2 (Rleb_true _ _) H). reflexivity.
  Qed.

  Theorem no_sign_change_raises s lo hi eps s1 x1 o1 s2 x2 r2 :
    lo < hi ->
    probe RNum F s lo = Ok (s1, x1, @OpdU RNum o1) -> probe RNum F s1 hi = Ok (s2, x2, r2) ->
    eps <= Rabs (ux o1) -> eps <= Rabs (val_of RNum r2) -> 0 <= ux o1 * val_of RNum r2 ->
    implicit_real RNum F s lo hi eps = Err RuntimeError.
  Proof.
    intros Hr P1 P2 E1 E2 Hs. unfold implicit_real, nr_get_root, nr_get_root_n. rn.
    rewrite (proj2 (Rleb_false hi lo)) by lra. rewrite P1. cbn [bind val_of T RNum] in *.
    rewrite (proj2 (Rltb_false (Rabs (ux o1)) eps)) by lra. rewrite P2. cbn [bind T RNum] in *.
    rewrite (proj2 (Rltb_false (Rabs (val_of RNum r2)) eps)) by lra.
    unfold zero. rn. rewrite (proj2 (Rleb_true 0 (ux o1 * val_of RNum r2))) by exact Hs. reflexivity.
  Qed.

  (* the derivative the search returns is the sensitivity of fn at a probe placed AT the
     returned point -- the invariant of the Newton / bisection loop *)
  Definition probed (xk d : R) : Prop :=
    exists s0 s1 x r, probe RNum F s0 xk = Ok (s1, x, r) /\ sens_of RNum s1 r x = Ok d.

  Lemma nr_loop_probed fuel : forall s eps xk lo up dx dx2 f df s' xk' d',
    probed xk df -> nr_loop RNum F fuel s eps xk lo up dx dx2 f df = Ok (s', xk', d') -> probed xk' d'.
  Proof.
    induction fuel as [|fuel IH]; intros s eps xk lo up dx dx2 f df s' xk' d' Hp H; [discriminate|].
    cbn [nr_loop] in H.
    match type of H with context [if ?b then _ else _] => destruct b end.
    - destruct (div RNum (sub RNum up lo) (two RNum)) as [dd|]; [|discriminate]. cbn [bind] in H.
      destruct (leb RNum (nabs RNum dd) eps); [injection H as <- <- <-; exact Hp|].
      destruct (probe RNum F s (add RNum lo dd)) as [[[s1 x1] r1]|] eqn:P; [|discriminate]. cbn [bind] in H.
      destruct (sens_of RNum s1 r1 x1) as [df1|] eqn:S; [|discriminate]. cbn [bind] in H.
      assert (Hp1 : probed (add RNum lo dd) df1) by (exists s, s1, x1, r1; auto).
      destruct (ltb RNum (val_of RNum r1) (zero RNum)); eapply IH; eauto.
    - destruct (div RNum f df) as [dd|]; [|discriminate]. cbn [bind] in H.
      destruct (leb RNum (nabs RNum dd) eps); [injection H as <- <- <-; exact Hp|].
      destruct (probe RNum F s (sub RNum xk dd)) as [[[s1 x1] r1]|] eqn:P; [|discriminate]. cbn [bind] in H.
      destruct (sens_of RNum s1 r1 x1) as [df1|] eqn:S; [|discriminate]. cbn [bind] in H.
      assert (Hp1 : probed (sub RNum xk dd) df1) by (exists s, s1, x1, r1; auto).
      destruct (ltb RNum (val_of RNum r1) (zero RNum)); eapply IH; eauto.
  Qed.

  (* the invariant holds for EVERY successful search, the bracket ends included (before the repair of
     finding C20-implicit-end the function value was returned there, and this theorem was false) *)
  Lemma nr_get_root_n_probed fuel s lo hi eps s' xk d :
    nr_get_root_n RNum F fuel s lo hi eps = Ok (s', xk, d) -> probed xk d.
  Proof.
    intros H. unfold nr_get_root_n in H.
    destruct (leb RNum hi lo); [discriminate|].
    destruct (probe RNum F s lo) as [[[s1 x1] r1]|] eqn:P1; [|discriminate]. cbn [bind] in H.
    destruct r1 as [o1|v1]; [|discriminate]. cbn [val_of] in H.
    destruct (ltb RNum (nabs RNum (ux o1)) eps) eqn:L1.
    { destruct (sens_of RNum s1 (@OpdU RNum o1) x1) as [d1|] eqn:S1; [|discriminate]. cbn [bind] in H.
      injection H as <- <- <-. exists s, s1, x1, (@OpdU RNum o1). auto. }
    destruct (probe RNum F s1 hi) as [[[s2 x2] r2]|] eqn:P2; [|discriminate]. cbn [bind] in H.
    destruct (ltb RNum (nabs RNum (val_of RNum r2)) eps) eqn:L2.
    { destruct (sens_of RNum s2 r2 x2) as [d2|] eqn:S2; [|discriminate]. cbn [bind] in H.
      injection H as <- <- <-. exists s1, s2, x2, r2. auto. }
    destruct (leb RNum (zero RNum) (mul RNum (ux o1) (val_of RNum r2))); [discriminate|].
    match type of H with context [div RNum ?a ?b] => destruct (div RNum a b) as [xm|]; [|discriminate] end.
    cbn [bind] in H.
    destruct (probe RNum F s2 xm) as [[[s3 x3] r3]|] eqn:P3; [|discriminate]. cbn [bind] in H.
    destruct (sens_of RNum s3 r3 x3) as [d3|] eqn:S3; [|discriminate]. cbn [bind] in H.
    eapply nr_loop_probed; [|exact H]. exists s2, s3, x3, r3. auto.
  Qed.

  Theorem nr_get_root_probed s lo hi eps s' xk d :
    nr_get_root RNum F s lo hi eps = Ok (s', xk, d) -> probed xk d.
  Proof. exact (nr_get_root_n_probed 100 s lo hi eps s' xk d). Qed.

  (* hence: what implicit returns is xk with the components of fn(constant(xk)) scaled by -1/d where d is the
     sensitivity of fn to a probe placed at xk itself *)
  Theorem implicit_real_probed s lo hi eps s' r :
    implicit_real RNum F s lo hi eps = Ok (s', r) ->
    exists d oy, probed (ux r) d /\ F (mk_constant RNum (ux r) None) = Ok (@OpdU RNum oy) /\ d <> 0 /\ scaled_by d oy r.
  Proof.
    intros H. destruct (implicit_real_inv s lo hi eps s' r H) as (xk & d & oy & Hn & HF & Hd & Hx & Hs).
    exists d, oy. rewrite Hx. split; [eapply nr_get_root_probed; eassumption|]. split; [exact HF|]. split; [exact Hd|exact Hs].
  Qed.
End ImplicitFacts.

(* ---------- a root at a bracket end ---------- *)
Ltac decide_R :=
  repeat (unfold Reqb, Rltb, Rleb, R_div in *;
          match goal with
          | |- context [Req_EM_T ?a ?b] => destruct (Req_EM_T a b); try (exfalso; lra)
          | |- context [Rlt_dec ?a ?b] => destruct (Rlt_dec a b); try (exfalso; lra)
          | |- context [Rle_dec ?a ?b] => destruct (Rle_dec a b); try (exfalso; lra)
          end).

Section EndLemma.
  Variable F : ureal -> res (@operand RNum).

  (* a root found at a bracket end is returned as that end, with the derivative taken there *)
  Lemma root_at_lower_end s lo hi eps s1 x1 o1 d :
    lo < hi -> probe RNum F s lo = Ok (s1, x1, @OpdU RNum o1) -> Rabs (ux o1) < eps ->
    sensitivity RNum s1 o1 x1 = Ok d ->
    nr_get_root RNum F s lo hi eps = Ok (s1, lo, d).
  Proof.
    intros Hr P Hf Hs. unfold nr_get_root, nr_get_root_n. rn.
    rewrite (proj2 (Rleb_false hi lo)) by lra. rewrite P. cbn [bind val_of T RNum] in *.
    rewrite (proj2 (Rltb_true (Rabs (ux o1)) eps)) by exact Hf. cbn [sens_of]. rewrite Hs. reflexivity.
  Qed.

  Lemma root_at_upper_end s lo hi eps s1 x1 o1 s2 x2 o2 d :
    lo < hi -> probe RNum F s lo = Ok (s1, x1, @OpdU RNum o1) -> eps <= Rabs (ux o1) ->
    probe RNum F s1 hi = Ok (s2, x2, @OpdU RNum o2) -> Rabs (ux o2) < eps ->
    sensitivity RNum s2 o2 x2 = Ok d ->
    nr_get_root RNum F s lo hi eps = Ok (s2, hi, d).
  Proof.
    intros Hr P Hf P2 Hf2 Hs. unfold nr_get_root, nr_get_root_n. rn.
    rewrite (proj2 (Rleb_false hi lo)) by lra. rewrite P. cbn [bind val_of T RNum] in *.
    rewrite (proj2 (Rltb_false (Rabs (ux o1)) eps)) by lra. rewrite P2. cbn [bind val_of T RNum] in *.
    rewrite (proj2 (Rltb_true (Rabs (ux o2)) eps)) by exact Hf2. cbn [sens_of]. rewrite Hs. reflexivity.
  Qed.

  (* the whole call: a root at the lower / upper end of the bracket is what implicit returns *)
  Theorem implicit_root_at_lower_end s lo hi eps s1 x1 o1 d oy :
    lo < hi -> probe RNum F s lo = Ok (s1, x1, @OpdU RNum o1) -> Rabs (ux o1) < eps ->
    sensitivity RNum s1 o1 x1 = Ok d -> d <> 0 ->
    F (mk_constant RNum lo None) = Ok (@OpdU RNum oy) ->
    exists r, implicit_real RNum F s lo hi eps = Ok (s1, r) /\ ux r = lo /\ scaled_by d oy r.
  Proof.
    intros Hr P Hf Hs Hd HF. unfold implicit_real.
    rewrite (root_at_lower_end s lo hi eps s1 x1 o1 d Hr P Hf Hs). cbn [bind].
    destruct (finish_implicit_spec F lo d oy HF Hd) as (r & E & Hx & Hsc). rewrite E. cbn [bind].
    exists r. auto.
  Qed.

  Theorem implicit_root_at_upper_end s lo hi eps s1 x1 o1 s2 x2 o2 d oy :
    lo < hi -> probe RNum F s lo = Ok (s1, x1, @OpdU RNum o1) -> eps <= Rabs (ux o1) ->
    probe RNum F s1 hi = Ok (s2, x2, @OpdU RNum o2) -> Rabs (ux o2) < eps ->
    sensitivity RNum s2 o2 x2 = Ok d -> d <> 0 ->
    F (mk_constant RNum hi None) = Ok (@OpdU RNum oy) ->
    exists r, implicit_real RNum F s lo hi eps = Ok (s2, r) /\ ux r = hi /\ scaled_by d oy r.
  Proof.
    intros Hr P Hf P2 Hf2 Hs Hd HF. unfold implicit_real.
    rewrite (root_at_upper_end s lo hi eps s1 x1 o1 s2 x2 o2 d Hr P Hf P2 Hf2 Hs). cbn [bind].
    destruct (finish_implicit_spec F hi d oy HF Hd) as (r & E & Hx & Hsc). rewrite E. cbn [bind].
    exists r. auto.
  Qed.
End EndLemma.

(* the witness: fn = lambda v: v - 1.0 on [1, 3] *)
Definition e_m1 : expr RNum := EBin RNum B_sub (EVar RNum 0) (ENum RNum 1).
Definition Fm1 : ureal -> res (@operand RNum) := fn_of_expr RNum [] e_m1.
Definition st0 : state := mkS 1 0 0 [] [] [] [].
Definition kx1 : key := (1%Z, 1%Z).
Definition x1_w : ureal := mkU 1 [(kx1, 1)] [] [] (LeafRef kx1).
Definition st1 : state := mkS 1 1 0 [(kx1, mkLeaf 1 DInf true [] 0%nat None None)] [] [[]] [].

Lemma Fm1_spec (x : ureal) :
  Fm1 x = Ok (@OpdU RNum (mkU (ux x - 1) (scale (N:=RNum) (uc x) (1 * 1)) (scale (N:=RNum) (dc x) (1 * 1))
                               (scale (N:=RNum) (ic x) (1 * 1)) NoNode)).
Proof. unfold Fm1, fn_of_expr, e_m1. cbn. unfold g_sub_num. cbn. decide_R. reflexivity. Qed.

Lemma probe_lo_w : exists o1, probe RNum Fm1 st0 1 = Ok (st1, x1_w, @OpdU RNum o1) /\ ux o1 = 1 - 1 /\
   sensitivity RNum st1 o1 x1_w = Ok (1 * 1 * 1 / 1).
Proof.
  eexists. unfold probe, elementary, st0.
  cbn [ltb RNum one zero of_Z s_ctx s_ne s_leaves s_nodes s_ens s_slots s_ni bind]. decide_R.
  cbn [bind]. rewrite Fm1_spec. cbn [bind]. split; [reflexivity|]. split; [reflexivity|].
  cbn. decide_R. reflexivity.
Qed.

(* the former counterexample (finding C20-implicit-end): fn = lambda v: v - 1.0 on [1, 3] has its root at
   x_min = 1; implicit now returns it, and what it returns IS a root of fn *)
Theorem implicit_end_witness :
  exists s' r, implicit_real RNum Fm1 st0 1 3 (/ 1000) = Ok (s', r) /\ ux r = 1 /\
    (exists y, Fm1 (mk_constant RNum (ux r) None) = Ok (@OpdU RNum y) /\ ux y = 0).
Proof.
  destruct probe_lo_w as (o1 & P & Hv & Hs).
  assert (Hd : 1 * 1 * 1 / 1 <> 0) by lra.
  destruct (finish_implicit_spec Fm1 1 (1 * 1 * 1 / 1) _ (Fm1_spec _) Hd) as (r & Hr & Hx & _).
  exists st1, r. split; [|split; [exact Hx|]].
  - unfold implicit_real.
    rewrite (root_at_lower_end Fm1 st0 1 3 (/ 1000) st1 x1_w o1 _ ltac:(lra) P) by
        (try exact Hs; rewrite Hv; replace (1 - 1) with 0 by ring; rewrite Rabs_R0; lra).
    cbn [bind]. rewrite Hr. reflexivity.
  - eexists; split; [apply Fm1_spec|]. unfold mk_constant. cbn [ux T RNum] in *. rewrite Hx. lra.
Qed.

(* props/C02impl.v -- Property C02, implicit-function clause: the root returned by
   function.implicit carries, for every input k, the component -(dF/dx_k) u_k / (dF/dx), where
   dF/dx is the sensitivity of fn to a probe at the returned point (model: Special.v, run
   against function.py by the correspondence). *)
From Coq Require Import ZArith List Bool Reals.
From Coquelicot Require Import Coquelicot.
From GTCV Require Import Num RNum Vector VectorFacts Opres KTypes Kernel ChainRule Special SpecialFacts SpecialChain.
Import ListNotations.
Local Open Scope R_scope.

Theorem C02_implicit_components :
  forall (F : KTypes.ureal R -> res (Kernel.operand RNum)) s lo hi eps s' r,
    implicit_real RNum F s lo hi eps = Ok (s', r) ->
    exists xk d oy,
      nr_get_root RNum F s lo hi eps = Ok (s', xk, d) /\
      F (mk_constant RNum xk None) = Ok (@OpdU RNum oy) /\ d <> 0 /\
      ux r = xk /\ scaled_by d oy r.
Proof. exact implicit_real_inv. Qed.
Print Assumptions C02_implicit_components.

(* dF/dx is taken AT the returned point, for every successful call, the bracket ends included (available since the
   repair of finding C20-implicit-end: before it the function value was returned for a root at a bracket end) *)
Theorem C02_implicit_derivative_at_solution :
  forall (F : KTypes.ureal R -> res (Kernel.operand RNum)) s lo hi eps s' r,
    implicit_real RNum F s lo hi eps = Ok (s', r) ->
    exists d oy, probed F (ux r) d /\ F (mk_constant RNum (ux r) None) = Ok (@OpdU RNum oy) /\ d <> 0 /\ scaled_by d oy r.
Proof. exact implicit_real_probed. Qed.
Print Assumptions C02_implicit_derivative_at_solution.

Theorem C02_implicit_function_theorem :
  forall (U : key -> R) (I : key -> bool) (e0 : env) (Fy : env -> R) (oy r : KTypes.ureal R) (d : R),
    Den U I e0 oy Fy -> scaled_by d oy r -> d <> 0 ->
    forall k, exists D, is_derive (fun t => Fy (upd e0 k t)) (e0 k) D /\ comp r k = - (U k * D) / d.
Proof. exact implicit_components_partial. Qed.
Print Assumptions C02_implicit_function_theorem.

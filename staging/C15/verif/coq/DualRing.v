(* DualRing.v -- uncertain numbers as dual numbers: D = value + a map from influences to
   components.  Over any commutative ring A with a partial inverse, D is again a commutative
   ring in which exactly the elements with a unit VALUE are units; the product carries the
   product rule in every component.  Hence every identity of such rings proved about the LU
   model holds, for uncertain-number elements, in value and in every component of uncertainty
   at once.  The zero test `x == 0.0` of LU.py looks at the value only: on D it is not exact
   (D_zero_test_not_exact), which is why _lubksb's shortcut must not use it. *)
From Coq Require Import ZArith List Bool Ring Lia FunctionalExtensionality.
From GTCV Require Import Num LU LUFacts.
Import ListNotations.

Section Dual.
  Variables (A K : Type).
  Variables (rO rI : A) (radd rmul rsub : A -> A -> A) (ropp rinv : A -> A).
  Variable isz : A -> bool.
  Hypothesis Rth : ring_theory rO rI radd rmul rsub ropp (@eq A).
  Hypothesis Hinv : forall y, isz y = false -> rmul y (rinv y) = rI.
  Add Ring AringD : Rth.
  Infix "+" := radd. Infix "*" := rmul. Infix "-" := rsub.
  Notation "0" := rO. Notation "1" := rI.

  Definition D := (A * (K -> A))%type.
  Definition dval (x : D) : A := fst x.
  Definition dcomp (x : D) (k : K) : A := snd x k.

  Definition dconst (v : A) : D := (v, fun _ => 0).
  Definition dO : D := dconst 0.
  Definition dI : D := dconst 1.
  Definition dadd (x y : D) : D := (fst x + fst y, fun k => snd x k + snd y k).
  Definition dsub (x y : D) : D := (fst x - fst y, fun k => snd x k - snd y k).
  Definition dopp (x : D) : D := (ropp (fst x), fun k => ropp (snd x k)).
  (* product rule *)
  Definition dmul (x y : D) : D := (fst x * fst y, fun k => fst x * snd y k + fst y * snd x k).
  (* d(1/x) = -(1/x^2) dx *)
  Definition dinv (x : D) : D := (rinv (fst x), fun k => ropp (rinv (fst x) * rinv (fst x)) * snd x k).
  (* x == 0.0 compares the value *)
  Definition disz (x : D) : bool := isz (fst x).

  Lemma D_eq (x y : D) : fst x = fst y -> (forall k, snd x k = snd y k) -> x = y.
  Proof.
    destruct x as [a f], y as [b g]; simpl. intros -> H. f_equal.
    apply functional_extensionality. exact H.
  Qed.

  Theorem D_ring : ring_theory dO dI dadd dmul dsub dopp (@eq D).
  Proof.
    constructor; intros; apply D_eq; simpl; intros; ring.
  Qed.

  Theorem D_inv : forall y, disz y = false -> dmul y (dinv y) = dI.
  Proof.
    intros [v c] H. unfold disz in H. simpl in H. pose proof (Hinv v H) as E.
    apply D_eq; simpl; [exact E|]. intros k.
    replace (v * (ropp (rinv v * rinv v) * c k) + rinv v * c k)
      with (rinv v * c k * (1 - v * rinv v)) by ring.
    rewrite E. ring.
  Qed.

  (* the value projection is a ring homomorphism; components obey the product rule *)
  Lemma dval_mul x y : dval (dmul x y) = dval x * dval y.  Proof. reflexivity. Qed.
  Lemma dval_add x y : dval (dadd x y) = dval x + dval y.  Proof. reflexivity. Qed.
  Lemma dval_sub x y : dval (dsub x y) = dval x - dval y.  Proof. reflexivity. Qed.
  Lemma dcomp_mul x y k : dcomp (dmul x y) k = dval x * dcomp y k + dval y * dcomp x k.
  Proof. reflexivity. Qed.
  Lemma dcomp_add x y k : dcomp (dadd x y) k = dcomp x k + dcomp y k.  Proof. reflexivity. Qed.

  Lemma dval_bsum (f : nat -> D) n :
    dval (bsum D dO dadd f n) = bsum A 0 radd (fun j => dval (f j)) n.
  Proof. induction n as [|n IH]; simpl; [reflexivity|]. unfold dval in *. simpl. now rewrite IH. Qed.

  Lemma dcomp_bsum (f : nat -> D) n k :
    dcomp (bsum D dO dadd f n) k = bsum A 0 radd (fun j => dcomp (f j) k) n.
  Proof. induction n as [|n IH]; simpl; [reflexivity|]. unfold dcomp in *. simpl. now rewrite IH. Qed.

  (* the zero test is not exact on D as soon as there is one influence and 1 <> 0 *)
  Theorem D_zero_test_not_exact (k0 : K) :
    rI <> rO -> exists x : D, disz x = isz 0 /\ x <> dO.
  Proof.
    intros H10. exists (0, fun _ => 1). split; [reflexivity|].
    intros E. apply H10. change (snd (0, fun _ : K => 1) k0 = snd dO k0). now rewrite E.
  Qed.
  (* ---------------- transfer: what an identity of D says about values and components -------- *)
  Variable Wt : Type.
  Variables (absw : D -> Wt) (w0 : Wt) (wgt wge : Wt -> Wt -> bool) (wmul : Wt -> Wt -> Wt)
            (wrecip : Wt -> res Wt).
  Variable ofZ : Z -> D.
  (* the test of _lubksb's shortcut: a plain-number zero.  Uncertain numbers never pass it
     ([fun _ => false]); any test that only accepts true zeros will do *)
  Variable dskip : D -> bool.
  Hypothesis Hdskip : forall y, dskip y = true -> y = dO.
  Notation DE := (ring_elt D Wt dadd dmul dsub dinv disz dskip ofZ absw w0 wgt wge wmul wrecip).

  (* solving with uncertain elements, ANY right-hand side (zero values with uncertainty
     included): the defining equation holds in value (the plain system)
     and, for every influence k, in the component of uncertainty (product rule on a.x) *)
  Theorem dual_solve_transfer n (a : nat -> nat -> D) (b x : nat -> D) :
    (forall lu idx par, ludcmp DE n a = Ok (lu, idx, par) -> decomposes D dO dI dadd dmul n a lu idx) ->
    solve DE n a b = Ok x ->
    forall i, (i < n)%nat ->
      bsum A 0 radd (fun j => dval (a i j) * dval (x j)) n = dval (b i) /\
      forall k, bsum A 0 radd (fun j => dval (a i j) * dcomp (x j) k + dval (x j) * dcomp (a i j) k) n
                = dcomp (b i) k.
  Proof.
    intros Hdec H i Hi.
    pose proof (solve_partial D Wt dO dI dadd dmul dsub dopp dinv disz dskip ofZ absw w0 wgt wge wmul wrecip
                              D_ring D_inv Hdskip n a b x Hdec H i Hi) as E.
    split.
    - rewrite <- E. rewrite dval_bsum. reflexivity.
    - intros k. rewrite <- E. rewrite dcomp_bsum. reflexivity.
  Qed.
End Dual.

"""lifecycle.py -- correspondence for the Archive lifecycle model (coq/Lifecycle.v, LifecycleObs.v).

An ASession executes a history of session operations on the real GTC (in /repo's working
tree).  After every operation it builds the observation tree of LifecycleObs.v from the real
objects (outcome + every archive's flags, dicts in order, value kinds and uids,
_uid_to_intermediate, _leaf_nodes, _intermediate_uids + the context's counters and both
registries with every leaf's attributes) and hashes it with the hash of LifecycleObs.v.  The
generated case file makes coqc run the model on the same history and compare the hashes
step by step."""
import gc, math, json, pickle, random, warnings
from common import *

MASK = (1 << 63) - 1
_FROZEN = False

# ------------------------------------------------------------------ trees and their hash
def Z(z): return ('Z', int(z))
def S(s): return ('S', s)
def L(xs): return ('L', list(xs))

def _mix(h, x): return (h * 1000003 + x + 12345) & MASK

def hash_tree(t, h=7):
    k = t[0]
    if k == 'Z':
        assert t[1] + 1000 >= 0
        return _mix(_mix(h, 1), (t[1] + 1000) & MASK)
    if k == 'S':
        h = _mix(h, 2)
        for c in t[1]:
            assert ord(c) < 256
            h = _mix(h, ord(c))
        return _mix(h, 255)
    h = _mix(h, 3)
    for x in t[1]:
        h = hash_tree(x, h)
    return _mix(h, 4)

def show(t):
    k = t[0]
    if k == 'Z': return str(t[1])
    if k == 'S': return json.dumps(t[1])
    return '[' + ' '.join(show(x) for x in t[1]) + ']'

def coq_tree_to_text(out):
    """normalise coqc's printing of a tree (diagnosis only)"""
    m = re.search(r'=\s*(.*?)\n\s*:\s*option tree', out, re.S)
    if not m: return out[-1500:]
    txt = re.sub(r'\s+', ' ', m.group(1))
    txt = re.sub(r'T[ZS] \(?(-?\d+|"[^"]*")\)?', r'\1', txt).replace('TL ', '').replace(';', '')
    return txt

# ------------------------------------------------------------------ Gallina literals
def cstr(s): return '"%s"%%string' % s
def costr(s): return 'None' if s is None else '(Some %s)' % cstr(s)
def cnat(n): return '%d%%nat' % n
FMT = {'pickle': 'FPickle', 'json': 'FJson', 'xml': 'FXml'}

def cop(o):
    k = o[0]
    if k == 'new': return '(ONewSession %s)' % cz(o[1])
    if k == 'real': return '(ODeclReal %s %s %s %s)' % (costr(o[1]), cz(o[2]), cz(o[3]), cbool(o[4]))
    if k == 'complex': return '(ODeclComplex %s %s %s %s %s)' % (costr(o[1]), cz(o[2]), cz(o[3]), cz(o[4]), cbool(o[5]))
    if k == 'ens': return '(ODeclEnsemble %s %s)' % (clist(['(%s, %s)' % (costr(l), cz(u)) for l, u in o[1]]), cz(o[2]))
    if k == 'const': return 'OConst'
    if k == 'constc': return 'OConstC'
    if k == 'other': return 'OOther'
    if k == 'part': return '(OPart %s %s)' % (cnat(o[1]), cbool(o[2]))
    if k == 'mul': return '(OMul %s %s)' % (cnat(o[1]), cnat(o[2]))
    if k == 'result': return '(OResult %s %s %s %s)' % (cnat(o[1]), costr(o[2]), cz(o[3]), cz(o[4]))
    if k == 'corr': return '(OSetCorr %s %s %s)' % (cnat(o[1]), cnat(o[2]), cz(o[3]))
    if k == 'corrc': return '(OSetCorrC %s %s (%s, %s, %s, %s))' % ((cnat(o[1]), cnat(o[2])) + tuple(cz(x) for x in o[3]))
    if k == 'append': return '(OAppendEns %s %s)' % (cnat(o[1]), cnat(o[2]))
    if k == 'archive': return 'OArchive'
    if k == 'add': return '(OAdd %s %s)' % (cnat(o[1]), clist(['(%s, %s)' % (cstr(t), cnat(i)) for t, i in o[2]]))
    if k == 'extract': return '(OExtract %s %s)' % (cnat(o[1]), clist([cstr(t) for t in o[2]]))
    if k == 'write': return '(OWrite %s %s)' % (cnat(o[1]), FMT[o[2]])
    if k == 'read': return '(ORead %s)' % cnat(o[1])
    if k == 'readraw': return '(OReadRaw %s)' % cnat(o[1])
    if k == 'freeze': return '(OFreeze %s)' % cnat(o[1])
    if k == 'thaw': return '(OThaw %s)' % cnat(o[1])
    if k == 'copy': return '(OCopy %s)' % cnat(o[1])
    raise ValueError(o)

EXN_CODE = {'RuntimeError': 1, 'AttributeError': 2, 'KeyError': 3, 'IndexError': 4, 'TypeError': 5,
            'AssertionError': 6, 'ValueError': 7}

HEADER = ('From Coq Require Import ZArith List Bool String Uint63.\n'
          'From GTCV Require Import Num Lifecycle LifecycleObs.\nImport ListNotations.\n'
          'Open Scope Z_scope.\n')

# ------------------------------------------------------------------ executing a history on GTC
def uid2(u):
    """leaf uids (c, n) and intermediate uids (c, n, 0) -> (c, n); None stays None"""
    if u is None: return None
    u = tuple(u)
    assert len(u) == 2 or (len(u) == 3 and u[2] == 0), u
    return (u[0], u[1])

def t_uid(u):
    u = uid2(u); return L([Z(u[0]), Z(u[1])])
def t_ouid(u): return Z(0) if u is None else t_uid(u)
def t_ostr(s): return Z(0) if s is None else S(s)
def code16(u):
    k = u * 16
    assert k == int(k), u
    return int(k)
def code_df(df): return -1 if math.isinf(df) else int(df)
def code_r(r):
    k = r * 8
    assert k == int(k), r
    return int(k)

class ASession(object):
    def __init__(self, k0):
        from GTC import core, lib, context, persistence, archive, nodes, json_format
        self.core, self.lib, self.context, self.pr, self.archive, self.nodes = core, lib, context, persistence, archive, nodes
        self.json_format = json_format
        self.k0 = k0
        global _FROZEN
        if not _FROZEN:
            gc.collect(); gc.freeze(); _FROZEN = True      # makes the per-step gc.collect() cheap
        new_context(k0)
        self.objs = []; self.ars = []; self.docs = []
        self.sig = {(0.0, float('inf')): 0}
        self.ops = []          # executed ops (json-able, with the codes the model needs)
        self.trees = []        # observation after each op
        self.outcomes = []     # 'ok' | exception class | 'objs'

    # ---------------- observation
    def ctx(self): return self.context._context
    def sig_code(self, u, df):
        key = (float(u), 'nan' if math.isnan(float(df)) else float(df))
        if key not in self.sig: self.sig[key] = len(self.sig)
        return self.sig[key]
    def t_leaf(self, n):
        cx = Z(0)
        if hasattr(n, 'complex'):
            c = tuple(n.complex); cx = L([Z(1 if isinstance(n.complex, list) else 0), t_uid(c[0]), t_uid(c[1])])
        cr = Z(0)
        if hasattr(n, 'correlation'):
            items = n.correlation.items() if isinstance(n.correlation, dict) else n.correlation
            cr = L([L([t_uid(k), Z(code_r(v))]) for k, v in items])
        en = Z(0)
        if hasattr(n, 'ensemble'): en = L([t_uid(k) for k in sorted(uid2(k) for k in n.ensemble)])
        return L([t_ostr(n.label), Z(code16(n.u)), Z(code_df(n.df)), Z(1 if n.independent else 0), cx, cr, en])
    def t_node(self, n):
        if n is None: return Z(0)
        if isinstance(n, self.nodes.Leaf):
            return Z(1) if n.uid is None else L([Z(2), t_uid(n.uid)])
        return L([Z(3), t_ouid(n.uid), t_ostr(n.label), Z(self.sig_code(n.u, n.df))])
    def t_robj(self, o):
        reg = self.ctx()._registered_leaf_nodes
        leaves = list(o._u_components._index) + list(o._d_components._index)
        priv = [reg.get(n.uid) is not n for n in leaves]
        if not leaves or not any(priv): snap = Z(0)
        elif all(priv): snap = L([L([t_uid(n.uid), self.t_leaf(n)]) for n in leaves])
        else: snap = Z(77)
        return L([self.t_node(o._node), L([t_uid(n.uid) for n in o._u_components._index]),
                  L([t_uid(n.uid) for n in o._d_components._index]), snap])
    def t_pyobj(self, o):
        if isinstance(o, self.lib.UncertainReal): return L([Z(0), self.t_robj(o)])
        if isinstance(o, self.lib.UncertainComplex): return L([Z(1), self.t_robj(o.real), self.t_robj(o.imag)])
        return Z(2)
    def t_rval(self, v):
        A = self.archive
        if isinstance(v, self.lib.UncertainReal): return L([Z(0), self.t_robj(v)])
        if isinstance(v, A.ElementaryReal): return L([Z(1), t_ouid(v.uid)])
        if isinstance(v, A.IntermediateReal):
            return L([Z(2), t_ouid(v.uid), L([t_uid(k) for k in v.u_components._index]),
                      L([t_uid(k) for k in v.d_components._index])])
        return Z(88)
    def t_cval(self, v):
        if isinstance(v, self.lib.UncertainComplex): return L([Z(0), self.t_robj(v.real), self.t_robj(v.imag)])
        if isinstance(v, self.archive.Complex): return L([Z(1), S(v.n_re), S(v.n_im)])
        return Z(88)
    def t_archive(self, a):
        u2i = L([t_ouid(k) for k in a._uid_to_intermediate.keys()]) if hasattr(a, '_uid_to_intermediate') else Z(0)
        ln = (L([L([t_uid(k), self.t_leaf(v)]) for k, v in a._leaf_nodes.items()]) if hasattr(a, '_leaf_nodes') else Z(0))
        iu = (L([L([t_ouid(k), t_ostr(v[0]), Z(self.sig_code(v[1], v[2]))]) for k, v in a._intermediate_uids.items()])
              if hasattr(a, '_intermediate_uids') else Z(0))
        return L([Z(1 if a._dump else 0), Z(1 if a._ready else 0),
                  L([L([S(k), self.t_rval(v)]) for k, v in a._tagged_real.items()]),
                  L([L([S(k), self.t_cval(v)]) for k, v in a._tagged_complex.items()]),
                  L([L([S(k), self.t_rval(v)]) for k, v in a._untagged_real.items()]), u2i, ln, iu])
    def t_session(self):
        c = self.ctx()
        leaves = sorted(((uid2(k), v) for k, v in list(c._registered_leaf_nodes.items())), key=lambda p: p[0])
        nodes = sorted(((uid2(k), v) for k, v in list(c._registered_intermediate_nodes.items())),
                       key=lambda p: (p[0] is not None, p[0] or ()))
        return L([Z(c._id), Z(c._elementary_id_counter), Z(c._intermediate_id_counter),
                  L([L([t_uid(k), self.t_leaf(v)]) for k, v in leaves]),
                  L([L([t_ouid(k), t_ostr(v.label), Z(self.sig_code(v.u, v.df))]) for k, v in nodes])])
    def t_state(self):
        return L([self.t_session(), L([self.t_archive(a) for a in self.ars]), Z(len(self.docs)), Z(len(self.objs))])
    def archive_state(self, i):
        if i >= len(self.ars): return 'none'
        a = self.ars[i]
        return {(True, True): 'open', (True, False): 'written', (False, False): 'loaded', (False, True): 'thawed'}[(bool(a._dump), bool(a._ready))]

    # ---------------- one operation
    def do(self, o):
        """execute o (a list); returns the outcome tree.  'result' ops get their (u, df) codes here."""
        core, pr = self.core, self.pr
        k = o[0]
        new = None
        try:
            if k == 'new':
                self.objs = []; self.ars = []; gc.collect(); new_context(o[1])
            elif k == 'real':
                # every 4th declared real has the estimate exactly 0: products with it have a ZERO component of
                # uncertainty for the other factor (the influence must still be archived with the result)
                x = core.ureal(0.0 if len(self.objs) % 4 == 3 else 1.0 + len(self.objs), o[2] / 16.0, float('inf') if o[3] < 0 else float(o[3]),
                               label=o[1], independent=o[4]); new = [x]
            elif k == 'complex':
                x = core.ucomplex(complex(1, 2), (o[2] / 16.0, o[3] / 16.0), float('inf') if o[4] < 0 else float(o[4]),
                                  label=o[1], independent=o[5]); new = [x]
            elif k == 'ens':
                new = list(core.multiple_ureal([2.0 + i for i in range(len(o[1]))], [u / 16.0 for _, u in o[1]],
                                               float('inf') if o[2] < 0 else float(o[2]), label_seq=[l for l, _ in o[1]]))
            elif k == 'const': new = [core.constant(3.0)]
            elif k == 'constc': new = [core.constant(1 + 2j)]
            elif k == 'other': new = [1.5]
            elif k == 'part':
                z = self.objs[o[1]]; new = [z.imag if o[2] else z.real]
            elif k == 'mul': new = [self.objs[o[1]] * self.objs[o[2]]]
            elif k == 'result':
                x = self.objs[o[1]]
                if len(o) < 5:
                    if isinstance(x, self.lib.UncertainReal): sg = [self.sig_code(x.u, x.df), 0]
                    else: sg = [self.sig_code(x.real.u, x.real.df), self.sig_code(x.imag.u, x.imag.df)]
                    o[:] = [o[0], o[1], o[2], sg[0], sg[1]]
                new = [core.result(x, o[2])]
            elif k == 'corr': core.set_correlation(o[3] / 8.0, self.objs[o[1]], self.objs[o[2]])
            elif k == 'corrc': core.set_correlation(tuple(x / 8.0 for x in o[3]), self.objs[o[1]], self.objs[o[2]])
            elif k == 'append': self.lib.append_real_ensemble(self.objs[o[1]], self.objs[o[2]])
            elif k == 'archive': self.ars.append(pr.Archive())
            elif k == 'add': self.ars[o[1]].add(**{t: self.objs[i] for t, i in o[2]})
            elif k == 'extract':
                r = self.ars[o[1]].extract(*o[2])
                new = list(r) if isinstance(r, list) else [r]
            elif k == 'write':
                f = {'pickle': pr.dumps, 'json': pr.dumps_json, 'xml': pr.dumps_xml}[o[2]]
                self.docs.append((o[2], f(self.ars[o[1]])))
            elif k == 'read':
                f, s = self.docs[o[1]]
                self.ars.append({'pickle': pr.loads, 'json': pr.loads_json, 'xml': pr.loads_xml}[f](s))
            elif k == 'readraw':
                f, s = self.docs[o[1]]
                if f == 'pickle':
                    a = pickle.loads(s); a._dump = False; a._ready = False
                elif f == 'json':
                    a = json.loads(s, object_hook=self.json_format.json_to_archive)
                else: raise ValueError('no raw decoder for xml')
                self.ars.append(a)
            elif k == 'freeze': self.ars[o[1]]._freeze()
            elif k == 'thaw': self.ars[o[1]]._thaw()
            elif k == 'copy': self.ars.append(pr.Archive.copy(self.ars[o[1]]))
            else: raise ValueError(o)
        except Exception as ex:
            name = type(ex).__name__
            ex = None
            out = L([Z(1), Z(EXN_CODE.get(name, 9))]); outcome = name
        else:
            if new is not None:
                self.objs.extend(new); out = L([Z(2), L([self.t_pyobj(x) for x in new])]); outcome = 'objs'
            else:
                out = Z(0); outcome = 'ok'
        new = None
        gc.collect()
        t = L([out, self.t_state()])
        self.ops.append(list(o)); self.trees.append(t); self.outcomes.append(outcome)
        return outcome

    def close(self):
        """drop the GTC objects (keeps ops, trees, outcomes)"""
        self.objs = []; self.ars = []; self.docs = []
        self.hashes = [hash_tree(t) for t in self.trees]; self.trees = None     # keeps gc.collect() cheap
        gc.collect(); gc.freeze()       # what survives a session (ops, hashes) is never traversed again
        return self

    def term(self):
        return 'check %s %s %s' % (cz(self.k0), clist([cop(o) for o in self.ops]),
                                   clist(['%d%%uint63' % h for h in (self.hashes if self.trees is None else
                                                                       [hash_tree(t) for t in self.trees])]))

def run_history(k0, ops):
    """replay a recorded history; returns the ASession"""
    s = ASession(k0)
    for o in ops:
        s.do(list(o) if o[0] != 'add' else [o[0], o[1], [tuple(p) for p in o[2]]])
    return s

# ------------------------------------------------------------------ generators
TAGS = ['a', 'b', 'z', 'q', 'a_re', 'z_re', 'z_im', 'q_im', 'z_re_re', 'w']
LABELS = [None, None, 'x', 'y', 'lab', '']

def kinds(s):
    """indices of live objects by kind"""
    lib = s.lib
    d = {'elem': [], 'dep': [], 'interm': [], 'plain': [], 'const': [], 'celem': [], 'cinterm': [], 'cplain': [],
         'cconst': [], 'cmixed': [], 'other': []}
    def rk(r):
        if r._node is None: return 'plain'
        if r.is_elementary: return 'elem'
        if r.is_intermediate: return 'interm'
        return 'const'
    for i, o in enumerate(s.objs):
        if isinstance(o, lib.UncertainReal):
            kk = rk(o); d[kk].append(i)
            if kk == 'elem' and not o._node.independent and math.isinf(o._node.df): d['dep'].append(i)
            if kk == 'elem' and not o._node.independent and len(getattr(o._node, 'ensemble', ())) > 1: d.setdefault('ens', []).append(i)
        elif isinstance(o, lib.UncertainComplex):
            a, b = rk(o.real), rk(o.imag)
            d['c' + a if a == b else 'cmixed'].append(i)
            if a == b == 'elem' and not o.real._node.independent and not o.imag._node.independent \
               and math.isinf(o.real._node.df) and math.isinf(o.imag._node.df): d.setdefault('cdep', []).append(i)
        else: d['other'].append(i)
    return d

def ens_pair(s, rng):
    """two live members of one ensemble (set_correlation is allowed between them whatever the dof)"""
    e = kinds(s).get('ens', [])
    rng.shuffle(e)
    for a in e:
        for b in e:
            ua, ub = s.objs[a]._node.uid, s.objs[b]._node.uid
            if ua != ub and ub in s.objs[a]._node.ensemble: return a, b
    return None

def rand4(rng):
    """a 4-tuple of coefficient codes (r*8) with explicit zeros, not all zero"""
    while True:
        r = [rng.choice([0, 0, -4, -2, 2, 4]) for _ in range(4)]
        if any(r): return r

def cdep_pair(s, rng):
    c = kinds(s).get('cdep', [])
    rng.shuffle(c)
    for a in c:
        for b in c:
            ua = {s.objs[a].real._node.uid, s.objs[a].imag._node.uid}; ub = {s.objs[b].real._node.uid, s.objs[b].imag._node.uid}
            if a != b and not (ua & ub): return a, b
    return None

def grow_ensemble(s, rng):
    """declare a new dependent number with the dof of a live ensemble member and append it to that ensemble
    (what the predictions of a line fit do); returns the index of the new member or None"""
    e = kinds(s).get('ens', [])
    if not e: return None
    m = e[rng.randrange(len(e))]
    df = s.objs[m]._node.df
    s.do(['real', None, rng.randint(1, 40), -1 if math.isinf(df) else int(df), False])
    if s.outcomes[-1] != 'objs': return None
    x = len(s.objs) - 1
    if s.objs[x]._node.uid == s.objs[m]._node.uid: return None
    s.do(['append', m, x])
    return x

def gen_history(rng, k0, nops, malformed):
    """build a history adaptively while executing it on the implementation"""
    s = ASession(k0)
    used_ids = [k0]
    def pick(xs): return xs[rng.randrange(len(xs))] if xs else None
    def any_un(d, w_bad):
        pools = [d['elem']] * 4 + [d['interm']] * 3 + [d['celem']] * 3 + [d['cinterm']] * 2
        if rng.random() < w_bad:
            pools += [d['plain']] * 2 + [d['cplain']] * 2 + [d['const'], d['cconst'], d['cmixed'], d['other']]
        pools = [p for p in pools if p]
        return pick(pick(pools)) if pools else None
    def decl():
        r = rng.random()
        if r < 0.06: return ['ens', [(pick(LABELS), rng.randint(1, 40)) for _ in range(rng.randint(2, 4))], rng.choice([-1, 4, 9])]
        if r < 0.45: return ['real', pick(LABELS), rng.randint(1, 40), rng.choice([-1, -1, 3, 7]), rng.random() < 0.5]
        if r < 0.62: return ['real', pick(LABELS), rng.randint(1, 40), -1, False]
        if r < 0.70: return ['complex', pick(LABELS), rng.randint(1, 40), rng.randint(1, 40), -1, False]
        if r < 0.92: return ['complex', pick(LABELS), rng.randint(1, 40), rng.randint(1, 40), rng.choice([-1, -1, 5]), rng.random() < 0.5]
        return [rng.choice(['const', 'constc', 'other'])]
    for _ in range(rng.randint(2, 5)): s.do(decl())
    w_bad = 0.5 if malformed else 0.12
    while len(s.ops) < nops:
        d = kinds(s); r = rng.random(); o = None
        na, nd = len(s.ars), len(s.docs)
        if r < 0.08: o = decl()
        elif r < 0.16:
            reals = d['elem'] + d['interm'] + d['plain'] + d['const']; cx = d['celem'] + d['cinterm'] + d['cplain']
            a = pick(reals + cx); b = pick(reals + cx)
            if a is not None and b is not None: o = ['mul', a, b]
        elif r < 0.24:
            c = pick(d['plain'] + d['cplain'] + (d['elem'] + d['celem'] + d['interm'] + d['const'] + d['cconst'] if rng.random() < 0.3 else []))
            if c is not None: o = ['result', c, pick(LABELS)]
        elif r < 0.30 and rng.random() < 0.15 and kinds(s).get('ens'):
            grow_ensemble(s, rng); continue
        elif r < 0.30 and rng.random() < 0.3 and cdep_pair(s, rng):
            a, b = cdep_pair(s, rng); o = ['corrc', a, b, rand4(rng)]
        elif r < 0.30:
            ep = ens_pair(s, rng)
            if ep and rng.random() < 0.5: o = ['corr', ep[0], ep[1], rng.choice([-4, -2, 2, 4])]
            elif len(d['dep']) >= 2:
                a, b = rng.sample(d['dep'], 2)
                if s.objs[a]._node.uid != s.objs[b]._node.uid:
                    o = ['corr', a, b, rng.choice([-6, -4, -2, 1, 2, 4, 6])]
        elif r < 0.33:
            c = pick(d['celem'] + d['cinterm'] + d['cmixed'])
            if c is not None: o = ['part', c, rng.random() < 0.5]
        elif r < 0.39 or na == 0: o = ['archive']
        elif r < 0.58:
            ar = rng.randrange(na); n = rng.choice([1, 1, 1, 2, 2, 3])
            tags = rng.sample(TAGS, n); kw = []
            for t in tags:
                i = any_un(d, w_bad)
                if i is not None: kw.append((t, i))
            if kw or rng.random() < 0.2: o = ['add', ar, kw]
        elif r < 0.68: o = ['write', rng.randrange(na), rng.choice(['pickle', 'json', 'json', 'xml'])]
        elif r < 0.78:
            if nd: o = ['read', rng.randrange(nd)]
        elif r < 0.86:
            ar = rng.randrange(na); a = s.ars[ar]
            have = list(a._tagged_real.keys()) + list(a._tagged_complex.keys())
            names = [pick(have) if have and rng.random() < 0.8 else pick(TAGS) for _ in range(rng.choice([1, 1, 2, 3]))]
            if rng.random() < 0.04: names = []
            o = ['extract', ar, names]
        elif r < 0.91: o = ['copy', rng.randrange(na)]
        elif r < 0.94:
            k = rng.choice(used_ids) if (malformed and rng.random() < 0.5) else max(used_ids) + 1
            used_ids.append(k); o = ['new', k]
            s.do(o)
            for _ in range(rng.randint(0, 3)): s.do(decl())
            continue
        elif r < 0.97:
            rr = rng.random()
            if rr < 0.4: o = ['freeze', rng.randrange(na)]
            elif rr < 0.8: o = ['thaw', rng.randrange(na)]
            else:
                raw = [i for i, (f, _) in enumerate(s.docs) if f != 'xml']
                if raw: o = ['readraw', pick(raw)]
        else:
            # malformed: lifecycle misuse aimed at the current states
            ar = rng.randrange(na)
            i = any_un(d, 0.7)
            if i is not None: o = ['add', ar, [(pick(TAGS), i)]]
        if o is not None: s.do(o)
    return s

ROW_OPS = ['add_real', 'add_dup', 'add_complex', 'add_undeclared', 'add_undeclared_c', 'add_other', 'add_two_bad',
           'add_re_clash', 'add_none', 'extract_ok', 'extract_c', 'extract_missing', 'extract_none', 'write_pickle',
           'write_json', 'write_xml', 'freeze', 'thaw', 'copy', 'add_const']
ROW_STATES = ['open', 'open_empty', 'written', 'thawed', 'loaded', 'copy_open', 'copy_written', 'copy_thawed',
              'copy_loaded', 'open_broken', 'thawed_other_session']

def gen_row(k0, state, op):
    """the enumerated table: one archive state x one operation"""
    s = ASession(k0)
    for o in (['real', 'x', 16, -1, True], ['real', None, 8, 5, False], ['complex', 'z', 4, 8, -1, False],
              ['mul', 0, 1], ['result', 3, 'm'], ['mul', 2, 2], ['result', 5, None], ['mul', 0, 0], ['mul', 2, 0],
              ['other'], ['const'], ['real', None, 3, -1, True]):
        s.do(o)
    # objs: 0 x, 1 y(dep), 2 z, 3 plain, 4 m(interm), 5 cplain, 6 cinterm, 7 plain, 8 cplain, 9 other, 10 const, 11 w
    fill = ['add', 0, [('a', 0), ('b', 1), ('z', 2), ('q', 4)]]
    s.do(['archive'])
    ar = 0
    if state != 'open_empty': s.do(fill)
    if state in ('written', 'thawed', 'loaded', 'copy_written', 'copy_thawed', 'copy_loaded', 'thawed_other_session'):
        s.do(['write', 0, 'json'])
    if state in ('thawed', 'copy_thawed'): s.do(['read', 0]); ar = 1
    if state in ('loaded', 'copy_loaded'): s.do(['readraw', 0]); ar = 1
    if state == 'thawed_other_session':
        s.do(['new', k0 + 1]); s.do(['real', 'x', 16, -1, True]); s.do(['real', None, 8, 5, False])
        s.do(['complex', 'z', 4, 8, -1, False]); s.do(['mul', 0, 1]); s.do(['result', 3, 'm'])
        s.do(['mul', 2, 2]); s.do(['result', 5, None]); s.do(['mul', 0, 0]); s.do(['mul', 2, 0]); s.do(['other'])
        s.do(['const']); s.do(['real', None, 3, -1, True])
        s.do(['read', 0]); ar = 0
    if state == 'open_broken': s.do(['add', 0, [('k', 5)]])
    if state.startswith('copy_'): s.do(['copy', ar]); ar = len(s.ars) - 1
    o = {'add_real': ['add', ar, [('n', 11)]], 'add_dup': ['add', ar, [('a', 11)]], 'add_complex': ['add', ar, [('c', 6)]],
         'add_undeclared': ['add', ar, [('p', 3)]], 'add_undeclared_c': ['add', ar, [('k', 8)]],
         'add_other': ['add', ar, [('f', 9)]], 'add_two_bad': ['add', ar, [('n', 11), ('p', 7)]],
         'add_re_clash': ['add', ar, [('z_re', 11)]], 'add_none': ['add', ar, []], 'add_const': ['add', ar, [('c0', 10)]],
         'extract_ok': ['extract', ar, ['a']], 'extract_c': ['extract', ar, ['z', 'q']], 'extract_missing': ['extract', ar, ['a', 'nope']],
         'extract_none': ['extract', ar, []], 'write_pickle': ['write', ar, 'pickle'], 'write_json': ['write', ar, 'json'],
         'write_xml': ['write', ar, 'xml'], 'freeze': ['freeze', ar], 'thaw': ['thaw', ar], 'copy': ['copy', ar]}[op]
    before = s.archive_state(ar)
    s.do(o)
    # one follow-up so that what the operation left behind is exercised as well
    s.do(['write', ar, 'json'])
    return s, before

COLLISIONS = ['same', 'label', 'u', 'df', 'indep', 'second_differs', 'complex_shift', 'node_label', 'node_sig', 'declare_after']

def gen_collision(k0, variant, fmt):
    """a document is read in a NEW session that reuses the context id (Context(id=...) is public): the
    registered nodes are indistinguishable from the archived ones, or differ in exactly one attribute"""
    s = ASession(k0)
    s.do(['real', 'x', 16, 5, False]); s.do(['real', None, 8, -1, False]); s.do(['complex', None, 8, 8, -1, False])
    s.do(['mul', 0, 1]); s.do(['result', 3, 'm'])
    s.do(['archive']); s.do(['add', 0, [('a', 0), ('b', 1), ('z', 2), ('m', 4)]]); s.do(['write', 0, fmt])
    s.do(['new', k0])
    first = {'label': ['real', 'y', 16, 5, False], 'u': ['real', 'x', 17, 5, False], 'df': ['real', 'x', 16, 6, False],
             'indep': ['real', 'x', 16, 5, True]}.get(variant, ['real', 'x', 16, 5, False])
    if variant == 'declare_after':
        s.do(['read', 0]); s.do(['real', 'x', 16, 5, False]); s.do(['real', 'q', 3, -1, True]); s.do(['complex', None, 8, 8, -1, False])
    elif variant == 'complex_shift':
        s.do(first); s.do(['complex', None, 8, 8, -1, False]); s.do(['real', None, 8, -1, False]); s.do(['read', 0])
    else:
        s.do(first)
        s.do(['real', None, 8, -1, False] if variant != 'second_differs' else ['real', None, 9, -1, False])
        s.do(['complex', None, 8, 8, -1, False])
        s.do(['mul', 0, 1])
        s.do(['result', 3, 'other' if variant == 'node_label' else 'm'] if variant != 'node_sig' else ['result', 0, None])
        if variant == 'node_sig': s.do(['mul', 1, 1]); s.do(['result', 5, 'm'])
        s.do(['read', 0])
    s.do(['archive']); s.do(['real', None, 4, -1, True])
    return s

EXTRA = [
    # JSON load re-lists `complex` on live leaves; result() on the elementary complex re-tuples it
    [['complex', None, 16, 8, 5, False], ['mul', 0, 0], ['result', 1, None], ['archive'], ['add', 0, [('q', 2)]],
     ['write', 0, 'json'], ['read', 0], ['result', 0, None], ['write', 0, 'xml'], ['read', 1], ['copy', 1], ['write', 3, 'pickle'], ['read', 2]],
    # a correlation declared after the dump is overwritten by the load and by copy(written)
    [['real', None, 16, -1, False], ['real', None, 16, -1, False], ['real', None, 16, -1, False], ['corr', 0, 1, 4], ['archive'],
     ['add', 0, [('y1', 0), ('y2', 1)]], ['write', 0, 'json'], ['corr', 0, 2, 2], ['read', 0], ['corr', 0, 2, 2], ['copy', 0],
     ['extract', 1, ['y1', 'y2']], ['corr', 3, 2, -2], ['copy', 1], ['write', 3, 'xml'], ['read', 1]],
    # constants: accepted, frozen with uid None, xml refuses, reload registers a Node with uid None
    [['const'], ['constc'], ['real', 'x', 4, -1, True], ['archive'], ['add', 0, [('c', 0), ('x', 2)]], ['write', 0, 'xml'], ['write', 0, 'json'],
     ['read', 0], ['extract', 1, ['c']], ['archive'], ['add', 2, [('cc', 1), ('c2', 3)]], ['write', 2, 'pickle'], ['read', 1], ['copy', 2],
     ['write', 4, 'json'], ['result', 0, 'k'], ['result', 1, None]],
]

# archives written at different times that share influence quantities, correlations declared BETWEEN
# the writes, read back in other sessions in both orders (and with the context id reused)
EXTRA.append(
    [['real', None, 16, -1, False], ['real', None, 32, -1, False], ['corr', 0, 1, 4], ['archive'],
     ['add', 0, [('x', 0), ('y', 1)]], ['write', 0, 'json'], ['real', None, 8, -1, False], ['corr', 0, 2, 2], ['archive'],
     ['add', 1, [('x', 0), ('z', 2)]], ['write', 1, 'json'],
     ['new', 14], ['read', 0], ['read', 1], ['extract', 0, ['x', 'y']], ['extract', 1, ['z']],
     ['new', 15], ['read', 1], ['read', 0], ['extract', 1, ['x']], ['read', 1],
     ['new', 13], ['read', 0], ['read', 1], ['read', 0]])

# an ensemble split across two archives, read back with the ensemble alive, via copy, and in a new session
EXTRA.append(
    [['ens', [(None, 2), ('x2', 3), (None, 5)], 5], ['corr', 0, 1, 4], ['corr', 1, 2, -2], ['mul', 0, 1],
     ['archive'], ['add', 0, [('x1', 0)]], ['write', 0, 'json'], ['archive'], ['add', 1, [('x2', 1), ('x3', 2)]], ['write', 1, 'xml'],
     ['read', 0], ['read', 1], ['copy', 0], ['copy', 1], ['extract', 2, ['x1']], ['extract', 3, ['x2', 'x3']], ['mul', 4, 5],
     ['new', 14], ['read', 1], ['read', 0], ['extract', 0, ['x3']], ['new', 15], ['read', 0], ['read', 1]])

# an ensemble that grows after the dump (line-fit predictions append members), then the older document is read / copied,
# then the ensemble grows again (the set object must still be shared)
EXTRA.append(
    [['ens', [(None, 2), (None, 3)], 13], ['archive'], ['add', 0, [('a', 0), ('b', 1)]], ['write', 0, 'json'],
     ['real', None, 4, 13, False], ['append', 0, 2], ['mul', 2, 1], ['read', 0], ['copy', 0],
     ['real', None, 5, 13, False], ['append', 1, 4], ['mul', 4, 0], ['write', 0, 'xml'], ['read', 1],
     ['archive'], ['add', 4, [('y', 2), ('b', 1)]], ['write', 4, 'pickle'], ['new', 14], ['read', 0], ['read', 2], ['new', 15], ['read', 2], ['read', 0]])

# coefficients revised AFTER the dump to explicit zeros / other values / new pairs, then load and copy with the numbers alive
EXTRA.append(
    [['complex', 'z1', 5, 6, -1, False], ['complex', 'z2', 3, 8, -1, False], ['complex', None, 4, 4, -1, False], ['corrc', 0, 1, [4, 4, 4, 4]],
     ['mul', 0, 1], ['result', 3, 'q'], ['archive'], ['add', 0, [('z1', 0), ('z2', 1), ('q', 4)]], ['write', 0, 'json'],
     ['corrc', 0, 1, [2, 0, 0, -4]], ['corrc', 0, 2, [0, 2, 0, 0]], ['read', 0], ['copy', 0], ['extract', 1, ['z1', 'z2']],
     ['corrc', 1, 0, [0, 0, 4, 0]], ['write', 0, 'xml'], ['read', 1], ['archive'], ['add', 4, [('z1', 0), ('w', 2)]], ['write', 4, 'pickle'],
     ['corrc', 0, 2, [0, 0, 0, 2]], ['read', 2], ['new', 14], ['read', 0], ['read', 2], ['new', 15], ['read', 2], ['read', 0]])

def gen_multi(rng, k0):
    """writer session: several archives written at different times sharing dependent influence quantities, with
    correlations declared between the writes; then reader sessions (fresh context id, sometimes the writer's id
    again) read the documents in a random order, possibly twice, possibly with the shared leaves alive"""
    s = ASession(k0)
    pick = lambda xs: xs[rng.randrange(len(xs))]
    deps = []
    def new_dep():
        s.do(['real', pick([None, None, 'x', 'y']), rng.randint(1, 40), -1, False]); deps.append(len(s.objs) - 1)
    for _ in range(rng.randint(3, 5)): new_dep()
    cz = []
    if rng.random() < 0.6:                 # two dependent complex numbers: their 4 coefficients are revised after dumps
        for _ in range(2):
            s.do(['complex', pick([None, 'z']), rng.randint(1, 40), rng.randint(1, 40), -1, False]); cz.append(len(s.objs) - 1)
        s.do(['corrc', cz[0], cz[1], [rng.choice([-4, -2, 2, 4]) for _ in range(4)]])
    ens = []
    if rng.random() < 0.6:                 # a finite-dof ensemble: the archives below hold PARTS of it
        n0 = len(s.objs)
        s.do(['ens', [(pick([None, 'e']), rng.randint(1, 40)) for _ in range(rng.randint(3, 4))], rng.choice([4, 9, -1])])
        ens = list(range(n0, len(s.objs)))
        for _ in range(rng.randint(0, 2)):
            a, b = rng.sample(ens, 2); s.do(['corr', a, b, rng.choice([-4, -2, 2, 4])])
    if rng.random() < 0.4: s.do(['real', pick(LABELS), rng.randint(1, 40), rng.choice([-1, 5]), True])
    if rng.random() < 0.4:
        s.do(['complex', pick([None, 'z']), rng.randint(1, 40), rng.randint(1, 40), -1, False])
        c = len(s.objs) - 1
        s.do(['part', c, False]); deps.append(len(s.objs) - 1)
    for t in range(rng.randint(2, 4)):
        for _ in range(rng.randint(0 if t == 0 else 1, 2)):
            a, b = rng.sample(deps, 2)
            if s.objs[a]._node.uid != s.objs[b]._node.uid:
                s.do(['corr', a, b, rng.choice([-6, -4, -2, 1, 2, 4, 6])])
        if rng.random() < 0.4: new_dep()
        members = rng.sample(deps, rng.randint(1, min(3, len(deps))))
        if cz:
            if t > 0 and rng.random() < 0.6: s.do(['corrc', cz[0], cz[1], rand4(rng)])      # revised between the writes
            members += rng.sample(cz, rng.randint(1, 2))
        if ens:
            members += rng.sample(ens, rng.randint(1, len(ens) - 1))           # a strict part of the ensemble
            if rng.random() < 0.5:
                a, b = rng.sample(ens, 2); s.do(['mul', a, b]); s.do(['result', len(s.objs) - 1, None]); members.append(len(s.objs) - 1)
            if t > 0 and rng.random() < 0.4:
                a, b = rng.sample(ens, 2); s.do(['corr', a, b, rng.choice([-2, 2, 4])])
            if t > 0 and rng.random() < 0.5:                 # the ensemble GROWS between the writes
                x = grow_ensemble(s, rng)
                if x is not None: ens.append(x)
        if rng.random() < 0.5:
            a, b = pick(deps), pick(deps)
            s.do(['mul', a, b]); s.do(['result', len(s.objs) - 1, pick([None, 'm'])]); members.append(len(s.objs) - 1)
        s.do(['archive']); ar = len(s.ars) - 1
        s.do(['add', ar, [('t%d' % j, m) for j, m in enumerate(members)]])
        s.do(['write', ar, rng.choice(['pickle', 'json', 'json', 'xml'])])
    ndocs = len(s.docs)
    if cz and rng.random() < 0.7: s.do(['corrc', cz[0], cz[1], rand4(rng)])               # revised after the last dump
    if ens and rng.random() < 0.5:
        x = grow_ensemble(s, rng)
        if x is not None: s.do(['mul', x, ens[0]])
    if rng.random() < (0.7 if (ens or cz) else 0.4):         # shared leaves alive: reload in the writer session
        for d in rng.sample(range(ndocs), rng.randint(1, ndocs)): s.do(['read', d])
    used = [k0]
    for _ in range(rng.randint(1, 2)):
        k = k0 if rng.random() < 0.2 else max(used) + 1
        used.append(k); s.do(['new', k])
        order = list(range(ndocs)); rng.shuffle(order)
        if rng.random() < 0.5: order.append(pick(order))
        for d in order:
            s.do(['read', d])
            if s.outcomes[-1] == 'ok' and rng.random() < 0.5:
                a = s.ars[-1]; names = list(a._tagged_real.keys())
                if names: s.do(['extract', len(s.ars) - 1, rng.sample(names, rng.randint(1, len(names)))])
        dd = kinds(s)['dep']
        if len(dd) >= 2 and rng.random() < 0.5:              # a correlation declared among restored numbers, then another load
            a, b = rng.sample(dd, 2)
            if s.objs[a]._node.uid != s.objs[b]._node.uid:
                s.do(['corr', a, b, rng.choice([-4, 2, 4])]); s.do(['read', pick(order)])
        if s.ars and rng.random() < 0.3:
            s.do(['copy', rng.randrange(len(s.ars))]); s.do(['write', len(s.ars) - 1, rng.choice(['json', 'xml'])])
    return s

# ------------------------------------------------------------------ the tag-collision table (every tier)
TAG_KINDS = ['re', 'im', 't', 'c']          # a real tagged t_re / t_im / t, a complex tagged t
OBJ_KINDS = ['elem', 'interm']              # an elementary number / a declared intermediate result()

def gen_tag_block(k0, first_kind, tk2):
    """For the tag 't': {real tagged t_re, real tagged t_im, real tagged t, complex tagged t} added FIRST x the same four
    added SECOND, each party an elementary number or a result(); on an open archive, and with a copy() between the
    two adds (the second add goes to the copy, the original is then written as well).  One program per first party and
    second tag kind (keeps the observed state small)."""
    s = ASession(k0)
    for o in (['real', 'x', 16, -1, True], ['real', None, 8, -1, False], ['mul', 0, 1], ['result', 2, 'm'],
              ['complex', 'z', 4, 8, -1, False], ['mul', 4, 4], ['result', 5, None], ['real', None, 3, 5, True],
              ['mul', 7, 0], ['result', 8, None], ['complex', None, 2, 2, 5, True], ['mul', 10, 4], ['result', 11, 'zc']):
        s.do(o)
    # reals: elem 0 / 7, interm 3 / 9; complex: elem 4 / 10, interm 6 / 12  (first party uses the first of each, second the other)
    OBJ = {('r', 'elem'): (0, 7), ('r', 'interm'): (3, 9), ('c', 'elem'): (4, 10), ('c', 'interm'): (6, 12)}
    def party(tag_kind, obj_kind, which):
        tag = {'re': 't_re', 'im': 't_im', 't': 't', 'c': 't'}[tag_kind]
        return (tag, OBJ[('c' if tag_kind == 'c' else 'r', obj_kind)][which])
    tk1, ok1 = first_kind
    for ok2 in OBJ_KINDS:
        for with_copy in (False, True):
            s.do(['archive']); a = len(s.ars) - 1
            s.do(['add', a, [party(tk1, ok1, 0)]])
            if with_copy:
                s.do(['copy', a]); c = len(s.ars) - 1
                s.do(['add', c, [party(tk2, ok2, 1)]]); s.do(['write', c, 'json'])
            else:
                s.do(['add', a, [party(tk2, ok2, 1)]])
            s.do(['write', a, 'json'])
    return s

def tag_block_sessions(k0=17):
    return [gen_tag_block(k0, (tk, ok), tk2) for tk in TAG_KINDS for ok in OBJ_KINDS for tk2 in TAG_KINDS]

def run_corr(rng, tier):
    n_rand = 110 if tier == 'quick' else 3000
    sessions = []; dist = {}; rows = {}
    warnings.simplefilter('ignore')
    for st in ROW_STATES:
        for op in ROW_OPS:
            s, before = gen_row(20 + len(sessions) % 5, st, op)
            sessions.append(('row', s.close()))
            rows['%s/%s' % (st, op)] = s.outcomes[-2]
    for v in COLLISIONS:
        for f in ('pickle', 'json', 'xml'):
            s = gen_collision(11 + len(sessions) % 3, v, f)
            rows['collision/%s/%s' % (v, f)] = [oc for o, oc in zip(s.ops, s.outcomes) if o[0] == 'read'][-1]
            sessions.append(('row', s.close()))
    for s in tag_block_sessions():
        for o, oc in zip(s.ops, s.outcomes):
            if o[0] == 'add': rows['tags/%s' % json.dumps(o[2])] = rows.get('tags/%s' % json.dumps(o[2]), '') + oc[0]
        sessions.append(('row', s.close()))
    for h in EXTRA:
        sessions.append(('row', run_history(13, [list(o) for o in h]).close()))
    for i in range(40 if tier == 'quick' else 600):
        sessions.append(('multi', gen_multi(rng, rng.randint(1, 9)).close()))
    for i in range(n_rand):
        malformed = rng.random() < 0.25
        s = gen_history(rng, rng.randint(1, 9), rng.randint(12, 45 if tier == 'quick' else 70), malformed)
        sessions.append(('malformed' if malformed else 'random', s.close()))
    terms = []; steps = 0; seen = set()
    for kind, s in sessions:
        terms.append(s.term()); steps += len(s.ops)
        dist['programs_' + kind] = dist.get('programs_' + kind, 0) + 1
        for o, oc in zip(s.ops, s.outcomes):
            key = 'op_%s:%s' % (o[0], oc if oc in ('ok', 'objs') else oc)
            dist[key] = dist.get(key, 0) + 1
        seen.add(tuple(s.hashes))
    values, errors = coq_eval_cases('C08', HEADER, terms, per_file=max(8, (len(terms) + 15) // 16), timeout=600)
    mismatches = []
    for (kind, s), v in zip(sessions, values):
        if v is None or v != -1:
            mm = {'kind': 'archive-history', 'stream': kind, 'k0': s.k0, 'ops': s.ops, 'first_differing_step': v}
            if v is not None and 0 <= v < len(s.ops):
                mm['op'] = s.ops[v]; mm['implementation'] = show(run_history(s.k0, s.ops).trees[v])[:3000]
                mm['implementation_outcome'] = s.outcomes[v]
            mismatches.append(mm)
    for mm in mismatches[:3]:
        diagnose(mm)
    if errors and not mismatches:
        mismatches.append({'kind': 'coqc-error', 'detail': errors[:2]})
    return {'programs': len(sessions), 'steps': steps, 'mismatches': mismatches, 'distinct': len(seen),
            'distribution': dict(sorted(dist.items())), 'table_rows': rows,
            'rule': ('%d enumerated programs (archive state x operation, each followed by a write) + %d adaptive random '
                     'histories (25%% malformed: undeclared/constant/mixed/wrong-type objects, clashing tags, reused '
                     'context ids) + 40 (thorough 600) multi-archive histories (archives written at different times sharing dependent '
                     'leaves, correlations declared between the writes, read back in other sessions in random orders); '
                     'after EVERY step the outcome and the whole observable state are compared (63-bit '
                     'hash of the observation tree); distinct = number of distinct observation traces'
                     % (len(ROW_STATES) * len(ROW_OPS) + 3 * len(COLLISIONS) + len(EXTRA) + len(TAG_KINDS) ** 2 * len(OBJ_KINDS), n_rand)),
            'samples': [{'k0': s.k0, 'ops': s.ops[:12], 'outcomes': s.outcomes[:12]} for _, s in sessions[-2:]]}

def diagnose(mm):
    """ask coqc for the model's observation at the differing step"""
    v = mm.get('first_differing_step')
    if v is None or v < 0: return
    d = scratch('diag_C08')
    p = os.path.join(d, 'diag.v')
    with open(p, 'w') as f:
        f.write(HEADER + 'Eval vm_compute in (obs_at %s %s %s).\n' % (cz(mm['k0']), clist([cop(o) for o in mm['ops']]), cnat(v)))
    res = run_coqc_many([p], timeout=120)
    mm['model'] = coq_tree_to_text(res[p][1])[:3000]

(* BudgetPairing.v -- C17: the positional pairing invariant [paired] that the complex budget
   relies on ("the next item is always the imaginary component") follows from what the property
   text assumes -- both components of every complex influence are present -- together with the
   session invariant established by UncertainComplex._elementary: the two leaves of a complex
   input have consecutive uids and carry the same `complex` id. *)
From Coq Require Import ZArith List Bool Reals Lia Sorting.Sorted.
From GTCV Require Import Num RNum Vector VectorFacts Opres KTypes Kernel Budget BudgetFacts.
Import ListNotations.

Definition klt (a b : key) : Prop := kcmp a b = Lt.
Definition key_sorted (K : list key) : Prop := StronglySorted klt K.
Definition ksucc (a : key) : key := (fst a, (snd a + 1)%Z).

(* real._node.complex = imag._node.complex = (real uid, imag uid), uids consecutive *)
Definition cplx_inv (s : state) : Prop :=
  forall k l a b, leaf_of RNum s k = Ok l -> l_cplx l = Some (a, b) ->
    (k = a \/ k = b) /\ b = ksucc a /\
    (forall la, leaf_of RNum s a = Ok la -> l_cplx la = Some (a, b)) /\
    (forall lb, leaf_of RNum s b = Ok lb -> l_cplx lb = Some (a, b)).

Definition all_leaves (s : state) (K : list key) : Prop :=
  forall k, In k K -> exists l, leaf_of RNum s k = Ok l.

(* both components of every complex influence that occurs are present *)
Definition both_present (s : state) (K : list key) : Prop :=
  forall k l a b, In k K -> leaf_of RNum s k = Ok l -> l_cplx l = Some (a, b) -> In a K /\ In b K.

Lemma klt_irrefl a : ~ klt a a.
Proof. unfold klt. rewrite kcmp_refl. discriminate. Qed.

Lemma klt_succ a : klt a (ksucc a).
Proof. unfold klt, ksucc. rewrite kcmp_lt_iff. simpl. lia. Qed.

Lemma between_succ a k : klt a k -> (k = ksucc a \/ klt k (ksucc a)) -> k = ksucc a.
Proof.
  unfold klt, ksucc. rewrite !kcmp_lt_iff. destruct a as [a1 a2], k as [k1 k2]; simpl.
  intros H [E|H2]; [exact E|]. exfalso. lia.
Qed.

Lemma sorted_head_klt k K x : key_sorted (k :: K) -> In x K -> klt k x.
Proof. intros S Hx. inversion S as [|? ? _ Hall]; subst. rewrite Forall_forall in Hall. apply Hall; exact Hx. Qed.

Lemma sorted_tail_k k K : key_sorted (k :: K) -> key_sorted K.
Proof. intros S; inversion S; assumption. Qed.

Lemma paired_of_present_n s :
  cplx_inv s ->
  forall n K, (List.length K <= n)%nat -> key_sorted K -> all_leaves s K -> both_present s K -> paired s K.
Proof.
  intros Hinv n; induction n as [|n IH]; intros K Hlen HS HL HB.
  - destruct K; [constructor | simpl in Hlen; lia].
  - destruct K as [|k K]; [constructor|].
    destruct (HL k (or_introl eq_refl)) as [l El].
    destruct (l_cplx l) as [[a b]|] eqn:Ec.
    + destruct (Hinv k l a b El Ec) as (Hk & Hb & Ha' & Hb'). subst b.
      destruct (HB k l a (ksucc a) (or_introl eq_refl) El Ec) as [Ina Inb].
      destruct Hk as [->| ->].
      * (* the head is the real component a *)
        destruct Inb as [Eb|Inb]; [exfalso; apply (klt_irrefl a); rewrite Eb at 2; apply klt_succ|].
        destruct K as [|k2 K2]; [destruct Inb|].
        assert (E2 : k2 = ksucc a).
        { apply between_succ.
          - apply (sorted_head_klt a (k2 :: K2)); [exact HS | left; reflexivity].
          - destruct Inb as [E|Inb]; [left; exact E | right].
            apply (sorted_head_klt k2 K2); [exact (sorted_tail_k _ _ HS) | exact Inb]. }
        subst k2.
        assert (Hgt : forall x, In x K2 -> klt a x /\ klt (ksucc a) x).
        { intros x Hx. split.
          - apply (sorted_head_klt a (ksucc a :: K2)); [exact HS | right; exact Hx].
          - apply (sorted_head_klt (ksucc a) K2); [exact (sorted_tail_k _ _ HS) | exact Hx]. }
        destruct (HL (ksucc a) (or_intror (or_introl eq_refl))) as [lsb Elsb].
        pose proof (Hb' lsb Elsb) as Ecb.
        apply (p_cplx s a (ksucc a) K2 l El Ec).
        apply IH.
        -- simpl in Hlen. lia.
        -- exact (sorted_tail_k _ _ (sorted_tail_k _ _ HS)).
        -- intros x Hx. apply HL. right; right; exact Hx.
        -- intros k' l' a' b' Hk' El' Ec'.
           destruct (Hinv k' l' a' b' El' Ec') as (Hk'' & Hb'' & Ha'' & Hb''').
           destruct (HB k' l' a' b' (or_intror (or_intror Hk')) El' Ec') as [Ia Ib].
           destruct (Hgt k' Hk') as [G1 G2].
           assert (Na : a' <> a).
           { intros ->. pose proof (Ha'' l El) as E. rewrite Ec in E. injection E as E. subst b'.
             destruct Hk'' as [->| ->]; [exact (klt_irrefl _ G1) | exact (klt_irrefl _ G2)]. }
           assert (Nsa : a' <> ksucc a).
           { intros ->. pose proof (Ha'' lsb Elsb) as E. rewrite Ecb in E. injection E as E1 E2.
             apply (klt_irrefl a). rewrite E1 at 2. apply klt_succ. }
           assert (Nb : b' <> a).
           { intros ->. pose proof (Hb''' l El) as E. rewrite Ec in E. injection E as E1 E2.
             apply (klt_irrefl a). rewrite <- E2 at 2. apply klt_succ. }
           assert (Nsb : b' <> ksucc a).
           { intros ->. pose proof (Hb''' lsb Elsb) as E. rewrite Ecb in E. injection E as E1. apply Na. symmetry; exact E1. }
           split.
           ++ destruct Ia as [E|[E|Ia]]; [exfalso; apply Na; symmetry; exact E | exfalso; apply Nsa; symmetry; exact E | exact Ia].
           ++ destruct Ib as [E|[E|Ib]]; [exfalso; apply Nb; symmetry; exact E | exfalso; apply Nsb; symmetry; exact E | exact Ib].
      * (* the head is the imaginary component: the real one would have to precede it *)
        exfalso. destruct Ina as [E|Ina].
        -- apply (klt_irrefl a). rewrite <- E at 2. apply klt_succ.
        -- pose proof (sorted_head_klt (ksucc a) K a HS Ina) as G.
           apply (klt_irrefl a). unfold klt in *. eapply kcmp_lt_trans; [apply klt_succ | exact G].
    + apply (p_real s k K l El Ec). apply IH.
      * simpl in Hlen. lia.
      * exact (sorted_tail_k _ _ HS).
      * intros x Hx. apply HL. right; exact Hx.
      * intros k' l' a' b' Hk' El' Ec'.
        destruct (Hinv k' l' a' b' El' Ec') as (_ & _ & Ha'' & Hb''').
        destruct (HB k' l' a' b' (or_intror Hk') El' Ec') as [Ia Ib].
        split.
        -- destruct Ia as [E|Ia]; [|exact Ia]. exfalso. subst a'. pose proof (Ha'' l El) as E. rewrite Ec in E. discriminate.
        -- destruct Ib as [E|Ib]; [|exact Ib]. exfalso. subst b'. pose proof (Hb''' l El) as E. rewrite Ec in E. discriminate.
Qed.

Theorem paired_of_present s K :
  cplx_inv s -> key_sorted K -> all_leaves s K -> both_present s K -> paired s K.
Proof. intros Hinv. apply (paired_of_present_n s Hinv (List.length K) K). apply Nat.le_refl. Qed.

(* the key list of a sorted vector is key_sorted *)
Lemma sorted_key_sorted (v : list (key * R)) : sorted (N:=RNum) v -> key_sorted (keys (N:=RNum) v).
Proof.
  induction v as [|[k u] v IH]; intros S; [constructor|].
  cbn [keys map fst]. constructor.
  - apply IH. exact (VectorFacts.sorted_tail RNum _ _ _ S).
  - apply Forall_forall. intros x Hx. exact (VectorFacts.sorted_head_lt RNum k u v x S Hx).
Qed.

(* C17 (complex), with the hypothesis of the property text: in a session satisfying cplx_inv,
   if both components of every complex influence of y are present, the default complex budget
   has one row per real influence and one row per complex influence, each with u_bar of its
   components of uncertainty (independent or dependent) *)
Theorem complex_budget_present s ncx (yre yim : KTypes.ureal R) t m k rv :
  wf_real s yre -> wf_real s yim -> cplx_inv s ->
  both_present s (keys (N:=RNum) (ext_re RNum yre yim)) ->
  exists rows, gather RNum s ncx (@YComplex RNum yre yim) (default_opts t m k rv) = Ok rows /\
               crows s yre yim (keys (N:=RNum) (ext_re RNum yre yim)) rows.
Proof.
  intros W1 W2 Hinv HB. apply complex_budget_paired; try assumption.
  apply paired_of_present; try assumption.
  - apply sorted_key_sorted. destruct W1, W2. apply ext_re_sorted; assumption.
  - intros k0 Hk0. apply ext_re_keys in Hk0.
    destruct W1 as [_ _ Lu1 Ld1], W2 as [_ _ Lu2 Ld2].
    destruct Hk0 as [[H|H]|[H|H]];
      [destruct (Lu1 k0 H) as (l & El & _) | destruct (Ld1 k0 H) as (l & El & _)
       | destruct (Lu2 k0 H) as (l & El & _) | destruct (Ld2 k0 H) as (l & El & _)]; exists l; exact El.
Qed.

(* non-vacuity: the session {z = ucomplex(...), x = ureal(...)} satisfies the session invariant,
   and y = z*x has both components of z *)
Lemma cplx_inv_st_zx : cplx_inv st_zx.
Proof.
  intros k l a b El Ec. unfold leaf_of, st_zx in El. cbn [s_leaves assoc] in El.
  destruct (keqb k k1) eqn:E1; [apply keqb_eq in E1; subst k|].
  - injection El as <-. cbn in Ec. injection Ec as <- <-.
    split; [left; reflexivity|]. split; [reflexivity|]. split; intros lx Hx; injection Hx as <-; reflexivity.
  - destruct (keqb k k2) eqn:E2; [apply keqb_eq in E2; subst k|].
    + injection El as <-. cbn in Ec. injection Ec as <- <-.
      split; [right; reflexivity|]. split; [reflexivity|]. split; intros lx Hx; injection Hx as <-; reflexivity.
    + destruct (keqb k k3) eqn:E3; [|discriminate]. injection El as <-. cbn in Ec. discriminate.
Qed.

Lemma both_present_f : both_present st_zx (keys (N:=RNum) (ext_re RNum yre_f yim_f)).
Proof.
  change (keys (N:=RNum) (ext_re RNum yre_f yim_f)) with [k1; k2; k3].
  intros k l a b Hk El Ec.
  destruct (cplx_inv_st_zx k l a b El Ec) as (Hab & Hb & _ & _). subst b.
  destruct Hk as [<-|[<-|[<-|[]]]].
  - injection El as <-. cbn in Ec. injection Ec as <-. split; [left; reflexivity | right; left; reflexivity].
  - injection El as <-. cbn in Ec. injection Ec as <-. split; [left; reflexivity | right; left; reflexivity].
  - injection El as <-. cbn in Ec. discriminate.
Qed.

"""est_total.py -- property C11, last clause: "the estimators that declare numbers internally do not fail on statistically
degenerate but legitimate data such as zero sample correlation, exactly collinear series or two observations", and what they
return satisfies the no-bad-number invariant (value finite, 0 <= u finite, dof >= 1, every stored / reported correlation a
number with |r| <= 1 up to rounding: the bound of the proved invariant, 1 + 1e-10).

Implementation-vs-SPECIFICATION cases (there is no executable model of the estimators in C11; the C12 models speak about the
values): every generated sample is finite, well scaled (|x| and spreads between 1e-100 and 1e100, so no square overflows or
underflows) and has at least two observations, i.e. it is legitimate; the specification for such a call is "returns, and the
result is a good number".  A raise or a bad number is a mismatch carrying the call as replay.

Sample classes (enumerated in every run, then randomised): constant series next to varying ones, several constant series,
exactly zero sample covariance between varying series (orthogonal designs, exact in binary64), exactly collinear and
anti-collinear series (exact and with rounding), two observations (distinct / equal), constant real or imaginary component,
all observations equal, scales 1e-100 .. 1e100, offsets far from zero; for type_a.estimate (real and complex),
multi_estimate_real, multi_estimate_complex, estimate_digitized (no scatter N = 2, 3, >= 4; scatter exactly one step; larger)."""
import math, random
from common import *

INF = math.inf

# exact orthogonal designs: sum(a) = sum(b) = 0 and sum(a*b) = 0, small integers
ORTHO = {
    3: [([-1.0, 0.0, 1.0], [1.0, -2.0, 1.0])],
    4: [([-1.0, -1.0, 1.0, 1.0], [-1.0, 1.0, -1.0, 1.0]), ([-3.0, -1.0, 1.0, 3.0], [1.0, -1.0, -1.0, 1.0]),
        ([-1.0, 1.0, 0.0, 0.0], [0.0, 0.0, -1.0, 1.0])],
    5: [([-2.0, -1.0, 0.0, 1.0, 2.0], [2.0, -1.0, -2.0, -1.0, 2.0])],
    6: [([-1.0, -1.0, -1.0, 1.0, 1.0, 1.0], [-1.0, 0.0, 1.0, -1.0, 0.0, 1.0])],
}

def base_series(rng, n):
    """a varying series of n observations"""
    k = rng.random()
    if k < 0.4:
        xs = [float(rng.randint(-9, 9)) for _ in range(n)]
    elif k < 0.7:
        xs = [rng.randint(-40, 40) / 8.0 for _ in range(n)]
    else:
        xs = [rng.uniform(-10, 10) for _ in range(n)]
    if len(set(xs)) < 2:
        xs[0] += 1.0
        if len(set(xs)) < 2: xs[-1] -= 2.0
    return xs

def series_of(rng, kind, base, n):
    """a series related to `base` in the given way"""
    if kind == 'const':
        c = rng.choice([0.0, 1.25, -3.0, 20.0, rng.uniform(-5, 5)]); return [c] * n
    if kind == 'collinear':
        a, b = rng.choice([0.0, 1.0, -2.5]), rng.choice([2.0, 0.5, 4.0, 1.0, 3.0, rng.uniform(0.1, 3)]); return [a + b * x for x in base]
    if kind == 'anti':
        a, b = rng.choice([0.0, 1.0, -2.5]), -rng.choice([2.0, 0.5, 1.0, 3.0, rng.uniform(0.1, 3)]); return [a + b * x for x in base]
    if kind == 'copy':
        return list(base)
    if kind == 'vary':
        return base_series(rng, n)
    raise ValueError(kind)

def rescale(rng, rows):
    """common scale and per-row offset; powers of two keep the exact designs exact"""
    k = rng.random()
    if k < 0.5: return rows
    if k < 0.7:
        s = 2.0 ** rng.randint(-300, 300); return [[s * x for x in r] for r in rows]
    if k < 0.85:
        s = 10.0 ** rng.randint(-100, 100); return [[s * x for x in r] for r in rows]
    return [[x + float(rng.choice([100, -1000, 4096, 10 ** 6])) for x in r] for r in rows]

def gen_case(rng, force=None):
    """one estimator call on degenerate but legitimate data: (name, args) -- args JSON-able (complex as [re, im])"""
    which = force or rng.choice(['estimate_real', 'estimate_complex', 'multi_real', 'multi_real', 'multi_complex', 'multi_complex', 'digitized'])
    n = rng.choice([2, 2, 3, 4, 5, 6, 8])
    if which == 'estimate_real':
        kind = rng.choice(['const', 'vary', 'vary', 'two_equal'])
        xs = [rng.choice([1.0, -0.5, 7.25])] * n if kind in ('const', 'two_equal') else base_series(rng, n)
        return 'estimate', [rescale(rng, [xs])[0]]
    if which == 'estimate_complex':
        base = base_series(rng, n)
        kind = rng.choice(['const_re', 'const_im', 'const_both', 'collinear', 'anti', 'ortho', 'vary', 'copy'])
        if kind == 'ortho':
            m = rng.choice([k for k in ORTHO]); a, b = rng.choice(ORTHO[m])
            if rng.random() < 0.5: a, b = b, a
            re, im = list(a), list(b)
        elif kind == 'const_re': re, im = series_of(rng, 'const', base, n), base
        elif kind == 'const_im': re, im = base, series_of(rng, 'const', base, n)
        elif kind == 'const_both': re, im = series_of(rng, 'const', base, n), series_of(rng, 'const', base, n)
        else: re, im = base, series_of(rng, kind, base, n)
        re, im = rescale(rng, [re, im])
        return 'estimate', [[[a, b] for a, b in zip(re, im)]]
    if which == 'multi_real':
        m = rng.choice([2, 2, 3, 4])
        if rng.random() < 0.25:
            nn = rng.choice([k for k in ORTHO]); a, b = rng.choice(ORTHO[nn]); rows = [list(a), list(b)]
            for _ in range(m - 2): rows.append(series_of(rng, rng.choice(['const', 'collinear', 'vary']), rows[0], nn))
        else:
            base = base_series(rng, n); rows = [base]
            for _ in range(m - 1): rows.append(series_of(rng, rng.choice(['const', 'const', 'collinear', 'anti', 'vary', 'copy']), base, n))
        rng.shuffle(rows)
        return 'multi_estimate_real', [rescale(rng, rows)]
    if which == 'multi_complex':
        m = rng.choice([1, 2, 2, 3])
        base = base_series(rng, n); comps = []
        for _ in range(2 * m): comps.append(series_of(rng, rng.choice(['const', 'const', 'collinear', 'anti', 'vary', 'copy']), base, n))
        if rng.random() < 0.5: comps[rng.randrange(2 * m)] = base
        comps = rescale(rng, comps)
        return 'multi_estimate_complex', [[[[a, b] for a, b in zip(comps[2 * i], comps[2 * i + 1])] for i in range(m)]]
    # digitized readings: multiples of the step
    delta = rng.choice([1.0, 0.5, 0.0001, 0.25, 1e-6, 100.0])
    c = float(rng.randint(-60, 60))
    kind = rng.choice(['none', 'none', 'one_step', 'wide'])
    if kind == 'none': ks = [c] * n
    elif kind == 'one_step':
        ks = [c + rng.choice([0.0, 1.0]) for _ in range(n)]; ks[0], ks[-1] = c, c + 1.0
    else:
        ks = [c + float(rng.randint(-4, 4)) for _ in range(n)]
    return 'estimate_digitized', [[k * delta for k in ks], delta, rng.random() < 0.3]

def enumerated():
    """the named degenerate classes, every run"""
    out = []
    var4 = [4.999, 5.001, 5.003, 4.998]; c4 = [1.25] * 4
    for rows in ([var4, c4], [c4, var4], [c4, [3.0] * 4], [[20.0] * 3, [0.11, 0.13, 0.12], [3.0, 3.5, 2.9]],
                 [[1.0, 2.0, 3.0], [1.0, -2.0, 1.0]], [[1.0, 2.0], [5.0, 3.0], [0.1, 0.4]], [[1.0, 2.0], [1.0, 1.0]],
                 [[1.0, 2.0, 3.0, 4.0], [2.0, 4.0, 6.0, 8.0]], [[1.0, 2.0, 3.0, 4.0], [-2.0, -4.0, -6.0, -8.0]],
                 [[1.0, 2.0, 3.0], [1.0, 2.0, 3.0], [7.0, 7.0, 7.0], [3.0, 2.0, 1.0]], [[0.0, 0.0], [0.0, 0.0]]):
        out.append(('multi_estimate_real', [rows]))
    cz = lambda re, im: [[a, b] for a, b in zip(re, im)]
    for re, im in (([1.0, 2.0, 3.0], [5.0, 5.0, 5.0]), ([5.0, 5.0, 5.0], [1.0, 2.0, 3.0]), ([2.0, 2.0], [3.0, 3.0]),
                   ([1.0, -1.0, 1.0, -1.0], [1.0, 1.0, -1.0, -1.0]), ([1.0, 2.0], [1.0, 2.0]), ([1.0, 2.0], [2.0, 1.0]),
                   ([1.0, 2.0, 3.0, 4.0], [2.0, 4.0, 6.0, 8.0]), ([1.0, 2.0, 4.0], [0.5, -0.25, 0.125])):
        out.append(('estimate', [cz(re, im)]))
        out.append(('multi_estimate_complex', [[cz(re, im)]]))
        out.append(('multi_estimate_complex', [[cz(re, im), cz(im, re)]]))
        out.append(('multi_estimate_complex', [[cz(re, im), cz([7.0] * len(re), [0.0] * len(re))]]))
    for xs in ([1.0, 1.0], [1.0, 2.0], [3.0] * 5, [0.0, 0.0, 0.0], [1e100, 2e100, 3e100], [1e-100, 3e-100]):
        out.append(('estimate', [xs]))
    for n in (2, 3, 4, 7):
        for trunc in (False, True):
            out.append(('estimate_digitized', [[-0.0056] * n, 0.0001, trunc]))
    out.append(('estimate_digitized', [[1.0, 2.0, 1.0, 2.0], 1.0, False]))
    out.append(('estimate_digitized', [[1.0, 5.0, 3.0], 1.0, True]))
    return out

def call(name, args):
    from GTC import type_a
    def cplx(seq): return [complex(a, b) for a, b in seq]
    if name == 'estimate':
        data = args[0]
        return [type_a.estimate(cplx(data) if data and isinstance(data[0], (list, tuple)) else data)]
    if name == 'multi_estimate_real': return list(type_a.multi_estimate_real(args[0]))
    if name == 'multi_estimate_complex': return list(type_a.multi_estimate_complex([cplx(s) for s in args[0]]))
    if name == 'estimate_digitized': return [type_a.estimate_digitized(args[0], args[1], truncate=args[2])]
    raise ValueError(name)

def check_case(name, args):
    """the specification: the call returns and every number it returns is good; None or a failing-input dict"""
    from GTC import lib, core
    new_context(59)
    f = {'kind': 'estimator-total', 'estimator': name, 'args': args}
    try:
        res = call(name, args)
    except Exception as ex:
        f['problem'] = 'estimator failed on degenerate but legitimate data with %s: %s' % (type(ex).__name__, str(ex)[:120])
        f['exception'] = type(ex).__name__; f['message'] = str(ex)[:200]
        return f
    reals = []
    for o in res:
        if isinstance(o, lib.UncertainComplex): reals += [o.real, o.imag]
        elif isinstance(o, lib.UncertainReal): reals.append(o)
        else:
            f['problem'] = 'estimator returned %r' % (type(o).__name__,); return f
    for o in reals:
        x, u, df = o.x, o.u, o.df
        if not (math.isfinite(x) and math.isfinite(u) and u >= 0 and df >= 1):
            f['problem'] = 'estimator yields a bad number: x=%r u=%r df=%r' % (x, u, df); return f
        n = o._node
        for k, r in (getattr(n, 'correlation', {}) or {}).items():
            # the bound of the proved invariant (good_leaf: |r| <= 1 + 1e-10, the tolerance core.ucomplex itself allows);
            # type_a.estimate(complex) stores the unclipped sample coefficient, 1 + 1..2 ulp for exactly collinear data
            if not (abs(r) <= 1.0 + 1e-10):
                f['problem'] = 'estimator stores a bad correlation coefficient %r' % (r,); return f
    for i, a in enumerate(reals):
        for b in reals[i + 1:]:
            r = core.get_correlation(a, b)
            if not (abs(r) <= 1.0 + 1e-10):
                f['problem'] = 'estimator yields numbers with correlation %r' % (r,); return f
    return None

def totality_slice(rng, tier):
    n = 260 if tier == 'quick' else 6000
    cases = enumerated()
    kinds = ['estimate_real', 'estimate_complex', 'multi_real', 'multi_complex', 'digitized']
    for i in range(n):
        cases.append(gen_case(rng, kinds[i % len(kinds)] if i < 5 * 20 else None))
    mism = []; dist = {}; seen = set()
    for name, args in cases:
        dist['est:' + name] = dist.get('est:' + name, 0) + 1
        seen.add(repr((name, args)))
        f = check_case(name, args)
        if f is not None:
            mism.append(dict(f, kind='estimator-vs-specification'))
    return {'programs': len(cases), 'steps': len(cases), 'mismatches': mism, 'distinct': len(seen), 'distribution': dist}

def oracle(rng, n):
    """search side: the same specification on fresh random cases"""
    tried = 0
    for name, args in enumerated() + [gen_case(rng) for _ in range(n)]:
        tried += 1
        f = check_case(name, args)
        if f is not None:
            return {'tried': tried, 'failing': f}
    return {'tried': tried, 'failing': None}

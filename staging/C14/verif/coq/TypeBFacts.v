(* TypeBFacts.v -- theorems about the generated line-fitting code (gen/Gen_type_b.v) over the
   reals: the trees line_fit / line_fit_wls return are +,-,*,/ trees (hence ChainRule applies
   at every point), and their value functions are the closed-form least-squares estimators. *)
From Coq Require Import ZArith List Bool Reals Lra Lia.
From Coquelicot Require Import Coquelicot.
From GTCV Require Import Num RNum Vector VectorFacts Opres KTypes Kernel DerivTable ChainRule Transparency TBLib TypeB.
From GTCV.gen Require Import Gen_type_b.
Import ListNotations.
Local Open Scope R_scope.

Notation mval := (TBLib.mval RNum).
Notation expr := (Kernel.expr RNum).

Definition rsum (l : list R) : R := fold_right Rplus 0 l.

(* ---------- inversion of the result monad ---------- *)
Ltac binv H :=
  repeat (cbn [bind] in H;
          match type of H with
          | bind ?r _ = Ok _ => let E := fresh "E" in destruct r eqn:E; [|discriminate H]
          | (if ?c then _ else _) = Ok _ =>
              let C := fresh "C" in destruct c eqn:C; [try discriminate H | try discriminate H]
          | match ?o with None => _ | Some _ => _ end = Ok _ =>
              let O := fresh "O" in destruct o eqn:O
          end).

Ltac rr := cbn [T add sub mul neg nabs of_Z dyad leb eqb ltb is_inf is_nan RNum] in *; change (T RNum) with R in *.

Ltac wft := intros; simpl in *; repeat split; auto; try congruence; try tauto.

Lemma fold_err {A B} (step : res B -> A -> res B) (l : list A) x :
  (forall el, step (Err x) el = Err x) -> fold_left step l (Err x) = Err x.
Proof. intros H. induction l; simpl; auto. rewrite H; auto. Qed.

Section Den.
  Variable Fi : nat -> env -> R.       (* what the objects in the slots denote *)

  (* the function of the inputs an mval denotes *)
  Definition den (m : mval) (e : env) : R :=
    match m with MN v => v | ME t => sem Fi t e end.

  (* trees without ** and atan2: regular at every point *)
  Fixpoint plain_tree (t : expr) : Prop :=
    match t with
    | EVar _ | ENum _ => True
    | EUn f t1 => f <> U_phase /\ plain_tree t1
    | EBin f a b => (f <> B_pow /\ f <> B_atan2) /\ plain_tree a /\ plain_tree b
    end.
  Definition wf (m : mval) : Prop := match m with MN _ => True | ME t => plain_tree t end.

  Lemma plain_regular e0 t : plain_tree t -> regular Fi e0 t.
  Proof.
    induction t as [i|v|f t1 IH|f a IHa b IHb]; simpl; auto.
    { intros [Hf Ht]. split; auto. destruct f; simpl; auto. congruence. }
    intros [[Hp Ha] [H1 H2]]. split; [auto|split; [auto|]]. destruct f; simpl; auto; congruence.
  Qed.

  Definition is_arith (f : binop) : Prop := f = B_add \/ f = B_sub \/ f = B_mul \/ f = B_div.

  Lemma wf_toE m : wf m -> plain_tree (toE RNum m).
  Proof. destruct m; simpl; auto. Qed.

  Lemma den_toE m e : sem Fi (toE RNum m) e = den m e.
  Proof. destruct m; reflexivity. Qed.

  Lemma mbin_den f a b c :
    is_arith f -> mbin RNum f a b = Ok c ->
    (wf a -> wf b -> wf c) /\ forall e, den c e = binop_R f (den a e) (den b e).
  Proof.
    intros Hf H.
    assert (Hnp : f <> B_pow /\ f <> B_atan2) by (destruct Hf as [-> | [-> | [-> | ->]]]; split; congruence).
    destruct a as [l|ta], b as [r|tb]; simpl in H.
    - destruct Hf as [-> | [-> | [-> | ->]]]; simpl in H.
      + injection H as <-. split; [wft|reflexivity].
      + injection H as <-. split; [wft|reflexivity].
      + injection H as <-. split; [wft|reflexivity].
      + unfold R_div in H. destruct (Req_EM_T r 0); [discriminate|]. injection H as <-.
        split; [wft|reflexivity].
    - injection H as <-. split; [wft|reflexivity].
    - injection H as <-. split; [wft|reflexivity].
    - injection H as <-. split; [wft|reflexivity].
  Qed.

  Lemma mneg_den a c : mneg RNum a = Ok c -> (wf a -> wf c) /\ forall e, den c e = - den a e.
  Proof. destruct a; simpl; intros [= <-]; split; auto. intros; simpl; split; [discriminate|auto]. Qed.

  (* ----- sum ----- *)
  Definition sden (a : sacc RNum) (e : env) : R :=
    match a with SInt => 0 | SFloat f c => f + c | SGen m => den m e end.
  Definition swf (a : sacc RNum) : Prop := match a with SGen m => wf m | _ => True end.

  Lemma fin_sum_R f c : fin_sum RNum f c = f + c.
  Proof.
    unfold fin_sum. rr. unfold Reqb.
    destruct (Req_EM_T c 0); simpl; [subst; ring|reflexivity].
  Qed.

  Lemma sum_step_den a v a' :
    sum_step RNum a v = Ok a' ->
    (swf a -> wf v -> swf a') /\ forall e, sden a' e = sden a e + den v e.
  Proof.
    destruct a as [|f c|m]; destruct v as [x|t]; simpl; intros H.
    - injection H as <-. split; [wft|]. intros en. simpl. rr. simpl. first [lra | ring | (rewrite !Rplus_0_l, Rmult_0_l, Rplus_0_r; reflexivity)].
    - injection H as <-. split; [wft|]. intros en. simpl. rr. try reflexivity; try lra.
    - injection H as <-. split; [wft|]. intros en. simpl. rr.
      destruct (Rleb (Rabs x) (Rabs f)); lra.
    - injection H as <-. split; [wft|]. intros en. simpl. rewrite fin_sum_R. reflexivity.
    - destruct m; simpl in H.
      + injection H as <-. split; [wft|]. intros en; reflexivity.
      + injection H as <-. split; [wft|]. intros en; reflexivity.
    - destruct m; simpl in H; injection H as <-; (split; [wft|]; intros en; reflexivity).
  Qed.

  Lemma sum_fin_den a : (swf a -> wf (sum_fin RNum a)) /\ forall e, den (sum_fin RNum a) e = sden a e.
  Proof.
    destruct a; simpl; split; auto; intros e; try reflexivity. apply fin_sum_R.
  Qed.

  Lemma msum_fold {A} (f : A -> res mval) (G : A -> env -> R) (l : list A) :
    (forall el v, In el l -> f el = Ok v -> wf v /\ forall e, den v e = G el e) ->
    forall a0 a,
    fold_left (fun acc el => a <- acc ;; v <- f el ;; sum_step RNum a v) l (Ok a0) = Ok a ->
    (swf a0 -> swf a) /\ forall e, sden a e = sden a0 e + rsum (map (fun el => G el e) l).
  Proof.
    induction l as [|el l IH]; intros Hf a0 a H; simpl in H.
    - injection H as <-. split; auto. intros e; simpl; ring.
    - destruct (f el) as [v|x] eqn:Ev; cbn [bind] in H;
        [|rewrite fold_err in H; [discriminate|reflexivity]].
      destruct (sum_step RNum a0 v) as [a1|x] eqn:Es;
        [|rewrite fold_err in H; [discriminate|reflexivity]].
      destruct (Hf el v (or_introl eq_refl) Ev) as [Wv Dv].
      destruct (sum_step_den _ _ _ Es) as [W1 D1].
      destruct (IH (fun el' v' Hin => Hf el' v' (or_intror Hin)) a1 a H) as [W2 D2].
      split; [auto|]. intros e. rewrite D2, D1, Dv. simpl. ring.
  Qed.

  Lemma msum_with_den {A} (f : A -> res mval) (G : A -> env -> R) (l : list A) c :
    (forall el v, In el l -> f el = Ok v -> wf v /\ forall e, den v e = G el e) ->
    msum_with RNum f l = Ok c ->
    wf c /\ forall e, den c e = rsum (map (fun el => G el e) l).
  Proof.
    intros Hf H. unfold msum_with in H.
    destruct (fold_left _ l (Ok (SInt RNum))) as [a|] eqn:E; [|discriminate].
    cbn [bind] in H. injection H as <-.
    destruct (msum_fold f G l Hf _ _ E) as [W D]. destruct (sum_fin_den a) as [W' D'].
    split; [apply W', W; exact I|]. intros e. rewrite D', D. simpl. ring.
  Qed.

  Lemma mmap_with_den {A} (f : A -> res mval) (G : A -> env -> R) (l : list A) vs :
    (forall el v, In el l -> f el = Ok v -> wf v /\ forall e, den v e = G el e) ->
    mmap_with f l = Ok vs ->
    List.Forall wf vs /\ length vs = length l /\
    forall e, map (fun v => den v e) vs = map (fun el => G el e) l.
  Proof.
    revert vs. induction l as [|el l IH]; intros vs Hf H; simpl in H.
    - injection H as <-. auto.
    - destruct (f el) as [v|] eqn:Ev; [|discriminate]. cbn [bind] in H.
      destruct (mmap_with f l) as [vs'|] eqn:Em; [|discriminate]. cbn [bind] in H. injection H as <-.
      destruct (Hf el v (or_introl eq_refl) Ev) as [Wv Dv].
      destruct (IH vs' (fun el' v' Hin => Hf el' v' (or_intror Hin)) eq_refl) as [W [L D]].
      split; [constructor; auto|split; [simpl; congruence|]]. intros e. simpl. rewrite Dv, D. reflexivity.
  Qed.
End Den.

(* ---------- sums over lists of reals ---------- *)
Definition Sq (X : list R) : R := rsum (map (fun x => x * x) X).
Definition S2 (X Y : list R) : R := rsum (map (fun p => fst p * snd p) (combine X Y)).

Lemma rsum_map_div {A} (g : A -> R) c (l : list A) :
  rsum (map (fun el => g el / c) l) = rsum (map g l) / c.
Proof. unfold Rdiv. induction l; simpl; [ring|]. rewrite IHl. ring. Qed.

Lemma map_combine_den {A B C} (f : A -> B) (h : B -> B -> C) (a b : list A) :
  map (fun el => h (f (fst el)) (f (snd el))) (combine a b) =
  map (fun p => h (fst p) (snd p)) (combine (map f a) (map f b)).
Proof. revert b; induction a; destruct b; simpl; auto. rewrite IHa. reflexivity. Qed.

Lemma map_combine_l {A B C D} (g : A -> B) (h : B -> C -> D) (X : list A) (Y : list C) :
  map (fun p => h (fst p) (snd p)) (combine (map g X) Y) =
  map (fun p => h (g (fst p)) (snd p)) (combine X Y).
Proof. revert Y; induction X; destruct Y; simpl; auto. rewrite IHX. reflexivity. Qed.

Lemma rsum_shift_mul (X Y : list R) k : length X = length Y ->
  rsum (map (fun p => (fst p - k) * snd p) (combine X Y)) = S2 X Y - k * rsum Y.
Proof.
  unfold S2. revert Y; induction X; destruct Y; simpl; intros L; try discriminate; [ring|].
  rewrite IHX by congruence. ring.
Qed.

Lemma rsum_shift_sq (X : list R) k :
  rsum (map (fun x => (x - k) * (x - k)) X) = Sq X - 2 * k * rsum X + INR (length X) * k * k.
Proof.
  unfold Sq. induction X; [simpl; ring|]. simpl length. rewrite S_INR. simpl map. simpl rsum. rewrite IHX. ring.
Qed.

(* the closed-form ordinary least-squares estimators *)
Definition ols_det (X : list R) : R := INR (length X) * Sq X - rsum X * rsum X.
Definition ols_b (X Y : list R) : R := (INR (length X) * S2 X Y - rsum X * rsum Y) / ols_det X.
Definition ols_a (X Y : list R) : R := (rsum Y - ols_b X Y * rsum X) / INR (length X).

Lemma lin_sum1 (X Y : list R) a b : length X = length Y ->
  rsum (map (fun p => snd p - a - b * fst p) (combine X Y)) = rsum Y - INR (length X) * a - b * rsum X.
Proof.
  revert Y. induction X; destruct Y; intros L; try discriminate; [simpl; ring|].
  simpl length. rewrite S_INR. simpl. rewrite IHX by (simpl in L; congruence). ring.
Qed.

Lemma lin_sum2 (X Y : list R) a b : length X = length Y ->
  rsum (map (fun p => fst p * (snd p - a - b * fst p)) (combine X Y)) = S2 X Y - a * rsum X - b * Sq X.
Proof.
  unfold S2, Sq. revert Y. induction X; destruct Y; intros L; try discriminate; [simpl; ring|].
  simpl. rewrite IHX by (simpl in L; congruence). ring.
Qed.

Lemma det_n (X : list R) : ols_det X <> 0 -> INR (length X) <> 0.
Proof.
  intros D E. apply D. unfold ols_det. rewrite E. destruct X; [simpl; ring|].
  exfalso. simpl length in E. rewrite S_INR in E. pose proof (pos_INR (length X)). lra.
Qed.

(* they are THE solution of the normal equations *)
Lemma ols_normal_equations (X Y : list R) : length X = length Y -> ols_det X <> 0 ->
  let a := ols_a X Y in let b := ols_b X Y in
  rsum (map (fun p => snd p - a - b * fst p) (combine X Y)) = 0 /\
  rsum (map (fun p => fst p * (snd p - a - b * fst p)) (combine X Y)) = 0.
Proof.
  intros L D a b. pose proof (det_n X D) as Hn.
  rewrite lin_sum1, lin_sum2 by assumption. subst a b. unfold ols_a, ols_b. unfold ols_det in *. split; field; auto.
Qed.

Lemma normal_equations_unique (X Y : list R) a b a' b' : length X = length Y -> ols_det X <> 0 ->
  rsum (map (fun p => snd p - a - b * fst p) (combine X Y)) = 0 ->
  rsum (map (fun p => fst p * (snd p - a - b * fst p)) (combine X Y)) = 0 ->
  rsum (map (fun p => snd p - a' - b' * fst p) (combine X Y)) = 0 ->
  rsum (map (fun p => fst p * (snd p - a' - b' * fst p)) (combine X Y)) = 0 ->
  a = a' /\ b = b'.
Proof.
  intros L D. pose proof (det_n X D) as Hn.
  rewrite !lin_sum1, !lin_sum2 by assumption. unfold ols_det in D. intros H1 H2 H3 H4.
  assert (Hb : (b - b') * (INR (length X) * Sq X - rsum X * rsum X) = 0).
  { replace ((b - b') * (INR (length X) * Sq X - rsum X * rsum X)) with
      (INR (length X) * ((S2 X Y - a' * rsum X - b' * Sq X) - (S2 X Y - a * rsum X - b * Sq X))
       - rsum X * ((rsum Y - INR (length X) * a' - b' * rsum X) - (rsum Y - INR (length X) * a - b * rsum X))) by ring.
    rewrite H1, H2, H3, H4. ring. }
  assert (b = b').
  { apply Rmult_integral in Hb. destruct Hb; [lra|contradiction]. }
  subst b'. split; [|reflexivity].
  assert (H : INR (length X) * (a - a') = 0) by lra.
  apply Rmult_integral in H. destruct H; [contradiction|lra].
Qed.

(* ---------- line_fit: the returned trees are the closed-form estimators ---------- *)
Ltac arith := unfold is_arith; tauto.
Lemma mbin_den' Fi f a b c : mbin RNum f a b = Ok c -> is_arith f ->
    (wf a -> wf b -> wf c) /\ forall e, den Fi c e = binop_R f (den Fi a e) (den Fi b e).
Proof. intros; apply mbin_den; auto. Qed.

Lemma mlen_eq (ev : expr -> res R) {A B} (x : list A) (y : list B) :
  mcmp RNum ev (fun l r : T RNum => negb (eqb RNum l r)) (mlen RNum x) (mlen RNum y) = Ok false ->
  length x = length y.
Proof.
  unfold mcmp, mlen, mvalue. cbn [bind]. intros [= H]. rr. unfold Reqb in H.
  destruct (Req_EM_T _ _) as [E|]; [|discriminate]. apply eq_IZR in E. lia.
Qed.

Lemma den_mlen Fi {A} (l : list A) e : den Fi (mlen RNum l) e = INR (length l).
Proof. unfold mlen; simpl. rr. symmetry. apply INR_IZR_INZ. Qed.

Section OLS.
  Variable Fi : nat -> env -> R.
  Notation den := (den Fi).

  Definition dlist (l : list mval) (e : env) : list R := map (fun m => den m e) l.

  Lemma msum_id_den (l : list mval) c :
    msum_with RNum (fun el => Ok el) l = Ok c -> (forall el, In el l -> wf el) ->
    wf c /\ forall e, den c e = rsum (dlist l e).
  Proof.
    intros H W. apply (msum_with_den Fi (fun el => Ok el) (fun el e => den el e) l c); auto.
    intros el v Hin [= <-]. split; auto.
  Qed.

  Theorem line_fit_closed_form ev vo co xm ym a b ssr n :
    g_line_fit RNum ev vo co xm ym = Ok (a, b, ssr, n) ->
    List.Forall wf xm -> List.Forall wf ym ->
    length xm = length ym /\ wf a /\ wf b /\ is_ME RNum a = true /\
    forall e, ols_det (dlist xm e) <> 0 ->
      den a e = ols_a (dlist xm e) (dlist ym e) /\ den b e = ols_b (dlist xm e) (dlist ym e).
  Proof.
    intros H Wx Wy. unfold g_line_fit in H. binv H.
    cbn [bind] in H. injection H as <- <- _ _.
    pose proof (mlen_eq _ _ _ E) as L.
    rewrite Forall_forall in Wx, Wy.
    destruct (msum_id_den _ _ E0 Wx) as [W1 D1].
    destruct (msum_id_den _ _ E1 Wy) as [W2 D2].
    destruct (mbin_den' Fi _ _ _ _ E2 ltac:(arith)) as [W3 D3].
    (* t = [x_i - k] *)
    assert (P3 : forall el v, In el xm -> (t <- mbin RNum B_sub el a3 ;; Ok t) = Ok v ->
                 wf v /\ forall e, den v e = den el e - den a3 e).
    { intros el v Hin Hv. binv Hv. cbn [bind] in Hv. injection Hv as <-.
      match goal with Hm : mbin _ _ _ _ = Ok _ |- _ => destruct (mbin_den' Fi _ _ _ _ Hm ltac:(arith)) as [Wv Dv] end.
      split; [apply Wv; [auto|apply W3; [exact W1|exact I]]|exact Dv]. }
    destruct (mmap_with_den Fi _ _ _ _ P3 E3) as [W4 [L4 D4]].
    rewrite Forall_forall in W4.
    (* S_tt *)
    assert (P4 : forall el v, In el a4 -> (t <- mbin RNum B_mul el el ;; Ok t) = Ok v ->
                 wf v /\ forall e, den v e = den el e * den el e).
    { intros el v Hin Hv. binv Hv. cbn [bind] in Hv. injection Hv as <-.
      match goal with Hm : mbin _ _ _ _ = Ok _ |- _ => destruct (mbin_den' Fi _ _ _ _ Hm ltac:(arith)) as [Wv Dv] end.
      split; [apply Wv; auto|exact Dv]. }
    destruct (msum_with_den Fi _ _ _ _ P4 E4) as [W5 D5].
    (* b *)
    assert (P5 : forall (el : mval * mval) v, In el (combine a4 ym) ->
                 (let '(t, y) := el in t1 <- mbin RNum B_mul t y ;; t2 <- mbin RNum B_div t1 a5 ;; Ok t2) = Ok v ->
                 wf v /\ forall e, den v e = den (fst el) e * den (snd el) e / den a5 e).
    { intros [t y] v Hin Hv. binv Hv. cbn [bind] in Hv. injection Hv as <-.
      destruct (mbin_den' Fi _ _ _ _ E12 ltac:(arith)) as [Wv Dv].
      destruct (mbin_den' Fi _ _ _ _ E13 ltac:(arith)) as [Wv' Dv'].
      split; [apply Wv'; [apply Wv; [apply W4; eapply in_combine_l; eauto|apply Wy; eapply in_combine_r; eauto]|exact W5]|].
      intros e. rewrite Dv', Dv. reflexivity. }
    destruct (msum_with_den Fi _ _ _ _ P5 E5) as [W6 D6].
    destruct (mbin_den' Fi _ _ _ _ E6 ltac:(arith)) as [W7 D7].
    destruct (mbin_den' Fi _ _ _ _ E7 ltac:(arith)) as [W8 D8].
    destruct (mbin_den' Fi _ _ _ _ E8 ltac:(arith)) as [W9 D9].
    split; [exact L|]. split; [apply W9; [apply W8; [exact W2|apply W7; [exact W6|exact W1]]|exact I]|].
    split; [exact W6|]. split; [destruct a9; [discriminate|reflexivity]|].
    intros e Hdet.
    set (X := dlist xm e) in *. set (Y := dlist ym e).
    assert (LX : length X = length xm) by (unfold X, dlist; apply map_length).
    assert (LY : length X = length Y) by (unfold X, Y, dlist; rewrite !map_length; exact L).
    pose proof (det_n X Hdet) as Hn.
    set (k := rsum X / INR (length X)).
    assert (K : den a3 e = k).
    { rewrite D3. cbn [binop_R]. rewrite D1, den_mlen. unfold k. rewrite LX. reflexivity. }
    assert (T4 : dlist a4 e = map (fun x => x - k) X).
    { unfold dlist. rewrite D4. unfold X, dlist. rewrite map_map. rewrite K. reflexivity. }
    assert (Stt : den a5 e = Sq X - 2 * k * rsum X + INR (length X) * k * k).
    { rewrite D5. rewrite <- rsum_shift_sq. rewrite <- (map_map (fun m => den m e) (fun t => t * t)).
      fold (dlist a4 e). rewrite T4. rewrite map_map. reflexivity. }
    assert (Stt' : INR (length X) * den a5 e = ols_det X).
    { rewrite Stt. unfold ols_det, k. field. exact Hn. }
    assert (Stt0 : den a5 e <> 0).
    { intros Z. apply Hdet. rewrite <- Stt', Z. ring. }
    assert (B : den a6 e = (S2 X Y - k * rsum Y) / den a5 e).
    { rewrite D6. rewrite (rsum_map_div (fun el : mval * mval => den (fst el) e * den (snd el) e)).
      f_equal.
      rewrite (map_combine_den (fun m => den m e) Rmult a4 ym). fold (dlist a4 e). fold (dlist ym e). fold Y.
      rewrite T4. rewrite (map_combine_l (fun x => x - k) Rmult X Y).
      apply rsum_shift_mul. exact LY. }
    assert (Bb : den a6 e = ols_b X Y).
    { rewrite B. unfold ols_b. rewrite <- Stt'. unfold k. field. split; assumption. }
    split; [|exact Bb].
    rewrite D9. cbn [binop_R]. rewrite D8. cbn [binop_R]. rewrite D7. cbn [binop_R].
    rewrite D2, D1, Bb, den_mlen. fold X Y. unfold ols_a. rewrite LX. reflexivity.
  Qed.
End OLS.

(* ---------- data passed as slots / plain numbers ---------- *)
Definition darg (Fi : nat -> env -> R) (a : KTypes.arg R) (e : env) : R :=
  match a with ARef i => Fi i e | ANum v => v end.
Definition dargs (Fi : nat -> env -> R) (l : list (KTypes.arg R)) (e : env) : list R := map (fun a => darg Fi a e) l.

Lemma wf_args (l : list (KTypes.arg R)) : List.Forall wf (map (arg_mval RNum) l).
Proof. induction l as [|[i|v] l IH]; simpl; constructor; simpl; auto. Qed.

Lemma dlist_args Fi l e : dlist Fi (map (arg_mval RNum) l) e = dargs Fi l e.
Proof. unfold dlist, dargs. rewrite map_map. apply map_ext. intros [i|v]; reflexivity. Qed.

Lemma eval_obj_tree s (m : mval) o : eval_obj RNum s m = Ok o ->
  exists t, m = ME t /\ eval_un RNum s t = Ok (@OpdU RNum o).
Proof.
  destruct m as [v|t]; simpl; [discriminate|]. intros H.
  destruct (eval_un RNum s t) as [[a|v]|] eqn:E; simpl in H; try discriminate.
  injection H as <-. eauto.
Qed.

(* sensitivity / u_component of an object that denotes a plain tree, transferred to any function
   that agrees with the tree's value function near the data point *)
Section Propagate.
  Variable U : key -> R.
  Variable I : key -> bool.
  Variable e0 : env.
  Variable s : KTypes.state R.
  Variable Fi : nat -> env -> R.
  Hypothesis attrs : attrs_ok U I s.
  Hypothesis inputs_ok : forall i j o c, get_real RNum s i = Ok (j, o, c) -> Den U I e0 o (Fi i).

  Lemma plain_tree_propagates (m : mval) (o : KTypes.ureal R) (G : env -> R) k lf xk :
    wf m -> eval_obj RNum s m = Ok o ->
    Kernel.assoc (s_leaves s) k = Some lf -> unode xk = LeafRef k -> 0 < U k ->
    locally (e0 k) (fun t => den Fi m (upd e0 k t) = G (upd e0 k t)) ->
    ux o = den Fi m e0 /\
    exists D, is_derive (fun t => G (upd e0 k t)) (e0 k) D /\
              sensitivity RNum s o xk = Ok D /\ u_component RNum s o xk = Ok (U k * D).
  Proof.
    intros W Hev Hlf Hx Hu Hloc.
    destruct (eval_obj_tree _ _ _ Hev) as [t [-> Ht]]. simpl in W.
    pose proof (eval_un_sound U I e0 s Fi inputs_ok t (@OpdU RNum o) (plain_regular Fi e0 t W) Ht) as Hd.
    simpl in Hd. split; [exact (den_val _ _ _ _ _ Hd)|].
    destruct (reporting_sound U I e0 s o (sem Fi t) k lf xk attrs Hd Hlf Hx Hu) as [D [H1 [H2 H3]]].
    exists D. split; [|split; assumption].
    eapply is_derive_ext_loc; [exact Hloc|exact H1].
  Qed.

  (* type_b.line_fit: value, sensitivities and components of a and b *)
  Theorem line_fit_propagates x y a b ssr n oa ob k lf xk :
    g_line_fit RNum (ev_in RNum s) (varof_in RNum s) (covof_in RNum s)
               (map (arg_mval RNum) x) (map (arg_mval RNum) y) = Ok (a, b, ssr, n) ->
    eval_obj RNum s a = Ok oa -> eval_obj RNum s b = Ok ob ->
    Kernel.assoc (s_leaves s) k = Some lf -> unode xk = LeafRef k -> 0 < U k ->
    locally (e0 k) (fun t => ols_det (dargs Fi x (upd e0 k t)) <> 0) ->
    ols_det (dargs Fi x e0) <> 0 ->
    length x = length y /\
    ux oa = ols_a (dargs Fi x e0) (dargs Fi y e0) /\ ux ob = ols_b (dargs Fi x e0) (dargs Fi y e0) /\
    exists Da Db,
      is_derive (fun t => ols_a (dargs Fi x (upd e0 k t)) (dargs Fi y (upd e0 k t))) (e0 k) Da /\
      is_derive (fun t => ols_b (dargs Fi x (upd e0 k t)) (dargs Fi y (upd e0 k t))) (e0 k) Db /\
      sensitivity RNum s oa xk = Ok Da /\ u_component RNum s oa xk = Ok (U k * Da) /\
      sensitivity RNum s ob xk = Ok Db /\ u_component RNum s ob xk = Ok (U k * Db).
  Proof.
    intros Hg Ha Hb Hlf Hx Hu Hloc H0.
    destruct (line_fit_closed_form Fi _ _ _ _ _ _ _ _ _ Hg (wf_args x) (wf_args y)) as [L [Wa [Wb [_ Hcf]]]].
    rewrite !map_length in L.
    assert (Hcf' : forall e, ols_det (dargs Fi x e) <> 0 ->
                   den Fi a e = ols_a (dargs Fi x e) (dargs Fi y e) /\ den Fi b e = ols_b (dargs Fi x e) (dargs Fi y e)).
    { intros e He. rewrite <- !dlist_args in *. apply Hcf; exact He. }
    destruct (plain_tree_propagates a oa (fun e => ols_a (dargs Fi x e) (dargs Fi y e)) k lf xk Wa Ha Hlf Hx Hu)
      as [Va [Da [A1 [A2 A3]]]].
    { eapply filter_imp; [|exact Hloc]. intros t Ht. apply (Hcf' _ Ht). }
    destruct (plain_tree_propagates b ob (fun e => ols_b (dargs Fi x e) (dargs Fi y e)) k lf xk Wb Hb Hlf Hx Hu)
      as [Vb [Db [B1 [B2 B3]]]].
    { eapply filter_imp; [|exact Hloc]. intros t Ht. apply (Hcf' _ Ht). }
    split; [exact L|]. split; [etransitivity; [exact Va|apply (Hcf' _ H0)]|]. split; [etransitivity; [exact Vb|apply (Hcf' _ H0)]|].
    exists Da, Db. split; [exact A1|split; [exact B1|split; [exact A2|split; [exact A3|split; [exact B2|exact B3]]]]].
  Qed.
End Propagate.

(* ---------- prediction methods and merge ---------- *)
Section Predict.
  Variable Fi : nat -> env -> R.
  Notation den := (den Fi).

  (* y_from_x: a + b*x *)
  Theorem y_from_x_tree ev vo co a b x m :
    g_y_from_x RNum ev vo co a b x = Ok m ->
    (wf a -> wf b -> wf x -> wf m) /\ forall e, den m e = den a e + den b e * den x e.
  Proof.
    intros H. unfold g_y_from_x in H. binv H. cbn [bind] in H. injection H as <-.
    destruct (mbin_den' Fi _ _ _ _ E ltac:(arith)) as [W1 D1].
    destruct (mbin_den' Fi _ _ _ _ E0 ltac:(arith)) as [W2 D2].
    split; [auto|]. intros e. rewrite D2, D1. reflexivity.
  Qed.

  (* x_from_y: (mean(yseq) - a)/b unless |b| < 1e-15, where the result is a itself *)
  Theorem x_from_y_tree ev vo co a b yseq m :
    g_x_from_y RNum ev vo co a b yseq = Ok m ->
    wf a -> wf b -> (forall y, In y yseq -> wf y) ->
    wf m /\
    ((exists vb, mvalue RNum ev b = Ok vb /\ Rabs vb < IZR 2535301200456459 * powerRZ 2 (-101) /\ m = a) \/
     forall e, den m e = (rsum (dlist Fi yseq e) / INR (length yseq) - den a e) / den b e).
  Proof.
    intros H Wa Wb Wy. unfold g_x_from_y, g_mean in H. binv H. cbn [bind] in H. injection H as <-.
    binv E. cbn [bind] in E. injection E as <-.
    binv E0; cbn [bind] in E0.
    - injection E0 as <-. split; [exact Wa|left].
      binv E. cbn [bind] in E. injection E as <-. exists a1. split; [reflexivity|]. split; [|reflexivity].
      unfold mcmp, mvalue in E3. cbn [bind] in E3. injection E3 as E3. rr. unfold Rltb in E3.
      destruct (Rlt_dec _ _) as [Hlt|]; [exact Hlt|discriminate].
    - binv E0. cbn [bind] in E0. injection E0 as <-.
      destruct (msum_id_den Fi _ _ E1 Wy) as [W0 D0].
      destruct (mbin_den' Fi _ _ _ _ E2 ltac:(arith)) as [W1 D1].
      destruct (mbin_den' Fi _ _ _ _ E4 ltac:(arith)) as [W2 D2].
      destruct (mbin_den' Fi _ _ _ _ E5 ltac:(arith)) as [W3 D3].
      split; [apply W3; [apply W2; [apply W1; [exact W0|exact I]|exact Wa]|exact Wb]|].
      right. intros e. rewrite D3, D2, D1, D0, den_mlen. reflexivity.
  Qed.

  (* type_a.merge(a, b): the value function of a plus the variation of b about its value *)
  Theorem merge_tree ev vo co a b tol m :
    g_merge RNum ev vo co a b (MN tol) = Ok m ->
    exists vb, mvalue RNum ev b = Ok vb /\ (wf a -> wf b -> wf m) /\
               forall e, den m e = den a e + (den b e - vb).
  Proof.
    intros H. unfold g_merge in H. binv H. cbn [bind] in H. injection H as <-.
    binv E0. cbn [bind] in E0. injection E0 as <-. exists a7. split; [reflexivity|].
    destruct (mbin_den' Fi _ _ _ _ E4 ltac:(arith)) as [W1 D1].
    destruct (mbin_den' Fi _ _ _ _ E5 ltac:(arith)) as [W2 D2].
    split; [intros; apply W2; auto; apply W1; simpl; auto|].
    intros e. rewrite D2, D1. reflexivity.
  Qed.
End Predict.

(* ---------- the label step: result(x, label=...) is core.result -- labels only label ---------- *)
Lemma resolve_aux_fresh (sl : list (KTypes.slot R)) (o : KTypes.ureal R) fuel :
  resolve_aux RNum fuel (sl ++ [SReal o None]) (length sl) = length sl.
Proof.
  destruct fuel; simpl; [reflexivity|].
  rewrite nth_error_app2 by apply Nat.le_refl. rewrite Nat.sub_diag. reflexivity.
Qed.

Lemma get_real_pushed (s : KTypes.state R) (o : KTypes.ureal R) :
  get_real RNum (push RNum s (SReal o None)) (length (s_slots s)) = Ok (length (s_slots s), o, None).
Proof.
  unfold get_real, resolve, push. cbn [s_slots]. rewrite resolve_aux_fresh.
  rewrite nth_error_app2 by apply Nat.le_refl. rewrite Nat.sub_diag. reflexivity.
Qed.

Definition not_var (t : expr) : Prop := match t with EVar _ => False | _ => True end.

(* the labelled prediction is the unlabelled object o declared as an intermediate result: same
   value, same components w.r.t. every elementary input; only an intermediate component for the
   new node is added.  Needs `result` to be bound in type_b.py (g_tb_result_bound = true). *)
Theorem label_only_labels (s : KTypes.state R) (t : expr) (o : KTypes.ureal R) (l : Z) s' x' u' d' i' k' :
  not_var t -> eval_obj RNum s (ME t) = Ok o -> unode o = NoNode ->
  finish_pred RNum s (Ok (ME t)) (Some l) = (s', OutObj x' u' d' i' k') ->
  x' = ux o /\ u' = uc o /\ d' = dc o /\
  exists k (un : R), k' = KInterm k /\ i' = @Vector.merge RNum (ic o) [(k, un)].
Proof.
  intros Hnv Hev Hn H. unfold finish_pred in H.
  assert (Hb : g_tb_result_bound = true) by reflexivity. rewrite Hb in H.
  destruct t as [i|v|f t1|f t1 t2]; [destruct Hnv| | |]; rewrite Hev in H;
    (destruct (Transparency.result_same RNum _ _ _ _ _ _ _ _ _ _ _ _ (get_real_pushed s o) Hn H)
       as [A [B [C [k [un [D [E _]]]]]]]; repeat split; auto; exists k, un; auto).
Qed.

(* ---------- weighted least squares over a list of data points (x, y, v, u) ---------- *)
Definition pt := (R * R * R * R)%type.
Definition px (d : pt) : R := fst (fst (fst d)).
Definition py (d : pt) : R := snd (fst (fst d)).
Definition pv (d : pt) : R := snd (fst d).
Definition pu (d : pt) : R := snd d.
Definition mkD (X Y V U : list R) : list pt := combine (combine (combine X Y) V) U.

Definition Sw (D : list pt) := rsum (map (fun d => 1 / pv d) D).
Definition Swx (D : list pt) := rsum (map (fun d => px d / pv d) D).
Definition Swy (D : list pt) := rsum (map (fun d => py d / pv d) D).
Definition Swxx (D : list pt) := rsum (map (fun d => px d * px d / pv d) D).
Definition Swxy (D : list pt) := rsum (map (fun d => px d * py d / pv d) D).
Definition wls_det D := Sw D * Swxx D - Swx D * Swx D.
Definition wls_b D := (Sw D * Swxy D - Swx D * Swy D) / wls_det D.
Definition wls_a D := (Swy D - wls_b D * Swx D) / Sw D.
(* u_i^2 = v_i, v_i <> 0 *)
Definition good (D : list pt) := forall d, In d D -> pu d * pu d = pv d /\ pv d <> 0.

Lemma good_u D d : good D -> In d D -> pu d <> 0.
Proof. intros G Hin E. destruct (G d Hin) as [H1 H2]. apply H2. rewrite <- H1, E. ring. Qed.

Lemma good_cons d D : good (d :: D) -> (pu d * pu d = pv d /\ pv d <> 0) /\ good D.
Proof. intros G. split; [apply G; left; reflexivity|]. intros d' H; apply G; right; exact H. Qed.

Lemma wls_code_stt D k : good D ->
  rsum (map (fun d => (px d - k) / pu d * ((px d - k) / pu d)) D) = Swxx D - 2 * k * Swx D + k * k * Sw D.
Proof.
  unfold Swxx, Swx, Sw. induction D as [|d D IH]; intros G; simpl; [ring|].
  destruct (good_cons _ _ G) as [[H1 H2] G']. rewrite IH by exact G'.
  assert (Hu : pu d <> 0) by (intros E; apply H2; rewrite <- H1, E; ring).
  rewrite <- H1. field. exact Hu.
Qed.

Lemma wls_code_b D k c : good D ->
  rsum (map (fun d => (px d - k) / pu d * py d / pu d / c) D) = (Swxy D - k * Swy D) / c.
Proof.
  unfold Swxy, Swy. intros G.
  rewrite (rsum_map_div (fun d => (px d - k) / pu d * py d / pu d) c). f_equal.
  induction D as [|d D IH]; simpl; [ring|].
  destruct (good_cons _ _ G) as [[H1 H2] G']. rewrite IH by exact G'.
  assert (Hu : pu d <> 0) by (intros E; apply H2; rewrite <- H1, E; ring).
  rewrite <- H1. field. exact Hu.
Qed.

Lemma wls_normal_equations D : Sw D <> 0 -> wls_det D <> 0 ->
  rsum (map (fun d => (py d - wls_a D - wls_b D * px d) / pv d) D) = 0 /\
  rsum (map (fun d => px d * (py d - wls_a D - wls_b D * px d) / pv d) D) = 0.
Proof.
  intros HS HD.
  assert (E1 : forall a b, rsum (map (fun d => (py d - a - b * px d) / pv d) D) = Swy D - a * Sw D - b * Swx D).
  { intros a b. unfold Swy, Sw, Swx. clear. induction D; simpl; [ring|]. rewrite IHD. unfold Rdiv. ring. }
  assert (E2 : forall a b, rsum (map (fun d => px d * (py d - a - b * px d) / pv d) D) = Swxy D - a * Swx D - b * Swxx D).
  { intros a b. unfold Swxy, Swxx, Swx. clear. induction D; simpl; [ring|]. rewrite IHD. unfold Rdiv. ring. }
  rewrite E1, E2. unfold wls_a, wls_b. unfold wls_det in *. split; field; auto.
Qed.

(* projections of the zipped data *)
Lemma mkD_proj (X Y V U : list R) : length X = length Y -> length X = length V -> length X = length U ->
  map px (mkD X Y V U) = X /\ map py (mkD X Y V U) = Y /\ map pv (mkD X Y V U) = V /\ map pu (mkD X Y V U) = U.
Proof.
  unfold mkD. revert Y V U. induction X as [|x X IH]; destruct Y, V, U; simpl; intros; try discriminate; auto.
  destruct (IH Y V U) as [A [B [C D]]]; try congruence.
  unfold px, py, pv, pu in *. simpl. rewrite A, B, C, D. auto.
Qed.

Lemma combine_proj {A} (f g : A -> R) (h : R -> R -> R) (D : list A) :
  map (fun p => h (fst p) (snd p)) (combine (map f D) (map g D)) = map (fun d => h (f d) (g d)) D.
Proof. induction D; simpl; congruence. Qed.

Lemma zip3_proj {A} (f g k : A -> R) (h : R -> R -> R -> R) (D : list A) :
  map (fun p => h (fst p) (fst (snd p)) (snd (snd p))) (zip3 (map f D) (map g D) (map k D)) =
  map (fun d => h (f d) (g d) (k d)) D.
Proof. unfold zip3. induction D; simpl; congruence. Qed.

Lemma mmap_with_spec {A B} (f : A -> res B) (l : list A) vs :
  mmap_with f l = Ok vs -> Forall2 (fun el v => f el = Ok v) l vs.
Proof.
  revert vs. induction l as [|el l IH]; intros vs H; simpl in H.
  - injection H as <-. constructor.
  - destruct (f el) as [v|] eqn:Ev; [|discriminate]. cbn [bind] in H.
    destruct (mmap_with f l) as [vs'|] eqn:Em; [|discriminate]. cbn [bind] in H. injection H as <-.
    constructor; auto.
Qed.

Lemma msum_all_ok {A} (f : A -> res mval) (l : list A) c :
  msum_with RNum f l = Ok c -> forall el, In el l -> exists v, f el = Ok v.
Proof.
  unfold msum_with. intros H.
  destruct (fold_left _ l (Ok (SInt RNum))) as [a|] eqn:E; [|discriminate]. clear H.
  revert E. generalize (SInt RNum). induction l as [|x l IH]; intros a0 E el Hin; [destruct Hin|].
  simpl in E. destruct (f x) as [v|ex] eqn:Ev; cbn [bind] in E;
    [|rewrite fold_err in E; [discriminate|reflexivity]].
  destruct (sum_step RNum a0 v) as [a1|ex] eqn:Es; [|rewrite fold_err in E; [discriminate|reflexivity]].
  destruct Hin as [<-|Hin]; [eauto|]. eapply IH; eauto.
Qed.

Definition unMN (m : mval) : R := match m with MN v => v | ME _ => 0 end.

Lemma plain_list (l : list mval) : List.Forall (fun u => is_ME RNum u = false) l -> l = map (@MN RNum) (map unMN l).
Proof. induction 1 as [|m l Hm _ IH]; simpl; [reflexivity|]. destruct m; [|discriminate]. simpl. f_equal. exact IH. Qed.

(* the weights line_fit_wls uses: plain numbers v_i, u_i with u_i^2 = v_i *)
Lemma wls_weights (vo : mval -> res (T RNum)) (ym : list mval) (uy : option (list mval)) (vl ul : list mval) :
  match uy with
  | Some p_u_y =>
      l <- mmap_with (fun u => t <- mbin RNum B_pow u (@MN RNum (of_Z RNum 2)) ;; Ok t) p_u_y ;; Ok (l, p_u_y)
  | None =>
      l1 <- mmap_with (fun y => t <- (v_ <- vo y ;; Ok (@MN RNum v_)) ;; Ok t) ym ;;
      l2 <- mmap_with (fun v => t <- msqrt RNum v ;; Ok t) l1 ;; Ok (l1, l2)
  end = Ok (vl, ul) ->
  (forall l0, uy = Some l0 -> List.Forall (fun u => is_ME RNum u = false) l0) ->
  exists V U : list R, vl = map (@MN RNum) V /\ ul = map (@MN RNum) U /\ Forall2 (fun v u => u * u = v) V U /\
    (uy = None -> Forall2 (fun y v => vo y = Ok v) ym V) /\ (forall l0, uy = Some l0 -> l0 = ul).
Proof.
  intros H Hp. destruct uy as [l0|].
  - binv H. cbn [bind] in H. injection H as <- <-.
    pose proof (plain_list l0 (Hp l0 eq_refl)) as EU. set (U := map unMN l0) in *.
    exists (map (fun u => u * u) U), U. split; [|split; [exact EU|split; [|split; [discriminate|intros ? [= <-]; reflexivity]]]].
    + apply mmap_with_spec in E. rewrite EU in E. clear EU Hp. revert a E.
      induction U as [|u U IH]; intros a E; inversion E; subst; [reflexivity|].
      simpl. f_equal; [|apply IH; assumption].
      match goal with Hh : _ = Ok y |- _ => simpl in Hh; rr; rewrite pow_R_2 in Hh; cbn [bind] in Hh; congruence end.
    + clear. induction U; simpl; constructor; auto.
  - binv H. cbn [bind] in H. injection H as <- <-.
    apply mmap_with_spec in E, E0.
    assert (exists V, a = map (@MN RNum) V /\ Forall2 (fun y v => vo y = Ok v) ym V) as [V [EV HV]].
    { clear E0. induction E as [|y v ym a Hy _ IH].
      - exists []. split; [reflexivity|constructor].
      - destruct IH as [V [-> HV]]. destruct (vo y) as [r|] eqn:Er; [|discriminate].
        cbn [bind] in Hy. injection Hy as <-. exists (r :: V). split; [reflexivity|constructor; auto]. }
    subst a. clear E.
    assert (exists U, a0 = map (@MN RNum) U /\ Forall2 (fun v u => u * u = v) V U) as [U [EU HU]].
    { clear HV. revert a0 E0. induction V as [|v V IH]; intros a0 E0; inversion E0; subst.
      - exists []. split; [reflexivity|constructor].
      - destruct (IH _ H3) as [U [-> HU]].
        simpl in H1. unfold R_libm1 in H1. rr. destruct (Rle_dec 0 v) as [Hv|]; [|discriminate].
        cbn [bind] in H1. injection H1 as <-. exists (sqrt v :: U). split; [reflexivity|].
        constructor; [apply sqrt_sqrt; exact Hv|exact HU]. }
    exists V, U. split; [reflexivity|split; [exact EU|split; [exact HU|split; [auto|discriminate]]]].
Qed.

Lemma msum_with_den' Fi {A} (f : A -> res mval) (G : A -> env -> R) (l : list A) c :
  msum_with RNum f l = Ok c ->
  (forall el v, In el l -> f el = Ok v -> wf v /\ forall e, den Fi v e = G el e) ->
  wf c /\ forall e, den Fi c e = rsum (map (fun el => G el e) l).
Proof. intros; eapply msum_with_den; eauto. Qed.

Lemma mmap_with_den' Fi {A} (f : A -> res mval) (G : A -> env -> R) (l : list A) vs :
  mmap_with f l = Ok vs ->
  (forall el v, In el l -> f el = Ok v -> wf v /\ forall e, den Fi v e = G el e) ->
  List.Forall wf vs /\ length vs = length l /\ forall e, map (fun v => den Fi v e) vs = map (fun el => G el e) l.
Proof. intros; eapply mmap_with_den; eauto. Qed.

Lemma map_zip3_den {A B C} (f : A -> B) (h : B -> B -> B -> C) (a b c : list A) :
  map (fun el => h (f (fst el)) (f (fst (snd el))) (f (snd (snd el)))) (zip3 a b c) =
  map (fun p => h (fst p) (fst (snd p)) (snd (snd p))) (zip3 (map f a) (map f b) (map f c)).
Proof. unfold zip3. revert b c; induction a; destruct b, c; simpl; auto. rewrite IHa. reflexivity. Qed.

Lemma Forall2_len {A B} (P : A -> B -> Prop) l1 l2 : Forall2 P l1 l2 -> length l1 = length l2.
Proof. induction 1; simpl; congruence. Qed.

Lemma dlist_MN Fi (V : list R) e : dlist Fi (map (@MN RNum) V) e = V.
Proof. unfold dlist. rewrite map_map. simpl. apply map_id. Qed.

Lemma wf_MN_list (V : list R) el : In el (map (@MN RNum) V) -> wf el.
Proof. intros H. apply in_map_iff in H. destruct H as [v [<- _]]. exact I. Qed.

Section WLS.
  Variable Fi : nat -> env -> R.
  Notation den := (den Fi).

  Theorem line_fit_wls_closed_form ev vo co xm ym uy a b ssr n :
    g_line_fit_wls RNum ev vo co xm ym uy = Ok (a, b, ssr, n) ->
    List.Forall wf xm -> List.Forall wf ym ->
    (forall l0, uy = Some l0 -> List.Forall (fun u => is_ME RNum u = false) l0 /\ length l0 = length xm) ->
    exists V U : list R,
      length xm = length ym /\ length V = length xm /\ length U = length xm /\
      Forall2 (fun v u => u * u = v) V U /\
      (uy = None -> Forall2 (fun y v => vo y = Ok v) ym V) /\
      (forall l0, uy = Some l0 -> l0 = map (@MN RNum) U) /\
      wf a /\ wf b /\ is_ME RNum a = true /\
      forall e, let D := mkD (dlist Fi xm e) (dlist Fi ym e) V U in
        good D -> Sw D <> 0 -> wls_det D <> 0 -> den a e = wls_a D /\ den b e = wls_b D.
  Proof.
    intros H Wx Wy Hp. unfold g_line_fit_wls in H. binv H. destruct a1 as [vl ul]. cbn [bind] in H. binv H.
    cbn [bind] in H. injection H as <- <- _ _.
    pose proof (mlen_eq _ _ _ E) as L.
    destruct (wls_weights vo ym uy vl ul E0 (fun l0 Hl => proj1 (Hp l0 Hl))) as [V [U [EV [EU [HVU [HN HS]]]]]].
    subst vl ul.
    assert (LV : length V = length xm /\ length U = length xm).
    { pose proof (Forall2_len _ _ _ HVU) as LVU. destruct uy as [l0|].
      - pose proof (HS l0 eq_refl) as El. destruct (Hp l0 eq_refl) as [_ Ll].
        rewrite El, map_length in Ll. change (T RNum) with R in *. split; lia.
      - pose proof (Forall2_len _ _ _ (HN eq_refl)) as LyV. change (T RNum) with R in *. split; lia. }
    destruct LV as [LV LU].
    rewrite Forall_forall in Wx, Wy.
    (* S, S_x, S_y *)
    assert (R1 := msum_with_den' Fi _ (fun el e => 1 / den el e) _ _ E1). destruct R1 as [W1 D1].
    { intros el v Hin Hv. binv Hv. cbn [bind] in Hv. injection Hv as <-.
      destruct (mbin_den' Fi _ _ _ _ E14 ltac:(arith)) as [Wv Dv].
      split; [apply Wv; [exact I|eapply wf_MN_list; eauto]|]. intros e. rewrite Dv. simpl. rr. simpl. f_equal. lra. }
    assert (R2 := msum_with_den' Fi _ (fun el e => den (fst el) e / den (snd el) e) _ _ E2). destruct R2 as [W2 D2].
    { intros [x v0] v Hin Hv. binv Hv. cbn [bind] in Hv. injection Hv as <-.
      destruct (mbin_den' Fi _ _ _ _ E14 ltac:(arith)) as [Wv Dv].
      split; [apply Wv; [apply Wx; eapply in_combine_l; eauto|eapply wf_MN_list; eapply in_combine_r; eauto]|exact Dv]. }
    assert (R3 := msum_with_den' Fi _ (fun el e => den (fst el) e / den (snd el) e) _ _ E3). destruct R3 as [W3 D3].
    { intros [x v0] v Hin Hv. binv Hv. cbn [bind] in Hv. injection Hv as <-.
      destruct (mbin_den' Fi _ _ _ _ E14 ltac:(arith)) as [Wv Dv].
      split; [apply Wv; [apply Wy; eapply in_combine_l; eauto|eapply wf_MN_list; eapply in_combine_r; eauto]|exact Dv]. }
    destruct (mbin_den' Fi _ _ _ _ E4 ltac:(arith)) as [W4 D4].
    (* t *)
    assert (R5 := mmap_with_den' Fi _ (fun el e => (den (fst el) e - den a4 e) / den (snd el) e) _ _ E5).
    destruct R5 as [W5 [L5 D5]].
    { intros [x u0] v Hin Hv. binv Hv. cbn [bind] in Hv. injection Hv as <-.
      destruct (mbin_den' Fi _ _ _ _ E14 ltac:(arith)) as [Wv Dv].
      destruct (mbin_den' Fi _ _ _ _ E15 ltac:(arith)) as [Wv' Dv'].
      split; [apply Wv'; [apply Wv; [apply Wx; eapply in_combine_l; eauto|apply W4; assumption]|eapply wf_MN_list; eapply in_combine_r; eauto]|].
      intros e. rewrite Dv', Dv. reflexivity. }
    rewrite Forall_forall in W5.
    assert (R6 := msum_with_den' Fi _ (fun el e => den el e * den el e) _ _ E6). destruct R6 as [W6 D6].
    { intros el v Hin Hv. binv Hv. cbn [bind] in Hv. injection Hv as <-.
      destruct (mbin_den' Fi _ _ _ _ E14 ltac:(arith)) as [Wv Dv].
      split; [apply Wv; apply W5; exact Hin|exact Dv]. }
    assert (R7 := msum_with_den' Fi _ (fun el e => den (fst el) e * den (fst (snd el)) e / den (snd (snd el)) e / den a6 e) _ _ E7).
    destruct R7 as [W7 D7].
    { intros [t [y u0]] v Hin Hv. binv Hv. cbn [bind] in Hv. injection Hv as <-.
      destruct (mbin_den' Fi _ _ _ _ E14 ltac:(arith)) as [Wv Dv].
      destruct (mbin_den' Fi _ _ _ _ E15 ltac:(arith)) as [Wv' Dv'].
      destruct (mbin_den' Fi _ _ _ _ E16 ltac:(arith)) as [Wv'' Dv''].
      unfold zip3 in Hin. pose proof (in_combine_l _ _ _ _ Hin) as Ht. pose proof (in_combine_r _ _ _ _ Hin) as Hyu.
      split; [apply Wv''; [apply Wv'; [apply Wv; [apply W5; exact Ht|apply Wy; eapply in_combine_l; eauto]|eapply wf_MN_list; eapply in_combine_r; eauto]|exact W6]|].
      intros e. rewrite Dv'', Dv', Dv. reflexivity. }
    destruct (mbin_den' Fi _ _ _ _ E8 ltac:(arith)) as [W8 D8].
    destruct (mbin_den' Fi _ _ _ _ E9 ltac:(arith)) as [W9 D9].
    destruct (mbin_den' Fi _ _ _ _ E10 ltac:(arith)) as [W10 D10].
    exists V, U. split; [exact L|]. split; [exact LV|]. split; [exact LU|]. split; [exact HVU|]. split; [exact HN|].
    split; [exact HS|]. split; [apply W10; [apply W9; [exact W3|apply W8; [exact W7|exact W2]]|exact W1]|].
    split; [exact W7|]. split; [destruct a10; [discriminate|reflexivity]|].
    intros e D G HSw Hdet.
    destruct (mkD_proj (dlist Fi xm e) (dlist Fi ym e) V U) as [PX [PY [PV PU]]];
      try (unfold dlist; rewrite ?map_length; change (T RNum) with R in *; lia).
    fold D in PX, PY, PV, PU.
    assert (A1 : den a1 e = Sw D).
    { rewrite D1. unfold Sw. rewrite map_map. simpl. rewrite <- PV at 1. rewrite map_map. reflexivity. }
    assert (A2 : den a2 e = Swx D).
    { rewrite D2. unfold Swx. rewrite (map_combine_den (fun m => den m e) Rdiv xm (map (@MN RNum) V)).
      fold (dlist Fi xm e). fold (dlist Fi (map (@MN RNum) V) e). rewrite dlist_MN.
      rewrite <- PX, <- PV at 1. rewrite (combine_proj px pv Rdiv D). reflexivity. }
    assert (A3 : den a3 e = Swy D).
    { rewrite D3. unfold Swy. rewrite (map_combine_den (fun m => den m e) Rdiv ym (map (@MN RNum) V)).
      fold (dlist Fi ym e). fold (dlist Fi (map (@MN RNum) V) e). rewrite dlist_MN.
      rewrite <- PY, <- PV at 1. rewrite (combine_proj py pv Rdiv D). reflexivity. }
    set (k := Swx D / Sw D).
    assert (K : den a4 e = k) by (rewrite D4; cbn [binop_R]; rewrite A1, A2; reflexivity).
    assert (T5 : dlist Fi a5 e = map (fun d => (px d - k) / pu d) D).
    { unfold dlist. rewrite D5. rewrite K.
      rewrite (map_combine_den (fun m => den m e) (fun x u => (x - k) / u) xm (map (@MN RNum) U)).
      fold (dlist Fi xm e). fold (dlist Fi (map (@MN RNum) U) e). rewrite dlist_MN.
      rewrite <- PX, <- PU at 1. rewrite (combine_proj px pu (fun x u => (x - k) / u) D). reflexivity. }
    assert (Stt : den a6 e = Swxx D - 2 * k * Swx D + k * k * Sw D).
    { rewrite D6. rewrite <- (map_map (fun m => den m e) (fun t => t * t)). fold (dlist Fi a5 e).
      rewrite T5, map_map. apply wls_code_stt. exact G. }
    assert (Stt' : Sw D * den a6 e = wls_det D).
    { rewrite Stt. unfold wls_det, k. field. exact HSw. }
    assert (Stt0 : den a6 e <> 0).
    { intros Z. apply Hdet. rewrite <- Stt', Z. ring. }
    assert (B : den a7 e = (Swxy D - k * Swy D) / den a6 e).
    { rewrite D7.
      rewrite (map_zip3_den (fun m => den m e) (fun t y u => t * y / u / den a6 e) a5 ym (map (@MN RNum) U)).
      fold (dlist Fi a5 e). fold (dlist Fi ym e). fold (dlist Fi (map (@MN RNum) U) e). rewrite dlist_MN, T5.
      rewrite <- PY, <- PU at 1.
      rewrite (zip3_proj (fun d => (px d - k) / pu d) py pu (fun t y u => t * y / u / den a6 e) D).
      apply wls_code_b. exact G. }
    assert (Bb : den a7 e = wls_b D).
    { rewrite B. unfold wls_b. rewrite <- Stt'. unfold k. field. split; assumption. }
    split; [|exact Bb].
    rewrite D10. cbn [binop_R]. rewrite D9. cbn [binop_R]. rewrite D8. cbn [binop_R].
    rewrite A1, A2, A3, Bb. reflexivity.
  Qed.
End WLS.

(* type_b.line_fit_wls in a session: values, sensitivities and components of a and b *)
Section PropagateWLS.
  Variable U_ : key -> R.
  Variable I : key -> bool.
  Variable e0 : env.
  Variable s : KTypes.state R.
  Variable Fi : nat -> env -> R.
  Hypothesis attrs : attrs_ok U_ I s.
  Hypothesis inputs_ok : forall i j o c, get_real RNum s i = Ok (j, o, c) -> Den U_ I e0 o (Fi i).

  Theorem line_fit_wls_propagates x y (u_y : option (list R)) a b ssr n oa ob k lf xk :
    g_line_fit_wls RNum (ev_in RNum s) (varof_in RNum s) (covof_in RNum s)
               (map (arg_mval RNum) x) (map (arg_mval RNum) y) (option_map (nums RNum) u_y) = Ok (a, b, ssr, n) ->
    (forall l, u_y = Some l -> length l = length x) ->
    eval_obj RNum s a = Ok oa -> eval_obj RNum s b = Ok ob ->
    Kernel.assoc (s_leaves s) k = Some lf -> unode xk = LeafRef k -> 0 < U_ k ->
    exists V Uu : list R,
      length V = length x /\ length Uu = length x /\ Forall2 (fun v u => u * u = v) V Uu /\
      (u_y = None -> Forall2 (fun yi v => varof_in RNum s yi = Ok v) (map (arg_mval RNum) y) V) /\
      (forall l, u_y = Some l -> l = Uu) /\
      let D := fun e => mkD (dargs Fi x e) (dargs Fi y e) V Uu in
      (locally (e0 k) (fun t => good (D (upd e0 k t)) /\ Sw (D (upd e0 k t)) <> 0 /\ wls_det (D (upd e0 k t)) <> 0) ->
       good (D e0) -> Sw (D e0) <> 0 -> wls_det (D e0) <> 0 ->
       ux oa = wls_a (D e0) /\ ux ob = wls_b (D e0) /\
       exists Da Db,
         is_derive (fun t => wls_a (D (upd e0 k t))) (e0 k) Da /\
         is_derive (fun t => wls_b (D (upd e0 k t))) (e0 k) Db /\
         sensitivity RNum s oa xk = Ok Da /\ u_component RNum s oa xk = Ok (U_ k * Da) /\
         sensitivity RNum s ob xk = Ok Db /\ u_component RNum s ob xk = Ok (U_ k * Db)).
  Proof.
    intros Hg Hlen Ha Hb Hlf Hx Hu.
    destruct (line_fit_wls_closed_form Fi _ _ _ _ _ _ _ _ _ _ Hg (wf_args x) (wf_args y)) as
      [V [Uu [L [LV [LU [HVU [HN [HS [Wa [Wb [_ Hcf]]]]]]]]]]].
    { intros l0 E. destruct u_y as [l|]; [|discriminate]. simpl in E. injection E as <-.
      split; [unfold nums; clear; induction l; simpl; constructor; auto|].
      unfold nums. rewrite !map_length. apply Hlen. reflexivity. }
    rewrite !map_length in *.
    exists V, Uu. split; [exact LV|]. split; [exact LU|]. split; [exact HVU|].
    split; [intros E; apply HN; rewrite E; reflexivity|].
    split.
    { intros l E. subst u_y. specialize (HS (nums RNum l) eq_refl). unfold nums in HS.
      clear - HS. revert Uu HS. induction l; destruct Uu; simpl; intros H; try discriminate; auto.
      injection H as -> H. f_equal. auto. }
    intros D Hloc G0 S0 D0.
    assert (Hcf' : forall e, good (D e) -> Sw (D e) <> 0 -> wls_det (D e) <> 0 ->
                   den Fi a e = wls_a (D e) /\ den Fi b e = wls_b (D e)).
    { intros e. unfold D. rewrite <- !dlist_args. apply Hcf. }
    destruct (plain_tree_propagates U_ I e0 s Fi attrs inputs_ok a oa (fun e => wls_a (D e)) k lf xk Wa Ha Hlf Hx Hu)
      as [Va [Da [A1 [A2 A3]]]].
    { eapply filter_imp; [|exact Hloc]. intros t [Ht1 [Ht2 Ht3]]. apply (Hcf' _ Ht1 Ht2 Ht3). }
    destruct (plain_tree_propagates U_ I e0 s Fi attrs inputs_ok b ob (fun e => wls_b (D e)) k lf xk Wb Hb Hlf Hx Hu)
      as [Vb [Db [B1 [B2 B3]]]].
    { eapply filter_imp; [|exact Hloc]. intros t [Ht1 [Ht2 Ht3]]. apply (Hcf' _ Ht1 Ht2 Ht3). }
    split; [etransitivity; [exact Va|apply (Hcf' _ G0 S0 D0)]|].
    split; [etransitivity; [exact Vb|apply (Hcf' _ G0 S0 D0)]|].
    exists Da, Db. split; [exact A1|split; [exact B1|split; [exact A2|split; [exact A3|split; [exact B2|exact B3]]]]].
  Qed.
End PropagateWLS.

(* ---------- WTLS: the per-point variance g_k of `_arrays` and its derivative g_ka ----------
   eqn (53) as written in GTC/type_b.py `_arrays` and eqn (54) as written in `dChiSq_dalpha.arrays`
   (the theorems about the GENERATED trees are in TypeBWtls.v): g_k is the variance of the residual
   y cos a - x sin a, and g_ka is its derivative. *)
Definition gk_src (u2x u2y cov a : R) : R := (u2x + u2y) / 2 - (u2x - u2y) * cos (2 * a) / 2 - cov * sin (2 * a).
Definition gka_src (u2x u2y cov a : R) : R := sin (2 * a) * (u2x - u2y) - 2 * cov * cos (2 * a).
Definition gk_true (u2x u2y cov a : R) : R := u2x * (sin a * sin a) + u2y * (cos a * cos a) - 2 * sin a * cos a * cov.

Lemma gk_src_derive u2x u2y cov a : is_derive (gk_src u2x u2y cov) a (gka_src u2x u2y cov a).
Proof. unfold gk_src, gka_src. auto_derive; [exact I|]. field. Qed.

Lemma gk_src_is_variance u2x u2y cov a : gk_src u2x u2y cov a = gk_true u2x u2y cov a.
Proof.
  unfold gk_src, gk_true. rewrite sin_2a, cos_2a.
  pose proof (sin2_cos2 a) as H. unfold Rsqr in H.
  assert (E : sin a * sin a = 1 - cos a * cos a) by lra. rewrite !E. field.
Qed.

"""C14 -- type-B line fits propagate data uncertainty through the fit."""
import math, random, os, sys, collections, hashlib, traceback, importlib, shutil
from fractions import Fraction
from common import *

COQ_PROPS = 'props/C14.v'

# ------------------------------------------------------------------ translator hook
# check.py regenerates coq/gen from tools/translate.py only; the C14 definitions come from
# tools/tr_type_b.py.  Regenerate them here (module import happens before the build step of
# check.py) so that the theorems are re-checked against what GTC/type_b.py says now.
def _regenerate():
    sys.path.insert(0, os.path.join(VERIF, 'tools'))
    import tr_type_b
    tmp = os.path.join(BUILD, 'gen_tmp_C14')
    shutil.rmtree(tmp, ignore_errors=True); os.makedirs(tmp)
    with open(os.devnull, 'w') as dn:
        so = sys.stdout; sys.stdout = dn
        try: st = tr_type_b.main(REPO, tmp)
        finally: sys.stdout = so
    new = open(os.path.join(tmp, 'Gen_type_b.v')).read()
    dst = os.path.join(COQ, 'gen', 'Gen_type_b.v')
    if not os.path.exists(dst) or open(dst).read() != new:
        os.makedirs(os.path.dirname(dst), exist_ok=True)
        open(dst, 'w').write(new)
    shutil.rmtree(tmp, ignore_errors=True)
    return st
try:
    TRANSLATOR_STATUS = _regenerate()
except Exception:
    TRANSLATOR_STATUS = {'error': traceback.format_exc()[-1500:]}

PARTIAL = ('PROVED for every N and every data set (plain or uncertain x): the uncertain numbers line_fit / line_fit_wls return are '
           '+,-,*,/ trees whose value functions of all data are the closed-form (weighted) least-squares estimators, the unique solution '
           'of the normal equations; hence (C02 chain rule) sensitivity / u_component of a and b are the partial derivatives of the '
           'estimator w.r.t. every elementary input and (C04) covariance is the LPU double sum; x_from_y / y_from_x / merge trees: value '
           'functions; the label step is core.result (same value and components; `result` is bound in type_b.py). '
           'The WLS theorem assumes plain u_y of the right length and non-zero variances. '
           'WTLS, PROVED for every N (correlated pairs included): the generated ChiSq.__call__ denotes the profile chi-squared of Krystek & Anton '
           'and the generated dChiSq_dalpha.__call__ is its derivative w.r.t. alpha (envelope argument), reading x**2 as x*x. '
           'NOT PROVED (WTLS): the adequacy of that reading for the kernel evaluator on a negative base (ChainRule.regular excludes it; tied by '
           'bit-exact correspondence), the constructors ChiSq/dChiSq_dalpha.__init__ (weights from the data or from u_x, u_y, r_xy), the '
           'implicit-function step and the back-substitution a = p_hat/cos(alpha), b = tan(alpha) of the hand-modelled driver (the choice of the '
           'search interval handed to the minimiser IS modelled and compared bit for bit), the limit '
           'u(x) -> 0; the minimiser _dbrent is an oracle (alpha1 recorded), its convergence / stationarity is not proved. These parts are tied by '
           'bit-exact correspondence given alpha1 (quick tier N <= 5, thorough N <= 10) and by the numerical oracle (independent chi-squared '
           'minimisation + numerical differentiation, incl. correlated pairs, explicit weights, intermediate-result data, near-vertical lines).')
ASSUMPTIONS = ['rounding error of float arithmetic is not bounded by proof (theorems are over the reals)',
               'the builtin sum() is the one of CPython 3.12 (Neumaier compensation over float items); Python ints among the data are '
               'represented by the equal floats (exact below 2^53)',
               'line_fit_wtls: the minimiser _dbrent is modelled as an oracle returning alpha1 (and the number of temporary '
               'elementary numbers it created); stationarity of chi-squared at alpha1 holds only to the tolerance of _dbrent']
TRUSTED = ['Coquelicot (is_derive) and the Coq Reals library',
           'translator tools/tr_type_b.py (Python ast -> Gallina over coq/TBLib.v, fail-closed) for gen/Gen_type_b.v; '
           'cross-checked by executing the generated terms against the implementation bit for bit']

# ------------------------------------------------------------------ case generation
def gen_case(rng, ctx_id, kind, malformed=False, big=False, force=None):
    """one data set + one fit + observations, executed on the implementation"""
    import tb_session as tb
    s = tb.FitSession(ctx_id)
    s.kind = kind; s.skip = False
    n = rng.randint(3, 10)
    xkind = rng.choice(['plain', 'plain', 'int', 'ureal']) if kind != 'wtls' else 'ureal'
    if xkind == 'ureal' and kind != 'wtls': n = min(n, 6)
    if kind == 'wtls' and not big: n = rng.randint(3, 5)      # tree size grows like N^3: N up to 10 in the thorough tier
    a0 = rng.uniform(-3, 3); b0 = rng.choice([-1, 1]) * rng.uniform(0.2, 3)
    xv = sorted(rng.sample(range(0, 40), n)) if xkind == 'int' else \
         [round(i * rng.uniform(0.8, 1.2) + rng.uniform(0, 0.3), 3) for i in range(1, n + 1)]
    yv = [a0 + b0 * x + rng.gauss(0, 0.2) for x in xv]
    if force == 'perp':
        # ordinary data; the initial estimate given below is (almost) perpendicular to the best line
        n = 3 if not big else rng.randint(3, 5)      # 39 evaluations of the chi-squared tree in the model
        xv = [round(i * rng.uniform(0.8, 1.2) + rng.uniform(0, 0.3), 3) for i in range(1, n + 1)]
        yv = [a0 + b0 * x + rng.gauss(0, 0.2) for x in xv]
    if force == 'vdef':
        # x far more uncertain than y and hardly related to it: the default (WLS) start is nearly horizontal,
        # the best line nearly vertical
        n = rng.randint(4, 5)
        yv = [2.0 * i for i in range(n)]; xv = [round(1.0 + rng.uniform(-0.35, 0.35), 3) for _ in yv]
    if force == 'steep':
        # a near-vertical line; the initial estimate given below has the opposite slope sign, so the
        # minimiser converges to an angle beyond +-pi/2 (cos(alpha) < 0)
        n = 4; a0 = rng.uniform(30, 50); b0 = -rng.uniform(30, 45)
        yv = [0.0, 3.0, 6.0, 10.0]; xv = [round((y - a0) / b0 + rng.gauss(0, 0.003), 4) for y in yv]
    mal = rng.choice(['len', 'plain_y', 'const_y', 'same_x', 'zero_uy', 'plain_x', 'ux_only', 'uxlen']) if malformed else None
    s.mal = mal
    last = lambda: ('ref', len(s.slots) - 1)
    # ---- y data
    ystruct = rng.choice(['indep', 'indep', 'dep', 'sys', 'ens'])
    if kind == 'wtls' and rng.random() < 0.5: ystruct = 'pairs'
    if force == 'sysres': ystruct = 'sys'
    if force in ('explicit', 'steep'): ystruct = rng.choice(['indep', 'pairs'])
    if force in ('perp', 'vdef'): ystruct = 'indep'
    s.ystruct = ystruct
    ys = []; data = []      # data: slots of elementary inputs to differentiate against
    def u_of(): return round(rng.uniform(0.05, 0.6), 3)
    if ystruct == 'ens':
        k = 0
        while k < n:
            m = min(n - k, rng.randint(2, 4))
            i0 = len(s.slots)
            s.multiple(yv[k:k + m], [u_of() for _ in range(m)], rng.choice([3.0, 7.0, math.inf]))
            for j in range(m): ys.append(('ref', i0 + j)); data.append(i0 + j)
            if m >= 2 and rng.random() < 0.7: s.set_corr(round(rng.uniform(-0.8, 0.8), 2), i0, i0 + 1)
            k += m
    else:
        for i in range(n):
            if ystruct == 'indep':
                s.ureal(yv[i], u_of(), rng.choice([math.inf, math.inf, 5.0, 12.5]), indep=True)
            else:
                s.ureal(yv[i], u_of(), math.inf, indep=(ystruct == 'sys' and rng.random() < 0.5))
            ys.append(last()); data.append(last()[1])
        if ystruct in ('dep', 'pairs'):
            for _ in range(rng.randint(1, n)):
                i, j = rng.sample(range(n), 2)
                s.set_corr(round(rng.uniform(-0.9, 0.9), 2), ys[i][1], ys[j][1])
        if ystruct == 'sys':
            s.ureal(0.0, round(rng.uniform(0.05, 0.3), 3), math.inf, indep=True); e_sys = last(); data.append(e_sys[1])
            rel = None
            if rng.random() < 0.4:
                s.ureal(1.0, 0.01, math.inf, indep=True); rel = last(); data.append(rel[1])
            ys2 = []
            for y in ys:
                s.bin('add', y, e_sys); t = last()
                if rel is not None and rng.random() < 0.7:
                    s.bin('mul', t, rel); t = last()
                ys2.append(t)
            ys = ys2
            if force == 'sysres' or rng.random() < 0.5:
                # declared intermediate results among the data (non-empty _i_components)
                ys3 = []
                for t in ys:
                    s.result(t[1], label=rng.choice([None, rng.randint(10, 19)])); ys3.append(last())
                    data.append(last()[1])      # sensitivities w.r.t. the intermediate results are queried too
                ys = ys3
    # ---- x data
    if xkind == 'ureal':
        xs = []
        for i in range(n):
            dep = (ystruct in ('dep', 'pairs')) and rng.random() < 0.7
            s.ureal(xv[i], round(rng.uniform(0.02, 0.3), 3), math.inf, indep=not dep)
            xs.append(last()); data.append(last()[1])
            if dep and ystruct in ('dep', 'pairs') and not s.slots[ys[i][1]]._node.independent:
                s.set_corr(round(rng.uniform(-0.8, 0.8), 2), xs[i][1], ys[i][1])
    else:
        xs = [('num', x) for x in xv]
    # ---- malformed inputs
    u_y = u_x = r_xy = a_b = None
    if mal == 'len': ys = ys[:-1]
    if mal == 'plain_y': ys = [('num', v) for v in yv]
    if mal == 'const_y':
        s.ureal(yv[0], 0.0, math.inf, indep=True); ys[0] = last()
    if mal == 'same_x': xs = [xs[0]] * len(xs)
    if mal == 'plain_x': xs = [('num', x) for x in xv]
    # ---- the fit
    if kind == 'ols':
        r = s.fit(xs, ys)
    elif kind == 'wls':
        if rng.random() < 0.4 or mal == 'zero_uy':
            u_y = [round(rng.uniform(0.05, 0.5), 3) for _ in ys]
            if mal == 'zero_uy': u_y[rng.randrange(len(u_y))] = 0.0
        r = s.fit_wls(xs, ys, u_y)
    else:
        if rng.random() < 0.35 or mal in ('ux_only', 'uxlen') or force == 'explicit':
            # both weights given, different from each other and from the data's own uncertainties
            u_x = [round(rng.uniform(0.02, 0.3), 3) for _ in xs]
            u_y = [round(rng.uniform(0.05, 0.5), 3) for _ in ys]
            if force == 'steep': u_x = [0.01] * len(xs); u_y = [0.1] * len(ys)
            if rng.random() < 0.5: r_xy = [round(rng.uniform(-0.7, 0.7), 2) for _ in xs]
            if mal == 'ux_only': u_y = None
            if mal == 'uxlen': u_x = u_x[:-1]
        if rng.random() < 0.3: a_b = (round(a0 + rng.uniform(-.2, .2), 3), round(b0 * rng.uniform(0.9, 1.1), 3))
        if force == 'steep': a_b = (0.0, round(rng.uniform(3, 6), 2))
        if force == 'perp':
            a_b = (0.0, math.tan(math.atan(b0) + math.pi / 2 + math.radians(0.25 * rng.randint(-12, 12))))
        if force == 'vdef': a_b = None; u_x = [0.5] * len(xs); u_y = [0.1] * len(ys); r_xy = None
        r = s.fit_wtls(xs, ys, u_x, u_y, r_xy, a_b)
        if r is None:
            tbk = traceback.extract_tb(s.last_exn.__traceback__)
            if any(f.name == '_dbrent' for f in tbk): s.skip = True     # the oracle itself failed
    s.nfit = len(ys)
    # ---- observations
    if r:
        fit, ia, ib = r
        obs = data if len(data) <= 8 else rng.sample(data, 8)
        for d in obs:
            s.sens(ia, d); s.sens(ib, d)
        for d in rng.sample(data, min(3, len(data))):
            s.ucomp(ia, d); s.ucomp(ib, d)
        s.get_cov(ia, ib); s.get_corr(ia, ib); s.read('u', ia); s.read('u', ib); s.read('df', ib)
        if kind != 'wtls':
            # prediction methods
            s.ureal(yv[0] + 0.1, 0.2, math.inf, indep=True); y1 = last()
            yseq = [y1]
            if rng.random() < 0.5:
                s.ureal(yv[0] - 0.1, 0.25, 8.0, indep=True); yseq.append(last())
            ix = s.x_from_y(fit, ia, ib, yseq)
            if ix is not None:
                s.sens(ix, y1[1]); s.sens(ix, rng.choice(data)); s.read('u', ix)
            xa = ('num', round(rng.uniform(0, 10), 2))
            if rng.random() < 0.5:
                s.ureal(xa[1], 0.1, math.inf, indep=True); xa = last()
            iy = s.y_from_x(fit, ia, ib, xa)
            if iy is not None:
                s.sens(iy, rng.choice(data)); s.read('u', iy)
                if xa[0] == 'ref': s.sens(iy, xa[1])
            # the label step
            if rng.random() < 0.5: il = s.x_from_y(fit, ia, ib, yseq, label=rng.randint(0, 9))
            else: il = s.y_from_x(fit, ia, ib, xa, label=rng.randint(0, 9))
            if il is not None:
                # labels only label: the labelled result is an intermediate with the same value and components
                s.read('x', il); s.read('u', il); s.sens(il, rng.choice(data)); s.sens(il, y1[1])
                s.bin('mul', ('ref', il), ('num', 2.0)); s.sens(len(s.slots) - 1, il)
        # merge with a second analysis of the same data (same value, own components)
        if rng.random() < 0.6 and kind != 'wtls':
            r2 = s.fit(xs, ys) if kind == 'ols' else s.fit_wls(xs, ys, u_y)
            if r2:
                im = s.merge(('ref', ia), ('ref', r2[1]))
                if im is not None:
                    s.sens(im, rng.choice(data)); s.read('u', im)
                s.merge(('ref', ia), ('ref', r2[2]), tol=rng.choice([1e-13, 100.0]))
    s.heap_ok = s.check_heap()
    s.close()
    return s

KINDS = ['ols', 'wls', 'wtls']

def correspondence(rng, tier):
    import tb_session as tb
    n = 44 if tier == 'quick' else 240
    sessions = []; skipped = 0
    i = 0
    while len(sessions) < n and i < 3 * n:
        # quick: 18 OLS, 18 WLS, 8 WTLS (N <= 5); thorough: one third each, WTLS with N up to 10
        kind = KINDS[i % 3] if tier != 'quick' else ('wtls' if i % 11 in (2, 7) else ('ols', 'wls')[i % 2])
        # every run has fits (one of each kind at least) whose data are declared intermediate results, a WTLS fit
        # with both weights given explicitly, and a near-vertical WTLS fit converging beyond +-pi/2
        force = 'sysres' if (i in (2, 3, 4) or i % 23 == 9) else None
        if kind == 'wtls' and force is None:
            nw = sum(1 for t in sessions if t.kind == 'wtls')
            force = {1: 'explicit', 2: 'steep', 3: 'perp', 4: 'vdef'}.get(nw % 6)
        s = gen_case(rng, 1 + i, kind, malformed=(i % 7 == 6 and force is None), big=(tier != 'quick'), force=force)
        i += 1
        if s.skip: skipped += 1; continue
        sessions.append(s)
    d = scratch('corr_C14')
    heavy = [s for s in sessions if s.kind == 'wtls']; light = [s for s in sessions if s.kind != 'wtls']
    sessions = heavy + light
    files = tb.emit_cases(d, heavy, per_file=1, prefix='wtls')
    files += [(f, [k + len(heavy) for k in idx]) for f, idx in tb.emit_cases(d, light, per_file=5 if tier == 'quick' else 15, prefix='lin')]
    res = run_coqc_many([f for f, _ in files], timeout=2400)
    mism = []
    for f, idx in files:
        rc, out = res[f]
        rep = parse_zlist(out)
        if rep is None or len(rep) != len(idx):
            mism.append({'kind': 'coqc-failed', 'file': f, 'rc': rc, 'output': out[-1500:]}); continue
        for k, r_ in zip(idx, rep):
            if r_ != -1:
                s = sessions[k]
                mism.append({'kind': 'model-vs-implementation', 'fit': s.kind, 'program': s.pyops[:r_ + 1], 'step': r_,
                             'ctx': s.ctx_id, 'implementation_output': s.outs[r_][:600] if r_ < len(s.outs) else None})
    for s in sessions:
        if not s.heap_ok: mism.append({'kind': 'vector-heap-corrupted', 'program': s.pyops, 'ctx': s.ctx_id})
        if getattr(s, 'post', None):
            mism.append({'kind': 'minimiser-result-not-stationary', 'program': s.pyops, 'ctx': s.ctx_id, 'detail': s.post})
    sweep = minimiser_sweep(rng, tier)
    mism += sweep['failures']
    stats = collections.Counter()
    for s in sessions:
        stats.update(s.stats); stats['kind_' + s.kind] += 1; stats['y_' + s.ystruct] += 1
        stats['N=%d' % s.nfit] += 1
        if s.mal: stats['malformed_' + s.mal] += 1
    stats['skipped_minimiser_raised'] = skipped
    stats['minimiser_sweep_fits'] = sweep['fits']
    distinct = len(set(hashlib.sha1(repr(s.pyops).encode()).hexdigest() for s in sessions))
    if not mism: shutil.rmtree(d, ignore_errors=True)
    return {'programs': len(sessions), 'steps': sum(len(s.ops) for s in sessions), 'mismatches': mism,
            'distinct': distinct, 'distribution': dict(stats),
            'rule': 'data sets of N in 3..10 points: x plain floats / ints / uncertain; y independent (finite and infinite dof), '
                    'dependent with declared correlations, sharing a systematic error (y0_i + e, optionally times a common factor), '
                    'ensembles from multiple_ureal; correlated x-y pairs for WTLS; options u_y / u_x,u_y,r_xy / a_b; one line_fit, '
                    'line_fit_wls or line_fit_wtls (alpha1 of the minimiser recorded as the oracle value), then sensitivity and '
                    'u_component of a and b w.r.t. the data, get_covariance/get_correlation(a,b), u, df, x_from_y / y_from_x '
                    '(with and without label), a second fit and type_a.merge; a malformed stream (1 in 7: length mismatch, plain y, '
                    'constant y, identical x, zero u_y, plain x for WTLS, u_x without u_y, wrong length); every step output compared '
                    'bit for bit with the FNum model evaluating the GENERATED fit code; distinct by hash of the operation list',
            'samples': [{'program': [repr(p)[:200] for p in s.pyops[-6:]]} for s in sessions[:2]]}

# ------------------------------------------------------------------ the oracle of the model: post-condition sweep
def minimiser_sweep(rng, tier):
    """_dbrent is an ORACLE of the model (its result alpha1 is an input of the fit operation), so its post-condition --
    alpha1 is a stationary point of chi-squared inside the interval it was given -- is checked on the implementation
    for starts the correspondence cases cannot enumerate: poor initial estimates a_b swept in 0.25 degree steps from -3 to
    +3 degrees around the perpendicular of the best line (both sides), and the default start on near-vertical data with
    u(x) >> u(y).  Only the implementation runs here (no Coq evaluation); a failure is reported like a mismatch."""
    import tb_session as tb
    from GTC import core, type_b
    fails = []; fits = 0
    nd = 2 if tier == 'quick' else 12
    for j in range(nd):
        xv, yv, ux, uy = rand_dataset(rng)
        xv, yv, ux, uy = xv[:6], yv[:6], ux[:6], uy[:6]
        new_context(15)
        xs = [core.ureal(x, u) for x, u in zip(xv, ux)]; ys = [core.ureal(y, u) for y, u in zip(yv, uy)]
        try:
            b_ref = type_b.line_fit_wtls(xs, ys).a_b[1].x
        except Exception:
            continue
        for k in range(-12, 13):
            a_b = (0.0, math.tan(math.atan(b_ref) + math.pi / 2 + math.radians(0.25 * k)))
            r = _sweep_one(tb, type_b, xs, ys, a_b)
            fits += 1
            if r: fails.append({'kind': 'minimiser-result-not-stationary', 'x': xv, 'y': yv, 'u_x': ux, 'u_y': uy, 'a_b': list(a_b),
                                'k_quarter_degrees': k, 'detail': r})
    for j in range(10 if tier == 'quick' else 80):
        n = rng.randint(4, 7)
        yv = [2.0 * i for i in range(n)]; xv = [round(1.0 + rng.uniform(-0.35, 0.35), 3) for _ in yv]
        new_context(15)
        xs = [core.ureal(x, 0.5) for x in xv]; ys = [core.ureal(y, 0.1) for y in yv]
        r = _sweep_one(tb, type_b, xs, ys, None)
        fits += 1
        if r: fails.append({'kind': 'minimiser-result-not-stationary', 'x': xv, 'y': yv, 'u_x': 0.5, 'u_y': 0.1, 'a_b': None, 'detail': r})
    return {'fits': fits, 'failures': fails[:5]}

def _sweep_one(tb, type_b, xs, ys, a_b):
    log = []
    saved = type_b._dbrent
    def wrapped(*a, **k):
        r = saved(*a, **k); log.append((r[0], tuple(float(v) for v in a[:3]))); return r
    type_b._dbrent = wrapped
    try:
        type_b.line_fit_wtls(xs, ys, a_b=a_b)
    except Exception:
        return None                      # the minimiser may raise (oracle); a silent wrong answer is what is checked
    finally:
        type_b._dbrent = saved
    if not log: return None
    return tb.minimiser_postcondition(type_b, xs, ys, None, None, None, log[-1][0], log[-1][1])

# ------------------------------------------------------------------ oracle (search only)
def _fr(x): return Fraction(x)

def wls_exact(xs, ys, ws):
    """exact weighted least squares and its exact derivatives w.r.t. y_i and x_i (Fractions)"""
    S = sum(ws); Sx = sum(w * x for w, x in zip(ws, xs)); Sy = sum(w * y for w, y in zip(ws, ys))
    Sxx = sum(w * x * x for w, x in zip(ws, xs)); Sxy = sum(w * x * y for w, x, y in zip(ws, xs, ys))
    D = S * Sxx - Sx * Sx
    if D == 0: return None
    b = (S * Sxy - Sx * Sy) / D; a = (Sy - b * Sx) / S
    db_dy = [w * (S * x - Sx) / D for w, x in zip(ws, xs)]
    da_dy = [w / S - d * Sx / S for w, d in zip(ws, db_dy)]
    # d/dx_i : differentiate b = Nn/D
    Nn = S * Sxy - Sx * Sy
    db_dx = [((S * w * y - w * Sy) * D - Nn * (2 * S * w * x - 2 * Sx * w)) / (D * D) for w, x, y in zip(ws, xs, ys)]
    da_dx = [(-d * Sx - b * w) / S for w, d in zip(ws, db_dx)]
    return a, b, da_dy, db_dy, da_dx, db_dx

def check_linear(kind, xv, yv, uy, x_unc, ux, u_y_arg):
    """OLS / WLS with independent data: values, sensitivities, variance, covariance against exact
    rational arithmetic.  Returns None or a failing-input dict."""
    from GTC import core, reporting, type_b
    new_context(9)
    ys = [core.ureal(y, u) for y, u in zip(yv, uy)]
    xs = [core.ureal(x, u) for x, u in zip(xv, ux)] if x_unc else list(xv)
    try:
        fit = type_b.line_fit(xs, ys) if kind == 'ols' else type_b.line_fit_wls(xs, ys, u_y_arg)
    except Exception as ex:
        return {'kind': kind, 'x': xv, 'y': yv, 'u_y': uy, 'x_uncertain': x_unc, 'u_x': ux, 'u_y_arg': u_y_arg,
                'what': 'fit raised %s on well-formed data' % type(ex).__name__}
    if kind == 'ols': ws = [Fraction(1)] * len(xv)
    elif u_y_arg is not None: ws = [1 / (_fr(u) * _fr(u)) for u in u_y_arg]
    else: ws = [1 / (_fr(u) * _fr(u)) for u in uy]
    ex = wls_exact([_fr(x) for x in xv], [_fr(y) for y in yv], ws)
    if ex is None: return None
    a, b, da_dy, db_dy, da_dx, db_dx = ex
    A, B = fit.a_b
    base = {'kind': kind, 'x': xv, 'y': yv, 'u_y': uy, 'x_uncertain': x_unc, 'u_x': ux, 'u_y_arg': u_y_arg}
    def bad(got, want, scale=1.0):
        return abs(got - float(want)) > 1e-8 * max(1.0, abs(float(want)), scale)
    if bad(A.x, a) or bad(B.x, b):
        return dict(base, what='values', got=[A.x, B.x], want=[float(a), float(b)])
    va = vb = cab = Fraction(0)
    for i, y in enumerate(ys):
        if bad(reporting.sensitivity(A, y), da_dy[i]) or bad(reporting.sensitivity(B, y), db_dy[i]):
            return dict(base, what='sensitivity to y[%d]' % i, got=[reporting.sensitivity(A, y), reporting.sensitivity(B, y)],
                        want=[float(da_dy[i]), float(db_dy[i])])
        u2 = _fr(uy[i]) ** 2
        va += da_dy[i] ** 2 * u2; vb += db_dy[i] ** 2 * u2; cab += da_dy[i] * db_dy[i] * u2
    if x_unc:
        for i, x in enumerate(xs):
            if bad(reporting.sensitivity(A, x), da_dx[i]) or bad(reporting.sensitivity(B, x), db_dx[i]):
                return dict(base, what='sensitivity to x[%d]' % i, got=[reporting.sensitivity(A, x), reporting.sensitivity(B, x)],
                            want=[float(da_dx[i]), float(db_dx[i])])
            u2 = _fr(ux[i]) ** 2
            va += da_dx[i] ** 2 * u2; vb += db_dx[i] ** 2 * u2; cab += da_dx[i] * db_dx[i] * u2
    if bad(A.v, va) or bad(B.v, vb) or bad(core.get_covariance(A, B), cab):
        return dict(base, what='variance/covariance', got=[A.v, B.v, core.get_covariance(A, B)], want=[float(va), float(vb), float(cab)])
    # prediction and merge
    y0 = core.ureal(yv[0] + 0.25, 0.2); xq = core.ureal(xv[-1] / 2 + 0.1, 0.1)
    if abs(float(b)) > 1e-3:
        X = fit.x_from_y([y0]); Y = fit.y_from_x(xq)
        if bad(X.x, (_fr(y0.x) - a) / b) or bad(reporting.sensitivity(X, y0), 1 / b) or \
           bad(reporting.sensitivity(X, ys[0]), (-da_dy[0] - db_dy[0] * (_fr(y0.x) - a) / b) / b):
            return dict(base, what='x_from_y')
        if bad(Y.x, a + b * _fr(xq.x)) or bad(reporting.sensitivity(Y, xq), b) or \
           bad(reporting.sensitivity(Y, ys[0]), da_dy[0] + db_dy[0] * _fr(xq.x)):
            return dict(base, what='y_from_x')
    from GTC import type_a
    fit2 = type_b.line_fit(xs, ys) if kind == 'ols' else type_b.line_fit_wls(xs, ys, u_y_arg)
    M = type_a.merge(A, fit2.a_b[0])
    if M.x != A.x or bad(reporting.sensitivity(M, ys[0]), 2 * da_dy[0]):
        return dict(base, what='merge')
    # the value of the FIRST argument, also when the second differs from it (within TOL)
    B2 = fit2.a_b[0] + 5e-14
    M2 = type_a.merge(A, B2)
    if B2.x != A.x and (M2.x != A.x or bad(reporting.sensitivity(M2, ys[0]), 2 * da_dy[0])):
        return dict(base, what='merge: not the value of the first argument', got=M2.x, want=A.x)
    return None

def chi2_profile(alpha, xv, yv, u2x, u2y, cov):
    """profile chi-squared (Krystek & Anton) at angle alpha, independent restatement in floats"""
    c, s_ = math.cos(alpha), math.sin(alpha)
    g = [ux * s_ * s_ + uy * c * c - 2 * s_ * c * cv for ux, uy, cv in zip(u2x, u2y, cov)]
    if any(gk <= 0 for gk in g): return None
    z = [y * c - x * s_ for x, y in zip(xv, yv)]
    p = sum(zk / gk for zk, gk in zip(z, g)) / sum(1 / gk for gk in g)
    return sum((zk - p) ** 2 / gk for zk, gk in zip(z, g)), p

def wtls_solve(xv, yv, u2x, u2y, cov, alpha_start):
    """independent minimisation (golden section refined by parabolic steps on a tight bracket)"""
    f = lambda al: chi2_profile(al, xv, yv, u2x, u2y, cov)
    lo, hi = alpha_start - 0.3, alpha_start + 0.3
    for _ in range(200):
        m1 = lo + (hi - lo) * 0.381966; m2 = lo + (hi - lo) * 0.618034
        f1, f2 = f(m1), f(m2)
        if f1 is None or f2 is None: return None
        if f1[0] < f2[0]: hi = m2
        else: lo = m1
    # Newton on the numerical derivative for the last digits
    al = 0.5 * (lo + hi)
    for _ in range(20):
        h = 1e-4
        fm, f0, fp = f(al - h), f(al), f(al + h)
        if None in (fm, f0, fp): return None
        d1 = (fp[0] - fm[0]) / (2 * h); d2 = (fp[0] - 2 * f0[0] + fm[0]) / (h * h)
        if d2 <= 0: break
        step = d1 / d2
        al -= step
        if abs(step) < 1e-13: break
    c2, p = f(al)
    return p / math.cos(al), math.tan(al), al

def check_wtls(xv, yv, ux, uy, rxy, explicit=False, interm=False, a_b=None, wx=None, wy=None, sens=True):
    """line_fit_wtls against an independent minimisation of the stated chi-squared and numerical differentiation of
    that estimator w.r.t. every datum.  Modes: correlations declared on the data / weights given as arguments
    (explicit: u_x = wx, u_y = wy, r_xy, different from the data's own uncertainties) / y data that are declared
    intermediate results sharing a systematic error (interm) / a given initial estimate a_b (near-vertical lines).
    Conservative: only reports differences far above the numerical noise."""
    from GTC import core, reporting, type_b
    new_context(9)
    n = len(xv)
    xs = [core.ureal(x, u, independent=False) for x, u in zip(xv, ux)]
    ys = [core.ureal(y, u, independent=False) for y, u in zip(yv, uy)]
    base = {'kind': 'wtls', 'x': xv, 'y': yv, 'u_x': ux, 'u_y': uy, 'r_xy': rxy, 'explicit': explicit, 'interm': interm,
            'a_b': a_b, 'wx': wx, 'wy': wy}
    ydat = ys; e_sys = None
    if interm:
        e_sys = core.ureal(0.0, 0.07)
        ydat = [core.result(y + e_sys, label='y%d' % i) for i, y in enumerate(ys)]
    elif not explicit:
        for x, y, r in zip(xs, ys, rxy):
            if r != 0: core.set_correlation(r, x, y)
    try:
        if explicit: fit = type_b.line_fit_wtls(xs, ydat, u_x=list(wx), u_y=list(wy), r_xy=list(rxy), a_b=a_b)
        else: fit = type_b.line_fit_wtls(xs, ydat, a_b=a_b)
    except Exception as ex:
        return None          # the minimiser is allowed to fail (oracle)
    A, B = fit.a_b
    if explicit: sx, sy, rr = wx, wy, rxy
    elif interm: sx, sy, rr = ux, [math.sqrt(u * u + 0.07 * 0.07) for u in uy], [0] * n
    else: sx, sy, rr = ux, uy, rxy
    u2x = [u * u for u in sx]; u2y = [u * u for u in sy]; cov = [a_ * b_ * r for a_, b_, r in zip(sx, sy, rr)]
    sol = wtls_solve(xv, yv, u2x, u2y, cov, math.atan(B.x))
    if sol is None: return None
    a, b, al = sol
    tol = 2e-5
    if abs(A.x - a) > tol * max(1, abs(a)) or abs(B.x - b) > tol * max(1, abs(b)):
        return dict(base, what='values', got=[A.x, B.x], want=[a, b])
    def chi2ab(a_, b_):
        return sum((y - a_ - b_ * x) ** 2 / (vy + b_ * b_ * vx - 2 * b_ * c) for x, y, vx, vy, c in zip(xv, yv, u2x, u2y, cov))
    c0 = chi2ab(A.x, B.x)
    if abs(c0 - fit.ssr) > 1e-6 * max(1.0, abs(fit.ssr)):
        return dict(base, what='ssr is not chi-squared at the returned (a, b)', got=fit.ssr, want=c0)
    if not sens: return None
    def solve_at(xv2, yv2):
        return wtls_solve(xv2, yv2, u2x, u2y, cov, al)
    sa_sum = sb_sum = 0.0; ok_sum = True
    for i in range(n):
        for which, objs in (('y', ydat), ('x', xs)):
            h = 1e-3 * max(1.0, abs(1.0 / b)) if which == 'x' else 1e-3
            h = min(h, 1e-3)
            def pert(d):
                xv2, yv2 = list(xv), list(yv)
                if which == 'y': yv2[i] += d
                else: xv2[i] += d
                return solve_at(xv2, yv2)
            r1, r2, r3, r4 = pert(h), pert(-h), pert(h / 2), pert(-h / 2)
            if None in (r1, r2, r3, r4): ok_sum = False; continue
            for j, (est, name) in enumerate(((A, 'a'), (B, 'b'))):
                d1 = (r1[j] - r2[j]) / (2 * h); d2 = (r3[j] - r4[j]) / h
                d = (4 * d2 - d1) / 3; err = abs(d2 - d1)
                got = reporting.sensitivity(est, objs[i])
                if which == 'y':
                    if j == 0: sa_sum += d
                    else: sb_sum += d
                if err > 1e-4 * max(1, abs(d)): ok_sum = False; continue
                if abs(got - d) > 1e-3 * max(1.0, abs(d)) + 10 * err:
                    return dict(base, what='sensitivity of %s to %s[%d]' % (name, which, i), got=got, want=d)
                if interm and which == 'y':
                    got0 = reporting.sensitivity(est, ys[i])      # the elementary reading behind the intermediate result
                    if abs(got0 - d) > 1e-3 * max(1.0, abs(d)) + 10 * err:
                        return dict(base, what='sensitivity of %s to the elementary y0[%d]' % (name, i), got=got0, want=d)
    if interm and ok_sum:
        for est, want, name in ((A, sa_sum, 'a'), (B, sb_sum, 'b')):
            got = reporting.sensitivity(est, e_sys)
            if abs(got - want) > 2e-3 * max(1.0, abs(want)):
                return dict(base, what='sensitivity of %s to the shared systematic error' % name, got=got, want=want)
    return None

def rand_dataset(rng):
    n = rng.randint(3, 10)
    a0 = rng.uniform(-3, 3); b0 = rng.choice([-1, 1]) * rng.uniform(0.3, 2.5)
    xv = [round(i * rng.uniform(0.8, 1.2) + rng.uniform(0, 0.3), 3) for i in range(1, n + 1)]
    yv = [round(a0 + b0 * x + rng.gauss(0, 0.15), 4) for x in xv]
    uy = [round(rng.uniform(0.05, 0.5), 3) for _ in xv]
    ux = [round(rng.uniform(0.02, 0.2), 3) for _ in xv]
    return xv, yv, ux, uy

def steep_dataset(rng):
    a0 = rng.uniform(30, 50); b0 = -rng.uniform(30, 45)
    yv = [0.0, 2.0, 4.0, 6.0, 8.0, 10.0][:rng.randint(4, 6)]
    xv = [round((y - a0) / b0 + rng.gauss(0, 0.003), 4) for y in yv]
    return xv, yv, [0.01] * len(xv), [0.1] * len(xv)

def check_labels(xv, yv, uy):
    """labels only label: x_from_y / y_from_x with a label give the same value and sensitivities, and the label"""
    from GTC import core, reporting, type_b
    new_context(9)
    ys = [core.ureal(y, u) for y, u in zip(yv, uy)]
    base = {'kind': 'labels', 'x': xv, 'y': yv, 'u_y': uy}
    for fit in (type_b.line_fit(xv, ys), type_b.line_fit_wls(xv, ys)):
        y0 = core.ureal(yv[0] + 0.25, 0.2); xq = core.ureal(xv[-1] / 2 + 0.1, 0.1)
        for plain, lab, arg in ((lambda: fit.x_from_y([y0]), lambda: fit.x_from_y([y0], x_label='xl'), y0),
                                (lambda: fit.y_from_x(xq), lambda: fit.y_from_x(xq, y_label='yl'), xq)):
            p = plain()
            try:
                l = lab()
            except Exception as ex:
                return dict(base, what='label', detail='labelled call raised %s' % type(ex).__name__)
            if l.x != p.x or l.u != p.u or l.label not in ('xl', 'yl') or \
               reporting.sensitivity(l, arg) != reporting.sensitivity(p, arg) or \
               reporting.sensitivity(l, ys[0]) != reporting.sensitivity(p, ys[0]):
                return dict(base, what='label', detail='labelled result differs from the unlabelled one')
    return None

def search(rng, tier, broken):
    n = 150 if tier == 'quick' else 1500
    tried = 0
    for i in range(n):
        xv, yv, ux, uy = rand_dataset(rng)
        kind = ['ols', 'wls', 'wtls'][i % 3]
        if kind == 'wtls' and tier == 'quick' and i > 90 and i % 9 != 2: continue
        tried += 1
        try:
            if kind == 'wtls':
                mode = (i // 3) % 8
                rxy = [round(rng.uniform(-0.6, 0.6), 2) if rng.random() < 0.4 else 0 for _ in xv]
                if mode == 0: r = check_wtls(xv, yv, ux, uy, rxy)                      # correlations declared on the data
                elif mode == 1:                                                         # weights as arguments, all different
                    wx = [round(rng.uniform(0.02, 0.2), 3) for _ in xv]; wy = [round(rng.uniform(0.2, 0.6), 3) for _ in xv]
                    r = check_wtls(xv, yv, ux, uy, rxy, explicit=True, wx=wx, wy=wy)
                elif mode == 2: r = check_wtls(xv, yv, ux, uy, [0] * len(xv), interm=True)   # intermediate-result data
                elif mode == 3:                                                         # near-vertical, start with the wrong slope sign
                    xv, yv, ux, uy = steep_dataset(rng)
                    r = check_wtls(xv, yv, ux, uy, [0] * len(xv), a_b=(0.0, round(rng.uniform(3, 6), 2)))
                elif mode == 4:                                                         # any initial estimate, however poor
                    r = check_wtls(xv, yv, ux, uy, rxy, a_b=(round(rng.uniform(-5, 5), 2), round(rng.choice([-1, 1]) * 10 ** rng.uniform(-2, 2), 3)))
                elif mode == 5:                                                         # starts swept around the perpendicular of the best line
                    from GTC import core as _c, type_b as _tb
                    new_context(9)
                    b_ref = _tb.line_fit_wtls([_c.ureal(x, u) for x, u in zip(xv, ux)], [_c.ureal(y, u) for y, u in zip(yv, uy)]).a_b[1].x
                    r = None
                    for k in range(-12, 13):
                        r = check_wtls(xv, yv, ux, uy, [0] * len(xv), a_b=(0.0, math.tan(math.atan(b_ref) + math.pi / 2 + math.radians(0.25 * k))), sens=(k == 0))
                        if r is not None: break
                elif mode == 6:                                                         # default start, u(x) >> u(y), best line nearly vertical
                    n_ = rng.randint(4, 7)
                    yv = [2.0 * i_ for i_ in range(n_)]; xv = [round(1.0 + rng.uniform(-0.35, 0.35), 3) for _ in yv]
                    r = check_wtls(xv, yv, [0.5] * n_, [0.1] * n_, [0] * n_, sens=False)
                else: r = check_labels(xv, yv, uy)
            else:
                x_unc = rng.random() < 0.4
                u_y_arg = [round(rng.uniform(0.05, 0.5), 3) for _ in xv] if (kind == 'wls' and rng.random() < 0.3) else None
                r = check_linear(kind, xv, yv, uy, x_unc, ux, u_y_arg)
        except Exception as ex:
            r = None
        if r is not None and not is_known(r):
            return {'tried': tried, 'failing': r}
    return {'tried': tried, 'failing': None}

def is_known(f):
    # C14-wtls-predict is about a missing method, not about an input of the oracle
    return f.get('what') == 'wtls_predict'

def replay(payload):
    f = payload.get('failing_input')
    print(json.dumps(payload.get('broken'), indent=1)[:3000])
    if f:
        if f['kind'] == 'wtls':
            r = check_wtls(f['x'], f['y'], f['u_x'], f['u_y'], f['r_xy'], f.get('explicit', False), f.get('interm', False),
                           tuple(f['a_b']) if f.get('a_b') else None, f.get('wx'), f.get('wy'))
        elif f['kind'] == 'labels': r = check_labels(f['x'], f['y'], f['u_y'])
        else: r = check_linear(f['kind'], f['x'], f['y'], f['u_y'], f['x_uncertain'], f['u_x'], f['u_y_arg'])
        print('replayed failing input on the implementation:', 'STILL FAILS %r' % (r,) if r else 'passes now')
        return 1 if r else 0
    return 0

# ------------------------------------------------------------------ known findings
def _small_fit():
    from GTC import core, type_b
    new_context(11)
    x = [1.0, 2.0, 3.0, 4.0]
    y = [core.ureal(2.1, 0.1), core.ureal(2.9, 0.1), core.ureal(4.2, 0.1), core.ureal(5.0, 0.1)]
    return x, y, type_b

def kf_C14_label():
    """LineFitOLS/LineFitWLS.x_from_y(..., x_label=) and y_from_x(..., y_label=) raise NameError"""
    x, y, type_b = _small_fit()
    out = []
    for fit in (type_b.line_fit(x, y), type_b.line_fit_wls(x, y)):
        for call in (lambda: fit.x_from_y([y[0]], x_label='x0'), lambda: fit.y_from_x(2.5, y_label='y0')):
            try:
                call(); out.append('ok')
            except NameError as ex:
                out.append('NameError')
            except Exception as ex:
                out.append(type(ex).__name__)
    return all(o == 'NameError' for o in out), out

def kf_C14_wtls_predict():
    """the object returned by type_b.line_fit_wtls has no x_from_y / y_from_x"""
    from GTC import core, type_b
    x, y, type_b = _small_fit()
    xs = [core.ureal(v, 0.05) for v in x]
    fit = type_b.line_fit_wtls(xs, y)
    return (not hasattr(fit, 'x_from_y')) and (not hasattr(fit, 'y_from_x')), type(fit).__name__

def kf_C14_wtls_cov():
    """correlated x-y pairs: the covariance enters g_k twice; ChiSq and dChiSq_dalpha disagree"""
    from GTC import core, type_b
    from GTC.lib import UncertainReal
    new_context(12)
    x = [1.234, 2.101, 3.311, 4.286]; y = [3.4416, 4.017, 5.3863, 6.5554]
    ux = [0.084, 0.184, 0.139, 0.13]; uy = [0.297, 0.232, 0.205, 0.431]; r = [0, 0.43, 0, 0]
    xs = [core.ureal(a, b) for a, b in zip(x, ux)]; ys = [core.ureal(a, b) for a, b in zip(y, uy)]
    fit = type_b.line_fit_wtls(xs, ys, u_x=ux, u_y=uy, r_xy=r)
    u2x = [u * u for u in ux]; u2y = [u * u for u in uy]; cov = [a * b * c for a, b, c in zip(ux, uy, r)]
    a, b, al = wtls_solve(x, y, u2x, u2y, cov, math.atan(fit.a_b[1].x))
    wrong_value = abs(fit.a_b[0].x - a) > 1e-3 and abs(fit.a_b[1].x - b) > 1e-3
    chi = type_b.ChiSq(xs, ys, ux, uy, r); dchi = type_b.dChiSq_dalpha(xs, ys, ux, uy, r)
    c = lambda t: chi(UncertainReal._constant(t)).x
    h = 1e-6; num = (c(0.8 + h) - c(0.8 - h)) / (2 * h); ana = dchi(UncertainReal._constant(0.8)).x
    inconsistent = abs(num - ana) > 1e-3 * abs(num)
    return wrong_value and inconsistent, {'a_b': [fit.a_b[0].x, fit.a_b[1].x], 'true_minimum': [a, b],
                                          'numerical_dChiSq': num, 'dChiSq_dalpha': ana}

def kf_C14_wtls_bracket_end():
    """a poor initial estimate: the returned angle is an end alpha0 -+ pi/2 of the search interval, not a minimum"""
    from GTC import core, type_b
    new_context(13)
    x = [core.ureal(v, 0.01) for v in (1.0198, 0.9552, 0.8899, 0.8249)]
    y = [core.ureal(v, 0.1) for v in (0.0, 2.0, 4.0, 6.0)]
    fit = type_b.line_fit_wtls(x, y, a_b=(0.0, 3.08))
    b = fit.a_b[1].x
    alpha0 = math.atan(3.08)
    d = min(abs(math.atan(b) - (alpha0 - math.pi / 2)), abs(math.atan(b) - (alpha0 + math.pi / 2)),
            abs(math.atan(b) + math.pi - (alpha0 + math.pi / 2)))
    ref = type_b.line_fit_wtls(x, y)
    return d < 1e-6 and abs(b - ref.a_b[1].x) > 1.0, {'a_b': [fit.a_b[0].x, b], 'ssr': fit.ssr,
                                                       'from_default_start': [ref.a_b[0].x, ref.a_b[1].x], 'ssr_default': ref.ssr}

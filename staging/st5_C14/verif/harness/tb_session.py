"""tb_session.py -- correspondence sessions for the type-B line fits (TypeB.v / TBCase.v).

A FitSession is a kernel.KSession (declarations, operators, correlations, reads on the real
GTC, each recorded as a Gallina term together with what the implementation returned) extended
with the fit operations of coq/TypeB.v: type_b.line_fit / line_fit_wls / line_fit_wtls, the
prediction methods x_from_y / y_from_x and type_a.merge.  For line_fit_wtls the minimiser
`_dbrent` is an oracle of the model: its return value alpha1 and the number of temporary
elementary uncertain numbers it created are recorded from the implementation run."""
import math
from common import *
import kernel
from kernel import KSession

def cflist(xs):
    return clist([cf(x) for x in xs])

def carg(a):
    return '(ARef %d)' % a[1] if a[0] == 'ref' else '(ANum %s)' % cf(a[1])

class FitSession(KSession):
    def __init__(self, ctx_id=1):
        KSession.__init__(self, ctx_id)
        from GTC import type_b, type_a, lib
        self.type_b, self.type_a = type_b, type_a
        # every uncertain ** number goes through lib._pow: record the operands (oracle rows by rule)
        self._saved_pow = lib._pow
        sess = self
        def _pow(lhs, rhs):
            try:
                l = lhs.x; r = rhs.x if isinstance(rhs, lib.UncertainReal) else rhs
                sess.extra.append(pow_entry(l, r)); sess.extra.append(pow_entry(l, r - 1))
            except Exception:
                pass
            return sess._saved_pow(lhs, rhs)
        lib._pow = _pow
        self._saved_dbrent = type_b._dbrent
        self.dbrent_log = []
        self.post = None
        def _dbrent(*a, **k):
            from GTC import context
            c0 = context._context._elementary_id_counter
            r = sess._saved_dbrent(*a, **k)
            sess.dbrent_log.append((r[0], context._context._elementary_id_counter - c0, tuple(float(v) for v in a[:3])))
            return r
        type_b._dbrent = _dbrent

    def close(self):
        self.lib._pow = self._saved_pow
        self.type_b._dbrent = self._saved_dbrent
        KSession.close(self)

    # kernel operations are wrapped as FK
    def record(self, opterm, pyop, thunk, multi=False):
        r = KSession.record(self, opterm, pyop, thunk, multi)
        self.ops[-1] = '(FK %s)' % self.ops[-1]
        return r

    def val(self, a):
        return self.slots[a[1]] if a[0] == 'ref' else a[1]
    def xval(self, a):
        return self.slots[a[1]].x if a[0] == 'ref' else float(a[1])

    def _push_obj(self, o):
        """returns the out term of an object result and appends its slot"""
        if id(o) in self.first:
            t = '(OutSame %d)' % self.first[id(o)]
        else:
            self.first[id(o)] = len(self.slots)
            t = self.dump(o)
        self.slots.append(o)
        return t

    def _fit(self, opterm, pyop, thunk, hidden=0):
        """a fit operation: on success pushes `hidden` unobservable slots, then a, b, ssr"""
        self.ops.append(opterm); self.pyops.append(pyop)
        self.stats[pyop[0]] = self.stats.get(pyop[0], 0) + 1
        try:
            fit = thunk()
        except Exception as ex:
            self.outs.append('(OutExn %s)' % cexn(type(ex).__name__))
            self.slots.append(None)
            self.stats['exn'] = self.stats.get('exn', 0) + 1
            self.last_exn = ex
            return None
        a, b = fit.a_b
        self.slots += [None] * hidden
        ia = len(self.slots)
        ta = self.dump(a); self.first[id(a)] = ia; self.slots.append(a)
        tb = self.dump(b); self.first[id(b)] = ia + 1; self.slots.append(b)
        self.slots.append(None)
        self.outs.append('(OutList [%s; %s; (OutVal %s)])' % (ta, tb, cf(fit.ssr)))
        return fit, ia, ia + 1

    def _ssr_rows(self, x, y, fit, u=None):
        """the float ** 2 of the residuals (plain Python arithmetic inside the fit)"""
        fa, fb = fit.a_b[0].x, fit.a_b[1].x
        for i, (xa, ya) in enumerate(zip(x, y)):
            r = self.xval(ya) - fa - fb * self.xval(xa)
            if u is not None: r = r / u[i]
            self.extra.append(pow_entry(r, 2))

    def fit(self, x, y):
        t = '(FFit %s %s)' % (clist([carg(a) for a in x]), clist([carg(a) for a in y]))
        xs, ys = [self.val(a) for a in x], [self.val(a) for a in y]
        r = self._fit(t, ('fit', x, y), lambda: self.type_b.line_fit(xs, ys))
        if r: self._ssr_rows(x, y, r[0])
        return r

    def _wls_rows(self, x, y, u_y, a, b):
        """oracle rows of the plain arithmetic of line_fit_wls, given its results"""
        class F: pass
        f = F(); f.a_b = (a, b)
        if u_y is None:
            u = [math.sqrt(self.val(ya).v) for ya in y]
        else:
            u = list(u_y)
            for v in u_y: self.extra.append(pow_entry(v, 2))
        self._ssr_rows(x, y, f, u)

    def fit_wls(self, x, y, u_y=None):
        t = '(FFitWLS %s %s %s)' % (clist([carg(a) for a in x]), clist([carg(a) for a in y]), copt(u_y, cflist))
        xs, ys = [self.val(a) for a in x], [self.val(a) for a in y]
        if u_y is not None:
            for v in u_y: self.extra.append(pow_entry(v, 2))
        r = self._fit(t, ('fit_wls', x, y, u_y), lambda: self.type_b.line_fit_wls(xs, ys, u_y))
        if r: self._wls_rows(x, y, u_y, *r[0].a_b)
        return r

    def fit_wtls(self, x, y, u_x=None, u_y=None, r_xy=None, a_b=None):
        xs, ys = [self.val(a) for a in x], [self.val(a) for a in y]
        n0 = len(self.dbrent_log)
        for l in (u_x, u_y):
            if l is not None:
                for v in l: self.extra.append(pow_entry(v, 2))
        if a_b is None:
            # the initial estimate is line_fit_wls(x, y, u_y): its plain arithmetic needs oracle rows too
            saved = (list(self.rec.log), list(self.extra))
            try:
                f0 = self.type_b.line_fit_wls(xs, ys, u_y)
                self._wls_rows(x, y, u_y, *f0.a_b)
            except Exception:
                pass
        nops = len(self.ops)
        self.ops.append(None)       # placeholder: the term needs the oracle values
        pyop = ('fit_wtls', x, y, u_x, u_y, r_xy, a_b)
        self.ops.pop()
        # run
        def th():
            return self.type_b.line_fit_wtls(xs, ys, u_x=u_x, u_y=u_y, a_b=a_b, r_xy=r_xy)
        r = self._fit('?', pyop, th, hidden=3)
        if len(self.dbrent_log) > n0:
            alpha1, ntmp, br = self.dbrent_log[-1]
            if r:
                # the search interval handed to the minimiser is an output of the model
                assert self.outs[-1].endswith('])')
                self.outs[-1] = self.outs[-1][:-2] + '; (OutVal %s); (OutVal %s); (OutVal %s)])' % tuple(cf(v) for v in br)
                # post-condition of the oracle: alpha1 is a stationary point of chi-squared, not an end of the interval
                self.post = minimiser_postcondition(self.type_b, xs, ys, u_x, u_y, r_xy, alpha1, br)
        else:
            alpha1, ntmp = 0.0, 0
            self.oracle_failed = True          # the minimiser itself raised, or was never reached
        cab = copt(a_b, lambda p: '(%s, %s)' % (cf(p[0]), cf(p[1])))
        self.ops[nops] = '(FFitWTLS %s %s %s %s %s %s %s %s)' % (
            clist([carg(a) for a in x]), clist([carg(a) for a in y]), copt(u_x, cflist), copt(u_y, cflist),
            copt(r_xy, cflist), cab, cf(alpha1), cz(ntmp))
        self.pyops[nops] = ('fit_wtls', x, y, u_x, u_y, r_xy, a_b, alpha1, ntmp)
        return r

    def _pred(self, opterm, pyop, thunk, label):
        self.ops.append(opterm); self.pyops.append(pyop)
        self.stats[pyop[0]] = self.stats.get(pyop[0], 0) + 1
        try:
            r = thunk()
        except Exception as ex:
            self.outs.append('(OutExn %s)' % cexn(type(ex).__name__))
            self.slots.append(None)
            self.stats['exn'] = self.stats.get('exn', 0) + 1
            return None
        if label is not None:
            self.slots.append(None)       # the unlabelled temporary
        self.outs.append(self._push_obj(r))
        return len(self.slots) - 1

    def x_from_y(self, fit, ia, ib, yseq, label=None):
        t = '(FXfromY %d %d %s %s)' % (ia, ib, clist([carg(a) for a in yseq]), copt(label, cz))
        ys = [self.val(a) for a in yseq]
        lab = None if label is None else 'L%d' % label
        return self._pred(t, ('x_from_y', ia, ib, yseq, label), lambda: fit.x_from_y(ys, x_label=lab), label)

    def y_from_x(self, fit, ia, ib, x, label=None):
        t = '(FYfromX %d %d %s %s)' % (ia, ib, carg(x), copt(label, cz))
        lab = None if label is None else 'L%d' % label
        return self._pred(t, ('y_from_x', ia, ib, x, label), lambda: fit.y_from_x(self.val(x), y_label=lab), label)

    def merge(self, a, b, tol=1e-13):
        t = '(FMerge %s %s %s)' % (carg(a), carg(b), cf(tol))
        return self._pred(t, ('merge', a, b, tol), lambda: self.type_a.merge(self.val(a), self.val(b), TOL=tol), None)


def minimiser_postcondition(type_b, xs, ys, u_x, u_y, r_xy, alpha1, br):
    """Newton step F/F' of dChiSq_dalpha at the returned angle (F' by a central difference of the analytic F) and the
    distance to the ends of the interval handed to _dbrent.  Returns None when alpha1 is a stationary point inside the
    interval (|step| <= 1e-6 rad: the tolerance of _dbrent is 1.5e-8*|alpha| + 1e-10), else a description."""
    from GTC.lib import UncertainReal
    if u_x is not None and r_xy is None: r_xy = [0] * len(u_x)      # as line_fit_wtls does
    d = type_b.dChiSq_dalpha(xs, ys, u_x, u_y, r_xy)
    F = lambda a: d(UncertainReal._constant(a)).x
    h = 1e-5
    f0 = F(alpha1); f1 = (F(alpha1 + h) - F(alpha1 - h)) / (2 * h)
    end = min(abs(alpha1 - br[0]), abs(alpha1 - br[2]))
    if not (f1 > 0) or abs(f0 / f1) > 1e-6 or end < 1e-7:
        return {'alpha1': alpha1, 'interval': list(br), 'dChiSq_dalpha': f0, 'second_derivative': f1,
                'newton_step': (f0 / f1 if f1 else None), 'distance_to_interval_end': end}
    return None

HEADER = '''From Coq Require Import ZArith List PrimFloat String.
From GTCV Require Import Num FNum Vector Opres KTypes Kernel TBLib TypeB TBCase.
Import ListNotations.
Local Open Scope float_scope.
'''

def emit_cases(dirname, sessions, per_file=12, prefix='fcases'):
    files = []
    for fi in range(0, len(sessions), per_file):
        chunk = sessions[fi:fi + per_file]
        path = os.path.join(dirname, '%s_%d.v' % (prefix, fi // per_file))
        with open(path, 'w') as f:
            f.write(HEADER)
            for j, s in enumerate(chunk):
                f.write('Definition c%d : fcase := %s.\n' % (j, s.case_term()))
            f.write('Definition all_cases : list fcase := %s.\n' % clist(['c%d' % j for j in range(len(chunk))]))
            f.write('Eval vm_compute in (report_fcases all_cases).\n')
        files.append((path, list(range(fi, fi + len(chunk)))))
    return files

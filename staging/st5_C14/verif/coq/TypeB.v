(* TypeB.v -- executable model of GTC/type_b.py line_fit, line_fit_wls, line_fit_wtls, the
   prediction methods of LineFitOLS / LineFitWLS and of type_a.merge, as *session operations*
   on top of the kernel state machine (Kernel.v).

   The arithmetic of every routine is the GENERATED code of gen/Gen_type_b.v (regenerated from
   the source on every run).  Hand-written here: how data are passed (slots / plain numbers),
   the reads of `.v` (which fill the `_u` cache of the datum), the driver of line_fit_wtls
   after the minimiser (the minimiser `_dbrent` itself is an ORACLE: its result alpha1 and
   the number of temporary elementary numbers it created are inputs of the operation), the
   label step (`result(x, label=...)`) of the prediction methods.  Definitions only. *)
From Coq Require Import ZArith List Bool.
From GTCV Require Import Num Vector Opres KTypes Kernel TBLib.
From GTCV.gen Require Import Gen_type_b.
Import ListNotations.

Section Fop.
  Variable V : Type.
  Inductive fop :=
  | FK (o : op V)                                             (* a kernel operation *)
  | FFit (x y : list (arg V))                                 (* type_b.line_fit(x, y) *)
  | FFitWLS (x y : list (arg V)) (u_y : option (list V))      (* type_b.line_fit_wls(x, y, u_y) *)
  | FFitWTLS (x y : list (arg V)) (u_x u_y r_xy : option (list V)) (a_b : option (V * V))
             (alpha1 : V) (n_tmp : Z)                         (* type_b.line_fit_wtls(...) *)
  | FXfromY (ia ib : nat) (yseq : list (arg V)) (label : option Z)  (* fit.x_from_y(yseq, label) *)
  | FYfromX (ia ib : nat) (x : arg V) (label : option Z)            (* fit.y_from_x(x, label) *)
  | FMerge (a b : arg V) (tol : V).                                 (* type_a.merge(a, b, tol) *)
End Fop.
Arguments FK {V} o.
Arguments FFit {V} x y.
Arguments FFitWLS {V} x y u_y.
Arguments FFitWTLS {V} x y u_x u_y r_xy a_b alpha1 n_tmp.
Arguments FXfromY {V} ia ib yseq label.
Arguments FYfromX {V} ia ib x label.
Arguments FMerge {V} a b tol.

Section TypeB.
  Variable N : Num.
  Notation V := (T N).
  Notation ureal := (ureal V). Notation state := (state V). Notation out := (out V).
  Notation arg := (arg V). Notation op := (op V). Notation expr := (Kernel.expr N).
  Notation mval := (mval N).

  (* ---------- the three session-dependent parameters of the generated code ---------- *)
  Definition ev_in (s : state) (e : expr) : res V :=
    o <- eval_un N s e ;; Ok (match o with OpdU a => ux a | OpdN v => v end).

  Definition eval_obj (s : state) (m : mval) : res ureal :=
    match m with
    | MN _ => Err TypeError
    | ME e => o <- eval_un N s e ;; match o with OpdU a => Ok a | OpdN _ => Err TypeError end
    end.

  (* the object and its cache: a datum is a slot *)
  Definition obj_cache (s : state) (m : mval) : res (ureal * option V) :=
    match m with
    | MN _ => Err AttributeError
    | ME (EVar _ i) => '(_, o, c) <- get_real N s i ;; Ok (o, c)
    | ME _ => o <- eval_obj s m ;; Ok (o, None)
    end.

  (* y_i.v *)
  Definition varof_in (s : state) (m : mval) : res V :=
    '(o, c) <- obj_cache s m ;; '(v, _) <- prop_v N s o c ;; Ok v.

  (* x_i.get_covariance(y_i) *)
  Definition covof_in (s : state) (a b : mval) : res V :=
    '(oa, _) <- obj_cache s a ;;
    match b with
    | MN _ => Ok (dyad N 0 0)
    | ME _ => '(ob, _) <- obj_cache s b ;; get_covariance_real N s oa ob
    end.

  Definition arg_mval (a : arg) : mval :=
    match a with ARef i => ME (EVar N i) | ANum v => MN v end.

  (* reading .v of a slot object fills its _u cache *)
  Definition touch_v (s : state) (a : arg) : state :=
    match a with
    | ANum _ => s
    | ARef i => match get_real N s i with
                | Ok (j, o, c) => match prop_v N s o c with
                                  | Ok (_, c') => set_cache N s j o c'
                                  | Err _ => s
                                  end
                | Err _ => s
                end
    end.
  Definition touch_all (s : state) (l : list arg) : state := fold_left touch_v l s.

  Definition nums (l : list V) : list mval := map (fun v => MN v) l.

  Notation fop := (fop V).

  Definition fit_out (s : state) (a b ssr : mval) : state * out :=
    match eval_obj s a, eval_obj s b, mvalue N (ev_in s) ssr with
    | Ok oa, Ok ob, Ok r =>
        (push N (push N (push N s (SReal oa None)) (SReal ob None)) (SNum r),
         OutList [dump N oa; dump N ob; OutVal r])
    | Err e, _, _ => fail N s e
    | _, Err e, _ => fail N s e
    | _, _, Err e => fail N s e
    end.

  (* the unlabelled result of a prediction method or of merge, then the label step *)
  Definition finish_pred (s : state) (m : res mval) (label : option Z) : state * out :=
    match m with
    | Err e => fail N s e
    | Ok (MN v) => (push N s (SNum v), OutVal v)
    | Ok (ME e) =>
        let idx := length (s_slots s) in
        let first :=
          match e with
          | EVar _ i => Ok (push N s (SAlias (resolve N s i)), OutSame (resolve N s i))
          | _ => match eval_obj s (ME e) with
                 | Ok o => Ok (push N s (SReal o None), dump N o)
                 | Err ex => Err ex
                 end
          end in
        match first with
        | Err ex => fail N s ex
        | Ok (s1, o1) =>
            match label with
            | None => (s1, o1)
            | Some l =>
                (* result(x, label=l): the name `result` must be bound in type_b.py *)
                if g_tb_result_bound then step N s1 (OpResult idx (Some l))
                else fail N s OtherExn           (* NameError *)
            end
        end
    end.

  Definition neg_one : V := neg N (dyad N 1 0).
  Definition pi_ : V := dyad N 884279719003555 (-48).          (* math.pi *)
  Definition half_pi : V := dyad N 884279719003555 (-49).      (* HALF_PI = math.pi / 2.0 *)

  Definition fstep (s : state) (o : fop) : state * out :=
    match o with
    | FK k => step N s k
    | FFit x y =>
        match g_line_fit N (ev_in s) (varof_in s) (covof_in s) (map arg_mval x) (map arg_mval y) with
        | Err e => fail N s e
        | Ok (a, b, ssr, _) => fit_out s a b ssr
        end
    | FFitWLS x y u_y =>
        match g_line_fit_wls N (ev_in s) (varof_in s) (covof_in s) (map arg_mval x) (map arg_mval y)
                             (option_map nums u_y) with
        | Err e => fail N s e
        | Ok (a, b, ssr, _) =>
            let s1 := match u_y with None => touch_all s y | Some _ => s end in
            fit_out s1 a b ssr
        end
    | FFitWTLS x y u_x u_y r_xy a_b alpha1 n_tmp =>
        let xm := map arg_mval x in
        let ym := map arg_mval y in
        let n := length x in
        if negb (Nat.eqb n (length y)) then fail N s RuntimeError
        else if (match u_x, u_y with None, Some _ | Some _, None => true | _, _ => false end)
        then fail N s RuntimeError
        else if (match u_x, u_y with
                 | Some ux_, Some uy_ => negb (Nat.eqb (length ux_) n) || negb (Nat.eqb (length uy_) n)
                 | _, _ => false end)
        then fail N s RuntimeError
        else if negb (forallb (is_ME N) xm && forallb (is_ME N) ym) then fail N s AssertionError
        else
          let r_l := match r_xy with Some r => nums r | None => map (fun _ => MN (of_Z N 0)) x end in
          let uy_l := match u_y with Some u => nums u | None => [] end in
          let ev := ev_in s in let vo := varof_in s in let co := covof_in s in
          (* a_b = line_fit_wls(x, y, u_y).a_b ; b0 = value(a_b[1]) *)
          let init :=
            match a_b with
            | Some (_, b0) => Ok (s, b0)
            | None =>
                '(a, b, _, _) <- g_line_fit_wls N ev vo co xm ym (option_map nums u_y) ;;
                b0 <- mvalue N ev b ;;
                Ok (match u_y with None => touch_all s y | Some _ => s end, b0)
            end in
          match init with
          | Err e => fail N s e
          | Ok (s0, b0) =>
            let r :=
              (* reading .v fills the _u cache, and a cached object answers u*u: each constructor sees
                 the caches left by the reads before it *)
              '(cx_u, cy_u, cx, cy, cu2x, cu2y, ccov) <- g_ChiSq_init N (ev_in s0) (varof_in s0) (covof_in s0) xm ym (option_map nums u_x) uy_l r_l ;;
              let s1 := match u_x with None => touch_all (touch_all s0 x) y | Some _ => s0 end in
              (* the search interval handed to the minimiser: alpha0 = atan(b0), x1/x2 = alpha0 -+ pi/2; chi-squared
                 has period pi, so this brackets a minimum only if chi_sq(alpha0) is below the values at the ends;
                 otherwise the interval is centred on the least value of a 36-point grid over one period *)
              alpha0 <- libm1 N F_atan b0 ;;
              let x1 := sub N alpha0 half_pi in
              let x2 := add N alpha0 half_pi in
              (* value(chi_sq(constant(c))): ChiSq.arrays / __call__ (gen: g_ChiSq_arrays, g_ChiSq_call) with the four
                 trigonometric values evaluated once and shared (the same float operations; the tree of g_ChiSq_call
                 repeats sin(2c), cos(2c) in every g_k, and 39 such evaluations dominate the run time otherwise) *)
              let chi_at := fun c : V =>
                let i0 := length (s_slots s1) in
                let sc := push N s1 (SReal (mk_constant N c None) None) in
                let al := ME (EVar N i0) in
                two_al <- mbin N B_mul (MN (dyad N 2 0)) al ;;
                t_sa <- mun N U_sin al ;; t_s2 <- mun N U_sin two_al ;; t_ca <- mun N U_cos al ;; t_c2 <- mun N U_cos two_al ;;
                o_sa <- eval_obj sc t_sa ;; o_s2 <- eval_obj sc t_s2 ;; o_ca <- eval_obj sc t_ca ;; o_c2 <- eval_obj sc t_c2 ;;
                let sc4 := push N (push N (push N (push N sc (SReal o_sa None)) (SReal o_s2 None)) (SReal o_ca None)) (SReal o_c2 None) in
                let r i := ME (EVar N (i0 + i)) in
                '(vk, _, _, gk, _, _, _, _) <- g_arrays N (ev_in sc4) (varof_in sc4) (covof_in sc4) (r 1%nat) (r 3%nat) (r 2%nat) (r 4%nat)
                                                       cx cy cu2x cu2y ccov ;;
                t <- msum_with N (fun '(v, g) => t1 <- mbin N B_pow v (MN (of_Z N 2)) ;; mbin N B_div t1 g) (combine vk gk) ;;
                mvalue N (ev_in sc4) t in
              c0 <- chi_at alpha0 ;;
              c1 <- chi_at x1 ;;
              brackets <- (if ltb N c0 c1 then c2 <- chi_at x2 ;; Ok (ltb N c0 c2) else Ok false) ;;
              '(alpha0', x1', x2') <-
                (if brackets : bool then Ok (alpha0, x1, x2)
                 else
                   let pt := fun i : Z => q <- div N (mul N (of_Z N i) pi_) (of_Z N 36) ;; Ok (add N x1 q) in
                   g0 <- pt 0%Z ;; f0 <- chi_at g0 ;;
                   best <- fold_left (fun acc i => '(gb, fb) <- acc ;; g <- pt i ;; f <- chi_at g ;;
                                                   Ok (if ltb N f fb then (g, f) else (gb, fb)))
                                     (map Z.of_nat (seq 1 35)) (Ok (g0, f0)) ;;
                   Ok (fst best, sub N (fst best) half_pi, add N (fst best) half_pi)) ;;
              (* _dbrent(x1', alpha0', x2') : oracle; it created n_tmp elementary uncertain numbers *)
              let s2 := mkS (s_ctx s1) (s_ne s1 + n_tmp)%Z (s_ni s1) (s_leaves s1) (s_nodes s1) (s_ens s1) (s_slots s1) in
              '(dx, dy, du2x, du2y, dcov) <- g_dChiSq_dalpha_init N (ev_in s2) (varof_in s2) (covof_in s2) xm ym (option_map nums u_x) uy_l r_l ;;
              (* alpha = ureal(alpha1, 1) *)
              '(s3, o_alpha) <- elementary N s2 alpha1 (dyad N 1 0) DInf None true ;;
              let i_alpha := length (s_slots s3) in
              let s4 := push N s3 (SReal o_alpha None) in
              F1 <- g_dChiSq_dalpha_call N (ev_in s4) (varof_in s4) (covof_in s4) dx dy du2x du2y dcov (ME (EVar N i_alpha)) ;;
              oF1 <- eval_obj s4 F1 ;;
              sens <- sensitivity N s4 oF1 o_alpha ;;
              dalpha_dF <- div N neg_one sens ;;
              (* F_alpha = dChiSq_a( constant(alpha1) ) *)
              let i_c := length (s_slots s4) in
              let s5 := push N s4 (SReal (mk_constant N alpha1 None) None) in
              F2 <- g_dChiSq_dalpha_call N (ev_in s5) (varof_in s5) (covof_in s5) dx dy du2x du2y dcov (ME (EVar N i_c)) ;;
              oF2 <- eval_obj s5 F2 ;;
              let o_al := mkU alpha1 (scale (uc oF2) dalpha_dF) (scale (dc oF2) dalpha_dF)
                              (scale (ic oF2) dalpha_dF) NoNode in
              let i_al := length (s_slots s5) in
              let s6 := push N s5 (SReal o_al None) in
              let al := ME (EVar N i_al) in
              p_hat <- g_ChiSq_p_hat N (ev_in s6) (varof_in s6) (covof_in s6) cx_u cy_u cx cy cu2x cu2y ccov al ;;
              b <- mun N U_tan al ;;
              ca <- mun N U_cos al ;;
              a <- mbin N B_div p_hat ca ;;
              chi <- g_ChiSq_call N (ev_in s6) (varof_in s6) (covof_in s6) cx_u cy_u cx cy cu2x cu2y ccov (ME (EVar N i_c)) ;;
              oa <- eval_obj s6 a ;; ob <- eval_obj s6 b ;; ssr <- mvalue N (ev_in s6) chi ;;
              Ok (push N (push N (push N s6 (SReal oa None)) (SReal ob None)) (SNum ssr),
                  OutList [dump N oa; dump N ob; OutVal ssr; OutVal x1'; OutVal alpha0'; OutVal x2']) in
            match r with
            | Ok so => so
            | Err e => fail N s e
            end
          end
    | FXfromY ia ib yseq label =>
        finish_pred s (g_x_from_y N (ev_in s) (varof_in s) (covof_in s) (ME (EVar N ia)) (ME (EVar N ib))
                                  (map arg_mval yseq)) label
    | FYfromX ia ib x label =>
        finish_pred s (g_y_from_x N (ev_in s) (varof_in s) (covof_in s) (ME (EVar N ia)) (ME (EVar N ib))
                                  (arg_mval x)) label
    | FMerge a b tol =>
        finish_pred s (g_merge N (ev_in s) (varof_in s) (covof_in s) (arg_mval a) (arg_mval b) (MN tol)) None
    end.

  Fixpoint frun (s : state) (p : list fop) : state * list out :=
    match p with
    | [] => (s, [])
    | o :: p' => let '(s', r) := fstep s o in
                 let '(s'', rs) := frun s' p' in (s'', r :: rs)
    end.
End TypeB.


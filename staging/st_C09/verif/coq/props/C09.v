(* props/C09.v -- Property C09: stored documents conform to the shipped schemas under every
   writer option.  Statements only; proofs live in JsonFacts.v / XmlFacts.v.  The schema term
   [gtc_schema]/[gtc_defs], the version string and the sniff pattern are regenerated from
   /repo on every run (gen/Gen_schema_json.v). *)
From Coq Require Import List Bool Ascii String ZArith NArith Floats.
From GTCV Require Import Num FNum Regex Json JsonArchive JsonFacts.
From GTCV.gen Require Import Gen_schema_json.
Import ListNotations.
Local Open Scope string_scope.

(* (1) every document json_format.archive_to_json builds from a well-formed frozen archive
   with identifier-like tags validates against GTC/schema/gtc_v_1_5_0.json -- all sizes of
   all collections, any number carrier (binary64, reals, ...) *)
Theorem C09_json_valid :
  forall (N : Num) (a : farchive N),
    wf N a -> ident_tags N a ->
    validates N gtc_defs gtc_schema (json_encode N json_schema_id a) = true.
Proof. exact json_valid. Qed.
Print Assumptions C09_json_valid.

(* (2) the reader's dispatch: persistence.loads_json takes the current-format decoder iff the
   regular expression regenerated from its source ([sniff_pat]) is found in the printed text.
   For EVERY archive and EVERY indent / item separator / key separator / sort_keys / ensure_ascii
   of json.dumps the printed document is recognised; the key separator ranges over all strings
   that print JSON at all (white space, a colon, white space -- [key_sep_ok]).  Numbers and
   strings are printed by arbitrary functions; only "version" and the schema id must be printed
   as plain quoted text.  (Before the repair of persistence.loads_json this was refuted for
   separators=(',', ':'): fixed finding C09-1, replayed as a regression on every run.) *)
Theorem C09_sniff_all_options :
  forall (N : Num) (pnum : T N -> string) (pstr : bool -> string -> string) (o : jopts) (a : farchive N),
    key_sep_ok (o_key_sep o) ->
    quotes_plainly pstr (o_ensure_ascii o) "version" ->
    quotes_plainly pstr (o_ensure_ascii o) json_schema_id ->
    pmatch sniff_pat (print_json N pnum pstr o (json_encode N json_schema_id a)) = true.
Proof. exact sniff_all_options. Qed.
Print Assumptions C09_sniff_all_options.

(* Python's defaulting of `separators` (None -> (', ' or ',', ': ')) always gives such a key
   separator; so do the compact and the spaced forms *)
Lemma space_ok : all_space " ".
Proof. intros c [<-|[]]. reflexivity. Qed.
Lemma empty_ok : all_space "".
Proof. intros c []. Qed.

Theorem C09_key_separators :
  key_sep_ok ": " /\ key_sep_ok ":" /\ key_sep_ok " : " /\
  forall indent i k sk ea, key_sep_ok k ->
    key_sep_ok (o_key_sep (resolve_opts indent None sk ea)) /\
    key_sep_ok (o_key_sep (resolve_opts indent (Some (i, k)) sk ea)).
Proof.
  assert (H1 : key_sep_ok ": ") by (exists "", " "; repeat split; [apply empty_ok | apply space_ok]).
  split; [exact H1|]. split; [exists "", ""; repeat split; apply empty_ok|].
  split; [exists " ", " "; repeat split; apply space_ok|].
  intros indent i k sk ea Hk. split; [exact H1 | exact Hk].
Qed.
Print Assumptions C09_key_separators.

(* the former counterexample (Archive().add(x=ureal(1.5, 0.25, 4)) written with
   separators=(',', ':'); its text is compared with the implementation's on every run) is now
   recognised; a key separator without a colon -- not JSON -- is not *)
From GTCV Require Import C09Case.
Example C09_sniff_compact_witness :
  wf F wit_archive /\ ident_tags F wit_archive /\ o_key_sep compact_opts = ":" /\
  pmatch sniff_pat wit_text = true /\
  pmatch sniff_pat (print_json F wit_pnum plain_pstr (resolve_opts None (Some (",", "=")) false true)
                      (json_encode F json_schema_id wit_archive)) = false.
Proof.
  split; [|split; [|split; [|split]]].
  - split; [|split]; repeat constructor.
  - split; repeat constructor.
  - reflexivity.
  - vm_compute. reflexivity.
  - vm_compute. reflexivity.
Qed.

(* non-vacuity of (1) and (2): a concrete archive with a correlated ensemble pair, a complex
   quantity, a real intermediate result and a tagged complex meets wf and ident_tags *)
Local Open Scope float_scope.
Definition ex_archive : farchive F :=
  mkArchive F
    [mkLeaf F (7%N, 1%N) (Some "x") 0.5 (Some 4) true None None None;
     mkLeaf F (7%N, 5%N) None 0.125 (Some 5) false None
            (Some [((7%N, 5%N), 1); ((7%N, 6%N), 0.25)]) (Some [(7%N, 5%N); (7%N, 6%N)]);
     mkLeaf F (7%N, 3%N) (Some "z_re") 1 None true (Some ((7%N, 3%N), (7%N, 4%N))) None None;
     mkLeaf F (7%N, 4%N) (Some "z_im") 2 None true (Some ((7%N, 3%N), (7%N, 4%N))) None None]
    [("x", @TElem F 1.5 (7%N, 1%N));
     ("w", @TInterm F 4 (Some "w") (7%N, 1%N) [((7%N, 1%N), 1)] [((7%N, 5%N), 0.125)] [((7%N, 1%N), 1.75)])]
    [("z", mkTC "z_re" "z_im" (Some "z"))]
    [("z_re", @TElem F 1 (7%N, 3%N)); ("z_im", @TElem F 2 (7%N, 4%N))]
    [((7%N, 1%N), mkInterm F (Some "w") 1.75 None)].

Example C09_nonvacuous :
  wf F ex_archive /\ ident_tags F ex_archive /\
  validates F gtc_defs gtc_schema (json_encode F json_schema_id ex_archive) = true /\
  validates F gtc_defs gtc_schema (jsort F (json_encode F json_schema_id ex_archive)) = true.
Proof.
  split; [|split; [|split]].
  - split; [|split].
    + repeat constructor; discriminate.
    + repeat constructor.
    + repeat constructor; exists "z"; (split; [left; reflexivity|]); [left | right]; reflexivity.
  - split; repeat constructor.
  - vm_compute. reflexivity.
  - vm_compute. reflexivity.
Qed.

(* the validator does reject: the same document with a negative uncertainty, a tag that is not an
   identifier, or a missing leaf table is invalid (so C09_json_valid is not true by accident) *)
Example C09_validator_rejects :
  validates F gtc_defs gtc_schema
    (json_encode F json_schema_id
       (mkArchive F [mkLeaf F (7%N, 1%N) None (-0.5) None true None None None] [] [] [] [])) = false /\
  validates F gtc_defs gtc_schema
    (json_encode F json_schema_id
       (mkArchive F [] [("1x", @TElem F 1.5 (7%N, 1%N))] [] [] [])) = false /\
  validates F gtc_defs gtc_schema (JObj [("CLASS", JStr "Archive")]) = false.
Proof. repeat split; vm_compute; reflexivity. Qed.

(* (4) XML namespace prefix (fixed finding C09-3).  The test archive_to_xml applies to a prefix --
   its code-point ranges are regenerated from xml_format.py -- is exactly the NCName production of
   Namespaces in XML 1.0 (Name of XML 1.0 5th ed. without colons), and an accepted prefix is
   non-empty and colon-free, so every element name prefix:local it forms is a QName with that
   prefix.  (No Coq model of the XML document itself: partial, see PARTIAL.) *)
Theorem C09_prefix_test_is_ncname :
  forall p, prefix_ok xml_prefix_start xml_prefix_char p = prefix_ok xml10_ncname_start xml10_ncname_char p.
Proof. intro p. reflexivity. Qed.
Print Assumptions C09_prefix_test_is_ncname.

Theorem C09_prefix_accepted_no_colon :
  forall p, prefix_ok xml_prefix_start xml_prefix_char p = true -> p <> [] /\ ~ In 58%N p.
Proof.
  intros [|c r] H; [discriminate|]. split; [discriminate|].
  cbn [prefix_ok] in H. apply andb_true_iff in H as [Hc Hr].
  intros [->|Hin].
  - vm_compute in Hc. discriminate.
  - rewrite forallb_forall in Hr. apply Hr in Hin. vm_compute in Hin. discriminate.
Qed.
Print Assumptions C09_prefix_accepted_no_colon.

Example C09_prefix_examples :
  prefix_ok xml_prefix_start xml_prefix_char [233]%N = true /\                 (* 'é' *)
  prefix_ok xml_prefix_start xml_prefix_char [1076; 1072; 1085]%N = true /\    (* 'дан' *)
  prefix_ok xml_prefix_start xml_prefix_char [103; 46; 45; 49]%N = true /\     (* 'g.-1' *)
  prefix_ok xml_prefix_start xml_prefix_char [49; 120]%N = false /\            (* '1x' *)
  prefix_ok xml_prefix_start xml_prefix_char [215; 97]%N = false /\            (* '×a' *)
  prefix_ok xml_prefix_start xml_prefix_char [768; 97]%N = false /\            (* combining grave + a *)
  prefix_ok xml_prefix_start xml_prefix_char [97; 10]%N = false /\             (* 'a\n' *)
  prefix_ok xml_prefix_start xml_prefix_char [97; 58; 98]%N = false.           (* 'a:b' *)
Proof. repeat split; vm_compute; reflexivity. Qed.

(* tags that are words of the storage formats themselves ("CLASS", "version", "leaf_nodes", "x", a
   name ending in _re, ...) are identifiers like any other: C09_json_valid covers them, because tags
   occur only as member names of the three tagged_* objects, which the schema constrains by pattern
   alone.  A concrete instance (the correspondence run writes every such word as a tag): *)
Definition reserved_tag_archive : farchive F :=
  mkArchive F
    [mkLeaf F (7%N, 1%N) (Some "CLASS") 0.5 (Some 4) true None None None;
     mkLeaf F (7%N, 2%N) None 1 None true (Some ((7%N, 2%N), (7%N, 3%N))) None None;
     mkLeaf F (7%N, 3%N) None 2 None true (Some ((7%N, 2%N), (7%N, 3%N))) None None]
    [("CLASS", @TElem F 1.5 (7%N, 1%N)); ("version", @TElem F 1.5 (7%N, 1%N));
     ("leaf_nodes", @TElem F 1.5 (7%N, 1%N)); ("x_re", @TElem F 1.5 (7%N, 1%N));
     ("Archive", @TInterm F 4 None (7%N, 1%N) [((7%N, 1%N), 1)] [] [((7%N, 1%N), 1.75)])]
    [("uid", mkTC "uid_re" "uid_im" None)]
    [("uid_re", @TElem F 1 (7%N, 2%N)); ("uid_im", @TElem F 2 (7%N, 3%N))]
    [((7%N, 1%N), mkInterm F None 1.75 None)].

Example C09_reserved_word_tags :
  wf F reserved_tag_archive /\ ident_tags F reserved_tag_archive /\
  validates F gtc_defs gtc_schema (json_encode F json_schema_id reserved_tag_archive) = true.
Proof.
  assert (Hw : wf F reserved_tag_archive).
  { split; [|split].
    - repeat constructor.
    - repeat constructor.
    - repeat constructor; exists "uid"; (split; [left; reflexivity|]); [left | right]; reflexivity. }
  assert (Hi : ident_tags F reserved_tag_archive) by (split; repeat constructor).
  split; [exact Hw | split; [exact Hi | exact (C09_json_valid F _ Hw Hi)]].
Qed.
